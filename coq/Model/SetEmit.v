(* Model/SetEmit.v - what the code emitted by writeNode(..., modeSet) and the
   Set / SetWithBuffer header (/repo/compiler.go) computes, statement by
   statement, on the value behind the `*T` argument.

   This is the model of the emitter AFTER six fix: commits (findings/C03.txt):
     a. the leaf code of a basic node (map value / slice element) no longer returns
        before the parent's write-back `s[i] = x` (lost update on []int32 ...);
     b. the leaf code of a struct that is a COPY of a map entry stores the copy back
        (`m[k] = x1`) before it returns (lost update on map[K]Struct);
     c. a nil map reached through a pointer (root maps, *map fields) is allocated
        before the store, and a nil map held as a map entry is allocated and stored
        before the code below it runs (nil-map write panic);
     d. a nil pointer-to-scalar field returns instead of being dereferenced;
     e. a field of a named scalar type is assigned through a pointer to its
        underlying builtin type;
     f. the store-back `m[k] = x1` of a struct held BY VALUE as map entry is pending for
        all the code below the entry (nested structs, pointers, slice elements; a further
        map starts over with its own entries): every leaf return below the entry executes
        it, and so does the nil check of a pointer / map / slice field right after the new
        container went into the copy.  [lg = true] is the emitter BEFORE f: only the leaf
        code of the entry struct itself stored the copy back, below a nested field the
        assignment was lost (theorem C03_refuted_nested_in_map_entry).  Everything but
        that theorem is about [lg = false].

   WHICH OBJECT a statement writes to: the Go variable of a child is bound live
   (`&v.F`, `&s[i]`), or holds a reference (pointers, map and slice headers: what
   is mutated through it is shared with the origin), or is a copy of a value type
   (`m[k]` of struct/scalar type, `s[i]` of builtin type): then the mutation reaches
   the origin only if the emitted write-back is executed.  [set_node] returns the
   new value of what its variable designates plus how the code ended; every caller
   decides from the binding what is stored ([keep_shared] for discarded copies). *)
From Coq Require Import List Bool String Ascii ZArith Arith Lia Floats.SpecFloat.
From Verif Require Import Util Ints Strconv Floats Node Value Outcome.
Import ListNotations.
Local Open Scope string_scope.
Local Open Scope list_scope.

(* ---------- the assigned values (the domain this model covers) ----------
   value and pointer forms behave alike in assign_builtin.go; the form is kept for
   the harness only.  Pointers to containers (`value.( *T)` replacement) are outside. *)
Inductive src :=
| SrcBool (b : bool)
| SrcInt (k : ikind) (z : Z)          (* z in the range of k *)
| SrcF32 (f : spec_float)             (* a float32 value, as the float64 it converts to *)
| SrcF64 (f : spec_float)
| SrcStr (t : string)
| SrcBytes (t : string).              (* a non-nil []byte *)

(* x2bytes.ToBytes of a non-text source; None = outside the exact-decimal rendering domain *)
Definition render_src (s : src) : option string :=
  match s with
  | SrcBool b => Some (if b then "true" else "false")
  | SrcInt _ z => Some (Z_to_string z)
  | SrcF32 f | SrcF64 f => render_float f
  | SrcStr t | SrcBytes t => Some t
  end.

Definition src_text (s : src) : option string :=
  match s with SrcStr t | SrcBytes t => Some t | _ => None end.

Definition ikind_of (k : skind) : option ikind :=
  match k with SInt i => Some i | SByte => Some KUint8 | _ => None end.

(* inspector.AssignBuf(&leaf, value, buf) for a scalar or string leaf of kind k holding [old]:
   the six functions of assign_builtin.go in registry order.  None = no function converts:
   the leaf is untouched (e.g. an int source into a uint leaf, a float into an int). *)
Definition assign_scalar (k : skind) (s : src) (buf : bool) (old : val) : option val :=
  match k with
  | SBool =>
    Some (VBool (match s with
                 | SrcBool b => b
                 | SrcInt _ z => negb (z =? 0)%Z
                 | SrcF32 f | SrcF64 f => negb (f64_eqb f (S754_zero false))
                 | SrcStr t | SrcBytes t => String.eqb t "true"
                 end))
  | SInt _ | SByte =>
    match ikind_of k with
    | None => None
    | Some i =>
      if is_signed i then
        match s with
        | SrcInt k' z => if is_signed k' then Some (VInt (wrap i z)) else None
        | SrcStr t | SrcBytes t => option_map (fun z => VInt (wrap i z)) (assign_atoi t)
        | _ => None
        end
      else
        match s with
        | SrcInt k' z => if is_signed k' then None else Some (VInt (wrap i z))
        | SrcStr t | SrcBytes t => option_map (fun z => VInt (wrap i z)) (assign_atou t)
        | _ => None
        end
    end
  | SF32 =>
    match s with
    | SrcF32 f | SrcF64 f => Some (VFloat (to_f64 (to_f32 f)))
    | SrcStr t | SrcBytes t => option_map (fun f => VFloat (to_f64 (to_f32 f))) (assign_atof t)
    | _ => None
    end
  | SF64 =>
    match s with
    | SrcF32 f | SrcF64 f => Some (VFloat f)
    | SrcStr t | SrcBytes t => option_map VFloat (assign_atof t)
    | _ => None
    end
  | SString =>
    match s with
    | SrcStr t | SrcBytes t => Some (VStr t)
    | _ =>
      (* anything else is rendered into a fresh slice: the old content is replaced, with or
         without a buffer (the unbuffered append of the pinned commit was repaired by C19) *)
      match render_src s with
      | Some r => Some (VStr r)
      | None => None
      end
    end
  end.

(* ... for a []byte leaf: a []byte source aliases, a string source is reinterpreted (the empty
   string gives a nil slice), anything else is rendered *)
Definition assign_bytes (s : src) (buf : bool) (old : val) : option val :=
  match s with
  | SrcBytes t => Some (VBytes false (bytes_of_string t) 0)
  | SrcStr t => Some (if String.eqb t "" then VBytes true [] 0 else VBytes false (bytes_of_string t) 0)
  | _ => match render_src s with Some r => Some (VBytes false (bytes_of_string r) 0) | None => None end
  end.

(* the leaf conversion: kind of the leaf -> source -> old value -> new value *)
Definition assign_leaf (n : node) (s : src) (buf : bool) (old : val) : option val :=
  if is_bytes_node n then assign_bytes s buf old
  else match node_skind n with Some k => assign_scalar k s buf old | None => None end.

(* the content of a leaf location after AssignBuf: converted, or untouched *)
Definition assign_val (n : node) (s : src) (buf : bool) (old : val) : val :=
  match assign_leaf n s buf old with Some x => x | None => old end.

(* ... of a leaf stored where the node says (pointer flag included): nothing behind a nil pointer *)
Definition leaf_store (n : node) (s : src) (buf : bool) (v : val) : val :=
  if n_ptr n then match v with VPtr (Some x) => VPtr (Some (assign_val n s buf x)) | _ => v end
  else assign_val n s buf v.

(* ---------- how a block of emitted set-mode code ends ---------- *)
Inductive sres :=
| SFall (v : val)                               (* fell through; v = what the variable designates now *)
| SRet (v : val) (wb : bool) (e : option err)   (* returned; wb = the pending store-back of the enclosing by-value
                                                   map entry (`m[k] = x`) was executed by this very code, after
                                                   everything it changed in the copy directly *)
| SPanic (k : pkind).

Definition is_nil_val (v : val) : bool :=
  match v with VPtr None | VMap true _ | VSlice true _ _ | VBytes true _ _ => true | _ => false end.

(* isBasic of the struct case: scalars, strings and []byte are assigned in place *)
Definition is_leaf_child (ch : node) : bool :=
  match n_typ ch with typeBasic => true | typeSlice => is_bytes_node ch | _ => false end.

(* what the nil check of a non-basic struct child leaves in the variable (and stores into the
   field): &T{} / a pointer to make(map) or make([]T, 0) for a nil pointer, make(...) for a nil map
   or slice.  (A nil map or slice has no content; the content is carried along so that the
   function is total on the value type.) *)
Definition created_inner (ch : node) : val :=
  match n_typ ch with
  | typeMap => VMap false []
  | typeSlice => VSlice false [] 0
  | _ => zero_val (set_ptr ch false)
  end.

Definition nil_chk (ch : node) (f : val) : val :=
  if n_ptr ch then match f with VPtr None => VPtr (Some (created_inner ch)) | _ => f end
  else match n_typ ch, f with
       | typeMap, VMap true kvs => VMap false kvs
       | typeSlice, VSlice true es ex => VSlice false es ex
       | _, _ => f
       end.

(* What survives of the mutations made through a COPY [new] of a value [old] when the copy is
   dropped: what was reached through references that already existed in the original. *)
Fixpoint keep_shared (n : node) (old new : val) {struct n} : val :=
  match n with
  | Node ty tn tu nm pk pki p chld mk mv sl hb hc =>
    if p then (if is_nil_val old then old else new) else
    match ty with
    | typeBasic => old
    | typeSlice => if String.eqb tn "[]byte" then old
                   else match old with VSlice _ [] _ => old | _ => new end   (* nothing is reached through an empty slice *)
    | typeMap => if is_nil_val old then old else new
    | typeStruct =>
      match old, new with
      | VStruct fo, VStruct fnw =>
        VStruct ((fix go (cs : list node) (a b : list val) : list val :=
                    match cs, a, b with
                    | c :: cr, x :: ar, y :: br => keep_shared c x y :: go cr ar br
                    | _, _, _ => a
                    end) chld fo fnw)
      | _, _ => old
      end
    end
  end.

(* does the nil check of a non-basic struct child allocate (and store into the field)? *)
Definition creates (ch : node) (f : val) : bool :=
  if n_ptr ch then match f with VPtr None => true | _ => false end
  else match n_typ ch, f with
       | typeMap, VMap true _ => true
       | typeSlice, VSlice true _ _ => true
       | _, _ => false
       end.

(* m[k] = e.  Pointer keys are the address of a local: a new entry every time *)
Fixpoint kvs_put (kvs : list (val * val)) (k e : val) : list (val * val) :=
  match kvs with
  | [] => [(k, e)]
  | (k', x) :: r => if key_eqb k' k then (k', e) :: r else (k', x) :: kvs_put r k e
  end.
Definition map_put (kn : node) (kvs : list (val * val)) (k e : val) : list (val * val) :=
  if n_ptr kn then kvs ++ [(VPtr (Some k), e)] else kvs_put kvs k e.

(* the field dispatch of a struct node in set mode.
     lg    the emitter before fix f
     rec   the code of a non-basic child at depth+1
     leaf  AssignBuf on a basic child
     wbk   the store-back of an enclosing by-value map entry is pending (c.setWB): the leaf code
           executes it before returning, the nil check after it allocated *)
Definition set_walk (lg : bool) (rec : node -> val -> sres) (leaf : node -> val -> val) (wbk : bool) (seg : string)
  : list node -> nat -> list val -> sres :=
  fix walk (chs : list node) (idx : nat) (fs : list val) {struct chs} : sres :=
    match chs with
    | [] => SFall (VStruct fs)
    | ch :: rest =>
      if String.eqb seg (n_name ch) then
        match nth_error fs idx with
        | None => SPanic PTypeAssert                      (* not a value of the type *)
        | Some f =>
          if is_leaf_child ch then
            if n_ptr ch && is_nil_val f then SRet (VStruct fs) false None       (* if v.F == nil { return nil } *)
            else SRet (VStruct (upd_nth idx (leaf ch f) fs)) wbk None
          else
            (* nv := [&]v.F; if nv == nil { nv = ...; v.F = nv; <pending store-back> }; <child code>; v.F = [*]nv.
               The entry holds what the copy holds when the child code stored it back, or when the
               nil check did and the child code went on through the new container only. *)
            let f1 := nil_chk ch f in
            match rec ch f1 with
            | SFall f2 => walk rest (S idx) (upd_nth idx f2 fs)
            | SRet f2 wb e => SRet (VStruct (upd_nth idx f2 fs)) (negb lg && (wb || (wbk && creates ch f))) e
            | SPanic k => SPanic k
            end
        end
      else walk rest (S idx) fs
    end.

Definition wrap_ptr (r : sres) : sres :=
  match r with
  | SFall x => SFall (VPtr (Some x))
  | SRet x wb e => SRet (VPtr (Some x)) wb e
  | SPanic k => SPanic k
  end.

(* The code emitted for one node once the length check and the nil check are passed, run on the
   value x behind the variable.
     rec ch w f    the code of the child node ch at depth+1 (w: a store-back is pending there)
     p             node.ptr;  wbk: the store-back of an enclosing by-value map entry is pending.
   A struct and a slice hand the pending store-back down (not before fix f), a map replaces it:
   by the store-back of its own entry when that is a struct held by value, by none otherwise. *)
Definition set_body (lg : bool) (rec : node -> bool -> val -> sres) (s : src) (buf : bool)
  (ty : typ) (tn : string) (p : bool) (chld : list node) (mk mv sl : option node) (self : node)
  (wbk : bool) (depth : nat) (path : list string) (x : val) : sres :=
  match ty with
  | typeStruct =>
    match x, nth_error path depth with
    | VStruct fs, Some seg =>
      set_walk lg (fun ch f => rec ch (wbk && negb lg) f) (fun ch f => leaf_store ch s buf f) wbk seg chld 0 fs
    | VStruct _, None => SFall x
    | _, _ => SPanic PTypeAssert
    end
  | typeMap =>
    match x, mk, mv with
    | VMap nl kvs, Some kn, Some vn =>
      (* reached through a pointer (root maps are): allocated when nil *)
      let nl0 := if p || Nat.eqb depth 0 then false else nl in
      match nth_error path depth with
      | None => SFall x
      | Some seg =>
        match (if is_string_key kn then Some (VStr seg) else conv_key kn seg) with
        | None => SRet (VMap nl0 kvs) false (Some EParse)
        | Some k =>
          let found := lookup kn kvs k in           (* plain lookup: the zero value when absent *)
          let e0 := match found with Some e => e | None => zero_val vn end in
          (* a nil map held as entry is allocated and stored before the code below it runs *)
          let alloc := (match n_typ vn with typeMap => true | _ => false end) && negb (n_ptr vn) && is_nil_val e0 in
          if alloc && nl0 then SPanic PNilMap else
          let e1 := if alloc then nil_chk vn e0 else e0 in
          let store (e2 : val) (e : option err) : sres :=
            if nl0 then SPanic PNilMap else SRet (VMap false (map_put kn kvs k e2)) false e in
          match rec vn ((match n_typ vn with typeStruct => true | _ => false end) && negb (n_ptr vn)) e1 with
          | SFall e2 => store e2 None                       (* m[k] = x; return nil *)
          | SRet e2 true e => store e2 e                    (* the child stored the copy back itself *)
          | SRet e2 false e =>
            match (if alloc then Some e1 else found) with
            | Some old => SRet (VMap nl0 (map_put kn kvs k (keep_shared vn old e2))) false e
            | None => SRet (VMap nl0 kvs) false e
            end
          | SPanic pk' => SPanic pk'
          end
        end
      end
    | _, _, _ => SPanic PTypeAssert
    end
  | typeSlice =>
    if String.eqb tn "[]byte" then SRet (assign_val self s buf x) false None
    else
      match x, sl with
      | VSlice nl es ex, Some en =>
        match nth_error path depth with
        | None => SFall x
        | Some seg =>
          match conv_index seg with
          | None => SRet x false (Some EParse)
          | Some i =>
            if ((0 <=? i) && (i <? Z.of_nat (List.length es)))%Z then
              match nth_error es (Z.to_nat i) with
              | None => SPanic PIndex
              | Some e0 =>
                (* x := s[i] for pointer and builtin elements (a copy), &s[i] otherwise *)
                let copyval := is_builtin (n_typn en) && negb (n_ptr en) in
                match rec en (wbk && negb lg) e0 with
                | SFall e2 => SRet (VSlice nl (upd_nth (Z.to_nat i) e2 es) ex) false None
                | SRet e2 wb e => SRet (VSlice nl (if copyval then es else upd_nth (Z.to_nat i) e2 es) ex) (negb lg && wb) e
                | SPanic k => SPanic k
                end
              end
            else SFall x
          end
        end
      | _, _ => SPanic PTypeAssert
      end
  | typeBasic => SFall (assign_val self s buf x)
  end.

(* [set_node lg s buf n wbk v depth path]: the code writeNode emits for node n in set mode, run with
   its variable designating the stored value v (pointer flag included); wbk = the store-back of an
   enclosing by-value map entry is pending. *)
Fixpoint set_node (lg : bool) (s : src) (buf : bool) (n : node) (wbk : bool) (v : val) (depth : nat) (path : list string)
  {struct n} : sres :=
  match n with
  | Node ty tn tu nm pk pki p chld mk mv sl hb hc =>
    let lenchk := match ty with typeBasic => false | _ => true end in
    if lenchk && negb (Nat.ltb depth (List.length path)) then SFall v else
    let body := set_body lg (fun ch w f => set_node lg s buf ch w f (S depth) path) s buf ty tn p chld mk mv sl
                         (Node ty tn tu nm pk pki p chld mk mv sl hb hc) wbk depth path in
    if p then
      match v with
      | VPtr None => SRet v false None                 (* if v == nil { return nil } *)
      | VPtr (Some x) => wrap_ptr (body x)
      | _ => SPanic PTypeAssert
      end
    else body v
  end.

(* ---------- the methods ---------- *)
(* Set / SetWithBuffer on a pointer to the value: the object afterwards and the error *)
Definition set_method_of (lg : bool) (n : node) (v : val) (path : list string) (s : src) (buf : bool) : out val :=
  match path with
  | [] => Ret v None
  | _ => match set_node lg s buf n false v 0 path with
         | SFall v' => Ret v' None
         | SRet v' _ e => Ret v' e
         | SPanic k => Panic k
         end
  end.
Definition set_method : node -> val -> list string -> src -> bool -> out val := set_method_of false.
(* the same before fix f *)
Definition set_method_old : node -> val -> list string -> src -> bool -> out val := set_method_of true.

(* the header: which object the body works on.  Only the forms that hand over the object itself
   are modelled here (None otherwise: by-value and nil forms belong to C12 / C02). *)
Definition set_with_buffer (n : node) (a : arg) (path : list string) (s : src) (buf : bool) : option (out val) :=
  match a with
  | APtr (Some v) | APtrPtr (Some (Some v)) => Some (set_method n v path s buf)
  | _ => None
  end.
