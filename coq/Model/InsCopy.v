(* Model/InsCopy.v - what the code emitted by writeCopy / writeCountBytes /
   writeNodeCopy / writeNodeCopyTo (/repo/compiler.go) computes.

     Copy(x)             r = the value; bc := countBytes(&r); var l T;
                         err := CopyTo(&r, &l, inspector.NewByteBuffer(bc)); return &l, err
     CopyTo(src,dst,buf) r = the source value, l = the destination pointer;
                         bb := buf.AcquireBytes(); bb, err = cpy(bb, l, &r); buf.ReleaseBytes(bb)
     cpy(buf, l, r)      the unrolled statements of writeCopy

   This is the emitter AFTER the fix: commits dac013d, 7ec5f08 (pointer to string /
   scalar: allocate the target and copy the value instead of dereferencing nil /
   sharing the pointer), 6f9b3e8 (nil elements of []*Struct, nil map[K]*Struct values),
   844c370 (a nil map behind a non-nil pointer - every named root map - is made),
   447ea47 (a named root slice is stored through the pointer), 5df6ac4 (a nil
   destination pointer to a slice or map is allocated).  Statement forms:

     pointer node (field, element, key, value)
                  `if r != nil { if l == nil { l = new(T) / &T{} }  code on *l, *r }`
                  (elements / values of pointer-to-struct type: `if r == nil { append(.., nil) / m[k] = nil; continue }`,
                   else a fresh `var b T` is filled and its address stored - the same function of r)
     struct       every child in order
     map          `if len(r) > 0 { if l == nil { l = make(T, len(r)) }
                      for rk, rv := range r { var lk K; copy key; var lv V; copy value; l[lk] = lv } }`
     []byte       `buf, l = inspector.Bufferize(buf, r)`
     slice        `if len(r) > 0 { b := l; if b == nil { b = make(T, 0, len(r)) }
                      for i < len(r) { var e E; copy element; b = append(b, e) }; l = b }`
     string       `buf, l = inspector.BufferizeString(buf, r)`
     scalar       `l = r`

   Values are trees (Model/Value.v): [l] is the content of the destination variable,
   [r] of the source variable, pointer flag included.  An EMPTY source map or slice
   leaves the destination as it is; the destination slice is appended to; entries
   are written into the destination map.  Bytes and strings are copied into the byte
   buffer (Model/Buffer.v); a bufferized EMPTY byte slice is nil exactly when the
   buffer itself is still nil at that moment, which depends on the map iteration
   order - the model returns it non-nil and observations identify the two.
   Spare capacity after an append that does not fit is the allocator's choice: the
   model says 0 and observations never show capacities. *)
From Coq Require Import List Bool String Ascii ZArith Arith.
From Verif Require Import Util Ints Node Value Outcome InsReset.
Import ListNotations.
Local Open Scope string_scope.

(* Go's == on the keys of a destination map; pointer keys made by cpy are fresh
   allocations, equal to an existing key only when both are nil *)
Definition dkey_eqb (kn : node) (a b : val) : bool :=
  if n_ptr kn then (match a, b with VPtr None, VPtr None => true | _, _ => false end)
  else key_eqb a b.

(* m[k] = v : an existing entry keeps its key *)
Fixpoint map_set (kn : node) (kvs : list (val * val)) (k v : val) : list (val * val) :=
  match kvs with
  | [] => [(k, v)]
  | (k', v') :: r => if dkey_eqb kn k' k then (k', v) :: r else (k', v') :: map_set kn r k v
  end.

(* the zero value of the type WITHOUT the node's own pointer flag: `var b T`, new(T), &T{} *)
Definition zero_target (n : node) : val := zero_val (set_ptr n false).

Definition cpy_fields (rec : node -> val -> val -> val) : list node -> list val -> list val -> list val :=
  fix go (chs : list node) (ls rs : list val) : list val :=
    match chs, ls, rs with
    | ch :: cr, l :: lr, r :: rr => rec ch l r :: go cr lr rr
    | _, _, _ => ls
    end.

Fixpoint cpy (n : node) (l r : val) {struct n} : val :=
  match n with
  | Node ty tn tu nm pk pki p chld mk mv sl hb hc =>
    let inner (l r : val) : val :=
      match ty with
      | typeStruct =>
        match l, r with
        | VStruct lfs, VStruct rfs => VStruct (cpy_fields cpy chld lfs rfs)
        | _, _ => l
        end
      | typeMap =>
        match l, r, mk, mv with
        | VMap lnil lkvs, VMap _ rkvs, Some kn, Some vn =>
          match rkvs with
          | [] => l
          | _ =>
            VMap false (fold_left (fun acc kv =>
                                     map_set kn acc (cpy kn (zero_val kn) (fst kv)) (cpy vn (zero_val vn) (snd kv)))
                                  rkvs lkvs)
          end
        | _, _, _, _ => l
        end
      | typeSlice =>
        if String.eqb tn "[]byte" then
          match r with
          | VBytes _ d _ => VBytes false d 0
          | _ => l
          end
        else
          match l, r, sl with
          | VSlice lnil les le, VSlice _ res _, Some en =>
            match res with
            | [] => l
            | _ =>
              let add := map (fun e => cpy en (zero_val en) e) res in
              let spare := if lnil then 0 else le - List.length res in
              VSlice false (les ++ add) spare
            end
          | _, _, _ => l
          end
      | typeBasic => r
      end in
    if p then
      match r with
      | VPtr (Some rx) =>
        VPtr (Some (inner (match l with VPtr (Some lx) => lx | _ => zero_target n end) rx))
      | _ => l
      end
    else inner l r
  end.

(* ---------- where the memory of the result comes from ----------
   Value trees carry no allocation identity, so the sharing clause of C06 is modelled beside
   [cpy]: for every allocation that a statement of cpy puts into the result - a pointer target,
   a slice backing array, a map, a byte array - which statement form produced it:
     OFresh  `new(T)`, `&T{}`, `make(..)`, a fresh `var b T` whose address is stored
     OBuf    a slice of the byte buffer handed out by Bufferize / BufferizeString
     ODst    the destination's own allocation, reused (non-nil map written into, non-nil
             slice appended to, non-nil pointer written through)
     OSrc    a reference of the source stored as it is (`l = r` on a pointer, slice or map)
   Parts of the destination that no statement touches stay the destination's.  The pinned
   generator had OSrc for every pointer-to-scalar node; after fix 7ec5f08 no statement form
   produces it. *)
Inductive origin := OFresh | OBuf | ODst | OSrc.

Definition allocs_fields (rec : node -> val -> val -> list origin) : list node -> list val -> list val -> list origin :=
  fix go (chs : list node) (ls rs : list val) : list origin :=
    match chs, ls, rs with
    | ch :: cr, l :: lr, r :: rr => (rec ch l r ++ go cr lr rr)%list
    | _, _, _ => []
    end.

Fixpoint cpy_allocs (n : node) (l r : val) {struct n} : list origin :=
  match n with
  | Node ty tn tu nm pk pki p chld mk mv sl hb hc =>
    let inner (l r : val) : list origin :=
      match ty with
      | typeStruct =>
        match l, r with
        | VStruct lfs, VStruct rfs => allocs_fields cpy_allocs chld lfs rfs
        | _, _ => []
        end
      | typeMap =>
        match l, r, mk, mv with
        | VMap lnil _, VMap _ rkvs, Some kn, Some vn =>
          match rkvs with
          | [] => []
          | _ => (if lnil then OFresh else ODst) ::
                 flat_map (fun kv => (cpy_allocs kn (zero_val kn) (fst kv) ++ cpy_allocs vn (zero_val vn) (snd kv))%list) rkvs
          end
        | _, _, _, _ => []
        end
      | typeSlice =>
        if String.eqb tn "[]byte" then
          match r with VBytes _ _ _ => [OBuf] | _ => [] end
        else
          match l, r, sl with
          | VSlice lnil _ le, VSlice _ res _, Some en =>
            match res with
            | [] => []
            | _ => (if lnil then OFresh else if Nat.leb (List.length res) le then ODst else OFresh) ::
                   flat_map (fun e => cpy_allocs en (zero_val en) e) res
            end
          | _, _, _ => []
          end
      | typeBasic => if String.eqb tu "string" then [OBuf] else []
      end in
    if p then
      match r with
      | VPtr (Some rx) =>
        (match l with VPtr (Some _) => ODst | _ => OFresh end) ::
        inner (match l with VPtr (Some lx) => lx | _ => zero_target n end) rx
      | _ => []
      end
    else inner l r
  end.

(* ---------- countBytes: the capacity Copy gives its buffer ---------- *)
Definition count_fields (rec : node -> val -> Z) : list node -> list val -> Z :=
  fix go (chs : list node) (fs : list val) : Z :=
    match chs, fs with
    | ch :: cr, f :: fr => (rec ch f + go cr fr)%Z
    | _, _ => 0%Z
    end.

Fixpoint count_bytes (n : node) (v : val) {struct n} : Z :=
  match n with
  | Node ty tn tu nm pk pki p chld mk mv sl hb hc =>
    if negb hb then 0%Z else
    let inner (x : val) : Z :=
      match ty with
      | typeStruct => match x with VStruct fs => count_fields count_bytes chld fs | _ => 0%Z end
      | typeMap =>
        match x, mk, mv with
        | VMap _ kvs, Some kn, Some vn =>
          fold_right (fun kv acc => (count_bytes kn (fst kv) + count_bytes vn (snd kv) + acc)%Z) 0%Z kvs
        | _, _, _ => 0%Z
        end
      | typeSlice =>
        if String.eqb tn "[]byte" then v_len x
        else match x, sl with
             | VSlice _ es _, Some en => fold_right (fun e acc => (count_bytes en e + acc)%Z) 0%Z es
             | _, _ => 0%Z
             end
      | typeBasic => if String.eqb tu "string" then v_len x else 0%Z
      end in
    if p then match v with VPtr (Some x) => inner x | _ => 0%Z end else inner v
  end.

(* ---------- the methods ---------- *)
(* the source switch of Copy and CopyTo: a nil *T, a **T to a nil *T and a nil **T are refused
   like the default case (fix: commit e113795; they were dereferenced unguarded) *)
Definition src_value (a : arg) : val + option err + pkind :=
  match a with
  | AVal v | APtr (Some v) | APtrPtr (Some (Some v)) => inl (inl v)
  | APtr None | APtrPtr (Some None) | APtrPtr None => inl (inr (Some EUnsupported))
  | ANil | AForeign => inl (inr (Some EUnsupported))
  end.

(* CopyTo: the destination value afterwards (None: there is none to speak of) and the error *)
Definition copyto_method (n : node) (src dst : arg) : out (option val) :=
  match src_value src with
  | inr k => Panic k
  | inl (inr e) => Ret None e
  | inl (inl r) =>
    match dst with
    | AVal v => Ret (Some v) (Some EMustPointer)
    | ANil | AForeign => Ret None (Some EUnsupported)
    | APtr (Some l) | APtrPtr (Some (Some l)) => Ret (Some (cpy n l r)) None
    | APtr None | APtrPtr (Some None) | APtrPtr None => Ret None (Some EUnsupported)   (* if l == nil *)
    end
  end.

(* Copy: a pointer to the fresh value *)
Definition copy_method (n : node) (src : arg) : out (option val) :=
  match src_value src with
  | inr k => Panic k
  | inl (inr e) => Ret None e
  | inl (inl r) => Ret (Some (cpy n (zero_val n) r)) None
  end.

(* ---------- a history of Reset-then-CopyTo cycles on one destination ----------
   per cycle: the destination after Reset(&d) and after CopyTo(&s, &d, buf);
   None = some call did not return nil *)
Fixpoint run_cycles (n : node) (d : val) (srcs : list val) : option (list (val * val)) :=
  match srcs with
  | [] => Some []
  | s :: rest =>
    match reset_method n (APtr (Some d)) with
    | Ret (Some d1) None =>
      match copyto_method n (APtr (Some s)) (APtr (Some d1)) with
      | Ret (Some d2) None =>
        match run_cycles n d2 rest with
        | Some ds => Some ((d1, d2) :: ds)
        | None => None
        end
      | _ => None
      end
    | _ => None
    end
  end.
