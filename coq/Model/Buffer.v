(* Model/Buffer.v - executable model of the accumulating byte buffer
   (/repo/buffer.go, /repo/bufferize.go), of the buffered conversion branches of
   AssignToBytes/AssignToStr (/repo/assign_builtin.go:47-53, 90-96), of the
   Acquire/Bufferize*/Release pattern the generated cpy functions and the
   built-in CopyTo use, of CopyTo of the built-in inspectors (/repo/stranymap.go
   cpy: one buf.Bufferize / buf.BufferizeString per text value on every level of a
   nested map[string]any; /repo/strings.go CopyTo: the same per element), of
   values the client owns outside the buffer (the sources of those copies; a
   []byte source may have SPARE CAPACITY: empty but allocated, or filled below its
   capacity - the whole capacity is the client's), of copies whose source fields
   ARE such observed values (generated CopyTo, StringAnyMapInspector /
   StringsInspector / StaticInspector CopyTo), and of what a client may do with a
   handed-out value (overwrite, append, unbuffered Set, x = x[:0]).

   Memory is explicit here (and only here): a heap of byte arrays; a Go slice is
   (array, offset, len, cap).  `append` writes in place when the data fits and
   moves to a fresh array otherwise; the capacity of the fresh array is
   need + extra where `extra` is an oracle carried by the operation, so theorems
   quantify over every growth policy.

   The parameter [tight] selects how a handed-out sub-slice is cut:
     tight = true   buf[off:len:len]  (cap = len)    -- /repo after the fix
     tight = false  buf[off:]         (cap runs to the end of the buffer)
                                                      -- /repo at the pinned commit *)
From Coq Require Import List Arith Bool Ascii String Lia.
From Verif Require Import Util.
Import ListNotations.

Record arr := { a_cap : nat; a_get : nat -> ascii }.
Record heap := { h_next : nat; h_arr : nat -> arr }.
Record slice := { s_arr : nat; s_off : nat; s_len : nat; s_cap : nat }.

Definition zero : ascii := Ascii.zero.

Definition read (h : heap) (s : slice) : list ascii :=
  map (a_get (h_arr h (s_arr s))) (seq (s_off s) (s_len s)).

Definition write (h : heap) (a off : nat) (d : list ascii) : heap :=
  {| h_next := h_next h;
     h_arr := fun i =>
       if Nat.eqb i a then
         {| a_cap := a_cap (h_arr h a);
            a_get := fun j => if (off <=? j) && (j <? off + List.length d)
                              then nth (j - off) d zero else a_get (h_arr h a) j |}
       else h_arr h i |}.

Definition alloc (h : heap) (cap : nat) (d : list ascii) : heap * nat :=
  ({| h_next := S (h_next h);
      h_arr := fun i => if Nat.eqb i (h_next h)
                        then {| a_cap := cap; a_get := fun j => nth j d zero |}
                        else h_arr h i |},
   h_next h).

(* Go's append(s, d...) *)
Definition append (h : heap) (s : slice) (d : list ascii) (extra : nat) : heap * slice :=
  let need := s_len s + List.length d in
  if need <=? s_cap s then
    (write h (s_arr s) (s_off s + s_len s) d,
     {| s_arr := s_arr s; s_off := s_off s; s_len := need; s_cap := s_cap s |})
  else
    let '(h', a) := alloc h (need + extra) (read h s ++ d) in
    (h', {| s_arr := a; s_off := 0; s_len := need; s_cap := need + extra |}).

(* array 0 is the empty array every nil slice points to *)
Definition nil_slice : slice := {| s_arr := 0; s_off := 0; s_len := 0; s_cap := 0 |}.
Definition heap0 : heap :=
  {| h_next := 1; h_arr := fun _ => {| a_cap := 0; a_get := fun _ => zero |} |}.

(* a value handed out to the client *)
Record hand := {
  hd_str : bool;            (* a string (immutable, no capacity) or a []byte *)
  hd_sl : slice;            (* where it lives now *)
  hd_want : list ascii;     (* the content the client is entitled to read: what it was
                               handed, updated by the client's own writes to it *)
  hd_live : bool            (* false once the buffer was reset *)
}.

Record state := { st_heap : heap; st_bb : slice; st_log : list hand }.

(* One text value copied by CopyTo of a BUILT-IN inspector (stranymap.go cpy, strings.go
   CopyTo): the source value stays with the caller - outside the buffer, in memory of its
   own -, the copy is one ByteBuffer.Bufferize / BufferizeString.
   (source is a string?, copy is a string?, content) *)
Definition item := (bool * bool * list ascii)%type.

(* A map[string]any source, flattened in pre-order (keys are positional and irrelevant
   here).  Go iterates a map in an unspecified order: the order of this list is ONE order;
   every other order is another list, and the theorems hold for every list. *)
Inductive tok :=
| TText (ptr isstr : bool) (d : list ascii)   (* string / *string / []byte / *[]byte value: copied through the buffer *)
| TOther                                       (* any other value (an int): stored as it is *)
| TOpen (ind : nat)                            (* a nested map: map[string]any / *map / **map (ind = 0 / 1 / 2) *)
| TClose.

Definition items_of_toks (ts : list tok) : list item :=
  flat_map (fun t => match t with TText _ isstr d => [(isstr, isstr, d)] | _ => [] end) ts.

(* StringsInspector.CopyTo: source []string or [][]byte, destination *[]string or *[][]byte *)
Definition items_of_strings (srcstr dststr : bool) (ds : list (list ascii)) : list item :=
  map (fun d => (srcstr, dststr, d)) ds.

(* how the observed values h_k are copied by OCopyHeld *)
Inductive via :=
| VGenerated              (* generated CopyTo of an object whose fields hold them: bb := Acquire; per field
                             bb, x = inspector.Bufferize[String](bb, h_k); Release(bb) *)
| VMap                    (* StringAnyMapInspector.CopyTo of a flat map[string]any holding them (string, *string,
                             []byte, *[]byte): per value buf.Bufferize[String] *)
| VStrings (dststr : bool)(* StringsInspector.CopyTo of the []string / [][]byte holding them (all of one kind) to
                             *[]string (true) / *[][]byte (false) *)
| VStatic.                (* StaticInspector.CopyTo of the one value *)

Inductive op :=
| OBufferize (d : list ascii) (extra : nat)         (* ByteBuffer.Bufferize *)
| OBufferizeString (d : list ascii) (extra : nat)   (* ByteBuffer.BufferizeString *)
| OAcqRel (d : list ascii) (extra : nat)            (* bb := Acquire; bb = append(bb, d...); Release(bb) *)
| OAssignBytes (d : list ascii) (extra : nat)       (* AssignBuf into a bytes destination from a scalar rendered as d *)
| OAssignStr (d : list ascii) (extra : nat)         (* AssignBuf into a string destination from a scalar rendered as d *)
| OCopyTo (fields : list (bool * list ascii)) (extra : nat)
                                                     (* bb := Acquire; per field bb, x = Bufferize[String](bb, d); Release(bb) *)
| OReset
| CWrite (k i : nat) (c : ascii)                    (* client: h_k[i] = c *)
| CAppend (k : nat) (d : list ascii) (extra : nat)  (* client: h_k = append(h_k, d...) *)
| CSetUnbuf (k : nat) (d : list ascii) (extra : nat)(* client: h_k = append(h_k[:0], d...)  (unbuffered Set on that field) *)
| OBufferizeFrom (k : nat) (extra : nat)            (* Bufferize[String](h_k): a value handed out earlier is fed back in *)
| OCopyInto (fields : list (bool * list ascii)) (extra : nat)
                                                     (* CopyTo into a NON-fresh destination: the object that received the previous
                                                        CopyTo of that type, its fields still holding what was handed out then,
                                                        while the earlier values are still held elsewhere (by-value copies: the
                                                        holders in the log).  cpy does not look at the old content of a string or
                                                        []byte field: it Bufferizes into a new region, exactly as OCopyTo. *)
| OAssignBytesInto (k : nat) (d : list ascii) (extra : nat)
                                                     (* buffered Assign/Set into the []byte field that currently holds h_k (stale
                                                        or live), h_k itself being still held elsewhere: the buffered branch of
                                                        AssignToBytes ignores the destination's old content, exactly as OAssignBytes;
                                                        a NEW value is handed out, h_k is not touched *)
| OSource (isstr : bool) (d : list ascii)            (* a value the client owns OUTSIDE the buffer (memory of its own) is put under
                                                        observation: the source of a later Bufferize / CopyTo *)
| OCopyMap (reuse : bool) (ts : list tok) (extra : nat)
                                                     (* StringAnyMapInspector.CopyTo of a (nested) map[string]any into a fresh
                                                        (reuse = false) or the previously used (true: its keys are deleted first)
                                                        destination map: per text value, on every level, one
                                                        buf.Bufferize / buf.BufferizeString - no Acquire/Release.  Every source
                                                        text and every copy is handed to a holder. *)
| OCopyStrings (reuse srcstr dststr : bool) (ds : list (list ascii)) (extra : nat)
                                                     (* StringsInspector.CopyTo []string / [][]byte -> *[]string / *[][]byte
                                                        (appended to the destination): per element one buf.BufferizeString /
                                                        buf.Bufferize, converted to the destination's element type in place *)
| OSourceCap (d : list ascii) (spare : nat)          (* a []byte the client owns OUTSIDE the buffer with SPARE CAPACITY comes under
                                                        observation: make([]byte, len d, len d + spare) filled with d - an array
                                                        of its own whose whole capacity belongs to the client (d = [] : the
                                                        empty-but-allocated value a pooled object holds after x = x[:0]) *)
| CTruncate (k : nat)                                (* client: h_k = h_k[:0] - emptied, the capacity stays with the holder *)
| OCopyHeld (v : via) (reuse : bool) (ks : list nat) (extra : nat)
                                                     (* a copy through the buffer whose SOURCE fields are the observed values
                                                        h_k (k in ks) themselves - client-owned sources with or without spare
                                                        capacity, or values handed out earlier -, as they are now (pointer,
                                                        length, capacity): CopyTo of a generated type whose string / []byte
                                                        fields hold them, or CopyTo of a built-in inspector on a map /
                                                        list / single value holding them; into a fresh destination or the one
                                                        used before (reuse).  Every source must be live; nothing happens
                                                        otherwise.  Each copy is a new value in the buffer. *).

Section Step.
Variable tight : bool.

(* buf[off:] respectively buf[off:len:len] *)
Definition sub (s : slice) (off : nat) : slice :=
  {| s_arr := s_arr s; s_off := s_off s + off; s_len := s_len s - off;
     s_cap := if tight then s_len s - off else s_cap s - off |}.

Definition mk_hand (isstr : bool) (sl : slice) (d : list ascii) : hand :=
  {| hd_str := isstr;
     hd_sl := if isstr then {| s_arr := s_arr sl; s_off := s_off sl; s_len := s_len sl; s_cap := s_len sl |} else sl;
     hd_want := d; hd_live := true |}.

(* one Bufferize on a local slice: returns heap, new local slice, handed-out value *)
Definition bufferize1 (h : heap) (bb : slice) (isstr : bool) (d : list ascii) (extra : nat)
  : heap * slice * hand :=
  let off := s_len bb in
  let '(h', bb') := append h bb d extra in
  (h', bb', mk_hand isstr (sub bb' off) d).

Fixpoint copy_fields (h : heap) (bb : slice) (fs : list (bool * list ascii)) (extra : nat)
  : heap * slice * list hand :=
  match fs with
  | [] => (h, bb, [])
  | (isstr, d) :: r =>
    let '(h1, bb1, x) := bufferize1 h bb isstr d extra in
    let '(h2, bb2, xs) := copy_fields h1 bb1 r extra in
    (h2, bb2, x :: xs)
  end.

(* a client-owned value outside the buffer: an array of its own, exactly filled *)
Definition source1 (h : heap) (isstr : bool) (d : list ascii) : heap * hand :=
  let '(h', a) := alloc h (List.length d) d in
  (h', mk_hand isstr {| s_arr := a; s_off := 0; s_len := List.length d; s_cap := List.length d |} d).

(* a client-owned []byte outside the buffer with spare capacity: make([]byte, len d, len d + spare) *)
Definition source_cap (h : heap) (d : list ascii) (spare : nat) : heap * hand :=
  let '(h', a) := alloc h (List.length d + spare) d in
  (h', mk_hand false {| s_arr := a; s_off := 0; s_len := List.length d; s_cap := List.length d + spare |} d).

(* the observed values an OCopyHeld reads: all present and live *)
Fixpoint held (lg : list hand) (ks : list nat) : option (list hand) :=
  match ks with
  | [] => Some []
  | k :: r =>
    match nth_error lg k, held lg r with
    | Some x, Some xs => if hd_live x then Some (x :: xs) else None
    | _, _ => None
    end
  end.

Definition via_ok (v : via) (xs : list hand) : bool :=
  match v with
  | VGenerated | VMap => true
  | VStrings _ => forallb hd_str xs || forallb (fun x => negb (hd_str x)) xs
  | VStatic => Nat.eqb (List.length xs) 1
  end.

(* the kind of the copy: the source's own, except for a strings copy (the destination's element type) *)
Definition via_kind (v : via) (x : hand) : bool :=
  match v with VStrings ds => ds | _ => hd_str x end.

Definition held_fields (v : via) (xs : list hand) : list (bool * list ascii) :=
  map (fun x => (via_kind v x, hd_want x)) xs.

(* the generated cpy works on a local slice and releases it; the built-in inspectors call the buffer's methods *)
Definition via_releases (v : via) : bool := match v with VGenerated => true | _ => false end.

(* the copies of a built-in CopyTo: ByteBuffer.Bufferize[String] per value, the buffer's own
   slice moves on with every call; source and copy are both logged *)
Fixpoint copy_values (h : heap) (bb : slice) (its : list item) (extra : nat)
  : heap * slice * list hand :=
  match its with
  | [] => (h, bb, [])
  | (ss, ds, d) :: r =>
    let '(h0, x0) := source1 h ss d in
    let '(h1, bb1, x) := bufferize1 h0 bb ds d extra in
    let '(h2, bb2, xs) := copy_values h1 bb1 r extra in
    (h2, bb2, x0 :: x :: xs)
  end.

(* ByteBuffer.ReleaseBytes: ignored when empty *)
Definition release (old new : slice) : slice := if Nat.eqb (s_len new) 0 then old else new.

Definition kill (x : hand) : hand :=
  {| hd_str := hd_str x; hd_sl := hd_sl x; hd_want := hd_want x; hd_live := false |}.

Definition step (st : state) (o : op) : state :=
  let h := st_heap st in let bb := st_bb st in let lg := st_log st in
  match o with
  | OBufferize d e =>
    let '(h', bb', x) := bufferize1 h bb false d e in
    {| st_heap := h'; st_bb := bb'; st_log := lg ++ [x] |}
  | OBufferizeString d e =>
    let '(h', bb', x) := bufferize1 h bb true d e in
    {| st_heap := h'; st_bb := bb'; st_log := lg ++ [x] |}
  | OAcqRel d e =>
    let '(h', bb') := append h bb d e in
    {| st_heap := h'; st_bb := release bb bb'; st_log := lg |}
  | OAssignBytes d e =>
    let '(h', bb', x) := bufferize1 h bb false d e in
    {| st_heap := h'; st_bb := release bb bb'; st_log := lg ++ [x] |}
  | OAssignStr d e =>
    let '(h', bb', x) := bufferize1 h bb true d e in
    {| st_heap := h'; st_bb := release bb bb'; st_log := lg ++ [x] |}
  | OCopyTo fs e =>
    let '(h', bb', xs) := copy_fields h bb fs e in
    {| st_heap := h'; st_bb := release bb bb'; st_log := lg ++ xs |}
  | OReset =>
    {| st_heap := h;
       st_bb := {| s_arr := s_arr bb; s_off := s_off bb; s_len := 0; s_cap := s_cap bb |};
       st_log := map kill lg |}
  | CWrite k i c =>
    match nth_error lg k with
    | Some x =>
      if negb (hd_str x) && (i <? s_len (hd_sl x)) && hd_live x then
        {| st_heap := write h (s_arr (hd_sl x)) (s_off (hd_sl x) + i) [c];
           st_bb := bb;
           st_log := upd_nth k {| hd_str := false; hd_sl := hd_sl x;
                                  hd_want := upd_nth i c (hd_want x); hd_live := true |} lg |}
      else st
    | None => st
    end
  | CAppend k d e =>
    match nth_error lg k with
    | Some x =>
      if negb (hd_str x) && hd_live x then
        let '(h', s') := append h (hd_sl x) d e in
        {| st_heap := h'; st_bb := bb;
           st_log := upd_nth k {| hd_str := false; hd_sl := s'; hd_want := hd_want x ++ d; hd_live := true |} lg |}
      else st
    | None => st
    end
  | CSetUnbuf k d e =>
    match nth_error lg k with
    | Some x =>
      if negb (hd_str x) && hd_live x then
        let s0 := {| s_arr := s_arr (hd_sl x); s_off := s_off (hd_sl x); s_len := 0; s_cap := s_cap (hd_sl x) |} in
        let '(h', s') := append h s0 d e in
        {| st_heap := h'; st_bb := bb;
           st_log := upd_nth k {| hd_str := false; hd_sl := s'; hd_want := d; hd_live := true |} lg |}
      else st
    | None => st
    end
  | OBufferizeFrom k e =>
    match nth_error lg k with
    | Some x =>
      if hd_live x then
        let '(h', bb', y) := bufferize1 h bb (hd_str x) (hd_want x) e in
        {| st_heap := h'; st_bb := bb'; st_log := lg ++ [y] |}
      else st
    | None => st
    end
  | OCopyInto fs e =>
    let '(h', bb', xs) := copy_fields h bb fs e in
    {| st_heap := h'; st_bb := release bb bb'; st_log := lg ++ xs |}
  | OAssignBytesInto _ d e =>
    let '(h', bb', x) := bufferize1 h bb false d e in
    {| st_heap := h'; st_bb := release bb bb'; st_log := lg ++ [x] |}
  | OSource isstr d =>
    let '(h', x) := source1 h isstr d in
    {| st_heap := h'; st_bb := bb; st_log := lg ++ [x] |}
  | OCopyMap _ ts e =>
    let '(h', bb', xs) := copy_values h bb (items_of_toks ts) e in
    {| st_heap := h'; st_bb := bb'; st_log := lg ++ xs |}
  | OCopyStrings _ ss ds l e =>
    let '(h', bb', xs) := copy_values h bb (items_of_strings ss ds l) e in
    {| st_heap := h'; st_bb := bb'; st_log := lg ++ xs |}
  | OSourceCap d spare =>
    let '(h', x) := source_cap h d spare in
    {| st_heap := h'; st_bb := bb; st_log := lg ++ [x] |}
  | CTruncate k =>
    match nth_error lg k with
    | Some x =>
      if negb (hd_str x) && hd_live x then
        let s0 := {| s_arr := s_arr (hd_sl x); s_off := s_off (hd_sl x); s_len := 0; s_cap := s_cap (hd_sl x) |} in
        let '(h', s') := append h s0 [] 0 in
        {| st_heap := h'; st_bb := bb;
           st_log := upd_nth k {| hd_str := false; hd_sl := s'; hd_want := []; hd_live := true |} lg |}
      else st
    | None => st
    end
  | OCopyHeld v _ ks e =>
    match held lg ks with
    | Some xs =>
      if via_ok v xs then
        let '(h', bb', ys) := copy_fields h bb (held_fields v xs) e in
        {| st_heap := h'; st_bb := if via_releases v then release bb bb' else bb'; st_log := lg ++ ys |}
      else st
    | None => st
    end
  end.

(* the same copies, one operation per value *)
Definition expand_items (its : list item) (extra : nat) : list op :=
  flat_map (fun it : item =>
              let '(ss, ds, d) := it in
              [OSource ss d; if ds then OBufferizeString d extra else OBufferize d extra]) its.

(* NewByteBuffer(size) *)
Definition init (size : nat) : state :=
  if Nat.eqb size 0 then {| st_heap := heap0; st_bb := nil_slice; st_log := [] |}
  else let '(h, a) := alloc heap0 size [] in
       {| st_heap := h; st_bb := {| s_arr := a; s_off := 0; s_len := 0; s_cap := size |}; st_log := [] |}.

Definition run (size : nat) (ops : list op) : state := fold_left step ops (init size).

End Step.

(* ---------- what a client can observe ---------- *)
Definition hand_reads (h : heap) (x : hand) : list ascii := read h (hd_sl x).

(* extent of memory the holder of x may touch: strings only their bytes *)
Definition hand_lo (x : hand) := s_off (hd_sl x).
Definition hand_hi (x : hand) := s_off (hd_sl x) + s_cap (hd_sl x).

Definition overlap (x y : hand) : bool :=
  Nat.eqb (s_arr (hd_sl x)) (s_arr (hd_sl y)) &&
  (hand_lo x <? hand_hi x) && (hand_lo y <? hand_hi y) &&
  (hand_lo x <? hand_hi y) && (hand_lo y <? hand_hi x).

Fixpoint any_overlap (l : list hand) : bool :=
  match l with
  | [] => false
  | x :: r => existsb (fun y => overlap x y) r || any_overlap r
  end.

Definition live (l : list hand) : list hand := filter hd_live l.
