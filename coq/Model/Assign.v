(* Model/Assign.v - executable model of inspector.Assign / inspector.AssignBuf
   (/repo/assign.go) = the six functions registered by /repo/inspector.go init()
   tried in registry order

       AssignToBytes, AssignToStr, AssignToBool, AssignToInt, AssignToUint, AssignToFloat

   (/repo/assign_builtin.go), and of the conversion chain x2bytes.ToBytes
   (github.com/koykov/x2bytes v1.0.2: BytesToBytes, StrToBytes, BoolToBytes,
   IntToBytes, UintToBytes, FloatToBytes in that order) the two text functions
   fall back on.  Every Go type switch is one Gallina [match] with one arm per
   Go case: for a case "T" the value form, for a case "*T" the non-nil pointer
   form and, because the code dereferences unguarded ([*src.( *T)]), the typed
   nil pointer of the same type, which panics.  Definitions only.

   Destination: the thing behind the (non-nil) destination pointer, given by
   its current value ([DPtr old]); [DForeign] is any destination whose dynamic
   type is none of the sixteen pointer types (a value, a pointer to a struct,
   a nil interface).
   Source: value form, non-nil pointer form, typed nil pointer, foreign type.

   Text results carry WHO OWNS THE BYTES, because the property speaks about
   "replacing, not extending" and "lives in the buffer":
     OSrc     the stored slice/string header aliases the source's bytes
              (byteconv.S2B / B2S are zero-copy casts, plain assignment of a
              string or slice copies the header only)
     OBuf off the bytes are buf[off : off+len] of the accumulating buffer
     OOld     written in place into the old destination's backing array
              (x2bytes.ToBytes(p[:0], src) when the text fits cap(p))
     OFresh   a new allocation (append had to grow, or dst was nil)
   The buffer is its content: [None] = no buffer (Assign, or AssignBuf with a
   nil interface), [Some pre] = a ByteBuffer currently holding [pre].

   [strfix] selects the unbuffered scalar -> *string branch of AssignToStr:
     true   p, err = x2bytes.ToBytes(nil, src)                  -- after the fix commit
     false  p = byteconv.S2B( *dst); p, err = x2bytes.ToBytes(p, src)
                                                                 -- the pinned commit: appends *)
From Coq Require Import ZArith Bool String Ascii List Floats.SpecFloat.
From Verif Require Import Util Ints Strconv Floats AssignVal.
Import ListNotations.
Local Open Scope Z_scope.

(* ---------- outcomes ---------- *)
Inductive pkind := NilDeref | TypeAssert.

(* [Unmodelled]: a float outside the exact-decimal domain would have to be rendered *)
Inductive out (A : Type) := Ret (a : A) | Panic (k : pkind) | Unmodelled.
Arguments Ret {A} a.
Arguments Panic {A} k.
Arguments Unmodelled {A}.

Definition bind {A B} (x : out A) (f : A -> out B) : out B :=
  match x with Ret a => f a | Panic k => Panic k | Unmodelled => Unmodelled end.


(* what a successful assign function did *)
Record effect := { e_val : sval; e_own : owner; e_buf : option string }.

Definition slen (s : string) : Z := Z.of_nat (String.length s).

(* ---------- x2bytes v1.0.2: what gets appended, or ErrUnknownType (None) ---------- *)
Definition bytes_to_bytes (src : source) : out (option string) :=
  match src with
  | SPtr (VBytes s) => Ret (Some s)                 (* case *[]byte: append(dst, *val.( *[]byte)...) *)
  | SNil KBy => Panic NilDeref
  | SVal (VBytes s) => Ret (Some s)                 (* case []byte *)
  | _ => Ret None                                   (* default: ErrUnknownType *)
  end.

Definition str_to_bytes (src : source) : out (option string) :=
  match src with
  | SPtr (VStr s) => Ret (Some s)                   (* case *string *)
  | SNil KS => Panic NilDeref
  | SVal (VStr s) => Ret (Some s)                   (* case string *)
  | _ => Ret None
  end.

Definition bool_text (b : bool) : string := if b then "true"%string else "false"%string.

Definition bool_to_bytes (src : source) : out (option string) :=
  match src with
  | SPtr (VBool b) => Ret (Some (bool_text b))      (* case *bool *)
  | SNil KB => Panic NilDeref
  | SVal (VBool b) => Ret (Some (bool_text b))      (* case bool *)
  | _ => Ret None
  end.

(* strconv.AppendInt(dst, int64(x), 10) *)
Definition int_to_bytes (src : source) : out (option string) :=
  match src with
  | SVal (VInt (KInt | KInt8 | KInt16 | KInt32 | KInt64) z)
  | SPtr (VInt (KInt | KInt8 | KInt16 | KInt32 | KInt64) z) => Ret (Some (Z_to_string (wrap KInt64 z)))
  | SNil (KI (KInt | KInt8 | KInt16 | KInt32 | KInt64)) => Panic NilDeref
  | _ => Ret None
  end.

(* strconv.AppendUint(dst, uint64(x), 10) *)
Definition uint_to_bytes (src : source) : out (option string) :=
  match src with
  | SVal (VInt (KUint | KUint8 | KUint16 | KUint32 | KUint64) z)
  | SPtr (VInt (KUint | KUint8 | KUint16 | KUint32 | KUint64) z) => Ret (Some (Z_to_string (wrap KUint64 z)))
  | SNil (KI (KUint | KUint8 | KUint16 | KUint32 | KUint64)) => Panic NilDeref
  | _ => Ret None
  end.

(* strconv.AppendFloat(dst, f, 'f', -1, 64) - modelled on the exact-decimal domain only *)
Definition append_float (f : spec_float) : out (option string) :=
  match render_float f with Some t => Ret (Some t) | None => Unmodelled end.

Definition float_to_bytes (src : source) : out (option string) :=
  match src with
  | SVal (VF32 f) | SPtr (VF32 f) => append_float (to_f64 f)   (* f = float64(val.(float32)) *)
  | SNil KF32 => Panic NilDeref
  | SVal (VF64 f) | SPtr (VF64 f) => append_float f
  | SNil KF64 => Panic NilDeref
  | _ => Ret None
  end.

(* x2bytes.ToBytes: the registered functions in order; the first one that does not
   answer ErrUnknownType decides *)
Fixpoint first_some {A} (l : list (out (option A))) : out (option A) :=
  match l with
  | [] => Ret None
  | x :: r => match x with Ret None => first_some r | _ => x end
  end.

Definition to_bytes (src : source) : out (option string) :=
  first_some [bytes_to_bytes src; str_to_bytes src; bool_to_bytes src;
              int_to_bytes src; uint_to_bytes src; float_to_bytes src].

(* ---------- assign_builtin.go ---------- *)
Section Assign.
Variable strfix : bool.
Variable dcap : Z.                 (* cap( *dst) when the destination is a *[]byte *)
Variable buf : option string.      (* the AccumulativeBuffer argument *)

Definition eff (v : sval) (o : owner) : out (option effect) :=
  Ret (Some {| e_val := v; e_own := o; e_buf := buf |}).

(* bb := buf.AcquireBytes(); offset := len(bb); bb, err = x2bytes.ToBytes(bb, src);
   if err == nil { *dst = bb[offset:...] }; buf.ReleaseBytes(bb) *)
Definition buffered (mk : string -> sval) (pre : string) (src : source) : out (option effect) :=
  bind (to_bytes src) (fun ot =>
    match ot with
    | Some t => Ret (Some {| e_val := mk t; e_own := OBuf (String.length pre); e_buf := Some (pre ++ t)%string |})
    | None => Ret None
    end).

Definition assign_to_bytes (dst : dest) (src : source) : out (option effect) :=
  match dst with
  | DPtr (VBytes old) =>
    match src with
    | SPtr (VBytes s) => eff (VBytes s) OSrc          (* case *[]byte: *dst = *src *)
    | SNil KBy => Panic NilDeref
    | SVal (VBytes s) => eff (VBytes s) OSrc          (* case []byte *)
    | SPtr (VStr s) => eff (VBytes s) OSrc            (* case *string: byteconv.S2B( *src) *)
    | SNil KS => Panic NilDeref
    | SVal (VStr s) => eff (VBytes s) OSrc            (* case string *)
    | _ =>                                            (* default *)
      match buf with
      | None =>                                       (* var p []byte; p, err = x2bytes.ToBytes(p, src)  (since fix 53615f7;
                                                         before it: ToBytes(p[:0], src) on the destination's own array) *)
        bind (to_bytes src) (fun ot =>
          match ot with
          | Some t => eff (VBytes t) (if slen t <=? dcap then OFresh else OFresh)   (* whether it would have fitted no longer matters *)
          | None => Ret None
          end)
      | Some pre => buffered VBytes pre src
      end
    end
  | _ => Ret None
  end.

Definition assign_to_str (dst : dest) (src : source) : out (option effect) :=
  match dst with
  | DPtr (VStr old) =>
    match src with
    | SPtr (VBytes s) => eff (VStr s) OSrc            (* case *[]byte: byteconv.B2S( *src) *)
    | SNil KBy => Panic NilDeref
    | SVal (VBytes s) => eff (VStr s) OSrc            (* case []byte *)
    | SPtr (VStr s) => eff (VStr s) OSrc              (* case *string *)
    | SNil KS => Panic NilDeref
    | SVal (VStr s) => eff (VStr s) OSrc              (* case string *)
    | _ =>
      match buf with
      | None =>
        bind (to_bytes src) (fun ot =>
          match ot with
          | Some t => eff (VStr (if strfix then t else old ++ t)%string) OFresh
          | None => Ret None
          end)
      | Some pre => buffered VStr pre src
      end
    end
  | _ => Ret None
  end.

Definition fzero : spec_float := S754_zero false.
(* Go's x != 0 on a float *)
Definition f_nonzero (f : spec_float) : bool := negb (f64_eqb f fzero).
Definition is_true_text (s : string) : bool := (s =? "true")%string.

Definition assign_to_bool (dst : dest) (src : source) : out (option effect) :=
  match dst with
  | DPtr (VBool _) =>
    match src with
    | SPtr (VBool b) | SVal (VBool b) => eff (VBool b) ONone
    | SNil KB => Panic NilDeref
    | SPtr (VBytes s) | SVal (VBytes s) => eff (VBool (is_true_text s)) ONone
    | SNil KBy => Panic NilDeref
    | SPtr (VStr s) | SVal (VStr s) => eff (VBool (is_true_text s)) ONone
    | SNil KS => Panic NilDeref
    | SVal (VInt _ z) | SPtr (VInt _ z) => eff (VBool (negb (z =? 0))) ONone   (* all ten integer types, both forms *)
    | SNil (KI _) => Panic NilDeref
    | SVal (VF32 f) | SPtr (VF32 f) => eff (VBool (f_nonzero f)) ONone
    | SNil KF32 => Panic NilDeref
    | SVal (VF64 f) | SPtr (VF64 f) => eff (VBool (f_nonzero f)) ONone
    | SNil KF64 => Panic NilDeref
    | SForeign => Ret None
    end
  | _ => Ret None
  end.

(* the source switch of AssignToInt: (i, ok) *)
Definition src_int64 (src : source) : out (option Z) :=
  match src with
  | SVal (VInt (KInt | KInt8 | KInt16 | KInt32 | KInt64) z)
  | SPtr (VInt (KInt | KInt8 | KInt16 | KInt32 | KInt64) z) => Ret (Some (wrap KInt64 z))
  | SNil (KI (KInt | KInt8 | KInt16 | KInt32 | KInt64)) => Panic NilDeref
  | SVal (VBytes s) | SPtr (VBytes s) | SVal (VStr s) | SPtr (VStr s) => Ret (assign_atoi s)
  | SNil KBy | SNil KS => Panic NilDeref
  | _ => Ret None
  end.

Definition assign_to_int (dst : dest) (src : source) : out (option effect) :=
  bind (src_int64 src) (fun oi =>
    match oi with
    | Some i =>
      match dst with
      | DPtr (VInt ((KInt | KInt8 | KInt16 | KInt32 | KInt64) as k) _) => eff (VInt k (wrap k i)) ONone
      | _ => Ret None                                 (* default: ok = false *)
      end
    | None => Ret None
    end).

Definition src_uint64 (src : source) : out (option Z) :=
  match src with
  | SVal (VInt (KUint | KUint8 | KUint16 | KUint32 | KUint64) z)
  | SPtr (VInt (KUint | KUint8 | KUint16 | KUint32 | KUint64) z) => Ret (Some (wrap KUint64 z))
  | SNil (KI (KUint | KUint8 | KUint16 | KUint32 | KUint64)) => Panic NilDeref
  | SVal (VBytes s) | SPtr (VBytes s) | SVal (VStr s) | SPtr (VStr s) => Ret (assign_atou s)
  | SNil KBy | SNil KS => Panic NilDeref
  | _ => Ret None
  end.

Definition assign_to_uint (dst : dest) (src : source) : out (option effect) :=
  bind (src_uint64 src) (fun ou =>
    match ou with
    | Some u =>
      match dst with
      | DPtr (VInt ((KUint | KUint8 | KUint16 | KUint32 | KUint64) as k) _) => eff (VInt k (wrap k u)) ONone
      | _ => Ret None
      end
    | None => Ret None
    end).

Definition src_float64 (src : source) : out (option spec_float) :=
  match src with
  | SVal (VF32 f) | SPtr (VF32 f) => Ret (Some (to_f64 f))
  | SNil KF32 => Panic NilDeref
  | SVal (VF64 f) | SPtr (VF64 f) => Ret (Some f)
  | SNil KF64 => Panic NilDeref
  | SVal (VBytes s) | SPtr (VBytes s) | SVal (VStr s) | SPtr (VStr s) => Ret (assign_atof s)
  | SNil KBy | SNil KS => Panic NilDeref
  | _ => Ret None
  end.

Definition assign_to_float (dst : dest) (src : source) : out (option effect) :=
  bind (src_float64 src) (fun o =>
    match o with
    | Some f =>
      match dst with
      | DPtr (VF32 _) => eff (VF32 (to_f32 f)) ONone
      | DPtr (VF64 _) => eff (VF64 f) ONone
      | _ => Ret None
      end
    | None => Ret None
    end).

(* assign.go AssignBuf: the registry in registration order, stop at the first ok *)
Definition assign_buf (dst : dest) (src : source) : out (option effect) :=
  first_some [assign_to_bytes dst src; assign_to_str dst src; assign_to_bool dst src;
              assign_to_int dst src; assign_to_uint dst src; assign_to_float dst src].

(* ---------- what the caller sees ---------- *)
Inductive outcome :=
| Done (ok : bool) (d : dest) (own : owner) (b : option string)   (* returned: ok, destination, owner of a stored text, buffer *)
| Panicked (k : pkind)
| OutOfModel.

Definition assign (dst : dest) (src : source) : outcome :=
  match assign_buf dst src with
  | Ret (Some e) => Done true (DPtr (e_val e)) (e_own e) (e_buf e)
  | Ret None => Done false dst ONone buf              (* nothing was written *)
  | Panic k => Panicked k
  | Unmodelled => OutOfModel
  end.

End Assign.

(* (ok, destination) of an outcome *)
Definition result (o : outcome) : option (bool * dest) :=
  match o with Done ok d _ _ => Some (ok, d) | _ => None end.
