(* Model/Value.v - Go values of the declared types as finite trees, typing
   against a node, zero values, and the canonical text form shared with the Go
   harness (harness/emit/value.go parses and prints exactly this). *)
From Coq Require Import List Bool String Ascii ZArith Arith Lia Floats.SpecFloat.
From Verif Require Import Util Ints Strconv Floats Node.
Import ListNotations.
Local Open Scope string_scope.

Inductive val :=
| VBool (b : bool)
| VInt (z : Z)                                   (* any integer kind, byte included; kept in range *)
| VFloat (f : spec_float)                        (* float32 values are float64-representable *)
| VStr (s : string)
| VBytes (isnil : bool) (d : list ascii) (extra : nat)          (* []byte; extra = cap - len *)
| VStruct (fs : list val)                        (* fields in declaration order *)
| VSlice (isnil : bool) (es : list val) (extra : nat)
| VMap (isnil : bool) (kvs : list (val * val))
| VPtr (o : option val).

Section ValInd.
  Variable P : val -> Prop.
  Hypothesis Hb : forall b, P (VBool b).
  Hypothesis Hi : forall z, P (VInt z).
  Hypothesis Hf : forall f, P (VFloat f).
  Hypothesis Hs : forall s, P (VStr s).
  Hypothesis Hy : forall n d e, P (VBytes n d e).
  Hypothesis Ht : forall fs, Forall P fs -> P (VStruct fs).
  Hypothesis Hl : forall n es e, Forall P es -> P (VSlice n es e).
  Hypothesis Hm : forall n kvs, Forall (fun kv => P (fst kv) /\ P (snd kv)) kvs -> P (VMap n kvs).
  Hypothesis Hp0 : P (VPtr None).
  Hypothesis Hp : forall v, P v -> P (VPtr (Some v)).
  Fixpoint val_ind' (v : val) : P v :=
    match v with
    | VBool b => Hb b | VInt z => Hi z | VFloat f => Hf f | VStr s => Hs s | VBytes n d e => Hy n d e
    | VStruct fs => Ht fs ((fix go (l : list val) : Forall P l :=
                              match l with [] => Forall_nil _ | x :: r => Forall_cons _ (val_ind' x) (go r) end) fs)
    | VSlice n es e => Hl n es e ((fix go (l : list val) : Forall P l :=
                              match l with [] => Forall_nil _ | x :: r => Forall_cons _ (val_ind' x) (go r) end) es)
    | VMap n kvs => Hm n kvs ((fix go (l : list (val * val)) : Forall (fun kv => P (fst kv) /\ P (snd kv)) l :=
                              match l with
                              | [] => Forall_nil _
                              | kv :: r => Forall_cons kv (match kv as kv0 return P (fst kv0) /\ P (snd kv0) with
                                                           | (k, x) => conj (val_ind' k) (val_ind' x) end) (go r)
                              end) kvs)
    | VPtr None => Hp0
    | VPtr (Some x) => Hp x (val_ind' x)
    end.
End ValInd.

(* ---------- scalar kinds of a basic node ---------- *)
Definition skind_of_name (s : string) : option skind :=
  if String.eqb s "bool" then Some SBool
  else if String.eqb s "byte" then Some SByte
  else if String.eqb s "float32" then Some SF32
  else if String.eqb s "float64" then Some SF64
  else if String.eqb s "string" then Some SString
  else match find (fun k => String.eqb (ikind_name k) s) all_ikinds with
       | Some k => Some (SInt k)
       | None => None
       end.

(* the scalar kind a basic node computes with: its underlying name *)
Definition node_skind (n : node) : option skind := skind_of_name (n_typu n).

Definition is_bytes_node (n : node) : bool := String.eqb (n_typn n) "[]byte".

Definition zero_scalar (k : skind) : val :=
  match k with
  | SBool => VBool false | SInt _ | SByte => VInt 0 | SF32 | SF64 => VFloat (S754_zero false) | SString => VStr ""
  end.

(* the zero value of the Go type a node describes (pointer flag included) *)
Fixpoint zero_val (n : node) {struct n} : val :=
  match n with
  | Node ty tn tu nm pk pki p chld mk mv sl hb hc =>
    if p then VPtr None else
    match ty with
    | typeBasic => match skind_of_name tu with Some k => zero_scalar k | None => VInt 0 end
    | typeStruct => VStruct (map zero_val chld)
    | typeMap => VMap true []
    | typeSlice => if String.eqb tn "[]byte" then VBytes true [] 0 else VSlice true [] 0
    end
  end.

(* ---------- typing (boolean, used by the enumerators and as premise of theorems) ---------- *)
Definition scalar_range_ok (k : skind) (v : val) : bool :=
  match k, v with
  | SBool, VBool _ => true
  | SInt i, VInt z => in_range i z
  | SByte, VInt z => in_range KUint8 z
  | SF32, VFloat _ | SF64, VFloat _ => true
  | SString, VStr _ => true
  | _, _ => false
  end.

Definition forallb2 {A B} (f : A -> B -> bool) : list A -> list B -> bool :=
  fix go (l : list A) (m : list B) : bool :=
    match l, m with
    | [], [] => true
    | x :: r, y :: s => f x y && go r s
    | _, _ => false
    end.

Fixpoint wtb (n : node) (v : val) {struct n} : bool :=
  match n with
  | Node ty tn tu nm pk pki p chld mk mv sl hb hc =>
    let inner (v : val) : bool :=
      match ty with
      | typeBasic => match skind_of_name tu with Some k => scalar_range_ok k v | None => false end
      | typeStruct =>
        match v with
        | VStruct fs =>
          forallb2 wtb chld fs
        | _ => false
        end
      | typeMap =>
        match v, mk, mv with
        | VMap _ kvs, Some kn, Some vn =>
          forallb (fun kv => wtb kn (fst kv) && wtb vn (snd kv)) kvs
        | _, _, _ => false
        end
      | typeSlice =>
        if String.eqb tn "[]byte" then match v with VBytes _ _ _ => true | _ => false end
        else match v, sl with
             | VSlice _ es _, Some en => forallb (wtb en) es
             | _, _ => false
             end
      end in
    if p then match v with VPtr None => true | VPtr (Some x) => inner x | _ => false end
    else inner v
  end.

(* ---------- canonical text ---------- *)
Definition pr_scalar (v : val) : string :=
  match v with
  | VBool b => if b then "t" else "f"
  | VInt z => Z_to_string z
  | VFloat f => pr_float f
  | VStr s => "s" ++ hex_of_bytes (bytes_of_string s)
  | _ => "?"
  end.

Fixpoint insert_sorted (x : string * string) (l : list (string * string)) : list (string * string) :=
  match l with
  | [] => [x]
  | y :: r => if String.leb (fst x) (fst y) then x :: l else y :: insert_sorted x r
  end.
Definition sort_pairs (l : list (string * string)) : list (string * string) := fold_right insert_sorted [] l.

(* [caps]: print spare capacity (inputs) or not (observations) *)
Fixpoint pr_val (caps : bool) (v : val) {struct v} : string :=
  match v with
  | VBool _ | VInt _ | VFloat _ | VStr _ => pr_scalar v
  | VBytes isnil d e =>
    if isnil then "nil" else "b" ++ hex_of_bytes d ++ (if caps then "+" ++ nat_to_string e else "")
  | VStruct fs => "{" ++ join "," ((fix go (l : list val) : list string :=
                                      match l with [] => [] | x :: r => pr_val caps x :: go r end) fs) ++ "}"
  | VSlice isnil es e =>
    if isnil then "nil"
    else "[" ++ (if caps then "+" ++ nat_to_string e ++ ":" else "") ++
         join "," ((fix go (l : list val) : list string :=
                      match l with [] => [] | x :: r => pr_val caps x :: go r end) es) ++ "]"
  | VMap isnil kvs =>
    if isnil then "nil"
    else let ps := (fix go (l : list (val * val)) : list (string * string) :=
                      match l with [] => [] | (k, x) :: r => (pr_val caps k, pr_val caps x) :: go r end) kvs in
         "<" ++ join "," (map (fun p => fst p ++ "=" ++ snd p) (sort_pairs ps)) ++ ">"
  | VPtr None => "nil"
  | VPtr (Some x) => "&" ++ pr_val caps x
  end.

(* observations never carry capacities *)
Definition dump (v : val) : string := pr_val false v.

(* ---------- small accessors ---------- *)
Definition deref (v : val) : option val := match v with VPtr (Some x) => Some x | _ => None end.
Definition is_nil_ptr (v : val) : bool := match v with VPtr None => true | _ => false end.

Fixpoint val_eqb (a b : val) {struct a} : bool :=
  match a, b with
  | VBool x, VBool y => Bool.eqb x y
  | VInt x, VInt y => Z.eqb x y
  | VFloat x, VFloat y => String.eqb (pr_float x) (pr_float y)
  | VStr x, VStr y => String.eqb x y
  | VBytes n d e, VBytes n' d' e' => Bool.eqb n n' && String.eqb (string_of_bytes d) (string_of_bytes d') && Nat.eqb e e'
  | VStruct fs, VStruct gs =>
    (fix go (l l' : list val) : bool :=
       match l, l' with [], [] => true | x :: r, y :: r' => val_eqb x y && go r r' | _, _ => false end) fs gs
  | VSlice n es e, VSlice n' es' e' =>
    Bool.eqb n n' && Nat.eqb e e' &&
    (fix go (l l' : list val) : bool :=
       match l, l' with [], [] => true | x :: r, y :: r' => val_eqb x y && go r r' | _, _ => false end) es es'
  | VMap n kvs, VMap n' kvs' =>
    Bool.eqb n n' &&
    (fix go (l l' : list (val * val)) : bool :=
       match l, l' with
       | [], [] => true
       | (k, x) :: r, (k', y) :: r' => val_eqb k k' && val_eqb x y && go r r'
       | _, _ => false
       end) kvs kvs'
  | VPtr None, VPtr None => true
  | VPtr (Some x), VPtr (Some y) => val_eqb x y
  | _, _ => false
  end.
