(* Model/InsReset.v - what the code emitted by writeNodeReset (/repo/compiler.go)
   computes: the body of the generated Reset method, on the value behind the
   pointer it receives.  This is the emitter AFTER the two fix: commits
   (0e8d134: every pointer field is nil-guarded, not only pointer containers;
   e3bd33a: nil elements of a slice of struct pointers are skipped), so that no
   statement of the body dereferences a pointer that may be nil:

     struct    for every child: `if v.F != nil {` (pointer children) child code `}`
     map       `if l := len(m); l > 0 { for k := range m { delete(m, k) } }`
     []byte    `if l := len(b); l > 0 { b = b[:0] }`
     slice     `if l := len(s); l > 0 {` - when the element node is not basic:
               `_ = s[l-1]; for i < l { x := [&]s[i]; if x == nil { continue } element code }` -
               `s = s[:0] }`
     basic     `[*]v = 0 | false | ""` chosen by the underlying type name

   A value is the content of the Go variable the node describes, pointer flag
   included ([VPtr] for pointer nodes).  Truncation keeps the backing array:
   the old length is added to the spare capacity.  The element code of a slice
   runs on elements that the truncation then hides; it has no effect on the
   value tree and is not represented. *)
From Coq Require Import List Bool String Ascii ZArith Arith.
From Verif Require Import Util Ints Node Value Outcome.
Import ListNotations.
Local Open Scope string_scope.

(* the literal the basic case writes, by type name; None = no statement emitted *)
Definition reset_literal (tn tu : string) : option val :=
  let t := if String.eqb tu "" then tn else tu in
  if String.eqb t "rune" then Some (VInt 0) else
  match skind_of_name t with Some k => Some (zero_scalar k) | None => None end.

Definition reset_fields (rec : node -> val -> val) : list node -> list val -> list val :=
  fix go (chs : list node) (fs : list val) : list val :=
    match chs, fs with
    | ch :: cr, f :: fr => rec ch f :: go cr fr
    | _, _ => fs
    end.

Fixpoint reset (n : node) (v : val) {struct n} : val :=
  match n with
  | Node ty tn tu nm pk pki p chld mk mv sl hb hc =>
    let inner (x : val) : val :=
      match ty with
      | typeStruct =>
        match x with
        | VStruct fs => VStruct (reset_fields reset chld fs)
        | _ => x
        end
      | typeMap =>
        match x with
        | VMap isnil kvs => VMap isnil []
        | _ => x
        end
      | typeSlice =>
        match x with
        | VBytes isnil d e => VBytes isnil [] (List.length d + e)
        | VSlice isnil es e => VSlice isnil [] (List.length es + e)
        | _ => x
        end
      | typeBasic =>
        match reset_literal tn tu with Some z => z | None => x end
      end in
    (* pointer nodes are reached under `!= nil` (fields) or after `== nil { continue }` (elements) *)
    if p then match v with VPtr (Some x) => VPtr (Some (inner x)) | _ => v end
    else inner v
  end.

(* ---------- the method ----------
   Reset(x any): T -> ErrMustPointerType; *T -> origin = x; **T -> origin = *x when x is not nil;
   anything else -> ErrUnsupportedType; then `if origin == nil { return ErrUnsupportedType }`
   (fix: commit 7e52753; before it the body read through a nil origin at once). *)
Definition body_touches (n : node) : bool :=
  match n_typ n with typeStruct => negb (match n_chld n with [] => true | _ => false end) | _ => true end.

Definition reset_method (n : node) (a : arg) : out (option val) :=
  match a with
  | AVal v => Ret (Some v) (Some EMustPointer)
  | ANil | AForeign => Ret None (Some EUnsupported)
  | APtr (Some v) => Ret (Some (reset n v)) None
  | APtrPtr (Some (Some v)) => Ret (Some (reset n v)) None
  | APtr None | APtrPtr (Some None) | APtrPtr None => Ret None (Some EUnsupported)
  end.
