(* Model/Loop.v - what the code emitted by writeNode(..., modeLoop) and the Loop
   header of writeRootNode (/repo/compiler.go) computes: the body of the
   generated Loop method, statement by statement.

   This is the model of the emitter AFTER two fix: commits (findings/C09.txt):
     - a map / slice node iterates only when the path ends at it
       (`if len(path) == depth { for k := range ... ; return }`) and otherwise
       follows the path into the entry / element with the navigation code the
       other modes use (the pinned emitter iterated the first collection reached
       and ignored the rest of the path);
     - the header's `if len(path) == 0 { return }` is emitted for struct roots
       only (the pinned header also returned for root maps);
     - the map loop ranges over key and value and hands the ranged value over
       (the pinned loop looked the key up again, which misses NaN keys);
     - the bool key rendering compiles (the buffer is dereferenced before it is
       sliced, pointer keys are dereferenced in the condition).

   The iterator is a script: whether it wants the key in round i and the control
   value it answers in round i.  The outcome is the trace of the calls made on the
   iterator plus the returned error.  Map iteration order is an oracle: [ord]
   (a Section variable) rearranges the entries; theorems assume it yields a
   permutation and hold for every such [ord]. *)
From Coq Require Import List Bool String Ascii ZArith Arith Lia.
From Verif Require Import Util Ints Strconv Floats Node Value Outcome.
Import ListNotations.
Local Open Scope string_scope.
Local Open Scope list_scope.

(* inspector.LoopCtl *)
Inductive ctl := CNone | CBrk | CCnt.

Record script := { wants : nat -> bool; ctls : nat -> ctl }.

(* calls made on the iterator, in call order. [ins] = TypeName() of the inspector handed over *)
Inductive event :=
| ERequireKey (ans : bool)
| ESetKey (text : string) (ins : string)      (* l.SetKey(buf, &inspector.StaticInspector{}) with *buf = text *)
| ESetVal (v : val) (ins : string)            (* the value handed over: &s[k] is VPtr (Some e), a map value is e *)
| EIterate (c : ctl).

Definition trace := list event.

(* ---------- key rendering: the switch on node.mapk.typn in loop mode ---------- *)
Inductive ktext :=
| KT (s : string)
| KNil          (* `*k` with a nil pointer key: panics *)
| KUnk.         (* no prediction: a float outside the exact-decimal domain of render_float, or a key
                   type name the emitter falls back to x2bytes for (byte, named scalars: the other
                   emitters do not compile for those) *)

Definition int_names : list string := ["int"; "int8"; "int16"; "int32"; "int64"].
Definition uint_names : list string := ["uint"; "uint8"; "uint16"; "uint32"; "uint64"].
Definition smem (s : string) (l : list string) : bool := existsb (String.eqb s) l.

Definition render_scalar_key (tn : string) (k : val) : ktext :=
  if String.eqb tn "string" then match k with VStr s => KT s | _ => KUnk end
  else if String.eqb tn "bool" then match k with VBool b => KT (if b then "true" else "false") | _ => KUnk end
  else if smem tn int_names || smem tn uint_names then match k with VInt z => KT (Z_to_string z) | _ => KUnk end
  else if String.eqb tn "float32" || String.eqb tn "float64" then
    match k with VFloat f => match render_float f with Some t => KT t | None => KUnk end | _ => KUnk end
  else KUnk.

(* fmtVnb(node.mapk, "k", depth+1): `*k` for pointer keys *)
Definition render_key (kn : node) (k : val) : ktext :=
  if n_ptr kn then
    match k with
    | VPtr (Some x) => render_scalar_key (n_typn kn) x
    | VPtr None => KNil
    | _ => KUnk
    end
  else render_scalar_key (n_typn kn) k.

(* the inspector handed over with an element: <Elem>Inspector for struct elements *)
Definition elem_ins (en : node) : string :=
  match n_typ en with typeStruct => n_typn en | _ => "static" end.

Definition static_name : string := "static".

(* ---------- the `for k := range` body ---------- *)
(* items: key text and the value handed to SetVal, in visiting order; [i] = number of the round *)
Fixpoint rounds (sc : script) (ins : string) (items : list (ktext * val)) (i : nat) : trace + pkind :=
  match items with
  | [] => inl []
  | (kt, v) :: r =>
    let wk := wants sc i in
    let keyev : list event + pkind :=
      if wk then
        match kt with
        | KT t => inl [ESetKey t static_name]
        | KUnk => inl [ESetKey "?" static_name]
        | KNil => inr PNilDeref
        end
      else inl [] in
    match keyev with
    | inr p => inr p
    | inl ke =>
      let c := ctls sc i in
      let here := ERequireKey wk :: ke ++ [ESetVal v ins; EIterate c] in
      match c with
      | CBrk => inl here
      | _ => match rounds sc ins r (S i) with inl tr => inl (here ++ tr) | inr p => inr p end
      end
    end
  end.

(* slices: `for k := range s`, key AppendInt(int64(k), 10), value &s[k] *)
Fixpoint slice_items (i : nat) (es : list val) : list (ktext * val) :=
  match es with
  | [] => []
  | e :: r => (KT (Z_to_string (Z.of_nat i)), VPtr (Some e)) :: slice_items (S i) r
  end.

(* maps: `for k, kv := range m`, the ranged value is handed over *)
Definition map_items (kn : node) (order : list (val * val)) : list (ktext * val) :=
  map (fun kv => (render_key kn (fst kv), snd kv)) order.

Definition leval (c : cur) : val + pkind :=
  match c with CVal v => inl v | CNil => inr PNilDeref | CPoison => inr PNilDeref end.

Definition finish_rounds (r : trace + pkind) : out trace :=
  match r with inl tr => Ret tr None | inr p => Panic p end.

(* children skipped by the field dispatch in loop mode: basic types and []byte *)
Definition is_basic_child (ch : node) : bool :=
  match n_typ ch with
  | typeBasic => true
  | typeSlice => String.eqb (n_typn ch) "[]byte"
  | _ => false
  end.

(* `if path[depth] == "F" { x := [&]v.F; _ = x; <child> }` for every non-basic child, no return after it *)
Definition lwalk (rec : node -> cur -> out trace) (c : cur) (seg : string) : list node -> nat -> out trace :=
  fix walk (chs : list node) (idx : nat) {struct chs} : out trace :=
    match chs with
    | [] => Fall []
    | ch :: rest =>
      if is_basic_child ch then walk rest (S idx)
      else if String.eqb seg (n_name ch) then
        match cur_field c ch idx with
        | CPoison => Panic PNilDeref                 (* x.F with x nil *)
        | cc => bind (rec ch cc) (fun _ => walk rest (S idx))
        end
      else walk rest (S idx)
    end.

Section Loop.
Variable sc : script.
Variable ord : list (val * val) -> list (val * val).     (* the order `range` visits a map in *)

Fixpoint loop (n : node) (c : cur) (depth : nat) (path : list string) {struct n} : out trace :=
  match n with
  | Node ty tn tu nm pk pki p chld mk mv sl hb hc =>
    (* if v == nil { return } *)
    let nilchk (k : out trace) : out trace :=
      if p then match c with CNil => Ret [] None | CPoison => Panic PNilDeref | CVal _ => k end else k in
    match ty with
    | typeStruct =>
      (* requireLenCheck: if len(path) > depth { nil check; fields } *)
      match nth_error path depth with
      | None => Fall []
      | Some seg => nilchk (lwalk (fun ch cc => loop ch cc (S depth) path) c seg chld 0)
      end
    | typeMap =>
      match mk, mv with
      | Some kn, Some vn =>
        nilchk (
          if Nat.eqb (List.length path) depth then
            (* for k := range m { ... }; return *)
            match leval c with
            | inr k => Panic k
            | inl (VMap _ kvs) => finish_rounds (rounds sc (elem_ins vn) (map_items kn (ord kvs)) 0)
            | inl _ => Panic PTypeAssert
            end
          else
            match nth_error path depth with
            | None => Fall []
            | Some seg =>
              if is_string_key kn then
                (* if x, ok := m[path[depth]]; ok { <value> } *)
                match leval c with
                | inr k => Panic k
                | inl (VMap _ kvs) =>
                  match lookup kn kvs (VStr seg) with
                  | None => Fall []
                  | Some xv => loop vn (cur_of vn xv) (S depth) path
                  end
                | inl _ => Panic PTypeAssert
                end
              else
                (* var k K; <conversion snippet>; x := m[k]; <value> *)
                match conv_key kn seg with
                | None => Ret [] (Some EParse)
                | Some k =>
                  match leval c with
                  | inr pk' => Panic pk'
                  | inl (VMap _ kvs) =>
                    loop vn (cur_of vn (match lookup kn kvs k with Some x => x | None => zero_val vn end)) (S depth) path
                  | inl _ => Panic PTypeAssert
                  end
                end
            end)
      | _, _ => Fall []
      end
    | typeSlice =>
      if String.eqb tn "[]byte" then
        (* not iterable for the emitter (requireLenCheck stays): the index code is emitted, its element is basic *)
        match nth_error path depth with
        | None => Fall []
        | Some seg =>
          nilchk (match conv_index seg with
                  | None => Ret [] (Some EParse)
                  | Some _ => match leval c with inr k => Panic k | inl _ => Fall [] end
                  end)
        end
      else
        match sl with
        | None => Fall []
        | Some en =>
          nilchk (
            if Nat.eqb (List.length path) depth then
              (* for k := range s { ... }; return *)
              match leval c with
              | inr k => Panic k
              | inl (VSlice _ es _) => finish_rounds (rounds sc (elem_ins en) (slice_items 0 es) 0)
              | inl _ => Panic PTypeAssert
              end
            else
              match nth_error path depth with
              | None => Fall []
              | Some seg =>
                match conv_index seg with
                | None => Ret [] (Some EParse)
                | Some i =>
                  match leval c with
                  | inr k => Panic k
                  | inl (VSlice _ es _) =>
                    if ((0 <=? i) && (i <? Z.of_nat (List.length es)))%Z then
                      match nth_error es (Z.to_nat i) with
                      | None => Panic PIndex
                      | Some ev => loop en (cur_of en ev) (S depth) path
                      end
                    else Fall []
                  | inl _ => Panic PTypeAssert
                  end
                end
              end)
        end
    | typeBasic => Fall []
    end
  end.

(* ---------- the method: header + body ---------- *)
Definition is_struct_root (n : node) : bool := match n_typ n with typeStruct | typeBasic => true | _ => false end.

Definition loop_method (n : node) (a : arg) (path : list string) : out trace :=
  (* if len(path) == 0 { return }   -- struct roots only *)
  if is_struct_root n && match path with [] => true | _ => false end then Ret [] None else
  match a with
  | ANil | AForeign => Ret [] None
  | _ =>
    match header_x a with
    | inr k => Panic k
    | inl None => Ret [] None
    | inl (Some CNil) => Ret [] None                   (* if x == nil { return } (fix: 1a38871) *)
    | inl (Some c) =>
      match loop n c 0 path with
      | Fall tr => Ret tr None
      | o => o
      end
    end
  end.

End Loop.
