(* Model/StrAnyMapHeap.v - executable model of StringAnyMapInspector
   (/repo/stranymap.go, the code after the fix commits) over a HEAP of map
   objects.  Definitions only.

   Model/StrAnyMap.v gives nested maps value semantics, which is exact as long
   as no map is reachable twice.  Go maps are references: Get hands out the very
   map a tree holds (stranymap.go:23 assigns src to the out-parameter), Set stores a map it is given
   as it is (default arm of the type switch, stranymap.go:76), so the same map
   object can be held by several trees and by the caller.  Here a value is a
   leaf or a reference [SMap form m] to object m of the store (the data types of
   Spec/StrAnyMapStore.v); the pointer cells of *map / **map are written by
   stranymap.go only to replace a nil map (SetWithBuffer, CopyTo), and nil
   holders are left out here, so a holding form is part of the reference and
   only map objects have identity.  Nil holders, string / byte memory and
   origins are the business of Model/StrAnyMap.v.

   Every function follows the statements of the Go method: delete(m, k) for
   every key is [put st m []], m[k] = v is [put st m (supsert k v (obj st m))]
   on the CURRENT store (so the store-back buf_[path[0]] = x after the recursive
   SetWithBuffer reads the map as the recursion left it), make() is [alloc]. *)
From Coq Require Import ZArith NArith List String Ascii Bool.
From Verif Require Import Util Ints StrAnyMap StrAnyMapSpec StrAnyMapStore.
Import ListNotations.
Local Open Scope string_scope.

(* ---------- GetTo (21-35): *buf = src at the end of the path ---------- *)
Fixpoint h_get (st : store) (path : list string) (src : snode) : res (option snode) :=
  match path with
  | [] => Ok (Some src)
  | k :: rest =>
    match src with
    | SLeaf _ => Err EUnsupported                       (* indir: default arm *)
    | SMap _ m =>
      match slookup k (obj st m) with
      | None => Ok None
      | Some x => h_get st rest x
      end
    end
  end.

(* ---------- SetWithBuffer (42-80) ---------- *)
(* the type switch at 58-77: strings and bytes are bufferized, anything else is stored as is *)
Definition h_bufferized (v : snode) : snode :=
  match v with SLeaf (LBytes d _) => SLeaf (LBytes d 0) | _ => v end.

Fixpoint h_set (st : store) (path : list string) (dst value : snode) : store * res unit :=
  match path with
  | [] => (st, Ok tt)
  | k :: rest =>
    match dst with
    | SLeaf _ => (st, Err EUnsupported)
    | SMap _ m =>
      match rest with
      | [] => (put st m (supsert k (h_bufferized value) (obj st m)), Ok tt)
      | _ :: _ =>
        let '(st0, x) :=
          match slookup k (obj st m) with
          | Some x => (st, x)
          | None => let '(st1, id) := alloc st [] in (st1, SMap HVal id)      (* x = make(map[string]any) *)
          end in
        let '(st1, r) := h_set st0 rest x value in
        (put st1 m (supsert k x (obj st1 m)), r)                              (* buf_[path[0]] = x *)
      end
    end
  end.

(* ---------- Length (180-208) at a node ---------- *)
Fixpoint h_length (st : store) (path : list string) (x : snode) : res (option Z) :=
  match path with
  | [] =>
    match x with
    | SMap _ m => Ok (Some (Z.of_nat (List.length (obj st m))))
    | SLeaf (LStr s) => Ok (Some (Z.of_nat (String.length s)))
    | SLeaf (LBytes d _) => Ok (Some (Z.of_nat (String.length d)))
    | SLeaf _ => Ok None
    end
  | k :: rest =>
    match x with
    | SLeaf _ => Err EUnsupported
    | SMap _ m =>
      match slookup k (obj st m) with
      | None => Ok None
      | Some x1 => h_length st rest x1
      end
    end
  end.

(* ---------- Reset (231-240): delete every key of the map the argument holds ---------- *)
Definition h_reset (st : store) (x : snode) : store * res unit :=
  match x with
  | SMap _ m => (put st m [], Ok tt)
  | SLeaf _ => (st, Ok tt)                              (* indir1's error is swallowed; a nil any returns nil *)
  end.

(* ---------- cpy (283-318) ----------
   One fresh map per nested map (in the form of the original), strings and
   bytes bufferized.  The recursion follows references, so it carries fuel; on
   a store without cycles [S (length st)] is never used up (the Go code does
   not terminate on a cyclic value). *)
Definition h_tight (l : leaf) : leaf := match l with LBytes d _ => LBytes d 0 | _ => l end.

(* the loop over one map; [rec] copies a nested map's entries *)
Fixpoint cpy_list (rec : store -> sentries -> store * sentries) (l : sentries) (st : store) : store * sentries :=
  match l with
  | [] => (st, [])
  | (k, v) :: r =>
    let '(st1, v1) :=
      match v with
      | SMap h m =>
        let '(st', es') := rec st (obj st m) in
        let '(st'', id) := alloc st' es' in (st'', SMap h id)
      | SLeaf l => (st, SLeaf (h_tight l))
      end in
    let '(st2, r') := cpy_list rec r st1 in (st2, (k, v1) :: r')
  end.

Fixpoint h_cpy (fuel : nat) (st : store) (es : sentries) : store * sentries :=
  match fuel with
  | O => (st, [])
  | S f => cpy_list (h_cpy f) es st
  end.

(* ---------- CopyTo (165-178) ---------- *)
Definition h_copy_to (st : store) (src dst : snode) : store * res unit :=
  match src with
  | SLeaf _ => (st, Err EUnsupported)
  | SMap _ ms =>
    match dst with
    | SLeaf _ => (st, Err EUnsupported)
    | SMap HVal _ => (st, Err EMustPointer)
    | SMap _ md =>
      let st0 := put st md [] in                                       (* delete(mdst, k) for every k *)
      let '(st1, es) := h_cpy (S (List.length st0)) st0 (obj st0 ms) in
      (put st1 md es, Ok tt)
    end
  end.

(* ---------- Copy (157-163): x_ := make(map[string]any); CopyTo(x, &x_, &buf); dst = x_ ---------- *)
Definition h_copy (st : store) (x : snode) : store * snode * res unit :=
  let '(st0, id) := alloc st [] in
  let '(st1, r) := h_copy_to st0 x (SMap HPtr id) in
  (st1, SMap HVal id, r).

(* ---------- shapes of stores ---------- *)
(* no object reaches itself *)
Definition acyclic (st : store) : bool :=
  forallb (fun m => negb (existsb (fun kv => reaches (List.length st) st (snd kv) m) (obj st m)))
          (seq 0 (List.length st)).

(* the map objects a path runs through, from the holder to the one the last key is looked up in *)
Fixpoint path_objs (st : store) (path : list string) (x : snode) : list nat :=
  match path with
  | [] => []
  | k :: rest =>
    match x with
    | SLeaf _ => []
    | SMap _ m => m :: match slookup k (obj st m) with Some c => path_objs st rest c | None => [] end
    end
  end.
