(* Model/AssignSeqVal.v - the data of a history of Assign / AssignBuf calls,
   shared by the model (Model/AssignSeq.v) and the specification
   (Spec/AssignSeqSpec.v).  Definitions only.

   A step names a destination and gives the source as it is at that step.
   [DstFresh]: every step works on the destination it names (a new object);
   [DstReuse]: the first step names the destination object, every later step
   works on that same object, holding what the step before left in it. *)
From Coq Require Import List.
From Verif Require Import AssignVal.

Inductive dmode := DstFresh | DstReuse.

Record hstep := { h_dst : dest; h_src : source }.

(* the destination a step works on; [cur]: the reused destination object as the
   step before left it (None before the first step) *)
Definition step_dest (dm : dmode) (cur : option dest) (st : hstep) : dest :=
  match dm, cur with
  | DstReuse, Some d => d
  | _, _ => h_dst st
  end.
