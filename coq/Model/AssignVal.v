(* Model/AssignVal.v - the data Assign works on, shared by the model
   (Model/Assign.v) and the specification (Spec/AssignSpec.v): Go values of the
   sixteen kinds, the forms a source comes in, destinations, and the ownership
   classes of a stored text.  Definitions only.

   Destination: the thing behind the (non-nil) destination pointer, given by
   its current value ([DPtr old]); [DForeign] is any destination whose dynamic
   type is none of the sixteen pointer types (a value, a pointer to a struct,
   a nil interface).
   Source: value form, non-nil pointer form, typed nil pointer, foreign type.

   Who owns the bytes of a stored text:
     ONone    no text was stored (non-text destination, or nothing written)
     OSrc     the stored slice/string header aliases the source's bytes
     OBuf off the bytes are buf[off : off+len] of the accumulating buffer
     OOld     written in place into the old destination's backing array
     OFresh   a new allocation *)
From Coq Require Import ZArith Bool String Floats.SpecFloat.
From Verif Require Import Ints.

Inductive skind := KB | KI (k : ikind) | KF32 | KF64 | KS | KBy.

Inductive sval :=
| VBool (b : bool)
| VInt (k : ikind) (z : Z)
| VF32 (f : spec_float)
| VF64 (f : spec_float)
| VStr (s : string)
| VBytes (s : string).

Definition kind_of (v : sval) : skind :=
  match v with
  | VBool _ => KB | VInt k _ => KI k | VF32 _ => KF32 | VF64 _ => KF64 | VStr _ => KS | VBytes _ => KBy
  end.

Inductive source :=
| SVal (v : sval)        (* T *)
| SPtr (v : sval)        (* *T, not nil *)
| SNil (k : skind)       (* ( *T)(nil) *)
| SForeign.              (* any other dynamic type, or the nil interface *)

Inductive dest :=
| DPtr (old : sval)      (* *T pointing at a variable that holds [old] *)
| DForeign.


Inductive owner := ONone | OSrc | OBuf (off : nat) | OOld | OFresh.
