(* Proofs/LoopSound.v - the emitted Loop code meets the C09 demand for every
   well-formed node, every well-typed value, every path, every iterator script
   and every visiting order of maps. *)
From Coq Require Import List Bool String Ascii ZArith Arith Lia Sorting.Permutation.
From Verif Require Import Util Ints Strconv Floats Node Value Outcome Nav LC LCSpec LCSound Loop LoopSpec.
Import ListNotations.
Local Open Scope string_scope.
Local Open Scope list_scope.

(* ---------- pointers ---------- *)
Definition not_ptr (x : val) : Prop := match x with VPtr _ => False | _ => True end.

Lemma strip_not_ptr x f : not_ptr x -> strip_ptrs f x = Some x.
Proof. destruct x, f; simpl; intros H; try reflexivity; contradiction. Qed.

Lemma scalar_not_ptr' k x : scalar_range_ok k x = true -> not_ptr x.
Proof. destruct k, x; simpl; intros H; try discriminate; exact I. Qed.

(* a value handed over as &elem denotes the same as elem *)
Lemma strip_elem en e : wtb en e = true -> strip_ptrs 3 (VPtr (Some e)) = strip_ptrs 3 e.
Proof.
  destruct en as [ty tn tu nm pk pki p chld mk mv sl hb hc]. cbn [wtb]. intros WT.
  change (strip_ptrs 3 (VPtr (Some e))) with (strip_ptrs 2 e).
  assert (INNER : forall x,
    match ty with
    | typeBasic => match skind_of_name tu with Some k => scalar_range_ok k x | None => false end
    | typeStruct => match x with VStruct fs => forallb2 wtb chld fs | _ => false end
    | typeMap => match x, mk, mv with
                 | VMap _ kvs, Some kn, Some vn => forallb (fun kv => wtb kn (fst kv) && wtb vn (snd kv)) kvs
                 | _, _, _ => false end
    | typeSlice => if String.eqb tn "[]byte" then match x with VBytes _ _ _ => true | _ => false end
                   else match x, sl with VSlice _ es _, Some en => forallb (wtb en) es | _, _ => false end
    end = true -> not_ptr x).
  { intros x H. destruct ty.
    - destruct x; try discriminate; exact I.
    - destruct x; try discriminate; exact I.
    - destruct (String.eqb tn "[]byte"); destruct x; try discriminate; exact I.
    - destruct (skind_of_name tu) as [k|]; [|discriminate]. eapply scalar_not_ptr'; eauto. }
  destruct p.
  - destruct e as [| | | | | | | |[x|]]; try discriminate; [|reflexivity].
    pose proof (INNER x WT) as NP. change (strip_ptrs 1 x = strip_ptrs 2 x). rewrite !strip_not_ptr by exact NP. reflexivity.
  - pose proof (INNER e WT) as NP. rewrite !strip_not_ptr by exact NP. reflexivity.
Qed.

(* ---------- abstraction ---------- *)
Lemma abstract_app kabs a b : abstract kabs (a ++ b) = abstract kabs a ++ abstract kabs b.
Proof. apply map_app. Qed.

(* ---------- the slice loop ---------- *)
Lemma rounds_slice sc ins en : forall es i, forallb (wtb en) es = true ->
  exists tr, rounds sc ins (slice_items i es) i = inl tr /\
             abstract slice_kabs tr = spec_rounds sc ins i (index_items i es).
Proof.
  induction es as [|e r IH]; intros i WT.
  - exists []. split; reflexivity.
  - simpl in WT. apply andb_true_iff in WT. destruct WT as (We & Wr).
    destruct (IH (S i) Wr) as (tr & R & A).
    cbn [slice_items rounds index_items spec_rounds].
    unfold spec_round.
    destruct (wants sc i) eqn:WK; destruct (ctls sc i) eqn:CT; rewrite ?R;
      eexists; (split; [reflexivity|]); rewrite ?abstract_app, <- ?A;
      cbn [abstract map app]; unfold slice_kabs; rewrite ?(strip_elem en e We); reflexivity.
Qed.

(* ---------- the map loop ---------- *)
(* the key's text is produced and parses back to the key it names *)
Definition key_rt (kn : node) (k : val) : Prop :=
  exists t, render_key kn k = KT t /\ conv_key kn t = Some (named_key k).

Lemma rounds_map sc ins kn : forall kvs i, Forall (fun kv => key_rt kn (fst kv)) kvs ->
  exists tr, rounds sc ins (map_items kn kvs) i = inl tr /\
             abstract (map_kabs kn) tr = spec_rounds sc ins i (entry_items kvs).
Proof.
  induction kvs as [|[k e] r IH]; intros i KR.
  - exists []. split; reflexivity.
  - inversion KR as [|? ? K1 Kr]; subst. destruct K1 as (t & RK & CK). cbn [fst snd] in RK, CK.
    destruct (IH (S i) Kr) as (tr & R & A).
    unfold map_items, entry_items in *. cbn [map fst snd rounds spec_rounds]. rewrite RK.
    unfold spec_round.
    destruct (wants sc i) eqn:WK; destruct (ctls sc i) eqn:CT; rewrite ?R;
      eexists; (split; [reflexivity|]); rewrite ?abstract_app, <- ?A;
      cbn [abstract map app]; unfold map_kabs; rewrite ?CK; reflexivity.
Qed.

(* ---------- the demand as a function of the navigation result ---------- *)
Definition dem (r : navres) : ldemand := match r with NElem en ev => coll_of en ev | _ => LNone end.

Lemma denoted_dem n v path : denoted n v path = dem (nav n v path).
Proof. reflexivity. Qed.

Definition keys_ok (d : ldemand) : Prop :=
  match d with LMap kn _ kvs => Forall (fun kv => key_rt kn (fst kv)) kvs | _ => True end.

(* body outcomes: a fall-through is a return without error *)
Definition acc (sc : script) (ord : list (val * val) -> list (val * val)) (o : out trace) (d : ldemand) : Prop :=
  match d with
  | LNone => o = Fall [] \/ o = Ret [] None \/ o = Ret [] (Some EParse)
  | LAny => True
  | LSlice el es =>
    exists tr, o = Ret tr None /\ abstract slice_kabs tr = spec_rounds sc (spec_ins el) 0 (index_items 0 es)
  | LMap kn vn kvs =>
    exists tr, o = Ret tr None /\ abstract (map_kabs kn) tr = spec_rounds sc (spec_ins vn) 0 (entry_items (ord kvs))
  end.

Definition quiet (o : out trace) : Prop := o = Fall [] \/ o = Ret [] None \/ o = Ret [] (Some EParse).

Lemma acc_none sc ord o : quiet o -> acc sc ord o LNone.
Proof. intros H; exact H. Qed.

Lemma acc_bind_fall sc ord o d : acc sc ord o d -> acc sc ord (bind o (fun _ => Fall [])) d.
Proof.
  destruct d; simpl; auto.
  - intros (tr & E & A). subst o. exists tr. split; auto.
  - intros (tr & E & A). subst o. exists tr. auto.
  - intros [->|[->| ->]]; simpl; auto.
Qed.

(* ---------- the field walk ---------- *)
Definition lchild_out (rec : node -> cur -> out trace) (c : cur) (ch : node) (j : nat) : out trace :=
  match cur_field c ch j with
  | CPoison => Panic PNilDeref
  | cc => bind (rec ch cc) (fun _ => Fall [])
  end.

Lemma lwalk_nomatch rec c seg : forall chs idx,
  find_idx seg chs idx = None -> lwalk rec c seg chs idx = Fall [].
Proof.
  induction chs as [|ch r IH]; intros idx H; simpl in *; auto.
  destruct (String.eqb (n_name ch) seg) eqn:E; [discriminate|].
  rewrite String.eqb_sym, E. rewrite IH by auto. destruct (is_basic_child ch); reflexivity.
Qed.

Lemma lwalk_find rec c seg : forall chs idx,
  names_nodup chs = true ->
  lwalk rec c seg chs idx =
  match find_idx seg chs idx with
  | None => Fall []
  | Some (ch, j) => if is_basic_child ch then Fall [] else lchild_out rec c ch j
  end.
Proof.
  induction chs as [|ch r IH]; intros idx ND; [reflexivity|].
  cbn [lwalk find_idx].
  destruct (String.eqb (n_name ch) seg) eqn:E.
  - pose proof (find_idx_none_later _ _ _ (S idx) ND E) as NL.
    destruct (is_basic_child ch); [apply lwalk_nomatch; exact NL|].
    rewrite String.eqb_sym, E. unfold lchild_out.
    destruct (cur_field c ch idx); try reflexivity;
      (destruct (rec ch _) as [s|s e|k]; simpl; auto; apply lwalk_nomatch; exact NL).
  - simpl in ND. apply andb_true_iff in ND. destruct ND as (_ & ND).
    rewrite String.eqb_sym, E. destruct (is_basic_child ch); apply IH; exact ND.
Qed.

(* ---------- basic children and []byte denote no collection ---------- *)
Lemma basic_child_none ch f r : is_basic_child ch = true -> dem (nav ch f r) = LNone.
Proof.
  destruct ch as [ty tn tu nm pk pki p chld mk mv sl hb hc]. unfold is_basic_child. cbn [n_typ n_typn].
  intros B. destruct r as [|seg r'].
  - cbn [nav dem]. unfold coll_of. destruct (cur_of _ f); try reflexivity. cbn [n_typ n_typn].
    destruct ty; try discriminate; [rewrite B|]; reflexivity.
  - cbn [nav]. destruct ty; try discriminate.
    + rewrite B. destruct p; [destruct f as [| | | | | | | |[x|]]|]; reflexivity.
    + destruct p; [destruct f as [| | | | | | | |[x|]]|]; reflexivity.
Qed.

(* ---------- the zero value ---------- *)
Lemma loop_zero sc ord (ORD : forall l, Permutation (ord l) l) : forall n, wfn n = true -> forall depth path,
  quiet (loop sc ord n (cur_of n (zero_val n)) depth path).
Proof.
  intros n. induction n using node_ind'. intros W depth path.
  cbn [wfn] in W. cbn [loop]. unfold cur_of. cbn [n_ptr zero_val].
  destruct p.
  - (* nil pointer *)
    destruct ty.
    + destruct (nth_error path depth); [right; left|left]; reflexivity.
    + destruct mk, mv; try (left; reflexivity); right; left; reflexivity.
    + destruct (String.eqb tn "[]byte").
      * destruct (nth_error path depth); [right; left|left]; reflexivity.
      * destruct sl; [right; left|left]; reflexivity.
    + left; reflexivity.
  - destruct ty.
    + (* struct *)
      apply andb_true_iff in W. destruct W as (W & WC). apply andb_true_iff in W. destruct W as (_ & ND).
      destruct (nth_error path depth) as [seg|]; [|left; reflexivity].
      rewrite lwalk_find by exact ND.
      destruct (find_idx seg chld 0) as [[ch j]|] eqn:F; [|left; reflexivity].
      destruct (find_idx_in _ _ _ _ _ F) as (_ & _ & _ & NT). rewrite Nat.sub_0_r in NT.
      destruct (is_basic_child ch); [left; reflexivity|].
      unfold lchild_out. rewrite (cur_field_zero _ _ _ NT).
      pose proof (forallb_nth _ _ _ _ WC NT) as Wch.
      pose proof (Forall_nth _ _ _ _ H NT Wch (S depth) path) as IHc.
      destruct (cur_of ch (zero_val ch)) eqn:CO.
      * destruct IHc as [->|[->| ->]]; simpl; [left|right; left|right; right]; reflexivity.
      * destruct IHc as [->|[->| ->]]; simpl; [left|right; left|right; right]; reflexivity.
      * unfold cur_of in CO. destruct (n_ptr ch); [destruct (zero_val ch) as [| | | | | | | |[y|]]|]; discriminate.
    + (* map *)
      apply andb_true_iff in W. destruct W as (_ & W).
      destruct mk as [kn|]; [|discriminate]. destruct mv as [vn|]; [|discriminate].
      apply andb_true_iff in W. destruct W as (W & KS). apply andb_true_iff in W. destruct W as (W & KB).
      apply andb_true_iff in W. destruct W as (Wk & Wv).
      cbn [leval].
      destruct (Nat.eqb (List.length path) depth).
      * rewrite (Permutation_nil (Permutation_sym (ORD []))). right; left; reflexivity.
      * destruct (nth_error path depth) as [seg|]; [|left; reflexivity].
        destruct (is_string_key kn).
        -- unfold lookup. destruct (n_ptr kn); left; reflexivity.
        -- destruct (conv_key kn seg) as [k|]; [|right; right; reflexivity].
           unfold lookup. replace (if n_ptr kn then None else map_find [] k) with (@None val) by (destruct (n_ptr kn); reflexivity).
           apply (H1 vn eq_refl Wv).
    + (* slice *)
      apply andb_true_iff in W. destruct W as (_ & W).
      destruct (String.eqb tn "[]byte") eqn:BY.
      * destruct (nth_error path depth) as [seg|]; [|left; reflexivity].
        destruct (conv_index seg); [left|right; right]; reflexivity.
      * destruct sl as [en|]; [|discriminate]. cbn [leval].
        destruct (Nat.eqb (List.length path) depth); [right; left; reflexivity|].
        destruct (nth_error path depth) as [seg|]; [|left; reflexivity].
        destruct (conv_index seg) as [i|]; [|right; right; reflexivity].
        replace ((0 <=? i)%Z && (i <? Z.of_nat (List.length (@nil val)))%Z) with false; [left; reflexivity|].
        simpl. destruct (Z.leb_spec 0 i), (Z.ltb_spec i 0); try reflexivity; lia.
    + left; reflexivity.
Qed.

Lemma len_rest_nil {A} (path : list A) depth : skipn depth path = [] -> depth <= List.length path ->
  Nat.eqb (List.length path) depth = true /\ nth_error path depth = None.
Proof.
  intros E L. pose proof (skipn_nil_len _ _ L E) as EQ. split; [rewrite EQ; apply Nat.eqb_refl|].
  apply nth_error_None. lia.
Qed.

Lemma len_rest_cons {A} (path : list A) depth seg rest : skipn depth path = seg :: rest ->
  Nat.eqb (List.length path) depth = false /\ nth_error path depth = Some seg /\
  skipn (S depth) path = rest /\ S depth <= List.length path.
Proof.
  intros E. destruct (skipn_cons _ _ _ _ E) as (A1 & B & C).
  repeat split; auto; [apply Nat.eqb_neq; lia].
Qed.

Lemma quiet_acc_bind sc ord o : quiet o -> acc sc ord (bind o (fun _ => Fall [])) LNone.
Proof. intros [->|[->| ->]]; simpl; auto. Qed.

(* ---------- the main lemma ---------- *)
Lemma loop_sound sc ord (ORD : forall l, Permutation (ord l) l) : forall n, wfn n = true ->
  forall v depth path rest,
  wtb n v = true -> skipn depth path = rest -> depth <= List.length path ->
  keys_ok (dem (nav n v rest)) ->
  acc sc ord (loop sc ord n (cur_of n v) depth path) (dem (nav n v rest)).
Proof.
  intros n. induction n using node_ind'. intros W.
  assert (CORE : forall x depth path rest,
    wtb (Node ty tn tu nm pk pki false chld mk mv sl hb hc) x = true ->
    skipn depth path = rest -> depth <= List.length path ->
    keys_ok (dem (nav (Node ty tn tu nm pk pki false chld mk mv sl hb hc) x rest)) ->
    acc sc ord (loop sc ord (Node ty tn tu nm pk pki false chld mk mv sl hb hc) (CVal x) depth path)
        (dem (nav (Node ty tn tu nm pk pki false chld mk mv sl hb hc) x rest))).
  { intros x depth path rest WT SK LE KO.
    cbn [wfn] in W. cbn [wtb] in WT. cbn [loop].
    destruct ty.
    - (* struct *)
      apply andb_true_iff in W. destruct W as (W & WC). apply andb_true_iff in W. destruct W as (_ & ND).
      destruct x as [| | | | |fs| | |]; try discriminate.
      destruct rest as [|seg rest'].
      + destruct (len_rest_nil _ _ SK LE) as (_ & R2). rewrite R2. left; reflexivity.
      + destruct (len_rest_cons _ _ _ _ SK) as (_ & R2 & R4 & R5). rewrite R2.
        rewrite lwalk_find by exact ND. cbn [nav] in *.
        rewrite (nav_fields_find _ seg chld fs 0 fs eq_refl (forallb2_length _ _ _ WT)) in *.
        destruct (find_idx seg chld 0) as [[ch j]|] eqn:F; [|left; reflexivity].
        destruct (find_idx_in _ _ _ _ _ F) as (INc & _ & _ & NT). rewrite Nat.sub_0_r in NT.
        assert (JL : j < List.length fs).
        { rewrite (forallb2_length _ _ _ WT). apply nth_error_Some. congruence. }
        destruct (nth_error_ex fs j JL) as (f & NF). rewrite NF in *.
        pose proof (forallb_nth _ _ _ _ WC NT) as Wch.
        pose proof (forallb2_nth _ _ _ _ _ _ WT NT NF) as WTf.
        destruct (is_basic_child ch) eqn:BC.
        * rewrite (basic_child_none ch f rest' BC). left; reflexivity.
        * unfold lchild_out, cur_field. rewrite NF.
          pose proof (Forall_nth _ _ _ _ H NT Wch f (S depth) path rest' WTf R4 R5 KO) as IHc.
          destruct (cur_of ch f) eqn:CO.
          -- apply acc_bind_fall. exact IHc.
          -- apply acc_bind_fall. exact IHc.
          -- unfold cur_of in CO. destruct (n_ptr ch); [destruct f as [| | | | | | | |[y|]]|]; discriminate.
    - (* map *)
      apply andb_true_iff in W. destruct W as (_ & W).
      destruct mk as [kn|]; [|discriminate]. destruct mv as [vn|]; [|discriminate].
      apply andb_true_iff in W. destruct W as (W & KS). apply andb_true_iff in W. destruct W as (W & KB).
      apply andb_true_iff in W. destruct W as (Wk & Wv).
      destruct (n_typ kn) eqn:KT; try discriminate.
      destruct x as [| | | | | | |isnil kvs|]; try discriminate.
      cbn [leval].
      destruct rest as [|seg rest'].
      + destruct (len_rest_nil _ _ SK LE) as (R1 & _). rewrite R1.
        cbn [nav dem] in *. unfold coll_of in *. cbn [cur_of n_ptr n_typ n_mapk n_mapv] in *.
        cbn [acc keys_ok] in *.
        assert (KO' : Forall (fun kv => key_rt kn (fst kv)) (ord kvs)).
        { eapply Permutation_Forall; [apply Permutation_sym; apply ORD|exact KO]. }
        destruct (rounds_map sc (elem_ins vn) kn (ord kvs) 0 KO') as (tr & R & A).
        rewrite R. cbn [finish_rounds]. exists tr. split; auto.
      + destruct (len_rest_cons _ _ _ _ SK) as (R1 & R2 & R4 & R5). rewrite R1, R2.
        cbn [nav] in *.
        assert (FOUND : forall e k, map_find kvs k = Some e ->
                  keys_ok (dem (nav vn e rest')) ->
                  acc sc ord (loop sc ord vn (cur_of vn e) (S depth) path) (dem (nav vn e rest'))).
        { intros e k MF KO2. destruct (map_find_in _ _ _ MF) as (k' & INe).
          assert (WTe : wtb vn e = true).
          { rewrite forallb_forall in WT. specialize (WT _ INe). apply andb_true_iff in WT. tauto. }
          apply (H1 vn eq_refl Wv e (S depth) path rest' WTe R4 R5 KO2). }
        destruct (is_string_key kn) eqn:SKY.
        * rewrite (string_key_conv kn seg Wk KT KS SKY) in *. unfold lookup.
          destruct (n_ptr kn); [left; reflexivity|].
          destruct (map_find kvs (VStr seg)) as [e|] eqn:MF; [|left; reflexivity].
          apply (FOUND e (VStr seg) MF KO).
        * destruct (conv_key kn seg) as [k|] eqn:CK.
          -- unfold lookup. destruct (n_ptr kn) eqn:PK.
             ++ apply (loop_zero sc ord ORD vn Wv).
             ++ destruct (map_find kvs k) as [e|] eqn:MF.
                ** apply (FOUND e k MF KO).
                ** apply (loop_zero sc ord ORD vn Wv).
          -- destruct (n_ptr kn); right; right; reflexivity.
    - (* slice *)
      apply andb_true_iff in W. destruct W as (_ & W).
      destruct (String.eqb tn "[]byte") eqn:BY.
      + destruct x as [| | | |isnil d extra| | | |]; try discriminate.
        destruct rest as [|seg rest'].
        * destruct (len_rest_nil _ _ SK LE) as (_ & R2). rewrite R2.
          cbn [nav dem]. unfold coll_of. cbn [cur_of n_ptr n_typ n_typn]. rewrite BY. left; reflexivity.
        * destruct (len_rest_cons _ _ _ _ SK) as (_ & R2 & _). rewrite R2.
          cbn [nav dem]. rewrite BY. cbn [dem].
          destruct (conv_index seg); [left|right; right]; reflexivity.
      + destruct sl as [en|]; [|discriminate]. simpl in W.
        destruct x as [| | | | | |isnil es extra| |]; try discriminate. cbn [leval].
        destruct rest as [|seg rest'].
        * destruct (len_rest_nil _ _ SK LE) as (R1 & _). rewrite R1.
          cbn [nav dem]. unfold coll_of. cbn [cur_of n_ptr n_typ n_typn n_slct]. rewrite BY.
          cbn [acc].
          destruct (rounds_slice sc (elem_ins en) en es 0 WT) as (tr & R & A).
          rewrite R. cbn [finish_rounds]. exists tr. split; auto.
        * destruct (len_rest_cons _ _ _ _ SK) as (R1 & R2 & R4 & R5). rewrite R1, R2.
          cbn [nav] in *. rewrite BY in *.
          destruct (conv_index seg) as [i|]; [|right; right; reflexivity].
          destruct ((0 <=? i)%Z && (i <? Z.of_nat (List.length es))%Z) eqn:RG; [|left; reflexivity].
          apply andb_true_iff in RG. destruct RG as (G1 & G2). apply Z.leb_le in G1. apply Z.ltb_lt in G2.
          assert (JL : Z.to_nat i < List.length es) by lia.
          destruct (nth_error_ex es _ JL) as (e & NE). rewrite NE in *.
          assert (WTe : wtb en e = true).
          { rewrite forallb_forall in WT. apply WT. eapply nth_error_In; eauto. }
          apply (H2 en eq_refl W e (S depth) path rest' WTe R4 R5 KO).
    - (* basic *)
      destruct rest as [|seg rest']; cbn [nav dem]; [|left; reflexivity].
      unfold coll_of. cbn [cur_of n_ptr n_typ]. left; reflexivity. }
  intros v depth path rest WT SK LE KO.
  destruct p; [|apply CORE; assumption].
  cbn [wtb] in WT.
  destruct v as [| | | | | | | |[x|]]; try discriminate.
  - (* a set pointer: the same code runs on the pointee, and it denotes the same collection *)
    assert (SAME : dem (nav (Node ty tn tu nm pk pki true chld mk mv sl hb hc) (VPtr (Some x)) rest) =
                   dem (nav (Node ty tn tu nm pk pki false chld mk mv sl hb hc) x rest)).
    { destruct rest; reflexivity. }
    rewrite SAME in *.
    replace (loop sc ord (Node ty tn tu nm pk pki true chld mk mv sl hb hc) (cur_of (Node ty tn tu nm pk pki true chld mk mv sl hb hc) (VPtr (Some x))) depth path)
      with (loop sc ord (Node ty tn tu nm pk pki false chld mk mv sl hb hc) (CVal x) depth path).
    + apply CORE; assumption.
    + cbn [cur_of n_ptr loop]. destruct ty; reflexivity.
  - (* nil pointer *)
    assert (N : dem (nav (Node ty tn tu nm pk pki true chld mk mv sl hb hc) (VPtr None) rest) = LNone).
    { destruct rest; reflexivity. }
    rewrite N. cbn [cur_of n_ptr loop].
    destruct ty.
    + destruct (nth_error path depth); [right; left|left]; reflexivity.
    + destruct mk, mv; try (left; reflexivity); right; left; reflexivity.
    + destruct (String.eqb tn "[]byte").
      * destruct (nth_error path depth); [right; left|left]; reflexivity.
      * destruct sl; [right; left|left]; reflexivity.
    + left; reflexivity.
Qed.

(* ---------- the method ---------- *)
Definition finish (o : out trace) : out trace :=
  match o with Fall tr => Ret tr None | o' => o' end.

(* what the method must do for a denoted collection / for anything else (stronger than the
   text: no callbacks on EVERY path that does not denote a collection) *)
Definition exact (sc : script) (ord : list (val * val) -> list (val * val)) (o : out trace) (d : ldemand) : Prop :=
  match d with
  | LSlice el es =>
    exists tr, o = Ret tr None /\ abstract slice_kabs tr = spec_rounds sc (spec_ins el) 0 (index_items 0 es)
  | LMap kn vn kvs =>
    exists tr, o = Ret tr None /\ abstract (map_kabs kn) tr = spec_rounds sc (spec_ins vn) 0 (entry_items (ord kvs))
  | _ => o = Ret [] None \/ o = Ret [] (Some EParse)
  end.

Lemma acc_exact sc ord o d : d <> LAny -> acc sc ord o d -> exact sc ord (finish o) d.
Proof.
  destruct d; simpl; intros N H.
  - destruct H as (tr & -> & A). exists tr. auto.
  - destruct H as (tr & -> & A). exists tr. auto.
  - destruct H as [->|[->| ->]]; simpl; auto.
  - congruence.
Qed.

Lemma dem_not_any r : dem r <> LAny.
Proof.
  destruct r as [en ev| | |]; simpl; try discriminate.
  unfold coll_of. destruct (cur_of en ev); try discriminate.
  destruct (n_typ en); try discriminate.
  - destruct v; try discriminate. destruct (n_mapk en), (n_mapv en); discriminate.
  - destruct (String.eqb (n_typn en) "[]byte"); try discriminate.
    destruct v; try discriminate. destruct (n_slct en); discriminate.
Qed.

Theorem loop_method_exact sc ord n v path :
  (forall l, Permutation (ord l) l) ->
  wfn n = true -> n_ptr n = false -> wtb n v = true -> keys_ok (denoted n v path) ->
  exact sc ord (loop_method sc ord n (APtr (Some v)) path) (denoted n v path).
Proof.
  intros ORD W P WT KO. unfold loop_method. cbn [header_x].
  destruct (is_struct_root n && match path with [] => true | _ => false end) eqn:HD.
  - apply andb_true_iff in HD. destruct HD as (SR & PE). destruct path; [|discriminate].
    unfold denoted. replace (nav n v []) with (NElem n v) by (destruct n; reflexivity).
    unfold coll_of. destruct (cur_of n v); simpl; auto.
    unfold is_struct_root in SR. destruct (n_typ n); try discriminate; simpl; auto.
  - pose proof (loop_sound sc ord ORD n W v 0 path path WT eq_refl (Nat.le_0_l _)) as S.
    rewrite <- denoted_dem in S. specialize (S KO).
    replace (cur_of n v) with (CVal v) in S by (unfold cur_of; rewrite P; reflexivity).
    apply (acc_exact sc ord _ _ (dem_not_any _)) in S. rewrite denoted_dem.
    unfold finish in S. destruct (loop sc ord n (CVal v) 0 path); exact S.
Qed.

Lemma exact_meets sc ord o d : (forall l, Permutation (ord l) l) -> exact sc ord o d -> meets sc o d.
Proof.
  intros ORD. destruct d; simpl; auto.
  intros (tr & E & A). exists tr, (ord kvs). auto.
Qed.

Theorem loop_method_sound sc ord n v path :
  (forall l, Permutation (ord l) l) ->
  wfn n = true -> n_ptr n = false -> wtb n v = true -> keys_ok (denoted n v path) ->
  meets sc (loop_method sc ord n (APtr (Some v)) path) (loop_demand n v path).
Proof.
  intros ORD W P WT KO. pose proof (loop_method_exact sc ord n v path ORD W P WT KO) as E.
  unfold loop_demand. destruct (denoted n v path) eqn:D.
  - apply (exact_meets sc ord _ _ ORD E).
  - apply (exact_meets sc ord _ _ ORD E).
  - destruct (has_collection_prefix n v path); [exact I|exact E].
  - exact I.
Qed.

(* never a panic, never an error but the parse error *)
Theorem loop_method_safe sc ord n v path :
  (forall l, Permutation (ord l) l) ->
  wfn n = true -> n_ptr n = false -> wtb n v = true -> keys_ok (denoted n v path) ->
  exists tr e, loop_method sc ord n (APtr (Some v)) path = Ret tr e /\ (e = None \/ e = Some EParse).
Proof.
  intros ORD W P WT KO. pose proof (loop_method_exact sc ord n v path ORD W P WT KO) as E.
  destruct (denoted n v path); simpl in E.
  - destruct E as (tr & -> & _). eauto.
  - destruct E as (tr & -> & _). eauto.
  - destruct E as [->| ->]; eauto.
  - destruct E as [->| ->]; eauto.
Qed.

(* ---------- facts about the demanded trace ---------- *)
Definition svals (tr : list sevent) : list (option val) :=
  flat_map (fun e => match e with SVal x _ => [x] | _ => [] end) tr.
Definition siters (tr : list sevent) : nat :=
  List.length (filter (fun e => match e with SIterate _ => true | _ => false end) tr).
Definition skeys (tr : list sevent) : list (option val) :=
  flat_map (fun e => match e with SKey k _ => [k] | _ => [] end) tr.

Lemma svals_app a b : svals (a ++ b) = svals a ++ svals b.
Proof. unfold svals. apply flat_map_app. Qed.
Lemma skeys_app a b : skeys (a ++ b) = skeys a ++ skeys b.
Proof. unfold skeys. apply flat_map_app. Qed.

(* without a Break every element is visited exactly once, in the order given *)
Lemma spec_rounds_all sc ins : forall items i,
  (forall j, j < List.length items -> ctls sc (i + j) <> CBrk) ->
  svals (spec_rounds sc ins i items) = map (fun kv => strip_ptrs 3 (snd kv)) items.
Proof.
  induction items as [|[k e] r IH]; intros i NB; [reflexivity|].
  cbn [spec_rounds]. rewrite svals_app.
  assert (H0 : ctls sc i <> CBrk) by (specialize (NB 0 (Nat.lt_0_succ _)); rewrite Nat.add_0_r in NB; exact NB).
  assert (IH' : svals (spec_rounds sc ins (S i) r) = map (fun kv => strip_ptrs 3 (snd kv)) r).
  { apply IH. intros j J. replace (S i + j) with (i + S j) by lia. apply NB. simpl; lia. }
  unfold spec_round. cbn [map snd].
  destruct (wants sc i); destruct (ctls sc i); try congruence; cbn; rewrite IH'; reflexivity.
Qed.

(* iteration stops right after the round that answers Break: the trace is that of the first j+1 elements *)
Lemma spec_rounds_break sc ins : forall items i j,
  j < List.length items -> ctls sc (i + j) = CBrk ->
  spec_rounds sc ins i items = spec_rounds sc ins i (firstn (S j) items).
Proof.
  induction items as [|[k e] r IH]; intros i j J B; [simpl in J; lia|].
  cbn [spec_rounds firstn]. f_equal.
  destruct j as [|j].
  - rewrite Nat.add_0_r in B. rewrite B. reflexivity.
  - assert (J' : j < List.length r) by (simpl in J; lia).
    assert (B' : ctls sc (S i + j) = CBrk) by (rewrite <- B; f_equal; lia).
    destruct (ctls sc i); try reflexivity; apply IH; assumption.
Qed.

Lemma spec_rounds_iters_le sc ins : forall items i, siters (spec_rounds sc ins i items) <= List.length items.
Proof.
  induction items as [|[k e] r IH]; intros i; [unfold siters; simpl; lia|].
  cbn [spec_rounds]. unfold siters in *. rewrite filter_app, app_length.
  unfold spec_round. specialize (IH (S i)).
  destruct (wants sc i); destruct (ctls sc i); cbn in *; lia.
Qed.

(* the number of Iterate calls up to and including the first Break *)
Lemma spec_rounds_iters_break sc ins : forall items i j,
  j < List.length items -> ctls sc (i + j) = CBrk -> (forall k, k < j -> ctls sc (i + k) <> CBrk) ->
  siters (spec_rounds sc ins i items) = S j.
Proof.
  induction items as [|[k e] r IH]; intros i j J B NB; [simpl in J; lia|].
  cbn [spec_rounds]. unfold siters in *. rewrite filter_app, app_length.
  destruct j as [|j].
  - rewrite Nat.add_0_r in B. rewrite B. unfold spec_round. destruct (wants sc i); reflexivity.
  - assert (H0 : ctls sc i <> CBrk) by (specialize (NB 0 (Nat.lt_0_succ _)); rewrite Nat.add_0_r in NB; exact NB).
    assert (R : List.length (filter (fun e0 => match e0 with SIterate _ => true | _ => false end) (spec_rounds sc ins (S i) r)) = S j).
    { apply IH; [simpl in J; lia|replace (S i + j) with (i + S j) by lia; exact B|].
      intros k0 K0. replace (S i + k0) with (i + S k0) by lia. apply NB. lia. }
    unfold spec_round. destruct (wants sc i); destruct (ctls sc i); try congruence; cbn; rewrite R; reflexivity.
Qed.

(* Continue behaves like proceeding *)
Definition uncontinue (sc : script) : script :=
  {| wants := wants sc; ctls := fun i => match ctls sc i with CCnt => CNone | c => c end |}.
Definition erase_cnt (e : sevent) : sevent := match e with SIterate CCnt => SIterate CNone | e' => e' end.

Lemma spec_rounds_continue sc ins : forall items i,
  map erase_cnt (spec_rounds sc ins i items) = spec_rounds (uncontinue sc) ins i items.
Proof.
  induction items as [|[k e] r IH]; intros i; [reflexivity|].
  cbn [spec_rounds]. rewrite map_app. unfold spec_round. cbn [uncontinue wants ctls]. rewrite <- IH.
  destruct (wants sc i); destruct (ctls sc i); reflexivity.
Qed.

(* keys are produced only on demand *)
Lemma spec_rounds_nokeys sc ins : (forall i, wants sc i = false) -> forall items i,
  skeys (spec_rounds sc ins i items) = [].
Proof.
  intros NW. induction items as [|[k e] r IH]; intros i; [reflexivity|].
  cbn [spec_rounds]. rewrite skeys_app. unfold spec_round. rewrite NW. cbn.
  destruct (ctls sc i); auto.
Qed.

Lemma spec_rounds_keys sc ins : (forall i, wants sc i = true) -> forall items i,
  (forall j, j < List.length items -> ctls sc (i + j) <> CBrk) ->
  skeys (spec_rounds sc ins i items) = map (fun kv => Some (fst kv)) items.
Proof.
  intros AW. induction items as [|[k e] r IH]; intros i NB; [reflexivity|].
  cbn [spec_rounds]. rewrite skeys_app.
  assert (H0 : ctls sc i <> CBrk) by (specialize (NB 0 (Nat.lt_0_succ _)); rewrite Nat.add_0_r in NB; exact NB).
  assert (IH' : skeys (spec_rounds sc ins (S i) r) = map (fun kv => Some (fst kv)) r).
  { apply IH. intros j J. replace (S i + j) with (i + S j) by lia. apply NB. simpl; lia. }
  unfold spec_round. rewrite AW. cbn [map fst].
  destruct (ctls sc i); try congruence; cbn; rewrite IH'; reflexivity.
Qed.

(* concrete traces: no SetKey call at all when the iterator never asks *)
Definition has_setkey (tr : trace) : bool := existsb (fun e => match e with ESetKey _ _ => true | _ => false end) tr.

Lemma abstract_nokeys kabs tr : skeys (abstract kabs tr) = [] -> has_setkey tr = false.
Proof.
  induction tr as [|e r IH]; [reflexivity|]. destruct e; simpl; auto; discriminate.
Qed.
