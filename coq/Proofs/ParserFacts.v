(* Proofs/ParserFacts.v - facts about the two parser models (C13, C14). *)
From Coq Require Import List Bool String Ascii ZArith Arith.
From Verif Require Import Util Ints Node GoSrc Shapes GenUnits.
Import ListNotations.
Local Open Scope string_scope.

Definition typ_eqb (a b : typ) : bool :=
  match a, b with
  | typeStruct, typeStruct | typeMap, typeMap | typeSlice, typeSlice | typeBasic, typeBasic => true
  | _, _ => false
  end.

Definition opt_eqb (f : node -> node -> bool) (a b : option node) : bool :=
  match a, b with Some x, Some y => f x y | None, None => true | _, _ => false end.

Definition list_eqb (f : node -> node -> bool) : list node -> list node -> bool :=
  fix go (l m : list node) : bool :=
    match l, m with [], [] => true | x :: r, y :: s => f x y && go r s | _, _ => false end.

Fixpoint node_eqb (a b : node) {struct a} : bool :=
  match a, b with
  | Node ty tn tu nm pk pki p chld mk mv sl hb hc, Node ty' tn' tu' nm' pk' pki' p' chld' mk' mv' sl' hb' hc' =>
    typ_eqb ty ty' && String.eqb tn tn' && String.eqb tu tu' && String.eqb nm nm' && String.eqb pk pk' &&
    String.eqb pki pki' && Bool.eqb p p' && Bool.eqb hb hb' && Bool.eqb hc hc' &&
    list_eqb node_eqb chld chld' && opt_eqb node_eqb mk mk' && opt_eqb node_eqb mv mv' && opt_eqb node_eqb sl sl'
  end.

Lemma list_eqb_sound (f : node -> node -> bool) l : Forall (fun x => forall y, f x y = true -> x = y) l ->
  forall m, list_eqb f l m = true -> l = m.
Proof.
  induction 1 as [|x r Hx Hr IH]; intros [|y s] E; simpl in E; try discriminate; auto.
  apply andb_true_iff in E. destruct E as (E1 & E2). f_equal; auto.
Qed.

Lemma node_eqb_sound : forall a b, node_eqb a b = true -> a = b.
Proof.
  intros a. induction a using node_ind'. rename H into HC, H0 into HK, H1 into HV, H2 into HS. intros [ty' tn' tu' nm' pk' pki' p' chld' mk' mv' sl' hb' hc'] E.
  cbn [node_eqb] in E.
  repeat match goal with H : _ && _ = true |- _ => apply andb_true_iff in H; destruct H end.
  repeat match goal with
         | H : String.eqb _ _ = true |- _ => apply String.eqb_eq in H; subst
         | H : Bool.eqb _ _ = true |- _ => apply eqb_prop in H; subst
         end.
  assert (ty = ty') by (destruct ty, ty'; try discriminate; reflexivity). subst ty'.
  assert (O : forall o o', (forall k, o = Some k -> forall y, node_eqb k y = true -> k = y) -> opt_eqb node_eqb o o' = true -> o = o').
  { intros [x|] [y|] Hk Eo; simpl in Eo; try discriminate; auto. f_equal. eapply Hk; eauto. }
  match goal with H : list_eqb node_eqb chld chld' = true |- _ => rewrite (list_eqb_sound _ _ HC _ H) end.
  repeat match goal with H : opt_eqb node_eqb ?o ?o' = true |- _ => rewrite (O o o' ltac:(assumption) H); clear H end.
  reflexivity.
Qed.

(* the two parsers' results for a unit *)
Definition ast_nodes_of (u : string * ty) : list node :=
  ast_nodes (pkg_of (fst u)) (imp_of (fst u)) (decls_of_root (fst u) (snd u)).
Definition loader_nodes_of (u : string * ty) : list node :=
  loader_nodes (pkg_of (fst u)) (imp_of (fst u)) (decls_of_root (fst u) (snd u)).

Definition parsers_agree_b (u : string * ty) : bool := list_eqb node_eqb (ast_nodes_of u) (loader_nodes_of u).

Lemma parsers_agree_sound u : parsers_agree_b u = true -> ast_nodes_of u = loader_nodes_of u.
Proof.
  unfold parsers_agree_b. apply list_eqb_sound. apply Forall_forall. intros x _ y. apply node_eqb_sound.
Qed.

(* one file per eligible type, named after the lower-cased type *)
Definition files_of (ns : list node) : list string := map (fun n => lower_str (n_name n) ++ "_ins.go") ns.

Fixpoint nodup_str (l : list string) : bool :=
  match l with [] => true | x :: r => negb (existsb (String.eqb x) r) && nodup_str r end.
