(* Proofs/SetGet.v - from the frame relation to "reading the path yields the converted value":
   [offb E] preserves what a resolving path denotes up to E, and the model's leaf conversion is
   the conversion of the specification wherever the latter is defined. *)
From Coq Require Import List Bool String Ascii ZArith Arith Lia Floats.SpecFloat.
From Verif Require Import Util Ints Strconv Floats Node Value Outcome Nav LC LCSound SetEmit SetSpec SetSound.
Import ListNotations.
Local Open Scope string_scope.
Local Open Scope list_scope.

Section OffNav.
Variable E : node -> val -> val -> bool.

Definition keeps (rest : list string) (en : node) (ev : val) (c : node) : Prop :=
  forall v v', offb E c rest v v' = true -> nav c v rest = NElem en ev ->
  exists ev', nav c v' rest = NElem en ev' /\ E en ev ev' = true.

Lemma fields_off_nav rest seg en ev : forall chs a b,
  Forall (keeps rest en ev) chs ->
  fields_off (fun c f f' => offb E c rest f f') seg chs a b = true ->
  nav_fields (fun c f => nav c f rest) seg chs a = NElem en ev ->
  exists ev', nav_fields (fun c f => nav c f rest) seg chs b = NElem en ev' /\ E en ev ev' = true.
Proof.
  induction chs as [|c r IH]; intros a b F H N; destruct a as [|x ar], b as [|y br]; simpl in *; try discriminate.
  inversion F as [|c0 r0 Fc Fr]; subst. apply andb_true_iff in H. destruct H as (Ha & Hb).
  destruct (String.eqb (n_name c) seg).
  - apply (Fc x y Ha N).
  - apply (IH ar br Fr Hb N).
Qed.

Lemma elems_off_nth (r : val -> val -> bool) : forall a i b t x,
  elems_off r (Some (i + t)) i a b = true -> nth_error a t = Some x ->
  exists y, nth_error b t = Some y /\ r x y = true.
Proof.
  induction a as [|x0 ar IH]; intros i b t x H N; [destruct t; discriminate|].
  destruct b as [|y0 br]; [discriminate|]. simpl in H. apply andb_true_iff in H. destruct H as (Ha & Hb).
  destruct t as [|t]; simpl in *.
  - inversion N; subst. rewrite Nat.add_0_r, Nat.eqb_refl in Ha. eauto.
  - replace (i + S t) with (S i + t) in Hb by lia. apply (IH (S i) br t x Hb N).
Qed.

Lemma elems_off_length (r : val -> val -> bool) t : forall a i b,
  elems_off r t i a b = true -> List.length b = List.length a.
Proof.
  induction a as [|x ar IH]; intros i b H; destruct b; simpl in *; try discriminate; auto.
  apply andb_true_iff in H. destruct H as (_ & Hb). f_equal. apply (IH _ _ Hb).
Qed.

Lemma offb_nav : forall n path en ev, keeps path en ev n.
Proof.
  intros n. induction n using node_ind'. intros path en ev v v' OFF NAV.
  destruct path as [|seg rest].
  - cbn [nav] in *. cbn [offb] in OFF. inversion NAV; subst. eexists. split; [reflexivity|exact OFF].
  - cbn [offb] in OFF. cbn [nav] in *.
    assert (IN : forall x x',
      match ty with
      | typeStruct => match x, x' with VStruct a, VStruct b => fields_off (fun c f f' => offb E c rest f f') seg chld a b | _, _ => false end
      | typeMap => match x, x', mk, mv with
          | VMap nl kvs, VMap nl' kvs', Some kn, Some vn =>
            (negb nl' || nl) &&
            match conv_key kn seg with
            | None => kvs_eqb kvs kvs'
            | Some k =>
              kvs_eqb (filter (fun kv => negb (key_match kn k (fst kv))) kvs) (filter (fun kv => negb (key_match kn k (fst kv))) kvs') &&
              (n_ptr kn || match map_find kvs k, map_find kvs' k with
                 | Some e, Some e' => offb E vn rest e e' | None, None => true
                 | None, Some e' => offb E vn rest (zero_val vn) e' | Some _, None => false end)
            end
          | _, _, _, _ => false end
      | typeSlice => if String.eqb tn "[]byte" then true else
          match x, x', sl with
          | VSlice nl es _, VSlice nl' es' _, Some en0 =>
            (negb nl' || nl) &&
            let target := match conv_index seg with
                          | Some i => if ((0 <=? i) && (i <? Z.of_nat (List.length es)))%Z then Some (Z.to_nat i) else None
                          | None => None end in
            elems_off (fun e e' => offb E en0 rest e e') target 0 es es'
          | _, _, _ => false end
      | typeBasic => true end = true ->
      match ty with
      | typeStruct => match x with VStruct fs => nav_fields (fun c f => nav c f rest) seg chld fs | _ => NUnspec end
      | typeMap => match x, mk, mv with
          | VMap _ kvs, Some kn, Some vn =>
            if n_ptr kn then NNone WPointerKey
            else match conv_key kn seg with
                 | None => NBad
                 | Some k => match map_find kvs k with Some e => nav vn e rest | None => NNone WAbsentKey end
                 end
          | _, _, _ => NUnspec end
      | typeSlice => if String.eqb tn "[]byte" then NUnspec else
          match x, sl with
          | VSlice _ es _, Some en0 =>
            match conv_index seg with
            | None => NBad
            | Some i => if ((0 <=? i) && (i <? Z.of_nat (List.length es)))%Z
                        then match nth_error es (Z.to_nat i) with Some e => nav en0 e rest | None => NNone WIndexRange end
                        else NNone WIndexRange
            end
          | _, _ => NUnspec end
      | typeBasic => NUnspec end = NElem en ev ->
      exists ev',
      match ty with
      | typeStruct => match x' with VStruct fs => nav_fields (fun c f => nav c f rest) seg chld fs | _ => NUnspec end
      | typeMap => match x', mk, mv with
          | VMap _ kvs, Some kn, Some vn =>
            if n_ptr kn then NNone WPointerKey
            else match conv_key kn seg with
                 | None => NBad
                 | Some k => match map_find kvs k with Some e => nav vn e rest | None => NNone WAbsentKey end
                 end
          | _, _, _ => NUnspec end
      | typeSlice => if String.eqb tn "[]byte" then NUnspec else
          match x', sl with
          | VSlice _ es _, Some en0 =>
            match conv_index seg with
            | None => NBad
            | Some i => if ((0 <=? i) && (i <? Z.of_nat (List.length es)))%Z
                        then match nth_error es (Z.to_nat i) with Some e => nav en0 e rest | None => NNone WIndexRange end
                        else NNone WIndexRange
            end
          | _, _ => NUnspec end
      | typeBasic => NUnspec end = NElem en ev' /\ E en ev ev' = true).
    { intros x x' O N. destruct ty; try discriminate.
      - destruct x as [| | | | |a| | |]; try discriminate. destruct x' as [| | | | |b| | |]; try discriminate.
        apply (fields_off_nav rest seg en ev chld a b); auto.
        eapply Forall_impl; [|exact H]. intros c IH. apply IH.
      - destruct x as [| | | | | | |nl kvs|]; try discriminate. destruct mk as [kn|]; try discriminate. destruct mv as [vn|]; try discriminate.
        destruct x' as [| | | | | | |nl' kvs'|]; try discriminate.
        destruct (n_ptr kn); [discriminate|]. cbn [orb] in O.
        destruct (conv_key kn seg) as [k|]; [|discriminate].
        apply andb_true_iff in O. destruct O as (_ & O). apply andb_true_iff in O. destruct O as (_ & O).
        destruct (map_find kvs k) as [e|]; [|discriminate].
        destruct (map_find kvs' k) as [e'|]; [|discriminate].
        apply (H1 vn eq_refl rest en ev e e' O N).
      - destruct (String.eqb tn "[]byte"); [discriminate|].
        destruct x as [| | | | | |nl es ex| |]; try discriminate. destruct sl as [en0|]; try discriminate.
        destruct x' as [| | | | | |nl' es' ex'| |]; try discriminate.
        destruct (conv_index seg) as [i|]; [|discriminate].
        apply andb_true_iff in O. destruct O as (_ & O).
        pose proof (elems_off_length _ _ _ _ _ O) as LEN. rewrite LEN.
        destruct ((0 <=? i)%Z && (i <? Z.of_nat (List.length es))%Z); [|discriminate].
        destruct (nth_error es (Z.to_nat i)) as [e|] eqn:NE; [|discriminate].
        destruct (elems_off_nth _ es 0 es' (Z.to_nat i) e O NE) as (e' & NE' & R). rewrite NE'.
        apply (H2 en0 eq_refl rest en ev e e' R N). }
    destruct p; [|apply (IN v v'); assumption].
    destruct v as [| | | | | | | |[x|]]; try discriminate.
    destruct v' as [| | | | | | | |[x'|]]; try discriminate.
    apply (IN x x'); assumption.
Qed.
End OffNav.

(* ---------- the leaf conversion of the model is the conversion of the specification ---------- *)
Definition aval_of_src (s : src) : aval :=
  match s with
  | SrcBool b => ABool b | SrcInt k z => AInt k z | SrcF32 f => AF32 f | SrcF64 f => AF64 f
  | SrcStr t => AStr t | SrcBytes t => ABytes t
  end.

Lemma conv_scalar_assign k s buf old c :
  conv_scalar k (aval_of_src s) = Some c -> assign_scalar k s buf old = Some c.
Proof.
  destruct k as [|i| | | |]; destruct s as [b|k' z|f|f|t|t]; cbn [conv_scalar aval_of_src assign_scalar elem_ikind ikind_of dec_text render_src];
    try discriminate; try (intros H; exact H).
  all: try (destruct (is_signed i), (is_signed k'); cbn [Bool.eqb]; try discriminate; intros H; exact H).
  all: try (destruct (is_signed k'); cbn [is_signed Bool.eqb]; try discriminate; intros H; exact H).
  all: try (destruct (render_float f); cbn [option_map]; try discriminate; intros H; exact H).
  all: destruct (is_signed i); intros H; exact H.
Qed.

Lemma conv_bytes_assign s buf old c : conv_bytes (aval_of_src s) = Some c -> assign_bytes s buf old = Some c.
Proof.
  destruct s as [b|k' z|f|f|t|t]; cbn [conv_bytes aval_of_src assign_bytes dec_text render_src option_map]; try discriminate; try (intros H; exact H).
  all: try (destruct (render_float f); cbn [option_map]; try discriminate; intros H; exact H).
  all: destruct (String.eqb t ""); [discriminate|intros H; exact H].
Qed.

Lemma conv_assign en s buf old c : conv en (aval_of_src s) = Some c -> assign_val en s buf old = c.
Proof.
  unfold conv, assign_val, assign_leaf. destruct (is_bytes_node en).
  - intros H. rewrite (conv_bytes_assign s buf old c H). reflexivity.
  - destruct (n_typ en); try discriminate. destruct (node_skind en) as [k|]; [|discriminate].
    intros H. rewrite (conv_scalar_assign k s buf old c H). reflexivity.
Qed.

(* ---------- set then get ---------- *)
Theorem set_then_get s buf n v path en ev x c :
  wfn n = true -> sound_set n = true -> root_ok n = true -> wtb n v = true ->
  nav n v path = NElem en ev -> is_leaf_node en = true ->
  ev = (if n_ptr en then VPtr (Some x) else x) ->            (* not behind a nil pointer *)
  conv en (aval_of_src s) = Some c ->
  exists v' e ev', set_method n v path s buf = Ret v' e /\
                   nav n v' path = NElem en ev' /\
                   val_eqb ev' (if n_ptr en then VPtr (Some c) else c) = true.
Proof.
  intros W SD RO WT NAV LF EV CV.
  pose proof (set_method_sound s buf n v path W SD RO WT) as G.
  destruct (set_method n v path s buf) as [v'|v' e|k]; try contradiction.
  destruct (offb_nav (E_end s buf) n path en ev v v' G NAV) as (ev' & NAV' & EE).
  exists v', e, ev'. split; [reflexivity|]. split; [exact NAV'|].
  unfold E_end in EE. rewrite LF in EE. unfold leaf_store in EE. subst ev.
  destruct (n_ptr en); rewrite (conv_assign en s buf x c CV) in EE; exact EE.
Qed.
