(* Proofs/StringsHist.v - histories of operations on one value: the model of the
   fixed code simulates the abstract sequence, step by step, for every
   operation list (induction over the list, no bound). *)
From Coq Require Import ZArith NArith List Bool Ascii String Lia.
From Verif Require Import Util Strconv Strings StringsSpec StringsOps.
Import ListNotations.
Local Open Scope Z_scope.

Definition cop_of (o : op) : option cop :=
  match o with
  | OpEq => Some CEq | OpNq => Some CNe | OpGt => Some CGt | OpGtq => Some CGe
  | OpLt => Some CLt | OpLtq => Some CLe | _ => None
  end.

Lemma op_of_cop_of o c : cop_of o = Some c -> o = op_of c.
Proof. destruct o; intros H; inversion H; reflexivity. Qed.

(* what the property says about a concrete call *)
Definition to_sop (o : hop) : sop :=
  match o with
  | HSet _ t i => match atoi i with Some z => PSet z t | None => PRead end
  | HGet i => match atoi i with Some z => PGet z | None => PRead end
  | HCompare c r i =>
    match cop_of c, atoi i with Some c', Some z => PCompare c' r z | _, _ => PRead end
  | HLength [i] => match atoi i with Some z => PLength z | None => PRead end
  | HLength _ => PRead
  | HCapacity _ => PRead
  | HLoop => PLoop
  | HDeepEqual y => if good y then PDeepEqual (abs y) else PRead
  | HCopyFrom src => if good src then PCopyFrom (abs src) else PRead
  | HCopyOut _ => PCopyOut
  | HReset => PReset
  end.

(* the abstract content of a concrete observation; [x] is the value the call was made on *)
Definition abs_obs (x : arg) (ob : obs) : sobs :=
  match ob with
  | ODone None => SDone
  | ODone (Some _) => SRefused
  | OGet r _ =>
    SElem (match r with
           | Some g => match deref x g with Some t => Some (ref_idx g, t) | None => None end
           | None => None
           end)
  | OCmp r _ => SCmp r
  | OWr (Wrote z) _ => SLen (Some z)
  | OWr _ _ => SLen None
  | OLoop vs => SVisits (map (visit_text x) vs)
  | OBool b => SBool b
  | OCopy d _ => SCopied (abs d)
  | OPanic _ => SRefused
  end.

Definition sobs_ok (s a : sobs) : Prop := s = SAny \/ s = a.

Fixpoint atrace (w : ver) (ops : list hop) (st : hst) : list sobs :=
  match ops with
  | [] => []
  | o :: r => let '(st', ob) := hstep w st o in abs_obs (h_arg st) ob :: atrace w r st'
  end.

Lemma ref_idx_mkref r i : ref_idx (mkref r i) = i.
Proof. destruct r; reflexivity. Qed.

Lemma replace_at_abs x i e : good x = true ->
  (if in_range (abs x) i then abs (put_elems x (upd_nth (Z.to_nat i) e (elems_of x))) else abs x)
  = replace_at (abs x) i (e_data e).
Proof.
  intros G. unfold replace_at. destruct (in_range (abs x) i); [|reflexivity]. apply abs_put_upd. exact G.
Qed.

Lemma hstep_sim st o : good (h_arg st) = true ->
  good (h_arg (fst (hstep fixed st o))) = true /\
  is_ptr (h_arg (fst (hstep fixed st o))) = is_ptr (h_arg st) /\
  rep_of (h_arg (fst (hstep fixed st o))) = rep_of (h_arg st) /\
  abs (h_arg (fst (hstep fixed st o))) = fst (sstep (is_ptr (h_arg st)) (abs (h_arg st)) (to_sop o)) /\
  sobs_ok (snd (sstep (is_ptr (h_arg st)) (abs (h_arg st)) (to_sop o))) (abs_obs (h_arg st) (snd (hstep fixed st o))).
Proof.
  intros G. destruct st as [x nid]. cbn [h_arg h_nid] in *.
  destruct o as [ptr t i|i|c r i|p|p| |y|src|rr| ]; cbn [hstep h_arg h_nid to_sop].
  - (* Set *)
    destruct (atoi i) as [z|] eqn:Hp.
    + rewrite (set_char fixed x ptr {| t_id := nid; t_data := t |} i z (nid + 1) G Hp (or_introl eq_refl)).
      cbn [t_data sstep fst snd abs_obs].
      destruct (in_range (abs x) z) eqn:R; cbn [fst snd h_arg].
      * rewrite good_put_elems, is_ptr_put_elems, rep_put_elems.
        repeat split; auto; [|right; reflexivity].
        pose proof (replace_at_abs x z (buffered (nid + 1) t) G) as K. rewrite R in K. exact K.
      * repeat split; auto; [|right; reflexivity]. unfold replace_at. rewrite R. reflexivity.
    + rewrite (set_unparsable fixed x _ i (nid + 1) G Hp). cbn. repeat split; auto. left; reflexivity.
  - (* Get *)
    destruct (atoi i) as [z|] eqn:Hp.
    + rewrite (get_char fixed x i z G Hp). cbn [fst snd h_arg sstep abs_obs]. repeat split; auto.
      right. destruct (elem_at (abs x) z) as [t|] eqn:E; [|reflexivity].
      rewrite deref_mkref, E, ref_idx_mkref. reflexivity.
    + rewrite (get_unparsable fixed x i G Hp). cbn. repeat split; auto. left; reflexivity.
  - (* Compare *)
    assert (U : fst (match si_compare fixed x c r [i] with
                     | Ret b0 e => ({| h_arg := x; h_nid := nid |}, OCmp b0 e)
                     | Panic k => ({| h_arg := x; h_nid := nid |}, OPanic k) end) = {| h_arg := x; h_nid := nid |}).
    { destruct (si_compare fixed x c r [i]); reflexivity. }
    rewrite U. clear U. cbn [h_arg].
    destruct (cop_of c) as [c'|] eqn:Hc; [destruct (atoi i) as [z|] eqn:Hp|]; cbn [sstep fst snd];
      try (repeat split; auto; left; reflexivity).
    apply op_of_cop_of in Hc. subst c.
    rewrite (compare_char fixed x c' r i z G Hp (or_introl eq_refl)). cbn [snd abs_obs].
    repeat split; auto. right; reflexivity.
  - (* Length *)
    assert (U : fst (match si_length fixed x p with
                     | Ret r e => ({| h_arg := x; h_nid := nid |}, OWr r e)
                     | Panic k => ({| h_arg := x; h_nid := nid |}, OPanic k) end) = {| h_arg := x; h_nid := nid |}).
    { destruct (si_length fixed x p); reflexivity. }
    rewrite U. clear U. cbn [h_arg].
    destruct p as [|i [|q p']]; cbn [sstep fst snd]; try (repeat split; auto; left; reflexivity).
    destruct (atoi i) as [z|] eqn:Hp; cbn [sstep fst snd]; try (repeat split; auto; left; reflexivity).
    rewrite (length_char fixed x i z G Hp). cbn [snd abs_obs]. repeat split; auto. right.
    destruct (length_at (abs x) z); reflexivity.
  - (* Capacity *)
    assert (U : fst (match si_capacity fixed x p with
                     | Ret r e => ({| h_arg := x; h_nid := nid |}, OWr r e)
                     | Panic k => ({| h_arg := x; h_nid := nid |}, OPanic k) end) = {| h_arg := x; h_nid := nid |}).
    { destruct (si_capacity fixed x p); reflexivity. }
    rewrite U. cbn. repeat split; auto. left; reflexivity.
  - (* Loop *)
    destruct (loop_abs fixed x G) as (vs & L & M). rewrite L. cbn [fst snd h_arg sstep abs_obs].
    repeat split; auto. right. rewrite M. reflexivity.
  - (* DeepEqual *)
    assert (U : fst (match si_deep_equal fixed x y with
                     | Ret b _ => ({| h_arg := x; h_nid := nid |}, OBool b)
                     | Panic k => ({| h_arg := x; h_nid := nid |}, OPanic k) end) = {| h_arg := x; h_nid := nid |}).
    { destruct (si_deep_equal fixed x y); reflexivity. }
    rewrite U. clear U. cbn [h_arg].
    destruct (good y) eqn:Gy; cbn [sstep fst snd]; try (repeat split; auto; left; reflexivity).
    rewrite (deq_char fixed x y G Gy (or_introl eq_refl)). cbn [snd abs_obs]. repeat split; auto. right; reflexivity.
  - (* CopyFrom *)
    destruct (good src) eqn:Gs.
    + destruct x as [s|s|?|]; try discriminate.
      * rewrite (copy_to_by_value fixed src s nid Gs). cbn. repeat split; auto. right; reflexivity.
      * rewrite (copy_to_char fixed src s nid Gs). cbn [fst snd h_arg is_ptr sstep abs_obs good rep_of].
        repeat split; auto; [apply rep_append_all| |right; reflexivity].
        unfold abs at 1. cbn [elems_of]. rewrite abs_append_all. unfold copy_appended, abs, abs_elems. cbn [elems_of].
        rewrite copies_data. reflexivity.
    + cbn [sstep fst snd].
      assert (U : fst (match si_copy_to fixed src x nid with
                       | Ret (x', n') e => ({| h_arg := x'; h_nid := n' |}, ODone e)
                       | Panic k => ({| h_arg := x; h_nid := nid |}, OPanic k) end) = {| h_arg := x; h_nid := nid |} \/
                  exists n, fst (match si_copy_to fixed src x nid with
                       | Ret (x', n') e => ({| h_arg := x'; h_nid := n' |}, ODone e)
                       | Panic k => ({| h_arg := x; h_nid := nid |}, OPanic k) end) = {| h_arg := x; h_nid := n |}).
      { destruct src as [?|?|?|]; try discriminate.
        - (* a nil pointer holds no sequence: nothing is appended *)
          right. destruct x as [d|d|?|]; try discriminate; [exists nid; reflexivity|].
          exists (nid + 0). unfold si_copy_to; simpl. destruct (q_rep d); reflexivity.
        - right. exists nid. destruct x; reflexivity. }
      destruct U as [U|(n & U)]; rewrite U; cbn [h_arg]; repeat split; auto; left; reflexivity.
  - (* CopyOut *)
    rewrite (copy_to_char fixed x (nil_sq rr) nid G). cbn [fst snd h_arg sstep abs_obs].
    repeat split; auto. right. f_equal. unfold abs. cbn [elems_of]. rewrite abs_append_all.
    unfold copy_appended, abs_elems. cbn [nil_sq q_elems map app]. rewrite copies_data. reflexivity.
  - (* Reset *)
    destruct x as [s|s|?|]; try discriminate; cbn; repeat split; auto; right; reflexivity.
Qed.

(* all histories *)
Theorem history_sim : forall ops st, good (h_arg st) = true ->
  abs (h_arg (hrun fixed ops st)) = srun (is_ptr (h_arg st)) (map to_sop ops) (abs (h_arg st)) /\
  Forall2 sobs_ok (strace (is_ptr (h_arg st)) (map to_sop ops) (abs (h_arg st))) (atrace fixed ops st) /\
  good (h_arg (hrun fixed ops st)) = true /\
  is_ptr (h_arg (hrun fixed ops st)) = is_ptr (h_arg st) /\
  rep_of (h_arg (hrun fixed ops st)) = rep_of (h_arg st).
Proof.
  induction ops as [|o ops IH]; intros st G.
  - cbn. split; [reflexivity|]. split; [constructor|]. auto.
  - destruct (hstep_sim st o G) as (G' & P' & R' & A' & O').
    cbn [hrun fold_left map srun strace atrace] in *.
    destruct (hstep fixed st o) as [st' ob] eqn:E. cbn [fst snd] in *.
    destruct (sstep (is_ptr (h_arg st)) (abs (h_arg st)) (to_sop o)) as [a' sob] eqn:E2. cbn [fst snd] in *.
    destruct (IH st' G') as (I1 & I2 & I3 & I4 & I5).
    fold (hrun fixed ops st'). rewrite P', A' in *.
    split; [exact I1|]. split; [constructor; assumption|]. split; [exact I3|]. split; congruence.
Qed.
