(* Proofs/FormsSeq.v - C12 on histories: a history of read calls leaves every object of the
   store as it was and every step answers what the same call answers alone on the untouched
   store; hence the answers of a read history coincide in the three argument forms.  Second half: the same for
   histories whose GetTo steps share ONE caller-owned result buffer (ApiSeq.brun): the buffer is the only thing a
   read history changes, a GetTo that is handed the buffer answers what it answers with an empty buffer of its own
   (Proofs/GetBuf.v), and the answers and the buffer's content coincide in the three forms. *)
From Coq Require Import List Bool String Ascii ZArith Arith Lia.
From Verif Require Import Util Node Value Outcome Get FormsSpec Api ApiSeq FormsGet FormsMain GetBuf.
Import ListNotations.

Lemma put_same {A} (l : list A) i x : nth_error l i = Some x -> put l i x = l.
Proof.
  revert i. induction l as [|y r IH]; intros [|k] E; cbn in *; try discriminate; try reflexivity.
  - inversion E. reflexivity.
  - rewrite (IH k E). reflexivity.
Qed.

Lemma read_step s st : is_read (snd st) = true -> exec_at s st = (alone s st, s).
Proof.
  intros R. unfold alone, exec_at. destruct (nth_error s (fst st)) as [[n a]|] eqn:E; [|reflexivity].
  cbn [fst snd]. rewrite (reads_pure n (snd st) a R). rewrite (put_same s (fst st) (n, a) E). reflexivity.
Qed.

Theorem read_history h : forall s, reads_only h = true -> run s h = map (fun st => (alone s st, s)) h.
Proof.
  induction h as [|st r IH]; intros s R; [reflexivity|].
  cbn in R. apply andb_true_iff in R. destruct R as [R1 R2].
  cbn [run map]. rewrite (read_step s st R1). cbn [snd]. rewrite (IH s R2). reflexivity.
Qed.

Corollary read_history_store h s x : reads_only h = true -> In x (run s h) -> snd x = s.
Proof.
  intros R I. rewrite (read_history h s R) in I. apply in_map_iff in I. destruct I as (st & <- & _). reflexivity.
Qed.

(* the answers of two steps, one of which may be a reference *)
Definition same_opt_answer (x y : option answer) : Prop :=
  match x, y with
  | Some a, Some b => same_answer a b
  | None, None => True
  | _, _ => False
  end.

Lemma same_buf_refl b : same_buf b b.
Proof. left. reflexivity. Qed.

Lemma same_answer_refl a : same_answer a a.
Proof.
  destruct a; cbn; try reflexivity.
  destruct o as [b|b e|k]; cbn; auto using same_buf_refl.
Qed.

(* object 0 of the store in the three forms, the other objects whatever they are *)
Theorem history_forms n v (rest : store) h : reads_only h = true ->
  Forall2 (fun x y => same_opt_answer (fst x) (fst y))
          (run ((n, AVal v) :: rest) h) (run ((n, APtr (Some v)) :: rest) h) /\
  map fst (run ((n, APtrPtr (Some (Some v))) :: rest) h) = map fst (run ((n, APtr (Some v)) :: rest) h).
Proof.
  intros R. rewrite !(read_history h _ R). split.
  - unfold reads_only in R. induction h as [|st r IH]; cbn [map]; constructor.
    + cbn in R. apply andb_true_iff in R. destruct R as [RC _].
      cbn [fst]. unfold alone, exec_at. destruct st as [[|k] c]; cbn [fst snd nth_error] in *.
      * exact (proj1 (forms_all n c v RC)).
      * destruct (nth_error rest k) as [[n' a']|]; cbn; [apply same_answer_refl|exact I].
    + apply IH. cbn in R. apply andb_true_iff in R. exact (proj2 R).
  - rewrite !map_map. apply map_ext_in. intros st I. cbn [fst].
    assert (RC : is_read (snd st) = true).
    { unfold reads_only in R. rewrite forallb_forall in R. exact (R st I). }
    unfold alone, exec_at. destruct st as [[|k] c]; cbn [fst snd nth_error] in *.
    + f_equal. exact (proj2 (forms_all n c v RC)).
    + destruct (nth_error rest k) as [[n' a']|]; reflexivity.
Qed.

(* ================= histories that share one result buffer ================= *)

(* the histories of [run] are the histories of [brun] that never hand the shared buffer over *)
Lemma brun_own_buffers h : forall s rb, brun s rb (own_buffers h) = map (fun x => (fst x, snd x, rb)) (run s h).
Proof.
  induction h as [|st r IH]; intros s rb; [reflexivity|].
  cbn [own_buffers map brun run]. unfold bexec_at. cbn [fst snd call_of rbuf_after].
  destruct st as [i c]. cbn [fst snd]. f_equal. apply IH.
Qed.

Lemma call_of_read rb hc : hcall_read hc = true -> is_read (call_of rb hc) = true.
Proof. destruct hc; cbn; auto. Qed.

Lemma bread_step s rb st : hcall_read (snd st) = true -> bexec_at s rb st = (balone s rb st, s).
Proof.
  intros R. unfold balone, bexec_at.
  rewrite (read_step s (fst st, call_of rb (snd st))); [reflexivity|].
  cbn [snd]. apply call_of_read. exact R.
Qed.

(* a read history changes nothing but the caller's result buffer: every step answers what the same call answers
   alone on the untouched store when it is handed the buffer as the steps before it left it *)
Theorem read_history_buf h : forall s rb, breads_only h = true -> brun s rb h = btrace s rb h.
Proof.
  induction h as [|st r IH]; intros s rb R; [reflexivity|].
  cbn in R. apply andb_true_iff in R. destruct R as [R1 R2].
  cbn [brun btrace]. rewrite (bread_step s rb st R1). cbn [fst snd]. rewrite (IH s _ R2). reflexivity.
Qed.

Corollary read_history_buf_store h s rb x : breads_only h = true -> In x (brun s rb h) -> snd (fst x) = s.
Proof.
  intros R. rewrite (read_history_buf h s rb R). clear R. revert rb.
  induction h as [|st r IH]; intros rb I; [destruct I|].
  cbn [btrace] in I. destruct I as [<-|I]; [reflexivity|]. eapply IH. exact I.
Qed.

(* ... and what the buffer holds does not matter to the call: a GetTo that is handed the shared buffer answers what
   it answers with an empty buffer of its own, the buffer left as it was where that call stores nothing *)
Definition rebuf_answer (rb : option ref) (a : answer) : answer :=
  match a with AnsRef o => AnsRef (rebuf rb o) | _ => a end.

Theorem getto_shared_alone s rb i path :
  balone s rb (i, HGetTo path) = option_map (rebuf_answer rb) (balone s None (i, HGetTo path)).
Proof.
  unfold balone, bexec_at, exec_at. cbn [fst snd call_of].
  destruct (nth_error s i) as [[n a]|]; [|reflexivity].
  cbn [exec fst option_map rebuf_answer]. rewrite (get_to_buf false n a path rb). reflexivity.
Qed.

Lemma same_ref_answer_refl o : same_ref_answer o o.
Proof. destruct o as [b|b e|k]; cbn; auto using same_buf_refl. Qed.

Lemma rebuf_same bv bp ov op : same_buf bv bp -> same_ref_answer ov op -> same_ref_answer (rebuf bv ov) (rebuf bp op).
Proof.
  intros B.
  assert (K : forall x y, same_buf x y ->
            (x = None /\ y = None) \/ (exists r r', x = Some r /\ y = Some r')).
  { intros x y [E|(rv & rp & -> & -> & _)].
    - subst y. destruct x as [r|]; [right; exists r, r; auto|left; auto].
    - right. exists rv, rp. auto. }
  destruct ov as [x|x e|k], op as [y|y e'|k']; cbn [same_ref_answer]; try tauto.
  - intros S. destruct (K x y S) as [(-> & ->)|(r & r' & -> & ->)]; cbn; [exact B|exact S].
  - intros (E & S). destruct (K x y S) as [(-> & ->)|(r & r' & -> & ->)]; cbn; auto.
Qed.

Lemma rbuf_after_same bv bp hc av ap :
  same_buf bv bp -> same_opt_answer av ap -> same_buf (rbuf_after bv hc av) (rbuf_after bp hc ap).
Proof.
  intros B S. destruct hc as [c|path]; [exact B|].
  destruct av as [av|], ap as [ap|]; cbn [same_opt_answer] in S; [|destruct S|destruct S|exact B].
  destruct av as [o| | | | | |], ap as [o0| | | | | |]; cbn [same_answer] in S; try discriminate S; try exact B.
  cbn [rbuf_after].
  destruct o as [x|x e|k], o0 as [y|y e'|k']; cbn [same_ref_answer] in S; try (destruct S; fail); try exact B; try exact S.
  destruct S as [_ S]. exact S.
Qed.

(* one step: object 0 by value / by pointer, or any other object, under two buffers with the same content *)
Lemma step_forms n v (rest : store) bv bp st : hcall_read (snd st) = true -> same_buf bv bp ->
  same_opt_answer (balone ((n, AVal v) :: rest) bv st) (balone ((n, APtr (Some v)) :: rest) bp st).
Proof.
  intros R B. unfold balone, bexec_at, exec_at. destruct st as [[|k] hc]; cbn [fst snd nth_error] in *.
  - destruct hc as [c|path]; cbn [call_of].
    + exact (proj1 (forms_all n c v R)).
    + cbn [exec fst same_opt_answer same_answer].
      rewrite (get_to_buf false n (AVal v) path bv), (get_to_buf false n (APtr (Some v)) path bp).
      apply rebuf_same; [exact B|apply get_to_by_value].
  - destruct (nth_error rest k) as [[n' a']|]; cbn; [|exact I].
    destruct hc as [c|path]; cbn [call_of]; [apply same_answer_refl|].
    cbn [exec fst same_answer].
    rewrite (get_to_buf false n' a' path bv), (get_to_buf false n' a' path bp).
    apply rebuf_same; [exact B|apply same_ref_answer_refl].
Qed.

Lemma step_ptrptr n v (rest : store) rb st :
  balone ((n, APtrPtr (Some (Some v))) :: rest) rb st = balone ((n, APtr (Some v)) :: rest) rb st.
Proof.
  unfold balone, bexec_at, exec_at. destruct st as [[|k] hc]; cbn [fst snd nth_error].
  - f_equal. destruct (call_of rb hc); reflexivity.
  - destruct (nth_error rest k) as [[n' a']|]; reflexivity.
Qed.

(* object 0 of the store in the three forms, the other objects whatever they are: the answers of a read history that
   shares one result buffer coincide step by step, and so does what the buffer holds after every step *)
Theorem history_forms_buf n v (rest : store) h : breads_only h = true -> forall bv bp, same_buf bv bp ->
  Forall2 (fun x y => same_opt_answer (fst (fst x)) (fst (fst y)) /\ same_buf (snd x) (snd y))
          (brun ((n, AVal v) :: rest) bv h) (brun ((n, APtr (Some v)) :: rest) bp h).
Proof.
  induction h as [|st r IH]; intros R bv bp B; [constructor|].
  rewrite !(read_history_buf _ _ _ R).
  cbn in R. apply andb_true_iff in R. destruct R as [R1 R2].
  cbn [btrace].
  pose proof (step_forms n v rest bv bp st R1 B) as S.
  pose proof (rbuf_after_same bv bp (snd st) _ _ B S) as B'.
  constructor; [cbn [fst snd]; split; assumption|].
  rewrite <- !(read_history_buf r _ _ R2). apply IH; assumption.
Qed.

Theorem history_ptrptr_buf n v (rest : store) h : breads_only h = true -> forall rb,
  map (fun x => (fst (fst x), snd x)) (brun ((n, APtrPtr (Some (Some v))) :: rest) rb h) =
  map (fun x => (fst (fst x), snd x)) (brun ((n, APtr (Some v)) :: rest) rb h).
Proof.
  induction h as [|st r IH]; intros R rb; [reflexivity|].
  rewrite !(read_history_buf _ _ _ R).
  cbn in R. apply andb_true_iff in R. destruct R as [R1 R2].
  cbn [btrace map fst snd]. rewrite (step_ptrptr n v rest rb st). f_equal.
  rewrite <- !(read_history_buf r _ _ R2). apply IH. exact R2.
Qed.
