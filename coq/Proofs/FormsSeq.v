(* Proofs/FormsSeq.v - C12 on histories: a history of read calls leaves every object of the
   store as it was and every step answers what the same call answers alone on the untouched
   store; hence the answers of a read history coincide in the three argument forms. *)
From Coq Require Import List Bool String Ascii ZArith Arith Lia.
From Verif Require Import Util Node Value Outcome FormsSpec Api ApiSeq FormsGet FormsMain.
Import ListNotations.

Lemma put_same {A} (l : list A) i x : nth_error l i = Some x -> put l i x = l.
Proof.
  revert i. induction l as [|y r IH]; intros [|k] E; cbn in *; try discriminate; try reflexivity.
  - inversion E. reflexivity.
  - rewrite (IH k E). reflexivity.
Qed.

Lemma read_step s st : is_read (snd st) = true -> exec_at s st = (alone s st, s).
Proof.
  intros R. unfold alone, exec_at. destruct (nth_error s (fst st)) as [[n a]|] eqn:E; [|reflexivity].
  cbn [fst snd]. rewrite (reads_pure n (snd st) a R). rewrite (put_same s (fst st) (n, a) E). reflexivity.
Qed.

Theorem read_history h : forall s, reads_only h = true -> run s h = map (fun st => (alone s st, s)) h.
Proof.
  induction h as [|st r IH]; intros s R; [reflexivity|].
  cbn in R. apply andb_true_iff in R. destruct R as [R1 R2].
  cbn [run map]. rewrite (read_step s st R1). cbn [snd]. rewrite (IH s R2). reflexivity.
Qed.

Corollary read_history_store h s x : reads_only h = true -> In x (run s h) -> snd x = s.
Proof.
  intros R I. rewrite (read_history h s R) in I. apply in_map_iff in I. destruct I as (st & <- & _). reflexivity.
Qed.

(* the answers of two steps, one of which may be a reference *)
Definition same_opt_answer (x y : option answer) : Prop :=
  match x, y with
  | Some a, Some b => same_answer a b
  | None, None => True
  | _, _ => False
  end.

Lemma same_buf_refl b : same_buf b b.
Proof. left. reflexivity. Qed.

Lemma same_answer_refl a : same_answer a a.
Proof.
  destruct a; cbn; try reflexivity.
  destruct o as [b|b e|k]; cbn; auto using same_buf_refl.
Qed.

(* object 0 of the store in the three forms, the other objects whatever they are *)
Theorem history_forms n v (rest : store) h : reads_only h = true ->
  Forall2 (fun x y => same_opt_answer (fst x) (fst y))
          (run ((n, AVal v) :: rest) h) (run ((n, APtr (Some v)) :: rest) h) /\
  map fst (run ((n, APtrPtr (Some (Some v))) :: rest) h) = map fst (run ((n, APtr (Some v)) :: rest) h).
Proof.
  intros R. rewrite !(read_history h _ R). split.
  - unfold reads_only in R. induction h as [|st r IH]; cbn [map]; constructor.
    + cbn in R. apply andb_true_iff in R. destruct R as [RC _].
      cbn [fst]. unfold alone, exec_at. destruct st as [[|k] c]; cbn [fst snd nth_error] in *.
      * exact (proj1 (forms_all n c v RC)).
      * destruct (nth_error rest k) as [[n' a']|]; cbn; [apply same_answer_refl|exact I].
    + apply IH. cbn in R. apply andb_true_iff in R. exact (proj2 R).
  - rewrite !map_map. apply map_ext_in. intros st I. cbn [fst].
    assert (RC : is_read (snd st) = true).
    { unfold reads_only in R. rewrite forallb_forall in R. exact (R st I). }
    unfold alone, exec_at. destruct st as [[|k] c]; cbn [fst snd nth_error] in *.
    + f_equal. exact (proj2 (forms_all n c v RC)).
    + destruct (nth_error rest k) as [[n' a']|]; reflexivity.
Qed.
