(* Proofs/NoPanicAssign.v - C02 for Assign / AssignBuf (Model/Assign.v): a source that carries a
   value (value or non-nil pointer form) or is of a foreign type never makes the six registered
   functions panic; typed nil pointer sources do (Proofs/AssignThms.v nil_source). *)
From Coq Require Import ZArith Bool String Ascii List Floats.SpecFloat.
From Verif Require Import Util Ints Strconv Floats AssignVal Assign AssignSpec AssignText AssignMatrix AssignThms.
Import ListNotations.
Local Open Scope Z_scope.

Theorem assign_returns rf dcap buf dst src :
  wf_source src -> not_nil src = true -> (text_dest dst = true -> rendered rf src) ->
  exists ok d own b, assign true dcap buf dst src = Done ok d own b.
Proof.
  intros W N R.
  destruct (two_readings rf dcap buf dst src W N R) as [H|H];
    destruct (assign true dcap buf dst src) as [ok d own b| |]; try discriminate H; eauto.
Qed.
