(* Proofs/NoPanicReflect.v - ReflectInspector.Get: with the bounds test of the fix: commit no
   call panics, whatever the dynamic value and the path; the pinned code panics exactly with an
   index out of range, and only there. *)
From Coq Require Import List Bool String Ascii ZArith Arith Lia.
From Verif Require Import Util Ints Strconv Floats Node Value Outcome Nav ReflectIns.
Import ListNotations.
Local Open Scope string_scope.

Ltac crush_match :=
  repeat match goal with
         | |- context [match ?x with _ => _ end] => destruct x
         | |- context [if ?x then _ else _] => destruct x
         end.

Lemma rinspect_fixed_no_panic : forall d key k, rinspect true d key <> RPanic k.
Proof.
  intros d key k. unfold rinspect. crush_match; discriminate.
Qed.

Lemma rwalk_fixed_no_panic : forall path d k, rwalk true d path <> RPanic k.
Proof.
  induction path as [|s rest IH]; intros d k; cbn [rwalk]; [discriminate|].
  destruct (rinspect true d s) as [d'| k' |] eqn:E.
  - apply IH.
  - exfalso. exact (rinspect_fixed_no_panic d s k' E).
  - discriminate.
Qed.

(* every argument form, every node, every value (well typed or not), every path *)
Theorem rget_fixed_no_panic : forall n a path k, rget true n a path <> Some (RPanic k).
Proof.
  intros n a path k. unfold rget. destruct (rstart n a) as [d|]; cbn [option_map]; [|discriminate].
  intros H. injection H as H. exact (rwalk_fixed_no_panic path d k H).
Qed.

(* the pinned code: the only panic is the index panic *)
Lemma rinspect_pinned_only_index : forall d key k, rinspect false d key = RPanic k -> k = PIndex.
Proof.
  intros d key k. unfold rinspect. crush_match; intros H; try discriminate; injection H as <-; reflexivity.
Qed.

Lemma rwalk_pinned_only_index : forall path d k, rwalk false d path = RPanic k -> k = PIndex.
Proof.
  induction path as [|s rest IH]; intros d k; cbn [rwalk]; [discriminate|].
  destruct (rinspect false d s) as [d'| k' |] eqn:E.
  - apply IH.
  - intros H. injection H as <-. exact (rinspect_pinned_only_index d s k' E).
  - discriminate.
Qed.

(* ... and the two versions agree wherever the pinned one does not panic *)
Lemma rinspect_versions : forall d key, (exists k, rinspect false d key = RPanic k) \/ rinspect false d key = rinspect true d key.
Proof.
  intros d key. unfold rinspect. crush_match; try (right; reflexivity). left. eexists. reflexivity.
Qed.

Lemma rwalk_versions : forall path d, (exists k, rwalk false d path = RPanic k) \/ rwalk false d path = rwalk true d path.
Proof.
  induction path as [|s rest IH]; intros d; cbn [rwalk]; [right; reflexivity|].
  destruct (rinspect_versions d s) as [(k & E)|E].
  - left. exists k. rewrite E. reflexivity.
  - rewrite <- E. destruct (rinspect false d s) as [d'| k' |]; [apply IH|left; eexists; reflexivity|right; reflexivity].
Qed.
