(* Proofs/StringsKeys.v - the decimal text of an index parses back to the index:
   atoi (Z_to_string i) = Some i for every 0 <= i < 2^63 (all of Go's non-negative int). *)
From Coq Require Import ZArith NArith List Bool Ascii String Lia.
From Verif Require Import Util Ints Strconv.
Import ListNotations.
Local Open Scope Z_scope.

(* value accumulated by reading the decimal digits of n (as produced with [fuel]) after k *)
Fixpoint push (fuel : nat) (k : Z) (n : N) : Z :=
  match fuel with
  | O => k
  | S f =>
    if N.eqb (N.div n 10) 0 then k * 10 + Z.of_N (N.modulo n 10)
    else push f k (N.div n 10) * 10 + Z.of_N (N.modulo n 10)
  end.

Lemma digit_char_val d : (d < 10)%N ->
  is_underscore (digit_char d) = false /\ digit_val (digit_char d) = Some (Z.of_N d) /\
  is_digit (digit_char d) = true.
Proof.
  intros H.
  assert (E : d = 0%N \/ d = 1%N \/ d = 2%N \/ d = 3%N \/ d = 4%N \/ d = 5%N \/ d = 6%N \/ d = 7%N \/ d = 8%N \/ d = 9%N) by lia.
  repeat (destruct E as [E|E]; [subst d; vm_compute; auto|]). subst d; vm_compute; auto.
Qed.

Lemma pu_loop_digits fuel : forall n acc k,
  pu_loop (pos_digits fuel n acc) 10 false k false =
  match fuel with O => pu_loop acc 10 false k false | _ => pu_loop acc 10 false (push fuel k n) false end.
Proof.
  induction fuel as [|f IH]; intros n acc k; [reflexivity|].
  assert (Hd : (N.modulo n 10 < 10)%N) by (apply N.mod_lt; discriminate).
  destruct (digit_char_val _ Hd) as (U & V & _).
  cbn [pos_digits push].
  destruct (N.eqb (N.div n 10) 0) eqn:Q.
  - cbn [pu_loop]. rewrite U, V. cbn [andb].
    assert (L : (Z.of_N (N.modulo n 10) <? 10) = true) by (apply Z.ltb_lt; lia).
    rewrite L. reflexivity.
  - rewrite IH. destruct f as [|f'].
    + cbn [pu_loop push]. rewrite U, V. cbn [andb].
      assert (L : (Z.of_N (N.modulo n 10) <? 10) = true) by (apply Z.ltb_lt; lia).
      rewrite L. reflexivity.
    + cbn [pu_loop]. rewrite U, V. cbn [andb].
      assert (L : (Z.of_N (N.modulo n 10) <? 10) = true) by (apply Z.ltb_lt; lia).
      rewrite L. reflexivity.
Qed.

Lemma push_value fuel : forall n, (n < 2 ^ N.of_nat fuel)%N -> (0 < fuel)%nat -> push fuel 0 n = Z.of_N n.
Proof.
  induction fuel as [|f IH]; intros n Hn Hf; [lia|].
  cbn [push].
  pose proof (N.div_mod n 10 ltac:(discriminate)) as DM.
  destruct (N.eqb_spec (N.div n 10) 0) as [Q|Q].
  - rewrite Q in DM. lia.
  - assert (Hq : (N.div n 10 < 2 ^ N.of_nat f)%N).
    { rewrite Nat2N.inj_succ, N.pow_succ_r' in Hn.
      apply N.div_lt_upper_bound; [discriminate|].
      remember (2 ^ N.of_nat f)%N as X eqn:EX. clear EX. lia. }
    destruct f as [|f'].
    + change (2 ^ N.of_nat 0)%N with 1%N in Hq. apply N.lt_1_r in Hq. contradiction.
    + rewrite IH by (auto; lia). lia.
Qed.

Definition head_digit (s : string) : Prop :=
  match s with String c _ => is_digit c = true | EmptyString => False end.

Lemma pos_digits_head fuel : forall n acc, head_digit acc -> head_digit (pos_digits fuel n acc).
Proof.
  induction fuel as [|f IH]; intros n acc H; [exact H|].
  cbn [pos_digits].
  assert (Hd : (N.modulo n 10 < 10)%N) by (apply N.mod_lt; discriminate).
  destruct (digit_char_val _ Hd) as (_ & _ & W).
  destruct (N.eqb (N.div n 10) 0); [exact W|]. apply IH. exact W.
Qed.

Lemma N_to_string_head n : head_digit (N_to_string n).
Proof.
  unfold N_to_string. cbn [pos_digits].
  assert (Hd : (N.modulo n 10 < 10)%N) by (apply N.mod_lt; discriminate).
  destruct (digit_char_val _ Hd) as (_ & _ & W).
  destruct (N.eqb (N.div n 10) 0); [exact W|]. apply pos_digits_head. exact W.
Qed.

Lemma N_to_string_value n : pu_loop (N_to_string n) 10 false 0 false = Some (Z.of_N n, false).
Proof.
  unfold N_to_string. rewrite pu_loop_digits. cbn [pu_loop].
  rewrite push_value; [reflexivity| |lia].
  rewrite Nat2N.inj_succ, N2Nat.id.
  destruct n as [|p]; [reflexivity|].
  apply N.lt_le_trans with (2 ^ N.size (N.pos p))%N.
  - apply N.size_gt.
  - apply N.pow_le_mono_r; [discriminate|lia].
Qed.

Lemma digit_not_sign c : is_digit c = true -> (code c =? 45) = false /\ (code c =? 43) = false.
Proof.
  unfold is_digit. intros H. apply andb_true_iff in H. destruct H as (A & B).
  apply Z.leb_le in A. split; apply Z.eqb_neq; lia.
Qed.

Lemma atoi_N_to_string n : Z.of_N n < 2 ^ 63 -> atoi (N_to_string n) = Some (Z.of_N n).
Proof.
  intros Hn. unfold atoi, parse_int.
  pose proof (N_to_string_head n) as Hh. pose proof (N_to_string_value n) as Hv.
  destruct (N_to_string n) as [|c r] eqn:E; [contradiction|].
  cbn [head_digit] in Hh. destruct (digit_not_sign _ Hh) as (M & P).
  rewrite M, P. cbn [orb].
  unfold parse_uint.
  replace (10 =? 0) with false by reflexivity.
  rewrite Hv.
  assert (L1 : (Z.of_N n <=? 2 ^ 64 - 1) = true) by (apply Z.leb_le; change (2 ^ 64) with (2 * 2 ^ 63); lia).
  rewrite L1. cbn [andb].
  assert (L2 : (Z.of_N n <? 2 ^ (64 - 1)) = true) by (apply Z.ltb_lt; exact Hn).
  rewrite L2. reflexivity.
Qed.

(* the statement used by C17: keys of Loop *)
Lemma atoi_decimal_index (j : nat) : Z.of_nat j < 2 ^ 63 -> atoi (Z_to_string (Z.of_nat j)) = Some (Z.of_nat j).
Proof.
  intros H. destruct j as [|j'].
  - vm_compute. reflexivity.
  - cbn [Z.of_nat Z_to_string].
    change (N_to_string (N.pos (Pos.of_succ_nat j'))) with (N_to_string (N.pos (Pos.of_succ_nat j'))).
    rewrite atoi_N_to_string; [reflexivity|]. exact H.
Qed.
