(* Proofs/StaticFacts.v - comparison and conversion facts the C16 proofs rest on:
   the model's comparison helpers read off a three-way comparison, antisymmetry
   of SFcompare, widening integer conversions are the identity on well-formed
   values, the repaired text helpers need no fuel. *)
From Coq Require Import ZArith Bool String Ascii List Lia Floats.SpecFloat.
From Verif Require Import Util Ints Strconv Floats Static StaticSpec.
Import ListNotations.
Local Open Scope Z_scope.

(* ---------- integers ---------- *)
Lemma cmp_int_by_cmp l op r : cmp_int l op r = by_cmp (Some (l ?= r)) op.
Proof.
  destruct op; simpl; try reflexivity;
    destruct (Z.compare_spec l r) as [E|L|G];
    repeat match goal with
           | |- context [?a =? ?b] => destruct (Z.eqb_spec a b)
           | |- context [?a <? ?b] => destruct (Z.ltb_spec a b)
           | |- context [?a <=? ?b] => destruct (Z.leb_spec a b)
           end; simpl; try reflexivity; lia.
Qed.

Lemma cmp_uint_by_cmp l op r : cmp_uint l op r = by_cmp (Some (l ?= r)) op.
Proof. exact (cmp_int_by_cmp l op r). Qed.

Lemma kmin_i64 k : is_signed k = true -> kmin KInt64 <= kmin k.
Proof. destruct k; try discriminate; intros _; vm_compute; discriminate. Qed.
Lemma kmax_i64 k : is_signed k = true -> kmax k <= kmax KInt64.
Proof. destruct k; try discriminate; intros _; vm_compute; discriminate. Qed.
Lemma kmin_u64 k : is_signed k = false -> kmin KUint64 <= kmin k.
Proof. destruct k; try discriminate; intros _; vm_compute; discriminate. Qed.
Lemma kmax_u64 k : is_signed k = false -> kmax k <= kmax KUint64.
Proof. destruct k; try discriminate; intros _; vm_compute; discriminate. Qed.

Lemma in_range_bounds k z : in_range k z = true -> kmin k <= z <= kmax k.
Proof.
  unfold in_range. intros H. apply andb_true_iff in H. destruct H as (H1 & H2).
  apply Z.leb_le in H1, H2. lia.
Qed.
Lemma bounds_in_range k z : kmin k <= z <= kmax k -> in_range k z = true.
Proof. intros (H1 & H2). unfold in_range. apply andb_true_iff. split; apply Z.leb_le; assumption. Qed.

(* int64(x) of a value of a signed kind, uint64(x) of a value of an unsigned kind *)
Lemma i64_id k z : is_signed k = true -> in_range k z = true -> i64 z = z.
Proof.
  intros S H. apply in_range_bounds in H. unfold i64. apply wrap_id, bounds_in_range.
  pose proof (kmin_i64 k S). pose proof (kmax_i64 k S). lia.
Qed.
Lemma u64_id k z : is_signed k = false -> in_range k z = true -> u64 z = z.
Proof.
  intros S H. apply in_range_bounds in H. unfold u64. apply wrap_id, bounds_in_range.
  pose proof (kmin_u64 k S). pose proof (kmax_u64 k S). lia.
Qed.

(* ---------- floats ---------- *)
Lemma Pcompare_antisym m1 m2 : Pos.compare_cont Eq m2 m1 = CompOpp (Pos.compare_cont Eq m1 m2).
Proof. exact (Pos.compare_antisym m1 m2). Qed.

Lemma SFcompare_antisym a b : SFcompare b a = option_map CompOpp (SFcompare a b).
Proof.
  destruct a as [sa|sa| |sa ma ea], b as [sb|sb| |sb mb eb]; simpl; try reflexivity;
    try (destruct sa; reflexivity); try (destruct sb; reflexivity);
    try (destruct sa, sb; reflexivity).
  destruct sa, sb; simpl; try reflexivity; f_equal.
  - rewrite (Z.compare_antisym ea eb). destruct (ea ?= eb); simpl; try reflexivity.
    rewrite (Pcompare_antisym ma mb). reflexivity.
  - rewrite (Z.compare_antisym ea eb). destruct (ea ?= eb); simpl; try reflexivity.
    rewrite (Pcompare_antisym ma mb). destruct (Pos.compare_cont Eq ma mb); reflexivity.
Qed.

Lemma SFeqb_sym a b : SFeqb a b = SFeqb b a.
Proof. unfold SFeqb. rewrite (SFcompare_antisym a b). destruct (SFcompare a b) as [[]|]; reflexivity. Qed.

Lemma cmp_float_by_cmp l op r : cmp_float l op r = by_cmp (SFcompare l r) op.
Proof.
  destruct op; simpl; try reflexivity; unfold SFeqb, SFltb, SFleb;
    try rewrite (SFcompare_antisym l r); destruct (SFcompare l r) as [[]|]; reflexivity.
Qed.

Lemma spec_tolerance_is_precision : spec_tolerance = float_precision.
Proof. vm_compute. reflexivity. Qed.

Lemma eqlf64_sym v a b : eqlf64 v a b = eqlf64 v b a.
Proof. unfold eqlf64, f64_eqb. rewrite (SFeqb_sym a b), (equal_float64_sym a b). reflexivity. Qed.

Lemma eqlf64_cur_spec a b : eqlf64 cur a b = float_equal a b.
Proof. unfold eqlf64, float_equal, equal_float64, f64_eqb, f64_leb, f64_abs, f64_sub. rewrite spec_tolerance_is_precision. reflexivity. Qed.

(* ---------- text ---------- *)
Lemma string_compare_refl s : String.compare s s = Eq.
Proof.
  induction s as [|c s IH]; simpl; [reflexivity|].
  unfold Ascii.compare. rewrite N.compare_refl. exact IH.
Qed.

Lemma string_eqb_compare l r : String.eqb l r = match String.compare l r with Eq => true | _ => false end.
Proof.
  destruct (String.eqb_spec l r) as [E|N].
  - subst. rewrite string_compare_refl. reflexivity.
  - destruct (String.compare l r) eqn:C; try reflexivity.
    apply String.compare_eq_iff in C. contradiction.
Qed.

Lemma cmp_str_by_cmp l op r : cmp_str l op r = by_cmp (Some (String.compare l r)) op.
Proof.
  destruct op; simpl; try reflexivity; unfold String.ltb, String.leb;
    rewrite ?string_eqb_compare, ?(String.compare_antisym r l);
    destruct (String.compare l r); reflexivity.
Qed.

Lemma cmp_bytes_by_eq l op r : cmp_bytes l op r = by_eq (String.eqb l r) op.
Proof. destruct op; reflexivity. Qed.
Lemma cmp_bool_by_eq l op r : cmp_bool l op r = by_eq (Bool.eqb l r) op.
Proof. destruct op; reflexivity. Qed.

Lemma bool_eqb_sym a b : Bool.eqb a b = Bool.eqb b a.
Proof. destruct a, b; reflexivity. Qed.

(* ---------- the repaired text helpers do not recurse ---------- *)
Definition ind_string_cur (x : sarg) : out (string * bool) :=
  match dyn_of x with
  | DStr | DPStr | DBytes | DPBytes => st x
  | _ => Ret (EmptyString, false)
  end.

Lemma ind_string_cur_eq fuel x : ind_string cur fuel x = ind_string_cur x.
Proof. destruct fuel; unfold ind_string_cur; simpl; destruct (dyn_of x); reflexivity. Qed.
Lemma ind_bytes_cur_eq fuel x : ind_bytes cur fuel x = ind_string_cur x.
Proof. destruct fuel; unfold ind_string_cur; simpl; destruct (dyn_of x); reflexivity. Qed.

(* ---------- the pre-fix text helpers never return on a non-text operand ---------- *)
Definition is_text (x : sarg) : bool :=
  match dyn_of x with DStr | DPStr | DBytes | DPBytes => true | _ => false end.

Lemma ind_text_diverges v : fx_text v = false ->
  forall fuel x, is_text x = false -> ind_string v fuel x = Diverge /\ ind_bytes v fuel x = Diverge.
Proof.
  intros Hv fuel. induction fuel as [|f IH]; intros x Hx; unfold is_text in Hx.
  - split; simpl; rewrite Hv; destruct (dyn_of x); try discriminate; reflexivity.
  - destruct (IH x Hx) as (IS & IB).
    split; simpl; rewrite Hv, ?IS, ?IB; destruct (dyn_of x); try discriminate; reflexivity.
Qed.
