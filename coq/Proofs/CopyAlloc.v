(* Proofs/CopyAlloc.v - no statement of the emitted cpy stores a reference of the source. *)
From Coq Require Import List Bool String Ascii ZArith Arith Lia.
From Verif Require Import Util Ints Node Value Outcome InsReset InsCopy.
Import ListNotations.

Ltac nope := let I := fresh "I" in intro I; exact I.

Lemma allocs_fields_no_src (chld : list node) :
  Forall (fun n => forall l r, ~ In OSrc (cpy_allocs n l r)) chld ->
  forall ls rs, ~ In OSrc (allocs_fields cpy_allocs chld ls rs).
Proof.
  induction 1 as [|c cr Hc Hr IH]; intros ls rs I.
  - destruct ls; exact I.
  - destruct ls as [|l lr]; [exact I|]. destruct rs as [|r rr]; [exact I|].
    cbn [allocs_fields] in I. apply in_app_or in I. destruct I as [I|I]; [exact (Hc l r I)|exact (IH lr rr I)].
Qed.

Theorem cpy_allocs_no_src : forall n l r, ~ In OSrc (cpy_allocs n l r).
Proof.
  intros n. induction n using node_ind'. intros l r.
  set (n0 := Node ty tn tu nm pk pki false chld mk mv sl hb hc).
  assert (CORE : forall l r, ~ In OSrc (cpy_allocs n0 l r)).
  { clear l r. intros l r. unfold n0. cbn [cpy_allocs]. destruct ty.
    - destruct l; try nope. destruct r; try nope. apply allocs_fields_no_src; exact H.
    - destruct l as [| | | | | | |lnil lkvs|]; try nope. destruct r as [| | | | | | |rnil rkvs|]; try nope.
      destruct mk as [kn|]; [|nope]. destruct mv as [vn|]; [|nope].
      destruct rkvs as [|kv0 rk]; [nope|].
      intros [E|I]; [destruct lnil; discriminate|].
      apply in_flat_map in I. destruct I as (kv & _ & I). apply in_app_or in I.
      destruct I as [I|I]; [exact (H0 kn eq_refl _ _ I)|exact (H1 vn eq_refl _ _ I)].
    - destruct (String.eqb tn "[]byte").
      + destruct r; try nope. intros [E|[]]; discriminate.
      + destruct l as [| | | | | |lnil les le| |]; try nope. destruct r as [| | | | | |rnil res re| |]; try nope.
        destruct sl as [en|]; [|nope]. destruct res as [|e0 res']; [nope|].
        intros [E|I]; [destruct lnil; [discriminate|destruct (Nat.leb _ le); discriminate]|].
        apply in_flat_map in I. destruct I as (e1 & _ & I). exact (H2 en eq_refl _ _ I).
    - destruct (String.eqb tu "string"); [intros [E|[]]; discriminate|nope]. }
  destruct p; [|exact (CORE l r)].
  change (cpy_allocs (Node ty tn tu nm pk pki true chld mk mv sl hb hc) l r)
    with (match r with
          | VPtr (Some rx) => (match l with VPtr (Some _) => ODst | _ => OFresh end) ::
                              cpy_allocs n0 (match l with VPtr (Some lx) => lx | _ => zero_val n0 end) rx
          | _ => [] end).
  destruct r as [| | | | | | | |[rx|]]; try nope.
  intros [E|I]; [destruct l as [| | | | | | | |[lx|]]; discriminate|exact (CORE _ _ I)].
Qed.
