(* Proofs/NoPanicStatic.v - C02 for the static inspector: no method panics on operands passed by
   value or by non-nil pointer (Model/Static.v); typed nil pointers are dereferenced - refuted in
   Properties/C02.v. *)
From Coq Require Import ZArith Bool String Ascii List Lia Floats.SpecFloat.
From Verif Require Import Util Ints Strconv Floats Static StaticSpec StaticFacts StaticProofs.
Import ListNotations.
Local Open Scope Z_scope.

Definition ret {A} (o : Static.out A) : Prop := exists r, o = Static.Ret r.

Lemma lc_returns a : passed a = true -> ret (s_length a) /\ ret (s_capacity a).
Proof.
  intros P. unfold s_length, s_capacity, s_lc, lc_bytes, lc_str.
  destruct a as [v|v|k]; [| |discriminate]; destruct v as [b|k z|f|f|i s|i d c|t]; try destruct k;
    simpl; split; eexists; reflexivity.
Qed.

Lemma reset_returns a : passed a = true -> ret (s_reset cur a).
Proof.
  intros P. unfold s_reset, rs_local, rs_store.
  destruct a as [v|v|k]; [| |discriminate]; destruct v as [b|k z|f|f|i s|i d c|t]; try destruct k;
    simpl; eexists; reflexivity.
Qed.

Lemma copy_returns fresh extra a : passed a = true -> ret (s_copy fresh extra a).
Proof.
  intros P. unfold s_copy, cp_same, cp_bytes, cp_str.
  destruct a as [v|v|k]; [| |discriminate]; destruct v as [b|k z|f|f|i s|i d c|t]; try destruct k;
    simpl; eexists; reflexivity.
Qed.

Lemma compare_returns a v op right res0 : denotes a = Some v -> wf_val v -> ret (s_compare a op right res0).
Proof. intros D W. eexists. exact (compare_any a v op right res0 D W). Qed.
