(* Proofs/ParserWf.v - every declared type of the grammar G is parsed (go/ast parser model)
   into a well-formed node: the premise `wfn` of all emitter theorems holds for what the
   generator actually builds, for every nesting depth. *)
From Coq Require Import List Bool String Ascii ZArith Arith Lia.
From Verif Require Import Util Ints Node Value LCSound.
Import ListNotations.
Local Open Scope string_scope.

(* induction on declared types with the nested field list *)
Section TyInd.
  Variable P : ty -> Prop.
  Hypothesis Hs : forall k, P (TScalar k).
  Hypothesis Hp : forall t, P t -> P (TPtr t).
  Hypothesis Hl : forall e, P e -> P (TSlice e).
  Hypothesis Hm : forall k v, P k -> P v -> P (TMap k v).
  Hypothesis Ht : forall fs, Forall (fun f => P (snd f)) fs -> P (TStruct fs).
  Hypothesis Hn : forall n b, P b -> P (TNamed n b).
  Fixpoint ty_ind' (t : ty) : P t :=
    match t with
    | TScalar k => Hs k
    | TPtr t' => Hp t' (ty_ind' t')
    | TSlice e => Hl e (ty_ind' e)
    | TMap k v => Hm k v (ty_ind' k) (ty_ind' v)
    | TStruct fs => Ht fs ((fix go (l : list (string * ty)) : Forall (fun f => P (snd f)) l :=
                              match l with [] => Forall_nil _ | f :: r => Forall_cons f (ty_ind' (snd f)) (go r) end) fs)
    | TNamed n b => Hn n b (ty_ind' b)
    end.
End TyInd.

(* well-formed declared types: distinct field names; map keys are (pointers to) builtin scalars *)
Fixpoint fields_nodup (l : list (string * ty)) : bool :=
  match l with
  | [] => true
  | f :: r => negb (existsb (fun g => String.eqb (fst g) (fst f)) r) && fields_nodup r
  end.

Definition key_ty (t : ty) : bool :=
  match t with TScalar _ => true | TPtr (TScalar _) => true | _ => false end.

Fixpoint wf_ty (t : ty) : bool :=
  match t with
  | TScalar _ => true
  | TPtr t' => wf_ty t'
  | TSlice e => wf_ty e
  | TMap k v => key_ty k && wf_ty v
  | TStruct fs => fields_nodup fs && (fix go (l : list (string * ty)) : bool :=
                                        match l with [] => true | f :: r => wf_ty (snd f) && go r end) fs
  | TNamed _ b => wf_ty b
  end.

Section P.
Variables pkg imp : string.

Lemma skind_roundtrip k : skind_of_name (skind_name k) = Some k.
Proof. destruct k as [|i| | | |]; try reflexivity. destruct i; reflexivity. Qed.

Lemma string_name k : String.eqb (skind_name k) "string" = match k with SString => true | _ => false end.
Proof. destruct k as [|i| | | |]; try reflexivity. destruct i; reflexivity. Qed.

Lemma wfn_set_name n s : wfn (set_name n s) = wfn n.
Proof. destruct n; reflexivity. Qed.
Lemma wfn_set_typn_nonslice n s : n_typ n <> typeSlice -> wfn (set_typn n s) = wfn n.
Proof. destruct n as [ty]; destruct ty; simpl; intros H; try reflexivity. congruence. Qed.
Lemma wfn_set_pkg n a b : wfn (set_pkg n a b) = wfn n.
Proof. destruct n; reflexivity. Qed.

(* invariant of parser results: well-formed, and a slice node always carries its element node *)
Definition good (n : node) : Prop :=
  wfn n = true /\ (n_typ n = typeSlice -> exists e, n_slct n = Some e /\ wfn e = true).

Lemma good_set_name n s : good n -> good (set_name n s).
Proof. destruct n; exact (fun H => H). Qed.
Lemma good_set_pkg n a b : good n -> good (set_pkg n a b).
Proof. destruct n; exact (fun H => H). Qed.
Lemma good_set_ptr n b : good n -> good (set_ptr n b).
Proof. destruct n; exact (fun H => H). Qed.
Lemma good_set_typn n s : good n -> good (set_typn n s).
Proof.
  destruct n as [ty tn tu nm pk pki p chld mk mv sl hb hc]. unfold good; simpl. intros (W & S).
  destruct ty; try (split; [exact W|intros E; discriminate E]).
  destruct (S eq_refl) as (e & -> & We). split; [|intros _; eauto].
  simpl in W. apply andb_true_iff in W. destruct W as (HC & _). simpl. rewrite HC, We. apply orb_true_r.
Qed.

Lemma name_set_typn n s : n_name (set_typn n s) = n_name n.
Proof. destruct n; reflexivity. Qed.
Lemma name_set_name n s : n_name (set_name n s) = s.
Proof. destruct n; reflexivity. Qed.

(* the children list the struct case builds *)
Definition mk_child (f : string * ty) : node :=
  let ch := set_name (pa pkg imp (Some (fst f)) false (snd f)) (fst f) in
  if String.eqb (n_typn ch) "" then set_typn ch (compose_name ch) else ch.

Lemma child_name f : n_name (mk_child f) = fst f.
Proof.
  unfold mk_child. destruct (String.eqb _ _); [rewrite name_set_typn|]; apply name_set_name.
Qed.

Lemma children_nodup fs : fields_nodup fs = true -> names_nodup (map mk_child fs) = true.
Proof.
  induction fs as [|f r IH]; simpl; [reflexivity|]. intros H. apply andb_true_iff in H. destruct H as (A & B).
  rewrite (IH B), andb_true_r. apply negb_true_iff in A. apply negb_true_iff.
  apply not_true_is_false. intros E. apply existsb_exists in E. destruct E as (d & Hd & Ed).
  apply in_map_iff in Hd. destruct Hd as (g & <- & Hg). rewrite !child_name in Ed.
  assert (X : existsb (fun g0 => String.eqb (fst g0) (fst f)) r = true) by (apply existsb_exists; eauto).
  congruence.
Qed.

Lemma pa_struct_children fs :
  (fix go (l : list (string * ty)) : list node :=
     match l with
     | [] => []
     | (fnm, ft) :: r =>
       let ch := pa pkg imp (Some fnm) false ft in
       let ch := set_name ch fnm in
       let ch := if String.eqb (n_typn ch) "" then set_typn ch (compose_name ch) else ch in
       ch :: go r
     end) fs = map mk_child fs.
Proof. induction fs as [|[fnm ft] r IH]; [reflexivity|]. simpl. f_equal. exact IH. Qed.

Lemma pa_good : forall t id top, wf_ty t = true -> good (pa pkg imp id top t).
Proof.
  intros t. induction t using ty_ind'; intros id top W; cbn [wf_ty] in W.
  - (* scalar *)
    split; [|intros E; discriminate E]. cbn [pa wfn]. rewrite skind_roundtrip, string_name. destruct k; reflexivity.
  - apply good_set_ptr. apply IHt; exact W.
  - (* slice *)
    destruct (IHt None false W) as (We & _). cbn [pa]. split.
    + cbn [wfn andb]. rewrite We. apply orb_true_r.
    + intros _. eexists; split; [reflexivity|exact We].
  - (* map *)
    apply andb_true_iff in W. destruct W as (K & V). destruct (IHt2 None false V) as (Wv & _).
    split; [|intros E; discriminate E]. cbn [pa wfn andb]. rewrite Wv.
    destruct t1 as [k|t1'|?|? ?|?|? ?]; try discriminate.
    + cbn [pa wfn n_typ n_typn n_typu]. rewrite skind_roundtrip, string_name. destruct k; reflexivity.
    + destruct t1' as [k|?|?|? ?|?|? ?]; try discriminate.
      cbn [pa set_ptr wfn n_typ n_typn n_typu]. rewrite skind_roundtrip, string_name. destruct k; reflexivity.
  - (* struct *)
    apply andb_true_iff in W. destruct W as (ND & WF).
    split; [|intros E; discriminate E].
    cbn [pa]. rewrite pa_struct_children. cbn [wfn]. rewrite eqb_reflx, (children_nodup _ ND). cbn [andb].
    apply forallb_forall. intros ch Hch. apply in_map_iff in Hch. destruct Hch as (f & <- & Hf).
    assert (Wf : wf_ty (snd f) = true).
    { clear ND H. induction fs as [|g r IH]; [contradiction|]. apply andb_true_iff in WF. destruct WF as (A & B).
      destruct Hf as [->|Hf]; auto. }
    rewrite Forall_forall in H. specialize (H f Hf (Some (fst f)) false Wf).
    unfold mk_child. destruct (String.eqb _ _).
    + apply good_set_typn, good_set_name. exact H.
    + apply good_set_name. exact H.
  - (* named reference *)
    cbn [pa]. apply good_set_pkg, good_set_typn, good_set_name. apply IHt; exact W.
Qed.

(* every root declaration of the grammar is parsed into a well-formed node *)
Theorem parse_ast_wfn : forall n body, wf_ty body = true -> wfn (parse_ast_decl pkg imp n body) = true.
Proof. intros n body W. exact (proj1 (pa_good body (Some n) true W)). Qed.
End P.
