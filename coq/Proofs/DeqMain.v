(* Proofs/DeqMain.v - the theorems of C05 and C11 about the emitted methods DeepEqual and
   DeepEqualWithOptions (header + body), derived from the node inductions of DeqSound / DeqSym / DeqRefl. *)
From Coq Require Import List Bool String Ascii ZArith Arith Lia Floats.SpecFloat Permutation.
From Verif Require Import Util Ints Strconv Floats Node Value Outcome Deq DeqSpec DeqKeys DeqPaths DeqSound DeqSym DeqRefl.
Import ListNotations.
Local Open Scope string_scope.

(* a root declaration: well-formed for the emitter, not a pointer, not []byte *)
Definition wfroot (n : node) : bool := wfd n && negb (n_ptr n) && negb (is_bytes_n n).

Definition skip_of (o : option deqopts) (q : string) : bool := negb (deq_must_check q o).

Definition both (a b : val) (la ra : arg) : Prop := la = APtr (Some a) /\ ra = APtr (Some b).

Lemma root_path n : deq_path "" (n_name n) 0 = "".
Proof. reflexivity. Qed.

(* the two halves for the method, argument form *T on both sides *)
Theorem deq_method_complete n sh o a b :
  wfroot n = true -> finv a = true ->
  seqv sh (skip_of o) None n "" a b = true ->
  deep_equal_with_options n sh (APtr (Some a)) (APtr (Some b)) o = inl true.
Proof.
  intros W FA SQ. unfold wfroot in W. apply andb_true_iff in W. destruct W as (W & _). apply andb_true_iff in W. destruct W as (W & _).
  cbn [deep_equal_with_options header_x]. f_equal.
  apply (deq_complete sh o (skip_of o) (fun q => eq_refl) n W None "" 0 a b); rewrite ?root_path; auto.
Qed.

Theorem deq_method_sound n sh o a b :
  wfroot n = true -> kok a = true -> kok b = true ->
  seqv sh (skip_of o) (Some (eff_prec o)) n "" a b = false ->
  deep_equal_with_options n sh (APtr (Some a)) (APtr (Some b)) o = inl false.
Proof.
  intros W KA KB SQ. unfold wfroot in W. apply andb_true_iff in W. destruct W as (W & NB). apply andb_true_iff in W. destruct W as (W & _).
  apply negb_true_iff in NB.
  cbn [deep_equal_with_options header_x]. f_equal.
  destruct (deq sh o n None "" 0 a b) eqn:D; [|reflexivity].
  pose proof (deq_sound sh o (skip_of o) (fun q => eq_refl) n W None "" 0 a b) as X. rewrite root_path in X.
  specialize (X eq_refl KA KB (or_intror NB) D). destruct X as [(X & _)|X]; [cbn in X; discriminate X | congruence].
Qed.

(* ---------- C05 ---------- *)
Lemma skip_none q : skip_of None q = no_skip q.
Proof. reflexivity. Qed.

Lemma seqv_skip_ext sh s1 s2 tol : (forall q, s1 q = s2 q) -> forall n q a b, seqv sh s1 tol n q a b = seqv sh s2 tol n q a b.
Proof.
  intros E. induction n as [ty tn tu nm pk pki p chld mk mv sl hb hc IHc IHk IHv IHs] using node_ind'.
  intros q.
  assert (NP : forall a b, seqv sh s1 tol (Node ty tn tu nm pk pki false chld mk mv sl hb hc) q a b =
                          seqv sh s2 tol (Node ty tn tu nm pk pki false chld mk mv sl hb hc) q a b).
  { intros a b. cbn [seqv]. destruct ty; try reflexivity.
    - destruct a as [| | | | |fs| | |], b as [| | | | |gs| | |]; try reflexivity.
      revert fs gs. induction IHc as [|c cr HC HR IH]; intros fs gs; [reflexivity|].
      cbn [seq_fields]. destruct fs as [|f fr], gs as [|g gr]; try reflexivity. rewrite E, HC, IH. reflexivity.
    - destruct a as [| | | | | | |ln lk|], b as [| | | | | | |rn rk|]; try reflexivity.
      destruct mk as [kn|]; [|reflexivity]. destruct mv as [vn|]; [|reflexivity]. f_equal.
      destruct (n_ptr kn).
      + destruct sh; [|reflexivity]. apply forallb2_ext. intros. apply (IHv vn eq_refl).
      + f_equal. unfold keys_within. apply forallb_ext'. intros kv. destruct (map_find rk (fst kv)); [|reflexivity]. apply (IHv vn eq_refl).
    - destruct (String.eqb tn "[]byte"); [reflexivity|].
      destruct a as [| | | | | |ln le ex| |], b as [| | | | | |rn re ex'| |]; try reflexivity.
      destruct sl as [en|]; [|reflexivity]. f_equal. apply forallb2_ext. intros. apply (IHs en eq_refl). }
  destruct p; [|exact NP]. intros a b.
  destruct a as [| | | | | | | |[x|]], b as [| | | | | | | |[y|]]; try reflexivity. exact (NP x y).
Qed.

Lemma default_tol_is : default_tol = float_precision.
Proof. vm_compute. reflexivity. Qed.

(* reflexive: a value (finite floats) compared with itself - one object passed twice - under any options *)
Theorem deep_equal_refl n o a :
  wfroot n = true -> wtb n a = true -> finv a = true -> kok a = true ->
  deep_equal_with_options n true (APtr (Some a)) (APtr (Some a)) o = inl true.
Proof. intros W WT FA KA. apply deq_method_complete; auto. apply seq_refl; auto. Qed.

(* symmetric: every pair of values, every options, whatever the argument forms *)
Definition akok (x : arg) : bool :=
  match x with AVal v | APtr (Some v) | APtrPtr (Some (Some v)) => kok v | _ => true end.

Theorem deep_equal_sym n sh o la ra :
  akok la = true -> akok ra = true ->
  deep_equal_with_options n sh la ra o = deep_equal_with_options n sh ra la o.
Proof.
  intros KL KR. unfold deep_equal_with_options.
  destruct la as [a|[a|]|[[a|]|]| |], ra as [b|[b|]|[[b|]|]| |]; cbn [header_x]; try reflexivity;
    (f_equal; apply deq_sym; [exact KL | exact KR]).
Qed.

(* structurally identical (same floats) => true *)
Theorem deep_equal_copy n sh a b :
  wfroot n = true -> finv a = true -> seq_strict sh n a b = true ->
  deep_equal n sh (APtr (Some a)) (APtr (Some b)) = inl true.
Proof.
  intros W FA SQ. apply deq_method_complete; auto.
Qed.

(* any difference of a listed kind (floats: beyond the tolerance) => false *)
Theorem deep_equal_sees n sh a b :
  wfroot n = true -> kok a = true -> kok b = true -> seq_tol sh default_tol n a b = false ->
  deep_equal n sh (APtr (Some a)) (APtr (Some b)) = inl false.
Proof.
  intros W KA KB SQ. unfold seq_tol in SQ. rewrite default_tol_is in SQ. apply deq_method_sound; auto.
Qed.

Definition meets (r : bool + pkind) (d : demand) : Prop :=
  match d with DTrue => r = inl true | DFalse => r = inl false | DEither => True end.

Theorem deep_equal_meets_c05 n sh a b :
  wfroot n = true -> finv a = true -> kok a = true -> kok b = true ->
  meets (deep_equal n sh (APtr (Some a)) (APtr (Some b))) (c05_demand sh n a b).
Proof.
  intros W FA KA KB. unfold c05_demand, demand_of.
  destruct (seq_strict sh n a b) eqn:S1; [apply deep_equal_copy; auto|].
  destruct (seq_tol sh default_tol n a b) eqn:S2; [exact I|]. apply deep_equal_sees; auto.
Qed.

(* ---------- C11 ---------- *)
Definition opts_spec (o : option deqopts) : option opt_spec :=
  match o with None => None | Some o => Some (OptSpec (o_prec o) (o_excl o) (o_filt o)) end.

Lemma mem_listed q l : mem q l = listed q l.
Proof. unfold mem, listed. induction l as [|x r IH]; simpl; auto. rewrite IH, String.eqb_sym. reflexivity. Qed.

(* the decision table *)
Theorem must_check_table q o :
  deq_must_check q o =
  match o with
  | None => true
  | Some o => if negb (Nat.eqb (List.length (o_excl o)) 0) then negb (listed q (o_excl o))
              else if negb (Nat.eqb (List.length (o_filt o)) 0) then listed q (o_filt o)
              else true
  end.
Proof.
  destruct o as [[p e f]|]; [|reflexivity]. cbn [deq_must_check o_excl o_filt].
  destruct e as [|x e]; cbn [List.length Nat.eqb negb].
  - destruct f as [|y f]; cbn [List.length Nat.eqb negb]; [reflexivity|apply mem_listed].
  - rewrite mem_listed. reflexivity.
Qed.

Theorem must_check_spec q o : deq_must_check q o = field_compared (opts_spec o) q.
Proof. rewrite must_check_table. destruct o as [[p e f]|]; reflexivity. Qed.

Lemma tolerance_spec o : eff_prec o = tolerance_of (opts_spec o).
Proof.
  destruct o as [[p e f]|]; cbn [eff_prec tolerance_of opts_spec o_prec os_prec]; unfold f64_ltb; rewrite default_tol_is; reflexivity.
Qed.

(* nil options = the plain comparison; so are options with nothing in them and no positive precision *)
Theorem nil_is_default n sh la ra : deep_equal_with_options n sh la ra None = deep_equal n sh la ra.
Proof. reflexivity. Qed.

Theorem empty_is_default n sh la ra o :
  o_excl o = [] -> o_filt o = [] -> SFltb (S754_zero false) (o_prec o) = false ->
  deep_equal_with_options n sh la ra (Some o) = deep_equal n sh la ra.
Proof.
  intros E F P. unfold deep_equal, deep_equal_with_options.
  destruct (header_x la) as [[lc|]|]; try reflexivity. destruct (header_x ra) as [[rc|]|]; try reflexivity.
  destruct lc, rc; try reflexivity. f_equal. apply deq_opts_ext.
  - intros q. destruct o as [p e f]. cbn in *. subst. reflexivity.
  - destruct o as [p e f]. cbn in *. rewrite P. reflexivity.
Qed.

(* a positive Precision is the tolerance in force, anything else leaves the default *)
Theorem precision_positive o : SFltb (S754_zero false) (o_prec o) = true -> eff_prec (Some o) = o_prec o.
Proof. intros H. cbn. rewrite H. reflexivity. Qed.
Theorem precision_default o : SFltb (S754_zero false) (o_prec o) = false -> eff_prec (Some o) = float_precision.
Proof. intros H. cbn. rewrite H. reflexivity. Qed.

(* the code emitted for a float field of a struct: |l - r| <= tolerance in force, unless the field is not compared *)
Theorem float_field_code sh o tn tu nm pk pki chld mk mv sl hb hc path depth a b :
  is_float_name tu = true ->
  deq sh o (Node typeBasic tn tu nm pk pki false chld mk mv sl hb hc) (Some typeStruct) path depth (VFloat a) (VFloat b) =
  equal_float64 a b (eff_prec o) || negb (deq_must_check (deq_path path nm depth) o).
Proof. intros F. cbn [deq par_struct]. rewrite F. rewrite andb_false_r. reflexivity. Qed.

Theorem deep_equal_meets_c11 n o a b :
  wfroot n = true -> finv a = true -> kok a = true -> kok b = true ->
  meets (deep_equal_with_options n false (APtr (Some a)) (APtr (Some b)) o) (c11_demand (opts_spec o) n a b).
Proof.
  intros W FA KA KB. unfold c11_demand, demand_of.
  assert (E : forall q, skip_of o q = negb (field_compared (opts_spec o) q)).
  { intros q. unfold skip_of. rewrite must_check_spec. reflexivity. }
  rewrite <- !(seqv_skip_ext false _ _ _ E). rewrite <- tolerance_spec.
  destruct (seqv false (skip_of o) None n "" a b) eqn:S1; [apply deq_method_complete; auto|].
  destruct (seqv false (skip_of o) (Some (eff_prec o)) n "" a b) eqn:S2; [exact I|]. apply deq_method_sound; auto.
Qed.

(* Exclude: the result does not depend on the excluded fields, and sees everything else *)
Definition excluded (o : deqopts) (q : string) : bool := listed q (o_excl o).

Lemma skip_exclude o : o_excl o <> [] -> forall q, skip_of (Some o) q = excluded o q.
Proof.
  intros NE q. unfold skip_of, excluded. destruct o as [p e f]. cbn in *. destruct e; [congruence|].
  rewrite negb_involutive. exact (mem_listed q (s :: e)).
Qed.

Theorem exclude_independent n o a b :
  wfroot n = true -> finv a = true -> o_excl o <> [] ->
  seqv false (excluded o) None n "" a b = true ->
  deep_equal_with_options n false (APtr (Some a)) (APtr (Some b)) (Some o) = inl true.
Proof.
  intros W FA NE SQ. apply deq_method_complete; auto.
  rewrite (seqv_skip_ext false _ _ None (skip_exclude o NE)). exact SQ.
Qed.

Theorem exclude_sees_outside n o a b :
  wfroot n = true -> kok a = true -> kok b = true -> o_excl o <> [] ->
  seqv false (excluded o) (Some (eff_prec (Some o))) n "" a b = false ->
  deep_equal_with_options n false (APtr (Some a)) (APtr (Some b)) (Some o) = inl false.
Proof.
  intros W KA KB NE SQ. apply deq_method_sound; auto.
  rewrite (seqv_skip_ext false _ _ _ (skip_exclude o NE)). exact SQ.
Qed.

(* only a Filter: exactly the listed fields, reached through listed ancestors, count *)
Definition unlisted (o : deqopts) (q : string) : bool := negb (listed q (o_filt o)).

Lemma skip_filter o : o_excl o = [] -> o_filt o <> [] -> forall q, skip_of (Some o) q = unlisted o q.
Proof.
  intros E NE q. unfold skip_of, unlisted. destruct o as [p e f]. cbn in *. subst e. destruct f as [|s f]; [congruence|].
  f_equal. exact (mem_listed q (s :: f)).
Qed.

Theorem filter_only_listed n o a b :
  wfroot n = true -> finv a = true -> o_excl o = [] -> o_filt o <> [] ->
  seqv false (unlisted o) None n "" a b = true ->
  deep_equal_with_options n false (APtr (Some a)) (APtr (Some b)) (Some o) = inl true.
Proof.
  intros W FA E NE SQ. apply deq_method_complete; auto.
  rewrite (seqv_skip_ext false _ _ None (skip_filter o E NE)). exact SQ.
Qed.

Theorem filter_listed_count n o a b :
  wfroot n = true -> kok a = true -> kok b = true -> o_excl o = [] -> o_filt o <> [] ->
  seqv false (unlisted o) (Some (eff_prec (Some o))) n "" a b = false ->
  deep_equal_with_options n false (APtr (Some a)) (APtr (Some b)) (Some o) = inl false.
Proof.
  intros W KA KB E NE SQ. apply deq_method_sound; auto.
  rewrite (seqv_skip_ext false _ _ _ (skip_filter o E NE)). exact SQ.
Qed.
