(* Proofs/LoopHist.v - C09 on HISTORIES of Loop calls.

   A caller makes many Loop calls - over several collections of one object, over other
   objects - and hands the same key buffer of its own to all of them.  Model/ApiSeq.v threads
   a store of objects through a list of calls; the key buffer is not a component of that state
   because the emitted key renderings start from the empty prefix of the buffer and copy the
   key text into it (Model/Loop.v never looks at its content, Model/Api.v hands the argument of
   a Loop back as it was).  Hence every call of a history of Loop calls answers what it answers
   alone on the untouched store, and the demand of the property holds for EVERY call of the
   history, not just for the first one.  The history cases of the c09 stream (op lhist) observe
   the same on the real generated code with one real buffer. *)
From Coq Require Import List Bool String Ascii ZArith Arith Lia Sorting.Permutation.
From Verif Require Import Util Node Value Outcome Nav Loop LoopSpec LCSound LoopSound Api ApiSeq FormsSeq.
Import ListNotations.

(* a step of a Loop history: a Loop call under the visiting order [ord] on an object of the
   store that is handed over by pointer, well-formed and well-typed, whose keys can be named *)
Definition loop_step_ok (ord : list (val * val) -> list (val * val)) (s : store) (st : step) : Prop :=
  exists sc path n v,
    snd st = KLoop sc ord path /\ nth_error s (fst st) = Some (n, APtr (Some v)) /\
    wfn n = true /\ n_ptr n = false /\ wtb n v = true /\ keys_ok (denoted n v path).

(* what is demanded of the result of such a step inside a history that started from the store
   [s]: the store is still [s], the answer is the trace of the call on the object as it was
   before the first step, and that trace meets the demand of the property for the path *)
Definition loop_step_meets (ord : list (val * val) -> list (val * val)) (s : store) (st : step)
           (r : option answer * store) : Prop :=
  snd r = s /\
  exists sc path n v,
    snd st = KLoop sc ord path /\ nth_error s (fst st) = Some (n, APtr (Some v)) /\
    fst r = Some (AnsTrace (loop_method sc ord n (APtr (Some v)) path)) /\
    LoopSpec.meets sc (loop_method sc ord n (APtr (Some v)) path) (loop_demand n v path).

Lemma loop_step_ok_intro ord s i sc path n v :
  nth_error s i = Some (n, APtr (Some v)) ->
  wfn n = true -> n_ptr n = false -> wtb n v = true -> keys_ok (denoted n v path) ->
  loop_step_ok ord s (i, KLoop sc ord path).
Proof. intros E W P WT KO. exists sc, path, n, v. repeat split; assumption. Qed.

Lemma loop_steps_read ord s h : Forall (loop_step_ok ord s) h -> reads_only h = true.
Proof.
  induction 1 as [|st r (sc & path & n & v & K & _) _ IH]; [reflexivity|].
  unfold reads_only in *. cbn [forallb]. rewrite K, IH. reflexivity.
Qed.

Theorem loop_history ord s h :
  (forall l, Permutation (ord l) l) ->
  Forall (loop_step_ok ord s) h ->
  Forall2 (loop_step_meets ord s) h (run s h).
Proof.
  intros ORD OK. rewrite (read_history h s (loop_steps_read ord s h OK)).
  induction OK as [|st r (sc & path & n & v & K & E & W & P & WT & KO) _ IH]; cbn [map]; constructor; [|exact IH].
  split; [reflexivity|]. exists sc, path, n, v. repeat split; try assumption.
  - cbn [fst]. unfold alone, exec_at. rewrite E. cbn [fst snd]. rewrite K. reflexivity.
  - apply loop_method_sound; assumption.
Qed.

(* every step answers what it answers as the only step *)
Corollary loop_history_alone ord s h :
  Forall (loop_step_ok ord s) h -> map fst (run s h) = map (alone s) h.
Proof.
  intros OK. rewrite (read_history h s (loop_steps_read ord s h OK)). rewrite map_map. reflexivity.
Qed.
