(* Proofs/AssignThms.v - the statements of property C19 about the model of
   AssignBuf, assembled from the cells of AssignMatrix.v. *)
From Coq Require Import ZArith Bool String Ascii List Lia Floats.SpecFloat.
From Verif Require Import Util Ints Strconv Floats AssignVal Assign AssignSpec AssignText AssignMatrix.
Import ListNotations.
Local Open Scope Z_scope.

Local Opaque wrap assign_atoi assign_atou assign_atof render_float to_f32 to_f64 Z_to_string String.eqb f64_eqb
      text_to_int text_to_float String.append in_range.

(* ---------- every input: the code realises one of the two readings ---------- *)
Theorem two_readings rf dcap buf dst src :
  wf_source src -> not_nil src = true -> (text_dest dst = true -> rendered rf src) ->
  result (assign true dcap buf dst src) = Some (expect rf Strict dst src) \/
  result (assign true dcap buf dst src) = Some (expect rf Lenient dst src).
Proof.
  intros W N R. destruct dst as [[b|k o|f|f|s|s]|].
  - left. apply cell_bool; assumption.
  - destruct (is_signed k) eqn:S.
    + right. apply cell_signed; assumption.
    + destruct (cell_unsigned rf dcap buf k o src S W N); [right|left]; assumption.
  - destruct (cell_f32 rf dcap buf f src W N); [right|left]; assumption.
  - left. apply cell_f64; assumption.
  - left. apply cell_str; auto.
  - left. apply cell_bytes; auto.
  - left. apply cell_foreign; assumption.
Qed.

(* ---------- where the text decides, the table ---------- *)
Lemma float_eqb_eq a b :
  match a, b with
  | S754_zero s, S754_zero t | S754_infinity s, S754_infinity t => Bool.eqb s t
  | S754_nan, S754_nan => true
  | S754_finite s m e, S754_finite t n g => Bool.eqb s t && (Zpos m =? Zpos n) && (e =? g)
  | _, _ => false
  end = true -> a = b.
Proof.
  destruct a as [s|s| |s m e], b as [t|t| |t n g]; try discriminate; intros H.
  - apply eqb_prop in H. congruence.
  - apply eqb_prop in H. congruence.
  - reflexivity.
  - apply andb_true_iff in H. destruct H as (H & H3). apply andb_true_iff in H. destruct H as (H1 & H2).
    apply eqb_prop in H1. apply Z.eqb_eq in H2, H3. inversion H2. congruence.
Qed.

Lemma silent_false_agree rf dk src :
  silent dk src = false -> conv_src rf Strict dk src = conv_src rf Lenient dk src.
Proof.
  intros H.
  assert (T : forall s, (match dk with
                | KI k => match text_to_int Strict k s, text_to_int Lenient k s with
                          | None, None => false | Some a, Some b => negb (a =? b) | _, _ => true end
                | KF32 => match text_to_float Strict true s, text_to_float Lenient true s with
                          | None, None => false | Some a, Some b => negb (sval_eqb (VF32 a) (VF32 b)) | _, _ => true end
                | KF64 => match text_to_float Strict false s, text_to_float Lenient false s with
                          | None, None => false | Some a, Some b => negb (sval_eqb (VF64 a) (VF64 b)) | _, _ => true end
                | _ => false end) = false ->
              conv rf Strict dk (VStr s) = conv rf Lenient dk (VStr s) /\
              conv rf Strict dk (VBytes s) = conv rf Lenient dk (VBytes s)).
  { intros s Q. destruct dk as [|k| | | |]; try (split; reflexivity); cbn [conv].
    - destruct (text_to_int Strict k s) as [a|], (text_to_int Lenient k s) as [b|]; try discriminate Q; [|split; reflexivity].
      apply negb_false_iff, Z.eqb_eq in Q. subst. split; reflexivity.
    - destruct (text_to_float Strict true s) as [a|], (text_to_float Lenient true s) as [b|]; try discriminate Q; [|split; reflexivity].
      apply negb_false_iff in Q. apply float_eqb_eq in Q. subst. split; reflexivity.
    - destruct (text_to_float Strict false s) as [a|], (text_to_float Lenient false s) as [b|]; try discriminate Q; [|split; reflexivity].
      apply negb_false_iff in Q. apply float_eqb_eq in Q. subst. split; reflexivity. }
  destruct src as [v|v|k|]; try reflexivity;
    destruct v as [b|k z|f|f|s|s]; try (destruct dk; reflexivity); cbn [conv_src]; apply (T s H).
Qed.

Theorem matrix rf dcap buf dst src :
  wf_source src -> not_nil src = true -> (text_dest dst = true -> rendered rf src) ->
  (forall old, dst = DPtr old -> silent (kind_of old) src = false) ->
  result (assign true dcap buf dst src) =
  Some (match dst with
        | DPtr old => match conv_src rf Strict (kind_of old) src with
                      | Some v => (true, DPtr v)
                      | None => (false, dst)
                      end
        | DForeign => (false, dst)
        end).
Proof.
  intros W N R S.
  change (result (assign true dcap buf dst src) = Some (expect rf Strict dst src)).
  destruct (two_readings rf dcap buf dst src W N R) as [H|H]; [exact H|].
  rewrite H. destruct dst as [old|]; [|reflexivity].
  unfold expect. rewrite (silent_false_agree rf (kind_of old) src (S old eq_refl)). reflexivity.
Qed.

(* ---------- value and pointer forms ---------- *)
Theorem forms_equal strfix dcap buf dst v :
  assign strfix dcap buf dst (SVal v) = assign strfix dcap buf dst (SPtr v).
Proof.
  unfold assign, assign_buf.
  assert (B : to_bytes (SVal v) = to_bytes (SPtr v)) by (destruct v as [b|k z|f|f|s|s]; try destruct k; reflexivity).
  assert (E1 : assign_to_bytes dcap buf dst (SVal v) = assign_to_bytes dcap buf dst (SPtr v)).
  { destruct dst as [[b|k o|f|f|s|s]|]; try reflexivity;
      unfold assign_to_bytes, buffered; rewrite B; destruct v as [b|k z|f|f|t|t]; reflexivity. }
  assert (E2 : assign_to_str strfix buf dst (SVal v) = assign_to_str strfix buf dst (SPtr v)).
  { destruct dst as [[b|k o|f|f|s|s]|]; try reflexivity;
      unfold assign_to_str, buffered; rewrite B; destruct v as [b|k z|f|f|t|t]; reflexivity. }
  assert (E3 : assign_to_bool buf dst (SVal v) = assign_to_bool buf dst (SPtr v)).
  { destruct dst as [[b|k o|f|f|s|s]|]; try reflexivity; destruct v as [b'|k z|f|f|t|t]; reflexivity. }
  assert (E4 : src_int64 (SVal v) = src_int64 (SPtr v)) by (destruct v as [b|k z|f|f|s|s]; try destruct k; reflexivity).
  assert (E5 : src_uint64 (SVal v) = src_uint64 (SPtr v)) by (destruct v as [b|k z|f|f|s|s]; try destruct k; reflexivity).
  assert (E6 : src_float64 (SVal v) = src_float64 (SPtr v)) by (destruct v as [b|k z|f|f|s|s]; reflexivity).
  unfold assign_to_int, assign_to_uint, assign_to_float. rewrite E1, E2, E3, E4, E5, E6. reflexivity.
Qed.

(* ---------- text destinations: replaced, owned, in the buffer ---------- *)
Definition mk_like (old : sval) : string -> sval :=
  match old with VBytes _ => VBytes | _ => VStr end.

Theorem text_outcome_thm rf dcap buf old src v :
  text_dest (DPtr old) = true -> value_of src = Some v -> wf_sval v -> rendered rf src ->
  assign true dcap buf (DPtr old) src = text_outcome rf dcap buf (mk_like old) src v.
Proof.
  intros T V W R.
  assert (F : src = SVal v \/ src = SPtr v) by (destruct src; inversion V; auto).
  destruct old as [b|k o|f|f|s|s]; try discriminate T.
  - apply str_outcome; assumption.
  - apply bytes_outcome; assumption.
Qed.

Theorem replaces rf dcap buf old src v ok d own b :
  text_dest (DPtr old) = true -> value_of src = Some v -> wf_sval v -> rendered rf src ->
  assign true dcap buf (DPtr old) src = Done ok d own b ->
  ok = true /\ d = DPtr (mk_like old (text_of rf v)).
Proof.
  intros T V W R. rewrite (text_outcome_thm rf dcap buf old src v T V W R). unfold text_outcome.
  destruct (text_kind (kind_of v)); [|destruct buf]; intros H; inversion H; auto.
Qed.

Theorem buffered_lives_in_buffer rf dcap pre old src v :
  text_dest (DPtr old) = true -> value_of src = Some v -> text_kind (kind_of v) = false ->
  wf_sval v -> rendered rf src ->
  assign true dcap (Some pre) (DPtr old) src =
  Done true (DPtr (mk_like old (text_of rf v))) (OBuf (String.length pre)) (Some (pre ++ text_of rf v)%string).
Proof.
  intros T V K W R. rewrite (text_outcome_thm rf dcap (Some pre) old src v T V W R). unfold text_outcome.
  rewrite K. reflexivity.
Qed.

(* nothing is written on failure: by the shape of [assign] *)
Theorem untouched_on_failure strfix dcap buf dst src d own b :
  assign strfix dcap buf dst src = Done false d own b -> d = dst /\ b = buf.
Proof.
  unfold assign. destruct (assign_buf strfix dcap buf dst src) as [[e|]| |]; intros H; inversion H; auto.
Qed.

(* non-text destinations store no text and leave the buffer alone *)
Lemma int_effect buf dst src e : assign_to_int buf dst src = Ret (Some e) -> e_own e = ONone /\ e_buf e = buf.
Proof.
  unfold assign_to_int. destruct (src_int64 src) as [[i|]| |]; cbn [bind]; try discriminate.
  destruct dst as [[b|k o|f|f|s|s]|]; try discriminate. destruct k; try discriminate; intros H; inversion H; auto.
Qed.
Lemma uint_effect buf dst src e : assign_to_uint buf dst src = Ret (Some e) -> e_own e = ONone /\ e_buf e = buf.
Proof.
  unfold assign_to_uint. destruct (src_uint64 src) as [[i|]| |]; cbn [bind]; try discriminate.
  destruct dst as [[b|k o|f|f|s|s]|]; try discriminate. destruct k; try discriminate; intros H; inversion H; auto.
Qed.
Lemma float_effect buf dst src e : assign_to_float buf dst src = Ret (Some e) -> e_own e = ONone /\ e_buf e = buf.
Proof.
  unfold assign_to_float. destruct (src_float64 src) as [[i|]| |]; cbn [bind]; try discriminate.
  destruct dst as [[b|k o|f|f|s|s]|]; try discriminate; intros H; inversion H; auto.
Qed.
Lemma bool_effect buf dst src e : assign_to_bool buf dst src = Ret (Some e) -> e_own e = ONone /\ e_buf e = buf.
Proof.
  destruct dst as [[b|k o|f|f|s|s]|]; try discriminate.
  destruct src as [v|v|k|]; try destruct v as [b'|k z|f|f|s|s]; try destruct k; cbn; try discriminate; intros H; inversion H; auto.
Qed.

Theorem nontext_effect dcap buf dst src ok d own b :
  text_dest dst = false -> not_nil src = true ->
  assign true dcap buf dst src = Done ok d own b -> own = ONone /\ b = buf.
Proof.
  intros T N. unfold assign.
  destruct dst as [[b0|k o|f|f|s|s]|]; try discriminate T.
  - rewrite buf_bool by exact N.
    destruct (assign_to_bool buf (DPtr (VBool b0)) src) as [[e|]| |] eqn:E; intros H; inversion H; subst; auto.
    apply (bool_effect _ _ _ _ E).
  - destruct (is_signed k) eqn:S.
    + rewrite buf_signed by assumption.
      destruct (assign_to_int buf (DPtr (VInt k o)) src) as [[e|]| |] eqn:E; intros H; inversion H; subst; auto.
      apply (int_effect _ _ _ _ E).
    + rewrite buf_unsigned by assumption.
      destruct (assign_to_uint buf (DPtr (VInt k o)) src) as [[e|]| |] eqn:E; intros H; inversion H; subst; auto.
      apply (uint_effect _ _ _ _ E).
  - rewrite buf_float by (auto; reflexivity).
    destruct (assign_to_float buf (DPtr (VF32 f)) src) as [[e|]| |] eqn:E; intros H; inversion H; subst; auto.
    apply (float_effect _ _ _ _ E).
  - rewrite buf_float by (auto; reflexivity).
    destruct (assign_to_float buf (DPtr (VF64 f)) src) as [[e|]| |] eqn:E; intros H; inversion H; subst; auto.
    apply (float_effect _ _ _ _ E).
  - rewrite buf_foreign by exact N. intros H; inversion H; auto.
Qed.

Theorem owner_allowed rf dcap buf dst src v' own b :
  wf_source src -> not_nil src = true -> (text_dest dst = true -> rendered rf src) ->
  assign true dcap buf dst src = Done true (DPtr v') own b ->
  In (own, b) (owners_allowed (kind_of v') src buf (stored_text (DPtr v'))).
Proof.
  intros W N R H.
  pose proof (two_readings rf dcap buf dst src W N R) as TR.
  destruct (text_dest dst) eqn:T.
  - destruct dst as [old|]; [|discriminate T].
    destruct src as [v|v|k|]; try discriminate N.
    + rewrite (text_outcome_thm rf dcap buf old (SVal v) v T eq_refl W (R eq_refl)) in H.
      unfold text_outcome in H. unfold owners_allowed, scalar_src.
      destruct old as [b0|k o|f|f|s|s]; try discriminate T; cbn [mk_like] in H;
        (destruct (text_kind (kind_of v)) eqn:K; [|destruct buf]; inversion H; subst; cbn; rewrite ?K; cbn; auto;
         destruct (slen (text_of rf v) <=? dcap); auto).
    + rewrite (text_outcome_thm rf dcap buf old (SPtr v) v T eq_refl W (R eq_refl)) in H.
      unfold text_outcome in H. unfold owners_allowed, scalar_src.
      destruct old as [b0|k o|f|f|s|s]; try discriminate T; cbn [mk_like] in H;
        (destruct (text_kind (kind_of v)) eqn:K; [|destruct buf]; inversion H; subst; cbn; rewrite ?K; cbn; auto;
         destruct (slen (text_of rf v) <=? dcap); auto).
    + destruct old as [b0|k o|f|f|s|s]; try discriminate T.
      * rewrite (proj2 (text_foreign dcap buf s)) in H. discriminate H.
      * rewrite (proj1 (text_foreign dcap buf s)) in H. discriminate H.
  - destruct (nontext_effect dcap buf dst src true (DPtr v') own b T N H) as (A & B). subst.
    assert (K : text_kind (kind_of v') = false).
    { destruct TR as [Q|Q]; rewrite H in Q; cbn [result] in Q;
        destruct dst as [old|]; try discriminate T; cbn [expect] in Q; try discriminate Q;
        destruct (conv_src rf _ (kind_of old) src) as [v|] eqn:C; inversion Q; subst;
        destruct src as [w|w|k|]; try discriminate C; cbn [conv_src] in C;
        destruct old as [b0|k o|f|f|s|s]; try discriminate T; cbn [kind_of conv] in C;
        destruct w; try discriminate C;
        try (destruct (Bool.eqb _ _); inversion C; reflexivity);
        try (inversion C; reflexivity);
        try (destruct (text_to_int _ _ _); inversion C; reflexivity);
        try (destruct (text_to_float _ _ _); inversion C; reflexivity). }
    unfold owners_allowed. rewrite K. cbn. auto.
Qed.

(* ---------- typed nil pointers ---------- *)
Definition nil_refused (dst : dest) (k : skind) : bool :=
  match k with
  | KB => match dst with DPtr (VBool _) | DPtr (VStr _) | DPtr (VBytes _) => false | _ => true end
  | _ => false
  end.

Theorem nil_source strfix dcap buf dst k :
  assign strfix dcap buf dst (SNil k) =
  if nil_refused dst k then Done false dst ONone buf else Panicked NilDeref.
Proof.
  destruct dst as [[b|kd o|f|f|s|s]|]; destruct k as [|k| | | |]; try destruct kd; try destruct k; destruct buf; reflexivity.
Qed.

(* ---------- the pinned commit (strfix = false) differs in one place only ---------- *)
Definition appending_case (buf : option string) (dst : dest) (src : source) : bool :=
  match buf, dst with
  | None, DPtr (VStr _) => scalar_src src
  | _, _ => false
  end.

Theorem old_code_elsewhere dcap buf dst src :
  appending_case buf dst src = false ->
  assign false dcap buf dst src = assign true dcap buf dst src.
Proof.
  intros A. unfold assign, assign_buf.
  assert (E : assign_to_str false buf dst src = assign_to_str true buf dst src).
  { destruct dst as [[b|k o|f|f|s|s]|]; try reflexivity.
    destruct buf as [pre|].
    - destruct src as [v|v|k|]; try destruct v as [b|k z|f|f|t|t]; try destruct k as [|k| | | |]; try destruct k; reflexivity.
    - destruct src as [v|v|k|]; try destruct v as [b|k z|f|f|t|t]; try destruct k as [|k| | | |]; try destruct k; try discriminate A; reflexivity. }
  rewrite E. reflexivity.
Qed.
