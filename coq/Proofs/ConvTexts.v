(* Proofs/ConvTexts.v - the buffer's side of a history of Set / SetWithBuffer calls (Model/SetHist.v).

   Every buffered conversion of a scalar into a string or []byte element is one operation of the
   ByteBuffer model (Model/Buffer.v: OAssignStr / OAssignBytes = AcquireBytes, append of the rendered
   text, ReleaseBytes, a view of the new region stored in the element).  Whatever happened to the
   buffer before ([pre]: any operations - it may be fresh, presized, used by somebody else, reset),
   a sequence of such conversions hands out one text per conversion, and AFTER THE WHOLE SEQUENCE
   every one of them still reads as it was rendered: a later conversion never writes into the
   region of an earlier one.  (Quantified over all sequences, hence true after every prefix.)
   This is the fact that makes the history of the object the one-call model iterated. *)
From Coq Require Import List Bool Ascii Arith Lia.
From Verif Require Import Util Buffer BufferInv.
Import ListNotations.

(* one buffered conversion: (the destination is a string?, the rendered text, the growth oracle of append) *)
Definition bconv := (bool * list ascii * nat)%type.

Definition conv_op (c : bconv) : op :=
  let '(isstr, d, e) := c in if isstr then OAssignStr d e else OAssignBytes d e.

Definition conv_ops (cs : list bconv) : list op := map conv_op cs.

Lemma conv_step_log c st :
  exists x, st_log (step true st (conv_op c)) = st_log st ++ [x] /\
            hd_str x = fst (fst c) /\ hd_live x = true /\ hd_want x = snd (fst c).
Proof.
  destruct c as [[isstr d] e]. cbn [conv_op fst snd].
  destruct isstr; cbn [step]; unfold bufferize1;
    destruct (append (st_heap st) (st_bb st) d e) as [h' bb']; cbn [st_log];
    eexists; (split; [reflexivity|]); cbn [mk_hand hd_str hd_live hd_want]; auto.
Qed.

Lemma conv_ops_prefix cs : forall st, exists l, st_log (fold_left (step true) (conv_ops cs) st) = st_log st ++ l.
Proof.
  induction cs as [|c r IH]; intros st; [exists []; rewrite app_nil_r; reflexivity|].
  cbn [conv_ops map fold_left]. destruct (IH (step true st (conv_op c))) as (l & E).
  destruct (conv_step_log c st) as (x & L & _). unfold conv_ops in E. rewrite E, L, <- app_assoc. eauto.
Qed.

Lemma conv_ops_log : forall cs st k isstr d e,
  nth_error cs k = Some (isstr, d, e) ->
  exists x, nth_error (st_log (fold_left (step true) (conv_ops cs) st)) (List.length (st_log st) + k) = Some x /\
            hd_str x = isstr /\ hd_live x = true /\ hd_want x = d.
Proof.
  induction cs as [|c r IH]; intros st k isstr d e NT; [destruct k; discriminate|].
  cbn [conv_ops map fold_left]. destruct (conv_step_log c st) as (x & L & HS & LV & WN).
  destruct k as [|k].
  - cbn [nth_error] in NT. inversion NT; subst c. cbn [fst snd] in *.
    destruct (conv_ops_prefix r (step true st (conv_op (isstr, d, e)))) as (l & E).
    exists x. unfold conv_ops in E. rewrite E, L, <- app_assoc, Nat.add_0_r.
    rewrite nth_error_app2 by lia. rewrite Nat.sub_diag. cbn [app nth_error]. auto.
  - cbn [nth_error] in NT.
    destruct (IH (step true st (conv_op c)) k isstr d e NT) as (y & N & A).
    exists y. split; [|exact A]. rewrite L, app_length in N. cbn [List.length] in N.
    replace (List.length (st_log st) + S k) with (List.length (st_log st) + 1 + k) by lia. exact N.
Qed.

(* every text handed out by the conversions is intact after all of them *)
Theorem conv_texts_stable : forall cs pre size k isstr d e,
  nth_error cs k = Some (isstr, d, e) ->
  exists x,
    nth_error (st_log (run true size (pre ++ conv_ops cs))) (List.length (st_log (run true size pre)) + k) = Some x /\
    hd_str x = isstr /\ hd_live x = true /\
    read (st_heap (run true size (pre ++ conv_ops cs))) (hd_sl x) = d.
Proof.
  intros cs pre size k isstr d e NT.
  assert (RUN : run true size (pre ++ conv_ops cs) = fold_left (step true) (conv_ops cs) (run true size pre)).
  { unfold run. apply fold_left_app. }
  destruct (conv_ops_log cs (run true size pre) k isstr d e NT) as (x & N & HS & LV & WN).
  exists x. rewrite RUN. split; [exact N|]. split; [exact HS|]. split; [exact LV|].
  rewrite <- RUN. rewrite <- WN. apply (content_stable size (pre ++ conv_ops cs) (List.length (st_log (run true size pre)) + k) x); auto.
  rewrite RUN. exact N.
Qed.
