(* Proofs/StringsMain.v - the statements of property C17, assembled from
   StringsOps / StringsHist / StringsKeys. *)
From Coq Require Import ZArith NArith List Bool Ascii String Lia.
From Verif Require Import Util Strconv Strings StringsSpec StringsOps StringsHist StringsKeys.
Import ListNotations.
Local Open Scope Z_scope.

Lemma elem_at_some_range a i t : elem_at a i = Some t -> in_range a i = true.
Proof. unfold elem_at. destruct (in_range a i); [reflexivity|discriminate]. Qed.
Lemma elem_at_none_range a i : elem_at a i = None -> in_range a i = false.
Proof.
  unfold elem_at. destruct (in_range a i) eqn:R; [|reflexivity]. intros H. exfalso.
  unfold in_range in R. apply andb_true_iff in R. destruct R as (A & B). apply Z.leb_le in A. apply Z.ltb_lt in B.
  apply nth_error_None in H. lia.
Qed.

(* ---- addressing ---- *)
Lemma get_addresses w x p i t : good x = true -> atoi p = Some i -> elem_at (abs x) i = Some t ->
  si_get_to w x [p] = Ret (Some (mkref (rep_of x) i)) None /\ deref x (mkref (rep_of x) i) = Some t.
Proof. intros G Hp E. rewrite (get_char w x p i G Hp), E, deref_mkref. auto. Qed.

Lemma compare_addresses w x p i t : good x = true -> atoi p = Some i -> elem_at (abs x) i = Some t ->
  forall c r, si_compare w x (op_of c) r [p] = Ret (Some (native_cmp c t r)) None.
Proof.
  intros G Hp E c r. rewrite (compare_char w x c r p i G Hp).
  - unfold compare_at. rewrite E. reflexivity.
  - right. apply elem_at_some_range in E. unfold abs in E. rewrite in_range_abs in E.
    apply andb_true_iff in E. destruct E as (_ & B). apply Z.ltb_lt in B. exact B.
Qed.

Lemma length_addresses w x p i t : good x = true -> atoi p = Some i -> elem_at (abs x) i = Some t ->
  si_length w x [p] = Ret (Wrote (Z.of_nat (List.length t))) None.
Proof. intros G Hp E. rewrite (length_char w x p i G Hp). unfold length_at. rewrite E. reflexivity. Qed.

Lemma capacity_addresses w x p i t : good x = true -> atoi p = Some i -> elem_at (abs x) i = Some t ->
  match rep_of x with
  | PP => exists e, znth (elems_of x) i = Some e /\ e_data e = t /\ si_capacity w x [p] = Ret (Wrote (e_cap e)) None
  | SS => si_capacity w x [p] = Ret NotWritten None
  end.
Proof.
  intros G Hp E. rewrite (capacity_char w x p i G Hp). unfold abs in E. rewrite elem_at_abs in E.
  destruct (rep_of x); [reflexivity|].
  destruct (znth (elems_of x) i) as [e|]; [|discriminate]. cbn in E. inversion E. eauto.
Qed.

(* ---- Set ---- *)
Lemma set_exact w x ptr t p i nid : good x = true -> atoi p = Some i -> in_range (abs x) i = true ->
  v_set_empty w = true \/ t_data t <> [] ->
  exists x', si_set_with_buffer w x (own_text (rep_of x) ptr t) [p] nid = Ret (x', nid + 1) None /\
    abs x' = replace_at (abs x) i (t_data t) /\
    shape x' = shape x /\
    znth (elems_of x') i = Some (buffered nid (t_data t)) /\
    forall j, j <> i -> znth (elems_of x') j = znth (elems_of x) j.
Proof.
  intros G Hp R Hw. rewrite (set_char w x ptr t p i nid G Hp Hw), R.
  pose proof R as R'. unfold abs in R'. rewrite in_range_abs in R'. apply andb_true_iff in R'. destruct R' as (A & B).
  apply Z.leb_le in A. apply Z.ltb_lt in B.
  eexists. split; [reflexivity|]. split; [|split; [|split]].
  - pose proof (replace_at_abs x i (buffered nid (t_data t)) G) as K. rewrite R in K. exact K.
  - apply shape_put_elems. apply upd_nth_length.
  - rewrite (elems_put_elems _ _ G). apply znth_upd_eq; assumption.
  - intros j Hj. rewrite (elems_put_elems _ _ G). apply znth_upd_neq; assumption.
Qed.

Definition ss_of (ids : list (Z * string)) : sq :=
  {| q_rep := SS; q_nil := false;
     q_elems := map (fun p => {| e_id := fst p; e_data := bytes_of_string (snd p); e_cap := zlen (bytes_of_string (snd p)) |}) ids;
     q_cap := Some (zlen ids) |}.

Lemma refuted_set_empty :
  exists x ptr t p i nid, good x = true /\ atoi p = Some i /\ in_range (abs x) i = true /\
    forall x' n e, si_set_with_buffer pinned x (own_text (rep_of x) ptr t) [p] nid = Ret (x', n) e ->
                   abs x' <> replace_at (abs x) i (t_data t).
Proof.
  exists (APtr (ss_of [(1, "foo"%string); (2, "bar"%string)])), false, {| t_id := 3; t_data := [] |}, "1"%string, 1, 4.
  split; [reflexivity|]. split; [reflexivity|]. split; [reflexivity|].
  intros x' n e H. vm_compute in H. inversion H. subst. vm_compute. discriminate.
Qed.

(* ---- out of range, unparsable ---- *)
Lemma compare_out w x o r p i : good x = true -> atoi p = Some i -> elem_at (abs x) i = None ->
  v_cmp_guard w = true \/ i < 0 -> si_compare w x o r [p] = Ret None None.
Proof.
  intros G Hp E Hw. unfold si_compare. rewrite (sp_good w _ G), Hp.
  apply elem_at_none_range in E. unfold abs in E. rewrite in_range_abs in E.
  set (l := elems_of x) in *.
  destruct (Z.ltb_spec i 0) as [N|N]; [destruct (rep_of x); reflexivity|].
  destruct Hw as [Hw|Hw]; [|lia].
  replace (0 <=? i) with true in E by (symmetry; apply Z.leb_le; lia). cbn [andb] in E. apply Z.ltb_ge in E.
  destruct (rep_of x); cbv beta iota; rewrite ?g2_nil, (g2_out l i E), Hw; reflexivity.
Qed.

Lemma out_of_range_noop w x p i : good x = true -> atoi p = Some i -> elem_at (abs x) i = None ->
  si_get_to w x [p] = Ret None None /\
  (forall o r, si_compare fixed x o r [p] = Ret None None) /\
  si_length w x [p] = Ret NotWritten None /\
  si_capacity w x [p] = Ret NotWritten None /\
  (forall w' v nid, si_set_with_buffer w' x v [p] nid = Ret (x, nid) None).
Proof.
  intros G Hp E. split; [|split; [|split; [|split]]].
  - rewrite (get_char w x p i G Hp), E. reflexivity.
  - intros o r. apply (compare_out fixed x o r p i G Hp E). left; reflexivity.
  - rewrite (length_char w x p i G Hp). unfold length_at. rewrite E. reflexivity.
  - rewrite (capacity_char w x p i G Hp). unfold abs in E. rewrite elem_at_abs in E.
    destruct (rep_of x); [reflexivity|]. destruct (znth (elems_of x) i); [discriminate|reflexivity].
  - intros w' v nid. apply (set_out_of_range w' x v p i nid G Hp). apply elem_at_none_range. exact E.
Qed.

Lemma refuted_compare_out_of_range :
  exists x p i o r, good x = true /\ atoi p = Some i /\ elem_at (abs x) i = None /\
    si_compare pinned x o r [p] = Ret (Some true) None.
Proof.
  exists (AVal (ss_of [(1, "foo"%string); (2, "bar"%string)])), "2"%string, 2, OpNq, (bytes_of_string "x").
  repeat split; vm_compute; reflexivity.
Qed.

Lemma unparsable_noop w x p : good x = true -> atoi p = None ->
  si_get_to w x [p] = Ret None (Some EAtoi) /\
  (forall o r, si_compare w x o r [p] = Ret None (Some EAtoi)) /\
  si_length w x [p] = Ret NotWritten (Some EAtoi) /\
  si_capacity w x [p] = Ret NotWritten (Some EAtoi) /\
  (forall v nid, si_set_with_buffer w x v [p] nid = Ret (x, nid) (Some EAtoi)).
Proof.
  intros G Hp. split; [|split; [|split; [|split]]].
  - apply get_unparsable; assumption.
  - intros. apply compare_unparsable; assumption.
  - apply length_unparsable; assumption.
  - apply capacity_unparsable; assumption.
  - intros. apply set_unparsable; assumption.
Qed.

(* ---- Loop ---- *)
Lemma loop_char_it w x it : good x = true ->
  si_loop w x it [] = Ret (loop_from (mkref (rep_of x)) it 0 (List.length (elems_of x))) None.
Proof.
  intros G. unfold si_loop. rewrite (sp_good w _ G).
  destruct (rep_of x); cbv beta iota; change (0 <? zlen (@nil elem)) with false; cbv iota;
    destruct (elems_of x) as [|e l]; reflexivity.
Qed.

Lemma loop_order_keys w x : good x = true ->
  exists vs, si_loop w x it_all [] = Ret vs None /\
    map (visit_text x) vs = loop_all (abs x) /\
    List.length vs = List.length (abs x) /\
    forall k, (k < List.length (abs x))%nat ->
      nth_error vs k = Some {| vi_key := Some (Z_to_string (Z.of_nat k)); vi_val := mkref (rep_of x) (Z.of_nat k) |}.
Proof.
  intros G. eexists. split; [apply loop_char; exact G|].
  assert (L : List.length (abs x) = List.length (elems_of x)) by (unfold abs, abs_elems; apply map_length).
  split; [exact (loop_visits_suffix x (rep_of x) (elems_of x) [] eq_refl)|].
  split; [rewrite loop_from_length; auto|].
  intros k Hk. rewrite loop_from_nth by lia. reflexivity.
Qed.

Lemma loop_break w x want b : good x = true -> (b < List.length (abs x))%nat ->
  si_loop w x {| it_want := want; it_ctl := fun k => if Nat.eqb k b then CtlBrk else CtlCnt |} [] =
  Ret (firstn (S b) (loop_from (mkref (rep_of x)) {| it_want := want; it_ctl := fun _ => CtlNone |} 0 (List.length (abs x)))) None.
Proof.
  intros G Hb.
  assert (L : List.length (abs x) = List.length (elems_of x)) by (unfold abs, abs_elems; apply map_length).
  rewrite (loop_char_it w _ _ G), L.
  rewrite <- (loop_from_break (mkref (rep_of x)) want (List.length (elems_of x)) 0 b) by lia. reflexivity.
Qed.

(* ---- DeepEqual ---- *)
Lemma deq_iff w x y : good x = true -> good y = true ->
  v_deq_empty w = true \/ abs x <> [] \/ abs y <> [] ->
  exists b, si_deep_equal w x y = Ret b None /\ (b = true <-> abs x = abs y).
Proof.
  intros Gx Gy Hw. eexists. split; [apply deq_char; assumption|]. apply seq_equal_iff.
Qed.

Lemma refuted_deq_empty :
  exists x y, good x = true /\ good y = true /\ abs x = abs y /\ si_deep_equal pinned x y = Ret false None.
Proof.
  exists (AVal (ss_of [])), (APtr {| q_rep := PP; q_nil := true; q_elems := []; q_cap := Some 0 |}).
  repeat split; reflexivity.
Qed.

(* ---- CopyTo / Copy ---- *)
Lemma copyto_appends_fresh w src d nid : good src = true ->
  exists d' cs,
    si_copy_to w src (APtr d) nid = Ret (APtr d', nid + zlen (elems_of src)) None /\
    q_elems d' = q_elems d ++ cs /\ q_rep d' = q_rep d /\
    abs_elems cs = abs src /\
    (forall c, In c cs -> nid <= e_id c < nid + zlen (elems_of src)) /\
    NoDup (map e_id cs) /\
    (forall c, In c cs -> e_cap c = zlen (e_data c)) /\
    ((forall e, In e (elems_of src) -> e_id e < nid) ->
     forall c e, In c cs -> In e (elems_of src) -> e_id c <> e_id e).
Proof.
  intros G. exists (append_all d (copies (elems_of src) nid)), (copies (elems_of src) nid).
  split; [apply copy_to_char; exact G|].
  split; [apply elems_append_all|]. split; [apply rep_append_all|].
  split; [unfold abs, abs_elems; apply copies_data|].
  split; [apply copies_ids|]. split; [apply copies_nodup|]. split; [apply copies_cap|].
  intros Hb c e Hc He. apply copies_ids in Hc. specialize (Hb e He). lia.
Qed.

Lemma copy_equal w x nid : good x = true ->
  exists d, si_copy w x nid = Ret (d, nid + zlen (elems_of x)) None /\ q_rep d = SS /\ abs_elems (q_elems d) = abs x.
Proof.
  intros G. eexists. split; [apply copy_char; exact G|]. split; [apply rep_append_all|].
  rewrite abs_append_all. cbn [nil_sq q_elems abs_elems map app]. unfold abs, abs_elems. apply copies_data.
Qed.

(* ---- Reset ---- *)
Lemma reset_truncates w s :
  exists s', si_reset w (APtr s) = Ret (APtr s') None /\ q_elems s' = [] /\
             q_rep s' = q_rep s /\ q_cap s' = q_cap s /\ q_nil s' = q_nil s.
Proof. eexists. split; [apply reset_ptr|]. repeat split; reflexivity. Qed.

(* ---- instances used by Properties/C17.v ---- *)
Lemma set_exact_fixed x ptr t p i nid : good x = true -> atoi p = Some i -> in_range (abs x) i = true ->
  exists x', si_set_with_buffer fixed x (own_text (rep_of x) ptr t) [p] nid = Ret (x', nid + 1) None /\
    abs x' = replace_at (abs x) i (t_data t) /\
    shape x' = shape x /\
    znth (elems_of x') i = Some (buffered nid (t_data t)) /\
    forall j, j <> i -> znth (elems_of x') j = znth (elems_of x) j.
Proof. intros G Hp R. exact (set_exact fixed x ptr t p i nid G Hp R (or_introl eq_refl)). Qed.

Lemma set_exact_nonempty w x ptr t p i nid : good x = true -> atoi p = Some i -> in_range (abs x) i = true ->
  t_data t <> [] ->
  exists x', si_set_with_buffer w x (own_text (rep_of x) ptr t) [p] nid = Ret (x', nid + 1) None /\
    abs x' = replace_at (abs x) i (t_data t) /\
    shape x' = shape x /\
    znth (elems_of x') i = Some (buffered nid (t_data t)) /\
    forall j, j <> i -> znth (elems_of x') j = znth (elems_of x) j.
Proof. intros G Hp R Ht. exact (set_exact w x ptr t p i nid G Hp R (or_intror Ht)). Qed.

Lemma compare_negative_noop w x o r p i :
  good x = true -> atoi p = Some i -> i < 0 -> si_compare w x o r [p] = Ret None None.
Proof.
  intros G Hp N. apply (compare_out w x o r p i G Hp); [|right; exact N].
  rewrite elem_at_znth. apply znth_out. left; exact N.
Qed.

Lemma deq_iff_fixed x y : good x = true -> good y = true ->
  exists b, si_deep_equal fixed x y = Ret b None /\ (b = true <-> abs x = abs y).
Proof. intros Gx Gy. exact (deq_iff fixed x y Gx Gy (or_introl eq_refl)). Qed.

Lemma deq_iff_nonempty w x y : good x = true -> good y = true -> abs x <> [] \/ abs y <> [] ->
  exists b, si_deep_equal w x y = Ret b None /\ (b = true <-> abs x = abs y).
Proof. intros Gx Gy H. exact (deq_iff w x y Gx Gy (or_intror H)). Qed.

(* ---- a foreign dynamic type: no effect, false, or "unsupported type" ---- *)
Lemma foreign_refused w :
  (forall p, si_get_to w AForeign p = Ret None None) /\
  (forall v p nid, si_set_with_buffer w AForeign v p nid = Ret (AForeign, nid) None) /\
  (forall o r p, si_compare w AForeign o r p = Ret None None) /\
  (forall it p, si_loop w AForeign it p = Ret [] None) /\
  (forall p, si_length w AForeign p = Ret NotWritten None) /\
  (forall p, si_capacity w AForeign p = Ret NotWritten None) /\
  (forall y, si_deep_equal w AForeign y = Ret false None) /\
  (forall x, good x = true -> si_deep_equal w x AForeign = Ret false None) /\
  (forall d nid, si_copy_to w AForeign d nid = Ret (d, nid) (Some EUnsupported)) /\
  (forall x nid, good x = true -> si_copy_to w x AForeign nid = Ret (AForeign, nid) (Some EUnsupported)) /\
  si_reset w AForeign = Ret AForeign None.
Proof.
  repeat split; intros; try reflexivity.
  - destruct p as [|? [|? ?]]; reflexivity.
  - destruct p as [|? [|? ?]]; reflexivity.
  - destruct p as [|? [|? ?]]; reflexivity.
  - destruct p; reflexivity.
  - unfold si_deep_equal. rewrite (sp_good w _ H). destruct (rep_of x); reflexivity.
  - unfold si_copy_to. rewrite (sp_good w _ H). destruct (rep_of x); reflexivity.
Qed.
