(* Proofs/LoopKeys.v - the key text Loop hands over parses back to the key:
   for every string key, and for every key of the ten integer kinds
   (strconv.AppendInt/AppendUint base 10 read back by ParseInt/ParseUint base 0),
   by induction on the decimal digits - no bound.  Float keys: pointwise on the
   exact-decimal domain (examples in Properties/C09.v). *)
From Coq Require Import List Bool String Ascii ZArith NArith Arith Lia.
From Verif Require Import Util Ints Strconv Floats Node Value Outcome Nav Loop LoopSpec LCSound LoopSound.
Import ListNotations.
Local Open Scope string_scope.

Lemma digit_ok x : (x < 10)%N ->
  digit_val (digit_char x) = Some (Z.of_N x) /\ is_underscore (digit_char x) = false /\ code (digit_char x) = (48 + Z.of_N x)%Z.
Proof.
  intros H.
  assert (E : (x = 0 \/ x = 1 \/ x = 2 \/ x = 3 \/ x = 4 \/ x = 5 \/ x = 6 \/ x = 7 \/ x = 8 \/ x = 9)%N) by lia.
  repeat (destruct E as [E|E]; [subst; vm_compute; auto|]). subst; vm_compute; auto.
Qed.

(* pos_digits, one step *)
Lemma pos_digits_S f n acc :
  pos_digits (S f) n acc =
  if N.eqb (N.div n 10) 0 then String (digit_char (N.modulo n 10)) acc
  else pos_digits f (N.div n 10) (String (digit_char (N.modulo n 10)) acc).
Proof. reflexivity. Qed.

Lemma pu_digit x r m u : (x < 10)%N ->
  pu_loop (String (digit_char x) r) 10 true m u = pu_loop r 10 true (m * 10 + Z.of_N x)%Z u.
Proof.
  intros H. destruct (digit_ok x H) as (D & U & _). cbn [pu_loop]. rewrite U, D. cbn [andb].
  replace (Z.of_N x <? 10)%Z with true by (symmetry; apply Z.ltb_lt; lia). reflexivity.
Qed.

(* reading back what pos_digits wrote: the digits of n in front of acc *)
Lemma pu_pos_digits : forall f n acc, (n < 10 ^ N.of_nat (S f))%N ->
  exists k, forall m u,
    pu_loop (pos_digits (S f) n acc) 10 true m u = pu_loop acc 10 true (m * 10 ^ k + Z.of_N n)%Z u /\ (0 <= k)%Z.
Proof.
  induction f as [|f IH]; intros n acc H.
  - exists 1%Z. intros m u. rewrite pos_digits_S.
    assert (n < 10)%N by (simpl in H; lia).
    rewrite (N.div_small n 10) by lia. cbn [N.eqb]. rewrite N.mod_small by lia.
    rewrite pu_digit by lia. split; [f_equal; lia|lia].
  - rewrite pos_digits_S.
    assert (MOD : (n mod 10 < 10)%N) by (apply N.mod_lt; lia).
    destruct (N.eqb (n / 10) 0) eqn:Q.
    + exists 1%Z. intros m u. apply N.eqb_eq in Q.
      assert (n < 10)%N. { apply N.div_small_iff in Q; lia. }
      rewrite N.mod_small by lia. rewrite pu_digit by lia. split; [f_equal; lia|lia].
    + assert (QL : (n / 10 < 10 ^ N.of_nat (S f))%N).
      { apply N.div_lt_upper_bound; [lia|]. rewrite <- N.pow_succ_r'. replace (N.succ (N.of_nat (S f))) with (N.of_nat (S (S f))) by lia. exact H. }
      destruct (IH (n / 10)%N (String (digit_char (n mod 10)) acc) QL) as (k & K).
      exists (k + 1)%Z. intros m u. destruct (K m u) as (K1 & K2). rewrite K1. rewrite pu_digit by exact MOD.
      split; [|lia]. f_equal. rewrite Z.pow_add_r by lia.
      assert (DM : Z.of_N n = (10 * Z.of_N (n / 10) + Z.of_N (n mod 10))%Z).
      { rewrite <- (N2Z.inj_mul 10), <- N2Z.inj_add. f_equal. apply N.div_mod. discriminate. }
      rewrite DM. change (10 ^ 1)%Z with 10%Z. ring.
Qed.

(* the first character is a non-zero digit *)
Lemma pos_digits_head : forall f n acc, (1 <= n)%N -> (n < 10 ^ N.of_nat (S f))%N ->
  exists d r, pos_digits (S f) n acc = String (digit_char d) r /\ (1 <= d < 10)%N.
Proof.
  induction f as [|f IH]; intros n acc L H; rewrite pos_digits_S.
  - assert (n < 10)%N by (simpl in H; lia).
    rewrite (N.div_small n 10) by lia. cbn [N.eqb]. rewrite N.mod_small by lia. exists n, acc. split; auto; lia.
  - destruct (N.eqb (n / 10) 0) eqn:Q.
    + apply N.eqb_eq in Q. assert (n < 10)%N by (apply N.div_small_iff in Q; lia).
      rewrite N.mod_small by lia. exists n, acc. split; auto; lia.
    + apply N.eqb_neq in Q. apply IH; [destruct (n / 10)%N; [congruence|lia]|].
      apply N.div_lt_upper_bound; [lia|]. rewrite <- N.pow_succ_r'. replace (N.succ (N.of_nat (S f))) with (N.of_nat (S (S f))) by lia. exact H.
Qed.

Lemma fuel_enough n : (n < 10 ^ N.of_nat (S (N.to_nat (N.size n))))%N.
Proof.
  replace (N.of_nat (S (N.to_nat (N.size n)))) with (N.succ (N.size n)) by lia.
  destruct n as [|p]; [vm_compute; reflexivity|].
  eapply N.lt_le_trans; [apply N.size_gt|].
  eapply N.le_trans; [apply (N.pow_le_mono_l 2 10 (N.size (N.pos p))); lia|].
  apply N.pow_le_mono_r; lia.
Qed.

(* strconv.ParseUint(decimal text of n, 0, bits) = n *)
Lemma parse_uint_decimal n maxv : (Z.of_N n <= maxv)%Z ->
  parse_uint (N_to_string n) 0 maxv = Some (Z.of_N n).
Proof.
  intros LE. destruct (N.eq_dec n 0) as [->|NZ].
  - vm_compute N_to_string. unfold parse_uint. cbn. replace (0 <=? maxv)%Z with true by (symmetry; apply Z.leb_le; exact LE). reflexivity.
  - unfold N_to_string.
    destruct (pos_digits_head (N.to_nat (N.size n)) n "" ltac:(lia) (fuel_enough n)) as (d & r & E & D).
    destruct (pu_pos_digits (N.to_nat (N.size n)) n "" (fuel_enough n)) as (k & K).
    destruct (K 0%Z false) as (K1 & _). rewrite E in *.
    unfold parse_uint. cbn [Z.eqb].
    destruct (digit_ok d ltac:(lia)) as (_ & _ & C). rewrite C.
    replace (48 + Z.of_N d =? 48)%Z with false by (symmetry; apply Z.eqb_neq; lia).
    rewrite K1. cbn [pu_loop]. rewrite Z.mul_0_l, Z.add_0_l.
    replace (Z.of_N n <=? maxv)%Z with true by (symmetry; apply Z.leb_le; exact LE). reflexivity.
Qed.

Lemma N_to_string_head n : (1 <= n)%N -> exists d r, N_to_string n = String (digit_char d) r /\ (1 <= d < 10)%N.
Proof. intros L. unfold N_to_string. apply pos_digits_head; [exact L|apply fuel_enough]. Qed.

(* strconv.ParseInt(decimal text of z, 0, 64) = z *)
Lemma parse_int_decimal z : (- 2 ^ 63 <= z < 2 ^ 63)%Z -> parse_int (Z_to_string z) 0 64 = Some z.
Proof.
  intros R. destruct z as [|p|p].
  - vm_compute. reflexivity.
  - cbn [Z_to_string]. destruct (N_to_string_head (N.pos p) ltac:(lia)) as (d & r & E & D).
    pose proof (parse_uint_decimal (N.pos p) (2 ^ 64 - 1)%Z ltac:(simpl; lia)) as PU. rewrite E in *.
    unfold parse_int. destruct (digit_ok d ltac:(lia)) as (_ & _ & C). rewrite C.
    replace (48 + Z.of_N d =? 45)%Z with false by (symmetry; apply Z.eqb_neq; lia).
    replace (48 + Z.of_N d =? 43)%Z with false by (symmetry; apply Z.eqb_neq; lia).
    cbn [orb]. rewrite PU. simpl (Z.of_N (N.pos p)).
    replace (Z.pos p <? 2 ^ (64 - 1))%Z with true by (symmetry; apply Z.ltb_lt; simpl; lia). reflexivity.
  - cbn [Z_to_string].
    pose proof (parse_uint_decimal (N.pos p) (2 ^ 64 - 1)%Z ltac:(simpl; lia)) as PU.
    unfold parse_int. replace (code "-" =? 45)%Z with true by reflexivity. cbn [orb]. rewrite PU. simpl (Z.of_N (N.pos p)).
    replace (Z.pos p <=? 2 ^ (64 - 1))%Z with true by (symmetry; apply Z.leb_le; simpl; lia). reflexivity.
Qed.

Lemma Z_to_string_N z : (0 <= z)%Z -> Z_to_string z = N_to_string (Z.to_N z).
Proof. destruct z; intros H; try reflexivity; lia. Qed.

(* ---------- keys of a node ---------- *)
Lemma skind_ikind i : skind_of_name (ikind_name i) = Some (SInt i).
Proof. destruct i; reflexivity. Qed.

Lemma render_int_name i z : render_scalar_key (ikind_name i) (VInt z) = KT (Z_to_string z).
Proof. destruct i; reflexivity. Qed.

Lemma int_range_64 i z : in_range i z = true ->
  if is_signed i then (- 2 ^ 63 <= z < 2 ^ 63)%Z else (0 <= z <= 2 ^ 64 - 1)%Z.
Proof.
  unfold in_range, kmin, kmax. intros H. apply andb_true_iff in H. destruct H as (A & B).
  apply Z.leb_le in A. apply Z.leb_le in B. destruct i; simpl in *; lia.
Qed.

Lemma conv_int_key kn i z : n_typu kn = ikind_name i -> in_range i z = true ->
  conv_key kn (Z_to_string z) = Some (VInt z).
Proof.
  intros TU R. unfold conv_key, node_skind. rewrite TU, skind_ikind.
  pose proof (int_range_64 i z R) as B.
  destruct (is_signed i) eqn:SG.
  - unfold snippet_int. rewrite parse_int_decimal by exact B. cbn [option_map]. rewrite wrap_id by exact R. reflexivity.
  - unfold snippet_uint. rewrite Z_to_string_N by lia.
    rewrite parse_uint_decimal by (rewrite Z2N.id; lia). rewrite Z2N.id by lia.
    cbn [option_map]. rewrite wrap_id by exact R. reflexivity.
Qed.

(* every integer key, of every integer kind, pointer or not *)
Theorem key_rt_int kn i k :
  n_typ kn = typeBasic -> n_typn kn = ikind_name i -> n_typu kn = ikind_name i ->
  wtb kn k = true -> k <> VPtr None -> key_rt kn k.
Proof.
  destruct kn as [ty tn tu nm pk pki p chld mk mv sl hb hc]. cbn [n_typ n_typn n_typu].
  intros -> -> -> WT NN. cbn [wtb] in WT. rewrite skind_ikind in WT.
  unfold key_rt, render_key. cbn [n_ptr n_typn].
  destruct p.
  - destruct k as [| | | | | | | |[x|]]; try discriminate; [|congruence].
    destruct x; try discriminate. cbn [scalar_range_ok] in WT.
    exists (Z_to_string z). split; [apply render_int_name|]. cbn [named_key].
    apply (conv_int_key _ i); [reflexivity|exact WT].
  - destruct k; try discriminate. cbn [scalar_range_ok] in WT.
    exists (Z_to_string z). split; [apply render_int_name|]. cbn [named_key].
    apply (conv_int_key _ i); [reflexivity|exact WT].
Qed.

(* every string key *)
Theorem key_rt_string kn k :
  n_typ kn = typeBasic -> n_typn kn = "string" -> n_typu kn = "string" ->
  wtb kn k = true -> k <> VPtr None -> key_rt kn k.
Proof.
  destruct kn as [ty tn tu nm pk pki p chld mk mv sl hb hc]. cbn [n_typ n_typn n_typu].
  intros -> -> -> WT NN. cbn [wtb] in WT. change (skind_of_name "string") with (Some SString) in WT.
  unfold key_rt, render_key, conv_key, node_skind. cbn [n_ptr n_typn n_typu].
  change (skind_of_name "string") with (Some SString).
  destruct p.
  - destruct k as [| | | | | | | |[x|]]; try discriminate; [|congruence].
    destruct x; try discriminate. exists s. split; reflexivity.
  - destruct k; try discriminate. exists s. split; reflexivity.
Qed.

(* bool keys *)
Theorem key_rt_bool kn k :
  n_typ kn = typeBasic -> n_typn kn = "bool" -> n_typu kn = "bool" ->
  wtb kn k = true -> k <> VPtr None -> key_rt kn k.
Proof.
  destruct kn as [ty tn tu nm pk pki p chld mk mv sl hb hc]. cbn [n_typ n_typn n_typu].
  intros -> -> -> WT NN. cbn [wtb] in WT. change (skind_of_name "bool") with (Some SBool) in WT.
  unfold key_rt, render_key, conv_key, node_skind. cbn [n_ptr n_typn n_typu].
  change (skind_of_name "bool") with (Some SBool).
  destruct p.
  - destruct k as [| | | | | | | |[x|]]; try discriminate; [|congruence].
    destruct x as [b| | | | | | | |]; try discriminate. destruct b; eexists; split; reflexivity.
  - destruct k as [b| | | | | | | |]; try discriminate. destruct b; eexists; split; reflexivity.
Qed.

(* the hypothesis of the main theorem for maps with string or integer keys and no nil pointer key *)
Theorem keys_ok_plain kn vn kvs :
  n_typ kn = typeBasic ->
  (n_typn kn = "string" /\ n_typu kn = "string") \/ (exists i, n_typn kn = ikind_name i /\ n_typu kn = ikind_name i) ->
  forallb (fun kv => wtb kn (fst kv)) kvs = true ->
  (forall kv, In kv kvs -> fst kv <> VPtr None) ->
  keys_ok (LMap kn vn kvs).
Proof.
  intros TB KIND WT NN. cbn [keys_ok]. apply Forall_forall. intros kv IN.
  rewrite forallb_forall in WT. specialize (WT kv IN). specialize (NN kv IN).
  destruct KIND as [(A & B)|(i & A & B)].
  - apply key_rt_string; auto.
  - apply (key_rt_int kn i); auto.
Qed.
