(* Proofs/StringsOps.v - the model of StringsInspector (Model/Strings.v) against
   the abstract sequence of Spec/StringsSpec.v, one operation at a time.
   Every lemma is for all sequences, both representations, both argument forms,
   all indices. *)
From Coq Require Import ZArith NArith List Bool Ascii String Lia.
From Verif Require Import Util Strconv Strings StringsSpec.
Import ListNotations.
Local Open Scope Z_scope.

(* ---------- abstraction ---------- *)
Definition abs_elems (l : list elem) : aseq := map e_data l.
Definition abs (x : arg) : aseq := abs_elems (elems_of x).
Definition good (x : arg) : bool := match x with AVal _ | APtr _ => true | _ => false end.
Definition is_ptr (x : arg) : bool := match x with APtr _ => true | _ => false end.
Definition mkref (r : rep) (i : Z) : gref := match r with SS => RStr i | PP => RBytes i end.
Definition ref_idx (g : gref) : Z := match g with RStr i | RBytes i => i end.
(* what a reference handed out by Get / Loop reads *)
Definition deref (x : arg) (g : gref) : option bytes := option_map e_data (znth (elems_of x) (ref_idx g)).
(* form, representation, nil-ness, capacity, length: everything but the elements *)
Definition shape (x : arg) : option (bool * rep * bool * option Z * nat) :=
  match x with
  | AVal s => Some (false, q_rep s, q_nil s, q_cap s, List.length (q_elems s))
  | APtr s => Some (true, q_rep s, q_nil s, q_cap s, List.length (q_elems s))
  | _ => None
  end.

Definition op_of (c : cop) : op :=
  match c with CEq => OpEq | CNe => OpNq | CGt => OpGt | CGe => OpGtq | CLt => OpLt | CLe => OpLtq end.

(* ---------- lists ---------- *)
Lemma zlen_nil {A} : zlen (@nil A) = 0.
Proof. reflexivity. Qed.
Lemma zlen_nonneg {A} (l : list A) : 0 <= zlen l.
Proof. unfold zlen. lia. Qed.
Lemma zlen_map {A B} (f : A -> B) l : zlen (map f l) = zlen l.
Proof. unfold zlen. rewrite map_length. reflexivity. Qed.
Lemma zlen_app {A} (a b : list A) : zlen (a ++ b) = zlen a + zlen b.
Proof. unfold zlen. rewrite app_length. lia. Qed.

Lemma znth_map {A B} (f : A -> B) l i : znth (map f l) i = option_map f (znth l i).
Proof. unfold znth. destruct (i <? 0); [reflexivity|]. apply nth_error_map. Qed.

Lemma znth_range {A} (l : list A) i : 0 <= i -> i < zlen l -> exists e, znth l i = Some e.
Proof.
  intros H0 H1. unfold znth. destruct (Z.ltb_spec i 0); [lia|].
  destruct (nth_error l (Z.to_nat i)) eqn:E; [eauto|].
  apply nth_error_None in E. unfold zlen in H1. lia.
Qed.

Lemma znth_out {A} (l : list A) i : i < 0 \/ zlen l <= i -> znth l i = None.
Proof.
  intros H. unfold znth. destruct (Z.ltb_spec i 0); [reflexivity|].
  apply nth_error_None. unfold zlen in H. lia.
Qed.

Lemma elem_at_znth a i : elem_at a i = znth a i.
Proof.
  unfold elem_at, in_range, znth.
  destruct (Z.leb_spec 0 i); destruct (Z.ltb_spec i 0); try lia; cbn [andb]; [|reflexivity].
  destruct (Z.ltb_spec i (Z.of_nat (List.length a))); [reflexivity|].
  symmetry. apply nth_error_None. lia.
Qed.

Lemma in_range_abs l i : in_range (abs_elems l) i = (0 <=? i) && (i <? zlen l).
Proof. unfold in_range, abs_elems, zlen. rewrite map_length. reflexivity. Qed.

Lemma elem_at_abs l i : elem_at (abs_elems l) i = option_map e_data (znth l i).
Proof. rewrite elem_at_znth. apply znth_map. Qed.

Lemma map_upd_nth {A B} (f : A -> B) n x l : map f (upd_nth n x l) = upd_nth n (f x) (map f l).
Proof. revert n; induction l as [|y r IH]; intros [|n]; simpl; auto. rewrite IH. reflexivity. Qed.

(* ---------- the guards of the element switches ---------- *)
Lemma g2_in (l : list elem) i : 0 <= i -> i < zlen l -> (0 <? zlen l) && (i <? zlen l) = true.
Proof. intros. apply andb_true_iff. split; apply Z.ltb_lt; lia. Qed.
Lemma g2_out (l : list elem) i : zlen l <= i -> (0 <? zlen l) && (i <? zlen l) = false.
Proof. intros. apply andb_false_iff. right. apply Z.ltb_ge. lia. Qed.
Lemma g2_nil i : (0 <? zlen (@nil elem)) && (i <? zlen (@nil elem)) = false.
Proof. reflexivity. Qed.
Lemma g3_in (l : list elem) i : 0 <= i -> i < zlen l -> (0 <? zlen l) && (0 <=? i) && (i <? zlen l) = true.
Proof. intros. repeat (apply andb_true_iff; split); try apply Z.ltb_lt; try apply Z.leb_le; lia. Qed.
Lemma g3_out (l : list elem) i : i < 0 \/ zlen l <= i -> (0 <? zlen l) && (0 <=? i) && (i <? zlen l) = false.
Proof.
  intros [H|H].
  - destruct (0 <? zlen l); cbn [andb]; [|reflexivity].
    replace (0 <=? i) with false by (symmetry; apply Z.leb_gt; lia). reflexivity.
  - apply andb_false_iff. right. apply Z.ltb_ge. lia.
Qed.
Lemma g3_nil i : (0 <? zlen (@nil elem)) && (0 <=? i) && (i <? zlen (@nil elem)) = false.
Proof. reflexivity. Qed.

Lemma sp_good w x : good x = true ->
  sp w x = match rep_of x with SS => SpOk (elems_of x) [] | PP => SpOk [] (elems_of x) end.
Proof. destruct x as [s|s|r|]; try discriminate; intros _; reflexivity. Qed.

(* ---------- native comparison ---------- *)
Lemma text_eq_cons x a y b : text_eq (x :: a) (y :: b) = Ascii.eqb x y && text_eq a b.
Proof.
  unfold text_eq. cbn [List.length combine forallb fst snd Nat.eqb].
  destruct (Nat.eqb (List.length a) (List.length b)), (Ascii.eqb x y); reflexivity.
Qed.

Lemma N_of_ascii_inj x y : N_of_ascii x = N_of_ascii y -> x = y.
Proof. intros H. rewrite <- (ascii_N_embedding x), <- (ascii_N_embedding y), H. reflexivity. Qed.

Lemma bcmp_spec a : forall b,
  match bcmp a b with
  | Eq => text_eq a b = true /\ text_lt a b = false /\ text_lt b a = false
  | Lt => text_eq a b = false /\ text_lt a b = true /\ text_lt b a = false
  | Gt => text_eq a b = false /\ text_lt a b = false /\ text_lt b a = true
  end.
Proof.
  induction a as [|x a IH]; intros [|y b]; cbn [bcmp]; try (repeat split; reflexivity).
  rewrite text_eq_cons. cbn [text_lt]. unfold byte_lt.
  destruct (N.compare_spec (N_of_ascii x) (N_of_ascii y)) as [E|L|G].
  - apply N_of_ascii_inj in E. subst y. rewrite Ascii.eqb_refl, N.ltb_irrefl. cbn [andb orb].
    exact (IH b).
  - assert (Ascii.eqb x y = false) by (apply Ascii.eqb_neq; intros ->; lia).
    assert (Ascii.eqb y x = false) by (apply Ascii.eqb_neq; intros ->; lia).
    replace (N.ltb (N_of_ascii x) (N_of_ascii y)) with true by (symmetry; apply N.ltb_lt; lia).
    replace (N.ltb (N_of_ascii y) (N_of_ascii x)) with false by (symmetry; apply N.ltb_ge; lia).
    rewrite H, H0. repeat split; reflexivity.
  - assert (Ascii.eqb x y = false) by (apply Ascii.eqb_neq; intros ->; lia).
    assert (Ascii.eqb y x = false) by (apply Ascii.eqb_neq; intros ->; lia).
    replace (N.ltb (N_of_ascii x) (N_of_ascii y)) with false by (symmetry; apply N.ltb_ge; lia).
    replace (N.ltb (N_of_ascii y) (N_of_ascii x)) with true by (symmetry; apply N.ltb_lt; lia).
    rewrite H, H0. repeat split; reflexivity.
Qed.

Lemma cmp_op_native c s r : cmp_op (op_of c) s r = Some (native_cmp c s r).
Proof.
  pose proof (bcmp_spec s r) as H.
  destruct c; cbn [op_of cmp_op native_cmp]; destruct (bcmp s r); destruct H as (E & L & G);
    rewrite ?E, ?L, ?G; reflexivity.
Qed.

Definition is_cop (o : op) : bool :=
  match o with OpEq | OpNq | OpGt | OpGtq | OpLt | OpLtq => true | _ => false end.
Lemma cmp_op_not_cop o s r : is_cop o = false -> cmp_op o s r = None.
Proof. destruct o; try discriminate; reflexivity. Qed.

Lemma text_eq_iff a : forall b, text_eq a b = true <-> a = b.
Proof.
  induction a as [|x a IH]; intros [|y b]; try (split; [discriminate|discriminate]); [split; reflexivity|].
  rewrite text_eq_cons, andb_true_iff, Ascii.eqb_eq, IH. split; [intros (-> & ->); reflexivity|intros E; inversion E; auto].
Qed.

Lemma seq_equal_cons x a y b : seq_equal (x :: a) (y :: b) = text_eq x y && seq_equal a b.
Proof.
  unfold seq_equal. cbn [List.length combine forallb fst snd Nat.eqb].
  destruct (Nat.eqb (List.length a) (List.length b)), (text_eq x y); reflexivity.
Qed.

Lemma seq_equal_iff a : forall b, seq_equal a b = true <-> a = b.
Proof.
  induction a as [|x a IH]; intros [|y b]; try (split; [discriminate|discriminate]); [split; reflexivity|].
  rewrite seq_equal_cons, andb_true_iff, text_eq_iff, IH. split; [intros (-> & ->); reflexivity|intros E; inversion E; auto].
Qed.

(* ---------- Get ---------- *)
Lemma deref_mkref x r i : deref x (mkref r i) = elem_at (abs x) i.
Proof. unfold deref, abs. rewrite elem_at_abs. destruct r; reflexivity. Qed.

Lemma get_char w x p i : good x = true -> atoi p = Some i ->
  si_get_to w x [p] = Ret (match elem_at (abs x) i with Some _ => Some (mkref (rep_of x) i) | None => None end) None.
Proof.
  intros G Hp. unfold si_get_to. rewrite (sp_good w _ G), Hp. unfold abs. rewrite elem_at_abs.
  set (l := elems_of x).
  destruct (Z.ltb_spec i 0) as [N|N].
  - rewrite (znth_out l i) by lia. destruct (rep_of x); reflexivity.
  - destruct (Z.ltb_spec i (zlen l)) as [I|O].
    + destruct (znth_range l i N I) as (e & E). rewrite E. cbn [option_map].
      destruct (rep_of x); cbv beta iota; rewrite ?g2_nil, (g2_in l i N I); reflexivity.
    + rewrite (znth_out l i) by lia. cbn [option_map].
      destruct (rep_of x); cbv beta iota; rewrite ?g2_nil, (g2_out l i O); reflexivity.
Qed.

Lemma get_unparsable w x p : good x = true -> atoi p = None -> si_get_to w x [p] = Ret None (Some EAtoi).
Proof. intros G Hp. unfold si_get_to. rewrite (sp_good w _ G), Hp. destruct (rep_of x); reflexivity. Qed.

(* ---------- Compare ---------- *)
Lemma compare_char w x c r p i : good x = true -> atoi p = Some i ->
  v_cmp_guard w = true \/ i < zlen (elems_of x) ->
  si_compare w x (op_of c) r [p] = Ret (compare_at (abs x) i c r) None.
Proof.
  intros G Hp Hw. unfold si_compare, compare_at. rewrite (sp_good w _ G), Hp. unfold abs. rewrite elem_at_abs.
  set (l := elems_of x) in *.
  destruct (Z.ltb_spec i 0) as [N|N].
  - rewrite (znth_out l i) by lia. destruct (rep_of x); reflexivity.
  - destruct (Z.ltb_spec i (zlen l)) as [I|O].
    + destruct (znth_range l i N I) as (e & E). rewrite E. cbn [option_map].
      destruct (rep_of x); cbv beta iota; rewrite ?g2_nil, (g2_in l i N I); unfold index_data; rewrite E, cmp_op_native; reflexivity.
    + destruct Hw as [Hw|Hw]; [|lia].
      rewrite (znth_out l i) by lia. cbn [option_map].
      destruct (rep_of x); cbv beta iota; rewrite ?g2_nil, (g2_out l i O), Hw; reflexivity.
Qed.

Lemma compare_unparsable w x o r p : good x = true -> atoi p = None -> si_compare w x o r [p] = Ret None (Some EAtoi).
Proof. intros G Hp. unfold si_compare. rewrite (sp_good w _ G), Hp. destruct (rep_of x); reflexivity. Qed.


(* ---------- Length / Capacity ---------- *)
Lemma length_char w x p i : good x = true -> atoi p = Some i ->
  si_length w x [p] = Ret (match length_at (abs x) i with Some z => Wrote z | None => NotWritten end) None.
Proof.
  intros G Hp. unfold si_length, length_at. rewrite (sp_good w _ G). unfold abs. rewrite elem_at_abs.
  set (l := elems_of x).
  destruct (Z.ltb_spec i 0) as [N|N].
  - rewrite (znth_out l i) by lia. cbn [option_map].
    destruct (rep_of x); cbv beta iota; rewrite Hp, ?g3_nil, (g3_out l i) by lia; reflexivity.
  - destruct (Z.ltb_spec i (zlen l)) as [I|O].
    + destruct (znth_range l i N I) as (e & E). rewrite E. cbn [option_map].
      destruct (rep_of x); cbv beta iota; rewrite Hp, ?g3_nil, (g3_in l i N I); unfold index_data; rewrite E; reflexivity.
    + rewrite (znth_out l i) by lia. cbn [option_map].
      destruct (rep_of x); cbv beta iota; rewrite Hp, ?g3_nil, (g3_out l i) by lia; reflexivity.
Qed.

Lemma length_unparsable w x p : good x = true -> atoi p = None -> si_length w x [p] = Ret NotWritten (Some EAtoi).
Proof. intros G Hp. unfold si_length. rewrite (sp_good w _ G). destruct (rep_of x); cbv beta iota; rewrite Hp; reflexivity. Qed.

Lemma capacity_char w x p i : good x = true -> atoi p = Some i ->
  si_capacity w x [p] =
  Ret (match rep_of x, znth (elems_of x) i with PP, Some e => Wrote (e_cap e) | _, _ => NotWritten end) None.
Proof.
  intros G Hp. unfold si_capacity. rewrite (sp_good w _ G).
  set (l := elems_of x).
  destruct (rep_of x); cbv beta iota; rewrite Hp.
  - rewrite g3_nil. reflexivity.
  - destruct (Z_lt_le_dec i 0) as [N|N].
    + rewrite (znth_out l i), (g3_out l i) by lia. reflexivity.
    + destruct (Z_lt_le_dec i (zlen l)) as [I|O].
      * destruct (znth_range l i N I) as (e & E). rewrite E, (g3_in l i N I). reflexivity.
      * rewrite (znth_out l i), (g3_out l i) by lia. reflexivity.
Qed.

Lemma capacity_unparsable w x p : good x = true -> atoi p = None -> si_capacity w x [p] = Ret NotWritten (Some EAtoi).
Proof. intros G Hp. unfold si_capacity. rewrite (sp_good w _ G). destruct (rep_of x); cbv beta iota; rewrite Hp; reflexivity. Qed.

(* ---------- Set ---------- *)
Lemma good_put_elems x l : good (put_elems x l) = good x.
Proof. destruct x; reflexivity. Qed.
Lemma elems_put_elems x l : good x = true -> elems_of (put_elems x l) = l.
Proof. destruct x; try discriminate; reflexivity. Qed.
Lemma rep_put_elems x l : rep_of (put_elems x l) = rep_of x.
Proof. destruct x; reflexivity. Qed.
Lemma is_ptr_put_elems x l : is_ptr (put_elems x l) = is_ptr x.
Proof. destruct x; reflexivity. Qed.
Lemma shape_put_elems x l : List.length l = List.length (elems_of x) -> shape (put_elems x l) = shape x.
Proof. destruct x as [s|s|r|]; cbn; intros H; try reflexivity; rewrite H; reflexivity. Qed.

Lemma sel_own w r ptr t : (match r with SS => sel_ss w | PP => sel_pp w end) (own_text r ptr t) = SelText (t_data t).
Proof. destruct r, ptr; reflexivity. Qed.

(* the full behaviour of Set on a text of the sequence's own representation *)
Lemma set_char w x ptr t p i nid : good x = true -> atoi p = Some i ->
  v_set_empty w = true \/ t_data t <> [] ->
  si_set_with_buffer w x (own_text (rep_of x) ptr t) [p] nid =
  Ret (if in_range (abs x) i
       then (put_elems x (upd_nth (Z.to_nat i) (buffered nid (t_data t)) (elems_of x)), nid + 1)
       else (x, nid)) None.
Proof.
  intros G Hp Hw. unfold si_set_with_buffer. rewrite (sp_good w _ G), Hp. unfold abs. rewrite in_range_abs.
  set (l := elems_of x).
  assert (S : (if v_set_empty w then true else 0 <? zlen (t_data t)) = true).
  { destruct Hw as [-> | Hn]; [reflexivity|]. destruct (v_set_empty w); [reflexivity|].
    apply Z.ltb_lt. destruct (t_data t); [congruence|]. unfold zlen. cbn [List.length]. lia. }
  destruct (Z.ltb_spec i 0) as [N|N].
  - replace (0 <=? i) with false by (symmetry; apply Z.leb_gt; lia). destruct (rep_of x); reflexivity.
  - replace (0 <=? i) with true by (symmetry; apply Z.leb_le; lia). cbn [andb].
    destruct (Z.ltb_spec i (zlen l)) as [I|O].
    + pose proof (sel_own w (rep_of x) ptr t) as So.
      destruct (rep_of x); cbv beta iota; rewrite ?g2_nil, (g2_in l i N I); unfold store; rewrite So, S; reflexivity.
    + destruct (rep_of x); cbv beta iota; rewrite ?g2_nil, (g2_out l i O); reflexivity.
Qed.

(* out of range (or negative): nothing is looked at, whatever the value *)
Lemma set_out_of_range w x v p i nid : good x = true -> atoi p = Some i -> in_range (abs x) i = false ->
  si_set_with_buffer w x v [p] nid = Ret (x, nid) None.
Proof.
  intros G Hp Hr. unfold si_set_with_buffer. rewrite (sp_good w _ G), Hp. unfold abs in Hr. rewrite in_range_abs in Hr.
  set (l := elems_of x) in *.
  destruct (Z.ltb_spec i 0) as [N|N]; [destruct (rep_of x); reflexivity|].
  replace (0 <=? i) with true in Hr by (symmetry; apply Z.leb_le; lia). cbn [andb] in Hr. apply Z.ltb_ge in Hr.
  destruct (rep_of x); cbv beta iota; rewrite ?g2_nil, (g2_out l i Hr); reflexivity.
Qed.

Lemma set_unparsable w x v p nid : good x = true -> atoi p = None ->
  si_set_with_buffer w x v [p] nid = Ret (x, nid) (Some EAtoi).
Proof. intros G Hp. unfold si_set_with_buffer. rewrite (sp_good w _ G), Hp. destruct (rep_of x); reflexivity. Qed.

Lemma abs_put_upd x i e : good x = true ->
  abs (put_elems x (upd_nth i e (elems_of x))) = upd_nth i (e_data e) (abs x).
Proof. intros G. unfold abs. rewrite (elems_put_elems _ _ G). unfold abs_elems. apply map_upd_nth. Qed.

Lemma znth_upd_eq {A} (l : list A) i e : 0 <= i -> i < zlen l -> znth (upd_nth (Z.to_nat i) e l) i = Some e.
Proof.
  intros H0 H1. unfold znth. destruct (Z.ltb_spec i 0); [lia|].
  apply nth_error_upd_nth_eq. unfold zlen in H1. lia.
Qed.
Lemma znth_upd_neq {A} (l : list A) i j e : 0 <= i -> j <> i -> znth (upd_nth (Z.to_nat i) e l) j = znth l j.
Proof.
  intros H0 H1. unfold znth. destruct (Z.ltb_spec j 0); [reflexivity|].
  apply nth_error_upd_nth_neq. lia.
Qed.

(* ---------- Loop ---------- *)
Definition visit_text (x : arg) (v : visit) : string * text_t :=
  (match vi_key v with Some k => k | None => EmptyString end,
   match deref x (vi_val v) with Some t => t | None => [] end).

Lemma loop_char w x : good x = true ->
  si_loop w x it_all [] = Ret (loop_from (mkref (rep_of x)) it_all 0 (List.length (elems_of x))) None.
Proof.
  intros G. unfold si_loop. rewrite (sp_good w _ G).
  destruct (rep_of x); cbv beta iota; change (0 <? zlen (@nil elem)) with false; cbv iota;
    destruct (elems_of x) as [|e l]; reflexivity.
Qed.

Lemma loop_visits_suffix x r : forall suf pre,
  elems_of x = pre ++ suf ->
  map (visit_text x) (loop_from (mkref r) it_all (List.length pre) (List.length suf)) =
  loop_visits (List.length pre) (abs_elems suf).
Proof.
  induction suf as [|e suf IH]; intros pre E; [reflexivity|].
  cbn [List.length loop_from it_all it_want it_ctl map abs_elems loop_visits].
  f_equal.
  - unfold visit_text. cbn [vi_key vi_val]. f_equal.
    unfold deref. assert (ref_idx (mkref r (Z.of_nat (List.length pre))) = Z.of_nat (List.length pre)) as -> by (destruct r; reflexivity).
    unfold znth. destruct (Z.ltb_spec (Z.of_nat (List.length pre)) 0); [lia|].
    rewrite Nat2Z.id, E, nth_error_app2, Nat.sub_diag by lia. reflexivity.
  - specialize (IH (pre ++ [e])). rewrite app_length in IH. cbn [List.length] in IH.
    replace (List.length pre + 1)%nat with (S (List.length pre)) in IH by lia.
    apply IH. rewrite <- app_assoc. exact E.
Qed.

Lemma loop_abs w x : good x = true ->
  exists vs, si_loop w x it_all [] = Ret vs None /\ map (visit_text x) vs = loop_all (abs x).
Proof.
  intros G. eexists. split; [apply loop_char; exact G|].
  exact (loop_visits_suffix x (rep_of x) (elems_of x) [] eq_refl).
Qed.

(* every visit: key = decimal index, value = reference to that very element *)
Lemma loop_from_nth mk : forall n j k, (k < n)%nat ->
  nth_error (loop_from mk it_all j n) k =
  Some {| vi_key := Some (Z_to_string (Z.of_nat (j + k))); vi_val := mk (Z.of_nat (j + k)) |}.
Proof.
  induction n as [|n IH]; intros j k H; [lia|].
  cbn [loop_from it_all it_want it_ctl]. destruct k as [|k].
  - rewrite Nat.add_0_r. reflexivity.
  - cbn [nth_error]. rewrite IH by lia. replace (S j + k)%nat with (j + S k)%nat by lia. reflexivity.
Qed.
Lemma loop_from_length mk : forall n j, List.length (loop_from mk it_all j n) = n.
Proof. induction n as [|n IH]; intros j; [reflexivity|]. cbn [loop_from it_all it_ctl List.length]. rewrite IH. reflexivity. Qed.

(* an iterator that breaks at round b sees exactly the rounds 0..b *)
Lemma loop_from_break mk want : forall n j b, (b < n)%nat ->
  loop_from mk {| it_want := want; it_ctl := fun k => if Nat.eqb k (j + b) then CtlBrk else CtlCnt |} j n =
  firstn (S b) (loop_from mk {| it_want := want; it_ctl := fun _ => CtlNone |} j n).
Proof.
  induction n as [|n IH]; intros j b H; [lia|].
  cbn [loop_from it_want it_ctl]. destruct b as [|b].
  - rewrite Nat.add_0_r, Nat.eqb_refl. reflexivity.
  - replace (Nat.eqb j (j + S b)) with false by (symmetry; apply Nat.eqb_neq; lia).
    cbn [firstn]. f_equal.
    specialize (IH (S j) b ltac:(lia)). replace (S j + b)%nat with (j + S b)%nat in IH by lia. exact IH.
Qed.

(* ---------- DeepEqual ---------- *)
Lemma bytes_eqb_text_eq a : forall b, bytes_eqb a b = text_eq a b.
Proof.
  induction a as [|x a IH]; intros [|y b]; try reflexivity.
  rewrite text_eq_cons. cbn [bytes_eqb]. rewrite IH. reflexivity.
Qed.

Lemma seq_equal_abs l : forall r, seq_equal (abs_elems l) (abs_elems r) = (zlen l =? zlen r) && all_eq l r.
Proof.
  induction l as [|x l IH]; intros [|y r]; try reflexivity.
  cbn [abs_elems map] in *. rewrite seq_equal_cons, IH. cbn [all_eq]. rewrite bytes_eqb_text_eq.
  replace (zlen (x :: l) =? zlen (y :: r)) with (zlen l =? zlen r).
  - destruct (zlen l =? zlen r), (text_eq (e_data x) (e_data y)); reflexivity.
  - unfold zlen. cbn [List.length]. destruct (Z.eqb_spec (Z.of_nat (List.length l)) (Z.of_nat (List.length r)));
        symmetry; [apply Z.eqb_eq|apply Z.eqb_neq]; lia.
Qed.

Lemma deq_char w x y : good x = true -> good y = true ->
  v_deq_empty w = true \/ abs x <> [] \/ abs y <> [] ->
  si_deep_equal w x y = Ret (seq_equal (abs x) (abs y)) None.
Proof.
  intros Gx Gy Hw. unfold si_deep_equal. rewrite (sp_good w _ Gx), (sp_good w _ Gy). unfold abs in *.
  rewrite seq_equal_abs.
  set (l := elems_of x) in *. set (r := elems_of y) in *.
  assert (E0 : zlen l = 0 -> zlen r = 0 -> v_deq_empty w = true /\ all_eq l r = true).
  { intros A B. destruct l; [|unfold zlen in A; cbn [List.length] in A; lia].
    destruct r; [|unfold zlen in B; cbn [List.length] in B; lia].
    split; [|reflexivity]. destruct Hw as [H|[H|H]]; [exact H|exfalso; apply H; reflexivity|exfalso; apply H; reflexivity]. }
  pose proof (zlen_nonneg l) as Pl. pose proof (zlen_nonneg r) as Pr.
  destruct (rep_of x), (rep_of y); cbv beta iota zeta; rewrite ?zlen_nil;
    change (0 <? 0) with false; cbn [andb]; rewrite ?Z.add_0_r, ?Z.add_0_l;
    (destruct (Z.eqb_spec (zlen l) 0) as [A|A];
     [ destruct (Z.eqb_spec (zlen r) 0) as [B|B];
       [ destruct (E0 A B) as (V & Q); rewrite V, Q, A, B; reflexivity
       | rewrite andb_false_r; cbn [andb];
         replace (0 <? zlen l) with false by (symmetry; apply Z.ltb_ge; lia); cbn [andb];
         replace (zlen l =? zlen r) with false by (symmetry; apply Z.eqb_neq; lia); reflexivity ]
     | rewrite andb_false_r; cbn [andb];
       replace (0 <? zlen l) with true by (symmetry; apply Z.ltb_lt; lia); cbn [andb];
       destruct (Z.eqb_spec (zlen l) (zlen r)) as [B|B];
       [ replace (0 <? zlen r) with true by (symmetry; apply Z.ltb_lt; lia); reflexivity
       | destruct (0 <? zlen r); reflexivity ] ]).
Qed.

(* ---------- CopyTo / Copy ---------- *)
Lemma copies_data l : forall nid, map e_data (copies l nid) = map e_data l.
Proof. induction l as [|e l IH]; intros nid; [reflexivity|]. cbn [copies map buffered e_data]. rewrite IH. reflexivity. Qed.
Lemma copies_length l : forall nid, List.length (copies l nid) = List.length l.
Proof. induction l as [|e l IH]; intros nid; [reflexivity|]. cbn [copies List.length]. rewrite IH. reflexivity. Qed.
Lemma copies_ids l : forall nid c, In c (copies l nid) -> nid <= e_id c < nid + zlen l.
Proof.
  induction l as [|e l IH]; intros nid c H; [contradiction|].
  cbn [copies] in H. unfold zlen in *. cbn [List.length]. destruct H as [<-|H].
  - cbn [buffered e_id]. lia.
  - specialize (IH _ _ H). lia.
Qed.
Lemma copies_nodup l : forall nid, NoDup (map e_id (copies l nid)).
Proof.
  induction l as [|e l IH]; intros nid; [constructor|].
  cbn [copies map buffered e_id]. constructor; [|apply IH].
  intros H. apply in_map_iff in H. destruct H as (c & E & H). apply copies_ids in H. lia.
Qed.
Lemma copies_cap l : forall nid c, In c (copies l nid) -> e_cap c = zlen (e_data c).
Proof.
  induction l as [|e l IH]; intros nid c H; [contradiction|].
  cbn [copies] in H. destruct H as [<-|H]; [reflexivity|]. exact (IH _ _ H).
Qed.

Lemma picked_good w x : good x = true ->
  match sp w x with
  | SpOk ssR ppR => (if 0 <? zlen ssR then ssR else if 0 <? zlen ppR then ppR else []) = elems_of x
  | _ => False
  end.
Proof.
  intros G. rewrite (sp_good w _ G). destruct (rep_of x); cbv beta iota.
  - destruct (elems_of x); reflexivity.
  - change (0 <? zlen (@nil elem)) with false. cbv iota. destruct (elems_of x); reflexivity.
Qed.

Lemma abs_append_all d cs : abs_elems (q_elems (append_all d cs)) = abs_elems (q_elems d) ++ abs_elems cs.
Proof.
  destruct cs as [|c cs]; cbn [append_all].
  - cbn [abs_elems map]. rewrite app_nil_r. reflexivity.
  - cbn [q_elems]. unfold abs_elems. apply map_app.
Qed.
Lemma elems_append_all d cs : q_elems (append_all d cs) = q_elems d ++ cs.
Proof. destruct cs; cbn [append_all q_elems]; [rewrite app_nil_r|]; reflexivity. Qed.
Lemma rep_append_all d cs : q_rep (append_all d cs) = q_rep d.
Proof. destruct cs; reflexivity. Qed.

Lemma copy_to_char w src d nid : good src = true ->
  si_copy_to w src (APtr d) nid =
  Ret (APtr (append_all d (copies (elems_of src) nid)), nid + zlen (elems_of src)) None.
Proof.
  intros G. unfold si_copy_to. pose proof (picked_good w _ G) as P.
  destruct (sp w src) as [ssR ppR| |]; try contradiction. rewrite P. destruct (q_rep d); reflexivity.
Qed.

Lemma copy_to_by_value w src s nid : good src = true ->
  si_copy_to w src (AVal s) nid = Ret (AVal s, nid) (Some EMustPointer).
Proof.
  intros G. unfold si_copy_to. rewrite (sp_good w _ G). destruct (rep_of src); reflexivity.
Qed.

Lemma copy_char w x nid : good x = true ->
  si_copy w x nid = Ret (append_all (nil_sq SS) (copies (elems_of x) nid), nid + zlen (elems_of x)) None.
Proof. intros G. unfold si_copy. rewrite (copy_to_char w _ _ _ G). reflexivity. Qed.

(* ---------- Reset ---------- *)
Lemma reset_ptr w s : si_reset w (APtr s) =
  Ret (APtr {| q_rep := q_rep s; q_nil := q_nil s; q_elems := []; q_cap := q_cap s |}) None.
Proof. reflexivity. Qed.
Lemma reset_val w s : si_reset w (AVal s) = Ret (AVal s) (Some EMustPointer).
Proof. reflexivity. Qed.
