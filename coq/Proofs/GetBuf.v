(* Proofs/GetBuf.v - the code emitted for GetTo only ever OVERWRITES *buf: whatever the buffer holds when the call
   starts, the call answers what it answers with an empty buffer, "nothing stored" read as "the content is still
   there" (FormsSpec.rebuf).  By induction on the node tree: every return of Model/Get.get_node hands back the
   buffer it was given or a reference made from the object, and never looks at the buffer's content. *)
From Coq Require Import List Bool String Ascii ZArith Arith Lia.
From Verif Require Import Util Ints Strconv Floats Node Value Outcome Get FormsSpec.
Import ListNotations.
Local Open Scope string_scope.
Local Open Scope list_scope.

Lemma rebuf_finish buf o : finish (rebuf buf o) = rebuf buf (finish o).
Proof. destruct o as [[r|]|[r|] e|k]; reflexivity. Qed.

Lemma gwalk_buf (rec rec0 : node -> gslot -> out (option ref)) o oseg buf chs :
  Forall (fun ch => forall s, rec ch s = rebuf buf (rec0 ch s)) chs ->
  forall idx, gwalk rec o oseg buf chs idx = rebuf buf (gwalk rec0 o oseg None chs idx).
Proof.
  intros F. induction F as [|ch rest Hch _ IH]; intros idx; cbn [gwalk]; [reflexivity|].
  destruct oseg as [seg|]; [|reflexivity].
  destruct (String.eqb seg (n_name ch)); [|apply IH].
  destruct (field_slot o idx) as [s|]; [|reflexivity].
  destruct (is_basic_child ch); [reflexivity|].
  rewrite Hch. apply rebuf_finish.
Qed.

Section L.
Variable legacy : bool.

Lemma get_node_buf : forall n o self depth path buf,
  get_node legacy n o self depth path buf = rebuf buf (get_node legacy n o self depth path None).
Proof.
  intros n. induction n using node_ind'. intros o self depth path buf.
  assert (NIL : forall k k0 : out (option ref), k = rebuf buf k0 ->
            (if p then match o with ONil => Ret buf None | OVal _ _ _ => k end else k) =
            rebuf buf (if p then match o with ONil => Ret None None | OVal _ _ _ => k0 end else k0)).
  { intros k k0 K. destruct p; [|exact K]. destruct o; [exact K|reflexivity]. }
  assert (TAIL : forall inner inner0 : out (option ref), inner = rebuf buf inner0 ->
            (if legacy then
               bind (if Nat.ltb depth (List.length path) then inner else Fall buf)
                    (fun b => Fall (if Nat.eqb depth 0 then b else Some self))
             else if Nat.ltb depth (List.length path) then inner else Fall (if Nat.eqb depth 0 then buf else Some self)) =
            rebuf buf
            (if legacy then
               bind (if Nat.ltb depth (List.length path) then inner0 else Fall None)
                    (fun b => Fall (if Nat.eqb depth 0 then b else Some self))
             else if Nat.ltb depth (List.length path) then inner0 else Fall (if Nat.eqb depth 0 then None else Some self))).
  { intros inner inner0 ->. destruct legacy.
    - destruct (Nat.ltb depth (List.length path)).
      + destruct inner0 as [[r|]|[r|] e|k]; cbn; destruct (Nat.eqb depth 0); reflexivity.
      + cbn. destruct (Nat.eqb depth 0); reflexivity.
    - destruct (Nat.ltb depth (List.length path)); [reflexivity|].
      destruct (Nat.eqb depth 0); reflexivity. }
  cbn [get_node].
  destruct ty.
  - (* struct *)
    apply TAIL. apply NIL. apply gwalk_buf.
    eapply Forall_impl; [|exact H]. cbn beta. intros ch IHch s. apply IHch.
  - (* map *)
    apply TAIL. apply NIL.
    destruct mk as [kn|]; [|reflexivity]. destruct mv as [vn|]; [|reflexivity].
    destruct (nth_error path depth) as [seg|]; [|reflexivity].
    destruct (is_string_key kn).
    + destruct o as [x l c|]; [|reflexivity]. destruct x; try reflexivity.
      destruct (lookup kn kvs (VStr seg)); [|reflexivity]. apply H1. reflexivity.
    + destruct (conv_key kn seg) as [k|]; [|reflexivity].
      destruct o as [x l c|]; [|reflexivity]. destruct x; try reflexivity.
      apply H1. reflexivity.
  - (* slice *)
    apply TAIL. apply NIL.
    destruct (String.eqb tn "[]byte"); [reflexivity|].
    destruct sl as [en|]; [|reflexivity].
    destruct (nth_error path depth) as [seg|]; [|reflexivity].
    destruct (conv_index seg) as [i|]; [|reflexivity].
    destruct o as [x l c|]; [|reflexivity]. destruct x; try reflexivity.
    destruct ((0 <=? i)%Z && (i <? Z.of_nat (List.length es))%Z); [|reflexivity].
    destruct (nth_error es (Z.to_nat i)) as [ev|]; [|reflexivity].
    apply H2. reflexivity.
  - (* basic *)
    apply NIL. reflexivity.
Qed.

Theorem get_to_buf n a path buf : get_to legacy n a path buf = rebuf buf (get_to legacy n a path None).
Proof.
  unfold get_to. destruct (root_slot a) as [[s|]|k]; try reflexivity.
  destruct path as [|seg rest]; [reflexivity|].
  rewrite get_node_buf. apply rebuf_finish.
Qed.

End L.
