(* Proofs/DeqPaths.v - the dotted option path the DeepEqual emitter computes (strings.Trim, "." joins) is the
   chain of struct field names; well-formedness of nodes for the emitter; key / finiteness predicates on values. *)
From Coq Require Import List Bool String Ascii ZArith Arith Lia Floats.SpecFloat Permutation.
From Verif Require Import Util Ints Strconv Floats Node Value Outcome Deq DeqSpec DeqKeys.
Import ListNotations.
Local Open Scope string_scope.

(* ---------- dotted paths ---------- *)
Definition first_dot (s : string) : bool := match s with String c _ => is_dot c | EmptyString => false end.
Fixpoint last_dot (s : string) : bool :=
  match s with
  | EmptyString => false
  | String c EmptyString => is_dot c
  | String _ r => last_dot r
  end.
(* a Go identifier, for what matters here: not empty, no dot at either end *)
Definition clean (s : string) : bool := nonempty s && negb (first_dot s) && negb (last_dot s).
Definition cleanE (s : string) : bool := negb (nonempty s) || clean s.

Lemma app_nil_r s : s ++ "" = s.
Proof. induction s; simpl; congruence. Qed.
Lemma app_assoc a b c : (a ++ b) ++ c = a ++ (b ++ c).
Proof. induction a; simpl; congruence. Qed.

Lemma ltrim_id s : first_dot s = false -> ltrim_dots s = s.
Proof. destruct s; simpl; auto. intros ->. reflexivity. Qed.

Lemma rtrim_id s : last_dot s = false -> rtrim_dots s = s.
Proof.
  induction s as [|c r IH]; simpl; auto. intros H.
  destruct r as [|d r'].
  - simpl. rewrite H. reflexivity.
  - rewrite IH by exact H. rewrite andb_false_r. reflexivity.
Qed.

Lemma trim_id s : cleanE s = true -> trim_dots s = s.
Proof.
  unfold cleanE, clean, trim_dots. destruct s as [|c r]; [reflexivity|]. simpl nonempty. simpl negb. rewrite orb_false_l.
  intros H. apply andb_true_iff in H. destruct H as (H & L). apply andb_true_iff in H. destruct H as (_ & F).
  apply negb_true_iff in F. apply negb_true_iff in L. rewrite ltrim_id by exact F. apply rtrim_id. exact L.
Qed.

Lemma last_dot_app a b : nonempty b = true -> last_dot (a ++ b) = last_dot b.
Proof.
  intros NB. induction a as [|c r IH]; [reflexivity|]. simpl.
  destruct (r ++ b) eqn:E; [|exact IH].
  destruct r; simpl in E; [subst b; discriminate | discriminate].
Qed.

Lemma clean_fext p name : cleanE p = true -> clean name = true -> clean (fext p name) = true.
Proof.
  intros CP CN. unfold fext. destruct p as [|c r]; [exact CN|].
  unfold cleanE in CP. change (nonempty (String c r)) with true in CP. rewrite orb_false_l in CP. unfold clean in *.
  apply andb_true_iff in CP. destruct CP as (CP & L). apply andb_true_iff in CP. destruct CP as (_ & F).
  apply andb_true_iff in CN. destruct CN as (CN & L2). apply andb_true_iff in CN. destruct CN as (NE & F2).
  assert (E1 : nonempty (String c r ++ "." ++ name) = true) by reflexivity.
  assert (E2 : first_dot (String c r ++ "." ++ name) = first_dot (String c r)) by reflexivity.
  assert (E3 : last_dot (String c r ++ "." ++ name) = last_dot name).
  { rewrite last_dot_app by reflexivity. destruct name; [discriminate|reflexivity]. }
  rewrite E1, E2, E3, F, L2. reflexivity.
Qed.

Lemma clean_nonempty s : clean s = true -> nonempty s = true.
Proof. unfold clean. intros H. apply andb_true_iff in H. destruct H as (H & _). apply andb_true_iff in H. tauto. Qed.

Lemma clean_cleanE s : clean s = true -> cleanE s = true.
Proof. unfold cleanE. intros ->. apply orb_true_r. Qed.

(* the emitter's path of a struct field / of a map value or slice element / of the root *)
Lemma deq_path_field p name d : cleanE p = true -> clean name = true -> deq_path p name (S d) = fext p name.
Proof.
  intros CP CN. unfold deq_path. rewrite trim_id by exact CP. rewrite (clean_nonempty _ CN), andb_true_r. simpl Nat.eqb. cbv iota.
  unfold fext. destruct p; [reflexivity|]. simpl nonempty. cbv iota. apply app_assoc.
Qed.

Lemma deq_path_elem p d : cleanE p = true -> deq_path p "" (S d) = p.
Proof. intros CP. unfold deq_path. rewrite trim_id by exact CP. simpl. rewrite andb_false_r. apply app_nil_r. Qed.

Lemma deq_path_root nm : deq_path "" nm 0 = "".
Proof. reflexivity. Qed.

(* ---------- nodes: what both parsers produce, as far as the DeepEqual emitter cares ---------- *)
Definition elem_ok (e : node) : bool :=
  String.eqb (n_name e) "" && negb (match n_typ e with typeSlice => String.eqb (n_typn e) "[]byte" | _ => false end).

Fixpoint wfd (n : node) {struct n} : bool :=
  match n with
  | Node ty tn tu nm pk pki p chld mk mv sl hb hc =>
    match ty with
    | typeBasic => true
    | typeStruct => forallb (fun c => clean (n_name c) && wfd c) chld
    | typeMap => match mk, mv with Some kn, Some vn => elem_ok vn && wfd vn | _, _ => false end
    | typeSlice => String.eqb tn "[]byte" || match sl with Some en => elem_ok en && wfd en | None => false end
    end
  end.

(* ---------- values ---------- *)
(* every map in the value has valid, pairwise different keys (what a Go map is); pointer keys are
   different allocations by construction *)
Definition is_ptrv (v : val) : bool := match v with VPtr _ => true | _ => false end.
Definition allptr (kvs : list (val * val)) : bool := forallb (fun kv => is_ptrv (fst kv)) kvs.

Lemma key_eqb_ptr_r k x : is_ptrv x = true -> key_eqb k x = false.
Proof. destruct x; try discriminate. destruct k; reflexivity. Qed.
Lemma key_eqb_ptr_l k x : is_ptrv x = true -> key_eqb x k = false.
Proof. destruct x; try discriminate. reflexivity. Qed.

Lemma allptr_find kvs k : allptr kvs = true -> map_find kvs k = None.
Proof.
  induction kvs as [|[k0 v0] r IH]; simpl; auto. intros H. apply andb_true_iff in H. destruct H as (H1 & H2).
  rewrite (key_eqb_ptr_l k k0 H1). auto.
Qed.
Lemma find_ptr kvs k : is_ptrv k = true -> map_find kvs k = None.
Proof. intros H. induction kvs as [|[k0 v0] r IH]; simpl; auto. rewrite (key_eqb_ptr_r k0 k H). exact IH. Qed.

Lemma entries_allptr_l rec lk rk : allptr lk = true -> lk <> [] -> deq_entries rec lk rk = false.
Proof.
  destruct lk as [|[k v] r]; [congruence|]. intros H _. simpl in H. apply andb_true_iff in H. destruct H as (H & _).
  unfold deq_entries. simpl. rewrite (find_ptr rk k H). reflexivity.
Qed.
Lemma entries_allptr_r rec lk rk : allptr rk = true -> lk <> [] -> deq_entries rec lk rk = false.
Proof.
  destruct lk as [|[k v] r]; [congruence|]. intros H _. unfold deq_entries. simpl. rewrite (allptr_find rk k H). reflexivity.
Qed.

Fixpoint kok (v : val) {struct v} : bool :=
  match v with
  | VStruct fs => forallb kok fs
  | VSlice _ es _ => forallb kok es
  | VMap _ kvs => (keys_ok kvs || allptr kvs) && forallb (fun kv => kok (snd kv)) kvs
  | VPtr (Some x) => kok x
  | _ => true
  end.

(* every float in the value is finite (the quantifier of C05) *)
Fixpoint finv (v : val) {struct v} : bool :=
  match v with
  | VFloat f => finite f
  | VStruct fs => forallb finv fs
  | VSlice _ es _ => forallb finv es
  | VMap _ kvs => forallb (fun kv => finv (fst kv) && finv (snd kv)) kvs
  | VPtr (Some x) => finv x
  | _ => true
  end.
