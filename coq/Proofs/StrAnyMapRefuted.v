(* Proofs/StrAnyMapRefuted.v - concrete witnesses: what the pinned commit
   ([fx = false]) did before the "fix:" commits, and where the current
   code ([fx = true]) still departs from the specification (Set reaching a nil
   map held by value or a nil pointer). *)
From Coq Require Import ZArith NArith List String Ascii Bool Lia.
From Verif Require Import Util Ints StrAnyMap StrAnyMapSpec StrAnyMapAbs StrAnyMapNav StrAnyMapSet StrAnyMapCopy.
Import ListNotations.
Local Open Scope string_scope.

(* {"a": nil pointer to a map} *)
Definition w_nilptr : any := AMap OCaller FVal [("a", ANilMap NPtr)].
(* {"a": &map{"n": []byte("ab") with cap 8, "s": "text"}} *)
Definition w_cap : any := AMap OCaller FVal [("a", AMap OCaller FPtr [("n", ABytes OCaller "ab" 6); ("s", AStr OCaller "text")])].
Definition w_flat : any := AMap OCaller FVal [("k", AInt KInt 1)].

(* ---------- pinned commit ---------- *)
Lemma pinned_nil_pointer_panics :
  get false ["a"; "b"] w_nilptr = Panic PNilDeref /\
  length false ["a"] w_nilptr = Panic PNilDeref /\
  snd (set false ["a"; "b"] w_nilptr (AInt KInt 1)) = Panic PNilDeref /\
  snd (copy false w_nilptr) = Panic PNilDeref /\
  snd (reset false (ANilMap NPtr)) = Panic PNilDeref.
Proof. repeat split; vm_compute; reflexivity. Qed.

Lemma pinned_capacity_is_length :
  tnav (abs w_cap) ["a"; "n"] = NFound (TLeaf (LBytes "ab" 6)) /\
  capacity false ["a"; "n"] w_cap = Ok (Some 2%Z) /\
  tcap (TLeaf (LBytes "ab" 6)) = Some 8%Z /\
  capacity false ["a"; "s"] w_cap = Ok (Some 4%Z) /\
  tcap (TLeaf (LStr "text")) = None.
Proof. repeat split; vm_compute; reflexivity. Qed.

Lemma pinned_reset_by_value :
  reset false w_flat = (w_flat, Ok tt) /\ abs w_flat <> treset (abs w_flat).
Proof. split; [vm_compute; reflexivity|vm_compute; discriminate]. Qed.

(* ---------- pinned commit: nil maps behind a pointer ---------- *)
(* Set whose path reaches a *map pointing at a nil map stored nothing and reported nothing *)
Definition w_nilmap : any := AMap OCaller FVal [("a", ANilMap NPtrMap)].
Lemma pinned_set_through_nil_map_pointer_is_silent_noop :
  set false ["a"; "b"] w_nilmap (AInt KInt 1) = (w_nilmap, Ok tt) /\
  tset (abs w_nilmap) ["a"; "b"] (stored (abs (AInt KInt 1))) =
    SetOk (TMap HVal [("a", TMap HPtr [("b", TLeaf (LInt KInt 1))])]) /\
  abs w_nilmap <> TMap HVal [("a", TMap HPtr [("b", TLeaf (LInt KInt 1))])] /\
  (* the fixed code makes the map and stores it through the pointer *)
  set true ["a"; "b"] w_nilmap (AInt KInt 1) =
    (AMap OCaller FVal [("a", AMap OMake FPtr [("b", AInt KInt 1)])], Ok tt).
Proof. repeat split; try (vm_compute; reflexivity). vm_compute. discriminate. Qed.

Lemma copy_of_fixes_entries src h es :
  copy_of src (TMap h es) -> strip_es es = strip_es (root_entries src).
Proof.
  intros [h' H]. unfold same_tree in H. rewrite !strip_map in H. now inversion H.
Qed.

(* CopyTo into a pointer to a nil map copied nothing and reported nothing *)
Lemma pinned_copyto_nil_dst_copies_nothing :
  copy_to false w_flat (ANilMap NPtrMap) = (ANilMap NPtrMap, Ok tt) /\
  ~ copy_of (abs w_flat) (abs (ANilMap NPtrMap)) /\
  copy_to true w_flat (ANilMap NPtrMap) = (AMap OMake FPtr [("k", AInt KInt 1)], Ok tt).
Proof.
  split; [vm_compute; reflexivity|]. split; [|vm_compute; reflexivity].
  intros H. apply copy_of_fixes_entries in H. vm_compute in H. discriminate.
Qed.

(* CopyTo from a nil map left the destination's old entries in place *)
Definition w_dst : any := AMap OOther FPtr [("old", AInt KInt 9)].
Lemma pinned_copyto_nil_src_keeps_old_entries :
  copy_to false (ANilMap NMap) w_dst = (w_dst, Ok tt) /\
  ~ copy_of (abs (ANilMap NMap)) (abs w_dst) /\
  copy_to true (ANilMap NMap) w_dst = (AMap OOther FPtr [], Ok tt).
Proof.
  split; [vm_compute; reflexivity|]. split; [|vm_compute; reflexivity].
  intros H. apply copy_of_fixes_entries in H. vm_compute in H. discriminate.
Qed.

(* ---------- current code: nil holders there is no pointer to store through ---------- *)
(* Set whose path reaches a nil map held by value (or a nil pointer) stores nothing and reports nothing *)
Definition w_nilval : any := AMap OCaller FVal [("a", ANilMap NMap)].
Definition w_nilptr2 : any := AMap OCaller FVal [("a", ANilMap NPtr2Ptr)].
Lemma set_through_nil_holder_is_silent_noop :
  set true ["a"; "b"] w_nilval (AInt KInt 1) = (w_nilval, Ok tt) /\
  tset (abs w_nilval) ["a"; "b"] (stored (abs (AInt KInt 1))) =
    SetOk (TMap HVal [("a", TMap HVal [("b", TLeaf (LInt KInt 1))])]) /\
  abs w_nilval <> TMap HVal [("a", TMap HVal [("b", TLeaf (LInt KInt 1))])] /\
  set true ["a"; "b"] w_nilptr (AInt KInt 1) = (w_nilptr, Ok tt) /\
  set true ["a"; "b"] w_nilptr2 (AInt KInt 1) = (w_nilptr2, Ok tt) /\
  set true ["b"] (ANilMap NMap) (AInt KInt 1) = (ANilMap NMap, Ok tt).
Proof. repeat split; try (vm_compute; reflexivity). vm_compute. discriminate. Qed.

(* ---------- no method looks at an origin ---------- *)
Lemma to_caller_map o f es : to_caller (AMap o f es) = AMap OCaller f (map (fun kv => (fst kv, to_caller (snd kv))) es).
Proof. simpl. f_equal. induction es as [|[k v] r IH]; simpl; auto. now rewrite IH. Qed.

Lemma cpy_val_to_caller : forall x, cpy_val (to_caller x) = cpy_val x.
Proof.
  induction x as [| | | | |o f es IH|nf] using any_ind'; try reflexivity.
  rewrite to_caller_map, !cpy_val_map. f_equal. unfold cpy. rewrite map_map.
  induction es as [|[k v] r IHr]; simpl; auto.
  inversion IH as [|? ? Hv Hr]; subst. simpl in Hv. rewrite Hv. f_equal. now apply IHr.
Qed.

Lemma copy_ignores_origins : forall x, copy true (to_caller x) = copy true x.
Proof.
  intros x. destruct x; try reflexivity.
  rewrite to_caller_map. unfold copy, copy_to. cbn [indir1 indir2 negb andb with_entries].
  do 2 f_equal. unfold cpy. rewrite map_map. apply map_ext. intros [k v]. simpl. now rewrite cpy_val_to_caller.
Qed.
