(* Proofs/CmpLeaf.v - the comparison code writeCmp emits for a scalar, string or bytes
   element meets the leaf demand of Spec/CmpSpec.v. *)
From Coq Require Import List Bool String Ascii ZArith Arith Lia Floats.SpecFloat.
From Verif Require Import Util Ints Strconv Floats Node Value Outcome Nav Cmp CmpSpec LCSound.
Import ListNotations.
Local Open Scope string_scope.

(* ---------- an outcome meets a demand; [res] is the content of *result before ---------- *)
Definition okv (o : out bool) (b : bool) : Prop := o = Ret b None \/ o = Fall b.

Fixpoint acc (o : out bool) (res : bool) (d : cdemand) : Prop :=
  match d with
  | DAny => True
  | DSet b => okv o b
  | DKeep => okv o res
  | DErr => exists r, o = Ret r (Some EParse)
  | DOr a b => acc o res a \/ acc o res b
  end.

Lemma acc_ret_fall o res d : acc o res d -> acc (ret_fall o) res d.
Proof.
  revert o; induction d; intros o; simpl; auto.
  - intros [->| ->]; left; reflexivity.
  - intros [->| ->]; left; reflexivity.
  - intros (r & ->). exists r. reflexivity.
  - intros [H|H]; [left; apply IHd1|right; apply IHd2]; exact H.
Qed.

(* ---------- the strconv readers do not depend on the bound until it is hit ---------- *)
Lemma parse_uint_bound s base m1 m2 n :
  parse_uint s base m1 = Some n -> (n <= m2)%Z -> parse_uint s base m2 = Some n.
Proof.
  unfold parse_uint. destruct s as [|c0 r0]; [discriminate|].
  destruct (if (base =? 0)%Z then _ else _) as [[b body] base0].
  destruct (pu_loop body b base0 0 false) as [[k under]|]; [|discriminate].
  destruct (k <=? m1)%Z eqn:L1; [|discriminate].
  destruct (under && negb (underscore_ok (String c0 r0))); [discriminate|].
  intros E L. inversion E; subst k.
  apply Z.leb_le in L. rewrite L. reflexivity.
Qed.

Lemma parse_uint_none s base m1 m2 :
  parse_uint s base m1 = None -> (m2 <= m1)%Z -> parse_uint s base m2 = None.
Proof.
  unfold parse_uint. destruct s as [|c0 r0]; [reflexivity|].
  destruct (if (base =? 0)%Z then _ else _) as [[b body] base0].
  destruct (pu_loop body b base0 0 false) as [[k under]|]; [|reflexivity].
  destruct (k <=? m1)%Z eqn:L1.
  - destruct (under && negb (underscore_ok (String c0 r0))); [|discriminate].
    intros _ L. destruct (k <=? m2)%Z; reflexivity.
  - intros _ L. apply Z.leb_gt in L1. destruct (Z.leb_spec k m2); [lia|reflexivity].
Qed.

Lemma parse_uint_le s base m n : parse_uint s base m = Some n -> (n <= m)%Z.
Proof.
  unfold parse_uint. destruct s as [|c0 r0]; [discriminate|].
  destruct (if (base =? 0)%Z then _ else _) as [[b body] base0].
  destruct (pu_loop body b base0 0 false) as [[k under]|]; [|discriminate].
  destruct (k <=? m)%Z eqn:L1; [|discriminate].
  destruct (under && negb (underscore_ok (String c0 r0))); [discriminate|].
  intros E. inversion E; subst. apply Z.leb_le. exact L1.
Qed.

Lemma pow_mono a b : (0 <= a <= b)%Z -> (2 ^ a <= 2 ^ b)%Z.
Proof. intros H. apply Z.pow_le_mono_r; lia. Qed.

(* ParseInt with the small bit size agrees with the unbounded reading on values that fit *)
Lemma parse_int_fit s z :
  parse_int s 0 unbounded = Some z -> (- 2 ^ 63 <= z < 2 ^ 63)%Z -> parse_int s 0 64 = Some z.
Proof.
  unfold parse_int. destruct s as [|c r]; [discriminate|].
  set (neg := (code c =? 45)%Z).
  set (body := if neg || (code c =? 43)%Z then r else String c r).
  destruct (parse_uint body 0 (2 ^ unbounded - 1)) as [un|] eqn:PU; [|discriminate].
  cbv zeta. intros E R.
  assert (P63 : (2 ^ (64 - 1) = 2 ^ 63)%Z) by reflexivity.
  destruct neg.
  - destruct (un <=? 2 ^ (unbounded - 1))%Z; [|discriminate]. inversion E; subst z.
    rewrite (parse_uint_bound _ _ _ (2 ^ 64 - 1)%Z _ PU) by (change (2 ^ 64)%Z with (2 * 2 ^ 63)%Z; lia).
    rewrite P63. destruct (Z.leb_spec un (2 ^ 63)); [reflexivity|lia].
  - destruct (un <? 2 ^ (unbounded - 1))%Z; [|discriminate]. inversion E; subst z.
    rewrite (parse_uint_bound _ _ _ (2 ^ 64 - 1)%Z _ PU) by (change (2 ^ 64)%Z with (2 * 2 ^ 63)%Z; lia).
    rewrite P63. destruct (Z.ltb_spec un (2 ^ 63)); [reflexivity|lia].
Qed.

Lemma parse_int_bad s : parse_int s 0 unbounded = None -> parse_int s 0 64 = None.
Proof.
  unfold parse_int. destruct s as [|c r]; [reflexivity|].
  set (neg := (code c =? 45)%Z).
  set (body := if neg || (code c =? 43)%Z then r else String c r).
  destruct (parse_uint body 0 (2 ^ unbounded - 1)) as [un|] eqn:PU.
  - cbv zeta. intros E.
    destruct (parse_uint body 0 (2 ^ 64 - 1)) as [un'|] eqn:PU'; [|reflexivity].
    pose proof (parse_uint_le _ _ _ _ PU') as LE.
    assert (un' = un).
    { pose proof (parse_uint_bound _ _ _ (2 ^ unbounded - 1)%Z _ PU') as B.
      rewrite PU in B. assert (X : Some un = Some un'); [|inversion X; reflexivity].
      apply B. assert (2 ^ 64 <= 2 ^ unbounded)%Z by (apply pow_mono; unfold unbounded; lia). lia. }
    subst un'. exfalso.
    assert (G : (2 ^ 64 <= 2 ^ (unbounded - 1))%Z).
    { apply pow_mono. unfold unbounded. lia. }
    pose proof (parse_uint_le _ _ _ _ PU) as LE2.
    destruct neg.
    + destruct (Z.leb_spec un (2 ^ (unbounded - 1))); [discriminate|].
      assert (2 ^ unbounded = 2 * 2 ^ (unbounded - 1))%Z.
      { replace unbounded with (Z.succ (unbounded - 1)) at 1 by lia. apply Z.pow_succ_r. unfold unbounded; lia. }
      lia.
    + destruct (Z.ltb_spec un (2 ^ (unbounded - 1))); [discriminate|].
      assert (2 ^ unbounded = 2 * 2 ^ (unbounded - 1))%Z.
      { replace unbounded with (Z.succ (unbounded - 1)) at 1 by lia. apply Z.pow_succ_r. unfold unbounded; lia. }
      lia.
  - intros _. rewrite (parse_uint_none _ _ _ (2 ^ 64 - 1)%Z PU); [reflexivity|].
    assert (2 ^ 64 <= 2 ^ unbounded)%Z by (apply pow_mono; unfold unbounded; lia). lia.
Qed.

Lemma in_range_64 i z : in_range i z = true ->
  (if is_signed i then (- 2 ^ 63 <= z < 2 ^ 63)%Z else (0 <= z <= 2 ^ 64 - 1)%Z).
Proof.
  unfold in_range, kmin, kmax. intros H. apply andb_true_iff in H. destruct H as (H1 & H2).
  apply Z.leb_le in H1, H2.
  destruct i; cbn [is_signed bits] in *;
    repeat match goal with
    | H : context [(2 ^ ?a)%Z] |- _ => let v := eval vm_compute in (2 ^ a)%Z in change (2 ^ a)%Z with v in H
    | H : context [(?a - 1)%Z] |- _ => let v := eval vm_compute in (a - 1)%Z in change (a - 1)%Z with v in H
    end;
    repeat match goal with
    | |- context [(2 ^ ?a)%Z] => let v := eval vm_compute in (2 ^ a)%Z in change (2 ^ a)%Z with v
    end; lia.
Qed.

(* ---------- the conversion + comparison of one leaf kind ---------- *)
Definition leaf_val_ok (k : lkind) (x : val) : bool :=
  match k with
  | LBytes => match x with VBytes _ _ _ => true | _ => false end
  | LScalar s => scalar_range_ok s x
  end.

Definition kind_code (k : lkind) (x : val) (op : cop) (right : string) (res : bool) : out bool :=
  match conv_operand k right with
  | None => Ret res (Some EParse)
  | Some r =>
    match k with
    | LBytes | LScalar SBool => Fall (branch2 op x r)
    | _ => Fall (switch6 op x r res)
    end
  end.

Lemma cmp_leaf_kind left k x op right res :
  leaf_kind left = Some k -> cmp_leaf left x op right res = kind_code k x op right res.
Proof. unfold cmp_leaf, kind_code. intros ->. reflexivity. Qed.

Lemma kind_code_sound k x op right res :
  leaf_val_ok k x = true -> acc (kind_code k x op right res) res (leaf_demand k x op right).
Proof.
  unfold kind_code, leaf_demand. intros OK.
  destruct k as [s|].
  - destruct s as [|i| | | |]; cbn [leaf_val_ok scalar_range_ok] in OK.
    + (* bool *)
      destruct x; try discriminate. cbn [conv_operand parse_operand].
      destruct (parse_bool right) as [b'|]; cbn [option_map]; [|simpl; eexists; reflexivity].
      destruct op; simpl; auto; try (right; reflexivity).
    + (* integers *)
      destruct x as [|y| | | | | | |]; try discriminate. cbn [conv_operand parse_operand].
      destruct (is_signed i) eqn:SG.
      * unfold snippet_int.
        destruct (parse_int right 0 unbounded) as [z|] eqn:PI.
        -- destruct (in_range i z) eqn:IR; [|exact I].
           pose proof (in_range_64 _ _ IR) as R64. rewrite SG in R64.
           rewrite (parse_int_fit _ _ PI R64). cbn [option_map]. rewrite (wrap_id _ _ IR).
           destruct op; simpl; auto; try (right; reflexivity).
           ++ rewrite Z.gtb_ltb. right; reflexivity.
           ++ rewrite Z.geb_leb. right; reflexivity.
        -- rewrite (parse_int_bad _ PI). simpl. eexists; reflexivity.
      * unfold snippet_uint.
        destruct (parse_uint right 0 (2 ^ unbounded)) as [z|] eqn:PU.
        -- destruct (in_range i z) eqn:IR; [|exact I].
           pose proof (in_range_64 _ _ IR) as R64. rewrite SG in R64.
           rewrite (parse_uint_bound _ _ _ (2 ^ 64 - 1)%Z _ PU) by lia. cbn [option_map]. rewrite (wrap_id _ _ IR).
           destruct op; simpl; auto; try (right; reflexivity).
           ++ rewrite Z.gtb_ltb. right; reflexivity.
           ++ rewrite Z.geb_leb. right; reflexivity.
        -- rewrite (parse_uint_none _ _ _ (2 ^ 64 - 1)%Z PU).
           ++ simpl. eexists; reflexivity.
           ++ assert (2 ^ 64 <= 2 ^ unbounded)%Z by (apply pow_mono; unfold unbounded; lia). lia.
    + (* byte: the property is read as silent *)
      exact I.
    + (* float32 *)
      destruct x as [| |g| | | | | |]; try discriminate. cbn [conv_operand parse_operand].
      destruct (parse_float right) as [f|]; cbn [option_map]; [|simpl; eexists; reflexivity].
      destruct f as [sg|sg| |sg m e].
      * cbn [to_f32]. destruct op; simpl; auto; try (right; reflexivity).
      * cbn [to_f32]. destruct op; simpl; auto; try (right; reflexivity).
      * cbn [to_f32]. destruct op; simpl; auto; try (right; reflexivity).
      * destruct (to_f32 (S754_finite sg m e)) as [sg'|sg'| |sg' m' e']; try exact I;
          destruct op; simpl; auto; try (right; reflexivity).
    + (* float64 *)
      destruct x as [| |g| | | | | |]; try discriminate. cbn [conv_operand parse_operand].
      destruct (parse_float right) as [f|]; cbn [option_map]; [|simpl; eexists; reflexivity].
      destruct op; simpl; auto; try (right; reflexivity).
    + (* string *)
      destruct x; try discriminate. cbn [conv_operand parse_operand].
      destruct op; simpl; auto; try (right; reflexivity).
  - (* bytes *)
    cbn [leaf_val_ok] in OK. destruct x; try discriminate. cbn [conv_operand parse_operand].
    destruct op; simpl; auto; try (right; reflexivity).
Qed.

(* ---------- writeCmp on a scalar, string or bytes node ---------- *)
Lemma leaf_facts ch : wfn ch = true -> is_leaf ch = true ->
  exists k, leaf_kind ch = Some k /\ spec_kind ch = Some k /\
    (n_ptr ch = false -> forall x, wtb ch x = true -> leaf_val_ok k x = true) /\
    (n_ptr ch = true -> forall x, wtb ch (VPtr (Some x)) = true -> leaf_val_ok k x = true).
Proof.
  destruct ch as [ty tn tu nm pk pki p chld mk mv sl hb hc].
  unfold is_leaf, leaf_kind, spec_kind, node_skind, bytes_node. cbn [n_typ n_typn n_typu n_ptr wfn].
  intros W L. destruct ty; try discriminate.
  - (* []byte *)
    rewrite L. exists LBytes. split; [reflexivity|split; [reflexivity|]].
    split; intros E x WT; subst p; cbn [wtb] in WT; rewrite L in WT; exact WT.
  - (* basic *)
    apply andb_true_iff in W. destruct W as (_ & W).
    destruct (skind_of_name tu) as [k|] eqn:EK; [|discriminate].
    exists (LScalar k). split; [reflexivity|split; [reflexivity|]].
    split; intros E x WT; subst p; cbn [wtb] in WT; rewrite EK in WT; exact WT.
Qed.

Lemma wcmp_leaf_sound ch f op right res :
  wfn ch = true -> is_leaf ch = true -> wtb ch f = true ->
  acc (wcmp ch (cur_of ch f) op right res) res (elem_demand ch f op right).
Proof.
  intros W L WT. destruct (leaf_facts ch W L) as (k & LK & SK & V0 & V1).
  unfold wcmp, elem_demand, cur_of. rewrite L.
  destruct (n_ptr ch) eqn:P.
  - assert (PV : f = VPtr None \/ exists x, f = VPtr (Some x)).
    { destruct ch as [ty tn tu nm pk pki p chld mk mv sl hb hc]. cbn [n_ptr] in P. subst p.
      cbn [wtb] in WT. destruct f as [| | | | | | | |[x|]]; try discriminate; eauto. }
    destruct (String.eqb right "nil").
    + destruct PV as [->|(x & ->)]; destruct op; simpl; auto; left; reflexivity.
    + destruct PV as [->|(x & ->)]; [exact I|].
      rewrite SK, (cmp_leaf_kind _ _ _ _ _ _ LK). apply kind_code_sound. apply V1; auto.
  - rewrite SK, (cmp_leaf_kind _ _ _ _ _ _ LK). apply kind_code_sound. apply V0; auto.
Qed.
