(* Proofs/NoPanicGen.v - C02 for the generated inspectors: the no-panic lemmas of the emitter
   proofs (stated there for the argument form *T) carried to EVERY argument form - T, *T, **T,
   typed nil *T, **T to a nil *T, nil **T, the untyped nil and a foreign type - and combined
   into one statement over Model/Api.v's [exec]. *)
From Coq Require Import List Bool String Ascii ZArith Arith Lia Sorting.Permutation.
From Verif Require Import Util Ints Strconv Floats Node Value Outcome Nav
  LC LCSound Get GetSound Cmp CmpSound Loop LoopSpec LoopSound SetEmit SetSpec SetSound Deq InsCopy InsReset Api.
Import ListNotations.
Local Open Scope string_scope.

(* the value an argument carries, if it carries one *)
Definition arg_val (a : arg) : option val :=
  match a with
  | AVal v | APtr (Some v) | APtrPtr (Some (Some v)) => Some v
  | _ => None
  end.

(* every argument form, provided the value it carries (if any) is a value of the type *)
Definition arg_wt (n : node) (a : arg) : Prop := forall v, arg_val a = Some v -> wtb n v = true.

Definition nopanic {S} (o : out S) : Prop := match o with Panic _ => False | _ => True end.

Lemma gsafe_nopanic o : gsafe o -> nopanic o.
Proof. destruct o; simpl; auto. Qed.
Lemma csafe_nopanic o : CmpSound.safe o -> nopanic o.
Proof. destruct o; simpl; auto. Qed.
Lemma lsafe_nopanic o : LCSound.safe o -> nopanic o.
Proof. destruct o; simpl; auto. Qed.

(* ---------- Get / GetTo ---------- *)
Lemma get_to_forms n a path buf :
  wfn n = true -> n_ptr n = false -> arg_wt n a -> gsafe (get_to false n a path buf).
Proof.
  intros W P WT. unfold get_to.
  destruct a as [v|[v|]|[[v|]|]| |]; cbn [root_slot]; try exact I;
    (destruct path as [|seg rest]; [exact I|]; apply gsafe_finish;
     first [apply (get_safe_node n W v [] true 0 (seg :: rest) buf) | apply (get_safe_node n W v [] false 0 (seg :: rest) buf)];
     apply WT; reflexivity).
Qed.

(* ---------- Compare ---------- *)
Lemma compare_forms n a op right path res0 :
  wfn n = true -> n_ptr n = false -> arg_wt n a -> CmpSound.safe (compare n a op right path res0).
Proof.
  intros W P WT.
  assert (L : forall v, wtb n v = true -> CmpSound.safe (compare n (APtr (Some v)) op right path res0)).
  { intros v T. exact (compare_safe n v op right path res0 W P T). }
  destruct a as [v|[v|]|[[v|]|]| |].
  - specialize (L v (WT v eq_refl)). destruct path; exact L.
  - exact (L v (WT v eq_refl)).
  - destruct path; exact I.
  - specialize (L v (WT v eq_refl)). destruct path; exact L.
  - destruct path; exact I.
  - destruct path; exact I.
  - destruct path; exact I.
  - destruct path; exact I.
Qed.

(* ---------- Length / Capacity ---------- *)
Lemma length_capacity_forms fn n a path res0 :
  wfn n = true -> n_ptr n = false -> arg_wt n a -> nopanic (length_capacity fn n a path res0).
Proof.
  intros W P WT.
  assert (L : forall v, wtb n v = true -> nopanic (length_capacity fn n (APtr (Some v)) path res0)).
  { intros v T. apply lsafe_nopanic. exact (length_capacity_safe fn n v path res0 W P T). }
  destruct a as [v|[v|]|[[v|]|]| |]; try exact I.
  - exact (L v (WT v eq_refl)).
  - exact (L v (WT v eq_refl)).
  - exact (L v (WT v eq_refl)).
Qed.

(* ---------- Loop ---------- *)
(* [keys_ok]: every key of the denoted map is rendered to a text that parses back to it - in
   particular no nil pointer key (Proofs/LoopKeys.v: all string, integer and bool keys) *)
Definition loop_keys_ok (n : node) (a : arg) (path : list string) : Prop :=
  forall v, arg_val a = Some v -> keys_ok (denoted n v path).

Lemma loop_forms sc ord n a path :
  (forall l, Permutation (ord l) l) ->
  wfn n = true -> n_ptr n = false -> arg_wt n a -> loop_keys_ok n a path ->
  nopanic (loop_method sc ord n a path).
Proof.
  intros ORD W P WT KO.
  assert (L : forall v, wtb n v = true -> keys_ok (denoted n v path) -> nopanic (loop_method sc ord n (APtr (Some v)) path)).
  { intros v T K. destruct (loop_method_safe sc ord n v path ORD W P T K) as (tr & e & -> & _). exact I. }
  destruct a as [v|[v|]|[[v|]|]| |].
  - specialize (L v (WT v eq_refl) (KO v eq_refl)). unfold loop_method in *.
    destruct (is_struct_root n && _); exact L.
  - exact (L v (WT v eq_refl) (KO v eq_refl)).
  - unfold loop_method. destruct (is_struct_root n && _); exact I.
  - specialize (L v (WT v eq_refl) (KO v eq_refl)). unfold loop_method in *.
    destruct (is_struct_root n && _); exact L.
  - unfold loop_method. destruct (is_struct_root n && _); exact I.
  - unfold loop_method. destruct (is_struct_root n && _); exact I.
  - unfold loop_method. destruct (is_struct_root n && _); exact I.
  - unfold loop_method. destruct (is_struct_root n && _); exact I.
Qed.

(* ---------- Set / SetWithBuffer ---------- *)
(* [set_method] is the body (with the empty-path guard) on the object x designates: the object
   behind a *T or **T, or the copy `x = &v` of an argument passed by value.  [set_with_buffer]
   is the header on the forms that hand the object over. *)
Lemma set_forms s buf n a path :
  wfn n = true -> sound_set n = true -> root_ok n = true -> arg_wt n a ->
  match set_with_buffer n a path s buf with Some o => nopanic o | None => True end.
Proof.
  intros W SD RO WT.
  destruct a as [v|[v|]|[[v|]|]| |]; cbn [set_with_buffer]; try exact I.
  - destruct (set_method_no_panic s buf n v path W SD RO (WT v eq_refl)) as (v' & e & ->). exact I.
  - destruct (set_method_no_panic s buf n v path W SD RO (WT v eq_refl)) as (v' & e & ->). exact I.
Qed.

(* ---------- DeepEqual / DeepEqualWithOptions ---------- *)
Lemma deep_equal_forms n sh la ra o : exists b, deep_equal_with_options n sh la ra o = inl b.
Proof.
  unfold deep_equal_with_options.
  destruct la as [v|[v|]|[[v|]|]| |]; cbn [header_x];
  destruct ra as [w|[w|]|[[w|]|]| |]; cbn [header_x]; eexists; reflexivity.
Qed.

(* ---------- Copy / CopyTo / Reset ---------- *)
Lemma copy_forms n a : nopanic (copy_method n a).
Proof. unfold copy_method. destruct a as [v|[v|]|[[v|]|]| |]; cbn [src_value]; exact I. Qed.

Lemma copyto_forms n src dst : nopanic (copyto_method n src dst).
Proof.
  unfold copyto_method.
  destruct src as [v|[v|]|[[v|]|]| |]; cbn [src_value]; try exact I;
    destruct dst as [w|[w|]|[[w|]|]| |]; exact I.
Qed.

Lemma reset_forms n a : nopanic (reset_method n a).
Proof. unfold reset_method. destruct a as [v|[v|]|[[v|]|]| |]; exact I. Qed.

(* ---------- all methods, one statement ---------- *)
Definition answer_ok (x : answer) : Prop :=
  match x with
  | AnsRef o => nopanic o | AnsBool o => nopanic o | AnsTrace o => nopanic o | AnsInt o => nopanic o
  | AnsDeq o => exists b, o = inl b
  | AnsVal o => nopanic o
  | AnsSet (Some o) => nopanic o
  | AnsSet None => True
  end.

(* what a call needs beyond a well-typed argument *)
Definition call_dom (n : node) (a : arg) (c : call) : Prop :=
  match c with
  | KLoop sc ord path => (forall l, Permutation (ord l) l) /\ loop_keys_ok n a path
  | KSet _ _ _ => sound_set n = true /\ root_ok n = true
  | _ => True
  end.

Theorem exec_no_panic n c a :
  wfn n = true -> n_ptr n = false -> arg_wt n a -> call_dom n a c -> answer_ok (fst (exec n c a)).
Proof.
  intros W P WT D. destruct c; cbn [exec fst answer_ok].
  - apply gsafe_nopanic. apply get_to_forms; assumption.
  - apply gsafe_nopanic. apply get_to_forms; assumption.
  - apply csafe_nopanic. apply compare_forms; assumption.
  - destruct D as (ORD & KO). apply loop_forms; assumption.
  - apply length_capacity_forms; assumption.
  - apply length_capacity_forms; assumption.
  - apply deep_equal_forms.
  - apply deep_equal_forms.
  - apply copy_forms.
  - apply copyto_forms.
  - apply copyto_forms.
  - apply reset_forms.
  - destruct D as (SD & RO). pose proof (set_forms s buf n a path W SD RO WT) as S.
    destruct (set_with_buffer n a path s buf); exact S.
Qed.
