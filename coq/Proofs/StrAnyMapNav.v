(* Proofs/StrAnyMapNav.v - the reading operations of the model follow the key
   path of the abstract tree (all trees, all paths; code after the fixes). *)
From Coq Require Import ZArith NArith List String Ascii Bool Lia.
From Verif Require Import Util Ints Strconv StrAnyMap StrAnyMapSpec StrAnyMapAbs.
Import ListNotations.
Local Open Scope string_scope.

(* ---------- abs on entries ---------- *)
Lemma abs_map o f es : abs (AMap o f es) = TMap (hold_of f) (abs_es es).
Proof.
  simpl. f_equal. induction es as [|[k v] r IH]; simpl; auto. now rewrite IH.
Qed.

Lemma tlookup_abs k es : tlookup k (abs_es es) = option_map abs (lookup k es).
Proof.
  induction es as [|[k' v] r IH]; simpl; auto.
  destruct (String.eqb k k'); auto.
Qed.

Lemma abs_es_length es : List.length (abs_es es) = List.length es.
Proof. unfold abs_es. apply map_length. Qed.

(* what indir sees (fixed code) against the abstract tree *)
Lemma indir1_abs x :
  match indir1 true x with
  | Ok (Some es) => abs x = TMap (match x with AMap _ f _ => hold_of f | _ => HVal end) (abs_es es)
  | Ok None => exists h, abs x = TMap h []
  | Err e => e = EUnsupported /\ exists l, abs x = TLeaf l
  | Panic _ => False
  end.
Proof.
  destruct x; simpl; try (split; [reflexivity|eexists; reflexivity]).
  - f_equal. induction es as [|[k v] r IH]; simpl; auto. now rewrite IH.
  - destruct (nil_is_pointer nf); eexists; reflexivity.
Qed.

(* ---------- Get ---------- *)
Lemma get_follows : forall p x,
  match tnav (abs x) p with
  | NFound t => exists y, get true p x = Ok (Some y) /\ abs y = t
  | NAbsent => get true p x = Ok None
  | NNonMap => get true p x = Err EUnsupported
  end.
Proof.
  induction p as [|k rest IH]; intros x.
  - simpl. eexists; split; reflexivity.
  - unfold get in *. simpl get_to. unfold indir.
    pose proof (indir1_abs x) as Hi.
    destruct (indir1 true x) as [[es|]|e|pk].
    + rewrite Hi. simpl tnav. rewrite tlookup_abs.
      destruct (lookup k es) as [c|]; simpl; [apply IH|reflexivity].
    + destruct Hi as [h Hi]. rewrite Hi. simpl. reflexivity.
    + destruct Hi as [-> [l Hi]]. rewrite Hi. reflexivity.
    + destruct Hi.
Qed.

(* ---------- Length ---------- *)
Lemma length_here_abs x : length_here true x = Ok (tlen (abs x)).
Proof.
  destruct x; try reflexivity.
  - unfold length_here. simpl indir. rewrite abs_map. simpl. now rewrite abs_es_length.
  - unfold length_here. simpl. destruct (nil_is_pointer nf); reflexivity.
Qed.

Lemma length_follows : forall p x,
  length true p x =
  match tnav (abs x) p with
  | NFound t => Ok (tlen t)
  | NAbsent => Ok None
  | NNonMap => Err EUnsupported
  end.
Proof.
  induction p as [|k rest IH]; intros x.
  - simpl. apply length_here_abs.
  - simpl length. unfold indir.
    pose proof (indir1_abs x) as Hi.
    destruct (indir1 true x) as [[es|]|e|pk].
    + rewrite Hi. simpl tnav. rewrite tlookup_abs.
      destruct (lookup k es) as [c|]; simpl; [apply IH|reflexivity].
    + destruct Hi as [h Hi]. rewrite Hi. reflexivity.
    + destruct Hi as [-> [l Hi]]. rewrite Hi. reflexivity.
    + destruct Hi.
Qed.

(* ---------- Capacity ---------- *)
Lemma capacity_here_abs x : capacity_here x = Ok (tcap (abs x)).
Proof. destruct x; reflexivity. Qed.

Lemma capacity_follows : forall p x,
  capacity true p x =
  match tnav (abs x) p with
  | NFound t => Ok (tcap t)
  | NAbsent => Ok None
  | NNonMap => Err EUnsupported
  end.
Proof.
  induction p as [|k rest IH]; intros x.
  - simpl. apply capacity_here_abs.
  - simpl capacity. unfold indir.
    pose proof (indir1_abs x) as Hi.
    destruct (indir1 true x) as [[es|]|e|pk].
    + rewrite Hi. simpl tnav. rewrite tlookup_abs.
      destruct (lookup k es) as [c|]; simpl; [apply IH|reflexivity].
    + destruct Hi as [h Hi]. rewrite Hi. reflexivity.
    + destruct Hi as [-> [l Hi]]. rewrite Hi. reflexivity.
    + destruct Hi.
Qed.

(* ---------- Compare ---------- *)
Lemma ascii_compare_refl a : Ascii.compare a a = Eq.
Proof. unfold Ascii.compare. apply N.compare_refl. Qed.

Lemma string_compare_refl s : String.compare s s = Eq.
Proof. induction s as [|a s IH]; simpl; auto. now rewrite ascii_compare_refl. Qed.

Lemma string_eqb_compare a b : String.eqb a b = match String.compare a b with Eq => true | _ => false end.
Proof.
  destruct (String.eqb_spec a b) as [->|Hne].
  - now rewrite string_compare_refl.
  - destruct (String.compare a b) eqn:Hc; auto.
    apply String.compare_eq_iff in Hc. contradiction.
Qed.

Lemma cmp_str_spec c l r : cmp_str c l r = ord_holds (cop_num c) (String.compare l r).
Proof.
  destruct c; simpl; rewrite ?string_eqb_compare; unfold String.ltb, String.leb;
    try rewrite (String.compare_antisym r l); destruct (String.compare l r); reflexivity.
Qed.

Lemma cmp_z_spec c l r : cmp_z c l r = ord_holds (cop_num c) (Z.compare l r).
Proof.
  destruct c; simpl; rewrite ?Z.eqb_compare; unfold Z.ltb, Z.leb;
    try rewrite (Z.compare_antisym l r); destruct (Z.compare l r); reflexivity.
Qed.

Lemma cmp_eqonly_spec {A} (eqb : A -> A -> bool) c l r : cmp_eqonly eqb c l r = eq_holds (cop_num c) (eqb l r).
Proof. destruct c; reflexivity. Qed.

Lemma static_compare_abs x c right : static_compare x c right = tcmp (abs x) (cop_num c) right.
Proof.
  destruct x; try reflexivity; cbn [static_compare abs tcmp].
  - destruct (parse_bool right); auto. now rewrite cmp_eqonly_spec.
  - destruct (is_signed k).
    + destruct (parse_int right 0 64); auto. now rewrite cmp_z_spec.
    + destruct (parse_uint right 0 (2 ^ 64 - 1)); auto. now rewrite cmp_z_spec.
  - now rewrite cmp_str_spec.
  - now rewrite cmp_eqonly_spec.
Qed.

Lemma compare_follows : forall p x c right, p <> [] ->
  compare true p x c right =
  match tnav (abs x) p with
  | NFound t => Ok (tcmp t (cop_num c) right)
  | NAbsent => Ok None
  | NNonMap => Err EUnsupported
  end.
Proof.
  induction p as [|k rest IH]; intros x c right Hne; [congruence|].
  simpl compare.
  pose proof (indir1_abs x) as Hi.
  destruct (indir1 true x) as [[es|]|e|pk].
  - rewrite Hi. simpl tnav. rewrite tlookup_abs.
    destruct (lookup k es) as [y|]; simpl; [|reflexivity].
    destruct rest as [|k2 rest2].
    + simpl. now rewrite static_compare_abs.
    + apply IH. congruence.
  - destruct Hi as [h Hi]. rewrite Hi. reflexivity.
  - destruct Hi as [-> [l Hi]]. rewrite Hi. reflexivity.
  - destruct Hi.
Qed.

(* ---------- Loop ---------- *)
Lemma visit_abs es ctl : abs_es (visit es ctl) = tvisit (abs_es es) ctl.
Proof.
  revert ctl; induction es as [|e r IH]; intros ctl; simpl; auto.
  destruct ctl as [|[| |] ctl']; simpl; try now rewrite IH.
  reflexivity.
Qed.

Lemma loop_follows : forall p x ctl,
  match tnav (abs x) p with
  | NFound (TMap _ es) => exists vis, loop true p x ctl = Ok vis /\ abs_es vis = tvisit es ctl
  | NFound (TLeaf _) => loop true p x ctl = Err EUnsupported
  | NAbsent => loop true p x ctl = Ok []
  | NNonMap => loop true p x ctl = Err EUnsupported
  end.
Proof.
  induction p as [|k rest IH]; intros x ctl.
  - simpl tnav. simpl loop. unfold indir.
    pose proof (indir1_abs x) as Hi.
    destruct (indir1 true x) as [[es|]|e|pk].
    + rewrite Hi. eexists; split; [reflexivity|apply visit_abs].
    + destruct Hi as [h Hi]. rewrite Hi. exists []. split; reflexivity.
    + destruct Hi as [-> [l Hi]]. rewrite Hi. reflexivity.
    + destruct Hi.
  - simpl loop. unfold indir.
    pose proof (indir1_abs x) as Hi.
    destruct (indir1 true x) as [[es|]|e|pk].
    + rewrite Hi. simpl tnav. rewrite tlookup_abs.
      destruct (lookup k es) as [c|]; simpl; [apply IH|reflexivity].
    + destruct Hi as [h Hi]. rewrite Hi. reflexivity.
    + destruct Hi as [-> [l Hi]]. rewrite Hi. reflexivity.
    + destruct Hi.
Qed.

(* every entry exactly once when the iterator never breaks *)
Lemma tvisit_all es ctl : (forall c, In c ctl -> c <> CtlBrk) -> tvisit es ctl = es.
Proof.
  revert ctl; induction es as [|e r IH]; intros ctl H; simpl; auto.
  destruct ctl as [|c ctl'].
  - f_equal. apply IH. intros c [].
  - destruct c; try (f_equal; apply IH; intros c' Hc'; apply H; now right).
    exfalso. apply (H CtlBrk); [now left|reflexivity].
Qed.

(* ---------- absent keys, non-map steps ---------- *)
Lemma absent_no_error : forall p x c right ctl,
  tnav (abs x) p = NAbsent ->
  get true p x = Ok None /\ length true p x = Ok None /\ capacity true p x = Ok None /\
  compare true p x c right = Ok None /\ loop true p x ctl = Ok [].
Proof.
  intros p x c right ctl H.
  assert (Hne : p <> []) by (destruct p; [discriminate|congruence]).
  pose proof (get_follows p x) as Hg. pose proof (loop_follows p x ctl) as Hl.
  rewrite length_follows, capacity_follows, (compare_follows _ _ _ _ Hne).
  rewrite H in *. auto.
Qed.

Lemma non_map_unsupported : forall p x c right ctl,
  tnav (abs x) p = NNonMap ->
  get true p x = Err EUnsupported /\ length true p x = Err EUnsupported /\
  capacity true p x = Err EUnsupported /\ compare true p x c right = Err EUnsupported /\
  loop true p x ctl = Err EUnsupported.
Proof.
  intros p x c right ctl H.
  assert (Hne : p <> []) by (destruct p; [discriminate|congruence]).
  pose proof (get_follows p x) as Hg. pose proof (loop_follows p x ctl) as Hl.
  rewrite length_follows, capacity_follows, (compare_follows _ _ _ _ Hne).
  rewrite H in *. auto.
Qed.

(* no reading operation of the fixed code panics *)
Lemma reads_never_panic : forall p x c right ctl pk,
  get true p x <> Panic pk /\ length true p x <> Panic pk /\ capacity true p x <> Panic pk /\
  compare true p x c right <> Panic pk /\ loop true p x ctl <> Panic pk.
Proof.
  intros p x c right ctl pk.
  pose proof (get_follows p x) as Hg. pose proof (loop_follows p x ctl) as Hl.
  rewrite length_follows, capacity_follows.
  repeat split.
  - destruct (tnav (abs x) p); [destruct Hg as [y [-> _]]|rewrite Hg|rewrite Hg]; discriminate.
  - destruct (tnav (abs x) p); discriminate.
  - destruct (tnav (abs x) p); discriminate.
  - destruct p as [|k r]; [simpl; discriminate|].
    rewrite compare_follows by congruence. destruct (tnav (abs x) (k :: r)); discriminate.
  - destruct (tnav (abs x) p) as [[l|h es]| |]; [rewrite Hl|destruct Hl as [v [-> _]]|rewrite Hl|rewrite Hl]; discriminate.
Qed.
