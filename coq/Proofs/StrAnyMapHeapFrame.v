(* Proofs/StrAnyMapHeapFrame.v - the frame properties of the heap model
   (Model/StrAnyMapHeap.v): an operation addressed at map object a changes no
   other object that existed before, hence no holder that does not reach a sees
   a difference; Reset and Set are exactly the specification's [s_reset] and
   [s_set] (Spec/StrAnyMapStore.v). *)
From Coq Require Import ZArith NArith List String Ascii Bool Arith Lia.
From Verif Require Import Util Ints StrAnyMap StrAnyMapSpec StrAnyMapStore StrAnyMapHeap.
Import ListNotations.
Local Open Scope string_scope.

(* ---------- objects of a store ---------- *)
Lemma put_length st m es : List.length (put st m es) = List.length st.
Proof. apply upd_nth_length. Qed.

Lemma nth_upd_nth_eq {A} n (x d : A) l : n < List.length l -> nth n (upd_nth n x l) d = x.
Proof.
  revert n; induction l as [|y r IH]; intros [|n] H; simpl in *; try lia; auto.
  apply IH; lia.
Qed.

Lemma nth_upd_nth_neq {A} n m (x d : A) l : n <> m -> nth m (upd_nth n x l) d = nth m l d.
Proof.
  revert n m; induction l as [|y r IH]; intros [|n] [|m] H; simpl in *; auto; try congruence.
Qed.

Lemma upd_nth_same {A} n (d : A) l : upd_nth n (nth n l d) l = l.
Proof.
  revert n; induction l as [|y r IH]; intros [|n]; simpl; auto. now rewrite IH.
Qed.

Lemma upd_nth_beyond {A} n (x : A) l : List.length l <= n -> upd_nth n x l = l.
Proof.
  revert n; induction l as [|y r IH]; intros [|n] H; simpl in *; auto; try lia.
  rewrite IH; auto; lia.
Qed.

Lemma obj_put_eq st m es : m < List.length st -> obj (put st m es) m = es.
Proof. apply nth_upd_nth_eq. Qed.

Lemma obj_put_neq st m m' es : m <> m' -> obj (put st m es) m' = obj st m'.
Proof. apply nth_upd_nth_neq. Qed.

Lemma put_same st m : put st m (obj st m) = st.
Proof. apply upd_nth_same. Qed.

Lemma obj_beyond st m : List.length st <= m -> obj st m = [].
Proof. intros H. unfold obj. now apply nth_overflow. Qed.

Lemma obj_alloc_old st es m : m < List.length st -> obj (fst (alloc st es)) m = obj st m.
Proof. intros H. unfold alloc, obj. simpl. now apply app_nth1. Qed.

Lemma obj_alloc_new st es : obj (fst (alloc st es)) (snd (alloc st es)) = es.
Proof. unfold alloc, obj. simpl. rewrite app_nth2; [|lia]. now rewrite Nat.sub_diag. Qed.

Lemma alloc_length st es : List.length (fst (alloc st es)) = S (List.length st).
Proof. unfold alloc. simpl. rewrite app_length. simpl. lia. Qed.

(* ---------- association lists ---------- *)
Lemma supsert_same k c es : slookup k es = Some c -> supsert k c es = es.
Proof.
  induction es as [|[k' v'] r IH]; simpl; [discriminate|].
  destruct (String.eqb_spec k k') as [->|Hne]; intros H.
  - now inversion H.
  - now rewrite IH.
Qed.

(* ================= Reset ================= *)
Lemma h_reset_is_spec st x : h_reset st x = (s_reset st x, Ok tt).
Proof. destruct x; reflexivity. Qed.

Lemma heap_reset_empties st h a : a < List.length st -> obj (fst (h_reset st (SMap h a))) a = [].
Proof. intros H. simpl. now apply obj_put_eq. Qed.

Lemma reset_frame st h a m : m <> a -> obj (fst (h_reset st (SMap h a))) m = obj st m.
Proof. intros H. simpl. apply obj_put_neq. congruence. Qed.

Lemma reset_leaf st l : fst (h_reset st (SLeaf l)) = st.
Proof. reflexivity. Qed.

(* ================= Set ================= *)
(* the two recursive cases of SetWithBuffer, unfolded *)
Lemma h_set_eq st path dst value :
  h_set st path dst value =
  match path with
  | [] => (st, Ok tt)
  | k :: rest =>
    match dst with
    | SLeaf _ => (st, Err EUnsupported)
    | SMap _ m =>
      match rest with
      | [] => (put st m (supsert k (h_bufferized value) (obj st m)), Ok tt)
      | _ :: _ =>
        let '(st0, x) :=
          match slookup k (obj st m) with
          | Some x => (st, x)
          | None => let '(st1, id) := alloc st [] in (st1, SMap HVal id)
          end in
        let '(st1, r) := h_set st0 rest x value in
        (put st1 m (supsert k x (obj st1 m)), r)
      end
    end
  end.
Proof. destruct path; reflexivity. Qed.

Lemma h_set_some st k k2 rest h m v c : slookup k (obj st m) = Some c ->
  h_set st (k :: k2 :: rest) (SMap h m) v =
  (put (fst (h_set st (k2 :: rest) c v)) m (supsert k c (obj (fst (h_set st (k2 :: rest) c v)) m)),
   snd (h_set st (k2 :: rest) c v)).
Proof.
  intros H. rewrite h_set_eq. cbv beta iota. rewrite H.
  destruct (h_set st (k2 :: rest) c v) as [st1 r]. reflexivity.
Qed.

Definition made_st (st : store) : store := fst (alloc st []).
Definition made_map (st : store) : snode := SMap HVal (snd (alloc st [])).

Lemma h_set_none st k k2 rest h m v : slookup k (obj st m) = None ->
  h_set st (k :: k2 :: rest) (SMap h m) v =
  (put (fst (h_set (made_st st) (k2 :: rest) (made_map st) v)) m
       (supsert k (made_map st) (obj (fst (h_set (made_st st) (k2 :: rest) (made_map st) v)) m)),
   snd (h_set (made_st st) (k2 :: rest) (made_map st) v)).
Proof.
  intros H. rewrite h_set_eq. cbv beta iota. rewrite H. unfold made_st, made_map.
  destruct (alloc st []) as [st1 id]. cbv beta iota. cbn [fst snd].
  destruct (h_set st1 (k2 :: rest) (SMap HVal id) v) as [st2 r]. reflexivity.
Qed.

Lemma fresh_st_length st : List.length (made_st st) = S (List.length st).
Proof. apply alloc_length. Qed.

Lemma set_grows p : forall st x v, List.length st <= List.length (fst (h_set st p x v)).
Proof.
  induction p as [|k rest IH]; intros st x v; [simpl; auto|].
  destruct x as [l|h m]; [simpl; auto|].
  destruct rest as [|k2 rest'].
  - simpl. rewrite put_length. auto.
  - destruct (slookup k (obj st m)) as [c|] eqn:El.
    + rewrite (h_set_some _ _ _ _ _ _ _ _ El). cbn [fst]. rewrite put_length. apply IH.
    + rewrite (h_set_none _ _ _ _ _ _ _ El). cbn [fst]. rewrite put_length.
      specialize (IH (made_st st) (made_map st) v). rewrite fresh_st_length in IH. lia.
Qed.

(* below a map that was just made, the path addresses that map *)
Lemma target_fresh st k2 rest : s_target (made_st st) (made_map st) (k2 :: rest) = Some (List.length st).
Proof.
  unfold made_map, made_st. cbn [s_target]. destruct rest as [|k3 rest']; auto.
  rewrite obj_alloc_new. reflexivity.
Qed.

(* Set changes, among the objects that existed, only the one the path addresses *)
Lemma set_frame p : forall st x v m, m < List.length st -> s_target st x p <> Some m ->
  obj (fst (h_set st p x v)) m = obj st m.
Proof.
  induction p as [|k rest IH]; intros st x v m Hm Ht; [simpl; auto|].
  destruct x as [l|h a]; [simpl; auto|].
  cbn [s_target] in Ht.
  destruct rest as [|k2 rest'].
  - simpl. apply obj_put_neq. congruence.
  - destruct (slookup k (obj st a)) as [c|] eqn:El.
    + rewrite (h_set_some _ _ _ _ _ _ _ _ El). cbn [fst].
      pose proof (IH st c v m Hm Ht) as IHm.
      pose proof (set_grows (k2 :: rest') st c v) as Hg.
      destruct (Nat.eq_dec a m) as [->|Hne].
      * rewrite obj_put_eq by lia. rewrite IHm. now apply supsert_same.
      * rewrite obj_put_neq by auto. exact IHm.
    + rewrite (h_set_none _ _ _ _ _ _ _ El). cbn [fst].
      rewrite obj_put_neq by congruence.
      rewrite IH.
      * now apply obj_alloc_old.
      * rewrite fresh_st_length. lia.
      * rewrite target_fresh. intros H. inversion H. lia.
Qed.

(* ================= cpy / CopyTo / Copy ================= *)
Definition grows_only (st st' : store) : Prop :=
  List.length st <= List.length st' /\ forall m, m < List.length st -> obj st' m = obj st m.

Lemma grows_only_refl st : grows_only st st.
Proof. split; auto. Qed.

Lemma grows_only_trans a b c : grows_only a b -> grows_only b c -> grows_only a c.
Proof.
  intros [H1 H2] [H3 H4]. split; [lia|]. intros m Hm. rewrite H4 by lia. now apply H2.
Qed.

Lemma grows_only_alloc st es : grows_only st (fst (alloc st es)).
Proof. split; [rewrite alloc_length; lia|]. intros m Hm. now apply obj_alloc_old. Qed.

Lemma cpy_list_frame rec : (forall st es, grows_only st (fst (rec st es))) ->
  forall l st, grows_only st (fst (cpy_list rec l st)).
Proof.
  intros Hrec. induction l as [|[k v] r IHr]; intros st; cbn [cpy_list]; [apply grows_only_refl|].
  destruct v as [lf|h a].
  - specialize (IHr st). destruct (cpy_list rec r st) as [st2 r']. exact IHr.
  - pose proof (Hrec st (obj st a)) as H1.
    destruct (rec st (obj st a)) as [st' es']. cbn [fst] in H1.
    pose proof (grows_only_alloc st' es') as H2.
    destruct (alloc st' es') as [st'' id]. cbn [fst] in H2.
    specialize (IHr st''). destruct (cpy_list rec r st'') as [st2 r']. cbn [fst] in *.
    eapply grows_only_trans; [exact H1|]. eapply grows_only_trans; [exact H2|exact IHr].
Qed.

Lemma cpy_frame fuel : forall st es, grows_only st (fst (h_cpy fuel st es)).
Proof.
  induction fuel as [|f IH]; intros st es; cbn [h_cpy]; [apply grows_only_refl|].
  now apply cpy_list_frame.
Qed.

(* CopyTo changes, among the objects that existed, only the destination's *)
Lemma copy_to_frame st src dst m : m < List.length st ->
  (forall h, dst <> SMap h m) ->
  obj (fst (h_copy_to st src dst)) m = obj st m.
Proof.
  intros Hm Hd. unfold h_copy_to.
  destruct src as [l|hs ms]; auto.
  destruct dst as [l|hd md]; auto.
  assert (Hne : md <> m) by (intros ->; now apply (Hd hd)).
  assert (Hgen : forall fuel,
            obj (fst (let '(st1, es) := h_cpy fuel (put st md []) (obj (put st md []) ms) in
                      (put st1 md es, Ok tt))) m = obj st m).
  { intros fuel. destruct (cpy_frame fuel (put st md []) (obj (put st md []) ms)) as [Hg Hf].
    destruct (h_cpy fuel (put st md []) (obj (put st md []) ms)) as [st1 es]. cbn [fst] in *.
    rewrite obj_put_neq by auto. rewrite Hf by (rewrite put_length; lia).
    now apply obj_put_neq. }
  destruct hd; auto; apply Hgen.
Qed.

Lemma copy_to_grows st src dst : List.length st <= List.length (fst (h_copy_to st src dst)).
Proof.
  unfold h_copy_to. destruct src as [l|hs ms]; auto. destruct dst as [l|hd md]; auto.
  assert (Hgen : forall fuel,
            List.length st <=
            List.length (fst (let '(st1, es) := h_cpy fuel (put st md []) (obj (put st md []) ms) in
                              (put st1 md es, Ok tt)))).
  { intros fuel. destruct (cpy_frame fuel (put st md []) (obj (put st md []) ms)) as [Hg Hf].
    destruct (h_cpy fuel (put st md []) (obj (put st md []) ms)) as [st1 es]. cbn [fst] in *.
    rewrite put_length in *. auto. }
  destruct hd; auto; apply Hgen.
Qed.

(* Copy changes no object that existed; what it returns is a new object *)
Lemma copy_frame st x m : m < List.length st ->
  obj (fst (fst (h_copy st x))) m = obj st m.
Proof.
  intros Hm. unfold h_copy.
  destruct (grows_only_alloc st []) as [Hg Hf].
  assert (Hid : snd (alloc st []) = List.length st) by reflexivity.
  destruct (alloc st []) as [st0 id]. cbn [fst snd] in *.
  pose proof (copy_to_frame st0 x (SMap HPtr id) m) as H.
  destruct (h_copy_to st0 x (SMap HPtr id)) as [st1 r]. cbn [fst] in *.
  rewrite H.
  - now apply Hf.
  - lia.
  - intros h Heq. inversion Heq. lia.
Qed.

Lemma copy_result_new st x : snd (fst (h_copy st x)) = SMap HVal (List.length st).
Proof.
  unfold h_copy.
  assert (Hid : snd (alloc st []) = List.length st) by reflexivity.
  destruct (alloc st []) as [st0 id]. cbn [snd] in Hid. subst id.
  destruct (h_copy_to st0 x (SMap HPtr (List.length st))) as [st1 r]. reflexivity.
Qed.

Lemma copy_grows st x : List.length st <= List.length (fst (fst (h_copy st x))).
Proof.
  unfold h_copy.
  destruct (grows_only_alloc st []) as [Hg Hf].
  destruct (alloc st []) as [st0 id]. cbn [fst] in *.
  pose proof (copy_to_grows st0 x (SMap HPtr id)) as H.
  destruct (h_copy_to st0 x (SMap HPtr id)) as [st1 r]. cbn [fst] in *. lia.
Qed.

(* ================= what holders see ================= *)
(* a holder that does not reach object a (nor leaves the store) sees the same
   tree in any later store that agrees on every other old object *)
Lemma view_frame fuel : forall st st' a y,
  List.length st <= List.length st' ->
  (forall m, m < List.length st -> m <> a -> obj st' m = obj st m) ->
  reaches fuel st y a = false ->
  view fuel st' y = view fuel st y.
Proof.
  induction fuel as [|f IH]; intros st st' a y Hlen Hobj Hr; simpl; auto.
  destruct y as [l|h m]; auto.
  simpl in Hr.
  apply orb_false_elim in Hr. destruct Hr as [Hr1 Hr2].
  apply orb_false_elim in Hr1. destruct Hr1 as [Hne Hin].
  apply Nat.eqb_neq in Hne. apply negb_false_iff in Hin. apply Nat.ltb_lt in Hin.
  rewrite (Hobj m Hin Hne). f_equal.
  apply map_ext_in. intros [k v] Hkv. simpl. f_equal.
  apply (IH st st' a v Hlen Hobj).
  destruct (reaches f st v a) eqn:Ev; auto.
  assert (Hex : existsb (fun kv => reaches f st (snd kv) a) (obj st m) = true).
  { apply existsb_exists. exists (k, v). split; auto. }
  congruence.
Qed.

Theorem reset_holder_frame fuel st h a y :
  reaches fuel st y a = false ->
  view fuel (fst (h_reset st (SMap h a))) y = view fuel st y.
Proof.
  intros Hr. apply (view_frame fuel st _ a y); auto.
  - simpl. rewrite put_length. auto.
  - intros m _ Hne. now apply reset_frame.
Qed.

Theorem set_holder_frame fuel st p x v a y :
  s_target st x p = Some a ->
  reaches fuel st y a = false ->
  view fuel (fst (h_set st p x v)) y = view fuel st y.
Proof.
  intros Ht Hr. apply (view_frame fuel st _ a y); auto.
  - apply set_grows.
  - intros m Hm Hne. apply set_frame; auto. rewrite Ht. congruence.
Qed.

(* a Set that addresses no object (empty path, or a step through a non-map) changes nothing that existed *)
Theorem set_no_target_frame st p x v m :
  s_target st x p = None -> m < List.length st -> obj (fst (h_set st p x v)) m = obj st m.
Proof. intros Ht Hm. apply set_frame; auto. rewrite Ht. discriminate. Qed.

Theorem copy_to_holder_frame fuel st src hd md y :
  reaches fuel st y md = false ->
  view fuel (fst (h_copy_to st src (SMap hd md))) y = view fuel st y.
Proof.
  intros Hr. apply (view_frame fuel st _ md y); auto.
  - apply copy_to_grows.
  - intros m Hm Hne. apply copy_to_frame; auto. intros h Heq. inversion Heq. congruence.
Qed.

(* Copy: no holder whose references stay inside the store sees a difference *)
Theorem copy_holder_frame fuel st x y :
  reaches fuel st y (List.length st) = false ->
  view fuel (fst (fst (h_copy st x))) y = view fuel st y.
Proof.
  intros Hr. apply (view_frame fuel st _ (List.length st) y); auto.
  - apply copy_grows.
  - intros m Hm _. now apply copy_frame.
Qed.

(* ================= Set is the specification's s_set ================= *)
Lemma upd_nth_comm {A} a b (x y : A) l : a <> b -> upd_nth a x (upd_nth b y l) = upd_nth b y (upd_nth a x l).
Proof.
  revert a b; induction l as [|z r IH]; intros [|a] [|b] H; simpl; auto; try congruence.
  rewrite IH; auto.
Qed.

Lemma put_comm st a b x y : a <> b -> put (put st b y) a x = put (put st a x) b y.
Proof. intros H. unfold put. now apply upd_nth_comm. Qed.

Lemma upd_nth_app {A} a (x : A) l l2 : a < List.length l -> upd_nth a x (l ++ l2) = (upd_nth a x l ++ l2)%list.
Proof.
  revert a; induction l as [|z r IH]; intros [|a] H; simpl in *; auto; try lia.
  rewrite IH; auto; lia.
Qed.

Lemma alloc_put st a E es : a < List.length st ->
  alloc (put st a E) es = (put (fst (alloc st es)) a E, snd (alloc st es)).
Proof.
  intros H. unfold alloc, put. cbn [fst snd]. rewrite upd_nth_length. f_equal.
  symmetry. now apply upd_nth_app.
Qed.

(* the chain only writes the object it is given and objects it makes *)
Lemma chain_frame q : forall st id v,
  List.length st <= List.length (s_chain st id q v) /\
  forall m, m < List.length st -> m <> id -> obj (s_chain st id q v) m = obj st m.
Proof.
  induction q as [|k rest IH]; intros st id v; [simpl; auto|].
  destruct rest as [|k2 rest'].
  - simpl. rewrite put_length. split; auto. intros m _ Hne. apply obj_put_neq. congruence.
  - change (s_chain st id (k :: k2 :: rest') v)
      with (let '(st1, id') := alloc st [] in s_chain (put st1 id [(k, SMap HVal id')]) id' (k2 :: rest') v).
    destruct (grows_only_alloc st []) as [Hg Hf].
    assert (Hid : snd (alloc st []) = List.length st) by reflexivity.
    destruct (alloc st []) as [st1 id']. cbn [fst snd] in *. subst id'.
    destruct (IH (put st1 id [(k, SMap HVal (List.length st))]) (List.length st) v) as [H1 H2].
    rewrite put_length in *. split; [lia|].
    intros m Hm Hne. rewrite H2 by lia. rewrite obj_put_neq by congruence. now apply Hf.
Qed.

Lemma chain_put_comm q : forall st a id E v, a <> id -> a < List.length st ->
  s_chain (put st a E) id q v = put (s_chain st id q v) a E.
Proof.
  induction q as [|k rest IH]; intros st a id E v Hne Ha; [reflexivity|].
  destruct rest as [|k2 rest'].
  - simpl. apply put_comm. congruence.
  - change (s_chain (put st a E) id (k :: k2 :: rest') v)
      with (let '(st1, id') := alloc (put st a E) [] in s_chain (put st1 id [(k, SMap HVal id')]) id' (k2 :: rest') v).
    change (s_chain st id (k :: k2 :: rest') v)
      with (let '(st1, id') := alloc st [] in s_chain (put st1 id [(k, SMap HVal id')]) id' (k2 :: rest') v).
    rewrite alloc_put by auto.
    destruct (grows_only_alloc st []) as [Hg Hf].
    assert (Hid : snd (alloc st []) = List.length st) by reflexivity.
    destruct (alloc st []) as [st1 id']. cbn [fst snd] in *. subst id'.
    rewrite (put_comm st1 id a) by congruence.
    apply IH; [lia|]. rewrite put_length. lia.
Qed.

(* SetWithBuffer below a map that was just made builds the chain *)
Lemma set_on_fresh q : forall st id v, q <> [] -> id < List.length st -> obj st id = [] ->
  h_set st q (SMap HVal id) v = (s_chain st id q (h_bufferized v), Ok tt).
Proof.
  induction q as [|k rest IH]; intros st id v Hq Hid Hobj; [congruence|].
  destruct rest as [|k2 rest'].
  - simpl. rewrite Hobj. reflexivity.
  - assert (El : slookup k (obj st id) = None) by (rewrite Hobj; reflexivity).
    rewrite (h_set_none _ _ _ _ _ _ _ El).
    change (s_chain st id (k :: k2 :: rest') (h_bufferized v))
      with (let '(st1, id') := alloc st [] in
            s_chain (put st1 id [(k, SMap HVal id')]) id' (k2 :: rest') (h_bufferized v)).
    unfold made_st, made_map.
    destruct (grows_only_alloc st []) as [Hg Hf].
    assert (Hid' : snd (alloc st []) = List.length st) by reflexivity.
    pose proof (obj_alloc_new st []) as Hnew.
    pose proof (alloc_length st []) as Hal.
    destruct (alloc st []) as [st1 id']. cbn [fst snd] in *. subst id'.
    rewrite (IH st1 (List.length st) v); [|discriminate|lia|exact Hnew].
    cbn [fst snd].
    destruct (chain_frame (k2 :: rest') st1 (List.length st) (h_bufferized v)) as [Hc1 Hc2].
    rewrite Hc2 by lia. rewrite Hf by lia. rewrite Hobj. cbn [supsert].
    rewrite chain_put_comm by lia. reflexivity.
Qed.

Lemma target_in_path p : forall st x a, s_target st x p = Some a -> In a (path_objs st p x).
Proof.
  induction p as [|k rest IH]; intros st x a H; [discriminate|].
  destruct x as [l|h m]; [discriminate|].
  cbn [s_target] in H. cbn [path_objs].
  destruct rest as [|k2 rest'].
  - inversion H. now left.
  - destruct (slookup k (obj st m)) as [c|].
    + right. now apply IH.
    + inversion H. now left.
Qed.

Lemma sstored_bufferized v : sstored v = h_bufferized v.
Proof. reflexivity. Qed.

Lemma s_set_eq st x path v :
  s_set st x path v =
  match path with
  | [] => SSetOk st
  | k :: rest =>
    match x with
    | SLeaf _ => SSetNonMap
    | SMap _ m =>
      match rest with
      | [] => SSetOk (put st m (supsert k v (obj st m)))
      | _ :: _ =>
        match slookup k (obj st m) with
        | Some c => s_set st c rest v
        | None =>
          let '(st1, id) := alloc st [] in
          SSetOk (s_chain (put st1 m (supsert k (SMap HVal id) (obj st1 m))) id rest v)
        end
      end
    end
  end.
Proof. destruct path; reflexivity. Qed.

Lemma s_set_some st k k2 rest h m v c : slookup k (obj st m) = Some c ->
  s_set st (SMap h m) (k :: k2 :: rest) v = s_set st c (k2 :: rest) v.
Proof. intros H. rewrite s_set_eq. cbv beta iota. now rewrite H. Qed.

Lemma s_set_none st k k2 rest h m v : slookup k (obj st m) = None ->
  s_set st (SMap h m) (k :: k2 :: rest) v =
  SSetOk (s_chain (put (fst (alloc st [])) m (supsert k (SMap HVal (snd (alloc st []))) (obj (fst (alloc st [])) m)))
                  (snd (alloc st [])) (k2 :: rest) v).
Proof.
  intros H. rewrite s_set_eq. cbv beta iota. rewrite H. destruct (alloc st []) as [st1 id]. reflexivity.
Qed.

(* Set = s_set when the path does not run through the same map object twice *)
Lemma set_is_spec p : forall st x v, p <> [] ->
  NoDup (path_objs st p x) -> Forall (fun m => m < List.length st) (path_objs st p x) ->
  match s_set st x p (sstored v) with
  | SSetOk st' => h_set st p x v = (st', Ok tt)
  | SSetNonMap => h_set st p x v = (st, Err EUnsupported)
  end.
Proof.
  induction p as [|k rest IH]; intros st x v Hp Hnd Hin; [congruence|].
  destruct x as [l|h m]; [reflexivity|].
  cbn [path_objs] in Hnd, Hin.
  inversion Hnd as [|m' tl Hnotin Hnd' Heq]; subst.
  inversion Hin as [|m' tl Hm Hin' Heq]; subst.
  destruct rest as [|k2 rest'].
  - reflexivity.
  - destruct (slookup k (obj st m)) as [c|] eqn:El.
    + rewrite (s_set_some _ _ _ _ _ _ _ _ El).
      rewrite (h_set_some _ _ _ _ _ _ _ _ El).
      assert (Hp' : k2 :: rest' <> []) by discriminate.
      pose proof (IH st c v Hp' Hnd' Hin') as IHc.
      assert (Hfr : obj (fst (h_set st (k2 :: rest') c v)) m = obj st m).
      { apply set_frame; auto. intros Ht. apply Hnotin. now apply target_in_path. }
      destruct (s_set st c (k2 :: rest') (sstored v)) as [st'|].
      * rewrite IHc in *. cbn [fst snd] in *. rewrite Hfr.
        rewrite (supsert_same _ _ _ El). rewrite <- Hfr. now rewrite put_same.
      * rewrite IHc. cbn [fst snd]. rewrite (supsert_same _ _ _ El). now rewrite put_same.
    + rewrite (s_set_none _ _ _ _ _ _ _ El).
      rewrite (h_set_none _ _ _ _ _ _ _ El). unfold made_st, made_map.
      destruct (grows_only_alloc st []) as [Hg Hf].
      assert (Hid' : snd (alloc st []) = List.length st) by reflexivity.
      pose proof (obj_alloc_new st []) as Hnew.
      pose proof (alloc_length st []) as Hal.
      destruct (alloc st []) as [st1 id']. cbn [fst snd] in *. subst id'.
      rewrite (set_on_fresh (k2 :: rest') st1 (List.length st) v); [|discriminate|lia|exact Hnew].
      cbn [fst snd]. change (sstored v) with (h_bufferized v).
      destruct (chain_frame (k2 :: rest') st1 (List.length st) (h_bufferized v)) as [Hc1 Hc2].
      rewrite Hc2 by lia.
      rewrite chain_put_comm by lia. reflexivity.
Qed.

(* ================= Copy / CopyTo hand out fresh maps only ================= *)
(* a node made after the store had n objects *)
Definition new_node (n : nat) (st : store) (v : snode) : Prop :=
  match v with SMap _ id => n <= id /\ id < List.length st | SLeaf _ => True end.
Definition new_entries (n : nat) (st : store) (es : sentries) : Prop :=
  Forall (fun kv => new_node n st (snd kv)) es.
(* every object made since then holds leaves and such nodes only *)
Definition new_closed (n : nat) (st : store) : Prop :=
  forall m, n <= m -> m < List.length st -> new_entries n st (obj st m).

Lemma new_node_mono n st st' v : List.length st <= List.length st' -> new_node n st v -> new_node n st' v.
Proof. intros H. destruct v; simpl; auto. intros [H1 H2]. split; lia. Qed.

Lemma new_entries_mono n st st' es : List.length st <= List.length st' -> new_entries n st es -> new_entries n st' es.
Proof.
  intros H Hes. unfold new_entries in *. rewrite Forall_forall in *. intros kv Hkv.
  eapply new_node_mono; eauto.
Qed.

Lemma new_closed_alloc n st es : n <= List.length st -> new_closed n st -> new_entries n st es ->
  new_closed n (fst (alloc st es)).
Proof.
  intros Hn Hc Hes m Hm1 Hm2. rewrite alloc_length in Hm2.
  destruct (Nat.eq_dec m (List.length st)) as [->|Hne].
  - replace (obj (fst (alloc st es)) (List.length st)) with es by (symmetry; apply (obj_alloc_new st es)).
    eapply new_entries_mono; [|exact Hes]. rewrite alloc_length. lia.
  - rewrite obj_alloc_old by lia.
    eapply new_entries_mono; [|apply Hc; lia]. rewrite alloc_length. lia.
Qed.

Definition cpy_ok (n : nat) (rec : store -> sentries -> store * sentries) : Prop :=
  forall st es, n <= List.length st -> new_closed n st ->
    new_closed n (fst (rec st es)) /\ new_entries n (fst (rec st es)) (snd (rec st es)).

Lemma cpy_list_ok n rec : (forall st es, grows_only st (fst (rec st es))) -> cpy_ok n rec ->
  forall l st, n <= List.length st -> new_closed n st ->
    new_closed n (fst (cpy_list rec l st)) /\ new_entries n (fst (cpy_list rec l st)) (snd (cpy_list rec l st)).
Proof.
  intros Hgr Hrec. induction l as [|[k v] r IHr]; intros st Hn Hc; cbn [cpy_list].
  - split; auto. constructor.
  - destruct v as [lf|h a].
    + destruct (IHr st Hn Hc) as [H1 H2].
      destruct (cpy_list rec r st) as [st2 r']. cbn [fst snd] in *. split; auto.
      constructor; auto. simpl. auto.
    + destruct (Hrec st (obj st a) Hn Hc) as [Hc1 He1].
      destruct (Hgr st (obj st a)) as [Hg1 _].
      destruct (rec st (obj st a)) as [st' es']. cbn [fst snd] in *.
      pose proof (new_closed_alloc n st' es' ltac:(lia) Hc1 He1) as Hc2.
      pose proof (alloc_length st' es') as Hal.
      assert (Hid : snd (alloc st' es') = List.length st') by reflexivity.
      destruct (alloc st' es') as [st'' id]. cbn [fst snd] in *. subst id.
      destruct (IHr st'' ltac:(lia) Hc2) as [H1 H2].
      destruct (cpy_list_frame rec Hgr r st'') as [Hg2 _].
      destruct (cpy_list rec r st'') as [st2 r']. cbn [fst snd] in *. split; auto.
      constructor; auto. simpl. lia.
Qed.

Lemma cpy_ok_all n fuel : cpy_ok n (h_cpy fuel).
Proof.
  induction fuel as [|f IH]; intros st es Hn Hc; cbn [h_cpy].
  - split; auto. constructor.
  - apply cpy_list_ok; auto. intros st0 es0. apply cpy_frame.
Qed.

Lemma new_closed_put n st m es : n <= m -> new_closed n st -> new_entries n st es -> new_closed n (put st m es).
Proof.
  intros Hm Hc Hes m' H1 H2. rewrite put_length in H2.
  destruct (Nat.eq_dec m m') as [<-|Hne].
  - rewrite obj_put_eq by auto. eapply new_entries_mono; [|exact Hes]. rewrite put_length. lia.
  - rewrite obj_put_neq by auto. eapply new_entries_mono; [|apply Hc; auto]. rewrite put_length. lia.
Qed.

Lemma new_closed_put_old n st m es : m < n -> new_closed n st -> new_closed n (put st m es).
Proof.
  intros Hm Hc m' H1 H2. rewrite put_length in H2.
  rewrite obj_put_neq by lia. eapply new_entries_mono; [|apply Hc; auto]. rewrite put_length. lia.
Qed.

(* a new node reaches new objects only *)
Lemma new_node_reaches n fuel : forall st v a, new_closed n st -> new_node n st v -> a < n ->
  reaches fuel st v a = false.
Proof.
  induction fuel as [|f IH]; intros st v a Hc Hv Ha; [reflexivity|].
  destruct v as [l|h id]; [reflexivity|].
  simpl in Hv. destruct Hv as [H1 H2]. cbn [reaches].
  replace (Nat.eqb id a) with false by (symmetry; apply Nat.eqb_neq; lia).
  replace (Nat.ltb id (List.length st)) with true by (symmetry; apply Nat.ltb_lt; lia).
  cbn [negb orb].
  destruct (existsb (fun kv => reaches f st (snd kv) a) (obj st id)) eqn:E; auto.
  apply existsb_exists in E. destruct E as [[k v] [Hin Hr]]. simpl in Hr.
  pose proof (Hc id H1 H2) as Hes. unfold new_entries in Hes. rewrite Forall_forall in Hes.
  specialize (Hes (k, v) Hin). simpl in Hes.
  rewrite (IH st v a Hc Hes Ha) in Hr. discriminate.
Qed.

Lemma new_closed_start st : new_closed (List.length st) st.
Proof. intros m H1 H2. lia. Qed.

(* after CopyTo the destination holds leaves and maps made by this call only:
   nothing that existed before can be reached through its entries *)
Lemma copy_to_fresh st hs ms hd md fuel a : hd <> HVal -> md < List.length st -> a < List.length st ->
  forall kv, In kv (obj (fst (h_copy_to st (SMap hs ms) (SMap hd md))) md) ->
  reaches fuel (fst (h_copy_to st (SMap hs ms) (SMap hd md))) (snd kv) a = false.
Proof.
  intros Hhd Hmd Ha. unfold h_copy_to.
  set (n := List.length st).
  assert (Hgen : forall fu kv,
            In kv (obj (fst (let '(st1, es) := h_cpy fu (put st md []) (obj (put st md []) ms) in
                             (put st1 md es, Ok tt))) md) ->
            reaches fuel (fst (let '(st1, es) := h_cpy fu (put st md []) (obj (put st md []) ms) in
                               (put st1 md es, @Ok unit tt))) (snd kv) a = false).
  { intros fu kv.
    assert (Hc0 : new_closed n (put st md [])).
    { apply new_closed_put_old; auto. apply new_closed_start. }
    assert (Hn0 : n <= List.length (put st md [])) by (rewrite put_length; auto).
    destruct (cpy_ok_all n fu (put st md []) (obj (put st md []) ms) Hn0 Hc0) as [Hc1 He1].
    destruct (cpy_frame fu (put st md []) (obj (put st md []) ms)) as [Hg _].
    destruct (h_cpy fu (put st md []) (obj (put st md []) ms)) as [st1 es]. cbn [fst snd] in *.
    rewrite put_length in Hg.
    rewrite obj_put_eq by (unfold n in *; lia). intros Hin.
    apply (new_node_reaches n); auto.
    - apply new_closed_put_old; auto.
    - unfold new_entries in He1. rewrite Forall_forall in He1.
      eapply new_node_mono; [|apply He1; exact Hin]. rewrite put_length. auto. }
  destruct hd; [congruence|apply Hgen|apply Hgen].
Qed.

(* what Copy returns reaches nothing that existed *)
Lemma copy_fresh_heap st x fuel a : a < List.length st ->
  reaches fuel (fst (fst (h_copy st x))) (snd (fst (h_copy st x))) a = false.
Proof.
  intros Ha. rewrite copy_result_new. unfold h_copy.
  set (n := List.length st).
  assert (Hc0 : new_closed n (fst (alloc st []))).
  { apply new_closed_alloc; auto. apply new_closed_start. constructor. }
  pose proof (alloc_length st []) as Hal.
  assert (Hid : snd (alloc st []) = n) by reflexivity.
  destruct (alloc st []) as [st0 id]. cbn [fst snd] in *. subst id.
  apply (new_node_reaches n); auto.
  - unfold h_copy_to. destruct x as [l|hs ms]; [exact Hc0|].
    assert (Hc1 : new_closed n (put st0 n [])).
    { apply new_closed_put; auto. constructor. }
    assert (Hn1 : n <= List.length (put st0 n [])) by (rewrite put_length; lia).
    destruct (cpy_ok_all n (S (List.length (put st0 n []))) (put st0 n []) (obj (put st0 n []) ms) Hn1 Hc1) as [Hc2 He2].
    destruct (h_cpy (S (List.length (put st0 n []))) (put st0 n []) (obj (put st0 n []) ms)) as [st1 es].
    cbn [fst snd] in *. apply new_closed_put; auto.
  - pose proof (copy_to_grows st0 x (SMap HPtr n)) as Hg.
    destruct (h_copy_to st0 x (SMap HPtr n)) as [st1 r]. cbn [fst] in *. simpl. lia.
Qed.
