(* Proofs/CopyEqual.v - C06_equal: the model of the generated DeepEqual (C05: Model/Deq.v) reports
   source and copy equal.  Composition of "the copy is the source up to nil-versus-empty
   collections" (ResetCopySound) with "structurally identical values compare equal" (C05,
   deep_equal_copy); the bridge is [seq_of_canon]: two well-typed values with the same normal form
   are structurally identical in the sense of Spec/DeqSpec.v, on the domain without non-empty
   pointer-keyed maps (distinct values never have the same pointer keys). *)
From Coq Require Import List Bool String Ascii ZArith Arith Lia Floats.SpecFloat.
From Verif Require Import Util Ints Strconv Floats Node Value Outcome LCSound InsReset InsCopy EmptySpec ResetCopySound
                          Deq DeqSpec DeqKeys DeqPaths DeqSound DeqSym DeqRefl DeqMain.
Import ListNotations.
Local Open Scope string_scope.
Local Open Scope list_scope.

(* no non-empty map with pointer keys anywhere in the value *)
Fixpoint npk (n : node) (v : val) {struct n} : bool :=
  match n with
  | Node ty tn tu nm pk pki p chld mk mv sl hb hc =>
    let inner (x : val) : bool :=
      match ty with
      | typeBasic => true
      | typeStruct => match x with VStruct fs => forallb2 npk chld fs | _ => true end
      | typeMap =>
        match x, mk, mv with
        | VMap _ kvs, Some kn, Some vn =>
          (negb (n_ptr kn) || match kvs with [] => true | _ => false end) && forallb (fun kv => npk vn (snd kv)) kvs
        | _, _, _ => true
        end
      | typeSlice =>
        match x, sl with
        | VSlice _ es _, Some en => forallb (npk en) es
        | _, _ => true
        end
      end in
    if p then match v with VPtr (Some x) => inner x | _ => true end else inner v
  end.

Lemma map_eq_in {A B} (f : A -> B) : forall l r x, map f l = map f r -> In x l -> exists y, In y r /\ f x = f y.
Proof.
  induction l as [|a l IH]; intros [|b r] x E I; try discriminate; [contradiction|].
  cbn [map] in E. inversion E as [[E1 E2]]. destruct I as [<-|I].
  - exists b. split; [left; reflexivity|exact E1].
  - destruct (IH r x E2 I) as (y & Iy & Ey). exists y. split; [right; exact Iy|exact Ey].
Qed.

Lemma keys_ok_fst : forall l r, map fst l = map fst r -> keys_ok l = keys_ok r.
Proof.
  induction l as [|[k v] l IH]; intros [|[k' v'] r] E; try discriminate; [reflexivity|].
  cbn [map fst] in E. inversion E as [[E1 E2]]. subst k'. cbn [keys_ok].
  rewrite (IH r E2). f_equal. f_equal. f_equal.
  clear -E2. revert r E2. induction l as [|[a b] l IHl]; intros [|[a' b'] r] E2; try discriminate; [reflexivity|].
  cbn [map fst] in E2. inversion E2 as [[F1 F2]]. subst a'. cbn [existsb fst]. rewrite (IHl r F2). reflexivity.
Qed.

Definition is_scalar_v (v : val) : bool := match v with VBool _ | VInt _ | VFloat _ | VStr _ => true | _ => false end.

Lemma scalar_canon pz v : is_scalar_v v = true -> canon pz v = v.
Proof. destruct v; try discriminate; reflexivity. Qed.

Lemma basic_key_scalar kn k : wfn kn = true -> n_typ kn = typeBasic -> n_ptr kn = false -> wtb kn k = true -> is_scalar_v k = true.
Proof.
  destruct kn as [ty tn tu nm pk pki p chld mk mv sl hb hc]. cbn [n_typ n_ptr]. intros W -> -> T.
  cbn [wtb] in T. destruct (skind_of_name tu) as [s|]; [|discriminate].
  destruct s, k; try discriminate; reflexivity.
Qed.

Lemma canon_kv_fst : forall lk rk,
  (forall kv, In kv lk -> is_scalar_v (fst kv) = true) -> (forall kv, In kv rk -> is_scalar_v (fst kv) = true) ->
  map (canon_kv false) lk = map (canon_kv false) rk -> map fst lk = map fst rk.
Proof.
  induction lk as [|[k v] lk IH]; intros [|[k' v'] rk] SL SR E; try discriminate; [reflexivity|].
  cbn [map] in E. inversion E as [[E1 E2 E3]]. cbn [fst snd] in E1.
  rewrite (scalar_canon false k (SL (k, v) (or_introl eq_refl))) in E1.
  rewrite (scalar_canon false k' (SR (k', v') (or_introl eq_refl))) in E1. subst k'.
  cbn [map fst]. f_equal. apply IH; [intros kv I; apply SL; right; exact I|intros kv I; apply SR; right; exact I|exact E3].
Qed.

Section Bridge.
Variable skip : string -> bool.

Definition Pq (n : node) : Prop := wfn n = true -> forall q a b,
  wtb n a = true -> wtb n b = true -> finv a = true -> kok a = true -> npk n a = true ->
  canon false a = canon false b -> seqv false skip None n q a b = true.

Lemma fields_bridge chld : Forall Pq chld -> forallb wfn chld = true -> forall q fs gs,
  forallb2 wtb chld fs = true -> forallb2 wtb chld gs = true -> forallb finv fs = true -> forallb kok fs = true ->
  forallb2 npk chld fs = true -> map (canon false) fs = map (canon false) gs ->
  seq_fields skip q (fun ch q' f g => seqv false skip None ch q' f g) chld fs gs = true.
Proof.
  induction 1 as [|c cr HC HR IH]; intros W q fs gs TF TG FF KF NF E; [reflexivity|].
  destruct fs as [|f fr]; [discriminate|]. destruct gs as [|g gr]; [discriminate|].
  cbn [forallb] in W. apply andb_true_iff in W. destruct W as (Wc & Wr).
  cbn [forallb2 forallb] in TF, TG, FF, KF, NF.
  apply andb_true_iff in TF. destruct TF as (T1 & T2). apply andb_true_iff in TG. destruct TG as (G1 & G2).
  apply andb_true_iff in FF. destruct FF as (F1 & F2). apply andb_true_iff in KF. destruct KF as (K1 & K2).
  apply andb_true_iff in NF. destruct NF as (N1 & N2).
  cbn [map] in E. inversion E as [[E1 E2]].
  cbn [seq_fields]. rewrite (HC Wc _ f g T1 G1 F1 K1 N1 E1), orb_true_r. cbn [andb]. apply IH; auto.
Qed.

Theorem seq_of_canon : forall n, Pq n.
Proof.
  induction n as [ty tn tu nm pk pki p chld mk mv sl hb hc IHc IHk IHv IHs] using node_ind'.
  intros W q.
  assert (NP : forall a b, wtb (Node ty tn tu nm pk pki false chld mk mv sl hb hc) a = true ->
               wtb (Node ty tn tu nm pk pki false chld mk mv sl hb hc) b = true -> finv a = true -> kok a = true ->
               npk (Node ty tn tu nm pk pki false chld mk mv sl hb hc) a = true -> canon false a = canon false b ->
               seqv false skip None (Node ty tn tu nm pk pki false chld mk mv sl hb hc) q a b = true).
  { intros a b TA TB FA KA NA E. cbn [wtb] in TA, TB. cbn [npk] in NA. cbn [wfn] in W. cbn [seqv]. destruct ty.
    - (* struct *)
      destruct a as [| | | | |fs| | |]; try discriminate. destruct b as [| | | | |gs| | |]; try discriminate.
      rewrite !canon_struct in E. inversion E as [E1]. cbn [finv kok] in FA, KA.
      apply andb_true_iff in W. destruct W as (_ & WC).
      apply fields_bridge; auto.
    - (* map *)
      destruct a as [| | | | | | |an lk|]; try discriminate. destruct b as [| | | | | | |bn rk|]; try discriminate.
      destruct mk as [kn|]; [|discriminate]. destruct mv as [vn|]; [|discriminate].
      apply andb_true_iff in W. destruct W as (_ & W).
      apply andb_true_iff in W. destruct W as (W & _). apply andb_true_iff in W. destruct W as (W & KB).
      apply andb_true_iff in W. destruct W as (Wk & Wv).
      assert (KB' : n_typ kn = typeBasic) by (destruct (n_typ kn); try discriminate; reflexivity).
      rewrite !canon_map in E. inversion E as [[E0 E1]].
      assert (LEN : List.length lk = List.length rk).
      { pose proof (f_equal (@List.length _) E1) as L. rewrite !map_length in L. exact L. }
      rewrite LEN, Nat.eqb_refl. cbn [andb].
      apply andb_true_iff in NA. destruct NA as (NK & NV).
      cbn [finv kok] in FA, KA. apply andb_true_iff in KA. destruct KA as (KO & KA).
      destruct (n_ptr kn) eqn:NPK.
      + cbn [negb orb] in NK. destruct lk; [reflexivity|discriminate].
      + assert (SL : forall kv, In kv lk -> is_scalar_v (fst kv) = true).
        { intros kv I. pose proof (forallb_In _ _ _ TA I) as X. cbv beta in X. apply andb_true_iff in X.
          apply (basic_key_scalar kn); tauto. }
        assert (SR : forall kv, In kv rk -> is_scalar_v (fst kv) = true).
        { intros kv I. pose proof (forallb_In _ _ _ TB I) as X. cbv beta in X. apply andb_true_iff in X.
          apply (basic_key_scalar kn); tauto. }
        pose proof (canon_kv_fst lk rk SL SR E1) as FST.
        assert (KOL : keys_ok lk = true).
        { apply orb_true_iff in KO. destruct KO as [KO|KO]; [exact KO|].
          destruct lk as [|[k v] r]; [reflexivity|]. exfalso.
          cbn [allptr forallb fst] in KO. apply andb_true_iff in KO. destruct KO as (KP & _).
          pose proof (SL (k, v) (or_introl eq_refl)) as S1. cbn [fst] in S1. destruct k; discriminate. }
        assert (KOR : keys_ok rk = true) by (rewrite <- (keys_ok_fst lk rk FST); exact KOL).
        apply andb_true_iff. split; unfold keys_within; apply forallb_forall; intros [k v] I; cbn [fst snd].
        * destruct (map_eq_in (canon_kv false) lk rk (k, v) E1 I) as ([k' v'] & I' & EQ).
          unfold canon_kv in EQ. cbn [fst snd] in EQ. inversion EQ as [[Q1 Q2]].
          rewrite (scalar_canon false k (SL _ I)) in Q1. rewrite (scalar_canon false k' (SR _ I')) in Q1. subst k'.
          rewrite (map_find_in rk k k v' KOR I' (keys_ok_valid _ _ _ KOL I)).
          apply (IHv vn eq_refl Wv).
          -- pose proof (forallb_In _ _ _ TA I) as X. cbv beta in X. apply andb_true_iff in X. tauto.
          -- pose proof (forallb_In _ _ _ TB I') as X. cbv beta in X. apply andb_true_iff in X. tauto.
          -- pose proof (forallb_In _ _ _ FA I) as X. cbv beta in X. apply andb_true_iff in X. tauto.
          -- apply (forallb_In _ _ _ KA I).
          -- apply (forallb_In _ _ _ NV I).
          -- exact Q2.
        * symmetry in E1. destruct (map_eq_in (canon_kv false) rk lk (k, v) E1 I) as ([k' v'] & I' & EQ).
          unfold canon_kv in EQ. cbn [fst snd] in EQ. inversion EQ as [[Q1 Q2]].
          rewrite (scalar_canon false k (SR _ I)) in Q1. rewrite (scalar_canon false k' (SL _ I')) in Q1. subst k'.
          rewrite (map_find_in lk k k v' KOL I' (keys_ok_valid _ _ _ KOL I')). reflexivity.
    - (* slice *)
      destruct (String.eqb tn "[]byte").
      + destruct a as [| | | |an d e| | | |]; try discriminate. destruct b as [| | | |bn d' e'| | | |]; try discriminate.
        cbn [canon] in E. inversion E as [[E0 E1]]. subst d'. unfold same_bytes. apply String.eqb_refl.
      + destruct a as [| | | | | |an le ex| |]; try discriminate. destruct b as [| | | | | |bn re ey| |]; try discriminate.
        destruct sl as [en|]; [|discriminate].
        apply andb_true_iff in W. destruct W as (_ & We). cbn [orb] in We.
        rewrite !canon_slice in E. inversion E as [[E0 E1]].
        cbn [finv kok] in FA, KA. clear E E0.
        revert re TB E1. induction le as [|x le IHl]; intros [|y re] TB E1; try discriminate; [reflexivity|].
        cbn [map] in E1. inversion E1 as [[X1 X2]].
        cbn [forallb] in TA, TB, FA, KA, NA.
        apply andb_true_iff in TA. destruct TA as (A1 & A2). apply andb_true_iff in TB. destruct TB as (B1 & B2).
        apply andb_true_iff in FA. destruct FA as (F1 & F2). apply andb_true_iff in KA. destruct KA as (K1 & K2).
        apply andb_true_iff in NA. destruct NA as (N1 & N2).
        specialize (IHl A2 F2 K2 N2 re B2 X2). apply andb_true_iff in IHl. destruct IHl as (L1 & L2).
        cbn [List.length forallb2]. rewrite (IHs en eq_refl We q x y A1 B1 F1 K1 N1 X1).
        cbn [andb]. apply andb_true_iff. split; [exact L1|exact L2].
    - (* basic *)
      destruct (skind_of_name tu) as [k|]; [|discriminate].
      assert (SA : is_scalar_v a = true) by (destruct k, a; try discriminate; reflexivity).
      assert (SB : is_scalar_v b = true) by (destruct k, b; try discriminate; reflexivity).
      rewrite (scalar_canon false a SA), (scalar_canon false b SB) in E. subst b.
      destruct a; try discriminate SA.
      + apply eqb_reflx. + apply Z.eqb_refl.
      + cbn [same_float]. cbn [finv] in FA. unfold f64_eqb. apply SFeqb_from; auto using finite_notnan.
      + apply String.eqb_refl. }
  destruct p; [|exact NP].
  intros a b TA TB FA KA NA E.
  destruct a as [| | | | | | | |[x|]]; try discriminate TA; destruct b as [| | | | | | | |[y|]]; try discriminate TB;
    cbn [canon andb] in E; try discriminate E; [|reflexivity].
  inversion E as [E1]. exact (NP x y TA TB FA KA NA E1).
Qed.
End Bridge.

(* C06_equal: DeepEqual(source, copy) - the model of the generated method - is true *)
Theorem copy_deep_equal n v : wfroot n = true -> wfn n = true -> wtb n v = true -> gov n v = true ->
  finv v = true -> kok v = true -> npk n v = true ->
  deep_equal n false (APtr (Some v)) (APtr (Some (cpy n (zero_val n) v))) = inl true.
Proof.
  intros WR W T G F K N. destruct (copy_fresh n v W T G) as (TC & C).
  apply deep_equal_copy; [exact WR|exact F|]. unfold seq_strict.
  apply (seq_of_canon no_skip n W "" v _ T TC F K N). symmetry. exact C.
Qed.

Theorem copyto_deep_equal n d v : wfroot n = true -> wfn n = true -> wtb n d = true -> wtb n v = true -> gov n v = true ->
  finv v = true -> kok v = true -> npk n v = true -> emp false d = true ->
  deep_equal n false (APtr (Some v)) (APtr (Some (cpy n d v))) = inl true.
Proof.
  intros WR W D T G F K N E. destruct (cpy_sound n W d v D T) as (TC & B).
  apply deep_equal_copy; [exact WR|exact F|]. unfold seq_strict.
  apply (seq_of_canon no_skip n W "" v _ T TC F K N). symmetry. exact (B false G E).
Qed.
