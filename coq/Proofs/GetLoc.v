(* Proofs/GetLoc.v - the access path [live_loc] names is the place of the element native
   navigation reaches: the value found there is what the element finally denotes. *)
From Coq Require Import List Bool String Ascii ZArith Arith Lia.
From Verif Require Import Util Ints Strconv Floats Node Value Outcome Nav LC LCSpec LCSound Get GetSpec GetSound GetLive.
Import ListNotations.
Local Open Scope string_scope.
Local Open Scope list_scope.

Lemma fin_nonptr ty tn tu nm pk pki chld mk mv sl hb hc x :
  wtb (Node ty tn tu nm pk pki false chld mk mv sl hb hc) x = true -> fin x = Some x.
Proof.
  cbn [wtb]. destruct ty.
  - destruct x; try discriminate; reflexivity.
  - destruct x; try discriminate; reflexivity.
  - destruct (String.eqb tn "[]byte"); destruct x; try discriminate; reflexivity.
  - destruct (skind_of_name tu) as [k|]; [|discriminate]. destruct k, x; try discriminate; reflexivity.
Qed.

Definition located (n : node) (v : val) (path : list string) (l : loc) : Prop :=
  exists en ev x, nav n v path = NElem en ev /\ fin ev = Some x /\ val_at v l = Some x.

Lemma live_loc_sound : forall n, wfn n = true -> forall v path l,
  wtb n v = true -> live_loc n v path = Some l -> located n v path l.
Proof.
  intros n. induction n using node_ind'. intros W.
  assert (CORE : forall x path l,
    wtb (Node ty tn tu nm pk pki false chld mk mv sl hb hc) x = true ->
    live_loc (Node ty tn tu nm pk pki false chld mk mv sl hb hc) x path = Some l ->
    located (Node ty tn tu nm pk pki false chld mk mv sl hb hc) x path l).
  { intros x path l WT LL. pose proof (fin_nonptr _ _ _ _ _ _ _ _ _ _ _ _ _ WT) as FX.
    cbn [wfn] in W. cbn [live_loc] in LL.
    destruct path as [|seg rest].
    { inversion LL; subst l. exists (Node ty tn tu nm pk pki false chld mk mv sl hb hc), x, x. auto. }
    cbn [wtb] in WT. unfold located. cbn [nav].
    destruct ty; try discriminate.
    - apply andb_true_iff in W. destruct W as (W & WC).
      destruct x as [| | | | |fs| | |]; try discriminate.
      rewrite (ll_fields_find _ seg chld fs 0 fs eq_refl (forallb2_length _ _ _ WT)) in LL.
      rewrite (nav_fields_find _ seg chld fs 0 fs eq_refl (forallb2_length _ _ _ WT)).
      destruct (find_idx seg chld 0) as [[ch j]|] eqn:F; [|discriminate].
      destruct (find_idx_in _ _ _ _ _ F) as (_ & _ & _ & NT). rewrite Nat.sub_0_r in NT.
      destruct (nth_error fs j) as [f|] eqn:NF; [|discriminate].
      destruct (live_loc ch f rest) as [l'|] eqn:LC; [|discriminate]. inversion LL; subst l.
      destruct (Forall_nth _ _ _ _ H NT (forallb_nth _ _ _ _ WC NT) f rest l' (forallb2_nth _ _ _ _ _ _ WT NT NF) LC)
        as (en & ev & y & N1 & N2 & N3).
      exists en, ev, y. repeat split; auto. cbn [val_at]. rewrite NF. exact N3.
    - apply andb_true_iff in W. destruct W as (_ & W).
      destruct (String.eqb tn "[]byte"); [discriminate|].
      destruct sl as [en|]; [|destruct x; discriminate]. simpl in W.
      destruct x as [| | | | | |isnil es extra| |]; try discriminate.
      destruct (_ && (n_ptr en || _)); [|discriminate].
      destruct (conv_index seg) as [i|]; [|discriminate].
      destruct ((0 <=? i)%Z && (i <? Z.of_nat (List.length es))%Z); [|discriminate].
      destruct (nth_error es (Z.to_nat i)) as [e|] eqn:NE; [|discriminate].
      destruct (live_loc en e rest) as [l'|] eqn:LC; [|discriminate]. inversion LL; subst l.
      assert (WTe : wtb en e = true).
      { rewrite forallb_forall in WT. apply WT. eapply nth_error_In; eauto. }
      destruct (H2 en eq_refl W e rest l' WTe LC) as (en' & ev & y & N1 & N2 & N3).
      exists en', ev, y. repeat split; auto. cbn [val_at]. rewrite NE. exact N3. }
  intros v path l WT LL.
  destruct p; [|apply CORE; assumption].
  cbn [wtb] in WT. destruct v as [| | | | | | | |[x|]]; try discriminate.
  rewrite live_loc_ptr in LL.
  destruct (live_loc (Node ty tn tu nm pk pki false chld mk mv sl hb hc) x path) as [l'|] eqn:Q; [|discriminate].
  inversion LL; subst l.
  destruct (CORE x path l' WT Q) as (en & ev & y & N1 & N2 & N3).
  destruct path as [|seg rest].
  - cbn [live_loc] in Q. inversion Q; subst l'.
    exists (Node ty tn tu nm pk pki true chld mk mv sl hb hc), (VPtr (Some x)), x.
    split; [reflexivity|split; [exact (fin_nonptr ty tn tu nm pk pki chld mk mv sl hb hc x WT)|reflexivity]].
  - exists en, ev, y. repeat split; auto.
Qed.
