(* Proofs/StringsStorage.v - stored bytes are never rewritten.
   Along any history (any number of calls, texts of any length) every element of the value is
   either an element that was there before, unchanged (same allocation, same bytes, same capacity),
   or lives in an allocation handed out during the history (id at or above the counter the history
   started with).  So whatever was read from an element (a held Get result shares its allocation)
   reads the same for ever, and no call stores into the allocation of another element. *)
From Coq Require Import ZArith NArith List Bool Ascii String Lia.
From Verif Require Import Util Strconv Strings.
Import ListNotations.
Local Open Scope Z_scope.

Lemma in_upd_nth {A} n (x : A) l e : In e (upd_nth n x l) -> e = x \/ In e l.
Proof.
  revert n; induction l as [|y r IH]; intros [|n] H; simpl in *; auto.
  - destruct H as [H|H]; auto.
  - destruct H as [H|H]; auto. destruct (IH n H); auto.
Qed.

Lemma elems_put_elems x l e : In e (elems_of (put_elems x l)) -> In e l.
Proof. destruct x as [s|s|r|]; simpl; auto; intros []. Qed.

Lemma in_copies l : forall nid e, In e (copies l nid) -> nid <= e_id e.
Proof.
  induction l as [|y r IH]; intros nid e H; simpl in *; [contradiction|].
  destruct H as [H|H]; [subst e; simpl; lia|]. apply IH in H. lia.
Qed.

Lemma elems_append_all d cs e : In e (q_elems (append_all d cs)) -> In e (q_elems d) \/ In e cs.
Proof.
  destruct cs as [|c cs]; simpl; auto. intros H. apply in_app_or in H. exact H.
Qed.

(* what one call may do to the elements *)
Definition keeps (x : arg) (nid : Z) (x' : arg) (n' : Z) : Prop :=
  nid <= n' /\ forall e, In e (elems_of x') -> In e (elems_of x) \/ nid <= e_id e.

Lemma keeps_refl x nid n' : nid <= n' -> keeps x nid x n'.
Proof. intros H; split; auto. Qed.

Lemma store_keeps w x l idx s nid x' n' e0 : l = elems_of x ->
  store w x l idx s nid = Ret (x', n') e0 -> keeps x nid x' n'.
Proof.
  intros L H. unfold store in H. destruct s as [p| |]; try discriminate.
  - destruct (if v_set_empty w then true else 0 <? zlen p).
    + inversion H; subst. split; [lia|]. intros e He.
      apply elems_put_elems in He. apply in_upd_nth in He. destruct He as [He|He]; [right; subst e; simpl; lia|auto].
    + inversion H; subst. apply keeps_refl; lia.
  - inversion H; subst. apply keeps_refl; lia.
Qed.

Lemma sp_elems w x ss pp : sp w x = SpOk ss pp ->
  (ss = elems_of x /\ pp = []) \/ (ss = [] /\ pp = elems_of x).
Proof.
  destruct x as [s|s|r|]; simpl; try discriminate.
  - destruct (q_rep s); intros H; inversion H; auto.
  - destruct (q_rep s); intros H; inversion H; auto.
  - destruct (v_nil_ptr w); intros H; inversion H; auto.
Qed.

Lemma set_keeps w x v path nid x' n' e0 :
  si_set_with_buffer w x v path nid = Ret (x', n') e0 -> keeps x nid x' n'.
Proof.
  unfold si_set_with_buffer. intros H.
  destruct path as [|p [|q r]]; try (inversion H; subst; apply keeps_refl; lia).
  destruct (sp w x) as [ss pp| |] eqn:S; try discriminate; try (inversion H; subst; apply keeps_refl; lia).
  destruct (atoi p) as [idx|]; try (inversion H; subst; apply keeps_refl; lia).
  destruct (idx <? 0); try (inversion H; subst; apply keeps_refl; lia).
  destruct (sp_elems w x ss pp S) as [[E1 E2]|[E1 E2]]; subst ss pp.
  - destruct ((0 <? zlen (elems_of x)) && (idx <? zlen (elems_of x))).
    + eapply store_keeps; [reflexivity|exact H].
    + simpl in H. inversion H; subst; apply keeps_refl; lia.
  - simpl in H. destruct ((0 <? zlen (elems_of x)) && (idx <? zlen (elems_of x))).
    + eapply store_keeps; [reflexivity|exact H].
    + inversion H; subst; apply keeps_refl; lia.
Qed.

Lemma copy_to_keeps w src x nid x' n' e0 :
  si_copy_to w src x nid = Ret (x', n') e0 -> keeps x nid x' n'.
Proof.
  unfold si_copy_to. intros H.
  destruct (sp w src) as [ssR ppR| |]; try discriminate; try (inversion H; subst; apply keeps_refl; lia).
  set (picked := if 0 <? zlen ssR then ssR else if 0 <? zlen ppR then ppR else []) in *.
  assert (P : 0 <= zlen picked) by (unfold zlen; lia).
  destruct x as [d|d|r|]; try (inversion H; subst; apply keeps_refl; lia).
  - assert (K : x' = APtr (append_all d (copies picked nid)) /\ n' = nid + zlen picked).
    { destruct (q_rep d); inversion H; auto. }
    destruct K as [K1 K2]; subst x' n'. split; [lia|]. intros e He. simpl in He.
    apply elems_append_all in He. destruct He as [He|He]; [left; exact He|right; eapply in_copies; exact He].
  - destruct (v_nil_ptr w); [inversion H; subst; apply keeps_refl; lia|].
    destruct picked; try discriminate. inversion H; subst; apply keeps_refl; lia.
Qed.

Lemma reset_keeps w x nid x' e0 : si_reset w x = Ret x' e0 -> keeps x nid x' nid.
Proof.
  destruct x as [s|s|r|]; simpl; [| |destruct (v_nil_ptr w)|]; intros H; try discriminate; inversion H; subst; try (apply keeps_refl; lia).
  split; [lia|]. simpl. intros e [].
Qed.

Lemma hstep_keeps w st o :
  keeps (h_arg st) (h_nid st) (h_arg (fst (hstep w st o))) (h_nid (fst (hstep w st o))).
Proof.
  destruct st as [x nid]. destruct o as [ptr t i|i|c r i|p|p| |y|src|rr| ]; cbn [hstep h_arg h_nid].
  - destruct (si_set_with_buffer w x _ [i] (nid + 1)) as [[x' n'] e0|k] eqn:E; cbn [fst h_arg h_nid].
    + apply set_keeps in E. destruct E as [E1 E2]. split; [lia|]. intros e He. destruct (E2 e He); [auto|right; lia].
    + apply keeps_refl; lia.
  - destruct (si_get_to w x [i]); cbn; apply keeps_refl; lia.
  - destruct (si_compare w x c r [i]); cbn; apply keeps_refl; lia.
  - destruct (si_length w x p); cbn; apply keeps_refl; lia.
  - destruct (si_capacity w x p); cbn; apply keeps_refl; lia.
  - destruct (si_loop w x it_all []); cbn; apply keeps_refl; lia.
  - destruct (si_deep_equal w x y); cbn; apply keeps_refl; lia.
  - destruct (si_copy_to w src x nid) as [[x' n'] e0|k] eqn:E; cbn [fst h_arg h_nid].
    + eapply copy_to_keeps; exact E.
    + apply keeps_refl; lia.
  - destruct (si_copy_to w x (APtr (nil_sq rr)) nid) as [[d n'] e0|k] eqn:E; cbn [fst h_arg h_nid].
    + apply copy_to_keeps in E. destruct E as [E1 _]. apply keeps_refl; exact E1.
    + apply keeps_refl; lia.
  - destruct (si_reset w x) as [x' e0|k] eqn:E; cbn [fst h_arg h_nid].
    + eapply reset_keeps; exact E.
    + apply keeps_refl; lia.
Qed.

Theorem history_keeps_storage w : forall ops st,
  h_nid st <= h_nid (hrun w ops st) /\
  forall e, In e (elems_of (h_arg (hrun w ops st))) -> In e (elems_of (h_arg st)) \/ h_nid st <= e_id e.
Proof.
  induction ops as [|o ops IH]; intros st.
  - cbn. split; [lia|auto].
  - cbn [hrun fold_left]. fold (hrun w ops (fst (hstep w st o))).
    destruct (hstep_keeps w st o) as [K1 K2]. destruct (IH (fst (hstep w st o))) as [I1 I2].
    split; [lia|]. intros e He. destruct (I2 e He) as [H|H]; [|right; lia].
    destruct (K2 e H); auto.
Qed.
