(* Proofs/GetLive.v - the aliasing clause of C15: on a path made only of struct fields,
   non-nil pointers and struct-slice indices the reference GetTo stores finally denotes
   the live element (not a copy), at the element's access path. *)
From Coq Require Import List Bool String Ascii ZArith Arith Lia.
From Verif Require Import Util Ints Strconv Floats Node Value Outcome Nav LC LCSpec LCSound Get GetSpec GetSound.
Import ListNotations.
Local Open Scope string_scope.
Local Open Scope list_scope.

Lemma ll_fields_find rec seg : forall chs fs idx allfs,
  skipn idx allfs = fs -> List.length fs = List.length chs ->
  ll_fields rec seg chs fs idx =
  match find_idx seg chs idx with
  | None => None
  | Some (ch, j) => match nth_error allfs j with Some f => rec j ch f | None => None end
  end.
Proof.
  induction chs as [|c r IH]; intros fs idx allfs SK LEN; [destruct fs; reflexivity|].
  destruct fs as [|f fr]; [discriminate|]. cbn [ll_fields find_idx].
  destruct (skipn_cons _ _ _ _ SK) as (N1 & N2 & _).
  destruct (String.eqb (n_name c) seg); [rewrite N1; reflexivity|].
  apply (IH fr (S idx) allfs N2). simpl in LEN; lia.
Qed.

(* a well-typed value of a non-pointer node is not a pointer *)
Lemma follow_nonptr ty tn tu nm pk pki chld mk mv sl hb hc x l cp :
  wtb (Node ty tn tu nm pk pki false chld mk mv sl hb hc) x = true -> follow x l cp = Some (x, l, cp).
Proof.
  cbn [wtb]. destruct ty.
  - destruct x; try discriminate; reflexivity.
  - destruct x; try discriminate; reflexivity.
  - destruct (String.eqb tn "[]byte"); destruct x; try discriminate; reflexivity.
  - destruct (skind_of_name tu) as [k|]; [|discriminate]. destruct k, x; try discriminate; reflexivity.
Qed.

(* a leaf child (scalar, string, bytes) is live only as the end of the path *)
Lemma live_leaf ch f (rest : list string) lr : is_basic_child ch = true -> live_loc ch f rest = Some lr -> rest = [].
Proof.
  intros BC LL. destruct rest as [|s r]; [reflexivity|]. exfalso.
  destruct ch as [cty ctn ctu cnm cpk cpki cp cchld cmk cmv csl chb chc].
  unfold is_basic_child in BC. simpl in BC. cbn [live_loc] in LL.
  destruct cty; try discriminate BC; rewrite ?BC in LL;
    (destruct cp; [destruct f as [| | | | | | | |[x|]]|]; discriminate LL).
Qed.

Lemma live_loc_ptr ty tn tu nm pk pki chld mk mv sl hb hc x rest :
  live_loc (Node ty tn tu nm pk pki true chld mk mv sl hb hc) (VPtr (Some x)) rest =
  option_map (cons SDeref) (live_loc (Node ty tn tu nm pk pki false chld mk mv sl hb hc) x rest).
Proof. reflexivity. Qed.

Definition lives (o : out (option ref)) (target : loc) : Prop :=
  exists r y, (o = Ret (Some r) None \/ o = Fall (Some r)) /\ final r = Some (y, target, false).

Lemma lives_finish o t : lives o t -> lives (finish o) t.
Proof. intros (r & y & [->| ->] & F); exists r, y; simpl; auto. Qed.

Lemma get_live_node : forall n, wfn n = true -> forall sv l cp depth path rest lr,
  wtb n sv = true -> skipn depth path = rest -> depth <= List.length path -> (depth = 0 -> rest <> []) ->
  (n_ptr n = true \/ cp = false) ->
  live_loc n sv rest = Some lr ->
  lives (get_node false n (obj_of (n_ptr n) (GS sv l cp)) (ref_of (GS sv l cp)) depth path None) (l ++ lr).
Proof.
  intros n. induction n using node_ind'. intros W.
  assert (CORE : forall x lo self depth path rest lr,
    wtb (Node ty tn tu nm pk pki false chld mk mv sl hb hc) x = true -> final self = Some (x, lo, false) ->
    skipn depth path = rest -> depth <= List.length path -> (depth = 0 -> rest <> []) ->
    live_loc (Node ty tn tu nm pk pki false chld mk mv sl hb hc) x rest = Some lr ->
    lives (get_node false (Node ty tn tu nm pk pki false chld mk mv sl hb hc) (OVal x lo false) self depth path None) (lo ++ lr)).
  { intros x lo self depth path rest lr WT FS SK LE D0 LL.
    cbn [wfn] in W. pose proof WT as WT0. cbn [wtb] in WT. cbn [live_loc] in LL.
    assert (DNZ : rest = [] -> Nat.eqb depth 0 = false).
    { intros E. apply Nat.eqb_neq. intros Z. apply (D0 Z E). }
    assert (END : rest = [] -> lr = [] /\ final self = Some (x, lo ++ lr, false)).
    { intros ->. assert (lr = []) as -> by (destruct ty; inversion LL; reflexivity).
      rewrite app_nil_r. auto. }
    destruct ty.
    - (* struct *)
      apply andb_true_iff in W. destruct W as (W & WC).
      destruct x as [| | | | |fs| | |]; try discriminate.
      destruct rest as [|seg rest'].
      + destruct (END eq_refl) as (_ & FE). cbn [get_node]. rewrite (ltb_rest_nil _ _ SK LE), (DNZ eq_refl).
        exists self, (VStruct fs). auto.
      + destruct (rest_cons _ _ _ _ SK) as (_ & _ & R3 & R4 & R5).
        cbn [get_node]. rewrite (ltb_rest_cons _ _ _ _ SK), R3, gwalk_find.
        rewrite (ll_fields_find _ seg chld fs 0 fs eq_refl (forallb2_length _ _ _ WT)) in LL.
        destruct (find_idx seg chld 0) as [[ch j]|] eqn:F; [|discriminate].
        destruct (find_idx_in _ _ _ _ _ F) as (_ & _ & _ & NT). rewrite Nat.sub_0_r in NT.
        destruct (nth_error fs j) as [f|] eqn:NF; [|discriminate].
        destruct (live_loc ch f rest') as [lr'|] eqn:LC; [|discriminate]. inversion LL; subst lr. clear LL.
        cbn [field_slot]. rewrite NF.
        pose proof (forallb_nth _ _ _ _ WC NT) as Wch.
        pose proof (forallb2_nth _ _ _ _ _ _ WT NT NF) as WTf.
        replace (lo ++ SField j :: lr') with ((lo ++ [SField j]) ++ lr') by (rewrite <- app_assoc; reflexivity).
        destruct (is_basic_child ch) eqn:BC.
        * (* a leaf child: its live_loc only exists for the empty rest *)
          exists (Ref f (lo ++ [SField j]) false). 
          assert (rest' = []) as -> by (apply (live_leaf ch f rest' lr' BC LC)).
          destruct ch as [cty ctn ctu cnm cpk cpki cp cchld cmk cmv csl chb chc].
          cbn [live_loc] in LC.
          destruct cp.
          -- cbn [wtb] in WTf. destruct f as [| | | | | | | |[y|]]; try discriminate.
             simpl in LC. inversion LC; subst lr'.
             exists y. split; [left; reflexivity|].
             unfold final. cbn [r_val r_loc r_copy follow].
             exact (follow_nonptr cty ctn ctu cnm cpk cpki cchld cmk cmv csl chb chc _ _ _ WTf).
          -- inversion LC; subst lr'. exists f. split; [left; reflexivity|].
             unfold final. cbn [r_val r_loc r_copy]. rewrite app_nil_r.
             exact (follow_nonptr cty ctn ctu cnm cpk cpki cchld cmk cmv csl chb chc _ _ _ WTf).
        * apply lives_finish.
          apply (Forall_nth _ _ _ _ H NT Wch f (lo ++ [SField j]) false (S depth) path rest' lr' WTf R4 R5).
          -- intros E; discriminate E.
          -- right; reflexivity.
          -- exact LC.
    - (* map: not in the class *)
      destruct rest as [|seg rest'].
      + destruct (END eq_refl) as (_ & FE). cbn [get_node]. rewrite (ltb_rest_nil _ _ SK LE), (DNZ eq_refl).
        exists self, x. auto.
      + discriminate LL.
    - (* slice *)
      apply andb_true_iff in W. destruct W as (_ & W).
      destruct rest as [|seg rest'].
      + destruct (END eq_refl) as (_ & FE). cbn [get_node]. rewrite (ltb_rest_nil _ _ SK LE), (DNZ eq_refl).
        exists self, x. auto.
      + destruct (String.eqb tn "[]byte") eqn:BY; [discriminate|].
        destruct sl as [en|]; [|discriminate]. simpl in W.
        destruct x as [| | | | | |isnil es extra| |]; try discriminate.
        destruct (rest_cons _ _ _ _ SK) as (_ & _ & R3 & R4 & R5).
        cbn [get_node]. rewrite (ltb_rest_cons _ _ _ _ SK), BY, R3.
        destruct ((match n_typ en with typeStruct => true | _ => false end) && (n_ptr en || negb (is_builtin (n_typn en)))) eqn:CL; [|discriminate].
        destruct (conv_index seg) as [i|] eqn:CI; [|discriminate].
        destruct ((0 <=? i)%Z && (i <? Z.of_nat (List.length es))%Z) eqn:RG; [|discriminate].
        destruct (nth_error es (Z.to_nat i)) as [e|] eqn:NE; [|discriminate].
        destruct (live_loc en e rest') as [lr'|] eqn:LC; [|discriminate]. inversion LL; subst lr. clear LL.
        assert (WTe : wtb en e = true).
        { rewrite forallb_forall in WT. apply WT. eapply nth_error_In; eauto. }
        replace (lo ++ SIdx (Z.to_nat i) :: lr') with ((lo ++ [SIdx (Z.to_nat i)]) ++ lr') by (rewrite <- app_assoc; reflexivity).
        apply (H2 en eq_refl W e (lo ++ [SIdx (Z.to_nat i)]) (n_ptr en || is_builtin (n_typn en)) (S depth) path rest' lr' WTe R4 R5).
        * intros E; discriminate E.
        * apply andb_true_iff in CL. destruct CL as (_ & CL).
          destruct (n_ptr en); [left; reflexivity|right]. simpl in CL. apply negb_true_iff in CL. rewrite CL. reflexivity.
        * exact LC.
    - (* basic *)
      cbn [get_node]. destruct rest as [|seg rest'].
      + destruct (END eq_refl) as (_ & FE). exists self, x. auto.
      + discriminate LL. }
  intros sv l cp depth path rest lr WT SK LE D0 PC LL.
  destruct p.
  - cbn [wtb] in WT. destruct sv as [| | | | | | | |[x|]]; try discriminate.
    change (get_node false (Node ty tn tu nm pk pki true chld mk mv sl hb hc)
                (obj_of (n_ptr (Node ty tn tu nm pk pki true chld mk mv sl hb hc)) (GS (VPtr (Some x)) l cp))
                (ref_of (GS (VPtr (Some x)) l cp)) depth path None)
        with (get_node false (Node ty tn tu nm pk pki false chld mk mv sl hb hc)
                (OVal x (l ++ [SDeref]) false) (Ref (VPtr (Some x)) l cp) depth path None).
      rewrite live_loc_ptr in LL.
      destruct (live_loc (Node ty tn tu nm pk pki false chld mk mv sl hb hc) x rest) as [lr'|] eqn:Q; [|discriminate].
      inversion LL; subst lr. clear LL.
      replace (l ++ SDeref :: lr') with ((l ++ [SDeref]) ++ lr') by (rewrite <- app_assoc; reflexivity).
      apply (CORE x (l ++ [SDeref]) (Ref (VPtr (Some x)) l cp) depth path rest lr' WT); auto.
      unfold final. cbn [r_val r_loc r_copy follow]. exact (follow_nonptr ty tn tu nm pk pki chld mk mv sl hb hc _ _ _ WT).
  - destruct PC as [PC|PC]; [discriminate PC|]. subst cp.
    cbn [n_ptr obj_of ref_of]. apply (CORE sv l (Ref sv l false) depth path rest lr WT); auto.
    unfold final. cbn [r_val r_loc r_copy]. exact (follow_nonptr ty tn tu nm pk pki chld mk mv sl hb hc _ _ _ WT).
Qed.

Theorem get_live n v path l :
  wfn n = true -> n_ptr n = false -> wtb n v = true -> live_loc n v path = Some l ->
  exists r y, get false n (APtr (Some v)) path = Ret (Some r) None /\ final r = Some (y, l, false).
Proof.
  intros W P WT LL. unfold get, get_to. cbn [root_slot].
  destruct path as [|seg rest].
  - destruct n as [ty tn tu nm pk pki p chld mk mv sl hb hc]. simpl in P. subst p.
    cbn [live_loc] in LL. inversion LL; subst l.
    exists (ref_of (GS v [] false)), v. split; [reflexivity|].
    unfold final. cbn [ref_of r_val r_loc r_copy].
    exact (follow_nonptr ty tn tu nm pk pki chld mk mv sl hb hc _ _ _ WT).
  - destruct (get_live_node n W v [] false 0 (seg :: rest) (seg :: rest) l WT eq_refl (Nat.le_0_l _)
                ltac:(intros _; discriminate) (or_intror eq_refl) LL) as (r & y & [E|E] & F).
    + exists r, y. rewrite E. auto.
    + exists r, y. rewrite E. auto.
Qed.

(* ---------- GetTo with a pre-filled buffer: it stores what Get returns and otherwise leaves *buf alone ---------- *)
Definition subst (b : option ref) (o : out (option ref)) : out (option ref) :=
  match o with Fall None => Fall b | Ret None e => Ret b e | _ => o end.

Lemma subst_finish b o : finish (subst b o) = subst b (finish o).
Proof. destruct o as [[r|]|[r|] e|k]; reflexivity. Qed.

Lemma gwalk_buf recb recn o oseg b : forall chs idx,
  (forall ch s, In ch chs -> recb ch s = subst b (recn ch s)) ->
  gwalk recb o oseg b chs idx = subst b (gwalk recn o oseg None chs idx).
Proof.
  induction chs as [|ch r IH]; intros idx HR; [reflexivity|].
  cbn [gwalk]. destruct oseg as [seg|]; [|reflexivity].
  destruct (String.eqb seg (n_name ch)).
  - destruct (field_slot o idx) as [s|]; [|reflexivity].
    destruct (is_basic_child ch); [reflexivity|].
    rewrite (HR ch s (or_introl eq_refl)). apply subst_finish.
  - apply IH. intros c s I'. apply HR. right; exact I'.
Qed.

Lemma get_node_buf : forall n o self depth path b,
  get_node false n o self depth path b = subst b (get_node false n o self depth path None).
Proof.
  intros n. induction n using node_ind'. intros o self depth path b.
  cbn [get_node].
  destruct ty.
  - destruct (Nat.ltb depth (List.length path)); [|destruct (Nat.eqb depth 0); reflexivity].
    assert (G : gwalk (fun ch s => get_node false ch (obj_of (n_ptr ch) s) (ref_of s) (S depth) path b) o (nth_error path depth) b chld 0 =
                subst b (gwalk (fun ch s => get_node false ch (obj_of (n_ptr ch) s) (ref_of s) (S depth) path None) o (nth_error path depth) None chld 0)).
    { apply gwalk_buf. intros ch s I'. rewrite Forall_forall in H. apply (H ch I'). }
    destruct p; [destruct o|]; try reflexivity; exact G.
  - destruct (Nat.ltb depth (List.length path)); [|destruct (Nat.eqb depth 0); reflexivity].
    destruct mk as [kn|], mv as [vn|]; try (destruct p; [destruct o|]; reflexivity).
    pose proof (H1 vn eq_refl) as IHv.
    repeat first [reflexivity | apply IHv
                 | match goal with |- context [match ?X with _ => _ end] => destruct X end].
  - destruct (Nat.ltb depth (List.length path)); [|destruct (Nat.eqb depth 0); reflexivity].
    destruct (String.eqb tn "[]byte"); [destruct p; [destruct o|]; reflexivity|].
    destruct sl as [en|]; [|destruct p; [destruct o|]; reflexivity].
    pose proof (H2 en eq_refl) as IHe.
    repeat first [reflexivity | apply IHe
                 | match goal with |- context [match ?X with _ => _ end] => destruct X end].
  - destruct p; [destruct o|]; reflexivity.
Qed.

Theorem get_to_buf n a path b :
  get_to false n a path b = subst b (get false n a path).
Proof.
  unfold get, get_to. destruct (root_slot a) as [[s|]|k]; try reflexivity.
  destruct path as [|seg rest]; [reflexivity|].
  rewrite get_node_buf. apply subst_finish.
Qed.
