(* Proofs/GetSound.v - the emitted Get/GetTo code meets the C01 demand for every
   well-formed node, every well-typed value and every path. *)
From Coq Require Import List Bool String Ascii ZArith Arith Lia.
From Verif Require Import Util Ints Strconv Floats Node Value Outcome Nav LC LCSpec LCSound Get GetSpec.
Import ListNotations.
Local Open Scope string_scope.
Local Open Scope list_scope.

(* ---------- following pointers: model side = spec side ---------- *)
Lemma follow_fin : forall v l cp,
  match fin v with
  | Some x => exists l' cp', follow v l cp = Some (x, l', cp')
  | None => follow v l cp = None
  end.
Proof.
  intros v. induction v using val_ind'; intros l cp; cbn [fin follow]; try (do 2 eexists; reflexivity); try reflexivity.
  apply IHv.
Qed.

Lemma obs_fin r :
  match fin (r_val r) with
  | Some x => exists lv, obs_of_buf (Some r) = BVal x lv
  | None => obs_of_buf (Some r) = BNil
  end.
Proof.
  unfold obs_of_buf, final. pose proof (follow_fin (r_val r) (r_loc r) (r_copy r)) as F.
  destruct (fin (r_val r)) as [x|].
  - destruct F as (l' & cp' & ->). eauto.
  - rewrite F. reflexivity.
Qed.

(* ---------- outcomes that answer one of the wants ---------- *)
Definition good (o : out (option ref)) (ws : list want) : Prop :=
  match o with
  | Ret b e => exists w, In w ws /\ want_ok w e (obs_of_buf b)
  | Fall b => exists w, In w ws /\ want_ok w None (obs_of_buf b)
  | Panic _ => False
  end.
Definition goodd (o : out (option ref)) (d : option (list want)) : Prop :=
  match d with None => True | Some ws => good o ws end.

Lemma good_finish o ws : good o ws -> good (finish o) ws.
Proof. destruct o; simpl; auto. Qed.
Lemma goodd_finish o d : goodd o d -> goodd (finish o) d.
Proof. destruct d; simpl; auto using good_finish. Qed.

Lemma good_mono o ws ws' : incl ws ws' -> good o ws -> good o ws'.
Proof.
  intros I. destruct o; simpl; auto; intros (w & Hin & Hok); exists w; split; auto.
Qed.

Lemma good_elem_ret r e : fin (r_val r) = fin e -> good (Ret (Some r) None) (elem_wants e).
Proof.
  intros E. unfold good, elem_wants. pose proof (obs_fin r) as O. rewrite E in O.
  destruct (fin e) as [x|].
  - destruct O as (lv & ->). exists (WVal x). split; [left; reflexivity|reflexivity].
  - rewrite O. exists WNil. split; [left; reflexivity|exact I].
Qed.
Lemma good_elem_fall r e : fin (r_val r) = fin e -> good (Fall (Some r)) (elem_wants e).
Proof. intros E. apply (good_elem_ret r e E). Qed.

Lemma good_none_fall ws : In WNone ws -> good (Fall None) ws.
Proof. intros H. exists WNone. split; [exact H|exact I]. Qed.
Lemma good_none_ret ws : In WNone ws -> good (Ret None None) ws.
Proof. intros H. exists WNone. split; [exact H|exact I]. Qed.
Lemma good_err b ws : In WErr ws -> good (Ret b (Some EParse)) ws.
Proof. intros H. exists WErr. split; [exact H|exact I]. Qed.

(* ---------- the field dispatch through the first child with the name ---------- *)
Lemma gwalk_find rec o seg buf : forall chs idx,
  gwalk rec o (Some seg) buf chs idx =
  match find_idx seg chs idx with
  | None => Fall buf
  | Some (ch, j) =>
    match field_slot o j with
    | None => Panic PNilDeref
    | Some s => if is_basic_child ch then Ret (Some (ref_of s)) None else finish (rec ch s)
    end
  end.
Proof.
  induction chs as [|ch r IH]; intros idx; [reflexivity|].
  cbn [gwalk find_idx]. rewrite String.eqb_sym.
  destruct (String.eqb (n_name ch) seg); [reflexivity|apply IH].
Qed.

Lemma az_fields_find rec seg : forall chs fs idx allfs,
  skipn idx allfs = fs -> List.length fs = List.length chs ->
  az_fields rec seg chs fs =
  match find_idx seg chs idx with
  | None => []
  | Some (ch, j) => match nth_error allfs j with Some f => rec ch f | None => [] end
  end.
Proof.
  induction chs as [|c r IH]; intros fs idx allfs SK LEN; [destruct fs; reflexivity|].
  destruct fs as [|f fr]; [discriminate|]. cbn [az_fields find_idx].
  destruct (skipn_cons _ _ _ _ SK) as (N1 & N2 & _).
  destruct (String.eqb (n_name c) seg); [rewrite N1; reflexivity|].
  apply (IH fr (S idx) allfs N2). simpl in LEN; lia.
Qed.

(* ---------- the demand, unfolded one step ---------- *)
Lemma demand_nil n v : get_demand n v [] = Some (elem_wants v).
Proof. destruct n; reflexivity. Qed.

Lemma demand_struct_none tn tu nm pk pki chld mk mv sl hb hc fs seg rest :
  List.length fs = List.length chld -> find_idx seg chld 0 = None ->
  get_demand (Node typeStruct tn tu nm pk pki false chld mk mv sl hb hc) (VStruct fs) (seg :: rest) = Some [WNone].
Proof.
  intros L F. unfold get_demand. cbn [past_leaf nav absent_zero type_bad].
  rewrite (nav_fields_find _ seg chld fs 0 fs eq_refl L), !(tb_fields_find _ seg chld 0), F. reflexivity.
Qed.

Lemma demand_struct_some tn tu nm pk pki chld mk mv sl hb hc fs seg rest ch j f :
  List.length fs = List.length chld -> find_idx seg chld 0 = Some (ch, j) -> nth_error fs j = Some f ->
  get_demand (Node typeStruct tn tu nm pk pki false chld mk mv sl hb hc) (VStruct fs) (seg :: rest) = get_demand ch f rest.
Proof.
  intros L F NF. unfold get_demand. cbn [past_leaf nav absent_zero type_bad].
  rewrite (nav_fields_find _ seg chld fs 0 fs eq_refl L), !(tb_fields_find _ seg chld 0),
          (az_fields_find _ seg chld fs 0 fs eq_refl L), F, NF. reflexivity.
Qed.

Lemma demand_ptr ty tn tu nm pk pki chld mk mv sl hb hc x rest :
  get_demand (Node ty tn tu nm pk pki true chld mk mv sl hb hc) (VPtr (Some x)) rest =
  get_demand (Node ty tn tu nm pk pki false chld mk mv sl hb hc) x rest.
Proof. destruct rest; reflexivity. Qed.

Lemma demand_map_found tn tu nm pk pki chld kn vn sl hb hc isnil kvs seg rest k e :
  n_ptr kn = false -> conv_key kn seg = Some k -> map_find kvs k = Some e ->
  get_demand (Node typeMap tn tu nm pk pki false chld (Some kn) (Some vn) sl hb hc) (VMap isnil kvs) (seg :: rest) =
  get_demand vn e rest.
Proof.
  intros P C M. unfold get_demand. cbn [past_leaf nav absent_zero type_bad]. rewrite P, C, M. reflexivity.
Qed.

Lemma demand_slice_found tn tu nm pk pki chld mk mv en hb hc isnil es extra seg rest i e :
  String.eqb tn "[]byte" = false -> conv_index seg = Some i ->
  ((0 <=? i) && (i <? Z.of_nat (List.length es)))%Z = true -> nth_error es (Z.to_nat i) = Some e ->
  get_demand (Node typeSlice tn tu nm pk pki false chld mk mv (Some en) hb hc) (VSlice isnil es extra) (seg :: rest) =
  get_demand en e rest.
Proof.
  intros B C R N. unfold get_demand. cbn [past_leaf nav absent_zero type_bad]. rewrite B, C, R, N. reflexivity.
Qed.

(* ---------- for well-typed values navigation is unspecified only past a leaf ---------- *)
Lemma unspec_past : forall n, wfn n = true -> forall v path, wtb n v = true ->
  nav n v path = NUnspec -> past_leaf n path = true.
Proof.
  intros n. induction n using node_ind'. intros W v path WT NV.
  destruct path as [|seg rest]; [discriminate NV|].
  assert (CORE : forall x, wtb (Node ty tn tu nm pk pki false chld mk mv sl hb hc) x = true ->
            nav (Node ty tn tu nm pk pki false chld mk mv sl hb hc) x (seg :: rest) = NUnspec ->
            past_leaf (Node ty tn tu nm pk pki false chld mk mv sl hb hc) (seg :: rest) = true).
  { intros x WX NX. cbn [wfn] in W. cbn [wtb] in WX. cbn [nav] in NX. cbn [past_leaf].
    destruct ty.
    - apply andb_true_iff in W. destruct W as (_ & WC).
      destruct x as [| | | | |fs| | |]; try discriminate.
      rewrite (nav_fields_find _ seg chld fs 0 fs eq_refl (forallb2_length _ _ _ WX)) in NX.
      rewrite (tb_fields_find _ seg chld 0).
      destruct (find_idx seg chld 0) as [[ch j]|] eqn:F; [|discriminate].
      destruct (find_idx_in _ _ _ _ _ F) as (_ & _ & _ & NT). rewrite Nat.sub_0_r in NT.
      destruct (nth_error fs j) as [f|] eqn:NF; [|discriminate].
      apply (Forall_nth _ _ _ _ H NT (forallb_nth _ _ _ _ WC NT) f rest (forallb2_nth _ _ _ _ _ _ WX NT NF) NX).
    - apply andb_true_iff in W. destruct W as (_ & W).
      destruct mk as [kn|]; [|discriminate]. destruct mv as [vn|]; [|discriminate].
      apply andb_true_iff in W. destruct W as (W & _). apply andb_true_iff in W. destruct W as (W & _).
      apply andb_true_iff in W. destruct W as (_ & Wv).
      destruct x as [| | | | | | |isnil kvs|]; try discriminate.
      destruct (n_ptr kn); [discriminate|].
      destruct (conv_key kn seg) as [k|]; [|discriminate].
      destruct (map_find kvs k) as [e|] eqn:MF; [|discriminate].
      destruct (map_find_in _ _ _ MF) as (k' & INe).
      assert (WTe : wtb vn e = true).
      { rewrite forallb_forall in WX. specialize (WX _ INe). apply andb_true_iff in WX. tauto. }
      apply (H1 vn eq_refl Wv e rest WTe NX).
    - apply andb_true_iff in W. destruct W as (_ & W).
      destruct (String.eqb tn "[]byte"); [reflexivity|].
      destruct sl as [en|]; [|discriminate]. simpl in W.
      destruct x as [| | | | | |isnil es extra| |]; try discriminate.
      destruct (conv_index seg) as [i|]; [|discriminate].
      destruct ((0 <=? i)%Z && (i <? Z.of_nat (List.length es))%Z); [|discriminate].
      destruct (nth_error es (Z.to_nat i)) as [e|] eqn:NE; [|discriminate].
      assert (WTe : wtb en e = true).
      { rewrite forallb_forall in WX. apply WX. eapply nth_error_In; eauto. }
      apply (H2 en eq_refl W e rest WTe NX).
    - reflexivity. }
  destruct p; [|apply (CORE v WT NV)].
  cbn [wtb] in WT. destruct v as [| | | | | | | |[x|]]; try discriminate.
  apply (CORE x WT). exact NV.
Qed.

(* continuing from the zero value of an absent key: whatever answers the element's demand on the
   zero value answers the map's demand *)
Lemma goodd_zero o vn rest (tb : list want) :
  wfn vn = true ->
  goodd o (get_demand vn (zero_val vn) rest) ->
  goodd o (if past_leaf vn rest then None
           else Some ((WNone :: wants_of (nav vn (zero_val vn) rest) (absent_zero vn (zero_val vn) rest)) ++
                      (if type_bad vn rest then [WErr] else []))).
Proof.
  intros W. unfold get_demand.
  destruct (past_leaf vn rest) eqn:PL; [auto|].
  destruct (nav vn (zero_val vn) rest) as [en e|w| |] eqn:NV; cbn [goodd].
  - apply good_mono. intros a Ha. right. apply in_or_app. left. exact Ha.
  - apply good_mono. intros a Ha. right. exact Ha.
  - apply good_mono. intros a Ha. right. apply in_or_app. left. exact Ha.
  - pose proof (unspec_past vn W (zero_val vn) rest (wtb_zero vn W) NV). congruence.
Qed.

(* ---------- depth / path ---------- *)
Lemma ltb_rest_cons (path : list string) depth seg rest : skipn depth path = seg :: rest -> Nat.ltb depth (List.length path) = true.
Proof. intros E. destruct (skipn_cons _ _ _ _ E) as (_ & _ & C). apply Nat.ltb_lt. exact C. Qed.

Lemma ltb_rest_nil (path : list string) depth : skipn depth path = [] -> depth <= List.length path -> Nat.ltb depth (List.length path) = false.
Proof. intros E L. rewrite (skipn_nil_len _ _ L E). apply Nat.ltb_irrefl. Qed.

Lemma basic_child_demand ch f l cp rest : is_basic_child ch = true ->
  goodd (Ret (Some (Ref f l cp)) None) (get_demand ch f rest).
Proof.
  intros B. destruct rest as [|seg rest'].
  - rewrite demand_nil. apply good_elem_ret. reflexivity.
  - destruct ch as [ty tn tu nm pk pki p chld mk mv sl hb hc]. unfold is_basic_child in B. simpl in B.
    unfold get_demand. cbn [past_leaf].
    destruct ty; try discriminate; [rewrite B|]; exact I.
Qed.

Ltac red_dem := cbv beta iota; cbn [goodd wants_of app].

(* ---------- the main lemma ---------- *)
Lemma get_sound_node : forall n, wfn n = true -> forall sv l cp depth path rest,
  wtb n sv = true -> skipn depth path = rest -> depth <= List.length path -> (depth = 0 -> rest <> []) ->
  goodd (get_node false n (obj_of (n_ptr n) (GS sv l cp)) (ref_of (GS sv l cp)) depth path None)
        (get_demand n sv rest).
Proof.
  intros n. induction n using node_ind'. intros W.
  assert (CORE : forall x lo cpo self depth path rest,
    wtb (Node ty tn tu nm pk pki false chld mk mv sl hb hc) x = true -> fin (r_val self) = fin x ->
    skipn depth path = rest -> depth <= List.length path -> (depth = 0 -> rest <> []) ->
    goodd (get_node false (Node ty tn tu nm pk pki false chld mk mv sl hb hc) (OVal x lo cpo) self depth path None)
          (get_demand (Node ty tn tu nm pk pki false chld mk mv sl hb hc) x rest)).
  { intros x lo cpo self depth path rest WT FS SK LE D0.
    cbn [wfn] in W. cbn [wtb] in WT.
    assert (DNZ : rest = [] -> Nat.eqb depth 0 = false).
    { intros E. apply Nat.eqb_neq. intros Z. apply (D0 Z E). }
    destruct ty.
    - (* struct *)
      apply andb_true_iff in W. destruct W as (W & WC).
      destruct x as [| | | | |fs| | |]; try discriminate.
      destruct rest as [|seg rest'].
      + rewrite demand_nil. cbn [get_node]. rewrite (ltb_rest_nil _ _ SK LE), (DNZ eq_refl).
        apply good_elem_fall. exact FS.
      + destruct (rest_cons _ _ _ _ SK) as (_ & _ & R3 & R4 & R5).
        cbn [get_node]. rewrite (ltb_rest_cons _ _ _ _ SK), R3, gwalk_find.
        destruct (find_idx seg chld 0) as [[ch j]|] eqn:F.
        * destruct (find_idx_in _ _ _ _ _ F) as (_ & _ & _ & NT). rewrite Nat.sub_0_r in NT.
          assert (JL : j < List.length fs).
          { rewrite (forallb2_length _ _ _ WT). apply nth_error_Some. congruence. }
          destruct (nth_error_ex fs j JL) as (f & NF).
          rewrite (demand_struct_some _ _ _ _ _ _ _ _ _ _ _ _ _ _ _ _ _ (forallb2_length _ _ _ WT) F NF).
          cbn [field_slot]. rewrite NF.
          pose proof (forallb_nth _ _ _ _ WC NT) as Wch.
          pose proof (forallb2_nth _ _ _ _ _ _ WT NT NF) as WTf.
          destruct (is_basic_child ch) eqn:BC.
          -- apply basic_child_demand. exact BC.
          -- apply goodd_finish.
             apply (Forall_nth _ _ _ _ H NT Wch f (lo ++ [SField j]) cpo (S depth) path rest' WTf R4 R5).
             intros E; discriminate E.
        * rewrite (demand_struct_none _ _ _ _ _ _ _ _ _ _ _ _ _ _ (forallb2_length _ _ _ WT) F).
          apply good_none_fall. left; reflexivity.
    - (* map *)
      apply andb_true_iff in W. destruct W as (_ & W).
      destruct mk as [kn|]; [|discriminate]. destruct mv as [vn|]; [|discriminate].
      apply andb_true_iff in W. destruct W as (W & KS). apply andb_true_iff in W. destruct W as (W & KB).
      apply andb_true_iff in W. destruct W as (Wk & Wv).
      destruct (n_typ kn) eqn:KT; try discriminate.
      destruct x as [| | | | | | |isnil kvs|]; try discriminate.
      destruct rest as [|seg rest'].
      + rewrite demand_nil. cbn [get_node]. rewrite (ltb_rest_nil _ _ SK LE), (DNZ eq_refl).
        apply good_elem_fall. exact FS.
      + destruct (rest_cons _ _ _ _ SK) as (_ & _ & R3 & R4 & R5).
        cbn [get_node]. rewrite (ltb_rest_cons _ _ _ _ SK), R3.
        assert (WTE : forall k e, map_find kvs k = Some e -> wtb vn e = true).
        { intros k e MF. destruct (map_find_in _ _ _ MF) as (k' & INe).
          rewrite forallb_forall in WT. specialize (WT _ INe). apply andb_true_iff in WT. tauto. }
        assert (FOUND : forall k e, n_ptr kn = false -> conv_key kn seg = Some k -> map_find kvs k = Some e ->
                  goodd (get_node false vn (obj_of (n_ptr vn) (GS e (lo ++ [SKey k]) true)) (ref_of (GS e (lo ++ [SKey k]) true)) (S depth) path None)
                        (get_demand (Node typeMap tn tu nm pk pki false chld (Some kn) (Some vn) sl hb hc) (VMap isnil kvs) (seg :: rest'))).
        { intros k e PK CK MF. rewrite (demand_map_found _ _ _ _ _ _ _ _ _ _ _ _ _ _ _ _ _ PK CK MF).
          apply (H1 vn eq_refl Wv e (lo ++ [SKey k]) true (S depth) path rest' (WTE _ _ MF) R4 R5).
          intros E; discriminate E. }
        assert (ZERO : forall k, conv_key kn seg = Some k -> (if n_ptr kn then None else map_find kvs k) = None ->
                  goodd (get_node false vn (obj_of (n_ptr vn) (GS (zero_val vn) (lo ++ [SKey k]) true)) (ref_of (GS (zero_val vn) (lo ++ [SKey k]) true)) (S depth) path None)
                        (get_demand (Node typeMap tn tu nm pk pki false chld (Some kn) (Some vn) sl hb hc) (VMap isnil kvs) (seg :: rest'))).
        { intros k CK NF.
          pose proof (H1 vn eq_refl Wv (zero_val vn) (lo ++ [SKey k]) true (S depth) path rest' (wtb_zero vn Wv) R4 R5
                        (fun E : S depth = 0 => match Nat.neq_succ_0 _ E with end)) as IHz.
          apply (goodd_zero _ vn rest' (if type_bad vn rest' then [WErr] else []) Wv) in IHz.
          unfold get_demand. cbn [past_leaf nav absent_zero type_bad]. rewrite CK.
          destruct (n_ptr kn); [exact IHz|]. rewrite NF. exact IHz. }
        assert (ABSENT : conv_key kn seg = Some (VStr seg) ->
                  (if n_ptr kn then None else map_find kvs (VStr seg)) = None ->
                  goodd (@Fall (option ref) None)
                        (get_demand (Node typeMap tn tu nm pk pki false chld (Some kn) (Some vn) sl hb hc) (VMap isnil kvs) (seg :: rest'))).
        { intros CK NF. unfold get_demand. cbn [past_leaf nav absent_zero type_bad]. rewrite CK.
          destruct (past_leaf vn rest'); [exact I|].
          destruct (n_ptr kn).
          - red_dem. apply good_none_fall. left; reflexivity.
          - rewrite NF. red_dem. apply good_none_fall. left; reflexivity. }
        destruct (is_string_key kn) eqn:SKY.
        * pose proof (string_key_conv kn seg Wk KT KS SKY) as CK.
          unfold lookup.
          destruct (if n_ptr kn then None else map_find kvs (VStr seg)) as [e|] eqn:LK.
          -- destruct (n_ptr kn) eqn:PK; [discriminate|]. apply (FOUND _ _ eq_refl CK LK).
          -- apply (ABSENT CK eq_refl).
        * destruct (conv_key kn seg) as [k|] eqn:CK.
          -- unfold lookup.
             destruct (if n_ptr kn then None else map_find kvs k) as [e|] eqn:LK.
             ++ destruct (n_ptr kn) eqn:PK; [discriminate|]. apply (FOUND _ _ eq_refl eq_refl LK).
             ++ apply (ZERO k eq_refl LK).
          -- unfold get_demand. cbn [past_leaf nav absent_zero type_bad]. rewrite CK.
             destruct (past_leaf vn rest'); [exact I|].
             destruct (n_ptr kn); red_dem; apply good_err.
             ++ right; left; reflexivity.
             ++ left; reflexivity.
    - (* slice *)
      apply andb_true_iff in W. destruct W as (_ & W).
      destruct (String.eqb tn "[]byte") eqn:BY.
      + destruct x as [| | | |isnil d extra| | | |]; try discriminate.
        destruct rest as [|seg rest'].
        * rewrite demand_nil. cbn [get_node]. rewrite (ltb_rest_nil _ _ SK LE), (DNZ eq_refl).
          apply good_elem_fall. exact FS.
        * unfold get_demand. cbn [past_leaf]. rewrite BY. exact I.
      + destruct sl as [en|]; [|discriminate]. simpl in W.
        destruct x as [| | | | | |isnil es extra| |]; try discriminate.
        destruct rest as [|seg rest'].
        * rewrite demand_nil. cbn [get_node]. rewrite (ltb_rest_nil _ _ SK LE), (DNZ eq_refl).
          apply good_elem_fall. exact FS.
        * destruct (rest_cons _ _ _ _ SK) as (_ & _ & R3 & R4 & R5).
          cbn [get_node]. rewrite (ltb_rest_cons _ _ _ _ SK), BY, R3.
          destruct (conv_index seg) as [i|] eqn:CI.
          -- destruct ((0 <=? i)%Z && (i <? Z.of_nat (List.length es))%Z) eqn:RG.
             ++ pose proof RG as RG'. apply andb_true_iff in RG'. destruct RG' as (G1 & G2).
                apply Z.leb_le in G1. apply Z.ltb_lt in G2.
                assert (JL : Z.to_nat i < List.length es) by lia.
                destruct (nth_error_ex es _ JL) as (e & NE). rewrite NE.
                assert (WTe : wtb en e = true).
                { rewrite forallb_forall in WT. apply WT. eapply nth_error_In; eauto. }
                rewrite (demand_slice_found _ _ _ _ _ _ _ _ _ _ _ _ _ _ _ _ _ _ BY CI RG NE).
                apply (H2 en eq_refl W e (lo ++ [SIdx (Z.to_nat i)]) (n_ptr en || is_builtin (n_typn en)) (S depth) path rest' WTe R4 R5).
                intros E; discriminate E.
             ++ unfold get_demand. cbn [past_leaf nav absent_zero type_bad]. rewrite BY, CI, RG.
                destruct (past_leaf en rest'); [exact I|].
                red_dem. apply good_none_fall. left; reflexivity.
          -- unfold get_demand. cbn [past_leaf nav absent_zero type_bad]. rewrite BY, CI.
             destruct (past_leaf en rest'); [exact I|].
             red_dem. apply good_err. left; reflexivity.
    - (* basic *)
      cbn [get_node]. destruct rest as [|seg rest'].
      + rewrite demand_nil. apply good_elem_ret. exact FS.
      + exact I. }
  intros sv l cp depth path rest WT SK LE D0.
  destruct p.
  - cbn [wtb] in WT. destruct sv as [| | | | | | | |[x|]]; try discriminate.
    + (* a set pointer: the same code runs on the pointee *)
      rewrite demand_ptr.
      change (get_node false (Node ty tn tu nm pk pki true chld mk mv sl hb hc)
                (obj_of (n_ptr (Node ty tn tu nm pk pki true chld mk mv sl hb hc)) (GS (VPtr (Some x)) l cp))
                (ref_of (GS (VPtr (Some x)) l cp)) depth path None)
        with (get_node false (Node ty tn tu nm pk pki false chld mk mv sl hb hc)
                (OVal x (l ++ [SDeref]) false) (Ref (VPtr (Some x)) l cp) depth path None).
      apply CORE; auto.
    + (* a nil pointer *)
      cbn [n_ptr obj_of ref_of].
      assert (DNZ : rest = [] -> Nat.eqb depth 0 = false).
      { intros E. apply Nat.eqb_neq. intros Z. apply (D0 Z E). }
      destruct rest as [|seg rest'].
      * rewrite demand_nil.
        destruct ty; cbn [get_node]; try rewrite (ltb_rest_nil _ _ SK LE), (DNZ eq_refl);
          try (apply good_elem_fall; reflexivity).
        apply good_none_ret. right; left; reflexivity.
      * unfold get_demand. destruct (past_leaf _ _) eqn:PL; [exact I|].
        destruct ty; cbn [get_node]; try rewrite (ltb_rest_cons _ _ _ _ SK);
          cbn [nav]; red_dem; apply good_none_ret; left; reflexivity.
  - cbn [n_ptr obj_of ref_of]. apply CORE; auto.
Qed.

(* ---------- the methods ---------- *)
Lemma goodd_meets o d : goodd o d -> meets (finish o) d.
Proof. destruct d as [ws|]; [|exact (fun _ => I)]. destruct o; simpl; auto. Qed.

Theorem get_sound n v path :
  wfn n = true -> n_ptr n = false -> wtb n v = true ->
  meets (get false n (APtr (Some v)) path) (get_demand n v path).
Proof.
  intros W P WT. unfold get, get_to. cbn [root_slot].
  destruct path as [|seg rest].
  - rewrite demand_nil. apply (goodd_meets (Ret (Some (ref_of (GS v [] false))) None) (Some (elem_wants v))).
    apply good_elem_ret. reflexivity.
  - apply goodd_meets.
    apply (get_sound_node n W v [] false 0 (seg :: rest) (seg :: rest) WT eq_refl (Nat.le_0_l _)).
    intros _; discriminate.
Qed.

(* ---------- no panic, and no error but the parse error ---------- *)
Definition gsafe (o : out (option ref)) : Prop :=
  match o with Panic _ => False | Ret _ (Some e) => e = EParse | _ => True end.

Lemma gsafe_finish o : gsafe o -> gsafe (finish o).
Proof. destruct o; simpl; auto. Qed.

Lemma get_safe_node : forall n, wfn n = true -> forall sv l cp depth path buf,
  wtb n sv = true ->
  gsafe (get_node false n (obj_of (n_ptr n) (GS sv l cp)) (ref_of (GS sv l cp)) depth path buf).
Proof.
  intros n. induction n using node_ind'. intros W.
  assert (CORE : forall x lo cpo self depth path buf,
    wtb (Node ty tn tu nm pk pki false chld mk mv sl hb hc) x = true ->
    gsafe (get_node false (Node ty tn tu nm pk pki false chld mk mv sl hb hc) (OVal x lo cpo) self depth path buf)).
  { intros x lo cpo self depth path buf WT. cbn [wfn] in W. cbn [wtb] in WT.
    destruct ty; cbn [get_node]; try exact I;
      (destruct (Nat.ltb depth (List.length path)) eqn:LT; [|exact I]);
      apply Nat.ltb_lt in LT; destruct (nth_error_ex path depth LT) as (seg & NP); rewrite ?NP.
    - (* struct *)
      apply andb_true_iff in W. destruct W as (W & WC).
      destruct x as [| | | | |fs| | |]; try discriminate.
      rewrite gwalk_find.
      destruct (find_idx seg chld 0) as [[ch j]|] eqn:F; [|exact I].
      destruct (find_idx_in _ _ _ _ _ F) as (_ & _ & _ & NT). rewrite Nat.sub_0_r in NT.
      assert (JL : j < List.length fs).
      { rewrite (forallb2_length _ _ _ WT). apply nth_error_Some. congruence. }
      destruct (nth_error_ex fs j JL) as (f & NF).
      cbn [field_slot]. rewrite NF.
      destruct (is_basic_child ch); [exact I|].
      apply gsafe_finish.
      apply (Forall_nth _ _ _ _ H NT (forallb_nth _ _ _ _ WC NT) f (lo ++ [SField j]) cpo (S depth) path buf
               (forallb2_nth _ _ _ _ _ _ WT NT NF)).
    - (* map *)
      apply andb_true_iff in W. destruct W as (_ & W).
      destruct mk as [kn|]; [|discriminate]. destruct mv as [vn|]; [|discriminate].
      apply andb_true_iff in W. destruct W as (W & KS). apply andb_true_iff in W. destruct W as (W & KB).
      apply andb_true_iff in W. destruct W as (Wk & Wv).
      destruct x as [| | | | | | |isnil kvs|]; try discriminate.
      assert (WTE : forall k e, lookup kn kvs k = Some e -> wtb vn e = true).
      { unfold lookup. intros k e L. destruct (n_ptr kn); [discriminate|].
        destruct (map_find_in _ _ _ L) as (k' & INe).
        rewrite forallb_forall in WT. specialize (WT _ INe). apply andb_true_iff in WT. tauto. }
      destruct (is_string_key kn).
      + destruct (lookup kn kvs (VStr seg)) as [e|] eqn:L; [|exact I].
        apply (H1 vn eq_refl Wv e _ true (S depth) path buf (WTE _ _ L)).
      + destruct (conv_key kn seg) as [k|]; [|reflexivity].
        apply (H1 vn eq_refl Wv _ _ true (S depth) path buf).
        destruct (lookup kn kvs k) as [e|] eqn:L; [eapply WTE; eauto|apply wtb_zero; exact Wv].
    - (* slice *)
      apply andb_true_iff in W. destruct W as (_ & W).
      destruct (String.eqb tn "[]byte") eqn:BY; [exact I|].
      destruct sl as [en|]; [|discriminate]. simpl in W.
      destruct x as [| | | | | |isnil es extra| |]; try discriminate.
      destruct (conv_index seg) as [i|]; [|reflexivity].
      destruct ((0 <=? i)%Z && (i <? Z.of_nat (List.length es))%Z) eqn:RG; [|exact I].
      apply andb_true_iff in RG. destruct RG as (G1 & G2). apply Z.leb_le in G1. apply Z.ltb_lt in G2.
      assert (JL : Z.to_nat i < List.length es) by lia.
      destruct (nth_error_ex es _ JL) as (e & NE). rewrite NE.
      assert (WTe : wtb en e = true).
      { rewrite forallb_forall in WT. apply WT. eapply nth_error_In; eauto. }
      apply (H2 en eq_refl W e _ _ (S depth) path buf WTe). }
  intros sv l cp depth path buf WT.
  destruct p.
  - cbn [wtb] in WT. destruct sv as [| | | | | | | |[x|]]; try discriminate.
    + change (get_node false (Node ty tn tu nm pk pki true chld mk mv sl hb hc)
                (obj_of (n_ptr (Node ty tn tu nm pk pki true chld mk mv sl hb hc)) (GS (VPtr (Some x)) l cp))
                (ref_of (GS (VPtr (Some x)) l cp)) depth path buf)
        with (get_node false (Node ty tn tu nm pk pki false chld mk mv sl hb hc)
                (OVal x (l ++ [SDeref]) false) (Ref (VPtr (Some x)) l cp) depth path buf).
      apply CORE; exact WT.
    + cbn [n_ptr obj_of ref_of]. destruct ty; cbn [get_node]; try exact I;
        destruct (Nat.ltb depth (List.length path)); exact I.
  - cbn [n_ptr obj_of ref_of]. apply CORE; exact WT.
Qed.

Theorem get_to_safe n v path buf :
  wfn n = true -> n_ptr n = false -> wtb n v = true ->
  gsafe (get_to false n (APtr (Some v)) path buf).
Proof.
  intros W P WT. unfold get_to. cbn [root_slot].
  destruct path as [|seg rest]; [exact I|].
  apply gsafe_finish. apply (get_safe_node n W v [] false 0 (seg :: rest) buf WT).
Qed.
