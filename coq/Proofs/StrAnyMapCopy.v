(* Proofs/StrAnyMapCopy.v - Copy / CopyTo / Reset against the specification,
   and the refinement along whole operation histories. *)
From Coq Require Import ZArith NArith List String Ascii Bool Lia.
From Verif Require Import Util Ints StrAnyMap StrAnyMapSpec StrAnyMapAbs StrAnyMapNav StrAnyMapSet.
Import ListNotations.
Local Open Scope string_scope.

(* ---------- induction over the abstract tree ---------- *)
Section TreeInd.
  Variable P : tree -> Prop.
  Hypothesis Hleaf : forall l, P (TLeaf l).
  Hypothesis Hmap : forall h es, Forall (fun kv => P (snd kv)) es -> P (TMap h es).
  Fixpoint tree_ind' (t : tree) : P t :=
    match t with
    | TLeaf l => Hleaf l
    | TMap h es =>
      Hmap h es ((fix go (l : tentries) : Forall (fun kv => P (snd kv)) l :=
                    match l with
                    | [] => Forall_nil _
                    | kv :: r => Forall_cons kv (tree_ind' (snd kv)) (go r)
                    end) es)
    end.
End TreeInd.

Definition strip_es (es : tentries) : tentries := map (fun kv => (fst kv, strip (snd kv))) es.

Lemma strip_map h es : strip (TMap h es) = TMap h (strip_es es).
Proof. simpl. f_equal. induction es as [|[k v] r IH]; simpl; auto. now rewrite IH. Qed.

Lemma strip_idem : forall t, strip (strip t) = strip t.
Proof.
  induction t as [l|h es IH] using tree_ind'.
  - destruct l; reflexivity.
  - rewrite !strip_map. f_equal.
    induction es as [|[k v] r IHr]; simpl; auto.
    inversion IH as [|? ? Hv Hr]; subst. simpl in Hv. rewrite Hv. f_equal. now apply IHr.
Qed.

(* ---------- cpy ---------- *)
Lemma cpy_val_map o f es : cpy_val (AMap o f es) = AMap OMake f (cpy es).
Proof. simpl. f_equal. unfold cpy. induction es as [|[k v] r IH]; simpl; auto. now rewrite IH. Qed.

Lemma abs_cpy_val : forall x, abs (cpy_val x) = strip (abs x).
Proof.
  induction x as [| | | | |o f es IH|nf] using any_ind'; try reflexivity.
  rewrite cpy_val_map, !abs_map, strip_map. f_equal.
  unfold cpy, abs_es, strip_es.
  induction es as [|[k v] r IHr]; simpl; auto.
  inversion IH as [|? ? Hv Hr]; subst. simpl in Hv. rewrite Hv. f_equal. now apply IHr.
Qed.

Lemma abs_cpy es : abs_es (cpy es) = strip_es (abs_es es).
Proof.
  unfold cpy, abs_es, strip_es. rewrite !map_map. apply map_ext. intros [k v]. simpl. now rewrite abs_cpy_val.
Qed.

Definition fresh_es (es : entries) : bool := forallb (fun kv => fresh (snd kv)) es.

Lemma fresh_map o f es : fresh (AMap o f es) = match o with OCaller => false | _ => true end && fresh_es es.
Proof. simpl. f_equal. induction es as [|[k v] r IH]; simpl; auto. now rewrite IH. Qed.

Lemma fresh_cpy_val : forall x, fresh (cpy_val x) = true.
Proof.
  induction x as [| | | | |o f es IH|nf] using any_ind'; try reflexivity.
  rewrite cpy_val_map, fresh_map. simpl. unfold fresh_es, cpy.
  induction es as [|[k v] r IHr]; simpl; auto.
  inversion IH as [|? ? Hv Hr]; subst. simpl in Hv. rewrite Hv. now apply IHr.
Qed.

Lemma fresh_cpy es : fresh_es (cpy es) = true.
Proof.
  unfold fresh_es, cpy. rewrite forallb_forall. intros kv H. apply in_map_iff in H.
  destruct H as [[k v] [<- _]]. apply fresh_cpy_val.
Qed.

Lemma nonil_cpy_val : forall x, nonil (cpy_val x) = true.
Proof.
  induction x as [| | | | |o f es IH|nf] using any_ind'; try reflexivity.
  rewrite cpy_val_map, nonil_map. unfold nonil_es, cpy.
  induction es as [|[k v] r IHr]; simpl; auto.
  inversion IH as [|? ? Hv Hr]; subst. simpl in Hv. rewrite Hv. now apply IHr.
Qed.

Lemma nonil_cpy es : nonil_es (cpy es) = true.
Proof.
  unfold nonil_es, cpy. rewrite forallb_forall. intros kv H. apply in_map_iff in H.
  destruct H as [[k v] [<- _]]. apply nonil_cpy_val.
Qed.

Lemma wf_cpy_val : forall x, wf x = true -> wf (cpy_val x) = true.
Proof.
  induction x as [| | | | |o f es IH|nf] using any_ind'; try reflexivity.
  rewrite cpy_val_map, !wf_map. intros H. apply andb_prop in H. destruct H as [Hk Hes].
  assert (Hkeys : map fst (cpy es) = map fst es).
  { unfold cpy. rewrite map_map. apply map_ext. now intros [k v]. }
  rewrite Hkeys, Hk. simpl. unfold wf_es, cpy in *.
  induction es as [|[k v] r IHr]; simpl in *; auto.
  inversion IH as [|? ? Hv Hr]; subst. simpl in Hv.
  apply andb_prop in Hes. destruct Hes as [Hwv Hwr].
  apply andb_prop in Hk. destruct Hk as [_ Hk].
  rewrite (Hv Hwv). simpl. apply IHr; auto.
  unfold cpy. rewrite map_map. apply map_ext. now intros [k' v'].
Qed.

(* ---------- Copy ---------- *)
(* the result of Copy on every argument, abstractly *)
Lemma copy_abs : forall x, abs (fst (copy true x)) = strip (TMap HVal (root_entries (abs x))).
Proof.
  intros x. unfold copy, copy_to.
  destruct x; try reflexivity.
  - cbn [indir1 indir2 negb andb with_entries fst]. rewrite !abs_map. cbn [root_entries].
    now rewrite strip_map, abs_cpy.
  - cbn [indir1]. destruct (nil_is_pointer nf); reflexivity.
Qed.

Lemma copy_ok : forall x, is_map x = true -> snd (copy true x) = Ok tt.
Proof.
  intros x H. unfold copy, copy_to. destruct x; try discriminate.
  - reflexivity.
  - cbn [indir1]. destruct (nil_is_pointer nf); reflexivity.
Qed.

Lemma copy_equal : forall x, is_map x = true ->
  snd (copy true x) = Ok tt /\ copy_of (abs x) (abs (fst (copy true x))).
Proof.
  intros x H. split; [now apply copy_ok|].
  exists HVal. unfold same_tree. rewrite copy_abs. apply strip_idem.
Qed.

Lemma copy_fresh : forall x, fresh (fst (copy true x)) = true.
Proof.
  intros x. unfold copy, copy_to.
  destruct x; try reflexivity.
  - cbn [indir1 indir2 negb andb with_entries fst]. rewrite fresh_map. simpl. apply fresh_cpy.
  - cbn [indir1]. destruct (nil_is_pointer nf); reflexivity.
Qed.

Lemma copy_nonil : forall x, nonil (fst (copy true x)) = true.
Proof.
  intros x. unfold copy, copy_to.
  destruct x; try reflexivity.
  - cbn [indir1 indir2 negb andb with_entries fst]. rewrite nonil_map. apply nonil_cpy.
  - cbn [indir1]. destruct (nil_is_pointer nf); reflexivity.
Qed.

Lemma copy_settable : forall x, settable (fst (copy true x)) = true.
Proof. intros x. apply nonil_settable, copy_nonil. Qed.

Lemma copy_never_panics : forall x pk, snd (copy true x) <> Panic pk.
Proof.
  intros x pk. unfold copy, copy_to. destruct x; try (simpl; discriminate).
  cbn [indir1]. destruct (nil_is_pointer nf); simpl; discriminate.
Qed.

(* ---------- CopyTo into a caller's map held by pointer ---------- *)
Lemma copy_to_equal : forall o f es od df des, df <> FVal ->
  copy_to true (AMap o f es) (AMap od df des) = (AMap od df (cpy es), Ok tt) /\
  copy_of (abs (AMap o f es)) (abs (AMap od df (cpy es))) /\
  fresh_es (cpy es) = true.
Proof.
  intros o f es od df des Hdf. repeat split.
  - unfold copy_to. cbn [indir1 negb andb]. destruct df; [congruence| |]; reflexivity.
  - exists (hold_of df). unfold same_tree. rewrite !abs_map. cbn [root_entries].
    rewrite !strip_map. f_equal. rewrite abs_cpy. unfold strip_es. rewrite map_map.
    apply map_ext. intros [k v]. simpl. now rewrite strip_idem.
  - apply fresh_cpy.
Qed.

(* ... from every source that is a map (a nil one is an empty one) into every
   destination there is a pointer to: a map held by pointer is emptied and
   filled, a pointer to a nil map gets the map made for it *)
Definition src_entries (x : any) : entries := match x with AMap _ _ es => es | _ => [] end.

Lemma copy_to_result : forall src dst, is_map src = true -> fillable dst = true ->
  exists o f, copy_to true src dst = (AMap o f (cpy (src_entries src)), Ok tt) /\
              (forall od df des, dst = AMap od df des -> o = od /\ f = df).
Proof.
  intros src dst Hs Hd.
  assert (HD : forall es, exists o f,
    match indir2 true dst with
    | Err e => (dst, Err e)
    | Panic p => (dst, Panic p)
    | Ok mdst =>
      match (match mdst with Some _ => Some dst | None => made true dst end) with
      | None => (dst, Ok tt)
      | Some d => (with_entries d (cpy es), Ok tt)
      end
    end = (AMap o f (cpy es), Ok tt) /\
    (forall od df des, dst = AMap od df des -> o = od /\ f = df)).
  { intros es. destruct dst as [| | | | |od df des|nf]; try discriminate.
    - destruct df; [discriminate| |]; do 2 eexists; (split; [reflexivity|]);
        intros ? ? ? E; inversion E; auto.
    - destruct nf; try discriminate; do 2 eexists; (split; [reflexivity|]); intros ? ? ? E; discriminate. }
  unfold copy_to.
  destruct src as [| | | | |o f es|nf]; try discriminate.
  - cbn [indir1 negb andb src_entries]. apply HD.
  - cbn [indir1 src_entries]. destruct (nil_is_pointer nf); cbn [negb andb]; apply (HD []).
Qed.

Lemma copy_to_any : forall src dst, is_map src = true -> fillable dst = true ->
  snd (copy_to true src dst) = Ok tt /\
  copy_of (abs src) (abs (fst (copy_to true src dst))) /\
  fresh_es (src_entries (fst (copy_to true src dst))) = true.
Proof.
  intros src dst Hs Hd.
  destruct (copy_to_result src dst Hs Hd) as [o [f [E _]]]. rewrite E. cbn [fst snd src_entries].
  split; [reflexivity|]. split; [|apply fresh_cpy].
  exists (hold_of f). unfold same_tree. rewrite abs_map, !strip_map. f_equal.
  rewrite abs_cpy.
  assert (Hr : root_entries (abs src) = abs_es (src_entries src)).
  { destruct src; try discriminate; [now rewrite abs_map|reflexivity]. }
  rewrite Hr. unfold strip_es. rewrite map_map.
  apply map_ext. intros [k v]. simpl. now rewrite strip_idem.
Qed.

(* ---------- Reset ---------- *)
Lemma reset_abs : forall x, abs (fst (reset true x)) = treset (abs x) /\ snd (reset true x) = Ok tt.
Proof.
  intros x. unfold reset. destruct x; try (split; reflexivity).
  cbn [indir1]. destruct (nil_is_pointer nf); split; reflexivity.
Qed.

Lemma reset_empties : forall x, is_map x = true ->
  snd (reset true x) = Ok tt /\ root_entries (abs (fst (reset true x))) = [] /\
  exists h, abs (fst (reset true x)) = TMap h [].
Proof.
  intros x H. destruct (reset_abs x) as [Ha Hs]. rewrite Ha. split; [assumption|].
  destruct x; try discriminate.
  - rewrite abs_map. simpl. eauto.
  - simpl. eauto.
Qed.

(* in place: the holder (its form and its memory) is the one that was passed *)
Lemma reset_in_place : forall o f es, fst (reset true (AMap o f es)) = AMap o f [].
Proof. reflexivity. Qed.

Lemma reset_settable : forall x, settable x = true -> settable (fst (reset true x)) = true.
Proof.
  intros x H. unfold reset. destruct x; auto. cbn [indir1]. destruct (nil_is_pointer nf); auto.
Qed.

(* ---------- histories ---------- *)
Lemma step_abs : forall x o, settable x = true -> op_ok o = true ->
  abs (step true x o) = tstep (abs x) o /\ settable (step true x o) = true.
Proof.
  intros x o Hx Ho. destruct o as [p v| | | | | | |]; cbn [step tstep]; auto.
  - split; [|now apply set_settable].
    destruct p as [|k rest]; [reflexivity|].
    pose proof (set_exact (k :: rest) x v Hx ltac:(congruence)) as S.
    destruct (tset (abs x) (k :: rest) (stored (abs v))) as [t'|].
    + destruct S as [x' [E Ha]]. now rewrite E.
    + now rewrite S.
  - split; [apply copy_abs|apply copy_settable].
  - split; [apply reset_abs|now apply reset_settable].
Qed.

Theorem history_abs : forall ops x, settable x = true -> forallb op_ok ops = true ->
  abs (fold_left (step true) ops x) = fold_left tstep ops (abs x) /\
  settable (fold_left (step true) ops x) = true.
Proof.
  induction ops as [|o r IH]; intros x Hx Hops; [auto|].
  simpl in Hops. apply andb_prop in Hops. destruct Hops as [Ho Hr].
  destruct (step_abs x o Hx Ho) as [Ha Hn].
  simpl. destruct (IH (step true x o) Hn Hr) as [IHa IHn]. rewrite IHa, Ha. auto.
Qed.

(* keys stay pairwise distinct along every history *)
Definition op_wf (o : op) : bool := match o with OSet _ v => wf v | _ => true end.

Lemma history_wf : forall ops x, wf x = true -> forallb op_wf ops = true -> wf (fold_left (step true) ops x) = true.
Proof.
  induction ops as [|o r IH]; intros x Hx Hops; [auto|].
  simpl in Hops. apply andb_prop in Hops. destruct Hops as [Ho Hr].
  simpl. apply IH; auto.
  destruct o as [p v| | | | | | |]; cbn [step]; auto.
  - now apply set_wf.
  - unfold copy, copy_to. destruct x; try reflexivity.
    + cbn [indir1 indir2 negb andb with_entries fst].
      pose proof (wf_cpy_val (AMap o f es) Hx) as W. rewrite cpy_val_map in W.
      rewrite wf_map in W. rewrite wf_map. exact W.
    + cbn [indir1]. destruct (nil_is_pointer nf); reflexivity.
  - unfold reset. destruct x; auto. cbn [indir1]. destruct (nil_is_pointer nf); auto.
Qed.
