(* Proofs/FormsMain.v - C12 on the models: the three argument forms, purity of reads,
   by-value arguments of the writers, foreign and nil-pointer arguments. *)
From Coq Require Import List Bool String Ascii ZArith Arith Lia.
From Verif Require Import Util Ints Strconv Floats Node Value Outcome LC Get Cmp Loop Deq InsReset InsCopy SetEmit
  FormsSpec Api FormsGet.
Import ListNotations.
Local Open Scope string_scope.

(* ---------- the same answer in the three forms ---------- *)
Definition same_answer (x y : answer) : Prop :=
  match x, y with
  | AnsRef ov, AnsRef op => same_ref_answer ov op
  | _, _ => x = y
  end.

Definition by_val (v : val) : arg := AVal v.
Definition by_ptr (v : val) : arg := APtr (Some v).
Definition by_ptrptr (v : val) : arg := APtrPtr (Some (Some v)).

Lemma forms_length_capacity fn n v path res0 :
  length_capacity fn n (by_val v) path res0 = length_capacity fn n (by_ptr v) path res0 /\
  length_capacity fn n (by_ptrptr v) path res0 = length_capacity fn n (by_ptr v) path res0.
Proof. split; reflexivity. Qed.

Lemma forms_compare n v op rgt path res0 :
  compare n (by_val v) op rgt path res0 = compare n (by_ptr v) op rgt path res0 /\
  compare n (by_ptrptr v) op rgt path res0 = compare n (by_ptr v) op rgt path res0.
Proof. split; reflexivity. Qed.

Lemma forms_loop sc ord n v path :
  loop_method sc ord n (by_val v) path = loop_method sc ord n (by_ptr v) path /\
  loop_method sc ord n (by_ptrptr v) path = loop_method sc ord n (by_ptr v) path.
Proof. split; reflexivity. Qed.

(* DeepEqual: each operand in any of the three forms - nine combinations, one answer *)
Definition value_form (a : arg) (v : val) : Prop := a = by_val v \/ a = by_ptr v \/ a = by_ptrptr v.

Lemma forms_deep_equal n sh o la ra a b :
  value_form la a -> value_form ra b ->
  deep_equal_with_options n sh la ra o = deep_equal_with_options n sh (by_ptr a) (by_ptr b) o.
Proof. intros [->|[->| ->]] [->|[->| ->]]; reflexivity. Qed.

Lemma forms_copy n v :
  copy_method n (by_val v) = copy_method n (by_ptr v) /\ copy_method n (by_ptrptr v) = copy_method n (by_ptr v).
Proof. split; reflexivity. Qed.

Lemma forms_copyto_source n v dst :
  copyto_method n (by_val v) dst = copyto_method n (by_ptr v) dst /\
  copyto_method n (by_ptrptr v) dst = copyto_method n (by_ptr v) dst.
Proof. split; reflexivity. Qed.

Lemma forms_get_to n v path buf :
  same_ref_answer (get_to false n (by_val v) path buf) (get_to false n (by_ptr v) path buf) /\
  get_to false n (by_ptrptr v) path buf = get_to false n (by_ptr v) path buf.
Proof. split; [apply get_to_by_value|reflexivity]. Qed.

Theorem forms_all n c v : is_read c = true ->
  same_answer (fst (exec n c (by_val v))) (fst (exec n c (by_ptr v))) /\
  fst (exec n c (by_ptrptr v)) = fst (exec n c (by_ptr v)).
Proof.
  destruct c; cbn [is_read]; intros R; try discriminate; cbn [exec fst same_answer];
    try (split; reflexivity).
  - split; [apply get_to_by_value|reflexivity].
  - split; [apply get_to_by_value|reflexivity].
Qed.

(* the writers: *T and **T are one and the same *)
Theorem writers_pointer_forms n c v :
  fst (exec n c (by_ptrptr v)) = fst (exec n c (by_ptr v)) /\
  (forall v', snd (exec n c (by_ptr v)) = by_ptr v' <-> snd (exec n c (by_ptrptr v)) = by_ptrptr v').
Proof.
  split; [destruct c; reflexivity|].
  intros v'. unfold by_ptr, by_ptrptr.
  destruct c; cbn [exec snd]; try (split; intros E; inversion E; reflexivity).
  - change (copyto_method n src (APtrPtr (Some (Some v)))) with (copyto_method n src (APtr (Some v))).
    destruct (copyto_method n src (APtr (Some v))) as [[x|]|[x|] e|k]; cbn; split; intros E; inversion E; reflexivity.
  - cbn [set_with_buffer]. destruct (set_method n v path s buf); cbn; split; intros E; inversion E; reflexivity.
Qed.

(* ---------- what a reference answer says to the caller ---------- *)
Definition obs_value (g : gobs) : option (option val) :=
  match g with BNone => None | BNil => Some None | BVal x _ => Some (Some x) end.
Definition obs_live (g : gobs) : bool := match g with BVal _ l => l | _ => false end.

Lemma same_buf_obs bv bp : same_buf bv bp ->
  obs_value (obs_of_buf bv) = obs_value (obs_of_buf bp) /\
  (obs_live (obs_of_buf bv) = true -> obs_live (obs_of_buf bp) = true).
Proof.
  intros [->|(rv & rp & -> & -> & D)]; [auto|].
  unfold obs_of_buf. destruct (final rv) as [[[xv lv] cv]|], (final rp) as [[[xp lp] cp]|]; cbn in D; try tauto.
  destruct D as (-> & -> & F). cbn. split; [reflexivity|].
    rewrite F. destruct cp; cbn; auto.
Qed.

(* ---------- read operations never write ---------- *)
Theorem reads_pure n c a : is_read c = true -> snd (exec n c a) = a.
Proof. destruct c; cbn; intros R; try discriminate; reflexivity. Qed.

Theorem only_writers_change n c a : snd (exec n c a) <> a -> is_read c = false.
Proof.
  intros H. destruct (is_read c) eqn:R; [|reflexivity]. exfalso. apply H. apply reads_pure. exact R.
Qed.

(* a by-value argument is a copy: no call changes it *)
Theorem by_value_unchanged n c v : snd (exec n c (AVal v)) = AVal v.
Proof.
  destruct c; cbn [exec snd]; try reflexivity.
  destruct (copyto_method n src (AVal v)) as [[x|]|[x|] e|k]; reflexivity.
Qed.

(* ---------- writers reject a by-value argument ---------- *)
Theorem reset_by_value n v :
  exec n KReset (AVal v) = (AnsVal (Ret (Some v) (Some by_value_error)), AVal v).
Proof. reflexivity. Qed.

Theorem copyto_by_value n src w v : value_form src w ->
  exec n (KCopyToDst src) (AVal v) = (AnsVal (Ret (Some v) (Some by_value_error)), AVal v).
Proof. intros [->|[->| ->]]; reflexivity. Qed.

(* whatever the source: an error, and nothing changes; a source that is itself refused is reported first *)
Theorem copyto_by_value_any_source n src v :
  exists o e, exec n (KCopyToDst src) (AVal v) = (AnsVal (Ret o (Some e)), AVal v) /\
              (e = by_value_error \/ e = EUnsupported).
Proof.
  destruct src as [w|[w|]|[[w|]|]| |]; cbn;
    first [ exists (Some v), EMustPointer; split; [reflexivity|left; reflexivity]
          | exists None, EUnsupported; split; [reflexivity|right; reflexivity] ].
Qed.

(* ---------- a foreign argument is refused, nothing changes ---------- *)
Lemma refused_noeffect {S} op (b : S) : In RNoEffect (may_refuse op) -> refused op b (Ret b None).
Proof. intros I. exists RNoEffect. split; [exact I|reflexivity]. Qed.
Lemma refused_unsupported {S} op (b : S) : In RUnsupported (may_refuse op) -> refused op b (Ret b (Some EUnsupported)).
Proof. intros I. exists RUnsupported. split; [exact I|reflexivity]. Qed.

Theorem foreign_refused n :
  (forall path, refused OGet None (get false n AForeign path)) /\
  (forall path buf, refused OGetTo buf (get_to false n AForeign path buf)) /\
  (forall op rgt path res0, refused OCompare res0 (compare n AForeign op rgt path res0)) /\
  (forall sc ord path, refused OLoop [] (loop_method sc ord n AForeign path)) /\
  (forall path res0, refused OLength res0 (length_capacity FLen n AForeign path res0)) /\
  (forall path res0, refused OCapacity res0 (length_capacity FCap n AForeign path res0)) /\
  (forall sh o other, refused_bool ODeepEqual (deep_equal_with_options n sh AForeign other o) /\
                      refused_bool ODeepEqual (deep_equal_with_options n sh other AForeign o)) /\
  refused OCopy None (copy_method n AForeign) /\
  (forall dst, refused OCopyToSrc None (copyto_method n AForeign dst)) /\
  (forall src w, value_form src w -> refused OCopyToDst None (copyto_method n src AForeign)) /\
  refused OReset None (reset_method n AForeign) /\
  (forall c, snd (exec n c AForeign) = AForeign).
Proof.
  repeat split.
  - intros path. apply refused_noeffect. cbn; auto.
  - intros path buf. apply refused_noeffect. cbn; auto.
  - intros op rgt path res0. unfold compare. destruct path; apply refused_noeffect; cbn; auto.
  - intros sc ord path. unfold loop_method.
    destruct (is_struct_root n && _); apply refused_noeffect; cbn; auto.
  - intros path res0. apply refused_unsupported. cbn; auto.
  - intros path res0. apply refused_unsupported. cbn; auto.
  - cbn; auto.
  - destruct other as [w|[w|]|[[w|]|]| |]; reflexivity.
  - cbn; auto.
  - destruct other as [w|[w|]|[[w|]|]| |]; reflexivity.
  - apply refused_unsupported. cbn; auto.
  - intros dst. apply refused_unsupported. cbn; auto.
  - intros src w [->|[->| ->]]; apply refused_unsupported; cbn; auto.
  - apply refused_unsupported. cbn; auto.
  - intros c. destruct c; try reflexivity.
    cbn [exec snd]. destruct (copyto_method n src AForeign) as [[x|]|[x|] e|k]; reflexivity.
Qed.

(* ---------- nil pointer arguments (the header fixes): handled like the nil interface ---------- *)
Definition nil_pointer (a : arg) : Prop := a = APtr None \/ a = APtrPtr (Some None) \/ a = APtrPtr None.

Definition no_panic (x : answer) : Prop :=
  match x with
  | AnsRef (Panic _) | AnsBool (Panic _) | AnsTrace (Panic _) | AnsInt (Panic _) | AnsVal (Panic _) => False
  | AnsDeq (inr _) => False
  | AnsSet (Some (Panic _)) => False
  | _ => True
  end.

(* DeepEqual is the one method with an answer of its own for nil pointers (both nil: true, one nil: false) *)
Definition not_deep_equal (c : call) : bool :=
  match c with KDeepEqualL _ _ _ | KDeepEqualR _ _ _ => false | _ => true end.

Theorem nil_pointer_like_nil n c a : nil_pointer a -> not_deep_equal c = true ->
  exec n c a = (fst (exec n c ANil), a).
Proof.
  intros [->|[->| ->]] D; destruct c; try discriminate; try reflexivity;
    cbn [exec]; unfold compare, loop_method; cbn [header_x];
    try (destruct path; reflexivity);
    try (destruct (is_struct_root n && _); reflexivity).
  all: destruct src as [w|[w|]|[[w|]|]| |]; reflexivity.
Qed.

Theorem nil_arguments_safe n c a : nil_pointer a \/ a = ANil \/ a = AForeign ->
  no_panic (fst (exec n c a)) /\ snd (exec n c a) = a.
Proof.
  assert (DEQ : forall sh o x y, match deep_equal_with_options n sh x y o with inl _ => True | inr _ => False end).
  { intros sh o x y. unfold deep_equal_with_options.
    destruct x as [w|[w|]|[[w|]|]| |], y as [w'|[w'|]|[[w'|]|]| |]; cbn; exact I. }
  assert (CT : forall x y, match copyto_method n x y with Panic _ => False | _ => True end).
  { intros x y. unfold copyto_method.
    destruct x as [w|[w|]|[[w|]|]| |]; cbn; try exact I; destruct y as [w'|[w'|]|[[w'|]|]| |]; exact I. }
  intros H.
  assert (E : a = APtr None \/ a = APtrPtr (Some None) \/ a = APtrPtr None \/ a = ANil \/ a = AForeign) by (unfold nil_pointer in H; tauto).
  clear H. destruct c; cbn [exec fst snd no_panic].
  1-6: destruct E as [->|[->|[->|[->| ->]]]]; split; try reflexivity; cbn;
       unfold compare, loop_method; cbn [header_x];
       try (destruct path; exact I); try (destruct (is_struct_root n && _); exact I); try exact I.
  - split; [|reflexivity]. specialize (DEQ sh o a r). destruct (deep_equal_with_options n sh a r o); tauto.
  - split; [|reflexivity]. specialize (DEQ sh o l a). destruct (deep_equal_with_options n sh l a o); tauto.
  - destruct E as [->|[->|[->|[->| ->]]]]; split; try reflexivity; exact I.
  - split; [|reflexivity]. specialize (CT a dst). destruct (copyto_method n a dst); tauto.
  - specialize (CT src a). split.
    + destruct (copyto_method n src a); tauto.
    + destruct E as [->|[->|[->|[->| ->]]]];
        destruct (copyto_method n src _) as [[x|]|[x|] e|k]; reflexivity.
  - destruct E as [->|[->|[->|[->| ->]]]]; split; try reflexivity; exact I.
  - destruct E as [->|[->|[->|[->| ->]]]]; split; try reflexivity; exact I.
Qed.
