(* Proofs/SetHistSound.v - histories of Set / SetWithBuffer calls on one object (Model/SetHist.v).

   1. The emitted Set code keeps a well-typed object well-typed ([set_method_wt]); so the
      one-call theorems of Proofs/SetSound.v and Proofs/SetGet.v apply to EVERY call of a history,
      each on the object the calls before it left ([hist_sound], by induction on the history).
   2. The buffer's side: a sequence of buffered conversions (AssignToStr / AssignToBytes through
      one ByteBuffer, Model/Buffer.v) on a buffer in ANY state - fresh, presized, used, reset -
      hands out one text per conversion, and after the whole sequence every one of them still
      reads as it was rendered ([conv_texts_stable], from the invariant of Proofs/BufferInv.v):
      the texts the earlier calls stored are not rewritten by the later ones, which is why the
      history of the object is the one-call model iterated. *)
From Coq Require Import List Bool String Ascii ZArith Arith Lia Floats.SpecFloat.
From Verif Require Import Util Ints Strconv Floats Node Value Outcome Nav LC LCSound SetEmit SetSpec SetSound SetMono SetGet SetHist.
Import ListNotations.
Local Open Scope string_scope.
Local Open Scope list_scope.

(* no scalar node carries the type name of the bytes leaf (the leaf conversion is chosen by that name) *)
Fixpoint lnok (n : node) {struct n} : bool :=
  match n with
  | Node ty tn tu nm pk pki p chld mk mv sl hb hc =>
    match ty with
    | typeBasic => negb (String.eqb tn "[]byte")
    | typeStruct => forallb lnok chld
    | typeMap => match mv with Some vn => lnok vn | None => true end
    | typeSlice => match sl with Some en => lnok en | None => true end
    end
  end.

(* ---------- lists ---------- *)
Lemma forallb2_upd {A B} (f : A -> B -> bool) : forall l m j c y,
  forallb2 f l m = true -> nth_error l j = Some c -> f c y = true -> forallb2 f l (upd_nth j y m) = true.
Proof.
  induction l as [|a r IH]; intros [|b t] [|j] c y H N F; simpl in *; try discriminate; auto.
  - inversion N; subst. apply andb_true_iff in H. destruct H as (_ & H). rewrite F, H. reflexivity.
  - apply andb_true_iff in H. destruct H as (H1 & H2). rewrite H1. simpl. eapply IH; eauto.
Qed.

Lemma forallb_upd {A} (f : A -> bool) : forall l j y, forallb f l = true -> f y = true -> forallb f (upd_nth j y l) = true.
Proof.
  induction l as [|a r IH]; intros [|j] y H F; simpl in *; auto.
  - apply andb_true_iff in H. destruct H as (_ & H). rewrite F, H. reflexivity.
  - apply andb_true_iff in H. destruct H as (H1 & H2). rewrite H1. simpl. apply IH; auto.
Qed.

Section WT.
Variable s : src.
Variable buf : bool.

(* ---------- leaves ---------- *)
Lemma assign_scalar_wt k old x : assign_scalar k s buf old = Some x -> scalar_range_ok k x = true.
Proof.
  unfold assign_scalar. destruct k as [|i| | | |]; cbn [ikind_of].
  - intros H; inversion H; reflexivity.
  - destruct (is_signed i).
    + destruct s as [b|k' z|f|f|t|t]; try discriminate.
      * destruct (is_signed k'); [|discriminate]. intros H; inversion H. cbn [scalar_range_ok]. apply wrap_in_range.
      * destruct (assign_atoi t); cbn [option_map]; [|discriminate]. intros H; inversion H. cbn [scalar_range_ok]. apply wrap_in_range.
      * destruct (assign_atoi t); cbn [option_map]; [|discriminate]. intros H; inversion H. cbn [scalar_range_ok]. apply wrap_in_range.
    + destruct s as [b|k' z|f|f|t|t]; try discriminate.
      * destruct (is_signed k'); [discriminate|]. intros H; inversion H. cbn [scalar_range_ok]. apply wrap_in_range.
      * destruct (assign_atou t); cbn [option_map]; [|discriminate]. intros H; inversion H. cbn [scalar_range_ok]. apply wrap_in_range.
      * destruct (assign_atou t); cbn [option_map]; [|discriminate]. intros H; inversion H. cbn [scalar_range_ok]. apply wrap_in_range.
  - destruct (is_signed KUint8) eqn:SG; [discriminate SG|].
    destruct s as [b|k' z|f|f|t|t]; try discriminate.
    + destruct (is_signed k'); [discriminate|]. intros H; inversion H. cbn [scalar_range_ok]. apply wrap_in_range.
    + destruct (assign_atou t); cbn [option_map]; [|discriminate]. intros H; inversion H. cbn [scalar_range_ok]. apply wrap_in_range.
    + destruct (assign_atou t); cbn [option_map]; [|discriminate]. intros H; inversion H. cbn [scalar_range_ok]. apply wrap_in_range.
  - destruct s as [b|k' z|f|f|t|t]; try discriminate; try (intros H; inversion H; reflexivity);
      destruct (assign_atof t); cbn [option_map]; try discriminate; intros H; inversion H; reflexivity.
  - destruct s as [b|k' z|f|f|t|t]; try discriminate; try (intros H; inversion H; reflexivity);
      destruct (assign_atof t); cbn [option_map]; try discriminate; intros H; inversion H; reflexivity.
  - destruct s as [b|k' z|f|f|t|t]; try (intros H; inversion H; reflexivity);
      destruct (render_src _); try discriminate; intros H; inversion H; reflexivity.
Qed.

(* the content of a leaf location after AssignBuf, typed as the location without its pointer flag *)
Lemma assign_val_wt ty tn tu nm pk pki p chld mk mv sl hb hc x :
  let self := Node ty tn tu nm pk pki p chld mk mv sl hb hc in
  let n0 := Node ty tn tu nm pk pki false chld mk mv sl hb hc in
  is_leaf_node self = true -> lnok self = true -> wtb n0 x = true -> wtb n0 (assign_val self s buf x) = true.
Proof.
  intros self n0 LF LN WT. subst self n0. unfold assign_val, assign_leaf, is_bytes_node, node_skind. cbn [n_typn n_typu].
  unfold is_leaf_node in LF. cbn [n_typ] in LF. unfold is_bytes_node in LF. cbn [n_typn] in LF.
  destruct ty; try discriminate.
  - (* []byte *)
    rewrite LF. cbn [wtb]. rewrite LF.
    unfold assign_bytes. destruct s as [b|k' z|f|f|t|t]; try reflexivity;
      try (destruct (render_src _); [reflexivity|]); try (cbn [wtb] in WT; rewrite LF in WT; exact WT).
    destruct (String.eqb t ""); reflexivity.
  - (* scalars *)
    cbn [lnok] in LN. apply negb_true_iff in LN. rewrite LN.
    cbn [wtb] in *. destruct (skind_of_name tu) as [k|]; [|discriminate].
    destruct (assign_scalar k s buf x) as [y|] eqn:A; [|exact WT]. eapply assign_scalar_wt; eauto.
Qed.

Lemma leaf_store_wt ch f : is_leaf_node ch = true -> lnok ch = true -> wtb ch f = true -> wtb ch (leaf_store ch s buf f) = true.
Proof.
  intros LF LN WT. destruct ch as [ty tn tu nm pk pki p chld mk mv sl hb hc]. unfold leaf_store. cbn [n_ptr].
  destruct p.
  - cbn [wtb] in WT. destruct f as [b|z|f0|s0|nb d e|fs|ns es ex|nmm kvs|[x|]]; try discriminate; [|reflexivity].
    change (wtb (Node ty tn tu nm pk pki false chld mk mv sl hb hc)
                (assign_val (Node ty tn tu nm pk pki true chld mk mv sl hb hc) s buf x) = true).
    apply assign_val_wt; auto.
  - apply (assign_val_wt ty tn tu nm pk pki false chld mk mv sl hb hc f); auto.
Qed.

(* ---------- copies of map entries that are dropped ---------- *)
Lemma keep_shared_wt : forall n old new, wtb n old = true -> wtb n new = true -> wtb n (keep_shared n old new) = true.
Proof.
  intros n. induction n using node_ind'. intros old new WO WN. cbn [keep_shared].
  destruct p; [destruct (is_nil_val old); assumption|].
  destruct ty.
  - (* struct *)
    cbn [wtb] in WO, WN.
    destruct old as [b|z|f0|s0|nb d e|fo|ns es ex|nmm kvs|o]; try discriminate.
    destruct new as [b|z|f0|s0|nb d e|fnw|ns es ex|nmm kvs|o]; try discriminate.
    cbn [wtb]. revert fo fnw WO WN. induction H as [|c r Hc Hr IHl]; intros fo fnw WO WN.
    + destruct fo; [reflexivity|discriminate].
    + destruct fo as [|x ar]; [discriminate|]. destruct fnw as [|y br]; [discriminate|].
      simpl in WO, WN. apply andb_true_iff in WO. apply andb_true_iff in WN. destruct WO as (W1 & W2). destruct WN as (W3 & W4).
      simpl. rewrite (Hc x y W1 W3). simpl. apply IHl; auto.
  - destruct (is_nil_val old); assumption.
  - destruct (String.eqb tn "[]byte"); [assumption|]. destruct old as [b|z|f0|s0|nb d e|fo|ns es ex|nmm kvs|o]; try assumption.
    destruct es; assumption.
  - assumption.
Qed.

(* ---------- map keys ---------- *)
Lemma conv_key_wt kn seg k :
  wfn kn = true -> n_typ kn = typeBasic ->
  Bool.eqb (String.eqb (n_typn kn) "string") (String.eqb (n_typu kn) "string") = true ->
  (if is_string_key kn then Some (VStr seg) else conv_key kn seg) = Some k ->
  wtb (set_ptr kn false) k = true.
Proof.
  intros W TB KS CK.
  assert (CK' : conv_key kn seg = Some k).
  { destruct (is_string_key kn) eqn:SK; [|exact CK]. rewrite <- CK. apply string_key_conv; auto. }
  destruct kn as [ty tn tu nm pk pki p chld mk mv sl hb hc]. cbn [n_typ] in TB. subst ty. cbn [set_ptr wtb].
  clear CK. unfold conv_key, node_skind in CK'. cbn [n_typu] in CK'.
  destruct (skind_of_name tu) as [kd|]; [|discriminate].
  destruct kd as [|i| | | |]; try discriminate.
  - destruct (parse_bool seg); cbn [option_map] in CK'; [|discriminate]. inversion CK'. reflexivity.
  - destruct (is_signed i).
    + unfold snippet_int in CK'. destruct (parse_int seg 0 64); cbn [option_map] in CK'; [|discriminate].
      inversion CK'. cbn [scalar_range_ok]. apply wrap_in_range.
    + unfold snippet_uint in CK'. destruct (parse_uint seg 0 (2 ^ 64 - 1)); cbn [option_map] in CK'; [|discriminate].
      inversion CK'. cbn [scalar_range_ok]. apply wrap_in_range.
  - destruct (parse_float seg); cbn [option_map] in CK'; [|discriminate]. inversion CK'. reflexivity.
  - destruct (parse_float seg); cbn [option_map] in CK'; [|discriminate]. inversion CK'. reflexivity.
  - inversion CK'. reflexivity.
Qed.

Lemma kvs_put_wt (fk fv : val -> bool) : forall kvs k e,
  forallb (fun kv => fk (fst kv) && fv (snd kv)) kvs = true -> fk k = true -> fv e = true ->
  forallb (fun kv => fk (fst kv) && fv (snd kv)) (kvs_put kvs k e) = true.
Proof.
  induction kvs as [|[k' x] r IH]; intros k e H K E; simpl.
  - rewrite K, E. reflexivity.
  - simpl in H. apply andb_true_iff in H. destruct H as (H1 & H2). apply andb_true_iff in H1. destruct H1 as (H1 & H3).
    destruct (key_eqb k' k); simpl.
    + rewrite H1, E, H2. reflexivity.
    + rewrite H1, H3. simpl. apply IH; auto.
Qed.

Lemma map_put_wt kn vn kvs k e :
  forallb (fun kv => wtb kn (fst kv) && wtb vn (snd kv)) kvs = true ->
  wtb (set_ptr kn false) k = true -> wtb vn e = true ->
  forallb (fun kv => wtb kn (fst kv) && wtb vn (snd kv)) (map_put kn kvs k e) = true.
Proof.
  intros H K E. unfold map_put. destruct kn as [ty tn tu nm pk pki p chld mk mv sl hb hc]. cbn [n_ptr set_ptr] in *.
  destruct p.
  - rewrite forallb_app, H. cbn [forallb fst snd andb]. rewrite E, andb_true_r.
    cbn [wtb]. cbn [wtb] in K. rewrite K. reflexivity.
  - apply (kvs_put_wt (wtb (Node ty tn tu nm pk pki false chld mk mv sl hb hc)) (wtb vn)); auto.
Qed.

(* ---------- what a block of emitted code leaves behind is a value of the node's type ---------- *)
Definition wt_res (n : node) (r : sres) : Prop :=
  match r with SFall v' | SRet v' _ _ => wtb n v' = true | SPanic _ => True end.

Definition rec_wt (rec : node -> bool -> val -> sres) (ch : node) : Prop :=
  wfn ch = true -> lnok ch = true -> forall pm f, wtb ch f = true -> wt_res ch (rec ch pm f).

Lemma wt_struct lg rec tn tu nm pk pki p chld mk mv sl hb hc self pmap depth path fs :
  wfn (Node typeStruct tn tu nm pk pki false chld mk mv sl hb hc) = true ->
  lnok (Node typeStruct tn tu nm pk pki false chld mk mv sl hb hc) = true ->
  wtb (Node typeStruct tn tu nm pk pki false chld mk mv sl hb hc) (VStruct fs) = true ->
  Forall (rec_wt rec) chld ->
  wt_res (Node typeStruct tn tu nm pk pki false chld mk mv sl hb hc)
         (set_body lg rec s buf typeStruct tn p chld mk mv sl self pmap depth path (VStruct fs)).
Proof.
  intros W LN WT HC. cbn [set_body].
  destruct (nth_error path depth) as [seg|]; [|exact WT].
  cbn [wfn] in W. apply andb_true_iff in W. destruct W as (W & WC). apply andb_true_iff in W. destruct W as (_ & ND).
  cbn [lnok] in LN. assert (WT' := WT). cbn [wtb] in WT'.
  rewrite set_walk_find by exact ND.
  pose proof (forallb2_length _ _ _ WT') as LEN.
  destruct (find_idx seg chld 0) as [[ch j]|] eqn:F; [|exact WT].
  destruct (find_idx_in _ _ _ _ _ F) as (_ & _ & _ & NT). rewrite Nat.sub_0_r in NT.
  assert (JL : j < List.length fs) by (rewrite LEN; apply nth_error_Some; congruence).
  destruct (nth_error_ex fs j JL) as (f & NF).
  pose proof (forallb_nth _ _ _ _ WC NT) as Wch.
  pose proof (forallb_nth _ _ _ _ LN NT) as Lch.
  pose proof (forallb2_nth _ _ _ _ _ _ WT' NT NF) as WTf.
  unfold child_set. rewrite NF.
  destruct (is_leaf_child ch) eqn:LF.
  - destruct (n_ptr ch && is_nil_val f); cbn [wt_res]; [exact WT|].
    cbn [wtb]. eapply forallb2_upd; eauto. apply leaf_store_wt; auto.
  - assert (NLF : is_leaf_node ch = false) by exact LF.
    pose proof (Forall_nth _ _ _ _ HC NT Wch Lch (pmap && negb lg) (nil_chk ch f) (wtb_nil_chk ch f Wch NLF WTf)) as G.
    destruct (rec ch (pmap && negb lg) (nil_chk ch f)) as [f2|f2 wb e|k]; cbn [wt_res] in *; auto;
      cbn [wtb]; eapply forallb2_upd; eauto.
Qed.

Lemma wt_slice lg rec tn tu nm pk pki p chld mk mv en hb hc self pmap depth path nl es ex :
  String.eqb tn "[]byte" = false -> wfn en = true -> lnok en = true -> forallb (wtb en) es = true -> rec_wt rec en ->
  wt_res (Node typeSlice tn tu nm pk pki false chld mk mv (Some en) hb hc)
         (set_body lg rec s buf typeSlice tn p chld mk mv (Some en) self pmap depth path (VSlice nl es ex)).
Proof.
  intros BY We Le WT HR. cbn [set_body]. rewrite BY.
  assert (UPD : forall b l, forallb (wtb en) l = true ->
            wtb (Node typeSlice tn tu nm pk pki false chld mk mv (Some en) hb hc) (VSlice b l ex) = true).
  { intros b l H. cbn [wtb]. rewrite BY. exact H. }
  destruct (nth_error path depth) as [seg|]; [|apply UPD; exact WT].
  destruct (conv_index seg) as [i|]; [|apply UPD; exact WT].
  destruct ((0 <=? i)%Z && (i <? Z.of_nat (List.length es))%Z); [|apply UPD; exact WT].
  destruct (nth_error es (Z.to_nat i)) as [e0|] eqn:NE; [|exact I].
  assert (WTe : wtb en e0 = true) by (rewrite forallb_forall in WT; apply WT; eapply nth_error_In; eauto).
  pose proof (HR We Le (pmap && negb lg) e0 WTe) as G.
  destruct (rec en (pmap && negb lg) e0) as [e2|e2 wb e|k]; cbn [wt_res] in *; auto.
  - apply UPD. apply forallb_upd; auto.
  - destruct (is_builtin (n_typn en) && negb (n_ptr en)); apply UPD; [exact WT|apply forallb_upd; auto].
Qed.

Lemma wt_map lg rec tn tu nm pk pki p chld kn vn sl hb hc self pmap depth path nl kvs :
  wfn (Node typeMap tn tu nm pk pki false chld (Some kn) (Some vn) sl hb hc) = true ->
  lnok vn = true ->
  wtb (Node typeMap tn tu nm pk pki false chld (Some kn) (Some vn) sl hb hc) (VMap nl kvs) = true ->
  rec_wt rec vn ->
  wt_res (Node typeMap tn tu nm pk pki false chld (Some kn) (Some vn) sl hb hc)
         (set_body lg rec s buf typeMap tn p chld (Some kn) (Some vn) sl self pmap depth path (VMap nl kvs)).
Proof.
  intros W Lv WT HR. cbn [set_body].
  cbn [wfn] in W. apply andb_true_iff in W. destruct W as (_ & W).
  apply andb_true_iff in W. destruct W as (W & KS). apply andb_true_iff in W. destruct W as (W & KB).
  apply andb_true_iff in W. destruct W as (Wk & Wv).
  assert (KT : n_typ kn = typeBasic) by (destruct (n_typ kn); try discriminate; reflexivity).
  assert (WT' := WT). cbn [wtb] in WT'.
  assert (UPD : forall b l, forallb (fun kv => wtb kn (fst kv) && wtb vn (snd kv)) l = true ->
            wtb (Node typeMap tn tu nm pk pki false chld (Some kn) (Some vn) sl hb hc) (VMap b l) = true).
  { intros b l H. exact H. }
  destruct (nth_error path depth) as [seg|]; [|exact WT].
  destruct (if is_string_key kn then Some (VStr seg) else conv_key kn seg) as [k|] eqn:CK; [|apply UPD; exact WT'].
  pose proof (conv_key_wt kn seg k Wk KT KS CK) as WK.
  set (nl0 := if p || Nat.eqb depth 0 then false else nl).
  set (found := lookup kn kvs k).
  set (e0 := match found with Some e => e | None => zero_val vn end).
  set (alloc := (match n_typ vn with typeMap => true | _ => false end) && negb (n_ptr vn) && is_nil_val e0).
  set (e1 := if alloc then nil_chk vn e0 else e0).
  assert (WTF : forall o, found = Some o -> wtb vn o = true).
  { unfold found, lookup. intros o. destruct (n_ptr kn); [discriminate|]. intros MF.
    destruct (map_find_in _ _ _ MF) as (k' & INe). rewrite forallb_forall in WT'. specialize (WT' _ INe).
    apply andb_true_iff in WT'. tauto. }
  assert (WT0 : wtb vn e0 = true).
  { unfold e0. destruct found as [o|]; [apply WTF; reflexivity|apply wtb_zero; exact Wv]. }
  assert (WT1 : wtb vn e1 = true).
  { unfold e1. destruct alloc eqn:A; [|exact WT0]. apply wtb_nil_chk; auto.
    unfold alloc in A. apply andb_true_iff in A. destruct A as (A & _). apply andb_true_iff in A. destruct A as (A & _).
    unfold is_leaf_node. destruct (n_typ vn); try discriminate. reflexivity. }
  destruct (alloc && nl0); [exact I|].
  set (wv := (match n_typ vn with typeStruct => true | _ => false end) && negb (n_ptr vn)).
  pose proof (HR Wv Lv wv e1 WT1) as G.
  assert (ST : forall e2 e, wtb vn e2 = true ->
            wt_res (Node typeMap tn tu nm pk pki false chld (Some kn) (Some vn) sl hb hc)
                   (if nl0 then SPanic PNilMap else SRet (VMap false (map_put kn kvs k e2)) false e)).
  { intros e2 e H. destruct nl0; [exact I|]. cbn [wt_res]. apply UPD. apply map_put_wt; auto. }
  destruct (rec vn wv e1) as [e2|e2 wb e|pk']; cbn [wt_res] in G; auto.
  destruct wb; [apply ST; exact G|].
  destruct (if alloc then Some e1 else found) as [old|] eqn:OLD; cbn [wt_res]; apply UPD; [|exact WT'].
  apply map_put_wt; auto. apply keep_shared_wt; auto.
  destruct alloc; [inversion OLD; subst; exact WT1|apply WTF; exact OLD].
Qed.

(* the main lemma: all nodes, by induction *)
Lemma set_node_wt lg : forall n, wfn n = true -> lnok n = true ->
  forall pmap v depth path, wtb n v = true -> wt_res n (set_node lg s buf n pmap v depth path).
Proof.
  intros n. induction n using node_ind'. intros W LN pmap v depth path WT.
  cbn [set_node].
  destruct ((match ty with typeBasic => false | _ => true end) && negb (Nat.ltb depth (List.length path))); [exact WT|].
  set (self := Node ty tn tu nm pk pki p chld mk mv sl hb hc).
  set (n0 := Node ty tn tu nm pk pki false chld mk mv sl hb hc).
  assert (W0 : wfn n0 = true) by exact W.
  assert (L0 : lnok n0 = true) by exact LN.
  assert (BODY : forall x, wtb n0 x = true ->
            wt_res n0 (set_body lg (fun ch pm f => set_node lg s buf ch pm f (S depth) path) s buf ty tn p chld mk mv sl self pmap depth path x)).
  { intros x WX. unfold n0 in *. destruct ty.
    - (* struct *)
      assert (WX' := WX). cbn [wtb] in WX'. destruct x as [b|z|f0|s0|nb d e|fs|ns es ex|nmm kvs|o]; try discriminate.
      apply wt_struct; auto.
      eapply Forall_impl; [|exact H]. intros ch IH Wc Lc pm f WTf. apply IH; auto.
    - (* map *)
      assert (WW := W0). cbn [wfn] in WW. apply andb_true_iff in WW. destruct WW as (_ & WW).
      destruct mk as [kn|]; [|discriminate]. destruct mv as [vn|]; [|discriminate].
      assert (WX' := WX). cbn [wtb] in WX'. destruct x as [b|z|f0|s0|nb d e|fs|ns es ex|nmm kvs|o]; try discriminate.
      apply wt_map; auto.
      intros Wc Lc pm f WTf. apply (H1 vn eq_refl); auto.
    - (* slice *)
      cbn [set_body]. destruct (String.eqb tn "[]byte") eqn:BY.
      + cbn [wt_res]. apply (assign_val_wt typeSlice tn tu nm pk pki p chld mk mv sl hb hc x); auto.
      + assert (WW := W0). cbn [wfn] in WW. apply andb_true_iff in WW. destruct WW as (_ & WW). rewrite BY in WW.
        destruct sl as [en|]; [|discriminate]. cbn [orb] in WW.
        assert (WX' := WX). cbn [wtb] in WX'. rewrite BY in WX'.
        destruct x as [b|z|f0|s0|nb d e|fs|ns es ex|nmm kvs|o]; try discriminate.
        pose proof (wt_slice lg (fun ch pm f => set_node lg s buf ch pm f (S depth) path) tn tu nm pk pki p chld mk mv en hb hc self pmap depth path ns es ex BY WW) as R.
        cbn [set_body] in R. rewrite BY in R. apply R; auto.
        intros Wc Lc pm f WTf. apply (H2 en eq_refl); auto.
    - (* basic *)
      cbn [set_body wt_res]. apply (assign_val_wt typeBasic tn tu nm pk pki p chld mk mv sl hb hc x); auto. }
  destruct p.
  - cbn [wtb] in WT. destruct v as [b|z|f0|s0|nb d e|fs|ns es ex|nmm kvs|[x|]]; try discriminate.
    + specialize (BODY x WT). fold self.
      destruct (set_body lg _ s buf ty tn true chld mk mv sl self pmap depth path x) as [x'|x' wb e|k];
        cbn [wrap_ptr wt_res] in *; auto.
    + reflexivity.
  - exact (BODY v WT).
Qed.

End WT.

(* ---------- the method keeps the object well-typed ---------- *)
Theorem set_method_wt s buf n v path v' e :
  wfn n = true -> lnok n = true -> wtb n v = true ->
  set_method n v path s buf = Ret v' e -> wtb n v' = true.
Proof.
  intros W LN WT R. unfold set_method, set_method_of in R. destruct path as [|seg rest]; [inversion R; subst; exact WT|].
  pose proof (set_node_wt s buf false n W LN false v 0 (seg :: rest) WT) as G.
  destruct (set_node false s buf n false v 0 (seg :: rest)) as [x|x wb e'|k]; cbn [wt_res] in G; inversion R; subst; exact G.
Qed.

(* ---------- histories ---------- *)
(* What C03 says about ONE call, made on the object v: the call returns; nothing off its path
   changes - whatever the calls before it stored there is what it was - and the end of the path is
   what the leaf conversion makes of it ([offb (E_end ..)], Proofs/SetSound.v); the frame clause
   alone as the stream judges it; and set-then-get: if the path denotes an existing scalar, string
   or bytes element and the value converts, reading the path afterwards yields the converted value. *)
Definition call_ok (n : node) (v : val) (st : hstep) (o : out val) : Prop :=
  match o with
  | Ret v' _ =>
    offb (E_end (hs_src st) (hs_buf st)) n (hs_path st) v v' = true /\
    frame_ok n (hs_path st) v v' = true /\
    (forall en ev x c,
       nav n v (hs_path st) = NElem en ev -> is_leaf_node en = true ->
       ev = (if n_ptr en then VPtr (Some x) else x) ->
       conv en (aval_of_src (hs_src st)) = Some c ->
       exists ev', nav n v' (hs_path st) = NElem en ev' /\
                   val_eqb ev' (if n_ptr en then VPtr (Some c) else c) = true)
  | _ => False
  end.

(* every call of the history, each judged on the object the calls before it left *)
Fixpoint hist_ok (n : node) (v : val) (steps : list hstep) {struct steps} : Prop :=
  match steps with
  | [] => True
  | st :: r =>
    match hstep_run n v st with
    | Ret v' e => call_ok n v st (Ret v' e) /\ wtb n v' = true /\ hist_ok n v' r
    | _ => False
    end
  end.

Lemma call_sound n v st :
  wfn n = true -> sound_set n = true -> root_ok n = true -> wtb n v = true ->
  exists v' e, hstep_run n v st = Ret v' e /\ call_ok n v st (Ret v' e).
Proof.
  intros W SD RO WT. destruct st as [path s buf]. unfold hstep_run. cbn [hs_path hs_src hs_buf].
  pose proof (set_method_sound s buf n v path W SD RO WT) as G.
  destruct (set_method n v path s buf) as [x|v' e|k] eqn:R; try contradiction.
  exists v', e. split; [reflexivity|]. cbn [call_ok hs_path hs_src hs_buf].
  split; [exact G|]. split; [exact (frame_of_store s buf n path v v' G)|].
  intros en ev x c NV LF EV CV.
  destruct (set_then_get s buf n v path en ev x c W SD RO WT NV LF EV CV) as (v2 & e2 & ev' & R2 & N2 & Q2).
  rewrite R in R2. inversion R2; subst. eauto.
Qed.

Theorem hist_sound : forall steps n v,
  wfn n = true -> sound_set n = true -> root_ok n = true -> lnok n = true -> wtb n v = true ->
  hist_ok n v steps.
Proof.
  induction steps as [|st r IH]; intros n v W SD RO LN WT; [exact I|].
  cbn [hist_ok]. destruct (call_sound n v st W SD RO WT) as (v' & e & R & C). rewrite R.
  assert (WT' : wtb n v' = true).
  { destruct st as [path s buf]. unfold hstep_run in R. cbn [hs_path hs_src hs_buf] in R.
    exact (set_method_wt s buf n v path v' e W LN WT R). }
  split; [exact C|]. split; [exact WT'|]. apply IH; auto.
Qed.

(* the same, by position: the j-th call is made on the object the first j calls left, it returns,
   and it meets the demand there - the printed outcomes of [run_hist] are these *)
Theorem hist_every_call : forall steps n v j st,
  wfn n = true -> sound_set n = true -> root_ok n = true -> lnok n = true -> wtb n v = true ->
  nth_error steps j = Some st ->
  exists vb v' e,
    hist_final n v (firstn j steps) = Some vb /\ wtb n vb = true /\
    nth_error (run_hist n v steps) j = Some (Ret v' e) /\
    hstep_run n vb st = Ret v' e /\ call_ok n vb st (Ret v' e).
Proof.
  induction steps as [|s0 r IH]; intros n v j st W SD RO LN WT NT; [destruct j; discriminate|].
  destruct (call_sound n v s0 W SD RO WT) as (v1 & e1 & R & C).
  destruct j as [|j].
  - cbn [nth_error] in NT. inversion NT; subst. exists v, v1, e1.
    cbn [firstn hist_final run_hist nth_error]. rewrite R. auto.
  - cbn [nth_error] in NT.
    assert (WT1 : wtb n v1 = true).
    { destruct s0 as [path s buf]. unfold hstep_run in R. cbn [hs_path hs_src hs_buf] in R.
      exact (set_method_wt s buf n v path v1 e1 W LN WT R). }
    destruct (IH n v1 j st W SD RO LN WT1 NT) as (vb & v' & e & F & WB & N & RR & CC).
    exists vb, v', e. cbn [firstn hist_final run_hist nth_error]. rewrite R. auto.
Qed.

Corollary hist_no_panic steps n v :
  wfn n = true -> sound_set n = true -> root_ok n = true -> lnok n = true -> wtb n v = true ->
  exists vf, hist_final n v steps = Some vf /\ wtb n vf = true /\ List.length (run_hist n v steps) = List.length steps.
Proof.
  revert n v. induction steps as [|s0 r IH]; intros n v W SD RO LN WT; [exists v; auto|].
  destruct (call_sound n v s0 W SD RO WT) as (v1 & e1 & R & C).
  assert (WT1 : wtb n v1 = true).
  { destruct s0 as [path s buf]. unfold hstep_run in R. cbn [hs_path hs_src hs_buf] in R.
    exact (set_method_wt s buf n v path v1 e1 W LN WT R). }
  destruct (IH n v1 W SD RO LN WT1) as (vf & F & WF & L).
  exists vf. cbn [hist_final run_hist]. rewrite R. cbn [List.length]. auto.
Qed.
