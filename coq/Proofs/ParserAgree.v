(* Proofs/ParserAgree.v - C13, unbounded: the go/ast parser model and the go/types parser
   model build the SAME node for every root declaration whose types are well-formed in the
   sense of [pwf_root] (any nesting depth, any names), provided the import path is non-empty.

   Ingredients
   - strings: removing the first occurrence of [old] (which ends with '.') from
     [pre ++ old ++ rest] gives [pre ++ rest] when [pre] has no '.': an occurrence starting
     inside [pre] would make [old] periodic with a dot-free period, hence dot-free.
   - printed names: a printed type with at most one named reference ([nrefs t <= 1]) loses its
     only package qualifier, so the loader's name is the local name [tname t]; the AST parser
     composes the same [tname t] from its child nodes.
   - the two parsers are then followed field by field, by induction on the declared type. *)
From Coq Require Import List Bool String Ascii ZArith Arith Lia.
From Verif Require Import Util Ints Node GoSrc Shapes GenUnits ParserFacts ParserWf.
Import ListNotations.
Local Open Scope string_scope.

(* ---------- strings ---------- *)
Fixpoint nodot (s : string) : bool :=
  match s with
  | EmptyString => true
  | String c r => negb (Ascii.eqb c ".") && nodot r
  end.

Lemma nodot_app a b : nodot (a ++ b) = nodot a && nodot b.
Proof. induction a as [|c a IH]; simpl; [reflexivity|]. rewrite IH. apply andb_assoc. Qed.

Lemma app_assoc_s (a b c : string) : (a ++ b) ++ c = a ++ b ++ c.
Proof. induction a as [|x a IH]; simpl; [reflexivity|]. rewrite IH. reflexivity. Qed.

Lemma app_nil_r_s (a : string) : a ++ "" = a.
Proof. induction a as [|x a IH]; simpl; [reflexivity|]. rewrite IH. reflexivity. Qed.

Lemma length_app_s (a b : string) : String.length (a ++ b) = String.length a + String.length b.
Proof. induction a as [|x a IH]; simpl; [reflexivity|]. rewrite IH. reflexivity. Qed.

Lemma prefix_cons c a d b : String.prefix (String c a) (String d b) = true -> c = d /\ String.prefix a b = true.
Proof. simpl. destruct (ascii_dec c d) as [->|]; [auto|discriminate]. Qed.

Lemma prefix_self_app a r : String.prefix a (a ++ r) = true.
Proof.
  induction a as [|c a IH]; simpl; [destruct r; reflexivity|].
  destruct (ascii_dec c c); [exact IH|congruence].
Qed.

Lemma prefix_nil_l b : String.prefix "" b = true.
Proof. destruct b; reflexivity. Qed.

Lemma prefix_nodot a : forall b, String.prefix a b = true -> nodot b = true -> nodot a = true.
Proof.
  induction a as [|c a IH]; intros [|d b] P N; try reflexivity; try discriminate.
  apply prefix_cons in P. destruct P as (-> & P). simpl in *. apply andb_true_iff in N. destruct N as (N1 & N2).
  rewrite N1. simpl. eapply IH; eauto.
Qed.

(* a prefix of [b ++ c] is a prefix of [b], or [b] followed by a prefix of [c] *)
Lemma prefix_app_cases b : forall a c, String.prefix a (b ++ c) = true ->
  String.prefix a b = true \/ exists a', a = b ++ a' /\ String.prefix a' c = true.
Proof.
  induction b as [|d b IH]; intros a c P.
  - right. exists a. split; [reflexivity|exact P].
  - destruct a as [|x a]; [left; reflexivity|].
    change ((String d b) ++ c) with (String d (b ++ c)) in P. apply prefix_cons in P. destruct P as (-> & P).
    destruct (IH _ _ P) as [L|(a' & -> & R)].
    + left. simpl. destruct (ascii_dec d d); [exact L|congruence].
    + right. exists a'. split; [reflexivity|exact R].
Qed.

(* the periodicity argument *)
Lemma overlap_nodot : forall k old, String.length old <= k -> forall pre rest,
  pre <> "" -> nodot pre = true -> String.prefix old (pre ++ old ++ rest) = true -> nodot old = true.
Proof.
  induction k as [|k IH]; intros old L pre rest NE ND P.
  - destruct old; [reflexivity|simpl in L; lia].
  - destruct (prefix_app_cases _ _ _ P) as [Q|(old' & E & Q)].
    + eapply prefix_nodot; eauto.
    + subst old. rewrite nodot_app, ND. simpl. rewrite app_assoc_s in Q.
      apply (IH old') with (pre := pre) (rest := rest); auto.
      rewrite length_app_s in L. destruct pre; [congruence|]. simpl in L. lia.
Qed.

Lemma substring_all r : String.substring 0 (String.length r) r = r.
Proof. induction r as [|c r IH]; simpl; [reflexivity|]. rewrite IH. reflexivity. Qed.

Lemma substring_skip a : forall r, String.substring (String.length a) (String.length (a ++ r) - String.length a) (a ++ r) = r.
Proof.
  induction a as [|c a IH]; intros r; simpl.
  - rewrite Nat.sub_0_r. apply substring_all.
  - apply IH.
Qed.

Lemma remove_first_at old rest : nodot old = false -> forall pre fuel,
  nodot pre = true -> String.length pre < fuel ->
  remove_first fuel old (pre ++ old ++ rest) = pre ++ rest.
Proof.
  intros OD. induction pre as [|c pre IH]; intros fuel ND L.
  - destruct fuel as [|f]; [lia|]. cbn [append remove_first]. rewrite prefix_self_app. apply substring_skip.
  - destruct fuel as [|f]; [simpl in L; lia|]. cbn [remove_first].
    destruct (String.prefix old (String c pre ++ old ++ rest)) eqn:P.
    + assert (X : nodot old = true).
      { apply (overlap_nodot (String.length old) old (le_n _) (String c pre) rest); auto. discriminate. }
      congruence.
    + cbn [append]. f_equal. apply IH.
      * simpl in ND. apply andb_true_iff in ND. tauto.
      * simpl in L. lia.
Qed.

Lemma remove_first_absent old : nodot old = false -> forall fuel s, nodot s = true -> remove_first fuel old s = s.
Proof.
  intros OD. induction fuel as [|f IH]; intros s ND; [reflexivity|]. cbn [remove_first].
  destruct (String.prefix old s) eqn:P.
  - rewrite (prefix_nodot _ _ P ND) in OD. discriminate.
  - destruct s as [|c r]; [reflexivity|]. f_equal. apply IH. simpl in ND. apply andb_true_iff in ND. tauto.
Qed.

Lemma nodot_ends_dot p : nodot (p ++ ".") = false.
Proof. rewrite nodot_app. simpl. apply andb_false_r. Qed.

(* ---------- local printed names, number of named references ---------- *)
Fixpoint tname (t : ty) : string :=
  match t with
  | TScalar k => skind_name k
  | TPtr t' => "*" ++ tname t'
  | TSlice e => "[]" ++ tname e
  | TMap k v => "map[" ++ tname k ++ "]" ++ tname v
  | TStruct _ => "struct{...}"
  | TNamed n _ => n
  end.

(* named references in the PRINTED type (a struct literal is never printed: counted as 2) *)
Fixpoint nrefs (t : ty) : nat :=
  match t with
  | TScalar _ => 0
  | TPtr t' => nrefs t'
  | TSlice e => nrefs e
  | TMap k v => nrefs k + nrefs v
  | TStruct _ => 2
  | TNamed _ _ => 1
  end.

(* Well-formed declared types (the premise of the agreement theorem).
   [MVal fx]: a type in value position (struct field, slice element, map key / value, pointer
   target); [MBody fx]: the definition of a named type.  [fx] = "the loader parser recomputes
   hasb of a named slice from its element alone" (it does so except directly under a pointer).
   - no pointer to a pointer (the AST parser composes ONE "*", go/types prints both);
   - an unnamed map prints at most one named reference ([nrefs k + nrefs v <= 1]; for slices and
     pointers this follows from the well-formedness of the element): strings.Replace(.., 1)
     removes one qualifier only;
   - struct literals only as the definition of a named type; named types have non-empty names
     and are not defined as pointers;
   - a named slice (outside a pointer) does not print as "[]byte": the AST parser derives hasb
     from the printed name of the definition, the loader parser from the element. *)
Inductive mode := MVal (fx : bool) | MBody (fx : bool).

Fixpoint pwf (m : mode) (t : ty) {struct t} : bool :=
  match m with
  | MVal fx =>
    match t with
    | TScalar _ => true
    | TPtr t' => negb (is_ptr t') && pwf (MVal false) t'
    | TSlice e => pwf (MVal true) e
    | TMap k v => Nat.leb (nrefs k + nrefs v) 1 && pwf (MVal true) k && pwf (MVal true) v
    | TStruct _ => false
    | TNamed n b => negb (String.eqb n "") && pwf (MBody fx) b
    end
  | MBody fx =>
    match t with
    | TScalar _ => true
    | TPtr _ => false
    | TSlice e => pwf (MVal true) e && (negb fx || negb (String.eqb (tname e) "byte"))
    | TMap k v => pwf (MVal true) k && pwf (MVal true) v
    | TStruct fs => (fix go (l : list (string * ty)) : bool :=
                       match l with [] => true | f :: r => pwf (MVal true) (snd f) && go r end) fs
    | TNamed n b => negb (String.eqb n "") && pwf (MBody fx) b
    end
  end.

Definition pwf_root (n : string) (body : ty) : bool :=
  match body with
  | TStruct fs => forallb (fun f => pwf (MVal true) (snd f)) fs
  | TSlice e => negb (String.eqb n "[]byte") && pwf (MVal true) e
  | TMap k v => pwf (MVal true) k && pwf (MVal true) v
  | _ => false
  end.

Lemma wf_fields_forallb fs :
  (fix go (l : list (string * ty)) : bool :=
     match l with [] => true | f :: r => pwf (MVal true) (snd f) && go r end) fs =
  forallb (fun f => pwf (MVal true) (snd f)) fs.
Proof. induction fs as [|f r IH]; [reflexivity|]. simpl. rewrite IH. reflexivity. Qed.

Lemma nodot_skind k : nodot (skind_name k) = true.
Proof. destruct k as [|i| | | |]; try reflexivity. destruct i; reflexivity. Qed.

Lemma skind_nonempty k : skind_name k <> "".
Proof. destruct k as [|i| | | |]; try discriminate. destruct i; discriminate. Qed.

Section P.
Variables pkg imp : string.
Hypothesis IMP : imp <> "".

Notation ts := (type_string imp).
Notation strip := (strip_pkg imp).

Lemma strip_eq s : strip s = remove_first (S (String.length s)) (imp ++ ".") s.
Proof. unfold strip_pkg. destruct (String.eqb imp "") eqn:E; [apply String.eqb_eq in E; congruence|reflexivity]. Qed.

Lemma strip_nodot s : nodot s = true -> strip s = s.
Proof. intros N. rewrite strip_eq. apply remove_first_absent; [apply nodot_ends_dot|exact N]. Qed.

Lemma refs0 t : nrefs t = 0 -> ts t = tname t /\ nodot (tname t) = true.
Proof.
  induction t using ty_ind'; cbn [nrefs type_string tname]; intros E; try discriminate.
  - split; [reflexivity|apply nodot_skind].
  - destruct (IHt E) as (A & B). rewrite A. split; [reflexivity|]. simpl. exact B.
  - destruct (IHt E) as (A & B). rewrite A. split; [reflexivity|]. simpl. exact B.
  - destruct (IHt1 ltac:(lia)) as (A1 & B1). destruct (IHt2 ltac:(lia)) as (A2 & B2). rewrite A1, A2.
    split; [reflexivity|]. change (nodot ("map[" ++ tname t1 ++ "]" ++ tname t2) = true).
    rewrite !nodot_app, B1, B2. reflexivity.
Qed.

Lemma refs1 t : nrefs t = 1 -> exists pre n rest,
  ts t = pre ++ (imp ++ ".") ++ n ++ rest /\ tname t = pre ++ n ++ rest /\ nodot pre = true.
Proof.
  induction t using ty_ind'; cbn [nrefs type_string tname]; intros E; try discriminate.
  - destruct (IHt E) as (pre & m & rest & A & B & C). exists ("*" ++ pre), m, rest. rewrite A, B. repeat split. exact C.
  - destruct (IHt E) as (pre & m & rest & A & B & C). exists ("[]" ++ pre), m, rest. rewrite A, B. repeat split. exact C.
  - destruct (nrefs t1) as [|[|?]] eqn:E1; [| |lia].
    + destruct (refs0 t1 E1) as (A1 & B1). destruct (IHt2 ltac:(lia)) as (pre & m & rest & A & B & C).
      exists ("map[" ++ tname t1 ++ "]" ++ pre), m, rest. rewrite A1, A, B. repeat split.
      * rewrite !app_assoc_s. reflexivity.
      * rewrite !app_assoc_s. reflexivity.
      * rewrite !nodot_app, B1, C. reflexivity.
    + destruct (refs0 t2 ltac:(lia)) as (A2 & B2). destruct (IHt1 eq_refl) as (pre & m & rest & A & B & C).
      exists ("map[" ++ pre), m, (rest ++ "]" ++ tname t2). rewrite A2, A, B. repeat split.
      * rewrite !app_assoc_s. reflexivity.
      * rewrite !app_assoc_s. reflexivity.
      * exact C.
  - exists "", n, "". split; [|split; [|reflexivity]].
    + cbn [append]. rewrite app_nil_r_s. symmetry. apply app_assoc_s.
    + cbn [append]. symmetry. apply app_nil_r_s.
Qed.

(* the loader's name of a printed type with at most one named reference is its local name *)
Lemma strip_tname t : nrefs t <= 1 -> strip (ts t) = tname t.
Proof.
  intros L. destruct (nrefs t) as [|[|?]] eqn:E; [| |lia].
  - destruct (refs0 t E) as (A & B). rewrite A. apply strip_nodot. exact B.
  - destruct (refs1 t E) as (pre & m & rest & A & B & C). rewrite strip_eq, A, B.
    apply remove_first_at; [apply nodot_ends_dot|exact C|].
    rewrite length_app_s. lia.
Qed.

(* ---------- node plumbing ---------- *)
Notation pa := (pa pkg imp).
Notation plg := (plg pkg imp).
Notation pl := (plg false).
Notation plu := (plg true).

(* the loader parser without the hasb correction of named slices *)
Definition plq (t : ty) : node :=
  match t with TNamed n b => set_pkg (set_typn (plu b) n) pkg imp | _ => plu t end.

Definition fixs (d : node) : node :=
  match d with
  | Node typeSlice a b c e f g h i j (Some el) _ m => Node typeSlice a b c e f g h i j (Some el) (n_hasb el) m
  | _ => d
  end.

Definition pl_child (f : string * ty) : node :=
  let ch := set_name (pl (snd f)) (fst f) in
  if n_ptr ch
  then set_typn ch (remove_first (S (String.length (ts (snd f)))) "*" (strip (ts (snd f))))
  else ch.

Lemma plg_struct_children fs :
  (fix go (l : list (string * ty)) : list node :=
     match l with
     | [] => []
     | (fnm, ft) :: r =>
       let ch := set_name (pl ft) fnm in
       let ch := if n_ptr ch
                 then set_typn ch (remove_first (S (String.length (ts ft))) "*" (strip (ts ft)))
                 else ch in
       ch :: go r
     end) fs = map pl_child fs.
Proof. induction fs as [|[fnm ft] r IH]; [reflexivity|]. simpl. f_equal. exact IH. Qed.

Lemma plg_name : forall t u, n_name (plg u t) = "".
Proof.
  intros t. induction t using ty_ind'; intros u; try reflexivity.
  - cbn [Node.plg]. specialize (IHt true). destruct t; try (destruct (Node.plg _ _ true _); exact IHt).
  - cbn [Node.plg]. destruct u; [apply IHt|]. specialize (IHt true).
    destruct (Node.plg _ _ true t) as [ty tn tu nm pk pki p chld mk mv sl hb hc]. simpl in IHt. subst nm.
    destruct ty; try reflexivity. destruct sl; reflexivity.
Qed.


(* ---------- facts about well-formed types ---------- *)
Lemma wf_nrefs : forall t fx, pwf (MVal fx) t = true -> nrefs t <= 1.
Proof.
  induction t; intros fx W; cbn [pwf nrefs] in *; try lia; try discriminate.
  - apply andb_true_iff in W. destruct W as (_ & W). eapply IHt; eauto.
  - eapply IHt; eauto.
  - apply andb_true_iff in W. destruct W as (W & _). apply andb_true_iff in W. destruct W as (W & _).
    apply Nat.leb_le in W. exact W.
Qed.

Lemma tname_nonempty t fx : pwf (MVal fx) t = true -> is_ptr t = false -> tname t <> "".
Proof.
  destruct t; cbn [pwf tname is_ptr]; intros W P; try discriminate.
  - apply skind_nonempty.
  - apply andb_true_iff in W. destruct W as (W & _). apply negb_true_iff in W. intros ->. discriminate.
Qed.

Lemma star_name p t : is_ptr (strip_ptr t) = false -> n_ptr p = is_ptr t -> n_typn p = tname (strip_ptr t) ->
  star (n_ptr p) ++ n_typn p = tname t.
Proof. intros D -> ->. destruct t; reflexivity. Qed.

Lemma wf_noptr2 t fx : pwf (MVal fx) t = true -> is_ptr (strip_ptr t) = false.
Proof.
  destruct t; try reflexivity. cbn [pwf strip_ptr]. intros W. apply andb_true_iff in W. destruct W as (W & _).
  apply negb_true_iff in W. exact W.
Qed.

(* the identifier handed down matters only for the node's own name (except for struct literals) *)
Lemma pa_id t : (match t with TStruct _ => False | _ => True end) -> forall id s,
  set_name (pa id false t) s = set_name (pa None false t) s.
Proof. destruct t; intros H id s; try reflexivity. contradiction. Qed.

Lemma set_ptr_plq t : is_ptr t = false ->
  set_ptr (plq t) true = plu (TPtr t) /\ pl (TPtr t) = plu (TPtr t).
Proof.
  destruct t; intros P; try discriminate; try (split; reflexivity).
  cbn [plq Node.plg]. split; [|reflexivity]. destruct (Node.plg pkg imp true t); reflexivity.
Qed.

Definition Vp (t : ty) : Prop := forall fx, pwf (MVal fx) t = true ->
  pa None false t = plq t /\ (fx = true -> pl t = plq t) /\
  n_ptr (pa None false t) = is_ptr t /\ n_typn (pa None false t) = tname (strip_ptr t).

Definition Bp (t : ty) : Prop := forall fx, pwf (MBody fx) t = true ->
  (forall n, set_pkg (set_typn (set_name (pa (Some n) false t) "") n) pkg imp = set_pkg (set_typn (plu t) n) pkg imp) /\
  (fx = true -> fixs (plu t) = plu t) /\
  (forall id, n_ptr (pa id false t) = false).

(* a struct field: the two parsers build the same child *)
Lemma child_agree f : Vp (snd f) -> pwf (MVal true) (snd f) = true -> mk_child pkg imp f = pl_child f.
Proof.
  destruct f as [fnm ft]. cbn [snd]. intros V W. destruct (V true W) as (E1 & E2 & PT & TN).
  specialize (E2 eq_refl). unfold mk_child, pl_child. cbn [fst snd].
  rewrite pa_id by (destruct ft; try exact I; discriminate W). rewrite E2, <- E1.
  set (p := pa None false ft) in *.
  assert (NE : n_typn p <> "").
  { rewrite TN. destruct ft; try (eapply tname_nonempty; [exact W|reflexivity]).
    cbn [strip_ptr]. cbn [pwf] in W. apply andb_true_iff in W. destruct W as (W1 & W2). apply negb_true_iff in W1.
    eapply tname_nonempty; eauto. }
  assert (TY : n_typn (set_name p fnm) = n_typn p) by (destruct p; reflexivity).
  assert (PP : n_ptr (set_name p fnm) = n_ptr p) by (destruct p; reflexivity).
  rewrite TY, PP. apply String.eqb_neq in NE. rewrite NE.
  rewrite PT. destruct ft; try reflexivity. cbn [is_ptr].
  rewrite strip_tname by (eapply wf_nrefs; eauto). cbn [tname remove_first].
  change (String.prefix "*" ("*" ++ tname ft)) with (String.prefix "*" (String "*" (tname ft))).
  cbn [String.prefix]. destruct (ascii_dec "*" "*") as [_|X]; [|congruence]. rewrite prefix_nil_l.
  change (String.length "*") with 1. change ("*" ++ tname ft) with (String "*" (tname ft)).
  cbn [String.length String.substring].
  replace (S (String.length (tname ft)) - 1) with (String.length (tname ft)) by lia. rewrite substring_all.
  cbn [strip_ptr] in TN. rewrite <- TN. destruct p; reflexivity.
Qed.

Lemma children_agree fs : Forall (fun f => Vp (snd f)) fs -> forallb (fun f => pwf (MVal true) (snd f)) fs = true ->
  map (mk_child pkg imp) fs = map pl_child fs.
Proof.
  induction 1 as [|f r Hf Hr IH]; intros W; [reflexivity|]. cbn [forallb] in W. apply andb_true_iff in W.
  destruct W as (W1 & W2). cbn [map]. rewrite (child_agree f Hf W1), (IH W2). reflexivity.
Qed.


Lemma eqb_slice_byte x : String.eqb ("[]" ++ x) "[]byte" = String.eqb x "byte".
Proof. reflexivity. Qed.

Lemma pl_named n b : pl (TNamed n b) = set_pkg (set_typn (fixs (plu b)) n) pkg imp.
Proof. reflexivity. Qed.

Lemma agree_main : forall t, Vp t /\ Bp t.
Proof.
  intros t. induction t using ty_ind'.
  - (* scalar *)
    split; intros fx W.
    + cbn [Node.pa plq Node.plg type_string]. rewrite (strip_nodot _ (nodot_skind k)). repeat split; reflexivity.
    + repeat split; reflexivity.
  - (* pointer *)
    destruct IHt as (V & _). split; intros fx W; [|discriminate W].
    cbn [pwf] in W. apply andb_true_iff in W. destruct W as (NP & W). apply negb_true_iff in NP.
    destruct (V false W) as (E1 & _ & PT & TN). destruct (set_ptr_plq t NP) as (Q1 & Q2).
    cbn [plq is_ptr strip_ptr]. rewrite Q2. cbn [Node.pa]. rewrite E1, Q1. repeat split.
    + rewrite <- Q1, <- E1. destruct (pa None false t); reflexivity.
    + rewrite <- Q1, <- E1. replace (strip_ptr t) with t in TN by (destruct t; try reflexivity; discriminate NP).
      rewrite <- TN. destruct (pa None false t); reflexivity.
  - (* slice *)
    destruct IHt as (V & _).
    assert (CORE : forall fx' id, pwf (MVal true) t = true ->
       let tn := "[]" ++ tname t in
       pa id false (TSlice t) =
         Node typeSlice tn "" (match id with Some s => s | None => "" end) "" "" false [] None None (Some (pl t))
              (String.eqb tn "[]byte" || n_hasb (pl t)) true /\
       plg fx' (TSlice t) =
         Node typeSlice tn "" "" "" "" false [] None None (Some (pl t)) (String.eqb tn "[]byte" || n_hasb (pl t)) true).
    { intros fx' id W. pose proof (wf_nrefs _ _ W) as NR. destruct (V true W) as (E1 & E2 & PT & TN). specialize (E2 eq_refl).
      split.
      - cbn [Node.pa compose_name n_typ n_slct]. rewrite (star_name _ t (wf_noptr2 _ _ W) PT TN). rewrite E2, <- E1. reflexivity.
      - cbn [Node.plg]. rewrite (strip_tname (TSlice t) NR). destruct fx'; reflexivity. }
    split; intros fx W; cbn [pwf] in W.
    + destruct (CORE true None W) as (C1 & C2).
      cbn [plq]. rewrite C1, C2. pose proof (CORE false None W) as (_ & C3). rewrite C3. repeat split.
    + apply andb_true_iff in W. destruct W as (W & FX).
      split; [|split].
      * intros n. destruct (CORE true (Some n) W) as (C1 & C2). rewrite C1, C2. reflexivity.
      * intros ->. cbn [negb orb] in FX. apply negb_true_iff in FX. destruct (CORE true None W) as (_ & C2).
        rewrite C2. cbn [fixs]. rewrite eqb_slice_byte, FX. reflexivity.
      * intros id. destruct (CORE true id W) as (C1 & _). rewrite C1. reflexivity.
  - (* map *)
    destruct IHt1 as (V1 & _). destruct IHt2 as (V2 & _).
    assert (PAM : forall id, pwf (MVal true) t1 = true -> pwf (MVal true) t2 = true ->
       pa id false (TMap t1 t2) =
         Node typeMap ("map[" ++ tname t1 ++ "]" ++ tname t2) "" (match id with Some s => s | None => "" end) "" "" false []
              (Some (pl t1)) (Some (pl t2)) None (n_hasb (pl t1) || n_hasb (pl t2)) true).
    { intros id W1 W2. destruct (V1 true W1) as (E1 & E2 & PT & TN). specialize (E2 eq_refl).
      destruct (V2 true W2) as (F1 & F2 & PT2 & TN2). specialize (F2 eq_refl).
      cbn [Node.pa compose_name n_typ n_mapk n_mapv].
      rewrite <- (app_assoc_s (star (n_ptr (pa None false t1)))).
      rewrite (star_name _ t1 (wf_noptr2 _ _ W1) PT TN), (star_name _ t2 (wf_noptr2 _ _ W2) PT2 TN2).
      rewrite E2, F2, <- E1, <- F1. reflexivity. }
    split; intros fx W; cbn [pwf] in W.
    + apply andb_true_iff in W. destruct W as (W & W2). apply andb_true_iff in W. destruct W as (NR & W1).
      apply Nat.leb_le in NR. rewrite (PAM None W1 W2). cbn [plq Node.plg].
      rewrite (strip_tname (TMap t1 t2) NR). repeat split.
    + apply andb_true_iff in W. destruct W as (W1 & W2). split; [|split].
      * intros n. rewrite (PAM (Some n) W1 W2). reflexivity.
      * intros _. reflexivity.
      * intros id. rewrite (PAM id W1 W2). reflexivity.
  - (* struct *)
    split; intros fx W; [discriminate W|]. cbn [pwf] in W. rewrite wf_fields_forallb in W.
    assert (HV : Forall (fun f => Vp (snd f)) fs) by (eapply Forall_impl; [|exact H]; intros f (A & _); exact A).
    split; [|split].
    + intros n. cbn [Node.pa Node.plg]. rewrite pa_struct_children, plg_struct_children.
      rewrite (children_agree fs HV W). reflexivity.
    + intros _. reflexivity.
    + intros id. reflexivity.
  - (* named *)
    destruct IHt as (_ & B). split; intros fx W; cbn [pwf] in W; apply andb_true_iff in W; destruct W as (NE & W).
    + destruct (B fx W) as (NC & FX & PTR). cbn [plq is_ptr strip_ptr tname]. cbn [Node.pa]. rewrite (NC n). repeat split.
      * intros ->. rewrite pl_named, (FX eq_refl). reflexivity.
      * rewrite <- (NC n). specialize (PTR (Some n)). destruct (pa (Some n) false t); exact PTR.
      * destruct (Node.plg pkg imp true t); reflexivity.
    + destruct (B fx W) as (NC & FX & PTR). split; [|split].
      * intros m. cbn [Node.pa Node.plg]. rewrite (NC n). pose proof (plg_name t true) as NM.
        destruct (Node.plg pkg imp true t). cbn in NM. subst. reflexivity.
      * intros ->. cbn [Node.plg]. apply FX. reflexivity.
      * intros id. cbn [Node.pa]. specialize (PTR (Some n)). destruct (pa (Some n) false t); exact PTR.
Qed.

Theorem parsers_agree : forall n body, pwf_root n body = true ->
  parse_ast_decl pkg imp n body = parse_loader_decl pkg imp n body.
Proof.
  intros n body W. unfold parse_ast_decl, parse_loader_decl, Node.pl. destruct body; try discriminate W; cbn [pwf_root] in W.
  - (* slice *)
    apply andb_true_iff in W. destruct W as (NB & W). apply negb_true_iff in NB.
    destruct (proj1 (agree_main body) true W) as (E1 & E2 & _). specialize (E2 eq_refl).
    cbn [Node.pa Node.plg]. rewrite NB, E2, <- E1. reflexivity.
  - (* map *)
    apply andb_true_iff in W. destruct W as (W1 & W2).
    destruct (proj1 (agree_main body1) true W1) as (E1 & E2 & _). specialize (E2 eq_refl).
    destruct (proj1 (agree_main body2) true W2) as (F1 & F2 & _). specialize (F2 eq_refl).
    cbn [Node.pa Node.plg]. rewrite E2, F2, <- E1, <- F1. reflexivity.
  - (* struct *)
    cbn [Node.pa Node.plg]. rewrite pa_struct_children, plg_struct_children.
    rewrite (children_agree fs) by (auto; apply Forall_forall; intros f _; apply agree_main). reflexivity.
Qed.

End P.

(* premises as booleans *)
Theorem parsers_agree_wf : forall pkg imp n body,
  String.eqb imp "" = false -> pwf_root n body = true ->
  parse_ast_decl pkg imp n body = parse_loader_decl pkg imp n body.
Proof. intros pkg imp n body I W. apply parsers_agree; [apply String.eqb_neq; exact I|exact W]. Qed.

(* ---------- whole declaration sets / units ---------- *)
(* a declaration both parsers accept alike: a well-formed root, or a named scalar (never eligible) *)
Definition pwf_decl (d : string * ty) : bool := pwf_root (fst d) (snd d) || is_scalar (snd d).

Lemma nodes_agree pkg imp ds : String.eqb imp "" = false -> forallb pwf_decl ds = true ->
  ast_nodes pkg imp ds = loader_nodes pkg imp ds.
Proof.
  intros I. unfold ast_nodes, loader_nodes. induction ds as [|d r IH]; intros W; [reflexivity|].
  cbn [forallb] in W. apply andb_true_iff in W. destruct W as (W1 & W2). cbn [map filter]. rewrite (IH W2).
  unfold pwf_decl in W1. apply orb_true_iff in W1. destruct W1 as [W1|W1].
  - rewrite (parsers_agree_wf pkg imp _ _ I W1). reflexivity.
  - destruct d as [n b]. destruct b; try discriminate W1. reflexivity.
Qed.

Theorem units_agree : forall u, forallb pwf_decl (decls_of_root (fst u) (snd u)) = true ->
  ast_nodes_of u = loader_nodes_of u.
Proof. intros u W. unfold ast_nodes_of, loader_nodes_of. apply nodes_agree; [reflexivity|exact W]. Qed.
