(* Proofs/LCSound.v - the emitted Length/Capacity code meets the C10 demand for
   every well-formed node, every well-typed value and every path. *)
From Coq Require Import List Bool String Ascii ZArith Arith Lia.
From Verif Require Import Util Ints Strconv Floats Node Value Outcome Nav LC LCSpec.
Import ListNotations.
Local Open Scope string_scope.

(* ---------- well-formed nodes: what both parsers produce for the grammar ---------- *)
Fixpoint names_nodup (l : list node) : bool :=
  match l with
  | [] => true
  | c :: r => negb (existsb (fun d => String.eqb (n_name d) (n_name c)) r) && names_nodup r
  end.

Fixpoint wfn (n : node) {struct n} : bool :=
  match n with
  | Node ty tn tu nm pk pki p chld mk mv sl hb hc =>
    match ty with
    | typeBasic =>
      Bool.eqb hc (String.eqb tu "string") && match skind_of_name tu with Some _ => true | None => false end
    | typeStruct =>
      Bool.eqb hc (existsb n_hasc chld) && names_nodup chld &&
      forallb wfn chld
    | typeMap =>
      hc && match mk, mv with
            | Some kn, Some vn =>
              wfn kn && wfn vn && (match n_typ kn with typeBasic => true | _ => false end) &&
              Bool.eqb (String.eqb (n_typn kn) "string") (String.eqb (n_typu kn) "string")
            | _, _ => false
            end
    | typeSlice =>
      hc && (String.eqb tn "[]byte" || match sl with Some en => wfn en | None => false end)
    end
  end.

(* ---------- the demand as a function of the navigation result ---------- *)
Definition dem0 (fn : lcfn) (r : navres) : lcdemand :=
  match r with
  | NBad => DResultOrError 0
  | NUnspec => DAny
  | NNone _ => DResult 0
  | NElem en ev =>
    match strip_ptrs 3 ev with
    | None => DResult 0
    | Some x =>
      match x, fn with
      | VStr _, FLen | VBytes _ _ _, FLen | VSlice _ _ _, FLen | VMap _ _, FLen => DResult (v_len x)
      | VBytes _ _ _, FCap | VSlice _ _ _, FCap => DResult (v_cap x)
      | _, _ => DAny
      end
    end
  end.
Definition dem (fn : lcfn) (r : navres) (tb : bool) : lcdemand :=
  match dem0 fn r with DResult z => if tb then DResultOrError z else DResult z | d => d end.

Lemma lc_demand_dem fn n v path : lc_demand fn n v path = dem fn (nav n v path) (type_bad n path).
Proof. reflexivity. Qed.

(* an outcome meets a demand *)
Definition acc (o : out Z) (d : lcdemand) : Prop :=
  match d with
  | DAny => True
  | DResult z => o = Ret z None \/ o = Fall z
  | DResultOrError z => o = Ret z None \/ o = Fall z \/ exists r, o = Ret r (Some EParse)
  end.

Lemma acc_weaken o z (tb : bool) : acc o (DResult z) -> acc o (if tb then DResultOrError z else DResult z).
Proof. destruct tb; simpl; tauto. Qed.

(* zero-ish outcomes: what a path that denotes nothing may produce *)
Definition zeroish (o : out Z) (tb : bool) : Prop :=
  o = Ret 0%Z None \/ o = Fall 0%Z \/ (tb = true /\ exists r, o = Ret r (Some EParse)).

Lemma zeroish_acc o (tb : bool) d :
  zeroish o tb -> (d = DAny \/ d = DResult 0 \/ d = DResultOrError 0) ->
  (tb = true -> d <> DResult 0%Z) -> acc o d.
Proof.
  intros [H|[H|(T & r & H)]] [D|[D|D]] N; subst; simpl; auto.
  - exfalso. apply (N eq_refl eq_refl).
  - right; right; eauto.
Qed.

(* ---------- list facts ---------- *)
Lemma skipn_nil_len {A} (l : list A) d : d <= List.length l -> skipn d l = [] -> List.length l = d.
Proof.
  revert d; induction l as [|x r IH]; intros [|d] H E; simpl in *; auto; try lia; try discriminate.
  f_equal. apply IH; auto; lia.
Qed.

Lemma skipn_cons {A} (l : list A) d s r :
  skipn d l = s :: r -> nth_error l d = Some s /\ skipn (S d) l = r /\ d < List.length l.
Proof.
  revert d; induction l as [|x l IH]; intros [|d] E; simpl in *; try discriminate.
  - inversion E; subst. repeat split; auto. lia.
  - destruct (IH d E) as (A1 & A2 & A3). repeat split; auto. lia.
Qed.

Lemma skipn_len_le {A} (l : list A) d : List.length (skipn d l) = List.length l - d.
Proof. apply skipn_length. Qed.

(* ---------- well-typedness helpers ---------- *)
(* ---------- the field walks, characterised through the first child with the name ---------- *)
Fixpoint find_idx (seg : string) (chs : list node) (idx : nat) : option (node * nat) :=
  match chs with
  | [] => None
  | c :: r => if String.eqb (n_name c) seg then Some (c, idx) else find_idx seg r (S idx)
  end.

Lemma find_idx_none_later seg c r idx :
  names_nodup (c :: r) = true -> String.eqb (n_name c) seg = true -> find_idx seg r idx = None.
Proof.
  simpl. intros H E. apply andb_true_iff in H. destruct H as (H & _). apply negb_true_iff in H.
  apply String.eqb_eq in E. subst seg. revert idx. induction r as [|d r IH]; intros idx; simpl in *; auto.
  apply orb_false_iff in H. destruct H as (H1 & H2). rewrite H1. apply IH; auto.
Qed.

Lemma find_idx_in seg chs idx ch j : find_idx seg chs idx = Some (ch, j) ->
  In ch chs /\ String.eqb (n_name ch) seg = true /\ idx <= j /\ nth_error chs (j - idx) = Some ch.
Proof.
  revert idx; induction chs as [|c r IH]; intros idx H; simpl in H; [discriminate|].
  destruct (String.eqb (n_name c) seg) eqn:E.
  - inversion H; subst. rewrite Nat.sub_diag. simpl; auto.
  - destruct (IH _ H) as (A & B & C & D). repeat split; simpl; auto; try lia.
    replace (j - idx) with (S (j - S idx)) by lia. exact D.
Qed.

Lemma bind_fall {S} (o : out S) : bind o Fall = o.
Proof. destruct o; reflexivity. Qed.

Definition child_out (rec : node -> cur -> Z -> out Z) (c : cur) (ch : node) (j : nat) (res : Z) : out Z :=
  let cc := cur_field c ch j in
  if n_ptr ch && match n_typ ch with typeBasic => false | _ => true end then
    match cc with CPoison => Panic PNilDeref | CNil => Fall res | CVal _ => rec ch cc res end
  else rec ch cc res.

Lemma walk_nomatch rec c seg : forall chs idx res,
  find_idx seg chs idx = None -> walk_gen rec c (Some seg) chs idx res = Fall res.
Proof.
  induction chs as [|ch r IH]; intros idx res H; simpl in *; auto.
  destruct (String.eqb (n_name ch) seg) eqn:E; [discriminate|].
  rewrite String.eqb_sym, E. rewrite IH by auto. destruct (skip_child ch); reflexivity.
Qed.

Lemma walk_find rec c seg : forall chs idx res,
  names_nodup chs = true ->
  walk_gen rec c (Some seg) chs idx res =
  match find_idx seg chs idx with
  | None => Fall res
  | Some (ch, j) => if skip_child ch then Fall res else child_out rec c ch j res
  end.
Proof.
  induction chs as [|ch r IH]; intros idx res ND; [reflexivity|].
  cbn [walk_gen find_idx].
  destruct (String.eqb (n_name ch) seg) eqn:E.
  - pose proof (find_idx_none_later _ _ _ (S idx) ND E) as NL.
    destruct (skip_child ch); [apply walk_nomatch; exact NL|].
    rewrite String.eqb_sym, E. fold (child_out rec c ch idx res).
    destruct (child_out rec c ch idx res) as [s|s e|k]; simpl; auto. apply walk_nomatch; exact NL.
  - simpl in ND. apply andb_true_iff in ND. destruct ND as (_ & ND).
    rewrite String.eqb_sym, E. destruct (skip_child ch); apply IH; exact ND.
Qed.

Lemma nav_fields_find rec seg : forall chs fs idx allfs,
  skipn idx allfs = fs -> List.length fs = List.length chs ->
  nav_fields rec seg chs fs =
  match find_idx seg chs idx with
  | None => NNone WUnknownField
  | Some (ch, j) => match nth_error allfs j with Some f => rec ch f | None => NNone WUnknownField end
  end.
Proof.
  induction chs as [|c r IH]; intros fs idx allfs SK LEN; [destruct fs; reflexivity|].
  destruct fs as [|f fr]; [discriminate|]. cbn [nav_fields find_idx].
  destruct (skipn_cons _ _ _ _ SK) as (N1 & N2 & _).
  destruct (String.eqb (n_name c) seg); [rewrite N1; reflexivity|].
  apply (IH fr (S idx) allfs N2). simpl in LEN; lia.
Qed.

Lemma tb_fields_find rec seg : forall chs idx,
  tb_fields rec seg chs = match find_idx seg chs idx with None => false | Some (ch, _) => rec ch end.
Proof.
  induction chs as [|c r IH]; intros idx; [reflexivity|]. cbn [tb_fields find_idx].
  destruct (String.eqb (n_name c) seg); [reflexivity|apply IH].
Qed.

Lemma forallb2_length {A B} (f : A -> B -> bool) l m : forallb2 f l m = true -> List.length m = List.length l.
Proof.
  revert m; induction l as [|x r IH]; intros [|y s] H; simpl in *; try discriminate; auto.
  apply andb_true_iff in H. f_equal. apply IH; tauto.
Qed.

Lemma forallb2_nth {A B} (f : A -> B -> bool) l m j x y :
  forallb2 f l m = true -> nth_error l j = Some x -> nth_error m j = Some y -> f x y = true.
Proof.
  revert m j; induction l as [|a r IH]; intros [|b s] [|j] H Hx Hy; simpl in *; try discriminate.
  - inversion Hx; inversion Hy; subst. apply andb_true_iff in H; tauto.
  - apply andb_true_iff in H. eapply IH; eauto; tauto.
Qed.

Lemma forallb_nth {A} (f : A -> bool) l j x : forallb f l = true -> nth_error l j = Some x -> f x = true.
Proof. intros H N. rewrite forallb_forall in H. apply H. eapply nth_error_In; eauto. Qed.

Lemma Forall_nth {A} (P : A -> Prop) l j x : Forall P l -> nth_error l j = Some x -> P x.
Proof. intros H N. rewrite Forall_forall in H. apply H. eapply nth_error_In; eauto. Qed.

(* ---------- zero values ---------- *)
Lemma wtb_zero : forall n, wfn n = true -> wtb n (zero_val n) = true.
Proof.
  intros n. induction n using node_ind'. intros W.
  cbn [wfn] in W. cbn [zero_val wtb].
  destruct p; [reflexivity|].
  destruct ty.
  - apply andb_true_iff in W. destruct W as (_ & W).
    revert W. induction H as [|c r Hc Hr IHl]; intros W; [reflexivity|].
    simpl in W. apply andb_true_iff in W. destruct W as (Wc & Wr).
    simpl. rewrite (Hc Wc). simpl. apply IHl; exact Wr.
  - apply andb_true_iff in W. destruct W as (_ & W).
    destruct mk, mv; try discriminate; reflexivity.
  - apply andb_true_iff in W. destruct W as (_ & W).
    destruct (String.eqb tn "[]byte"); [reflexivity|]. destruct sl; [reflexivity|discriminate].
  - apply andb_true_iff in W. destruct W as (_ & W).
    destruct (skind_of_name tu) as [k|]; [|discriminate]. destruct k as [|i| | | |]; try reflexivity. destruct i; reflexivity.
Qed.

(* ---------- nodes without hasc: nothing below them has a length ---------- *)
Definition benign0 (d : lcdemand) : Prop := d = DAny \/ d = DResult 0%Z.

Lemma existsb_false_nth {A} (f : A -> bool) l j x : existsb f l = false -> nth_error l j = Some x -> f x = false.
Proof.
  intros H N. apply not_true_is_false. intros T.
  assert (E : existsb f l = true) by (apply existsb_exists; exists x; split; [eapply nth_error_In; eauto|exact T]).
  congruence.
Qed.

Lemma scalar_not_ptr k x : scalar_range_ok k x = true ->
  strip_ptrs 3 x = Some x /\ strip_ptrs 2 x = Some x /\
  (k <> SString -> match x with VStr _ | VBytes _ _ _ | VSlice _ _ _ | VMap _ _ => False | _ => True end).
Proof.
  destruct k, x; simpl; intros H; try discriminate; repeat split; auto; intros N; auto; congruence.
Qed.

Lemma string_kind tu k : skind_of_name tu = Some k -> (String.eqb tu "string" = true <-> k = SString).
Proof.
  unfold skind_of_name. intros H.
  destruct (String.eqb tu "bool") eqn:E1; [apply String.eqb_eq in E1; subst; inversion H; split; [discriminate|discriminate]|].
  destruct (String.eqb tu "byte") eqn:E2; [apply String.eqb_eq in E2; subst; inversion H; split; discriminate|].
  destruct (String.eqb tu "float32") eqn:E3; [apply String.eqb_eq in E3; subst; inversion H; split; discriminate|].
  destruct (String.eqb tu "float64") eqn:E4; [apply String.eqb_eq in E4; subst; inversion H; split; discriminate|].
  destruct (String.eqb tu "string") eqn:E5; [inversion H; split; auto|].
  destruct (find _ _) eqn:F; inversion H; subst. split; discriminate.
Qed.

Lemma nohasc_dem fn : forall n, wfn n = true -> n_hasc n = false ->
  forall v path, wtb n v = true -> benign0 (dem0 fn (nav n v path)) /\ type_bad n path = false.
Proof.
  intros n. induction n using node_ind'. intros W HC v path WT.
  cbn [n_hasc] in HC. subst hc. cbn [wfn] in W.
  destruct ty.
  - (* struct *)
    apply andb_true_iff in W. destruct W as (W & WC). apply andb_true_iff in W. destruct W as (HE & ND).
    apply eqb_prop in HE. symmetry in HE.
    destruct path as [|seg rest].
    + split; [|reflexivity]. cbn [nav dem0]. cbn [wtb] in WT.
      destruct p.
      * destruct v as [| | | | | | | |[x|]]; try discriminate; [|right; reflexivity].
        destruct x; try discriminate. left; reflexivity.
      * destruct v; try discriminate. left; reflexivity.
    + cbn [nav type_bad]. rewrite (tb_fields_find _ seg chld 0).
      assert (TB : match find_idx seg chld 0 with None => false | Some (ch, _) => type_bad ch rest end = false).
      { destruct (find_idx seg chld 0) as [[ch j]|] eqn:F; [|reflexivity].
        destruct (find_idx_in _ _ _ _ _ F) as (_ & _ & _ & NT). rewrite Nat.sub_0_r in NT.
        pose proof (forallb_nth _ _ _ _ WC NT) as Wch.
        apply (Forall_nth _ _ _ _ H NT Wch (existsb_false_nth _ _ _ _ HE NT) (zero_val ch) rest (wtb_zero ch Wch)). }
      split; [|exact TB]. cbn [wtb] in WT.
      assert (G : forall fs, forallb2 wtb chld fs = true ->
                benign0 (dem0 fn (nav_fields (fun c f => nav c f rest) seg chld fs))).
      { intros fs WF. rewrite (nav_fields_find _ seg chld fs 0 fs eq_refl (forallb2_length _ _ _ WF)).
        destruct (find_idx seg chld 0) as [[ch j]|] eqn:F; [|right; reflexivity].
        destruct (find_idx_in _ _ _ _ _ F) as (_ & _ & _ & NT). rewrite Nat.sub_0_r in NT.
        destruct (nth_error fs j) as [f|] eqn:NF; [|right; reflexivity].
        pose proof (forallb_nth _ _ _ _ WC NT) as Wch.
        apply (Forall_nth _ _ _ _ H NT Wch (existsb_false_nth _ _ _ _ HE NT) f rest (forallb2_nth _ _ _ _ _ _ WF NT NF)). }
      destruct p.
      * destruct v as [| | | | | | | |[x|]]; try discriminate.
        -- destruct x; try discriminate. apply G; exact WT.
        -- right; reflexivity.
      * destruct v; try discriminate. apply G; exact WT.
  - discriminate W.
  - discriminate W.
  - (* basic, not a string *)
    apply andb_true_iff in W. destruct W as (HE & SK). apply eqb_prop in HE.
    destruct (skind_of_name tu) as [k|] eqn:EK; [|discriminate].
    assert (NS : k <> SString).
    { intros ->. pose proof (proj2 (string_kind _ _ EK) eq_refl) as T. congruence. }
    cbn [wtb] in WT. rewrite EK in WT.
    destruct path as [|seg rest]; cbn [nav type_bad dem0]; (split; [|reflexivity]).
    + destruct p.
      * destruct v as [| | | | | | | |[x|]]; try discriminate; [|right; reflexivity].
        destruct (scalar_not_ptr _ _ WT) as (_ & S2 & S3).
        change (strip_ptrs 3 (VPtr (Some x))) with (strip_ptrs 2 x). rewrite S2.
        specialize (S3 NS). destruct x; try contradiction; destruct fn; left; reflexivity.
      * destruct (scalar_not_ptr _ _ WT) as (S1 & _ & S3). rewrite S1.
        specialize (S3 NS). destruct v; try contradiction; destruct fn; left; reflexivity.
    + destruct p.
      * destruct v as [| | | | | | | |[x|]]; try discriminate; [left|right]; reflexivity.
      * left; reflexivity.
Qed.

(* ---------- depth / path / remaining path ---------- *)
Lemma rest_nil path depth : skipn depth path = [] -> depth <= List.length path ->
  Nat.eqb (path_len path) depth = true /\ Nat.ltb (path_len path) (S depth) = true.
Proof.
  intros E L. unfold path_len. rewrite (skipn_nil_len _ _ L E).
  split; [apply Nat.eqb_refl|apply Nat.ltb_lt; lia].
Qed.

Lemma rest_cons path depth seg rest : skipn depth path = seg :: rest ->
  Nat.eqb (path_len path) depth = false /\ Nat.ltb (path_len path) (S depth) = false /\
  nth_error path depth = Some seg /\ skipn (S depth) path = rest /\ S depth <= List.length path.
Proof.
  intros E. destruct (skipn_cons _ _ _ _ E) as (A & B & C). unfold path_len.
  repeat split; auto; try lia; [apply Nat.eqb_neq; lia|apply Nat.ltb_ge; lia].
Qed.

Lemma rest_cons_short path depth seg rest : skipn depth path = seg :: rest ->
  Nat.ltb (path_len path) (S (S depth)) = match rest with [] => true | _ => false end.
Proof.
  intros E. destruct (skipn_cons _ _ _ _ E) as (A & B & C). unfold path_len.
  pose proof (skipn_length (S depth) path) as L. rewrite B in L.
  destruct rest; simpl in L; [apply Nat.ltb_lt|apply Nat.ltb_ge]; lia.
Qed.

Lemma cur_field_zero chld ch j : nth_error chld j = Some ch ->
  cur_field (CVal (VStruct (map zero_val chld))) ch j = cur_of ch (zero_val ch).
Proof. intros N. unfold cur_field. rewrite (map_nth_error zero_val _ _ N). reflexivity. Qed.

Lemma zero_ptr n : n_ptr n = true -> zero_val n = VPtr None.
Proof. destruct n; simpl; intros ->; reflexivity. Qed.

Lemma lc_zero fn : forall n, wfn n = true -> forall depth path rest,
  depth <> 0 -> skipn depth path = rest -> depth <= List.length path ->
  zeroish (lc fn n (cur_of n (zero_val n)) depth path 0) (type_bad n rest).
Proof.
  intros n. induction n using node_ind'. intros W depth path rest D0 SK LE.
  apply Nat.eqb_neq in D0. cbn [wfn] in W.
  cbn [lc]. rewrite D0. unfold cur_of. cbn [n_ptr zero_val].
  destruct p; [left; reflexivity|]. cbn [andb negb].
  destruct ty.
  - (* struct *)
    apply andb_true_iff in W. destruct W as (W & WC). apply andb_true_iff in W. destruct W as (_ & ND).
    destruct rest as [|seg rest'].
    + destruct (rest_nil _ _ SK LE) as (_ & R2). rewrite R2. left; reflexivity.
    + destruct (rest_cons _ _ _ _ SK) as (_ & R2 & R3 & R4 & R5). rewrite R2, R3.
      rewrite walk_find by exact ND. cbn [type_bad]. rewrite (tb_fields_find _ seg chld 0).
      destruct (find_idx seg chld 0) as [[ch j]|] eqn:F; [|right; left; reflexivity].
      destruct (find_idx_in _ _ _ _ _ F) as (_ & _ & _ & NT). rewrite Nat.sub_0_r in NT.
      destruct (skip_child ch); [right; left; reflexivity|].
      unfold child_out. rewrite (cur_field_zero _ _ _ NT).
      pose proof (forallb_nth _ _ _ _ WC NT) as Wch.
      pose proof (Forall_nth _ _ _ _ H NT Wch (S depth) path rest' (Nat.neq_succ_0 _) R4 R5) as IHc.
      destruct (n_ptr ch) eqn:PC.
      * rewrite (zero_ptr _ PC). unfold cur_of. rewrite PC.
        destruct (match n_typ ch with typeBasic => false | _ => true end); simpl.
        -- right; left; reflexivity.
        -- rewrite (zero_ptr _ PC) in IHc. unfold cur_of in IHc. rewrite PC in IHc. exact IHc.
      * simpl. exact IHc.
  - (* map *)
    apply andb_true_iff in W. destruct W as (_ & W).
    destruct mk as [kn|]; [|discriminate]. destruct mv as [vn|]; [|discriminate].
    apply andb_true_iff in W. destruct W as (W & KS). apply andb_true_iff in W. destruct W as (W & KB).
    apply andb_true_iff in W. destruct W as (Wk & Wv).
    cbn [eval].
    destruct rest as [|seg rest'].
    + destruct (rest_nil _ _ SK LE) as (R1 & R2). rewrite R1.
      destruct fn; cbn [bind]; [left; reflexivity|].
      destruct (negb (n_hasc vn)); [right; left; reflexivity|]. rewrite R2. left; reflexivity.
    + destruct (rest_cons _ _ _ _ SK) as (R1 & R2 & R3 & R4 & R5). rewrite R1.
      assert (B : forall o, (match fn with FLen => Fall 0%Z | FCap => Fall 0%Z end) = o -> o = Fall 0%Z)
        by (intros o <-; destruct fn; reflexivity).
      replace (match fn with FLen => Fall 0%Z | FCap => Fall 0%Z end) with (@Fall Z 0%Z) by (destruct fn; reflexivity).
      cbn [bind]. destruct (negb (n_hasc vn)); [right; left; reflexivity|].
      rewrite R2, R3. cbn [type_bad].
      destruct (is_string_key kn).
      * unfold lookup. destruct (n_ptr kn); right; left; reflexivity.
      * destruct (conv_key kn seg) as [k|]; [|right; right; split; [reflexivity|eexists; reflexivity]].
        unfold lookup. replace (if n_ptr kn then None else map_find [] k) with (@None val) by (destruct (n_ptr kn); reflexivity).
        rewrite (rest_cons_short _ _ _ _ SK).
        destruct (match n_typ vn with typeStruct => true | _ => false end) eqn:TS.
        -- destruct rest'; cbn [andb].
           ++ left; reflexivity.
           ++ apply (H1 vn eq_refl Wv (S depth) path (s :: rest') (Nat.neq_succ_0 _) R4 R5).
        -- cbn [andb]. apply (H1 vn eq_refl Wv (S depth) path rest' (Nat.neq_succ_0 _) R4 R5).
  - (* slice *)
    apply andb_true_iff in W. destruct W as (_ & W).
    destruct (String.eqb tn "[]byte") eqn:BY.
    + cbn [eval]. destruct fn; left; reflexivity.
    + destruct sl as [en|]; [|discriminate]. simpl in W. cbn [eval].
      destruct rest as [|seg rest'].
      * destruct (rest_nil _ _ SK LE) as (R1 & _). rewrite R1. destruct fn; left; reflexivity.
      * destruct (rest_cons _ _ _ _ SK) as (R1 & R2 & R3 & R4 & R5). rewrite R1.
        destruct (negb (n_hasc en)); [right; left; reflexivity|]. rewrite R2, R3.
        cbn [type_bad]. rewrite BY.
        destruct (conv_index seg) as [i|]; [|right; right; split; [reflexivity|eexists; reflexivity]].
        replace ((0 <=? i)%Z && (i <? Z.of_nat (List.length (@nil val)))%Z) with false; [right; left; reflexivity|].
        simpl. destruct (Z.leb_spec 0 i), (Z.ltb_spec i 0); try reflexivity; lia.
  - (* basic *)
    apply andb_true_iff in W. destruct W as (_ & SK').
    destruct (skind_of_name tu) as [k|] eqn:EK; [|discriminate].
    destruct (String.eqb tu "string") eqn:ST.
    + pose proof (proj1 (string_kind _ _ EK) ST) as ->. destruct fn; cbn [andb eval zero_scalar]; [left|right; left]; reflexivity.
    + right; left; reflexivity.
Qed.

(* ---------- small demand facts ---------- *)
Lemma acc_benign fn r o : benign0 (dem0 fn r) -> (o = Ret 0%Z None \/ o = Fall 0%Z) -> acc o (dem fn r false).
Proof. unfold dem. intros [B|B] O; rewrite B; simpl; auto. Qed.

Lemma acc_none fn w (tb : bool) o : (o = Ret 0%Z None \/ o = Fall 0%Z) -> acc o (dem fn (NNone w) tb).
Proof. unfold dem; simpl. destruct tb; simpl; tauto. Qed.

Lemma acc_bad fn (tb : bool) o : (o = Ret 0%Z None \/ o = Fall 0%Z \/ exists r, o = Ret r (Some EParse)) -> acc o (dem fn NBad tb).
Proof. unfold dem; simpl. tauto. Qed.

Lemma nav_nil_ptr ch r : n_ptr ch = true ->
  nav ch (VPtr None) r = match r with [] => NElem ch (VPtr None) | _ => NNone WNilPointer end.
Proof. destruct ch; simpl; intros ->. destruct r; reflexivity. Qed.

Lemma acc_nil_child fn ch r (tb : bool) o : n_ptr ch = true -> (o = Ret 0%Z None \/ o = Fall 0%Z) ->
  acc o (dem fn (nav ch (VPtr None) r) tb).
Proof.
  intros P O. rewrite (nav_nil_ptr _ _ P). destruct r; [|apply acc_none; exact O].
  unfold dem; simpl. destruct tb; simpl; tauto.
Qed.

Lemma nav_nil n v : nav n v [] = NElem n v.
Proof. destruct n; reflexivity. Qed.

Lemma acc_struct_elem fn vn e (tb : bool) : n_typ vn = typeStruct -> wtb vn e = true ->
  acc (Ret 0%Z None) (dem fn (NElem vn e) tb).
Proof.
  destruct vn as [ty tn tu nm pk pki p chld mk mv sl hb hc]; simpl; intros -> WT. unfold dem; simpl.
  destruct p.
  - destruct e as [| | | | | | | |[x|]]; try discriminate.
    + destruct x; try discriminate. simpl. exact I.
    + simpl. destruct tb; simpl; auto.
  - destruct e; try discriminate. simpl. exact I.
Qed.

Lemma map_find_in kvs k e : map_find kvs k = Some e -> exists k', In (k', e) kvs.
Proof.
  induction kvs as [|[k' v] r IH]; simpl; [discriminate|].
  destruct (key_eqb k' k); [intros H; inversion H; subst; eauto|].
  intros H. destruct (IH H) as (k'' & I'). eauto.
Qed.

Lemma skip_nohasc ch : wfn ch = true -> skip_child ch = true -> n_hasc ch = false.
Proof.
  unfold skip_child. intros W S. apply orb_true_iff in S. destruct S as [S|S]; [|apply negb_true_iff; exact S].
  destruct ch as [ty tn tu nm pk pki p chld mk mv sl hb hc]; simpl in *.
  destruct ty; try discriminate. apply negb_true_iff in S.
  apply andb_true_iff in W. destruct W as (HE & _). apply eqb_prop in HE. congruence.
Qed.

Lemma string_key_conv kn seg : wfn kn = true -> n_typ kn = typeBasic ->
  Bool.eqb (String.eqb (n_typn kn) "string") (String.eqb (n_typu kn) "string") = true ->
  is_string_key kn = true -> conv_key kn seg = Some (VStr seg).
Proof.
  destruct kn as [ty tn tu nm pk pki p chld mk mv sl hb hc]; simpl. intros W -> E S.
  unfold is_string_key in S. simpl in S. rewrite S in E. apply eqb_prop in E. symmetry in E.
  apply andb_true_iff in W. destruct W as (_ & W).
  unfold conv_key, node_skind; simpl.
  destruct (skind_of_name tu) as [k|] eqn:EK; [|discriminate].
  rewrite (proj1 (string_kind _ _ EK) E). reflexivity.
Qed.

Lemma nth_error_ex {A} (l : list A) j : j < List.length l -> exists x, nth_error l j = Some x.
Proof. intros H. destruct (nth_error l j) eqn:E; eauto. apply nth_error_None in E. lia. Qed.

(* ---------- the main lemma ---------- *)
Lemma lc_sound fn : forall n, wfn n = true -> forall v depth path res rest,
  wtb n v = true -> skipn depth path = rest -> depth <= List.length path -> (depth <> 0 -> res = 0%Z) ->
  acc (lc fn n (cur_of n v) depth path res) (dem fn (nav n v rest) (type_bad n rest)).
Proof.
  intros n. induction n using node_ind'. intros W.
  assert (CORE : forall x depth path res rest,
    wtb (Node ty tn tu nm pk pki false chld mk mv sl hb hc) x = true ->
    skipn depth path = rest -> depth <= List.length path -> (depth <> 0 -> res = 0%Z) ->
    acc (lc fn (Node ty tn tu nm pk pki false chld mk mv sl hb hc) (CVal x) depth path res)
        (dem fn (nav (Node ty tn tu nm pk pki false chld mk mv sl hb hc) x rest)
                (type_bad (Node ty tn tu nm pk pki false chld mk mv sl hb hc) rest))).
  { intros x depth path res rest WT SK LE R0.
    assert (RES : (if Nat.eqb depth 0 then 0%Z else res) = 0%Z)
      by (destruct (Nat.eqb_spec depth 0); auto).
    cbn [wfn] in W. cbn [wtb] in WT. cbn [lc]. rewrite RES.
    destruct ty.
    - (* struct *)
      apply andb_true_iff in W. destruct W as (W & WC). apply andb_true_iff in W. destruct W as (_ & ND).
      destruct x as [| | | | |fs| | |]; try discriminate.
      destruct rest as [|seg rest'].
      + unfold dem; simpl. exact I.
      + destruct (rest_cons _ _ _ _ SK) as (_ & R2 & R3 & R4 & R5). unfold path_len in *.
        replace (Nat.eqb (List.length path) 0) with false by (symmetry; apply Nat.eqb_neq; lia).
        rewrite andb_false_r. rewrite R2, andb_false_r, R3.
        rewrite walk_find by exact ND. cbn [nav type_bad].
        rewrite (nav_fields_find _ seg chld fs 0 fs eq_refl (forallb2_length _ _ _ WT)).
        rewrite (tb_fields_find _ seg chld 0).
        destruct (find_idx seg chld 0) as [[ch j]|] eqn:F; [|apply acc_none; right; reflexivity].
        destruct (find_idx_in _ _ _ _ _ F) as (INc & _ & _ & NT). rewrite Nat.sub_0_r in NT.
        assert (JL : j < List.length fs).
        { rewrite (forallb2_length _ _ _ WT). apply nth_error_Some. congruence. }
        destruct (nth_error_ex fs j JL) as (f & NF). rewrite NF.
        pose proof (forallb_nth _ _ _ _ WC NT) as Wch.
        pose proof (forallb2_nth _ _ _ _ _ _ WT NT NF) as WTf.
        destruct (skip_child ch) eqn:SKP.
        * destruct (nohasc_dem fn ch Wch (skip_nohasc _ Wch SKP) f rest' WTf) as (B & TB).
          rewrite TB. apply acc_benign; auto.
        * unfold child_out, cur_field. rewrite NF.
          pose proof (Forall_nth _ _ _ _ H NT Wch f (S depth) path 0%Z rest' WTf R4 R5 (fun _ => eq_refl)) as IHc.
          destruct (n_ptr ch && match n_typ ch with typeBasic => false | _ => true end) eqn:CP; [|exact IHc].
          apply andb_true_iff in CP. destruct CP as (PC & _).
          destruct (cur_of ch f) eqn:CO.
          -- exact IHc.
          -- unfold cur_of in CO. rewrite PC in CO.
             destruct ch as [cty ctn ctu cnm cpk cpki cp cchld cmk cmv csl chb chc]; simpl in PC; subst cp.
             cbn [wtb] in WTf. destruct f as [| | | | | | | |[y|]]; try discriminate.
             apply acc_nil_child; [reflexivity|right; reflexivity].
          -- unfold cur_of in CO. rewrite PC in CO. destruct f as [| | | | | | | |[y|]]; discriminate.
    - (* map *)
      rewrite andb_false_r; cbn [andb].
      apply andb_true_iff in W. destruct W as (_ & W).
      destruct mk as [kn|]; [|discriminate]. destruct mv as [vn|]; [|discriminate].
      apply andb_true_iff in W. destruct W as (W & KS). apply andb_true_iff in W. destruct W as (W & KB).
      apply andb_true_iff in W. destruct W as (Wk & Wv).
      destruct (n_typ kn) eqn:KT; try discriminate.
      destruct x as [| | | | | | |isnil kvs|]; try discriminate.
      cbn [eval].
      destruct rest as [|seg rest'].
      + destruct (rest_nil _ _ SK LE) as (R1 & R2). rewrite R1. unfold dem; simpl.
        destruct fn; simpl; [left; reflexivity|exact I].
      + destruct (rest_cons _ _ _ _ SK) as (R1 & R2 & R3 & R4 & R5). rewrite R1.
        replace (match fn with FLen => Fall 0%Z | FCap => Fall 0%Z end) with (@Fall Z 0%Z) by (destruct fn; reflexivity).
        cbn [bind nav type_bad].
        assert (FOUND : forall e k, map_find kvs k = Some e -> conv_key kn seg = Some k -> n_hasc vn = true ->
                  acc (if (match n_typ vn with typeStruct => true | _ => false end) && Nat.ltb (path_len path) (S (S depth))
                       then Ret 0%Z None else lc fn vn (cur_of vn e) (S depth) path 0)
                      (dem fn (nav vn e rest') (type_bad vn rest'))).
        { intros e k MF CK HV. destruct (map_find_in _ _ _ MF) as (k' & INe).
          assert (WTe : wtb vn e = true).
          { rewrite forallb_forall in WT. specialize (WT _ INe). apply andb_true_iff in WT. tauto. }
          rewrite (rest_cons_short _ _ _ _ SK).
          destruct (n_typ vn) eqn:VT; cbn [andb];
            try apply (H1 vn eq_refl Wv e (S depth) path 0%Z rest' WTe R4 R5 (fun _ => eq_refl)).
          destruct rest'; [rewrite nav_nil; apply acc_struct_elem; auto|].
          apply (H1 vn eq_refl Wv e (S depth) path 0%Z (s :: rest') WTe R4 R5 (fun _ => eq_refl)). }
        destruct (n_hasc vn) eqn:HV; cbn [negb].
        * rewrite R2, R3.
          destruct (is_string_key kn) eqn:SKY.
          -- rewrite (string_key_conv kn seg Wk KT KS SKY). unfold lookup.
             destruct (n_ptr kn); [apply acc_none; right; reflexivity|].
             destruct (map_find kvs (VStr seg)) as [e|] eqn:MF; [|apply acc_none; right; reflexivity].
             apply (FOUND e (VStr seg) MF (string_key_conv kn seg Wk KT KS SKY) eq_refl).
          -- destruct (conv_key kn seg) as [k|] eqn:CK.
             ++ unfold lookup. destruct (n_ptr kn) eqn:PK.
                ** (* pointer key: never found, the zero value is walked *)
                   rewrite (rest_cons_short _ _ _ _ SK).
                   apply zeroish_acc with (tb := type_bad vn rest').
                   --- destruct ((match n_typ vn with typeStruct => true | _ => false end) && match rest' with [] => true | _ => false end);
                         [left; reflexivity|].
                       apply (lc_zero fn vn Wv (S depth) path rest' (Nat.neq_succ_0 _) R4 R5).
                   --- unfold dem; simpl. destruct (type_bad vn rest'); auto.
                   --- intros T. unfold dem; simpl. rewrite T. discriminate.
                ** destruct (map_find kvs k) as [e|] eqn:MF.
                   --- apply (FOUND e k MF eq_refl eq_refl).
                   --- rewrite (rest_cons_short _ _ _ _ SK).
                       apply zeroish_acc with (tb := type_bad vn rest').
                       +++ destruct ((match n_typ vn with typeStruct => true | _ => false end) && match rest' with [] => true | _ => false end);
                             [left; reflexivity|].
                           apply (lc_zero fn vn Wv (S depth) path rest' (Nat.neq_succ_0 _) R4 R5).
                       +++ unfold dem; simpl. destruct (type_bad vn rest'); auto.
                       +++ intros T. unfold dem; simpl. rewrite T. discriminate.
             ++ destruct (n_ptr kn).
                ** unfold dem; simpl. right; right; eexists; reflexivity.
                ** apply acc_bad. right; right; eexists; reflexivity.
        * (* values without hasc: nothing is emitted below the map *)
          destruct (n_ptr kn); [apply acc_none; right; reflexivity|].
          destruct (conv_key kn seg) as [k|]; [|apply acc_bad; right; left; reflexivity].
          destruct (map_find kvs k) as [e|] eqn:MF; [|apply acc_none; right; reflexivity].
          destruct (map_find_in _ _ _ MF) as (k' & INe).
          assert (WTe : wtb vn e = true).
          { rewrite forallb_forall in WT. specialize (WT _ INe). apply andb_true_iff in WT. tauto. }
          destruct (nohasc_dem fn vn Wv HV e rest' WTe) as (B & TB). rewrite TB.
          apply acc_benign; auto.
    - (* slice *)
      rewrite andb_false_r; cbn [andb].
      apply andb_true_iff in W. destruct W as (_ & W).
      destruct (String.eqb tn "[]byte") eqn:BY.
      + destruct x as [| | | |isnil d extra| | | |]; try discriminate. cbn [eval].
        destruct rest as [|seg rest']; cbn [nav type_bad]; rewrite ?BY; unfold dem; simpl; [|exact I].
        destruct fn; simpl; left; reflexivity.
      + destruct sl as [en|]; [|discriminate]. simpl in W.
        destruct x as [| | | | | |isnil es extra| |]; try discriminate. cbn [eval].
        destruct rest as [|seg rest'].
        * destruct (rest_nil _ _ SK LE) as (R1 & _). rewrite R1. unfold dem; simpl.
          destruct fn; simpl; left; reflexivity.
        * destruct (rest_cons _ _ _ _ SK) as (R1 & R2 & R3 & R4 & R5). rewrite R1.
          cbn [nav type_bad]. rewrite BY.
          destruct (n_hasc en) eqn:HE; cbn [negb].
          -- rewrite R2, R3.
             destruct (conv_index seg) as [i|]; [|apply acc_bad; right; right; eexists; reflexivity].
             destruct ((0 <=? i)%Z && (i <? Z.of_nat (List.length es))%Z) eqn:RG; [|apply acc_none; right; reflexivity].
             apply andb_true_iff in RG. destruct RG as (G1 & G2). apply Z.leb_le in G1. apply Z.ltb_lt in G2.
             assert (JL : Z.to_nat i < List.length es) by lia.
             destruct (nth_error_ex es _ JL) as (e & NE). rewrite NE.
             assert (WTe : wtb en e = true).
             { rewrite forallb_forall in WT. apply WT. eapply nth_error_In; eauto. }
             rewrite (rest_cons_short _ _ _ _ SK).
             destruct (n_typ en) eqn:VT; cbn [andb];
               try apply (H2 en eq_refl W e (S depth) path 0%Z rest' WTe R4 R5 (fun _ => eq_refl)).
             destruct rest'; [rewrite nav_nil; apply acc_struct_elem; auto|].
             apply (H2 en eq_refl W e (S depth) path 0%Z (s :: rest') WTe R4 R5 (fun _ => eq_refl)).
          -- destruct (conv_index seg) as [i|]; [|apply acc_bad; right; left; reflexivity].
             destruct ((0 <=? i)%Z && (i <? Z.of_nat (List.length es))%Z) eqn:RG; [|apply acc_none; right; reflexivity].
             destruct (nth_error es (Z.to_nat i)) as [e|] eqn:NE; [|apply acc_none; right; reflexivity].
             assert (WTe : wtb en e = true).
             { rewrite forallb_forall in WT. apply WT. eapply nth_error_In; eauto. }
             destruct (nohasc_dem fn en W HE e rest' WTe) as (B & TB). rewrite TB.
             apply acc_benign; auto.
    - (* basic *)
      rewrite andb_false_r; cbn [andb].
      apply andb_true_iff in W. destruct W as (_ & SKD).
      destruct (skind_of_name tu) as [k|] eqn:EK; [|discriminate].
      destruct rest as [|seg rest']; cbn [nav type_bad]; unfold dem; [|simpl; exact I].
      destruct (String.eqb tu "string") eqn:ST.
      + pose proof (proj1 (string_kind _ _ EK) ST) as ->.
        destruct x; try discriminate. destruct fn; simpl; [left; reflexivity|exact I].
      + assert (NS : k <> SString) by (intros ->; pose proof (proj2 (string_kind _ _ EK) eq_refl); congruence).
        destruct (scalar_not_ptr _ _ WT) as (S1 & _ & S3). specialize (S3 NS).
        cbn [dem0]. rewrite S1. destruct x; try contradiction; destruct fn; simpl; exact I. }
  intros v depth path res rest WT SK LE R0.
  destruct p; [|apply CORE; assumption].
  cbn [wtb] in WT.
  destruct v as [| | | | | | | |[x|]]; try discriminate.
  - (* a set pointer: the same code runs on the pointee *)
    change (lc fn (Node ty tn tu nm pk pki true chld mk mv sl hb hc) (cur_of (Node ty tn tu nm pk pki true chld mk mv sl hb hc) (VPtr (Some x))) depth path res)
      with (lc fn (Node ty tn tu nm pk pki false chld mk mv sl hb hc) (CVal x) depth path res).
    specialize (CORE x depth path res rest WT SK LE R0).
    destruct rest as [|seg rest']; [|exact CORE].
    (* the element is the pointer itself: following it gives x *)
    unfold dem in *. cbn [nav type_bad dem0] in *.
    change (strip_ptrs 3 (VPtr (Some x))) with (strip_ptrs 2 x).
    assert (SP : strip_ptrs 2 x = strip_ptrs 3 x).
    { destruct ty; cbn [wtb] in WT.
      - destruct x; try discriminate; reflexivity.
      - destruct x; try discriminate; reflexivity.
      - destruct (String.eqb tn "[]byte"); destruct x; try discriminate; reflexivity.
      - destruct (skind_of_name tu) as [k|]; [|discriminate]. destruct (scalar_not_ptr _ _ WT) as (A & B & _). congruence. }
    rewrite SP. exact CORE.
  - (* nil pointer *)
    assert (RES : (if Nat.eqb depth 0 then 0%Z else res) = 0%Z) by (destruct (Nat.eqb_spec depth 0); auto).
    cbn [lc cur_of n_ptr]. rewrite RES.
    apply acc_nil_child; [reflexivity|left; reflexivity].
Qed.

(* ---------- no panic, and no error but the parse error ---------- *)
Definition safe (o : out Z) : Prop :=
  match o with Panic _ => False | Ret _ (Some e) => e = EParse | _ => True end.

Lemma safe_bind o f : safe o -> (forall s, safe (f s)) -> safe (bind o f).
Proof. destruct o; simpl; auto. Qed.

Lemma walk_safe rec c oseg : forall chs idx res,
  (forall k ch r, nth_error chs k = Some ch -> safe (child_out rec c ch (idx + k) r)) ->
  (oseg = None -> forall ch, In ch chs -> skip_child ch = true) ->
  safe (walk_gen rec c oseg chs idx res).
Proof.
  induction chs as [|ch r IH]; intros idx res HC HN; [exact I|].
  cbn [walk_gen].
  assert (IHr : forall s, safe (walk_gen rec c oseg r (S idx) s)).
  { intros s. apply IH.
    - intros k d r' NT. replace (S idx + k) with (idx + S k) by lia. apply HC. exact NT.
    - intros E d I'. apply (HN E). right. assumption. }
  destruct (skip_child ch) eqn:SK; [apply IHr|].
  destruct oseg as [seg|]; [|rewrite (HN eq_refl ch (or_introl eq_refl)) in SK; discriminate].
  destruct (String.eqb seg (n_name ch)); [|apply IHr].
  fold (child_out rec c ch idx res). apply safe_bind; [|intros s; apply IHr].
  replace idx with (idx + 0) at 1 by lia. apply HC. reflexivity.
Qed.

Lemma lc_safe fn : forall n, wfn n = true -> forall v depth path res,
  wtb n v = true -> safe (lc fn n (cur_of n v) depth path res).
Proof.
  intros n. induction n using node_ind'. intros W.
  assert (CORE : forall x depth path res,
    wtb (Node ty tn tu nm pk pki false chld mk mv sl hb hc) x = true ->
    safe (lc fn (Node ty tn tu nm pk pki false chld mk mv sl hb hc) (CVal x) depth path res)).
  { intros x depth path res WT. cbn [wfn] in W. cbn [wtb] in WT. cbn [lc].
    set (res0 := if Nat.eqb depth 0 then 0%Z else res). clearbody res0.
    destruct ty.
    - (* struct *)
      apply andb_true_iff in W. destruct W as (W & WC).
      destruct x as [| | | | |fs| | |]; try discriminate.
      destruct (Nat.eqb depth 0 && true && Nat.eqb (path_len path) 0) eqn:G1; [exact I|].
      destruct (negb (Nat.eqb depth 0) && Nat.ltb (path_len path) (S depth)) eqn:G2; [exact I|].
      apply walk_safe.
      + intros k ch r NT. simpl. unfold child_out, cur_field.
        pose proof (forallb_nth _ _ _ _ WC NT) as Wch.
        assert (KL : k < List.length fs).
        { rewrite (forallb2_length _ _ _ WT). apply nth_error_Some. congruence. }
        destruct (nth_error_ex fs k KL) as (f & NF). rewrite NF.
        pose proof (forallb2_nth _ _ _ _ _ _ WT NT NF) as WF.
        pose proof (Forall_nth _ _ _ _ H NT Wch f (S depth) path r WF) as REC.
        destruct (n_ptr ch && match n_typ ch with typeBasic => false | _ => true end) eqn:CP; [|exact REC].
        apply andb_true_iff in CP. destruct CP as (PC & _).
        destruct (cur_of ch f) eqn:CO; [exact REC|exact I|].
        unfold cur_of in CO. rewrite PC in CO. destruct f as [| | | | | | | |[y|]]; discriminate.
      + (* path[depth] exists: the two guards above exclude a short path *)
        intros E ch INc. exfalso. apply nth_error_None in E. unfold path_len in *.
        destruct (Nat.eqb_spec depth 0) as [D|D].
        * subst depth. simpl in G1. apply Nat.eqb_neq in G1. lia.
        * simpl in G2. apply Nat.ltb_ge in G2. lia.
    - (* map *)
      rewrite andb_false_r; cbn [andb].
      apply andb_true_iff in W. destruct W as (_ & W).
      destruct mk as [kn|]; [|discriminate]. destruct mv as [vn|]; [|discriminate].
      apply andb_true_iff in W. destruct W as (W & KS). apply andb_true_iff in W. destruct W as (W & KB).
      apply andb_true_iff in W. destruct W as (Wk & Wv).
      destruct x as [| | | | | | |isnil kvs|]; try discriminate. cbn [eval].
      assert (AFTER : forall r xv, wtb vn xv = true ->
                safe (if (match n_typ vn with typeStruct => true | _ => false end) && Nat.ltb (path_len path) (S (S depth))
                      then Ret r None else lc fn vn (cur_of vn xv) (S depth) path r)).
      { intros r xv WX. destruct (_ && _); [exact I|]. apply (H1 vn eq_refl Wv xv (S depth) path r WX). }
      apply safe_bind; [destruct fn; [destruct (Nat.eqb _ _)|]; exact I|].
      intros r. destruct (negb (n_hasc vn)); [exact I|].
      destruct (Nat.ltb (path_len path) (S depth)) eqn:LT; [exact I|].
      destruct (nth_error path depth) as [seg|] eqn:NP;
        [|apply nth_error_None in NP; apply Nat.ltb_ge in LT; unfold path_len in LT; lia].
      assert (WTE : forall k e, lookup kn kvs k = Some e -> wtb vn e = true).
      { unfold lookup. intros k e L. destruct (n_ptr kn); [discriminate|].
        destruct (map_find_in _ _ _ L) as (k' & INe).
        rewrite forallb_forall in WT. specialize (WT _ INe). apply andb_true_iff in WT. tauto. }
      destruct (is_string_key kn).
      + destruct (lookup kn kvs (VStr seg)) as [e|] eqn:L; [|exact I]. apply AFTER. eapply WTE; eauto.
      + destruct (conv_key kn seg) as [k|]; [|reflexivity].
        apply AFTER. destruct (lookup kn kvs k) as [e|] eqn:L; [eapply WTE; eauto|apply wtb_zero; exact Wv].
    - (* slice *)
      rewrite andb_false_r; cbn [andb].
      apply andb_true_iff in W. destruct W as (_ & W).
      destruct (String.eqb tn "[]byte") eqn:BY.
      + destruct x; try discriminate. exact I.
      + destruct sl as [en|]; [|discriminate]. simpl in W.
        destruct x as [| | | | | |isnil es extra| |]; try discriminate. cbn [eval].
        destruct (Nat.eqb (path_len path) depth); [exact I|].
        destruct (negb (n_hasc en)); [exact I|].
        destruct (Nat.ltb (path_len path) (S depth)) eqn:LT; [exact I|].
        destruct (nth_error path depth) as [seg|] eqn:NP;
          [|apply nth_error_None in NP; apply Nat.ltb_ge in LT; unfold path_len in LT; lia].
        destruct (conv_index seg) as [i|]; [|reflexivity].
        destruct ((0 <=? i)%Z && (i <? Z.of_nat (List.length es))%Z) eqn:RG; [|exact I].
        apply andb_true_iff in RG. destruct RG as (G1 & G2). apply Z.leb_le in G1. apply Z.ltb_lt in G2.
        assert (JL : Z.to_nat i < List.length es) by lia.
        destruct (nth_error_ex es _ JL) as (e & NE). rewrite NE.
        assert (WTe : wtb en e = true).
        { rewrite forallb_forall in WT. apply WT. eapply nth_error_In; eauto. }
        destruct (_ && _); [exact I|]. apply (H2 en eq_refl W e (S depth) path res0 WTe).
    - (* basic *)
      rewrite andb_false_r; cbn [andb eval]. destruct (String.eqb tu "string" && match fn with FLen => true | FCap => false end); exact I. }
  intros v depth path res WT.
  destruct p; [|apply CORE; assumption].
  cbn [wtb] in WT.
  destruct v as [| | | | | | | |[x|]]; try discriminate.
  - change (lc fn (Node ty tn tu nm pk pki true chld mk mv sl hb hc) (cur_of (Node ty tn tu nm pk pki true chld mk mv sl hb hc) (VPtr (Some x))) depth path res)
      with (lc fn (Node ty tn tu nm pk pki false chld mk mv sl hb hc) (CVal x) depth path res).
    apply CORE; exact WT.
  - exact I.
Qed.

(* ---------- the methods ---------- *)
Definition meets (o : out Z) (d : lcdemand) : Prop :=
  match d with
  | DAny => True
  | DResult z => o = Ret z None
  | DResultOrError z => o = Ret z None \/ exists r, o = Ret r (Some EParse)
  end.

Definition finish (o : out Z) : out Z := match o with Fall r => Ret r None | Ret s e => Ret s e | Panic k => Panic k end.

Lemma acc_meets o d : acc o d -> meets (finish o) d.
Proof.
  destruct d; simpl; auto.
  - intros [->| ->]; reflexivity.
  - intros [->|[->|(r & ->)]]; simpl; [left; reflexivity|left; reflexivity|right; exists r; reflexivity].
Qed.

Lemma wfn_set_ptr n b : wfn (set_ptr n b) = wfn n.
Proof. destruct n; reflexivity. Qed.

Theorem length_capacity_sound fn n v path res0 :
  wfn n = true -> n_ptr n = false -> wtb n v = true ->
  meets (length_capacity fn n (APtr (Some v)) path res0) (lc_demand fn n v path).
Proof.
  intros W P WT. unfold length_capacity. cbn [header_x]. rewrite lc_demand_dem.
  assert (GEN : forall n', n' = n \/ (n' = set_ptr n true /\ n_typ n = typeMap) ->
            meets (finish (lc fn n' (CVal v) 0 path res0))
                  (dem fn (nav n v path) (type_bad n path))).
  { intros n' [->|(-> & TM)].
    - apply acc_meets.
      replace (CVal v) with (cur_of n v) by (unfold cur_of; rewrite P; reflexivity).
      apply lc_sound; auto; try lia; intros D; exfalso; apply D; reflexivity.
    - apply acc_meets.
      destruct n as [ty tn tu nm pk pki p chld mk mv sl hb hc]. simpl in P, TM. subst p ty.
      pose proof (lc_sound fn (Node typeMap tn tu nm pk pki true chld mk mv sl hb hc) W (VPtr (Some v)) 0 path res0 path
                   WT eq_refl (Nat.le_0_l _) (fun D => match D eq_refl with end)) as S.
      cbn [cur_of n_ptr] in S. cbn [set_ptr].
      destruct path as [|seg rest]; [|exact S].
      unfold dem in *. cbn [nav type_bad dem0] in *.
      cbn [wtb] in WT. destruct v; try discriminate. exact S. }
  unfold root_for. destruct fn.
  - apply GEN; left; reflexivity.
  - destruct (n_typ n) eqn:TY; try (apply GEN; left; reflexivity).
    destruct (n_mapv n) as [vn|]; [|apply GEN; left; reflexivity].
    destruct (negb (n_hasc vn)); apply GEN; [right; split; auto|left; reflexivity].
Qed.

Theorem length_capacity_safe fn n v path res0 :
  wfn n = true -> n_ptr n = false -> wtb n v = true ->
  safe (length_capacity fn n (APtr (Some v)) path res0).
Proof.
  intros W P WT. unfold length_capacity. cbn [header_x].
  assert (GEN : forall n', wfn n' = true -> (n_ptr n' = false /\ wtb n' v = true) \/ (n_ptr n' = true /\ wtb n' (VPtr (Some v)) = true) ->
            safe (finish (lc fn n' (CVal v) 0 path res0))).
  { intros n' W' [(P' & WT')|(P' & WT')].
    - pose proof (lc_safe fn n' W' v 0 path res0 WT') as S. unfold cur_of in S. rewrite P' in S.
      destruct (lc fn n' (CVal v) 0 path res0); exact S.
    - pose proof (lc_safe fn n' W' (VPtr (Some v)) 0 path res0 WT') as S. unfold cur_of in S. rewrite P' in S.
      destruct (lc fn n' (CVal v) 0 path res0); exact S. }
  unfold root_for. destruct fn.
  - apply GEN; auto.
  - destruct (n_typ n) eqn:TY; try (apply GEN; auto; fail).
    destruct (n_mapv n) as [vn|]; [|apply GEN; auto].
    destruct (negb (n_hasc vn)); [|apply GEN; auto].
    apply GEN; [rewrite wfn_set_ptr; exact W|right].
    destruct n; simpl in *. subst. auto.
Qed.
