(* Proofs/CmpSound.v - the emitted Compare code meets the C04 demand for every
   well-formed node, every well-typed value, every path, operator and operand. *)
From Coq Require Import List Bool String Ascii ZArith Arith Lia Floats.SpecFloat.
From Verif Require Import Util Ints Strconv Floats Node Value Outcome Nav LC Cmp CmpSpec LCSound CmpLeaf.
Import ListNotations.
Local Open Scope string_scope.

(* ---------- the sub-domain: []byte nodes occur as struct fields only ----------
   writeNode puts the comparison of a []byte map value / slice element / root under
   `if len(path) > depth`, where it can never run for the path that ends there.  Such shapes
   are outside the supported fragment (their generated code does not compile). *)
Fixpoint csound (n : node) {struct n} : bool :=
  match n with
  | Node ty tn tu nm pk pki p chld mk mv sl hb hc =>
    match ty with
    | typeBasic => true
    | typeStruct => forallb csound chld
    | typeMap => match mv with Some vn => negb (bytes_node vn) && csound vn | None => true end
    | typeSlice =>
      String.eqb tn "[]byte" || match sl with Some en => negb (bytes_node en) && csound en | None => true end
    end
  end.

(* ---------- the demand as a function of the two navigation results ---------- *)
Definition dm (pl : bool) (r rz : navres) (op : cop) (right : string) : cdemand :=
  if pl then DAny else
  match r with
  | NNone WAbsentKey | NNone WPointerKey => DOr DKeep (dem_of rz op right)
  | _ => dem_of r op right
  end.

Lemma cmp_demand_dm n v path op right :
  cmp_demand n v path op right = dm (past_leaf n path) (nav n v path) (navz n v path) op right.
Proof.
  unfold cmp_demand, dm. destruct (past_leaf n path); [reflexivity|].
  destruct (nav n v path) as [en ev|w| |]; reflexivity.
Qed.

Lemma acc_dm_keep o res pl w rz op right : okv o res -> acc o res (dm pl (NNone w) rz op right).
Proof. intros H. unfold dm. destruct pl; [exact I|]. destruct w; simpl; auto. Qed.

Lemma acc_dm_bad o res pl op right : (exists r, o = Ret r (Some EParse)) -> acc o res (dm pl NBad NBad op right).
Proof. intros H. unfold dm. destruct pl; [exact I|]. simpl. left. exact H. Qed.

Lemma acc_dm_bad_key o res pl op right :
  (exists r, o = Ret r (Some EParse)) -> acc o res (dm pl (NNone WPointerKey) NBad op right).
Proof. intros H. unfold dm. destruct pl; [exact I|]. simpl. right; left; exact H. Qed.

Definition absentish (r : navres) : Prop := r = NNone WAbsentKey \/ r = NNone WPointerKey.

Lemma dm_zero o res pl r rz w op right :
  acc o res (dm pl r rz op right) -> absentish r \/ rz = r -> (w = WAbsentKey \/ w = WPointerKey) ->
  acc o res (dm pl (NNone w) rz op right).
Proof.
  unfold dm. destruct pl; [auto|]. intros H [A|E] Hw.
  - assert (G : acc o res (DOr DKeep (dem_of rz op right))) by (destruct A as [->| ->]; exact H).
    destruct Hw as [->| ->]; exact G.
  - subst rz.
    assert (G : acc o res (DOr DKeep (dem_of r op right))).
    { destruct r as [en ev|w'| |]; try (right; exact H). destruct w'; try exact H; left; exact H. }
    destruct Hw as [->| ->]; exact G.
Qed.

(* ---------- the two navigations agree unless an absent key was passed ---------- *)
Lemma nav_fields_rel (r1 r2 : node -> val -> navres) seg : forall chs fs,
  (forall c f, In c chs -> absentish (r1 c f) \/ r2 c f = r1 c f) ->
  absentish (nav_fields r1 seg chs fs) \/ nav_fields r2 seg chs fs = nav_fields r1 seg chs fs.
Proof.
  induction chs as [|c cr IH]; intros fs H; [destruct fs; right; reflexivity|].
  destruct fs as [|f fr]; [right; reflexivity|]. cbn [nav_fields].
  destruct (String.eqb (n_name c) seg).
  - apply H. left; reflexivity.
  - apply IH. intros c' f' I'. apply H. right; exact I'.
Qed.

Lemma navz_nav : forall n v path, absentish (nav n v path) \/ navz n v path = nav n v path.
Proof.
  intros n. induction n using node_ind'. intros v path.
  destruct path as [|seg rest]; [right; reflexivity|].
  assert (CORE : forall x,
    absentish (nav (Node ty tn tu nm pk pki false chld mk mv sl hb hc) x (seg :: rest)) \/
    navz (Node ty tn tu nm pk pki false chld mk mv sl hb hc) x (seg :: rest) =
    nav (Node ty tn tu nm pk pki false chld mk mv sl hb hc) x (seg :: rest)).
  { intros x. cbn [nav navz]. destruct ty.
    - destruct x; try (right; reflexivity).
      apply nav_fields_rel. intros c f I'. rewrite Forall_forall in H. apply (H c I').
    - destruct x; try (right; reflexivity). destruct mk as [kn|]; [|right; reflexivity].
      destruct mv as [vn|]; [|right; reflexivity].
      destruct (n_ptr kn); [left; right; reflexivity|].
      destruct (conv_key kn seg) as [k|]; [|right; reflexivity].
      destruct (map_find kvs k) as [e|]; [apply (H1 vn eq_refl)|left; left; reflexivity].
    - destruct (String.eqb tn "[]byte"); [right; reflexivity|].
      destruct x; try (right; reflexivity). destruct sl as [en|]; [|right; reflexivity].
      destruct (conv_index seg) as [i|]; [|right; reflexivity].
      destruct ((0 <=? i)%Z && (i <? Z.of_nat (List.length es))%Z); [|right; reflexivity].
      destruct (nth_error es (Z.to_nat i)) as [e|]; [apply (H2 en eq_refl)|right; reflexivity].
    - right; reflexivity. }
  destruct p; [|apply CORE].
  destruct v as [| | | | | | | |[x|]]; try (right; reflexivity).
  apply CORE.
Qed.

(* ---------- small facts ---------- *)
Lemma navz_nil n v : navz n v [] = NElem n v.
Proof. destruct n; reflexivity. Qed.

Lemma past_leaf_nil n : past_leaf n [] = false.
Proof. destruct n; reflexivity. Qed.

Lemma past_leaf_leaf n s r : is_leaf n = true -> past_leaf n (s :: r) = true.
Proof.
  destruct n as [ty tn tu nm pk pki p chld mk mv sl hb hc]. unfold is_leaf, bytes_node. cbn [n_typ n_typn past_leaf].
  destruct ty; try discriminate; [intros ->|]; reflexivity.
Qed.

Lemma pl_fields_find rec seg : forall chs idx,
  pl_fields rec seg chs = match find_idx seg chs idx with None => false | Some (ch, _) => rec ch end.
Proof.
  induction chs as [|c r IH]; intros idx; [reflexivity|]. cbn [pl_fields find_idx].
  destruct (String.eqb (n_name c) seg); [reflexivity|apply IH].
Qed.

Lemma cur_of_ok n v : cur_of n v <> CPoison.
Proof. unfold cur_of. destruct (n_ptr n); [destruct v as [| | | | | | | |[x|]]|]; discriminate. Qed.

Lemma not_leaf n : is_leaf n = false -> bytes_node n = false /\ n_typ n <> typeBasic.
Proof. unfold is_leaf. destruct (n_typ n); intros H; split; auto; discriminate. Qed.

Lemma spec_kind_cont n : is_leaf n = false -> spec_kind n = None.
Proof.
  unfold is_leaf, bytes_node, spec_kind. destruct (n_typ n); try reflexivity; try discriminate.
  intros ->. reflexivity.
Qed.

(* ---------- the field dispatch ---------- *)
Definition cchild (rec : node -> cur -> bool -> out bool) (c : cur) (ch : node) (j : nat)
                  (op : cop) (right : string) (res : bool) : out bool :=
  match cur_field c ch j with
  | CPoison => Panic PNilDeref
  | cc => if is_leaf ch then ret_fall (wcmp ch cc op right res) else rec ch cc res
  end.

Lemma cwalk_nomatch rec c seg op right : forall chs idx res,
  find_idx seg chs idx = None -> cwalk rec c seg op right chs idx res = Fall res.
Proof.
  induction chs as [|ch r IH]; intros idx res H; simpl in *; auto.
  destruct (String.eqb (n_name ch) seg) eqn:E; [discriminate|].
  rewrite String.eqb_sym, E. apply IH; exact H.
Qed.

Lemma ret_fall_bind o f : bind (ret_fall o) f = ret_fall o.
Proof. destruct o; reflexivity. Qed.

Lemma cwalk_find rec c seg op right : forall chs idx res,
  names_nodup chs = true ->
  cwalk rec c seg op right chs idx res =
  match find_idx seg chs idx with
  | None => Fall res
  | Some (ch, j) => cchild rec c ch j op right res
  end.
Proof.
  induction chs as [|ch r IH]; intros idx res ND; [reflexivity|].
  cbn [cwalk find_idx].
  destruct (String.eqb (n_name ch) seg) eqn:E.
  - pose proof (find_idx_none_later _ _ _ (S idx) ND E) as NL.
    rewrite String.eqb_sym, E. unfold cchild.
    destruct (cur_field c ch idx); try reflexivity;
      (destruct (is_leaf ch); [reflexivity|]);
      (match goal with |- bind ?o _ = _ => destruct o as [s|s e|k]; simpl; auto end); apply cwalk_nomatch; exact NL.
  - simpl in ND. apply andb_true_iff in ND. destruct ND as (_ & ND).
    rewrite String.eqb_sym, E. apply IH; exact ND.
Qed.

Lemma cchild_eq rec c ch j op right res :
  cur_field c ch j <> CPoison ->
  cchild rec c ch j op right res =
  if is_leaf ch then ret_fall (wcmp ch (cur_field c ch j) op right res) else rec ch (cur_field c ch j) res.
Proof. unfold cchild. destruct (cur_field c ch j); [reflexivity|reflexivity|congruence]. Qed.

(* ---------- the path ends at this node ---------- *)
Lemma cmp_end op right n v depth path res :
  wfn n = true -> bytes_node n = false -> wtb n v = true -> List.length path = depth ->
  acc (cmp n (cur_of n v) depth path op right res) res (elem_demand n v op right).
Proof.
  intros W NB WT LEN.
  destruct (is_leaf n) eqn:L.
  - (* a scalar *)
    destruct n as [ty tn tu nm pk pki p chld mk mv sl hb hc].
    assert (ty = typeBasic) as ->.
    { unfold is_leaf in L. cbn [n_typ] in L. destruct ty; try reflexivity; congruence. }
    cbn [cmp]. apply acc_ret_fall. apply wcmp_leaf_sound; auto.
  - pose proof (spec_kind_cont _ L) as SKN.
    assert (NE : nth_error path depth = None) by (apply nth_error_None; lia).
    assert (CMP : cmp n (cur_of n v) depth path op right res =
                  bind (if n_ptr n then wcmp n (cur_of n v) op right res else Fall res) (fun r => Fall r)).
    { destruct n as [ty tn tu nm pk pki p chld mk mv sl hb hc].
      destruct (not_leaf _ L) as (_ & NBAS). cbn [n_typ] in NBAS.
      destruct ty; try congruence; cbn [cmp n_ptr]; rewrite LEN, Nat.eqb_refl, andb_true_r, NE; reflexivity. }
    rewrite CMP, bind_fall. unfold elem_demand, wcmp. rewrite L, SKN.
    destruct (n_ptr n) eqn:P.
    + assert (PV : v = VPtr None \/ exists x, v = VPtr (Some x)).
      { destruct n as [ty tn tu nm pk pki p chld mk mv sl hb hc]. cbn [n_ptr] in P. subst p.
        cbn [wtb] in WT. destruct v as [| | | | | | | |[x|]]; try discriminate; eauto. }
      unfold cur_of. rewrite P.
      destruct (String.eqb right "nil").
      * destruct PV as [->|(x & ->)]; destruct op; simpl; auto; left; reflexivity.
      * destruct PV as [->|(x & ->)]; exact I.
    + exact I.
Qed.

(* a pointer node whose pointer is set runs the code of the pointee once the path goes on *)
Lemma cmp_ptr_cval ty tn tu nm pk pki chld mk mv sl hb hc x depth path op right res :
  ty <> typeBasic -> bytes_node (Node ty tn tu nm pk pki true chld mk mv sl hb hc) = false ->
  Nat.eqb (List.length path) depth = false ->
  cmp (Node ty tn tu nm pk pki true chld mk mv sl hb hc) (CVal x) depth path op right res =
  cmp (Node ty tn tu nm pk pki false chld mk mv sl hb hc) (CVal x) depth path op right res.
Proof.
  unfold bytes_node. cbn [n_typ n_typn]. intros NB BN E.
  destruct ty; try congruence; cbn [cmp]; rewrite E, ?BN; reflexivity.
Qed.

Lemma rest_cons' (path : list string) depth seg rest : skipn depth path = seg :: rest ->
  Nat.eqb (List.length path) depth = false /\ nth_error path depth = Some seg /\
  skipn (S depth) path = rest /\ S depth <= List.length path.
Proof. intros E. destruct (rest_cons _ _ _ _ E) as (A & _ & C & D & F). unfold path_len in A. auto. Qed.

(* ---------- the main lemma ---------- *)
Lemma cmp_sound op right : forall n, wfn n = true -> csound n = true -> bytes_node n = false ->
  forall v depth path res rest,
  wtb n v = true -> skipn depth path = rest -> depth <= List.length path ->
  acc (cmp n (cur_of n v) depth path op right res) res
      (dm (past_leaf n rest) (nav n v rest) (navz n v rest) op right).
Proof.
  intros n. induction n using node_ind'. intros W CS NB v depth path res rest WT SK LE.
  destruct rest as [|seg rest'].
  { (* the path ends here *)
    rewrite past_leaf_nil, nav_nil, navz_nil. unfold dm. cbn [dem_of].
    apply cmp_end; auto. apply skipn_nil_len; auto. }
  destruct (rest_cons' _ _ _ _ SK) as (R1 & R3 & R4 & R5).
  destruct ty eqn:TY; [| | |unfold dm; cbn [past_leaf]; exact I]; rewrite <- TY in *.
  all: assert (NBAS : ty <> typeBasic) by (rewrite TY; discriminate).
  all: assert (CORE : forall x,
    wtb (Node ty tn tu nm pk pki false chld mk mv sl hb hc) x = true ->
    acc (cmp (Node ty tn tu nm pk pki false chld mk mv sl hb hc) (CVal x) depth path op right res) res
        (dm (past_leaf (Node ty tn tu nm pk pki false chld mk mv sl hb hc) (seg :: rest'))
            (nav (Node ty tn tu nm pk pki false chld mk mv sl hb hc) x (seg :: rest'))
            (navz (Node ty tn tu nm pk pki false chld mk mv sl hb hc) x (seg :: rest')) op right)).
  1: { (* struct *)
    intros x WTx. rewrite TY in *. cbn [wfn] in W. cbn [csound] in CS. cbn [wtb] in WTx.
    apply andb_true_iff in W. destruct W as (W & WC). apply andb_true_iff in W. destruct W as (_ & ND).
    destruct x as [| | | | |fs| | |]; try discriminate.
    cbn [cmp andb bind]. rewrite R3. rewrite cwalk_find by exact ND.
    cbn [past_leaf nav navz].
    rewrite (pl_fields_find _ seg chld 0).
    rewrite (nav_fields_find (fun c f => nav c f rest') seg chld fs 0 fs eq_refl (forallb2_length _ _ _ WTx)).
    rewrite (nav_fields_find (fun c f => navz c f rest') seg chld fs 0 fs eq_refl (forallb2_length _ _ _ WTx)).
    destruct (find_idx seg chld 0) as [[ch j]|] eqn:F; [|apply acc_dm_keep; right; reflexivity].
    destruct (find_idx_in _ _ _ _ _ F) as (INc & _ & _ & NT). rewrite Nat.sub_0_r in NT.
    assert (JL : j < List.length fs).
    { rewrite (forallb2_length _ _ _ WTx). apply nth_error_Some. congruence. }
    destruct (nth_error_ex fs j JL) as (f & NF). rewrite NF.
    pose proof (forallb_nth _ _ _ _ WC NT) as Wch.
    pose proof (forallb_nth _ _ _ _ CS NT) as CSch.
    pose proof (forallb2_nth _ _ _ _ _ _ WTx NT NF) as WTf.
    assert (CF : cur_field (CVal (VStruct fs)) ch j = cur_of ch f) by (unfold cur_field; rewrite NF; reflexivity).
    rewrite cchild_eq by (rewrite CF; apply cur_of_ok). rewrite CF.
    destruct (is_leaf ch) eqn:L.
    - destruct rest' as [|s r].
      + rewrite past_leaf_nil, nav_nil, navz_nil. unfold dm. cbn [dem_of].
        apply acc_ret_fall. apply wcmp_leaf_sound; auto.
      + rewrite (past_leaf_leaf _ _ _ L). exact I.
    - destruct (not_leaf _ L) as (NBch & _).
      apply (Forall_nth _ _ _ _ H NT Wch CSch NBch f (S depth) path res rest' WTf R4 R5). }
  2: { (* map *)
    intros x WTx. rewrite TY in *. cbn [wfn] in W. cbn [csound] in CS. cbn [wtb] in WTx.
    apply andb_true_iff in W. destruct W as (_ & W).
    destruct mk as [kn|]; [|discriminate]. destruct mv as [vn|]; [|discriminate].
    apply andb_true_iff in W. destruct W as (W & KS). apply andb_true_iff in W. destruct W as (W & KB).
    apply andb_true_iff in W. destruct W as (Wk & Wv).
    apply andb_true_iff in CS. destruct CS as (NBv & CSv). apply negb_true_iff in NBv.
    destruct (n_typ kn) eqn:KT; try discriminate.
    destruct x as [| | | | | | |isnil kvs|]; try discriminate.
    cbn [cmp andb bind ceval]. rewrite R3. cbn [past_leaf nav navz].
    assert (FOUND : forall e k, map_find kvs k = Some e -> wtb vn e = true).
    { intros e k MF. destruct (map_find_in _ _ _ MF) as (k' & INe).
      rewrite forallb_forall in WTx. specialize (WTx _ INe). apply andb_true_iff in WTx. tauto. }
    assert (ZERO : forall w, w = WAbsentKey \/ w = WPointerKey ->
              acc (cmp vn (cur_of vn (zero_val vn)) (S depth) path op right res) res
                  (dm (past_leaf vn rest') (NNone w) (navz vn (zero_val vn) rest') op right)).
    { intros w Hw. apply dm_zero with (r := nav vn (zero_val vn) rest'); [|apply navz_nav|exact Hw].
      apply (H1 vn eq_refl Wv CSv NBv (zero_val vn) (S depth) path res rest' (wtb_zero vn Wv) R4 R5). }
    destruct (is_string_key kn) eqn:SKY.
    - rewrite (string_key_conv kn seg Wk KT KS SKY). unfold lookup.
      destruct (n_ptr kn); [apply acc_dm_keep; right; reflexivity|].
      destruct (map_find kvs (VStr seg)) as [e|] eqn:MF; [|apply acc_dm_keep; right; reflexivity].
      apply (H1 vn eq_refl Wv CSv NBv e (S depth) path res rest' (FOUND _ _ MF) R4 R5).
    - destruct (conv_key kn seg) as [k|] eqn:CK.
      + unfold lookup. destruct (n_ptr kn).
        * apply ZERO. right; reflexivity.
        * destruct (map_find kvs k) as [e|] eqn:MF.
          -- apply (H1 vn eq_refl Wv CSv NBv e (S depth) path res rest' (FOUND _ _ MF) R4 R5).
          -- apply ZERO. left; reflexivity.
      + destruct (n_ptr kn).
        * apply acc_dm_bad_key. eexists; reflexivity.
        * apply acc_dm_bad. eexists; reflexivity. }
  3: { (* slice *)
    intros x WTx. rewrite TY in *. cbn [wfn] in W. cbn [csound] in CS. cbn [wtb] in WTx.
    unfold bytes_node in NB. cbn [n_typ n_typn] in NB. rewrite NB in *.
    apply andb_true_iff in W. destruct W as (_ & W). cbn [orb] in W, CS.
    destruct sl as [en|]; [|discriminate].
    apply andb_true_iff in CS. destruct CS as (NBe & CSe). apply negb_true_iff in NBe.
    destruct x as [| | | | | |isnil es extra| |]; try discriminate.
    cbn [cmp andb bind ceval]. rewrite R3, NB. cbn [past_leaf nav navz]. rewrite NB.
    destruct (conv_index seg) as [i|]; [|apply acc_dm_bad; eexists; reflexivity].
    destruct ((0 <=? i)%Z && (i <? Z.of_nat (List.length es))%Z) eqn:RG; [|apply acc_dm_keep; right; reflexivity].
    apply andb_true_iff in RG. destruct RG as (G1 & G2). apply Z.leb_le in G1. apply Z.ltb_lt in G2.
    assert (JL : Z.to_nat i < List.length es) by lia.
    destruct (nth_error_ex es _ JL) as (e & NE). rewrite NE.
    assert (WTe : wtb en e = true).
    { rewrite forallb_forall in WTx. apply WTx. eapply nth_error_In; eauto. }
    apply (H2 en eq_refl W CSe NBe e (S depth) path res rest' WTe R4 R5). }
  (* pointer flag *)
  all: destruct p; [|apply CORE; exact WT].
  all: cbn [wtb] in WT; destruct v as [| | | | | | | |[x|]]; try discriminate.
  all: try (cbn [cur_of n_ptr]; rewrite (cmp_ptr_cval _ _ _ _ _ _ _ _ _ _ _ _ _ _ _ _ _ _ NBAS NB R1); apply CORE; exact WT).
  all: cbn [cur_of n_ptr nav navz]; apply acc_dm_keep.
  all: rewrite TY; cbn [cmp andb bind]; rewrite R1, R3; cbn [bind]; left; reflexivity.
Qed.

(* ---------- the method ---------- *)
Fixpoint meets (o : out bool) (res : bool) (d : cdemand) : Prop :=
  match d with
  | DAny => True
  | DSet b => o = Ret b None
  | DKeep => o = Ret res None
  | DErr => exists r, o = Ret r (Some EParse)
  | DOr a b => meets o res a \/ meets o res b
  end.

Definition finish (o : out bool) : out bool :=
  match o with Fall r => Ret r None | Ret s e => Ret s e | Panic k => Panic k end.

Lemma acc_meets o res d : acc o res d -> meets (finish o) res d.
Proof.
  induction d; simpl; auto.
  - intros [->| ->]; reflexivity.
  - intros [->| ->]; reflexivity.
  - intros (r & ->). exists r. reflexivity.
  - intros [H|H]; [left; apply IHd1|right; apply IHd2]; exact H.
Qed.

Lemma compare_body n v op right path res0 : path <> [] ->
  compare n (APtr (Some v)) op right path res0 = finish (cmp n (CVal v) 0 path op right res0).
Proof.
  intros NE. unfold compare. destruct path; [congruence|]. cbn [header_x].
  destruct (cmp n (CVal v) 0 (s :: path) op right res0); reflexivity.
Qed.

Theorem compare_sound n v op right path res0 :
  wfn n = true -> csound n = true -> is_leaf n = false -> n_ptr n = false -> wtb n v = true ->
  meets (compare n (APtr (Some v)) op right path res0) res0 (cmp_demand n v path op right).
Proof.
  intros W CS L P WT. destruct (not_leaf _ L) as (NB & _).
  destruct path as [|seg rest].
  - (* the empty path: the root is no scalar, nothing is demanded *)
    rewrite cmp_demand_dm, past_leaf_nil, nav_nil, navz_nil. unfold dm, dem_of, elem_demand.
    rewrite P, (spec_kind_cont _ L). exact I.
  - rewrite compare_body by discriminate. apply acc_meets. rewrite cmp_demand_dm.
    replace (CVal v) with (cur_of n v) by (unfold cur_of; rewrite P; reflexivity).
    apply cmp_sound; auto. simpl; lia.
Qed.

(* ---------- no panic, and no error but the parse error ---------- *)
Definition safe (o : out bool) : Prop :=
  match o with Panic _ => False | Ret _ (Some e) => e = EParse | _ => True end.

Lemma safe_bind o f : safe o -> (forall s, safe (f s)) -> safe (bind o f).
Proof. destruct o; simpl; auto. Qed.

Lemma safe_ret_fall o : safe o -> safe (ret_fall o).
Proof. destruct o; simpl; auto. Qed.

Lemma cmp_leaf_safe left x op right res : safe (cmp_leaf left x op right res).
Proof.
  unfold cmp_leaf. destruct (leaf_kind left) as [k|]; [|exact I].
  destruct (conv_operand k right); [|reflexivity].
  destruct k as [[| | | | |]|]; exact I.
Qed.

Lemma wcmp_safe left c op right res :
  c <> CPoison -> (n_ptr left = false -> exists x, c = CVal x) -> safe (wcmp left c op right res).
Proof.
  intros NP NV. unfold wcmp. destruct (n_ptr left).
  - destruct (String.eqb right "nil"); [destruct c; try exact I; congruence|].
    destruct (is_leaf left); [|exact I]. destruct c; try exact I; [apply cmp_leaf_safe|congruence].
  - destruct (NV eq_refl) as (x & ->). apply cmp_leaf_safe.
Qed.

Lemma cwalk_safe rec c seg op right : forall chs idx res,
  (forall k ch r, nth_error chs k = Some ch -> safe (cchild rec c ch (idx + k) op right r)) ->
  safe (cwalk rec c seg op right chs idx res).
Proof.
  induction chs as [|ch r IH]; intros idx res HC; [exact I|].
  cbn [cwalk].
  assert (IHr : forall s, safe (cwalk rec c seg op right r (S idx) s)).
  { intros s. apply IH. intros k d r' NT. replace (S idx + k) with (idx + S k) by lia. apply HC. exact NT. }
  destruct (String.eqb seg (n_name ch)); [|apply IHr].
  specialize (HC 0 ch res eq_refl). rewrite Nat.add_0_r in HC. unfold cchild in HC.
  destruct (cur_field c ch idx); try exact HC;
    (destruct (is_leaf ch); [exact HC|apply safe_bind; [exact HC|exact IHr]]).
Qed.

Lemma cmp_safe op right : forall n, wfn n = true -> forall v depth path res,
  wtb n v = true -> safe (cmp n (cur_of n v) depth path op right res).
Proof.
  intros n. induction n using node_ind'. intros W.
  assert (CORE : forall p' x depth path res,
    wtb (Node ty tn tu nm pk pki false chld mk mv sl hb hc) x = true ->
    safe (cmp (Node ty tn tu nm pk pki p' chld mk mv sl hb hc) (CVal x) depth path op right res)).
  { intros p' x depth path res WT. cbn [wfn] in W. cbn [wtb] in WT.
    assert (WS : forall r, safe (wcmp (Node ty tn tu nm pk pki p' chld mk mv sl hb hc) (CVal x) op right r)).
    { intros r. apply wcmp_safe; [discriminate|eauto]. }
    destruct ty; cbn [cmp]; try (apply safe_ret_fall; apply WS).
    - (* struct *)
      apply andb_true_iff in W. destruct W as (W & WC).
      destruct x as [| | | | |fs| | |]; try discriminate.
      apply safe_bind; [destruct (p' && _); [apply WS|exact I]|]. intros r.
      destruct (nth_error path depth) as [seg|]; [|exact I].
      destruct p'; cbn iota; apply cwalk_safe; intros k ch r' NT; simpl;
        (pose proof (forallb_nth _ _ _ _ WC NT) as Wch;
         assert (KL : k < List.length fs) by (rewrite (forallb2_length _ _ _ WT); apply nth_error_Some; congruence);
         destruct (nth_error_ex fs k KL) as (f & NF);
         pose proof (forallb2_nth _ _ _ _ _ _ WT NT NF) as WF;
         assert (CF : cur_field (CVal (VStruct fs)) ch k = cur_of ch f) by (unfold cur_field; rewrite NF; reflexivity);
         rewrite cchild_eq by (rewrite CF; apply cur_of_ok); rewrite CF;
         destruct (is_leaf ch);
         [apply safe_ret_fall; apply wcmp_safe; [apply cur_of_ok|intros PF; unfold cur_of; rewrite PF; eauto]
         |apply (Forall_nth _ _ _ _ H NT Wch f (S depth) path r' WF)]).
    - (* map *)
      apply andb_true_iff in W. destruct W as (_ & W).
      destruct mk as [kn|]; [|discriminate]. destruct mv as [vn|]; [|discriminate].
      apply andb_true_iff in W. destruct W as (W & KS). apply andb_true_iff in W. destruct W as (W & KB).
      apply andb_true_iff in W. destruct W as (Wk & Wv).
      destruct x as [| | | | | | |isnil kvs|]; try discriminate.
      apply safe_bind; [destruct (p' && _); [apply WS|exact I]|]. intros r.
      destruct (nth_error path depth) as [seg|]; [|exact I].
      assert (WTE : forall k e, lookup kn kvs k = Some e -> wtb vn e = true).
      { unfold lookup. intros k e L. destruct (n_ptr kn); [discriminate|].
        destruct (map_find_in _ _ _ L) as (k' & INe).
        rewrite forallb_forall in WT. specialize (WT _ INe). apply andb_true_iff in WT. tauto. }
      destruct p'; cbn iota; cbn [ceval];
        (destruct (is_string_key kn);
         [destruct (lookup kn kvs (VStr seg)) as [e|] eqn:L; [|exact I];
          apply (H1 vn eq_refl Wv e (S depth) path r); eapply WTE; eauto
         |destruct (conv_key kn seg) as [k|]; [|reflexivity];
          apply (H1 vn eq_refl Wv _ (S depth) path r);
          destruct (lookup kn kvs k) as [e|] eqn:L; [eapply WTE; eauto|apply wtb_zero; exact Wv]]).
    - (* slice *)
      apply andb_true_iff in W. destruct W as (_ & W).
      apply safe_bind; [destruct (p' && _); [apply WS|exact I]|]. intros r.
      destruct (nth_error path depth) as [seg|]; [|exact I].
      assert (BODY : safe (if String.eqb tn "[]byte"
                then ret_fall (wcmp (Node typeSlice tn tu nm pk pki p' chld mk mv sl hb hc) (CVal x) op right r)
                else match sl with
                     | None => Fall r
                     | Some en =>
                       match conv_index seg with
                       | None => Ret r (Some EParse)
                       | Some i =>
                         match ceval (CVal x) with
                         | inr k => Panic k
                         | inl (VSlice _ es _) =>
                           if ((0 <=? i) && (i <? Z.of_nat (List.length es)))%Z then
                             match nth_error es (Z.to_nat i) with
                             | None => Panic PIndex
                             | Some ev => cmp en (cur_of en ev) (S depth) path op right r
                             end
                           else Fall r
                         | inl _ => Panic PTypeAssert
                         end
                       end
                     end)).
      { destruct (String.eqb tn "[]byte") eqn:BY; [apply safe_ret_fall; apply WS|].
        destruct sl as [en|]; [|exact I]. simpl in W.
        destruct x as [| | | | | |isnil es extra| |]; try discriminate.
        destruct (conv_index seg) as [i|]; [|reflexivity]. cbn [ceval].
        destruct ((0 <=? i)%Z && (i <? Z.of_nat (List.length es))%Z) eqn:RG; [|exact I].
        apply andb_true_iff in RG. destruct RG as (G1 & G2). apply Z.leb_le in G1. apply Z.ltb_lt in G2.
        assert (JL : Z.to_nat i < List.length es) by lia.
        destruct (nth_error_ex es _ JL) as (e & NE). rewrite NE.
        assert (WTe : wtb en e = true).
        { rewrite forallb_forall in WT. apply WT. eapply nth_error_In; eauto. }
        apply (H2 en eq_refl W e (S depth) path r WTe). }
      destruct p'; exact BODY. }
  intros v depth path res WT.
  destruct p; [|apply (CORE false); exact WT].
  cbn [wtb] in WT.
  destruct v as [| | | | | | | |[x|]]; try discriminate.
  - apply (CORE true); exact WT.
  - cbn [cur_of n_ptr].
    assert (WS : forall r, safe (wcmp (Node ty tn tu nm pk pki true chld mk mv sl hb hc) CNil op right r)).
    { intros r. apply wcmp_safe; [discriminate|discriminate]. }
    destruct ty; cbn [cmp]; try (apply safe_ret_fall; apply WS);
      (apply safe_bind; [destruct (true && _); [apply WS|exact I]|]; intros r;
       destruct (nth_error path depth); exact I).
Qed.

Theorem compare_safe n v op right path res0 :
  wfn n = true -> n_ptr n = false -> wtb n v = true ->
  safe (compare n (APtr (Some v)) op right path res0).
Proof.
  intros W P WT. destruct path as [|seg rest]; [exact I|].
  rewrite compare_body by discriminate.
  pose proof (cmp_safe op right n W v 0 (seg :: rest) res0 WT) as S.
  unfold cur_of in S. rewrite P in S.
  destruct (cmp n (CVal v) 0 (seg :: rest) op right res0); exact S.
Qed.

(* ---------- a path that reaches an element never ran past a scalar ---------- *)
Lemma nf_pl (r1 : node -> val -> navres) (r2 : node -> bool) seg en ev : forall chs fs,
  Forall (fun c => forall f, r1 c f = NElem en ev -> r2 c = false) chs ->
  nav_fields r1 seg chs fs = NElem en ev -> pl_fields r2 seg chs = false.
Proof.
  induction chs as [|c cr IH]; intros fs HF NV; [reflexivity|].
  destruct fs as [|f fr]; [discriminate|]. cbn [nav_fields pl_fields] in *.
  inversion HF as [|? ? Hc Hr]; subst.
  destruct (String.eqb (n_name c) seg); [apply (Hc f NV)|apply (IH fr Hr NV)].
Qed.

Lemma nav_elem_past : forall n v path en ev, nav n v path = NElem en ev -> past_leaf n path = false.
Proof.
  intros n. induction n using node_ind'. intros v path en ev NV.
  destruct path as [|seg rest]; [reflexivity|].
  assert (CORE : forall x,
    nav (Node ty tn tu nm pk pki false chld mk mv sl hb hc) x (seg :: rest) = NElem en ev ->
    past_leaf (Node ty tn tu nm pk pki p chld mk mv sl hb hc) (seg :: rest) = false).
  { intros x. cbn [nav past_leaf]. destruct ty.
    - destruct x; try discriminate. apply nf_pl.
      rewrite Forall_forall in *. intros c I' f NV'. apply (H c I' f rest en ev NV').
    - destruct x; try discriminate. destruct mk as [kn|]; [|discriminate]. destruct mv as [vn|]; [|discriminate].
      destruct (n_ptr kn); [discriminate|]. destruct (conv_key kn seg) as [k|]; [|discriminate].
      destruct (map_find kvs k) as [e|]; [|discriminate]. apply (H1 vn eq_refl).
    - destruct (String.eqb tn "[]byte"); [discriminate|].
      destruct x; try discriminate. destruct sl as [en'|]; [|discriminate].
      destruct (conv_index seg) as [i|]; [|discriminate].
      destruct ((0 <=? i)%Z && (i <? Z.of_nat (List.length es))%Z); [|discriminate].
      destruct (nth_error es (Z.to_nat i)) as [e|]; [|discriminate]. apply (H2 en' eq_refl).
    - discriminate. }
  destruct p; [|apply (CORE v); exact NV].
  cbn [nav] in NV. destruct v as [| | | | | | | |[x|]]; try discriminate.
  apply (CORE x). exact NV.
Qed.
