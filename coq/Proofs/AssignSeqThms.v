(* Proofs/AssignSeqThms.v - property C19 over histories of Assign / AssignBuf
   calls (Model/AssignSeq.v against Spec/AssignSeqSpec.v), from the single-call
   theorems of AssignThms.v by induction on the history. *)
From Coq Require Import ZArith Bool String Ascii List Lia Floats.SpecFloat.
From Verif Require Import Util Ints Strconv Floats AssignVal Assign AssignSpec AssignText AssignMatrix AssignThms
     AssignSeqVal AssignSeq AssignSeqSpec.
Import ListNotations.
Local Open Scope Z_scope.

Local Opaque wrap assign_atoi assign_atou assign_atof render_float to_f32 to_f64 Z_to_string String.eqb f64_eqb
      text_to_int text_to_float String.append in_range.

Definition sdone (t : triple) : sout := let '(ok, d, b) := t in SDone ok d b.

(* ---------- one call is an admissible step ---------- *)
Lemma expect_true_ptr rf rd dst src d : expect rf rd dst src = (true, d) -> exists v, d = DPtr v.
Proof.
  unfold expect. destruct dst as [old|]; [|discriminate].
  destruct (conv_src rf rd (kind_of old) src) as [v|]; intros H; inversion H. exists v. reflexivity.
Qed.

Lemma step_meets rf dcap buf dst src :
  wf_source src -> not_nil src = true -> rendered rf src ->
  exists ok d own b,
    assign true dcap buf dst src = Done ok d own b /\ In (ok, d, b) (step_allowed rf dst src buf).
Proof.
  intros W N R.
  assert (G : forall rd, In rd [Strict; Lenient] ->
              result (assign true dcap buf dst src) = Some (expect rf rd dst src) ->
              exists ok d own b,
                assign true dcap buf dst src = Done ok d own b /\ In (ok, d, b) (step_allowed rf dst src buf)).
  { intros rd RD H.
    destruct (assign true dcap buf dst src) as [ok d own b|k|] eqn:E; cbn [result] in H; try discriminate H.
    exists ok, d, own, b. split; [reflexivity|].
    unfold step_allowed. apply in_flat_map. exists rd. split; [exact RD|].
    assert (H1 : expect rf rd dst src = (ok, d)) by (inversion H; reflexivity).
    cbv beta. rewrite H1.
    destruct ok.
    - destruct (expect_true_ptr rf rd dst src d H1) as (v & V). subst d.
      apply in_map_iff. exists (own, b). split; [reflexivity|].
      apply (owner_allowed rf dcap buf dst src v own b W N (fun _ => R) E).
    - destruct (untouched_on_failure true dcap buf dst src d own b E) as (A & B). subst. left. reflexivity. }
  destruct (two_readings rf dcap buf dst src W N (fun _ => R)) as [H|H].
  - apply (G Strict); [left; reflexivity|exact H].
  - apply (G Lenient); [right; left; reflexivity|exact H].
Qed.

(* ---------- every history is an admissible history ---------- *)
Theorem seq_meets rf dm l : forall cur buf,
  Forall (step_ok rf) l ->
  exists ts, run_seq true dm cur buf l = map sdone ts /\ In ts (seq_allowed rf dm cur buf l).
Proof.
  induction l as [|st r IH]; intros cur buf F.
  - exists []. split; [reflexivity|left; reflexivity].
  - inversion F as [|x y (W & N & R) F']; subst.
    destruct (step_meets rf 0 buf (step_dest dm cur st) (h_src st) W N R) as (ok & d & own & b & E & I).
    destruct (IH (Some d) b F') as (ts & RS & IS).
    exists ((ok, d, b) :: ts). split.
    + cbn [run_seq]. rewrite E. cbn [sout_of map sdone]. rewrite RS. reflexivity.
    + cbn [seq_allowed]. apply in_flat_map. exists (ok, d, b). split; [exact I|].
      apply in_map. exact IS.
Qed.

(* an admissible history has one result per step *)
Lemma seq_allowed_length rf dm l : forall cur buf ts,
  In ts (seq_allowed rf dm cur buf l) -> List.length ts = List.length l.
Proof.
  induction l as [|st r IH]; intros cur buf ts I.
  - destruct I as [I|[]]. subst. reflexivity.
  - cbn [seq_allowed] in I. apply in_flat_map in I. destruct I as (((ok & d) & b) & _ & I).
    apply in_map_iff in I. destruct I as (ts' & Q & I). subst ts. cbn [List.length]. f_equal.
    apply (IH (Some d) b ts' I).
Qed.

(* ... and each step of it is an admissible single call on the values present at that step:
   the destination of step i+1 of a reuse history is what step i left *)
Lemma seq_allowed_cons rf dm cur buf st r t ts :
  In (t :: ts) (seq_allowed rf dm cur buf (st :: r)) ->
  In t (step_allowed rf (step_dest dm cur st) (h_src st) buf) /\
  In ts (seq_allowed rf dm (Some (snd (fst t))) (snd t) r).
Proof.
  cbn [seq_allowed]. intros I. apply in_flat_map in I. destruct I as (((ok & d) & b) & I1 & I2).
  apply in_map_iff in I2. destruct I2 as (ts' & Q & I2). inversion Q; subst. split; [exact I1|exact I2].
Qed.

(* ---------- the destination's capacity decides the ownership class only ---------- *)
Lemma cap_irrelevant strfix c1 c2 buf dst src :
  sout_of (assign strfix c1 buf dst src) = sout_of (assign strfix c2 buf dst src).
Proof.
  destruct dst as [[b|k o|f|f|s|s]|]; try reflexivity.
  unfold assign, assign_buf.
  destruct src as [v|v|k|].
  - destruct v as [b|k z|f|f|t|t]; try reflexivity; (destruct buf; [reflexivity|]).
    + destruct b; reflexivity.
    + destruct k; reflexivity.
    + cbn. unfold append_float. destruct (render_float (to_f64 f)); reflexivity.
    + cbn. unfold append_float. destruct (render_float f); reflexivity.
  - destruct v as [b|k z|f|f|t|t]; try reflexivity; (destruct buf; [reflexivity|]).
    + destruct b; reflexivity.
    + destruct k; reflexivity.
    + cbn. unfold append_float. destruct (render_float (to_f64 f)); reflexivity.
    + cbn. unfold append_float. destruct (render_float f); reflexivity.
  - destruct k as [|k| | | |]; try destruct k; destruct buf; reflexivity.
  - destruct buf; reflexivity.
Qed.
