(* Proofs/StaticProofs.v - the lemmas behind Properties/C16.v.  Case analysis
   over every kind and form of the operands; integers, floats and strings stay
   universally quantified. *)
From Coq Require Import ZArith Bool String Ascii List Lia Floats.SpecFloat.
From Verif Require Import Util Ints Strconv Floats Static StaticSpec StaticFacts.
Import ListNotations.
Local Open Scope Z_scope.

Definition isptr (a : sarg) : bool := match a with APtr _ => true | _ => false end.

Lemma denotes_ld a v : denotes a = Some v -> ld a = Ret v /\ dyn_of a = dyn_kind (kind_of v) (isptr a).
Proof. destruct a; simpl; intros E; inversion E; subst; split; reflexivity. Qed.

Ltac cases_val v := destruct v as [?b|[] ?z|?f|?f|?i ?s|?i ?d ?c|?t].
Ltac cases_arg a :=
  destruct a as [[?b|[] ?z|?f|?f|?i ?s|?i ?d ?c|?t]|[?b|[] ?z|?f|?f|?i ?s|?i ?d ?c|?t]|[|[]| | | | |]].
(* [denotes a = Some v]: a is AVal v or APtr v *)
Ltac by_form a v D :=
  destruct a as [?x|?x|?k]; try discriminate D; simpl in D; inversion D; subst; clear D.

(* ---------- Get / GetTo / Set / SetWithBuffer / Loop ---------- *)
Lemma get_identity a : s_get a = Ret (a, None) /\ s_getto a = Ret (a, None).
Proof. split; reflexivity. Qed.

Lemma noop_methods a b :
  s_set a b = Ret (a, None) /\ s_setwithbuffer a b = Ret (a, None) /\ s_loop a = Ret (a, None).
Proof. repeat split; reflexivity. Qed.

(* ---------- Compare ---------- *)
Lemma compare_any a v op right res0 :
  denotes a = Some v -> wf_val v ->
  s_compare a op right res0 = Ret (match spec_compare v op right with Some b => b | None => res0 end).
Proof.
  intros D W. destruct (denotes_ld a v D) as (L & Y).
  unfold s_compare. rewrite Y. clear Y D.
  destruct v as [b|k z|f|f|i s|i d c|t]; [ | destruct k | .. ]; destruct (isptr a); simpl dyn_kind; cbv iota;
    unfold c_int, c_uint, c_float, c_bool, c_bytes, c_str, spec_compare, max_uint64, is_signed; rewrite ?L; simpl bind;
    try match goal with |- context [parse_int ?r ?b ?n] => destruct (parse_int r b n) end;
    try match goal with |- context [parse_uint ?r ?b ?n] => destruct (parse_uint r b n) end;
    try match goal with |- context [parse_float ?r] => destruct (parse_float r) end;
    try match goal with |- context [parse_bool ?r] => destruct (parse_bool r) end;
    simpl bind; simpl zof; simpl bof; simpl fof; simpl sof; simpl widen; unfold zid, fid;
    rewrite ?cmp_int_by_cmp, ?cmp_uint_by_cmp, ?cmp_float_by_cmp, ?cmp_str_by_cmp, ?cmp_bytes_by_eq, ?cmp_bool_by_eq;
    try reflexivity.
  all: simpl in W; match type of W with in_range ?k ?z = true =>
         first [ rewrite (i64_id k z) by (reflexivity || exact W) | rewrite (u64_id k z) by (reflexivity || exact W) ] end; reflexivity.
Qed.

Lemma compare_native a v op right res0 b :
  denotes a = Some v -> wf_val v -> spec_compare v op right = Some b ->
  s_compare a op right res0 = Ret b.
Proof. intros D W E. rewrite (compare_any a v op right res0 D W), E. reflexivity. Qed.

Lemma compare_unparsable a v op right res0 :
  denotes a = Some v -> wf_val v -> spec_compare v op right = None ->
  s_compare a op right res0 = Ret res0.
Proof. intros D W E. rewrite (compare_any a v op right res0 D W), E. reflexivity. Qed.

(* ---------- DeepEqual ---------- *)
(* the current code without fuel *)
Definition d_text_cur (l r : sarg) : out bool :=
  p <- ind_string_cur r ;; (if snd p then lv <- ld l ;; Ret (String.eqb (fst p) (sof lv)) else Ret false).
Lemma d_bytes_cur fuel l r : d_bytes cur fuel l r = d_text_cur l r.
Proof. unfold d_bytes, d_text_cur. rewrite ind_bytes_cur_eq. reflexivity. Qed.
Lemma d_str_cur fuel l r : d_str cur fuel l r = d_text_cur l r.
Proof. unfold d_str, d_text_cur. rewrite ind_string_cur_eq. reflexivity. Qed.
Lemma deq_switch_fuel fuel l r : s_deq_switch cur fuel l r = s_deq_switch cur 0 l r.
Proof. unfold s_deq_switch. rewrite !d_bytes_cur, !d_str_cur. reflexivity. Qed.
Lemma deq_fuel fuel l r : s_deq cur fuel l r = s_deq cur 0 l r.
Proof. unfold s_deq, s_deq_opts. rewrite !(deq_switch_fuel fuel). reflexivity. Qed.

Ltac deq_compute :=
  cbv -[Z.eqb String.eqb Bool.eqb eqlf64 wrap to_f64 f64_of_Z f2i64 f2u64 float_equal].
Ltac deq_compute_in H :=
  cbv -[Z.eqb String.eqb Bool.eqb eqlf64 wrap to_f64 f64_of_Z f2i64 f2u64 float_equal] in H.

(* all operand pairs: every kind, every form (typed nil pointers and foreign types included) *)
Lemma deq_sym fuel l r : s_deq cur fuel l r = s_deq cur fuel r l.
Proof.
  rewrite !(deq_fuel fuel).
  cases_arg l; cases_arg r; deq_compute; try reflexivity;
    f_equal; first [ apply Z.eqb_sym | apply String.eqb_sym | apply bool_eqb_sym | apply (eqlf64_sym cur) ].
Qed.

Lemma deq_family fuel l r x y b :
  denotes l = Some x -> denotes r = Some y -> wf_val x -> wf_val y ->
  spec_equal x y = Some b -> s_deq cur fuel l r = Ret b.
Proof.
  intros Dl Dr Wx Wy E. rewrite (deq_fuel fuel).
  destruct l as [x'|x'|?]; try discriminate; simpl in Dl; inversion Dl; subst x'; clear Dl;
  (destruct r as [y'|y'|?]; try discriminate; simpl in Dr; inversion Dr; subst y'; clear Dr);
  cases_val x; cases_val y; try discriminate E;
    deq_compute_in E; deq_compute; inversion E; subst b; clear E.
  all: simpl in Wx, Wy;
    repeat match goal with
    | W : in_range ?k ?z = true |- context [wrap KInt64 ?z] =>
      change (wrap KInt64 z) with (i64 z); rewrite (i64_id k z) by (reflexivity || exact W)
    | W : in_range ?k ?z = true |- context [wrap KUint64 ?z] =>
      change (wrap KUint64 z) with (u64 z); rewrite (u64_id k z) by (reflexivity || exact W)
    end;
    f_equal;
    first [ apply Z.eqb_sym | apply String.eqb_sym | apply bool_eqb_sym
          | etransitivity; [apply (eqlf64_sym cur) | apply eqlf64_cur_spec] ].
Qed.

(* operands that denote values: the call returns (no panic, no divergence) *)
Lemma deq_returns fuel l r : passed l = true -> passed r = true -> exists b, s_deq cur fuel l r = Ret b.
Proof.
  intros Pl Pr. rewrite (deq_fuel fuel).
  cases_arg l; try discriminate Pl; cases_arg r; try discriminate Pr; deq_compute; eexists; reflexivity.
Qed.

Lemma deq_never_diverges fuel l r : s_deq cur fuel l r <> Diverge.
Proof.
  rewrite (deq_fuel fuel).
  cases_arg l; cases_arg r; deq_compute; discriminate.
Qed.

(* ---------- Copy ---------- *)
Lemma same_value_refl v : family_of v <> FamOther -> same_value v v = true.
Proof.
  destruct v as [b|k z|f|f|i s|i d c|t]; simpl; intros N; try contradiction (N eq_refl).
  - destruct b; reflexivity.
  - rewrite Z.eqb_refl. destruct k; reflexivity.
  - destruct f as [s|s| |s m e]; try (destruct s; reflexivity); try reflexivity.
    rewrite Pos.eqb_refl, Z.eqb_refl. destruct s; reflexivity.
  - destruct f as [s|s| |s m e]; try (destruct s; reflexivity); try reflexivity.
    rewrite Pos.eqb_refl, Z.eqb_refl. destruct s; reflexivity.
  - apply String.eqb_refl.
  - apply String.eqb_refl.
Qed.

Lemma shares_other_array w v j :
  array_of w = None \/ array_of w = Some j -> array_of v <> Some j -> shares w v = false.
Proof.
  unfold shares. intros [E|E] N; rewrite E; [reflexivity|].
  destruct (array_of v) as [i|]; [|reflexivity].
  apply Z.eqb_neq. intros H. apply N. subst. reflexivity.
Qed.

Lemma fresh_bytes_array fresh extra d :
  array_of (fresh_bytes fresh extra d) = None \/ array_of (fresh_bytes fresh extra d) = Some fresh.
Proof.
  destruct d; simpl; [left; reflexivity|].
  match goal with |- context [if ?c then _ else _] => destruct c end; [left|right]; reflexivity.
Qed.

Lemma fresh_str_array fresh s :
  array_of (fresh_str fresh s) = None \/ array_of (fresh_str fresh s) = Some fresh.
Proof. destruct s; [left|right]; reflexivity. Qed.

Lemma same_value_fresh_bytes i d c fresh extra : same_value (VBytes i d c) (fresh_bytes fresh extra d) = true.
Proof. destruct d; [reflexivity|]. unfold fresh_bytes, same_value. apply String.eqb_refl. Qed.

Lemma copy_fresh fresh extra a v :
  denotes a = Some v -> family_of v <> FamOther -> array_of v <> Some fresh ->
  exists w, s_copy fresh extra a = Ret (Some w, None) /\ same_value v w = true /\ shares w v = false.
Proof.
  intros D N F. destruct (denotes_ld a v D) as (L & Y).
  unfold s_copy. rewrite Y. clear Y D.
  destruct v as [b|k z|f|f|i s|i d c|t]; [ | destruct k | .. ]; try contradiction (N eq_refl);
    destruct (isptr a); simpl dyn_kind; cbv iota; unfold cp_same, cp_bytes, cp_str; rewrite L; simpl bind;
    eexists; (split; [reflexivity|]).
  all: try (split; [apply same_value_refl; exact N | reflexivity]).
  all: simpl sof; split;
    [ first [apply same_value_fresh_bytes | apply String.eqb_refl]
    | apply (shares_other_array _ _ fresh); [first [apply fresh_bytes_array | apply fresh_str_array] | exact F] ].
Qed.

(* the copy of a byte slice is a well-formed slice whatever capacity append chose *)
Lemma fresh_bytes_wf fresh extra d : 0 <= extra -> wf_val (fresh_bytes fresh extra d).
Proof. intros Ex. destruct d; unfold fresh_bytes, wf_val, slen; [simpl; lia|lia]. Qed.

Lemma copy_wf fresh extra a w :
  0 <= extra -> s_copy fresh extra a = Ret (Some w, None) -> wf_arg a -> wf_val w.
Proof.
  intros Ex H W. unfold s_copy in H.
  cases_arg a; cbv [dyn_of dyn_kind kind_of cp_same cp_bytes cp_str ld bind sof] in H;
    inversion H; subst; try exact W; try exact I; apply fresh_bytes_wf; exact Ex.
Qed.

(* ---------- CopyTo ---------- *)
Lemma buf_append_aid fresh extra b d :
  b_aid (buf_append fresh extra b d) = b_aid b \/ b_aid (buf_append fresh extra b d) = fresh.
Proof. unfold buf_append. destruct (_ <=? _); simpl; [left|right]; reflexivity. Qed.

Lemma shares_two w v j1 j2 :
  array_of w = None \/ array_of w = Some j1 \/ array_of w = Some j2 ->
  array_of v <> Some j1 -> array_of v <> Some j2 -> shares w v = false.
Proof.
  intros [E|[E|E]] N1 N2.
  - apply (shares_other_array w v j1); [left; exact E|exact N1].
  - apply (shares_other_array w v j1); [right; exact E|exact N1].
  - apply (shares_other_array w v j2); [right; exact E|exact N2].
Qed.

Lemma copyto_fresh fresh extra src dst b v w :
  denotes src = Some v -> family_of v <> FamOther -> dst = APtr w -> same_kind v w = true ->
  array_of v <> Some fresh -> array_of v <> Some (b_aid b) ->
  exists w' b', s_copyto fresh extra src dst b = Ret (None, APtr w', b') /\
                same_value v w' = true /\ shares w' v = false.
Proof.
  intros D N Ed K F1 F2. subst dst. destruct (denotes_ld src v D) as (L & Y).
  unfold s_copyto. rewrite Y. clear Y D.
  destruct v as [bb|k z|f|f|i s|i d c|t]; [ | destruct k | .. ]; try contradiction (N eq_refl);
    (destruct w as [?b|k' ?z|?f|?f|?i ?s|?i ?d ?c|?t]; try discriminate K; try (destruct k'; try discriminate K));
    destruct (isptr src); simpl dyn_kind; cbv iota; unfold ct_scalar, ct_bytes, ct_str; simpl dyn_of; cbv iota;
    rewrite L; simpl bind; eexists; eexists; (split; [reflexivity|]).
  all: try (split; [apply same_value_refl; exact N | reflexivity]).
  all: simpl sof; simpl snd; (split; [apply String.eqb_refl|]).
  all: apply (shares_two _ _ (b_aid b) fresh); [|exact F2|exact F1]; simpl array_of.
  all: try (destruct (slen d =? 0); [left; reflexivity|right]; destruct (buf_append_aid fresh extra b d) as [E|E]; rewrite E; [left|right]; reflexivity).
  all: destruct s; [left; reflexivity|right]; destruct (buf_append_aid fresh extra b (String a s)) as [E|E]; rewrite E; [left|right]; reflexivity.
Qed.

(* a destination that is not a pointer to the source's kind: an error, nothing stored *)
Lemma copyto_wrong_dst fresh extra src dst b v :
  denotes src = Some v -> family_of v <> FamOther ->
  dyn_of dst <> dyn_kind (kind_of v) true ->
  s_copyto fresh extra src dst b = Ret (Some EMustPointer, dst, b).
Proof.
  intros D N M. destruct (denotes_ld src v D) as (L & Y).
  unfold s_copyto. rewrite Y. clear Y D.
  destruct v as [bb|k z|f|f|i s|i d c|t]; [ | destruct k | .. ]; try contradiction (N eq_refl);
    destruct (isptr src); simpl dyn_kind in *; cbv iota; unfold ct_scalar, ct_bytes, ct_str;
    destruct (dyn_of dst); try reflexivity; contradiction (M eq_refl).
Qed.

(* ---------- Length / Capacity ---------- *)
Lemma lencap a v :
  denotes a = Some v ->
  s_length a = Ret (match spec_len v with Some n => n | None => 0 end) /\
  s_capacity a = Ret (match spec_cap v with Some n => n | None => 0 end).
Proof.
  intros D. destruct (denotes_ld a v D) as (L & Y).
  unfold s_length, s_capacity, s_lc. rewrite Y. clear Y D.
  destruct v as [b|k z|f|f|i s|i d c|t]; [ | destruct k | .. ]; destruct (isptr a); simpl dyn_kind; cbv iota;
    unfold lc_bytes, lc_str; rewrite ?L; split; reflexivity.
Qed.

(* ---------- Reset ---------- *)
Lemma reset_zeroes v :
  family_of v <> FamOther ->
  exists w, s_reset cur (APtr v) = Ret (APtr w) /\ same_kind v w = true /\ is_zero w = true.
Proof.
  intros N. destruct v as [b|k z|f|f|i s|i d c|t]; [ | destruct k | .. ]; try contradiction (N eq_refl);
    eexists; (split; [reflexivity|split; reflexivity]).
Qed.

Lemma reset_by_value v : s_reset cur (AVal v) = Ret (AVal v).
Proof. cases_val v; reflexivity. Qed.

(* ---------- operands of any other type ---------- *)
Lemma foreign_dyn a : arg_family a = FamOther -> dyn_of a = DOther.
Proof.
  destruct a as [v|v|k]; simpl.
  - destruct v as [b|k z|f|f|i s|i d c|t]; simpl; try discriminate; [destruct (is_signed k); discriminate|reflexivity].
  - destruct v as [b|k z|f|f|i s|i d c|t]; simpl; try discriminate; [destruct (is_signed k); discriminate|reflexivity].
  - destruct k as [|k| | | | |]; try discriminate; [destruct (is_signed k); discriminate|reflexivity].
Qed.

Lemma foreign_shape a : arg_family a = FamOther -> (exists t, a = AVal (VOther t)) \/ (exists t, a = APtr (VOther t)) \/ a = ANil KOther.
Proof.
  destruct a as [v|v|k]; simpl; intros H.
  - destruct v as [b|k z|f|f|i s|i d c|t]; simpl in H; try discriminate H; [destruct (is_signed k); discriminate H|]. left. eexists; reflexivity.
  - destruct v as [b|k z|f|f|i s|i d c|t]; simpl in H; try discriminate H; [destruct (is_signed k); discriminate H|]. right; left. eexists; reflexivity.
  - destruct k as [|k| | | | |]; try discriminate H; [destruct (is_signed k); discriminate H|]. right; right. reflexivity.
Qed.

Lemma foreign_deq_left fuel a r : arg_family a = FamOther -> s_deq cur fuel a r = Ret false.
Proof.
  intros F. rewrite (deq_fuel fuel).
  destruct (foreign_shape a F) as [(t & E)|[(t & E)|E]]; subst a; cases_arg r; reflexivity.
Qed.

Lemma foreign a :
  arg_family a = FamOther ->
  (forall op right res0, s_compare a op right res0 = Ret false) /\
  (forall fuel r, s_deq cur fuel a r = Ret false) /\
  (forall fuel l, s_deq cur fuel l a = Ret false) /\
  (forall fresh extra, s_copy fresh extra a = Ret (None, Some EUnsupported)) /\
  (forall fresh extra dst b, s_copyto fresh extra a dst b = Ret (Some EUnsupported, dst, b)) /\
  s_length a = Ret 0 /\ s_capacity a = Ret 0 /\
  s_reset cur a = Ret a.
Proof.
  intros F. pose proof (foreign_dyn a F) as Y.
  split; [intros; unfold s_compare; rewrite Y; reflexivity|].
  split; [intros; apply foreign_deq_left; exact F|].
  split; [intros; rewrite deq_sym; apply foreign_deq_left; exact F|].
  split; [intros; unfold s_copy; rewrite Y; reflexivity|].
  split; [intros; unfold s_copyto; rewrite Y; reflexivity|].
  split; [unfold s_length, s_lc; rewrite Y; reflexivity|].
  split; [unfold s_capacity, s_lc; rewrite Y; reflexivity|].
  unfold s_reset; rewrite Y; reflexivity.
Qed.

(* ---------- what the code did before the repairs ---------- *)
(* unbounded recursion: a text operand on the left, anything that is not text on the right *)
Lemma pinned_text_diverges v fuel l r :
  fx_text v = false -> fx_mixed v = false -> is_text l = true -> is_text r = false ->
  s_deq v fuel l r = Diverge.
Proof.
  intros Ht Hm Tl Tr. destruct (ind_text_diverges v Ht fuel r Tr) as (IS & IB).
  unfold s_deq, s_deq_opts. rewrite Hm. simpl andb. cbv iota.
  unfold s_deq_switch, is_text in *. destruct (dyn_of l); try discriminate Tl;
    unfold d_bytes, d_str; rewrite ?IS, ?IB; reflexivity.
Qed.
