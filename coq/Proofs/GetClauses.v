(* Proofs/GetClauses.v - the clauses of C01 spelled out from the main theorem. *)
From Coq Require Import List Bool String Ascii ZArith Arith Lia.
From Verif Require Import Util Ints Strconv Floats Node Value Outcome Nav LC LCSpec LCSound Get GetSpec GetSound GetLive GetLoc.
Import ListNotations.
Local Open Scope string_scope.
Local Open Scope list_scope.

Lemma obs_none b : obs_of_buf b = BNone -> b = None.
Proof.
  destruct b as [r|]; [|reflexivity]. unfold obs_of_buf.
  destruct (final r) as [[[x l] cp]|]; discriminate.
Qed.

Section Clauses.
Variables (n : node) (v : val) (path : list string).
Hypothesis W : wfn n = true.
Hypothesis P : n_ptr n = false.
Hypothesis WT : wtb n v = true.

(* the element the path denotes *)
Lemma get_resolves en ev x :
  nav n v path = NElem en ev -> fin ev = Some x -> past_leaf n path = false ->
  exists r lv, get false n (APtr (Some v)) path = Ret (Some r) None /\ obs_of_buf (Some r) = BVal x lv.
Proof.
  intros NV FE PL. pose proof (get_sound n v path W P WT) as M.
  unfold get_demand in M. rewrite PL, NV in M. cbn [wants_of] in M. unfold elem_wants in M. rewrite FE in M.
  cbn [meets] in M. destruct (get false n (APtr (Some v)) path) as [b|b e|k]; try contradiction.
  destruct M as (w & [<-|[]] & OK). cbn [want_ok] in OK.
  destruct e; [contradiction|]. destruct b as [r|]; [|contradiction].
  destruct (obs_of_buf (Some r)) as [| |y lv] eqn:O; try contradiction. subst y.
  exists r, lv. auto.
Qed.

(* the element is a nil pointer: a reference to that nil pointer, or nothing *)
Lemma get_nil_element en ev :
  nav n v path = NElem en ev -> fin ev = None -> past_leaf n path = false ->
  exists b, get false n (APtr (Some v)) path = Ret b None /\ (obs_of_buf b = BNil \/ b = None).
Proof.
  intros NV FE PL. pose proof (get_sound n v path W P WT) as M.
  unfold get_demand in M. rewrite PL, NV in M. cbn [wants_of] in M. unfold elem_wants in M. rewrite FE in M.
  cbn [meets] in M. destruct (get false n (APtr (Some v)) path) as [b|b e|k]; try contradiction.
  destruct M as (w & [<-|[<-|[]]] & OK); cbn [want_ok] in OK; (destruct e; [contradiction|]); exists b; split; auto.
  - destruct (obs_of_buf b); try contradiction. left; reflexivity.
  - right. apply obs_none. destruct (obs_of_buf b); try contradiction. reflexivity.
Qed.

(* no element (unknown field, index outside [0,len), nil pointer on the way): nothing is stored -
   in particular never the enclosing container *)
Lemma get_no_element w :
  nav n v path = NNone w -> w <> WAbsentKey -> w <> WPointerKey ->
  past_leaf n path = false -> type_bad n path = false ->
  get false n (APtr (Some v)) path = Ret None None.
Proof.
  intros NV N1 N2 PL TB. pose proof (get_sound n v path W P WT) as M.
  unfold get_demand in M. rewrite PL, NV, TB in M.
  assert (E : wants_of (NNone w) (absent_zero n v path) = [WNone]) by (destruct w; try reflexivity; congruence).
  rewrite E in M. cbn [meets app] in M.
  destruct (get false n (APtr (Some v)) path) as [b|b e|k]; try contradiction.
  destruct M as (w' & [<-|[]] & OK). cbn [want_ok] in OK.
  destruct e; [contradiction|].
  rewrite (obs_none b); [reflexivity|]. destruct (obs_of_buf b); try contradiction. reflexivity.
Qed.

(* absent map key: nothing, or what native navigation reaches from the zero value of the element type *)
Lemma get_absent_key w :
  nav n v path = NNone w -> (w = WAbsentKey \/ w = WPointerKey) ->
  past_leaf n path = false -> type_bad n path = false ->
  exists b e, get false n (APtr (Some v)) path = Ret b e /\
              ((b = None /\ e = None) \/ exists z, In z (absent_zero n v path) /\ want_ok z e (obs_of_buf b)).
Proof.
  intros NV AK PL TB. pose proof (get_sound n v path W P WT) as M.
  unfold get_demand in M. rewrite PL, NV, TB in M.
  assert (E : wants_of (NNone w) (absent_zero n v path) = WNone :: absent_zero n v path) by (destruct AK; subst w; reflexivity).
  rewrite E, app_nil_r in M. cbn [meets] in M.
  destruct (get false n (APtr (Some v)) path) as [b|b e|k]; try contradiction.
  exists b, e. split; [reflexivity|].
  destruct M as (z & [<-|IN] & OK).
  - cbn [want_ok] in OK. destruct e; [contradiction|]. left. split; [|reflexivity].
    apply obs_none. destruct (obs_of_buf b); try contradiction. reflexivity.
  - right. exists z. auto.
Qed.

(* an unparsable key or index segment: the parse error *)
Lemma get_bad_segment :
  nav n v path = NBad -> past_leaf n path = false ->
  exists b, get false n (APtr (Some v)) path = Ret b (Some EParse).
Proof.
  intros NV PL. pose proof (get_sound n v path W P WT) as M.
  unfold get_demand in M. rewrite PL, NV in M. cbn [wants_of meets] in M.
  destruct (get false n (APtr (Some v)) path) as [b|b e|k]; try contradiction.
  destruct M as (w & [<-|[]] & OK). cbn [want_ok] in OK.
  destruct e as [[]|]; try contradiction. exists b. reflexivity.
Qed.

(* the property is silent only on paths that continue past a scalar, string or bytes element *)
Lemma silent_only_past_leaf : get_demand n v path = None -> past_leaf n path = true.
Proof.
  unfold get_demand. destruct (past_leaf n path) eqn:PL; [reflexivity|].
  destruct (nav n v path) eqn:NV; try discriminate.
  intros _. rewrite <- PL. apply (unspec_past n W v path WT NV).
Qed.

End Clauses.
