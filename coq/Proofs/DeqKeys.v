(* Proofs/DeqKeys.v - facts about float equality, map keys (Go == is a partial equivalence decided by a
   normal form) and the map pigeonhole used by the symmetry and soundness proofs of DeepEqual. *)
From Coq Require Import List Bool String Ascii ZArith Arith Lia Floats.SpecFloat Permutation.
From Verif Require Import Util Ints Strconv Floats Node Value Outcome Deq DeqSpec.
Import ListNotations.

Definition notnan (a : spec_float) : bool := match a with S754_nan => false | _ => true end.
Definition fnorm (a : spec_float) : spec_float := match a with S754_zero _ => S754_zero false | _ => a end.

Lemma SFeqb_fin sa ma ea sb mb eb :
  SFeqb (S754_finite sa ma ea) (S754_finite sb mb eb) = true <-> (sa = sb /\ ma = mb /\ ea = eb).
Proof.
  unfold SFeqb, SFcompare.
  destruct sa, sb; try (split; [discriminate | intros (H & _); discriminate]).
  - destruct (Z.compare_spec ea eb) as [E|E|E].
    + subst. destruct (Pos.compare_cont Eq ma mb) eqn:C; simpl.
      * apply Pos.compare_eq_iff in C. subst. tauto.
      * split; [discriminate|]. intros (_ & H & _). subst. rewrite Pos.compare_cont_refl in C. discriminate.
      * split; [discriminate|]. intros (_ & H & _). subst. rewrite Pos.compare_cont_refl in C. discriminate.
    + split; [discriminate|]. intros (_ & _ & H). lia.
    + split; [discriminate|]. intros (_ & _ & H). lia.
  - destruct (Z.compare_spec ea eb) as [E|E|E].
    + subst. destruct (Pos.compare_cont Eq ma mb) eqn:C; simpl.
      * apply Pos.compare_eq_iff in C. subst. tauto.
      * split; [discriminate|]. intros (_ & H & _). subst. rewrite Pos.compare_cont_refl in C. discriminate.
      * split; [discriminate|]. intros (_ & H & _). subst. rewrite Pos.compare_cont_refl in C. discriminate.
    + split; [discriminate|]. intros (_ & _ & H). lia.
    + split; [discriminate|]. intros (_ & _ & H). lia.
Qed.

Lemma SFeqb_to a b : SFeqb a b = true -> notnan a = true /\ notnan b = true /\ fnorm a = fnorm b.
Proof.
  destruct a as [sa|sa| |sa ma ea], b as [sb|sb| |sb mb eb];
    try (intros H; apply SFeqb_fin in H; destruct H as (H1 & H2 & H3); subst; simpl; auto);
    unfold SFeqb, SFcompare; simpl; try discriminate; auto;
    try (destruct sa; discriminate); try (destruct sb; discriminate).
  destruct sa, sb; try discriminate; auto.
Qed.

Lemma SFeqb_from a b : notnan a = true -> notnan b = true -> fnorm a = fnorm b -> SFeqb a b = true.
Proof.
  destruct a as [sa|sa| |sa ma ea], b as [sb|sb| |sb mb eb]; simpl; intros N1 N2 E; try discriminate; try reflexivity.
  - inversion E; subst. destruct sb; reflexivity.
  - inversion E; subst. apply SFeqb_fin. auto.
Qed.

(* ---------- Go's == on map keys is a partial equivalence, decided by a normal form ---------- *)
Definition knorm (k : val) : val := match k with VFloat f => VFloat (fnorm f) | _ => k end.
Definition kvalid (k : val) : bool := key_eqb k k.

Lemma key_eqb_iff a b : key_eqb a b = true <-> (kvalid a = true /\ kvalid b = true /\ knorm a = knorm b).
Proof.
  unfold kvalid. destruct a, b; simpl; try (split; [discriminate | intros (H1 & H2 & H3); try discriminate; auto]; fail).
  - rewrite !eqb_reflx. rewrite eqb_true_iff. split; [intros ->; auto | intros (_ & _ & H); inversion H; auto].
  - rewrite !Z.eqb_refl, Z.eqb_eq. split; [intros ->; auto | intros (_ & _ & H); inversion H; auto].
  - unfold f64_eqb. split.
    + intros H. destruct (SFeqb_to _ _ H) as (N1 & N2 & E). repeat split.
      * apply SFeqb_from; auto.
      * apply SFeqb_from; auto.
      * f_equal; exact E.
    + intros (H1 & H2 & H3). apply SFeqb_to in H1. apply SFeqb_to in H2. inversion H3. apply SFeqb_from; tauto.
  - rewrite !String.eqb_refl, String.eqb_eq. split; [intros ->; auto | intros (_ & _ & H); inversion H; auto].
Qed.

Lemma key_eqb_sym a b : key_eqb a b = key_eqb b a.
Proof.
  destruct (key_eqb a b) eqn:E; symmetry.
  - apply key_eqb_iff in E. apply key_eqb_iff. intuition congruence.
  - destruct (key_eqb b a) eqn:F; auto. apply key_eqb_iff in F. rewrite <- E. symmetry. apply key_eqb_iff. intuition congruence.
Qed.

Lemma key_eqb_trans a b c : key_eqb a b = true -> key_eqb b c = true -> key_eqb a c = true.
Proof. rewrite !key_eqb_iff. intuition congruence. Qed.

(* keys of a map: each equal to itself (no NaN), pairwise different *)
Fixpoint keys_ok (kvs : list (val * val)) : bool :=
  match kvs with
  | [] => true
  | (k, _) :: r => kvalid k && negb (existsb (fun e => key_eqb (fst e) k) r) && keys_ok r
  end.

Definition nkeys (kvs : list (val * val)) : list val := map (fun e => knorm (fst e)) kvs.

Lemma keys_ok_valid kvs k v : keys_ok kvs = true -> In (k, v) kvs -> kvalid k = true.
Proof.
  induction kvs as [|[k0 v0] r IH]; simpl; intros H I; [contradiction|].
  apply andb_true_iff in H. destruct H as (H & H3). apply andb_true_iff in H. destruct H as (H1 & H2).
  destruct I as [I|I]; [inversion I; subst; auto | auto].
Qed.

Lemma keys_ok_nodup kvs : keys_ok kvs = true -> NoDup (nkeys kvs).
Proof.
  induction kvs as [|[k0 v0] r IH]; simpl; intros H; [constructor|].
  apply andb_true_iff in H. destruct H as (H & H3). apply andb_true_iff in H. destruct H as (H1 & H2).
  constructor; auto. intros I. unfold nkeys in I. apply in_map_iff in I. destruct I as ([k v] & E & I). simpl in E.
  apply negb_true_iff in H2. assert (X : existsb (fun e => key_eqb (fst e) k0) r = true); [|congruence].
  apply existsb_exists. exists (k, v). split; auto. simpl. apply key_eqb_iff. repeat split; auto.
  eapply keys_ok_valid; eauto.
Qed.

Lemma map_find_some kvs k v : map_find kvs k = Some v -> exists k', In (k', v) kvs /\ key_eqb k' k = true.
Proof.
  induction kvs as [|[k0 v0] r IH]; simpl; [discriminate|].
  destruct (key_eqb k0 k) eqn:E.
  - intros H; inversion H; subst. eauto.
  - intros H. destruct (IH H) as (k' & I & F). eauto.
Qed.

Lemma map_find_in kvs k k' v : keys_ok kvs = true -> In (k', v) kvs -> key_eqb k' k = true -> map_find kvs k = Some v.
Proof.
  induction kvs as [|[k0 v0] r IH]; simpl; intros H I E; [contradiction|].
  apply andb_true_iff in H. destruct H as (H & H3). apply andb_true_iff in H. destruct H as (H1 & H2).
  destruct I as [I|I].
  - inversion I; subst. rewrite E. reflexivity.
  - destruct (key_eqb k0 k) eqn:F; [|auto].
    exfalso. apply negb_true_iff in H2. assert (X : existsb (fun e => key_eqb (fst e) k0) r = true); [|congruence].
    apply existsb_exists. exists (k', v). split; auto. simpl. eapply key_eqb_trans; eauto. rewrite key_eqb_sym. exact F.
Qed.

(* the pigeonhole: equal length + every left key found on the right => every right key found on the left,
   under the same left entry *)
Lemma map_pigeonhole (R : val -> val -> Prop) l r :
  keys_ok l = true -> keys_ok r = true -> List.length l = List.length r ->
  (forall k v, In (k, v) l -> exists v', map_find r k = Some v' /\ R v v') ->
  forall k' v', In (k', v') r -> exists v, map_find l k' = Some v /\ R v v'.
Proof.
  intros KL KR LEN H k' v' I.
  assert (INC : incl (nkeys l) (nkeys r)).
  { intros x X. unfold nkeys in X. apply in_map_iff in X. destruct X as ([k v] & E & X). simpl in E. subst x.
    destruct (H k v X) as (v1 & F & _). apply map_find_some in F. destruct F as (k1 & I1 & E1).
    apply key_eqb_iff in E1. destruct E1 as (_ & _ & E1). rewrite <- E1. unfold nkeys. apply in_map_iff. exists (k1, v1). auto. }
  assert (INC' : incl (nkeys r) (nkeys l)).
  { apply NoDup_length_incl; [apply keys_ok_nodup; exact KL | unfold nkeys; rewrite !map_length; lia | exact INC]. }
  assert (X : In (knorm k') (nkeys l)). { apply INC'. unfold nkeys. apply in_map_iff. exists (k', v'). auto. }
  unfold nkeys in X. apply in_map_iff in X. destruct X as ([k v] & E & X). simpl in E.
  assert (EK : key_eqb k k' = true).
  { apply key_eqb_iff. split; [exact (keys_ok_valid _ _ _ KL X)|]. split; [exact (keys_ok_valid _ _ _ KR I)|exact E]. }
  exists v. split. { eapply map_find_in; eauto. }
  destruct (H k v X) as (v1 & F & RR).
  assert (F' : map_find r k = Some v'). { eapply map_find_in; eauto. rewrite key_eqb_sym. exact EK. }
  rewrite F in F'. inversion F'; subst. exact RR.
Qed.
