(* Proofs/StrAnyMapSet.v - Set stores exactly at the path (refinement of the
   specification's [tset]), the specification's own frame and hit lemmas, and
   the invariants Set keeps. *)
From Coq Require Import ZArith NArith List String Ascii Bool Lia.
From Verif Require Import Util Ints StrAnyMap StrAnyMapSpec StrAnyMapAbs StrAnyMapNav.
Import ListNotations.
Local Open Scope string_scope.

(* ---------- association lists ---------- *)
Lemma upsert_abs k v es : abs_es (upsert k v es) = tupsert k (abs v) (abs_es es).
Proof.
  induction es as [|[k' v'] r IH]; simpl; auto.
  destruct (String.eqb k k'); simpl; auto. now rewrite IH.
Qed.

Lemma upsert_same k c es : lookup k es = Some c -> upsert k c es = es.
Proof.
  induction es as [|[k' v'] r IH]; simpl; [discriminate|].
  destruct (String.eqb_spec k k') as [->|Hne]; intros H.
  - now inversion H.
  - now rewrite IH.
Qed.

Lemma lookup_upsert_eq k v es : lookup k (upsert k v es) = Some v.
Proof.
  induction es as [|[k' v'] r IH]; simpl.
  - now rewrite String.eqb_refl.
  - destruct (String.eqb k k') eqn:E; simpl; [now rewrite String.eqb_refl|now rewrite E].
Qed.

Lemma tlookup_tupsert_eq k v es : tlookup k (tupsert k v es) = Some v.
Proof.
  induction es as [|[k' v'] r IH]; simpl.
  - now rewrite String.eqb_refl.
  - destruct (String.eqb k k') eqn:E; simpl; [now rewrite String.eqb_refl|now rewrite E].
Qed.

Lemma tlookup_tupsert_neq k k' v es : String.eqb k k' = false -> tlookup k' (tupsert k v es) = tlookup k' es.
Proof.
  intros Hne. assert (Hne' : String.eqb k' k = false) by (now rewrite String.eqb_sym).
  induction es as [|[k2 v2] r IH]; simpl.
  - now rewrite Hne'.
  - destruct (String.eqb k k2) eqn:E; simpl.
    + apply String.eqb_eq in E. subst k2. now rewrite Hne'.
    + destruct (String.eqb k' k2); auto.
Qed.

Lemma abs_bufferized v : abs (bufferized v) = stored (abs v).
Proof. destruct v; reflexivity. Qed.

(* ---------- nonil, settable ---------- *)
Definition nonil_es (es : entries) : bool := forallb (fun kv => nonil (snd kv)) es.

Lemma nonil_map o f es : nonil (AMap o f es) = nonil_es es.
Proof. simpl. induction es as [|[k v] r IH]; simpl; auto. now rewrite IH. Qed.

Definition settable_es (es : entries) : bool := forallb (fun kv => settable (snd kv)) es.

Lemma settable_map o f es : settable (AMap o f es) = settable_es es.
Proof. simpl. induction es as [|[k v] r IH]; simpl; auto. now rewrite IH. Qed.

(* no nil holder at all is the special case *)
Lemma nonil_settable : forall x, nonil x = true -> settable x = true.
Proof.
  induction x as [| | | | |o f es IH|nf] using any_ind'; try reflexivity; [|discriminate].
  rewrite nonil_map, settable_map. unfold nonil_es, settable_es.
  induction es as [|[k v] r IHr]; simpl; auto.
  inversion IH as [|? ? Hv Hr]; subst. simpl in Hv.
  intros H. apply andb_prop in H. destruct H as [H1 H2]. now rewrite (Hv H1), (IHr Hr H2).
Qed.

Lemma settable_lookup k es c : settable_es es = true -> lookup k es = Some c -> settable c = true.
Proof.
  induction es as [|[k' v] r IH]; simpl; [discriminate|].
  intros H. apply andb_prop in H. destruct H as [Hv Hr].
  destruct (String.eqb k k'); intros E; [now inversion E; subst|auto].
Qed.

Lemma settable_upsert k c es : settable_es es = true -> settable c = true -> settable_es (upsert k c es) = true.
Proof.
  intros Hes Hc. induction es as [|[k' v] r IH]; simpl in *.
  - now rewrite Hc.
  - apply andb_prop in Hes. destruct Hes as [Hv Hr].
    destruct (String.eqb k k'); simpl; [now rewrite Hc, Hr|now rewrite Hv, IH].
Qed.

Lemma settable_bufferized v : settable v = true -> settable (bufferized v) = true.
Proof. destruct v; auto. Qed.

(* a settable value is a map with entries, a pointer to a nil map, or a leaf *)
Lemma settable_cases x : settable x = true ->
  (exists o f es, x = AMap o f es /\ settable_es es = true) \/
  (exists nf, x = ANilMap nf /\ nil_storable nf = true) \/
  (indir1 true x = Err EUnsupported /\ exists l, abs x = TLeaf l).
Proof.
  destruct x; intros H; try (right; right; split; [reflexivity|eexists; reflexivity]).
  - left. rewrite settable_map in H. eauto.
  - right; left. eauto.
Qed.

(* ---------- Set refines tset ---------- *)
(* Set through a pointer to a nil map goes on with the map made for it; both
   sides of every statement below compute to the same terms *)
Lemma set_exact : forall p x v, settable x = true -> p <> [] ->
  match tset (abs x) p (stored (abs v)) with
  | SetOk t' => exists x', set true p x v = (x', Ok tt) /\ abs x' = t'
  | SetNonMap => set true p x v = (x, Err EUnsupported)
  end.
Proof.
  unfold set.
  induction p as [|k rest IH]; intros x v Hx Hne; [congruence|].
  assert (HM : forall o f es, settable_es es = true ->
    match tset (abs (AMap o f es)) (k :: rest) (stored (abs v)) with
    | SetOk t' => exists x', set_wb true (k :: rest) (AMap o f es) v = (x', Ok tt) /\ abs x' = t'
    | SetNonMap => set_wb true (k :: rest) (AMap o f es) v = (AMap o f es, Err EUnsupported)
    end).
  { intros o f es Hes.
    rewrite abs_map. cbn [tset]. rewrite tlookup_abs.
    cbn [set_wb indir1 with_entries].
    destruct (lookup k es) as [c|] eqn:Hlk; cbn [option_map].
    - destruct rest as [|k2 r2].
      + eexists. split; [reflexivity|]. now rewrite abs_map, upsert_abs, abs_bufferized.
      + assert (Hc : settable c = true) by (eapply settable_lookup; eauto).
        assert (Hr : k2 :: r2 <> []) by congruence.
        specialize (IH c v Hc Hr).
        destruct (tset (abs c) (k2 :: r2) (stored (abs v))) as [c''|].
        * destruct IH as [c' [E Hc']]. rewrite E.
          eexists. split; [reflexivity|]. now rewrite abs_map, upsert_abs, Hc'.
        * rewrite IH. now rewrite (upsert_same _ _ _ Hlk).
    - destruct rest as [|k2 r2].
      + eexists. split; [reflexivity|]. now rewrite abs_map, upsert_abs, abs_bufferized.
      + assert (Hr : k2 :: r2 <> []) by congruence.
        specialize (IH (AMap OMake FVal []) v eq_refl Hr).
        change (abs (AMap OMake FVal [])) with (TMap HVal []) in IH.
        cbn [tset tlookup tupsert] in IH.
        destruct IH as [c' [E Hc']]. rewrite E.
        eexists. split; [reflexivity|]. rewrite abs_map, upsert_abs, Hc'. reflexivity. }
  destruct (settable_cases x Hx) as [[o [f [es [-> Hes]]]]|[[nf [-> Hnf]]|[Hi [l Hl]]]].
  - now apply HM.
  - destruct nf; try discriminate.
    + exact (HM OMake FPtr [] eq_refl).
    + exact (HM OMake FPtr2 [] eq_refl).
  - rewrite Hl. simpl. now rewrite Hi.
Qed.

(* an error leaves the tree as it was; the only error is the unsupported type *)
Lemma set_error_unchanged : forall p x v e, settable x = true ->
  snd (set true p x v) = Err e -> e = EUnsupported /\ fst (set true p x v) = x.
Proof.
  intros p x v e Hx H.
  destruct p as [|k rest]; [simpl in H; discriminate|].
  pose proof (set_exact (k :: rest) x v Hx ltac:(congruence)) as S.
  destruct (tset (abs x) (k :: rest) (stored (abs v))).
  - destruct S as [x' [E _]]. rewrite E in H. discriminate.
  - rewrite S in *. simpl in *. inversion H. auto.
Qed.

(* reading back gives the stored copy itself: for a string or byte slice the
   value handed out by the buffer ([OBuf]), tight *)
Lemma set_then_get : forall p x v, settable x = true -> p <> [] ->
  snd (set true p x v) = Ok tt ->
  get true p (fst (set true p x v)) = Ok (Some (bufferized v)).
Proof.
  unfold set, get.
  induction p as [|k rest IH]; intros x v Hx Hne Hok; [congruence|].
  assert (HM : forall o f es, settable_es es = true ->
    snd (set_wb true (k :: rest) (AMap o f es) v) = Ok tt ->
    get_to true (k :: rest) (fst (set_wb true (k :: rest) (AMap o f es) v)) = Ok (Some (bufferized v))).
  { intros o f es Hes Hok'.
    cbn [set_wb indir1 with_entries] in *.
    destruct rest as [|k2 r2].
    - cbn [fst get_to indir indir1]. now rewrite lookup_upsert_eq.
    - set (c := match lookup k es with Some x => x | None => AMap OMake FVal [] end) in *.
      assert (Hc : settable c = true).
      { unfold c. destruct (lookup k es) eqn:E; [eapply settable_lookup; eauto|reflexivity]. }
      specialize (IH c v Hc ltac:(congruence)).
      destruct (set_wb true (k2 :: r2) c v) as [c' r] eqn:E.
      destruct r as [[]|e|pk]; cbn [fst snd] in *; try discriminate.
      cbn [get_to indir indir1]. rewrite lookup_upsert_eq. now apply IH. }
  destruct (settable_cases x Hx) as [[o [f [es [-> Hes]]]]|[[nf [-> Hnf]]|[Hi _]]].
  - now apply HM.
  - destruct nf; try discriminate.
    + exact (HM OMake FPtr [] eq_refl Hok).
    + exact (HM OMake FPtr2 [] eq_refl Hok).
  - simpl in Hok. rewrite Hi in Hok. discriminate.
Qed.

(* Set keeps the domain: what it makes is a map, what it stores is the value *)
Lemma set_settable : forall p x v, settable x = true -> settable v = true -> settable (fst (set true p x v)) = true.
Proof.
  unfold set.
  induction p as [|k rest IH]; intros x v Hx Hv; [assumption|].
  assert (HM : forall o f es, settable_es es = true ->
    settable (fst (set_wb true (k :: rest) (AMap o f es) v)) = true).
  { intros o f es Hes.
    cbn [set_wb indir1 with_entries].
    destruct rest as [|k2 r2].
    - cbn [fst]. rewrite settable_map. apply settable_upsert; auto. now apply settable_bufferized.
    - set (c := match lookup k es with Some x => x | None => AMap OMake FVal [] end).
      assert (Hc : settable c = true).
      { unfold c. destruct (lookup k es) eqn:E; [eapply settable_lookup; eauto|reflexivity]. }
      specialize (IH c v Hc Hv).
      destruct (set_wb true (k2 :: r2) c v) as [c' r] eqn:E. cbn [fst] in IH.
      destruct r as [[]|e|pk]; cbn [fst]; rewrite ?settable_map; auto; apply settable_upsert; auto. }
  destruct (settable_cases x Hx) as [[o [f [es [-> Hes]]]]|[[nf [-> Hnf]]|[Hi _]]].
  - now apply HM.
  - destruct nf; try discriminate.
    + exact (HM OMake FPtr [] eq_refl).
    + exact (HM OMake FPtr2 [] eq_refl).
  - simpl. now rewrite Hi.
Qed.

Lemma set_never_panics : forall p x v pk, snd (set true p x v) <> Panic pk.
Proof.
  unfold set.
  induction p as [|k rest IH]; intros x v pk; [simpl; discriminate|].
  cbn [set_wb].
  destruct (indir1 true x) as [m|e|q] eqn:Hi; cbn [snd]; try discriminate.
  - destruct (match m with Some _ => Some x | None => made true x end) as [d|]; cbn [snd]; [|discriminate].
    destruct rest as [|k2 r2]; [simpl; discriminate|].
    set (c := match lookup k (match m with Some es => es | None => [] end) with Some x => x | None => AMap OMake FVal [] end).
    specialize (IH c v).
    destruct (set_wb true (k2 :: r2) c v) as [c' r]. cbn [snd] in IH.
    destruct r as [[]|e|pk']; cbn [snd]; try discriminate. intros H. inversion H; subst. now apply (IH pk).
  - destruct x; simpl in Hi; try discriminate. destruct (nil_is_pointer nf); discriminate.
Qed.

(* ---------- the specification itself: Set hits the path and nothing off it ---------- *)
Lemma tnav_tchain rest v : tnav (tchain rest v) rest = NFound v.
Proof. induction rest as [|a r IH]; simpl; auto. now rewrite String.eqb_refl. Qed.

Lemma tset_hits : forall p t v t', tset t p v = SetOk t' -> tnav t' p = NFound v.
Proof.
  induction p as [|k rest IH]; intros t v t' H.
  - simpl in H. inversion H. reflexivity.
  - destruct t as [l|h es]; [discriminate|]. cbn [tset] in H.
    destruct (tlookup k es) as [c|] eqn:Hlk.
    + destruct rest as [|k2 r2].
      * inversion H. simpl. now rewrite tlookup_tupsert_eq.
      * destruct (tset c (k2 :: r2) v) as [c'|] eqn:E; [|discriminate].
        inversion H. cbn [tnav]. rewrite tlookup_tupsert_eq. eapply IH; eauto.
    + inversion H. cbn [tnav]. rewrite tlookup_tupsert_eq. apply tnav_tchain.
Qed.

Lemma tnav_tchain_off : forall rest v q, off_path rest q = true -> tnav (tchain rest v) q = NAbsent.
Proof.
  unfold off_path.
  induction rest as [|a r IH]; intros v q H; [discriminate|].
  destruct q as [|b q']; [simpl in H; try rewrite andb_false_r in H; discriminate|].
  cbn [tchain tnav tlookup]. cbn [is_prefix] in H.
  destruct (String.eqb b a) eqn:E.
  - rewrite String.eqb_sym, E in H. cbn [andb] in H. now apply IH.
  - reflexivity.
Qed.

Lemma tset_frame : forall p t v t' q, tset t p v = SetOk t' -> off_path p q = true -> tnav t' q = tnav t q.
Proof.
  unfold off_path.
  induction p as [|k rest IH]; intros t v t' q H Hoff; [discriminate|].
  destruct t as [l|h es]; [discriminate|].
  destruct q as [|k' q']; [simpl in Hoff; try rewrite andb_false_r in Hoff; discriminate|].
  cbn [tset] in H. cbn [is_prefix] in Hoff.
  destruct (String.eqb k k') eqn:Ek.
  - apply String.eqb_eq in Ek. subst k'. rewrite String.eqb_refl in Hoff. cbn [andb] in Hoff.
    destruct (tlookup k es) as [c|] eqn:Hlk.
    + destruct rest as [|k2 r2]; [discriminate|].
      destruct (tset c (k2 :: r2) v) as [c'|] eqn:E; [|discriminate].
      inversion H. cbn [tnav]. rewrite tlookup_tupsert_eq, Hlk. eapply IH; eauto.
    + inversion H. cbn [tnav]. rewrite tlookup_tupsert_eq, Hlk. now apply tnav_tchain_off.
  - assert (Hn : forall w, tnav (TMap h (tupsert k w es)) (k' :: q') = tnav (TMap h es) (k' :: q')).
    { intros w. cbn [tnav]. now rewrite (tlookup_tupsert_neq _ _ _ _ Ek). }
    destruct (tlookup k es) as [c|].
    + destruct rest as [|k2 r2]; [inversion H; apply Hn|].
      destruct (tset c (k2 :: r2) v) as [c'|]; [|discriminate]. inversion H. apply Hn.
    + inversion H. apply Hn.
Qed.

(* the same two facts about the model's result, through the refinement *)
Lemma set_frame_model : forall p x v q, settable x = true -> off_path p q = true ->
  tnav (abs (fst (set true p x v))) q = tnav (abs x) q.
Proof.
  intros p x v q Hx Hoff.
  destruct p as [|k rest]; [discriminate|].
  pose proof (set_exact (k :: rest) x v Hx ltac:(congruence)) as S.
  destruct (tset (abs x) (k :: rest) (stored (abs v))) as [t'|] eqn:E.
  - destruct S as [x' [Es Ha]]. rewrite Es. cbn [fst]. rewrite Ha. eapply tset_frame; eauto.
  - now rewrite S.
Qed.

(* ---------- keys stay pairwise distinct ---------- *)
Definition wf_es (es : entries) : bool := forallb (fun kv => wf (snd kv)) es.

Lemma wf_map o f es : wf (AMap o f es) = keys_nodup (map fst es) && wf_es es.
Proof. simpl. f_equal. induction es as [|[k v] r IH]; simpl; auto. now rewrite IH. Qed.

Lemma existsb_keys_upsert k k0 v es :
  existsb (String.eqb k0) (map fst (upsert k v es)) = existsb (String.eqb k0) (map fst es) || String.eqb k0 k.
Proof.
  induction es as [|[k' v'] r IH]; simpl.
  - now rewrite orb_false_r.
  - destruct (String.eqb k k') eqn:E; simpl.
    + apply String.eqb_eq in E. subst k'.
      destruct (String.eqb k0 k); simpl; auto. now rewrite orb_false_r.
    + rewrite IH. now rewrite orb_assoc.
Qed.

Lemma keys_nodup_upsert k v es : keys_nodup (map fst es) = true -> keys_nodup (map fst (upsert k v es)) = true.
Proof.
  induction es as [|[k' v'] r IH]; simpl; auto.
  intros H. apply andb_prop in H. destruct H as [Hn Hr].
  destruct (String.eqb k k') eqn:E; simpl.
  - apply String.eqb_eq in E. subst k'. now rewrite Hn, Hr.
  - rewrite existsb_keys_upsert. rewrite IH by assumption.
    apply negb_true_iff in Hn. rewrite Hn. simpl. rewrite String.eqb_sym, E. reflexivity.
Qed.

Lemma wf_es_upsert k c es : wf_es es = true -> wf c = true -> wf_es (upsert k c es) = true.
Proof.
  intros Hes Hc. induction es as [|[k' v] r IH]; simpl in *.
  - now rewrite Hc.
  - apply andb_prop in Hes. destruct Hes as [Hv Hr].
    destruct (String.eqb k k'); simpl; [now rewrite Hc, Hr|now rewrite Hv, IH].
Qed.

Lemma wf_lookup k es c : wf_es es = true -> lookup k es = Some c -> wf c = true.
Proof.
  induction es as [|[k' v] r IH]; simpl; [discriminate|].
  intros H. apply andb_prop in H. destruct H as [Hv Hr].
  destruct (String.eqb k k'); intros E; [now inversion E; subst|auto].
Qed.

Lemma wf_bufferized v : wf v = true -> wf (bufferized v) = true.
Proof. destruct v; auto. Qed.

Lemma set_wf : forall p x v, wf x = true -> wf v = true -> wf (fst (set true p x v)) = true.
Proof.
  unfold set.
  induction p as [|k rest IH]; intros x v Hx Hv; [assumption|].
  assert (HM : forall o f es, wf (AMap o f es) = true ->
    wf (fst (set_wb true (k :: rest) (AMap o f es) v)) = true).
  { intros o f es Hm.
    cbn [set_wb indir1 with_entries].
    rewrite wf_map in Hm. apply andb_prop in Hm. destruct Hm as [Hk Hes].
    destruct rest as [|k2 r2].
    - cbn [fst]. rewrite wf_map, keys_nodup_upsert, wf_es_upsert; auto. now apply wf_bufferized.
    - set (c := match lookup k es with Some x => x | None => AMap OMake FVal [] end).
      assert (Hc : wf c = true).
      { unfold c. destruct (lookup k es) eqn:E; [eapply wf_lookup; eauto|reflexivity]. }
      specialize (IH c v Hc Hv).
      destruct (set_wb true (k2 :: r2) c v) as [c' r] eqn:E. cbn [fst] in IH.
      destruct r as [[]|e|pk]; cbn [fst]; rewrite ?wf_map, ?keys_nodup_upsert, ?wf_es_upsert; auto.
      now rewrite Hk, Hes. }
  destruct x; try (simpl; assumption).
  - now apply HM.
  - destruct nf; try (simpl; assumption).
    + exact (HM OMake FPtr [] eq_refl).
    + exact (HM OMake FPtr2 [] eq_refl).
Qed.
