(* Proofs/DeqSym.v - DeepEqual gives the same answer in both argument orders, for every pair. *)
From Coq Require Import List Bool String Ascii ZArith Arith Lia Floats.SpecFloat Permutation.
From Verif Require Import Util Ints Strconv Floats Node Value Outcome Deq DeqSpec DeqKeys DeqPaths DeqSound.
Import ListNotations.
Local Open Scope string_scope.

Lemma forallb2_sym {A} (f g : A -> A -> bool) l m :
  (forall a b, In a l -> In b m -> f a b = g b a) -> forallb2 f l m = forallb2 g m l.
Proof.
  revert m; induction l as [|x r IH]; intros [|y s] H; simpl in *; auto.
  rewrite H by auto. f_equal. apply IH. auto.
Qed.

Lemma bytes_eqb_sym d e : bytes_eqb d e = bytes_eqb e d.
Proof. unfold bytes_eqb. apply forallb2_sym. intros. apply Ascii.eqb_sym. Qed.

Lemma bool_eq_of_impl (a b : bool) : (a = true -> b = true) -> (b = true -> a = true) -> a = b.
Proof. destruct a, b; auto; intros H1 H2; try (symmetry; auto); auto. Qed.

Section Sym.
Variables (sh : bool) (o : option deqopts).

Definition Py (n : node) : Prop := forall par path depth l r,
  kok l = true -> kok r = true -> deq sh o n par path depth l r = deq sh o n par path depth r l.

Lemma fields_sym chld : Forall Py chld ->
  forall q depth fs gs, forallb kok fs = true -> forallb kok gs = true ->
  deq_fields (fun ch f g => deq sh o ch (Some typeStruct) q depth f g) chld fs gs =
  deq_fields (fun ch f g => deq sh o ch (Some typeStruct) q depth f g) chld gs fs.
Proof.
  induction 1 as [|c cr HC HR IH]; intros q depth fs gs KF KG; [reflexivity|].
  cbn [deq_fields]. destruct fs as [|f fr], gs as [|g gr]; try reflexivity.
  cbn [forallb] in KF, KG. apply andb_true_iff in KF. destruct KF as (Kf & KF). apply andb_true_iff in KG. destruct KG as (Kg & KG).
  rewrite (HC (Some typeStruct) q depth f g Kf Kg). f_equal. apply IH; auto.
Qed.

Lemma entries_half (rec rec' : val -> val -> bool) lk rk :
  keys_ok lk = true -> keys_ok rk = true -> List.length lk = List.length rk ->
  (forall k v k' v', In (k, v) lk -> In (k', v') rk -> rec v v' = rec' v' v) ->
  deq_entries rec lk rk = true -> deq_entries rec' rk lk = true.
Proof.
  intros KL KR LEN RS H. unfold deq_entries in *. apply forallb_forall. intros [k' v'] IK. cbn [fst snd].
  destruct (map_pigeonhole (fun v v' => rec v v' = true) lk rk KL KR LEN) with (k' := k') (v' := v') as (v & F & D); auto.
  - intros k v I. pose proof (forallb_In _ _ _ H I) as X. cbv beta in X. cbn [fst snd] in X.
    destruct (map_find rk k) as [v1|]; [|discriminate]. eauto.
  - rewrite F. apply map_find_some in F. destruct F as (k1 & I1 & _). rewrite <- (RS k1 v k' v' I1 IK). exact D.
Qed.

Theorem deq_sym : forall n, Py n.
Proof.
  induction n as [ty tn tu nm pk pki p chld mk mv sl hb hc IHc IHk IHv IHs] using node_ind'.
  intros par path depth.
  assert (NP : forall l r, kok l = true -> kok r = true ->
            deq sh o (Node ty tn tu nm pk pki false chld mk mv sl hb hc) par path depth l r =
            deq sh o (Node ty tn tu nm pk pki false chld mk mv sl hb hc) par path depth r l).
  { intros l r KL KR. cbn [deq].
    match goal with |- (if ?c then true else _) = _ => destruct c; [reflexivity|] end.
    destruct ty.
    - destruct l as [| | | | |fs| | |], r as [| | | | |gs| | |]; try reflexivity.
      cbn [kok] in KL, KR. apply fields_sym; auto.
    - destruct l as [| | | | | | |ln lk|], r as [| | | | | | |rn rk|]; try reflexivity.
      destruct mk as [kn|]; [|reflexivity]. destruct mv as [vn|]; [|reflexivity].
      cbn [kok] in KL, KR. apply andb_true_iff in KL. destruct KL as (KOL & KL). apply andb_true_iff in KR. destruct KR as (KOR & KR).
      rewrite (Nat.eqb_sym (List.length rk)). destruct (Nat.eqb (List.length lk) (List.length rk)) eqn:LEN; [|reflexivity].
      cbn [andb]. apply Nat.eqb_eq in LEN.
      assert (RS : forall k v k' v', In (k, v) lk -> In (k', v') rk ->
                   deq sh o vn (Some typeMap) (deq_path path nm depth) (S depth) v v' =
                   deq sh o vn (Some typeMap) (deq_path path nm depth) (S depth) v' v).
      { intros k v k' v' I I'. apply (IHv vn eq_refl).
        - apply (forallb_In _ _ _ KL I). - apply (forallb_In _ _ _ KR I'). }
      destruct (n_ptr kn).
      + unfold deq_entries_ptr. destruct sh.
        * apply forallb2_sym. intros [k v] [k' v'] I I'. cbn [snd]. eapply RS; eauto.
        * destruct lk, rk; try reflexivity; discriminate.
      + destruct lk as [|e0 lk0] eqn:ELK.
        { destruct rk; [reflexivity|discriminate]. }
        rewrite <- ELK in *. assert (NEL : lk <> []) by (rewrite ELK; discriminate). clear ELK e0 lk0.
        assert (NER : rk <> []) by (destruct rk; [destruct lk; [congruence|discriminate]|discriminate]).
        apply orb_true_iff in KOL. destruct KOL as [KOL|KOL];
          [|rewrite (entries_allptr_l _ lk rk KOL NEL), (entries_allptr_r _ rk lk KOL NER); reflexivity].
        apply orb_true_iff in KOR. destruct KOR as [KOR|KOR];
          [|rewrite (entries_allptr_r _ lk rk KOR NEL), (entries_allptr_l _ rk lk KOR NER); reflexivity].
        apply bool_eq_of_impl.
        * apply entries_half; auto.
        * apply entries_half; auto. intros k v k' v' I I'. symmetry. eapply RS; eauto.
    - destruct (String.eqb tn "[]byte").
      + destruct l as [| | | |ln d e| | | |], r as [| | | |rn d' e'| | | |]; try reflexivity.
        rewrite bytes_eqb_sym. reflexivity.
      + destruct l as [| | | | | |ln le ex| |], r as [| | | | | |rn re ex'| |]; try reflexivity.
        destruct sl as [en|]; [|reflexivity].
        rewrite (Nat.eqb_sym (List.length re)). f_equal. cbn [kok] in KL, KR.
        apply forallb2_sym. intros a b IA IB. apply (IHs en eq_refl).
        * apply (forallb_In _ _ _ KL IA). * apply (forallb_In _ _ _ KR IB).
    - assert (G : go_eqb l r = go_eqb r l) by apply key_eqb_sym.
      destruct (par_struct par); [|exact G]. f_equal.
      destruct (is_float_name tu); [|exact G].
      destruct l as [| |fa| | | | | |], r as [| |fb| | | | | |]; try exact G.
      unfold equal_float. apply equal_float64_sym. }
  destruct p; [|exact NP].
  intros l r KL KR.
  destruct l as [| | | | | | | |[x|]], r as [| | | | | | | |[y|]]; try reflexivity.
  exact (NP x y KL KR).
Qed.
End Sym.
