(* Proofs/SetSound.v - the emitted Set code (Model/SetEmit.v) meets the frame relation of
   Spec/SetSpec.v, exactly at the end of the path, for every well-formed node of the sound
   fragment, every well-typed value, every path and every assigned value; no panic. *)
From Coq Require Import List Bool String Ascii ZArith Arith Lia Floats.SpecFloat.
From Verif Require Import Util Ints Strconv Floats Node Value Outcome Nav LC LCSound SetEmit SetSpec.
Import ListNotations.
Local Open Scope string_scope.
Local Open Scope list_scope.

(* ---------- the sound fragment ---------- *)
Fixpoint sound_set (n : node) {struct n} : bool :=
  match n with
  | Node ty tn tu nm pk pki p chld mk mv sl hb hc =>
    match ty with
    | typeBasic => true
    | typeStruct => forallb sound_set chld
    | typeMap =>
      match mk, mv with
      | Some kn, Some vn =>
        sound_set vn && negb (is_bytes_node vn)
      | _, _ => false
      end
    | typeSlice =>
      String.eqb tn "[]byte" ||
      match sl with
      | Some en =>
        sound_set en && negb (is_bytes_node en) &&
        negb ((match n_typ en with typeMap => true | _ => false end) && negb (n_ptr en)) &&
        (negb (is_builtin (n_typn en) && negb (n_ptr en)) || match n_typ en with typeBasic => true | _ => false end)
      | None => false
      end
    end
  end.

(* what the model does to the element the path ends at *)
Definition E_end (s : src) (buf : bool) (en : node) (ev ev' : val) : bool :=
  if is_leaf_node en then val_eqb ev' (leaf_store en s buf ev)
  else val_eqb ev' ev || val_eqb ev' (nil_chk en ev).

(* ---------- equality ---------- *)
Lemma val_eqb_refl : forall v, val_eqb v v = true.
Proof.
  induction v using val_ind'; simpl; auto.
  - destruct b; reflexivity.
  - apply Z.eqb_refl.
  - apply String.eqb_refl.
  - apply String.eqb_refl.
  - rewrite Bool.eqb_reflx, String.eqb_refl, Nat.eqb_refl. reflexivity.
  - induction H as [|x r Hx Hr IH]; [reflexivity|]. rewrite Hx. exact IH.
  - rewrite Bool.eqb_reflx, Nat.eqb_refl. simpl.
    induction H as [|x r Hx Hr IH]; [reflexivity|]. rewrite Hx. exact IH.
  - rewrite Bool.eqb_reflx. simpl.
    induction H as [|[k x] r Hx Hr IH]; [reflexivity|]. simpl in Hx. destruct Hx as (Hk & Hv). rewrite Hk, Hv. exact IH.
Qed.

Lemma kvs_eqb_refl l : kvs_eqb l l = true.
Proof. apply (val_eqb_refl (VMap false l)). Qed.

Lemma keep_shared_same : forall n x, keep_shared n x x = x.
Proof.
  intros n. induction n using node_ind'. intros x. cbn [keep_shared].
  destruct p; [destruct (is_nil_val x); reflexivity|].
  destruct ty.
  - destruct x as [| | | | |fs| | |]; try reflexivity. f_equal.
    revert fs. induction H as [|c r Hc Hr IH]; intros fs; [destruct fs; reflexivity|].
    destruct fs as [|f fr]; [reflexivity|]. rewrite Hc. f_equal. apply IH.
  - destruct (is_nil_val x); reflexivity.
  - destruct (String.eqb tn "[]byte"); [reflexivity|]. destruct x; try reflexivity. destruct es; reflexivity.
  - reflexivity.
Qed.

(* what survives of a copy of a struct of which one field was rewritten *)
Lemma keep_shared_upd tn tu nm pk pki chld mk mv sl hb hc fs j ch f y :
  nth_error chld j = Some ch -> nth_error fs j = Some f ->
  keep_shared (Node typeStruct tn tu nm pk pki false chld mk mv sl hb hc) (VStruct fs) (VStruct (upd_nth j y fs)) =
  VStruct (upd_nth j (keep_shared ch f y) fs).
Proof.
  intros NC NF. cbn [keep_shared]. f_equal.
  revert fs j NC NF. induction chld as [|c r IH]; intros fs j NC NF; [destruct j; discriminate|].
  destruct fs as [|x fr]; [destruct j; discriminate|].
  destruct j as [|j]; simpl in NC, NF.
  - inversion NC; inversion NF; subst. cbn [upd_nth]. f_equal.
    clear IH. revert fr. induction r as [|c' r' IH']; intros fr; [destruct fr; reflexivity|].
    destruct fr as [|z fr']; [reflexivity|]. rewrite keep_shared_same. f_equal. apply IH'.
  - cbn [upd_nth]. rewrite keep_shared_same. f_equal. apply IH; assumption.
Qed.

Lemma creates_false ch f : creates ch f = false -> nil_chk ch f = f.
Proof.
  unfold creates, nil_chk. destruct (n_ptr ch).
  - destruct f as [b|z|f0|s0|nb d e|fs|ns es ex|nm kvs|[y|]]; try reflexivity. discriminate.
  - destruct (n_typ ch); destruct f as [b|z|f0|s0|nb d e|fs|[|] es ex|[|] kvs|o]; try reflexivity; discriminate.
Qed.

(* ---------- struct fields ---------- *)
Lemma upd_nth_same {A} (l : list A) j x : nth_error l j = Some x -> upd_nth j x l = l.
Proof.
  revert j; induction l as [|y r IH]; intros [|j] H; simpl in *; try discriminate; auto.
  - inversion H; reflexivity.
  - f_equal. apply IH. exact H.
Qed.

Lemma fields_off_none rec seg : forall chs idx a,
  find_idx seg chs idx = None -> List.length a = List.length chs -> fields_off rec seg chs a a = true.
Proof.
  induction chs as [|c r IH]; intros idx a F L; destruct a as [|x ar]; simpl in *; try discriminate; auto.
  destruct (String.eqb (n_name c) seg); [discriminate|]. rewrite val_eqb_refl. simpl. apply (IH (S idx)); auto.
Qed.

Lemma fields_off_upd rec seg : forall chs idx a ch j x y,
  names_nodup chs = true -> find_idx seg chs idx = Some (ch, j) -> nth_error a (j - idx) = Some x ->
  List.length a = List.length chs ->
  fields_off rec seg chs a (upd_nth (j - idx) y a) = rec ch x y.
Proof.
  induction chs as [|c r IH]; intros idx a ch j x y ND F NA L; [discriminate|].
  destruct a as [|x0 ar]; [discriminate|]. cbn [find_idx] in F. cbn [fields_off].
  destruct (String.eqb (n_name c) seg) eqn:E.
  - inversion F; subst. rewrite Nat.sub_diag in *. simpl in NA. inversion NA; subst. simpl.
    rewrite (fields_off_none rec seg r (S j) ar); [apply andb_true_r| |simpl in L; lia].
    eapply find_idx_none_later; eauto.
  - destruct (find_idx_in _ _ _ _ _ F) as (_ & _ & LEj & _).
    replace (j - idx) with (S (j - S idx)) in * by lia. simpl in NA. simpl. rewrite val_eqb_refl. simpl.
    simpl in ND. apply andb_true_iff in ND. destruct ND as (_ & ND).
    apply IH; auto; simpl in L; lia.
Qed.

(* the set-mode field walk, through the first child with the name *)
Definition child_set (lg : bool) (rec : node -> val -> sres) (leaf : node -> val -> val) (wbk : bool) (ch : node) (j : nat) (fs : list val) : sres :=
  match nth_error fs j with
  | None => SPanic PTypeAssert
  | Some f =>
    if is_leaf_child ch then
      if n_ptr ch && is_nil_val f then SRet (VStruct fs) false None
      else SRet (VStruct (upd_nth j (leaf ch f) fs)) wbk None
    else
      match rec ch (nil_chk ch f) with
      | SFall f2 => SFall (VStruct (upd_nth j f2 fs))
      | SRet f2 wb e => SRet (VStruct (upd_nth j f2 fs)) (negb lg && (wb || (wbk && creates ch f))) e
      | SPanic k => SPanic k
      end
  end.

Lemma set_walk_nomatch lg rec leaf wbk seg : forall chs idx fs,
  find_idx seg chs idx = None -> set_walk lg rec leaf wbk seg chs idx fs = SFall (VStruct fs).
Proof.
  induction chs as [|c r IH]; intros idx fs F; [reflexivity|]. cbn [set_walk]. cbn [find_idx] in F.
  destruct (String.eqb (n_name c) seg) eqn:E; [discriminate|]. rewrite String.eqb_sym, E. apply IH; exact F.
Qed.

Lemma set_walk_find lg rec leaf wbk seg : forall chs idx fs,
  names_nodup chs = true ->
  set_walk lg rec leaf wbk seg chs idx fs =
  match find_idx seg chs idx with
  | None => SFall (VStruct fs)
  | Some (ch, j) => child_set lg rec leaf wbk ch j fs
  end.
Proof.
  induction chs as [|c r IH]; intros idx fs ND; [reflexivity|]. cbn [set_walk find_idx].
  destruct (String.eqb (n_name c) seg) eqn:E.
  - rewrite String.eqb_sym, E. unfold child_set.
    pose proof (find_idx_none_later _ _ _ (S idx) ND E) as NL.
    destruct (nth_error fs idx) as [f|]; [|reflexivity].
    destruct (is_leaf_child c); [reflexivity|].
    destruct (rec c (nil_chk c f)); try reflexivity. apply set_walk_nomatch; exact NL.
  - rewrite String.eqb_sym, E. simpl in ND. apply andb_true_iff in ND. apply IH; tauto.
Qed.

(* ---------- slice elements ---------- *)
Lemma elems_off_refl rec : forall a i, elems_off rec None i a a = true.
Proof. induction a as [|x r IH]; intros i; simpl; auto. rewrite val_eqb_refl. apply IH. Qed.

Lemma elems_off_upd rec : forall a i t x y,
  nth_error a t = Some x ->
  elems_off rec (Some (i + t)) i a (upd_nth t y a) = rec x y.
Proof.
  induction a as [|x0 r IH]; intros i t x y N; [destruct t; discriminate|].
  destruct t as [|t]; simpl in *.
  - inversion N; subst. rewrite Nat.add_0_r, Nat.eqb_refl.
    assert (G : forall l k, i < k -> elems_off rec (Some i) k l l = true).
    { induction l as [|z l IHl]; intros k Hk; simpl; auto.
      replace (Nat.eqb k i) with false by (symmetry; apply Nat.eqb_neq; lia). rewrite val_eqb_refl. apply IHl; lia. }
    rewrite G by lia. apply andb_true_r.
  - replace (Nat.eqb i (i + S t)) with false by (symmetry; apply Nat.eqb_neq; lia). rewrite val_eqb_refl. simpl.
    replace (i + S t) with (S i + t) by lia. apply IH; exact N.
Qed.

Lemma elems_off_same_target rec : forall a i t x,
  nth_error a t = Some x -> elems_off rec (Some (i + t)) i a a = rec x x.
Proof.
  intros a i t x N. rewrite <- (upd_nth_same a t x N) at 2. apply elems_off_upd; exact N.
Qed.

(* ---------- map entries ---------- *)
Definition is_keyval (k : val) : Prop :=
  match k with VInt _ | VStr _ | VBool _ | VFloat _ => True | _ => False end.

Lemma conv_key_kind kn seg k : conv_key kn seg = Some k -> is_keyval k.
Proof.
  unfold conv_key. destruct (node_skind kn) as [[| i | | | |]|]; try discriminate.
  - destruct (parse_bool seg); simpl; intros H; inversion H; exact I.
  - destruct (is_signed i); [destruct (snippet_int i seg)|destruct (snippet_uint i seg)]; simpl; intros H; inversion H; exact I.
  - destruct (parse_float seg); simpl; intros H; inversion H; exact I.
  - destruct (parse_float seg); simpl; intros H; inversion H; exact I.
  - intros H; inversion H; exact I.
Qed.

Lemma SFeqb_nan_r a : SFeqb a S754_nan = false.
Proof. destruct a; reflexivity. Qed.

Lemma SFcompare_refl_finite s m e : SFcompare (S754_finite s m e) (S754_finite s m e) = Some Eq.
Proof.
  simpl. destruct s; rewrite Z.compare_refl, Pos.compare_refl; reflexivity.
Qed.

Lemma key_same_refl k : is_keyval k -> key_same k k = true.
Proof.
  destruct k; simpl; try contradiction; intros _; unfold key_same; simpl.
  - destruct b; reflexivity.
  - rewrite Z.eqb_refl. reflexivity.
  - destruct f as [s|s| |s m e]; try (destruct s; reflexivity); try reflexivity.
    unfold f64_eqb, SFeqb. rewrite SFcompare_refl_finite. reflexivity.
  - rewrite String.eqb_refl. reflexivity.
Qed.

(* a key either equals itself or (NaN) equals nothing *)
Lemma key_eqb_dich k : is_keyval k -> key_eqb k k = true \/ (forall k', key_eqb k' k = false).
Proof.
  destruct k; simpl; try contradiction; intros _.
  - left. destruct b; reflexivity.
  - left. apply Z.eqb_refl.
  - destruct f as [s|s| |s m e].
    + left. destruct s; reflexivity.
    + left. destruct s; reflexivity.
    + right. intros k'. destruct k'; try reflexivity. apply SFeqb_nan_r.
    + left. unfold f64_eqb, SFeqb. rewrite SFcompare_refl_finite. reflexivity.
  - left. apply String.eqb_refl.
Qed.

Lemma key_eqb_same a b : key_eqb a b = true -> key_same a b = true.
Proof. unfold key_same. intros ->. reflexivity. Qed.

Definition offk (kn : node) (k : val) (kv : val * val) : bool := negb (key_match kn k (fst kv)).

Lemma filter_kvs_put kn k e : n_ptr kn = false -> key_same k k = true -> forall kvs,
  filter (offk kn k) (kvs_put kvs k e) = filter (offk kn k) kvs.
Proof.
  intros P R. induction kvs as [|[k' x] r IH]; simpl.
  - unfold offk, key_match. rewrite P. simpl. rewrite R. reflexivity.
  - destruct (key_eqb k' k) eqn:E.
    + simpl. unfold offk, key_match. rewrite P. simpl. rewrite (key_eqb_same _ _ E). reflexivity.
    + simpl. rewrite IH. reflexivity.
Qed.

Lemma filter_map_put kn k e kvs : key_same k k = true ->
  filter (offk kn k) (map_put kn kvs k e) = filter (offk kn k) kvs.
Proof.
  intros R. unfold map_put. destruct (n_ptr kn) eqn:P.
  - rewrite filter_app. simpl. unfold offk at 2, key_match. rewrite P. simpl. rewrite R. simpl. apply app_nil_r.
  - apply filter_kvs_put; auto.
Qed.

Lemma map_find_put kvs k e : key_eqb k k = true -> map_find (kvs_put kvs k e) k = Some e.
Proof.
  intros R. induction kvs as [|[k' x] r IH]; simpl; [rewrite R; reflexivity|].
  destruct (key_eqb k' k) eqn:E; simpl; rewrite E; auto.
Qed.

Lemma map_find_nokey kvs k : (forall k', key_eqb k' k = false) -> map_find kvs k = None.
Proof. intros N. induction kvs as [|[k' x] r IH]; simpl; auto. rewrite N. exact IH. Qed.

(* ---------- the nil check of containers on the path ---------- *)
Lemma nil_chk_idem ch f : nil_chk ch (nil_chk ch f) = nil_chk ch f.
Proof.
  unfold nil_chk. destruct (n_ptr ch).
  - destruct f as [b|z|f0|s0|nb d e|fs|ns es ex|nm kvs|[y|]]; reflexivity.
  - destruct (n_typ ch); destruct f as [b|z|f0|s0|nb d e|fs|[|] es ex|[|] kvs|o]; reflexivity.
Qed.

Section Core.
Variables (s : src) (buf : bool).
Let E := E_end s buf.

Lemma offb_map_nil_mono tn tu nm pk pki chld mk mv sl hb hc seg rest kvs y :
  offb E (Node typeMap tn tu nm pk pki false chld mk mv sl hb hc) (seg :: rest) (VMap false kvs) y = true ->
  offb E (Node typeMap tn tu nm pk pki false chld mk mv sl hb hc) (seg :: rest) (VMap true kvs) y = true.
Proof.
  cbn [offb]. destruct y; try discriminate. destruct mk, mv; try discriminate.
  intros H. apply andb_true_iff in H. destruct H as (_ & B). rewrite B, orb_true_r. reflexivity.
Qed.

Lemma offb_slice_nil_mono tn tu nm pk pki chld mk mv sl hb hc seg rest es ex ex' y :
  offb E (Node typeSlice tn tu nm pk pki false chld mk mv sl hb hc) (seg :: rest) (VSlice false es ex) y = true ->
  offb E (Node typeSlice tn tu nm pk pki false chld mk mv sl hb hc) (seg :: rest) (VSlice true es ex') y = true.
Proof.
  cbn [offb]. destruct (String.eqb tn "[]byte"); [reflexivity|].
  destruct y; try discriminate. destruct sl; try discriminate.
  intros H. apply andb_true_iff in H. destruct H as (_ & B). rewrite B, orb_true_r. reflexivity.
Qed.

Lemma offb_nil_chk ch r f y : is_leaf_node ch = false ->
  offb E ch r (nil_chk ch f) y = true -> offb E ch r f y = true.
Proof.
  intros NL H. destruct ch as [ty tn tu nm pk pki p chld mk mv sl hb hc].
  destruct r as [|seg rest].
  - cbn [offb] in *. unfold E, E_end in *. rewrite NL in *. rewrite nil_chk_idem in H.
    rewrite orb_diag in H. rewrite H. apply orb_true_r.
  - unfold nil_chk in H. cbn [n_ptr n_typ] in H. destruct p.
    + destruct f as [b|z|f0|s0|nb d e|fs|ns es ex|nmm kvs|[x|]]; try exact H.
      cbn [offb] in *. destruct y as [b|z|f0|s0|nb d e|fs|ns es ex|nmm kvs|[x'|]]; try discriminate; try reflexivity.
      destruct ty.
      * exact H.
      * change (offb E (Node typeMap tn tu nm pk pki false chld mk mv sl hb hc) (seg :: rest) (VMap true []) x' = true).
        apply offb_map_nil_mono. exact H.
      * cbn [created_inner n_typ zero_val] in *. destruct (String.eqb tn "[]byte") eqn:BY; [reflexivity|].
        destruct x'; try discriminate. destruct sl; try discriminate.
        apply andb_true_iff in H. destruct H as (_ & B). rewrite B, orb_true_r. reflexivity.
      * reflexivity.
    + destruct ty; try exact H.
      * destruct f as [b|z|f0|s0|nb d e|fs|ns es ex|[|] kvs|o]; try exact H. apply offb_map_nil_mono. exact H.
      * destruct f as [b|z|f0|s0|nb d e|fs|[|] es ex|nmm kvs|o]; try exact H. eapply offb_slice_nil_mono. exact H.
Qed.

Lemma wtb_nil_chk ch f : wfn ch = true -> is_leaf_node ch = false -> wtb ch f = true -> wtb ch (nil_chk ch f) = true.
Proof.
  intros W NL WT. destruct ch as [ty tn tu nm pk pki p chld mk mv sl hb hc].
  unfold nil_chk. cbn [n_ptr n_typ]. destruct p.
  - destruct f as [b|z|f0|s0|nb d e|fs|ns es ex|nmm kvs|[x|]]; try exact WT.
    cbn [wtb]. unfold created_inner. cbn [n_typ set_ptr]. destruct ty.
    + pose proof (wtb_zero (Node typeStruct tn tu nm pk pki false chld mk mv sl hb hc) W) as Z. cbn [wtb zero_val] in Z. exact Z.
    + cbn [wfn] in W. apply andb_true_iff in W. destruct W as (_ & W). destruct mk, mv; try discriminate. reflexivity.
    + unfold is_leaf_node, is_bytes_node in NL. cbn [n_typ n_typn] in NL. rewrite NL.
      cbn [wfn] in W. apply andb_true_iff in W. destruct W as (_ & W). rewrite NL in W. destruct sl; [reflexivity|discriminate].
    + discriminate NL.
  - destruct ty; try exact WT.
    + destruct f as [b|z|f0|s0|nb d e|fs|ns es ex|[|] kvs|o]; exact WT.
    + destruct f as [b|z|f0|s0|nb d e|fs|[|] es ex|nmm kvs|o]; try exact WT.
Qed.

Lemma nil_chk_nonnil ch f : n_typ ch = typeMap -> n_ptr ch = false -> wtb ch f = true -> is_nil_val (nil_chk ch f) = false.
Proof.
  destruct ch as [ty tn tu nm pk pki p chld mk mv sl hb hc]. cbn [n_typ n_ptr]. intros -> -> WT.
  unfold nil_chk. cbn [n_ptr n_typ]. cbn [wtb] in WT.
  destruct f as [b|z|f0|s0|nb d e|fs|ns es ex|[|] kvs|o]; try discriminate; reflexivity.
Qed.

(* ---------- leaves ---------- *)
Lemma offb_nilptr ch r : n_ptr ch = true -> offb E ch r (VPtr None) (VPtr None) = true.
Proof.
  destruct ch as [ty tn tu nm pk pki p chld mk mv sl hb hc]. cbn [n_ptr]. intros ->.
  destruct r; cbn [offb]; [|reflexivity].
  unfold E, E_end. destruct (is_leaf_node _); [reflexivity|reflexivity].
Qed.

Lemma offb_leaf ch r f : is_leaf_node ch = true -> wtb ch f = true -> offb E ch r f (leaf_store ch s buf f) = true.
Proof.
  intros L WT. destruct ch as [ty tn tu nm pk pki p chld mk mv sl hb hc].
  destruct r as [|seg rest].
  - cbn [offb]. unfold E, E_end. rewrite L. apply val_eqb_refl.
  - unfold leaf_store. cbn [n_ptr]. cbn [offb]. unfold is_leaf_node, is_bytes_node in L. cbn [n_typ n_typn] in L.
    assert (IN : forall x x', match ty with
                 | typeStruct => match x, x' with VStruct a, VStruct b => false | _, _ => false end
                 | typeMap => false
                 | typeSlice => if String.eqb tn "[]byte" then true else false
                 | typeBasic => true end = true).
    { intros x x'. destruct ty; try discriminate; [rewrite L|]; reflexivity. }
    destruct ty; try discriminate.
    + rewrite L. destruct p; [|reflexivity]. cbn [wtb] in WT. destruct f as [b|z|f0|s0|nb d e|fs|ns es ex|nmm kvs|[x|]]; try discriminate; reflexivity.
    + destruct p; [|reflexivity]. cbn [wtb] in WT. destruct f as [b|z|f0|s0|nb d e|fs|ns es ex|nmm kvs|[x|]]; try discriminate; reflexivity.
Qed.

(* ---------- what a block of emitted code must achieve ----------
   cp: the variable of the node is, or lies in, a COPY of a map entry (what is written to it
   directly reaches the map only through a store-back); w: the flag the model threads (a
   store-back is pending).  A block that returns without having stored the copy back (wb = false)
   has changed nothing in it directly: what survives the copy is all there is. *)
Definition good (n : node) (cp : bool) (rest : list string) (v : val) (r : sres) : Prop :=
  match r with
  | SPanic _ => False
  | SFall v' => offb E n rest v v' = true
  | SRet v' wb e => offb E n rest v v' = true /\ (wb = false -> cp = true -> keep_shared n v v' = v') /\
                    (n_typ n = typeBasic -> n_ptr n = true)
  end.

Definition pre (n : node) (cp w : bool) (depth : nat) (v : val) : Prop :=
  (n_typ n = typeSlice -> is_bytes_node n = false) /\
  (n_typ n = typeMap -> n_ptr n = false -> depth <> 0 -> is_nil_val v = false) /\
  (cp = true -> depth <> 0 /\ (n_typ n = typeStruct -> n_ptr n = false -> w = true)).

Definition rec_ok (rec : node -> bool -> val -> sres) (depth : nat) (rest' : list string) (ch : node) : Prop :=
  wfn ch = true -> sound_set ch = true -> forall cp w f, wtb ch f = true -> pre ch cp w (S depth) f ->
  good ch cp rest' f (rec ch w f).

(* the same, for the value behind the variable of a node whose pointer flag is p *)
Definition goodb (n0 : node) (p cp : bool) (rest : list string) (x : val) (r : sres) : Prop :=
  match r with
  | SPanic _ => False
  | SFall x' => offb E n0 rest x x' = true
  | SRet x' wb e => offb E n0 rest x x' = true /\ (wb = false -> cp = true -> p = false -> keep_shared n0 x x' = x')
  end.

Lemma core_struct rec tn tu nm pk pki p chld mk mv sl hb hc self cp w depth path seg rest' fs :
  wfn (Node typeStruct tn tu nm pk pki false chld mk mv sl hb hc) = true ->
  sound_set (Node typeStruct tn tu nm pk pki false chld mk mv sl hb hc) = true ->
  wtb (Node typeStruct tn tu nm pk pki false chld mk mv sl hb hc) (VStruct fs) = true ->
  nth_error path depth = Some seg ->
  Forall (rec_ok rec depth rest') chld ->
  (cp = true -> p = false -> w = true) ->
  goodb (Node typeStruct tn tu nm pk pki false chld mk mv sl hb hc) p cp (seg :: rest') (VStruct fs)
        (set_body false rec s buf typeStruct tn p chld mk mv sl self w depth path (VStruct fs)).
Proof.
  intros W SD WT NP HC FL. cbn [set_body]. rewrite NP.
  cbn [wfn] in W. apply andb_true_iff in W. destruct W as (W & WC). apply andb_true_iff in W. destruct W as (_ & ND).
  cbn [sound_set] in SD. cbn [wtb] in WT.
  rewrite set_walk_find by exact ND.
  pose proof (forallb2_length _ _ _ WT) as LEN.
  destruct (find_idx seg chld 0) as [[ch j]|] eqn:F.
  2:{ cbn [goodb offb]. apply (fields_off_none _ seg chld 0); auto. }
  destruct (find_idx_in _ _ _ _ _ F) as (_ & _ & _ & NT). rewrite Nat.sub_0_r in NT.
  assert (JL : j < List.length fs) by (rewrite LEN; apply nth_error_Some; congruence).
  destruct (nth_error_ex fs j JL) as (f & NF).
  pose proof (forallb_nth _ _ _ _ WC NT) as Wch.
  pose proof (forallb_nth _ _ _ _ SD NT) as Sch.
  pose proof (forallb2_nth _ _ _ _ _ _ WT NT NF) as WTf.
  assert (UPD : forall y, offb E (Node typeStruct tn tu nm pk pki false chld mk mv sl hb hc) (seg :: rest') (VStruct fs) (VStruct (upd_nth j y fs))
                          = offb E ch rest' f y).
  { intros y. cbn [offb]. pose proof (fields_off_upd (fun c f0 f' => offb E c rest' f0 f') seg chld 0 fs ch j f y ND F) as U.
    rewrite Nat.sub_0_r in U. apply U; auto. }
  unfold child_set. rewrite NF.
  destruct (is_leaf_child ch) eqn:LF.
  - destruct (n_ptr ch && is_nil_val f) eqn:NILP.
    + cbn [goodb]. split; [|intros _ _ _; apply keep_shared_same].
      rewrite <- (upd_nth_same fs j f NF) at 2. rewrite UPD.
      apply andb_true_iff in NILP. destruct NILP as (PC & NI).
      destruct ch as [cty ctn ctu cnm cpk cpki cptr cchld cmk cmv csl chb chc]. cbn [n_ptr] in PC. subst cptr.
      cbn [wtb] in WTf. destruct f as [b|z|f0|s0|nb d e|fs0|ns es ex|nmm kvs|[x|]]; try discriminate.
      apply offb_nilptr. reflexivity.
    + cbn [goodb]. split.
      * rewrite UPD. apply offb_leaf; auto.
      * intros WB PM PF. rewrite (FL PM PF) in WB. discriminate WB.
  - assert (NLF : is_leaf_node ch = false) by exact LF.
    cbn [negb]. rewrite andb_true_r.
    pose proof (Forall_nth _ _ _ _ HC NT Wch Sch w w (nil_chk ch f) (wtb_nil_chk ch f Wch NLF WTf)) as G.
    assert (PRE : pre ch w w (S depth) (nil_chk ch f)).
    { split; [|split].
      - intros TS. unfold is_leaf_child in LF. rewrite TS in LF. exact LF.
      - intros TM PF _. apply nil_chk_nonnil; auto.
      - intros WT'. split; [discriminate|]. intros _ _. exact WT'. }
    specialize (G PRE).
    destruct (rec ch w (nil_chk ch f)) as [f2|f2 wb e|k]; cbn [good] in G.
    + cbn [goodb]. rewrite UPD. apply offb_nil_chk; auto.
    + cbn [goodb andb]. destruct G as (G & GK & _). split.
      * rewrite UPD. apply offb_nil_chk; auto.
      * (* not stored back below an entry: nothing was allocated here and the child changed nothing directly *)
        intros WB PM PF. specialize (FL PM PF). subst w. cbn [andb] in WB.
        apply orb_false_iff in WB. destruct WB as (WB & CR).
        rewrite (creates_false _ _ CR) in GK.
        rewrite (keep_shared_upd tn tu nm pk pki chld mk mv sl hb hc fs j ch f f2 NT NF), (GK WB eq_refl). reflexivity.
    + exact G.
Qed.

Lemma core_slice rec tn tu nm pk pki p chld mk mv en hb hc self cp w depth path seg rest' nl es ex :
  String.eqb tn "[]byte" = false ->
  wfn en = true -> sound_set en = true -> is_bytes_node en = false ->
  (match n_typ en with typeMap => true | _ => false end) && negb (n_ptr en) = false ->
  (negb (is_builtin (n_typn en) && negb (n_ptr en)) || match n_typ en with typeBasic => true | _ => false end) = true ->
  forallb (wtb en) es = true ->
  nth_error path depth = Some seg ->
  rec_ok rec depth rest' en ->
  goodb (Node typeSlice tn tu nm pk pki false chld mk mv (Some en) hb hc) p cp (seg :: rest') (VSlice nl es ex)
        (set_body false rec s buf typeSlice tn p chld mk mv (Some en) self w depth path (VSlice nl es ex)).
Proof.
  intros BY We Se NBe NMe CVe WT NP HR. cbn [set_body]. rewrite BY, NP.
  assert (NN : negb nl || nl = true) by (destruct nl; reflexivity).
  destruct (conv_index seg) as [i|] eqn:CI.
  2:{ cbn [goodb]. split; [|intros _ _ _; apply keep_shared_same].
      cbn [offb]. rewrite BY, CI, NN. apply elems_off_refl. }
  destruct ((0 <=? i)%Z && (i <? Z.of_nat (List.length es))%Z) eqn:RG.
  2:{ cbn [goodb offb]. rewrite BY, CI, RG, NN. apply elems_off_refl. }
  assert (RG' := RG). apply andb_true_iff in RG'. destruct RG' as (G1 & G2). apply Z.leb_le in G1. apply Z.ltb_lt in G2.
  assert (JL : Z.to_nat i < List.length es) by lia.
  destruct (nth_error_ex es _ JL) as (e0 & NE). rewrite NE.
  assert (WTe : wtb en e0 = true) by (rewrite forallb_forall in WT; apply WT; eapply nth_error_In; eauto).
  cbn [negb]. rewrite andb_true_r.
  assert (PRE : pre en false w (S depth) e0).
  { split; [|split].
    - intros _. exact NBe.
    - intros TM PF _. rewrite TM, PF in NMe. discriminate NMe.
    - discriminate. }
  pose proof (HR We Se false w e0 WTe PRE) as G.
  assert (UPD : forall y, offb E (Node typeSlice tn tu nm pk pki false chld mk mv (Some en) hb hc) (seg :: rest') (VSlice nl es ex)
                               (VSlice nl (upd_nth (Z.to_nat i) y es) ex) = offb E en rest' e0 y).
  { intros y. cbn [offb]. rewrite BY, CI, RG, NN. cbn [andb].
    apply (elems_off_upd (fun e e' => offb E en rest' e e') es 0 (Z.to_nat i) e0 y NE). }
  assert (KS : forall y, keep_shared (Node typeSlice tn tu nm pk pki false chld mk mv (Some en) hb hc) (VSlice nl es ex) y = y).
  { intros y. cbn [keep_shared]. rewrite BY. destruct es; [destruct (Z.to_nat i); discriminate|reflexivity]. }
  destruct (rec en w e0) as [e2|e2 wb e|k]; cbn [good] in G.
  - cbn [goodb]. split; [rewrite UPD; exact G|intros _ _ _; apply KS].
  - destruct G as (G & _ & GB).
    destruct (is_builtin (n_typn en) && negb (n_ptr en)) eqn:CV.
    + exfalso. cbn [negb orb] in CVe. destruct (n_typ en) eqn:TE; try discriminate.
      specialize (GB eq_refl). apply andb_true_iff in CV. destruct CV as (_ & CV). rewrite GB in CV. discriminate CV.
    + cbn [goodb]. split; [rewrite UPD; exact G|intros _ _ _; apply KS].
  - exact G.
Qed.

Lemma core_map rec tn tu nm pk pki p chld kn vn sl hb hc self cp w depth path seg rest' nl kvs :
  wfn (Node typeMap tn tu nm pk pki false chld (Some kn) (Some vn) sl hb hc) = true ->
  sound_set (Node typeMap tn tu nm pk pki false chld (Some kn) (Some vn) sl hb hc) = true ->
  wtb (Node typeMap tn tu nm pk pki false chld (Some kn) (Some vn) sl hb hc) (VMap nl kvs) = true ->
  nth_error path depth = Some seg ->
  rec_ok rec depth rest' vn ->
  (p = false -> depth <> 0 -> nl = false) ->
  (cp = true -> depth <> 0) ->
  goodb (Node typeMap tn tu nm pk pki false chld (Some kn) (Some vn) sl hb hc) p cp (seg :: rest') (VMap nl kvs)
        (set_body false rec s buf typeMap tn p chld (Some kn) (Some vn) sl self w depth path (VMap nl kvs)).
Proof.
  intros W SD WT NP HR NLH PMD. cbn [set_body]. rewrite NP.
  cbn [wfn] in W. apply andb_true_iff in W. destruct W as (_ & W).
  apply andb_true_iff in W. destruct W as (W & KS). apply andb_true_iff in W. destruct W as (W & KB).
  apply andb_true_iff in W. destruct W as (Wk & Wv).
  destruct (n_typ kn) eqn:KT; try discriminate.
  cbn [sound_set] in SD. apply andb_true_iff in SD. destruct SD as (Sv & NBv).
  apply negb_true_iff in NBv.
  cbn [wtb] in WT.
  assert (NL0 : (if p || Nat.eqb depth 0 then false else nl) = false).
  { destruct p; [reflexivity|]. simpl. destruct (Nat.eqb_spec depth 0); [reflexivity|]. apply NLH; auto. }
  rewrite NL0.
  assert (KEY : (if is_string_key kn then Some (VStr seg) else conv_key kn seg) = conv_key kn seg).
  { destruct (is_string_key kn) eqn:SK; [|reflexivity]. symmetry. apply string_key_conv; auto. }
  rewrite KEY.
  assert (KSN : forall x', cp = true -> p = false ->
            keep_shared (Node typeMap tn tu nm pk pki false chld (Some kn) (Some vn) sl hb hc) (VMap nl kvs) x' = x').
  { intros x' PM PF. cbn [keep_shared]. rewrite (NLH PF (PMD PM)). reflexivity. }
  destruct (conv_key kn seg) as [k|] eqn:CK.
  2:{ cbn [goodb]. split; [|intros _; apply KSN].
      cbn [offb]. rewrite CK. cbn [negb orb andb]. apply kvs_eqb_refl. }
  pose proof (conv_key_kind _ _ _ CK) as KV.
  set (found := lookup kn kvs k).
  set (e0 := match found with Some e => e | None => zero_val vn end).
  set (alloc := (match n_typ vn with typeMap => true | _ => false end) && negb (n_ptr vn) && is_nil_val e0).
  rewrite andb_false_r.
  set (e1 := if alloc then nil_chk vn e0 else e0).
  assert (WT0 : wtb vn e0 = true).
  { unfold e0, found, lookup. destruct (n_ptr kn); [apply wtb_zero; exact Wv|].
    destruct (map_find kvs k) as [e|] eqn:MF; [|apply wtb_zero; exact Wv].
    destruct (map_find_in _ _ _ MF) as (k' & INe). rewrite forallb_forall in WT. specialize (WT _ INe).
    apply andb_true_iff in WT. tauto. }
  assert (NLv : alloc = true -> is_leaf_node vn = false /\ n_typ vn = typeMap /\ n_ptr vn = false).
  { unfold alloc. intros A. apply andb_true_iff in A. destruct A as (A & _). apply andb_true_iff in A. destruct A as (A1 & A2).
    apply negb_true_iff in A2. unfold is_leaf_node. destruct (n_typ vn); try discriminate. auto. }
  assert (WT1 : wtb vn e1 = true).
  { unfold e1. destruct alloc eqn:A; [|exact WT0]. apply wtb_nil_chk; auto. apply NLv; reflexivity. }
  set (wv := (match n_typ vn with typeStruct => true | _ => false end) && negb (n_ptr vn)).
  assert (PRE : pre vn true wv (S depth) e1).
  { split; [|split].
    - intros _. exact NBv.
    - intros TM PF _. unfold e1. destruct alloc eqn:A.
      + apply nil_chk_nonnil; auto.
      + unfold alloc in A. rewrite TM, PF in A. simpl in A. exact A.
    - intros _. split; [discriminate|]. intros TS PF. unfold wv. rewrite TS, PF. reflexivity. }
  pose proof (HR Wv Sv true wv e1 WT1 PRE) as G.
  assert (E01 : forall e2, offb E vn rest' e1 e2 = true -> offb E vn rest' e0 e2 = true).
  { intros e2 H. unfold e1 in H. destruct alloc eqn:A; [|exact H]. apply offb_nil_chk; auto. apply NLv; reflexivity. }
  assert (OFF : forall e2, offb E vn rest' e1 e2 = true ->
            offb E (Node typeMap tn tu nm pk pki false chld (Some kn) (Some vn) sl hb hc) (seg :: rest') (VMap nl kvs)
                 (VMap false (map_put kn kvs k e2)) = true).
  { intros e2 H. apply E01 in H. cbn [offb]. rewrite CK. cbn [negb orb andb].
    change (fun kv : val * val => negb (key_match kn k (fst kv))) with (offk kn k).
    rewrite (filter_map_put kn k e2 kvs (key_same_refl k KV)), kvs_eqb_refl. cbn [andb].
    destruct (n_ptr kn) eqn:PK; [reflexivity|]. cbn [orb]. unfold map_put. rewrite PK.
    unfold e0, found, lookup in H. rewrite PK in H.
    destruct (key_eqb_dich k KV) as [R|N].
    - rewrite (map_find_put kvs k e2 R). destruct (map_find kvs k); exact H.
    - rewrite (map_find_nokey kvs k N), (map_find_nokey _ k N). reflexivity. }
  destruct (rec vn wv e1) as [e2|e2 wb e|pk']; cbn [good] in G.
  - cbn [goodb]. split; [apply OFF; exact G|intros _; apply KSN].
  - destruct G as (G & GK & _). destruct wb.
    + cbn [goodb]. split; [apply OFF; exact G|intros _; apply KSN].
    + specialize (GK eq_refl eq_refl).
      destruct (if alloc then Some e1 else found) as [old|] eqn:OLD.
      * assert (OE : old = e1).
        { unfold e1. destruct alloc eqn:A; [inversion OLD; reflexivity|].
          unfold e0. rewrite OLD. reflexivity. }
        subst old. rewrite GK. cbn [goodb]. split; [apply OFF; exact G|intros _; apply KSN].
      * cbn [goodb]. split; [|intros _; apply KSN].
        destruct alloc eqn:A; [discriminate OLD|].
        cbn [offb]. rewrite CK. cbn [negb orb andb]. rewrite kvs_eqb_refl. cbn [andb].
        destruct (n_ptr kn) eqn:PK; [reflexivity|]. cbn [orb].
        unfold found, lookup in OLD. rewrite PK in OLD. rewrite OLD. reflexivity.
  - exact G.
Qed.

(* ---------- the main lemma: all nodes, by induction ---------- *)
Lemma goodb_good_ptr ty tn tu nm pk pki chld mk mv sl hb hc cp seg rest' x r :
  ty <> typeBasic ->
  goodb (Node ty tn tu nm pk pki false chld mk mv sl hb hc) true cp (seg :: rest') x r ->
  good (Node ty tn tu nm pk pki true chld mk mv sl hb hc) cp (seg :: rest') (VPtr (Some x)) (wrap_ptr r).
Proof.
  intros NB G. destruct r as [x'|x' wb e|k]; cbn [wrap_ptr good goodb] in *.
  - exact G.
  - destruct G as (G & _). split; [exact G|]. split; [intros _ _; reflexivity|]. cbn [n_typ]. intros T; congruence.
  - exact G.
Qed.

Lemma goodb_good_val ty tn tu nm pk pki chld mk mv sl hb hc cp rest x r :
  ty <> typeBasic ->
  goodb (Node ty tn tu nm pk pki false chld mk mv sl hb hc) false cp rest x r ->
  good (Node ty tn tu nm pk pki false chld mk mv sl hb hc) cp rest x r.
Proof.
  intros NB G. destruct r as [x'|x' wb e|k]; cbn [good goodb] in *; auto.
  destruct G as (G & K). split; [exact G|]. split; [intros A B; apply K; auto|]. cbn [n_typ]. intros T; congruence.
Qed.

Lemma set_node_good : forall n, wfn n = true -> sound_set n = true ->
  forall cp w v depth path rest, wtb n v = true -> skipn depth path = rest -> depth <= List.length path ->
  pre n cp w depth v -> good n cp rest v (set_node false s buf n w v depth path).
Proof.
  intros n. induction n using node_ind'. intros W SD cp w v depth path rest WT SK LE PRE.
  cbn [set_node]. destruct PRE as (PB & PM & PP). cbn [n_typ n_ptr n_chld] in PB, PM, PP.
  destruct ty eqn:TY.
  4:{ (* basic: the leaf is assigned whatever the rest of the path *)
    cbn [andb set_body].
    destruct p.
    - cbn [wtb] in WT. destruct v as [b|z|f0|s0|nb d e|fs|ns es ex|nmm kvs|[x|]]; try discriminate.
      + cbn [wrap_ptr good].
        apply (offb_leaf (Node typeBasic tn tu nm pk pki true chld mk mv sl hb hc) rest (VPtr (Some x)) eq_refl WT).
      + cbn [good]. split; [apply offb_nilptr; reflexivity|]. split; [intros _ _; reflexivity|reflexivity].
    - cbn [good]. apply (offb_leaf (Node typeBasic tn tu nm pk pki false chld mk mv sl hb hc) rest v eq_refl WT). }
  all: cbn [andb].
  all: destruct rest as [|seg rest'];
    [ destruct (rest_nil _ _ SK LE) as (R1 & _); unfold path_len in R1; apply Nat.eqb_eq in R1;
      replace (Nat.ltb depth (List.length path)) with false by (symmetry; apply Nat.ltb_ge; lia);
      cbn [negb good offb]; unfold E, E_end, is_leaf_node; cbn [n_typ];
      try (rewrite (PB eq_refl)); rewrite val_eqb_refl; reflexivity
    | destruct (rest_cons _ _ _ _ SK) as (_ & R2 & R3 & R4 & R5); unfold path_len in R2;
      replace (Nat.ltb depth (List.length path)) with true by (symmetry; apply Nat.ltb_lt; apply Nat.ltb_ge in R2; lia);
      cbn [negb] ].
  - (* struct *)
    assert (HC : Forall (rec_ok (fun ch w' f => set_node false s buf ch w' f (S depth) path) depth rest') chld).
    { eapply Forall_impl; [|exact H]. intros ch IH Wc Sc cp' w' f WTf PREf. apply IH; auto. }
    destruct p.
    + cbn [wtb] in WT. destruct v as [b|z|f0|s0|nb d e|fs|ns es ex|nmm kvs|[x|]]; try discriminate.
      * destruct x as [b|z|f0|s0|nb d e|fs|ns es ex|nmm kvs|o]; try discriminate.
        apply goodb_good_ptr; [discriminate|].
        apply core_struct; auto. intros _ PF; discriminate PF.
      * cbn [good]. split; [apply offb_nilptr; reflexivity|]. split; [intros _ _; reflexivity|intros T; discriminate T].
    + assert (WT' := WT). cbn [wtb] in WT'. destruct v as [b|z|f0|s0|nb d e|fs|ns es ex|nmm kvs|o]; try discriminate.
      apply goodb_good_val; [discriminate|].
      apply core_struct; auto. intros PMT _. apply (proj2 (PP PMT)); reflexivity.
  - (* map *)
    assert (WW := W). cbn [wfn] in WW. apply andb_true_iff in WW. destruct WW as (_ & WW).
    destruct mk as [kn|]; [|discriminate]. destruct mv as [vn|]; [|discriminate].
    assert (HR : rec_ok (fun ch w' f => set_node false s buf ch w' f (S depth) path) depth rest' vn).
    { intros Wc Sc cp' w' f WTf PREf. apply (H1 vn eq_refl); auto. }
    destruct p.
    + cbn [wtb] in WT. destruct v as [b|z|f0|s0|nb d e|fs|ns es ex|nmm kvs|[x|]]; try discriminate.
      * destruct x as [b|z|f0|s0|nb d e|fs|ns es ex|nmm kvs|o]; try discriminate.
        apply goodb_good_ptr; [discriminate|].
        apply core_map; auto. intros PF; discriminate PF. intros PMT. apply PP; auto.
      * cbn [good]. split; [apply offb_nilptr; reflexivity|]. split; [intros _ _; reflexivity|intros T; discriminate T].
    + assert (WT' := WT). cbn [wtb] in WT'. destruct v as [b|z|f0|s0|nb d e|fs|ns es ex|nmm kvs|o]; try discriminate.
      apply goodb_good_val; [discriminate|].
      apply core_map; auto.
      * intros _ D. specialize (PM eq_refl eq_refl D). destruct nmm; [discriminate PM|reflexivity].
      * intros PMT. apply PP; auto.
  - (* slice *)
    specialize (PB eq_refl). unfold is_bytes_node in PB. cbn [n_typn] in PB.
    assert (WW := W). cbn [wfn] in WW. apply andb_true_iff in WW. destruct WW as (_ & WW). rewrite PB in WW.
    destruct sl as [en|]; [|discriminate]. cbn [orb] in WW.
    assert (SS := SD). cbn [sound_set] in SS. rewrite PB in SS. cbn [orb] in SS.
    apply andb_true_iff in SS. destruct SS as (SS & CVe). apply andb_true_iff in SS. destruct SS as (SS & NMe).
    apply andb_true_iff in SS. destruct SS as (Se & NBe). apply negb_true_iff in NBe. apply negb_true_iff in NMe.
    assert (HR : rec_ok (fun ch w' f => set_node false s buf ch w' f (S depth) path) depth rest' en).
    { intros Wc Sc cp' w' f WTf PREf. apply (H2 en eq_refl); auto. }
    destruct p.
    + cbn [wtb] in WT. rewrite PB in WT. destruct v as [b|z|f0|s0|nb d e|fs|ns es ex|nmm kvs|[x|]]; try discriminate.
      * destruct x as [b|z|f0|s0|nb d e|fs|ns es ex|nmm kvs|o]; try discriminate.
        apply goodb_good_ptr; [discriminate|].
        apply core_slice; auto.
      * cbn [good]. split; [apply offb_nilptr; reflexivity|]. split; [intros _ _; reflexivity|intros T; discriminate T].
    + assert (WT' := WT). cbn [wtb] in WT'. rewrite PB in WT'. destruct v as [b|z|f0|s0|nb d e|fs|ns es ex|nmm kvs|o]; try discriminate.
      apply goodb_good_val; [discriminate|].
      apply core_slice; auto.
Qed.

End Core.

(* ---------- the methods ---------- *)
Definition root_ok (n : node) : bool :=
  negb (n_ptr n) && match n_typ n with typeBasic => false | typeSlice => negb (is_bytes_node n) | _ => true end.

Theorem set_method_sound s buf n v path :
  wfn n = true -> sound_set n = true -> root_ok n = true -> wtb n v = true ->
  match set_method n v path s buf with
  | Ret v' _ => offb (E_end s buf) n path v v' = true
  | _ => False
  end.
Proof.
  intros W SD RO WT. unfold root_ok in RO. apply andb_true_iff in RO. destruct RO as (NP & RT). apply negb_true_iff in NP.
  unfold set_method, set_method_of. destruct path as [|seg rest].
  - destruct n as [ty tn tu nm pk pki p chld mk mv sl hb hc]. cbn [offb]. unfold E_end, is_leaf_node. cbn [n_typ] in *.
    destruct ty; try discriminate; try (rewrite val_eqb_refl; reflexivity).
    apply negb_true_iff in RT. rewrite RT, val_eqb_refl. reflexivity.
  - assert (PRE : pre n false false 0 v).
    { split; [|split].
      - intros TS. rewrite TS in RT. apply negb_true_iff in RT. exact RT.
      - intros _ _ D. exfalso. apply D. reflexivity.
      - discriminate. }
    pose proof (set_node_good s buf n W SD false false v 0 (seg :: rest) (seg :: rest) WT eq_refl (Nat.le_0_l _) PRE) as G.
    destruct (set_node false s buf n false v 0 (seg :: rest)) as [v'|v' wb e|k]; cbn [good] in G; tauto.
Qed.

Corollary set_method_no_panic s buf n v path :
  wfn n = true -> sound_set n = true -> root_ok n = true -> wtb n v = true ->
  exists v' e, set_method n v path s buf = Ret v' e.
Proof.
  intros W SD RO WT. pose proof (set_method_sound s buf n v path W SD RO WT) as G.
  destruct (set_method n v path s buf) as [x|x e|k]; try contradiction. eauto.
Qed.
