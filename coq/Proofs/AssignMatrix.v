(* Proofs/AssignMatrix.v - the model of AssignBuf (Model/Assign.v) against the
   conversion table (Spec/AssignSpec.v): for every destination kind, source
   kind, form and value.  Case analysis over the kinds, arithmetic over all Z,
   all spec_float, all strings. *)
From Coq Require Import ZArith Bool String Ascii List Lia Floats.SpecFloat.
From Verif Require Import Util Ints Strconv Floats AssignVal Assign AssignSpec AssignText.
Import ListNotations.
Local Open Scope Z_scope.

(* ---------- small facts ---------- *)
Lemma first_some_tail2 {A} (x : out (option A)) : first_some [x; Ret None; Ret None] = x.
Proof. destruct x as [[a|]| |]; reflexivity. Qed.
Lemma first_some_tail1 {A} (x : out (option A)) : first_some [x; Ret None] = x.
Proof. destruct x as [[a|]| |]; reflexivity. Qed.
Lemma first_some_tail0 {A} (x : out (option A)) : first_some [x] = x.
Proof. destruct x as [[a|]| |]; reflexivity. Qed.

Lemma signed_in_i64 k z : is_signed k = true -> in_range k z = true -> in_range KInt64 z = true.
Proof.
  unfold in_range. intros S H.
  apply andb_true_iff in H. destruct H as (A & B). apply Z.leb_le in A, B.
  assert (L : kmin KInt64 <= kmin k) by (destruct k; try discriminate S; vm_compute; intro X; discriminate X).
  assert (U : kmax k <= kmax KInt64) by (destruct k; try discriminate S; vm_compute; intro X; discriminate X).
  apply andb_true_iff. split; apply Z.leb_le; lia.
Qed.

Lemma unsigned_in_u64 k z : is_signed k = false -> in_range k z = true -> in_range KUint64 z = true.
Proof.
  unfold in_range. intros S H.
  apply andb_true_iff in H. destruct H as (A & B). apply Z.leb_le in A, B.
  assert (L : kmin KUint64 <= kmin k) by (destruct k; try discriminate S; vm_compute; intro X; discriminate X).
  assert (U : kmax k <= kmax KUint64) by (destruct k; try discriminate S; vm_compute; intro X; discriminate X).
  apply andb_true_iff. split; apply Z.leb_le; lia.
Qed.

Lemma wrap_i64 k z : is_signed k = true -> in_range k z = true -> wrap KInt64 z = z.
Proof. intros S H. apply wrap_id. eapply signed_in_i64; eauto. Qed.
Lemma wrap_u64 k z : is_signed k = false -> in_range k z = true -> wrap KUint64 z = z.
Proof. intros S H. apply wrap_id. eapply unsigned_in_u64; eauto. Qed.

Lemma wide_range k z : in_range k z = true -> in_range (wide k) z = true.
Proof.
  intros H. unfold wide. destruct (is_signed k) eqn:S.
  - eapply signed_in_i64; eauto.
  - eapply unsigned_in_u64; eauto.
Qed.

Lemma nonzero_spec f : f_nonzero f = negb (is_zero f).
Proof. destruct f as [s|s| |s m e]; try destruct s; reflexivity. Qed.

(* ---------- the text readers against the two readings ---------- *)
(* parse at 64 bits, then Go-convert: the Lenient reading of a numeral *)
Lemma lenient_of_wide k num :
  match num with
  | Some z => if in_range k z then Some z else if in_range (wide k) z then Some (wrap k z) else None
  | None => None
  end = option_map (wrap k) (fits (wide k) num).
Proof.
  destruct num as [z|]; [|reflexivity]. cbn [fits].
  destruct (in_range k z) eqn:R.
  - rewrite (wide_range k z R). cbn [option_map]. rewrite (wrap_id k z R). reflexivity.
  - destruct (in_range (wide k) z); reflexivity.
Qed.

Lemma int_text_signed k s : is_signed k = true ->
  option_map (wrap k) (assign_atoi s) = text_to_int Lenient k s.
Proof.
  intros S. rewrite atoi_spec. unfold text_to_int. rewrite S. cbv beta iota zeta.
  rewrite (lenient_of_wide k (signed_dec s)). unfold wide. rewrite S. reflexivity.
Qed.

Lemma unsigned_dec_plus s z : unsigned_dec s = Some z -> plus_unsigned_dec s = Some z.
Proof.
  destruct s as [|c r]; [discriminate|]. unfold plus_unsigned_dec.
  destruct (is_plus c) eqn:P; [|auto].
  unfold unsigned_dec. cbn [dec_digits]. unfold is_digit. unfold is_plus in P. apply Z.eqb_eq in P. rewrite P.
  discriminate.
Qed.

Lemma int_text_unsigned k s : is_signed k = false ->
  option_map (wrap k) (assign_atou s) = text_to_int Lenient k s \/
  (assign_atou s = None /\ text_to_int Strict k s = None).
Proof.
  intros S. rewrite atou_spec. unfold text_to_int. rewrite S. cbv beta iota zeta.
  destruct (unsigned_dec s) as [z|] eqn:E.
  - left. rewrite (unsigned_dec_plus s z E). rewrite (lenient_of_wide k (Some z)). unfold wide. rewrite S. reflexivity.
  - right. split; reflexivity.
Qed.

Lemma float_text_64 s : assign_atof s = text_to_float Strict false s.
Proof. rewrite atof_spec. unfold text_to_float. destruct (float_text_class s); try reflexivity. destruct (parse_float s); reflexivity. Qed.

Lemma float_text_32 s :
  option_map to_f32 (assign_atof s) = text_to_float Lenient true s \/
  (assign_atof s = None /\ text_to_float Strict true s = None).
Proof.
  rewrite atof_spec. unfold text_to_float.
  destruct (float_text_class s).
  - right. split; reflexivity.
  - right. split; reflexivity.
  - left. destruct (parse_float s) as [f|]; [|reflexivity]. cbn [option_map].
    destruct (is_inf (to_f32 f) && negb (is_inf f)); reflexivity.
Qed.

(* the readings differ on numerals only *)
Lemma conv_strict_le rf dk v :
  conv rf Strict dk v = conv rf Lenient dk v \/
  (exists s, (v = VStr s \/ v = VBytes s)).
Proof. destruct v; try (right; eauto; fail); left; destruct dk; reflexivity. Qed.

(* ---------- sources that carry a value never make the source switches panic ---------- *)
Local Opaque wrap assign_atoi assign_atou assign_atof render_float to_f32 to_f64 Z_to_string String.eqb f64_eqb
      text_to_int text_to_float String.append in_range.

Definition sdst (dst : dest) : bool :=
  match dst with DPtr (VInt (KInt | KInt8 | KInt16 | KInt32 | KInt64) _) => true | _ => false end.
Definition udst (dst : dest) : bool :=
  match dst with DPtr (VInt (KUint | KUint8 | KUint16 | KUint32 | KUint64) _) => true | _ => false end.
Definition fdst (dst : dest) : bool :=
  match dst with DPtr (VF32 _) | DPtr (VF64 _) => true | _ => false end.

Lemma src_int64_ret src : not_nil src = true -> exists o, src_int64 src = Ret o.
Proof. destruct src as [v|v|k|]; try discriminate; intros _; try destruct v as [b|k z|f|f|s|s]; try destruct k; cbn; eauto. Qed.
Lemma src_uint64_ret src : not_nil src = true -> exists o, src_uint64 src = Ret o.
Proof. destruct src as [v|v|k|]; try discriminate; intros _; try destruct v as [b|k z|f|f|s|s]; try destruct k; cbn; eauto. Qed.
Lemma src_float64_ret src : not_nil src = true -> exists o, src_float64 src = Ret o.
Proof. destruct src as [v|v|k|]; try discriminate; intros _; try destruct v as [b|k z|f|f|s|s]; try destruct k; cbn; eauto. Qed.

Section Fix.
Variable strfix : bool.
Variable dcap : Z.
Variable buf : option string.

Lemma to_int_other dst src : sdst dst = false -> not_nil src = true ->
  assign_to_int buf dst src = Ret None.
Proof.
  intros D N. unfold assign_to_int. destruct (src_int64_ret src N) as [o E]. rewrite E. cbn [bind].
  destruct o as [i|]; [|reflexivity]. destruct dst as [[b|k z|f|f|s|s]|]; try reflexivity. destruct k; try discriminate D; reflexivity.
Qed.
Lemma to_uint_other dst src : udst dst = false -> not_nil src = true ->
  assign_to_uint buf dst src = Ret None.
Proof.
  intros D N. unfold assign_to_uint. destruct (src_uint64_ret src N) as [o E]. rewrite E. cbn [bind].
  destruct o as [i|]; [|reflexivity]. destruct dst as [[b|k z|f|f|s|s]|]; try reflexivity. destruct k; try discriminate D; reflexivity.
Qed.
Lemma to_float_other dst src : fdst dst = false -> not_nil src = true ->
  assign_to_float buf dst src = Ret None.
Proof.
  intros D N. unfold assign_to_float. destruct (src_float64_ret src N) as [o E]. rewrite E. cbn [bind].
  destruct o as [i|]; [|reflexivity]. destruct dst as [[b|k z|f|f|s|s]|]; try reflexivity; discriminate D.
Qed.

(* which registered function decides, per destination *)
Lemma buf_signed k o src : is_signed k = true -> not_nil src = true ->
  assign_buf strfix dcap buf (DPtr (VInt k o)) src = assign_to_int buf (DPtr (VInt k o)) src.
Proof.
  intros S N. unfold assign_buf.
  rewrite (to_uint_other (DPtr (VInt k o)) src), (to_float_other (DPtr (VInt k o)) src); auto.
  - cbn [assign_to_bytes assign_to_str assign_to_bool first_some]. apply first_some_tail2.
  - destruct k; try discriminate S; reflexivity.
Qed.

Lemma buf_unsigned k o src : is_signed k = false -> not_nil src = true ->
  assign_buf strfix dcap buf (DPtr (VInt k o)) src = assign_to_uint buf (DPtr (VInt k o)) src.
Proof.
  intros S N. unfold assign_buf.
  rewrite (to_int_other (DPtr (VInt k o)) src), (to_float_other (DPtr (VInt k o)) src); auto.
  cbn [assign_to_bytes assign_to_str assign_to_bool first_some]. apply first_some_tail1.
Qed.

Lemma buf_float dst src : fdst dst = true -> not_nil src = true ->
  assign_buf strfix dcap buf dst src = assign_to_float buf dst src.
Proof.
  intros D N. unfold assign_buf.
  rewrite (to_int_other dst src), (to_uint_other dst src); auto;
    try (destruct dst as [[b|k z|f|f|s|s]|]; try discriminate D; reflexivity).
  destruct dst as [[b|k z|f|f|s|s]|]; try discriminate D;
    cbn [assign_to_bytes assign_to_str assign_to_bool first_some]; apply first_some_tail0.
Qed.

Lemma buf_bool o src : not_nil src = true ->
  assign_buf strfix dcap buf (DPtr (VBool o)) src = assign_to_bool buf (DPtr (VBool o)) src.
Proof.
  intros N. unfold assign_buf.
  rewrite (to_int_other (DPtr (VBool o)) src), (to_uint_other (DPtr (VBool o)) src), (to_float_other (DPtr (VBool o)) src); auto.
  cbn [assign_to_bytes assign_to_str first_some].
  destruct (assign_to_bool buf (DPtr (VBool o)) src) as [[e|]| |]; reflexivity.
Qed.

Lemma buf_foreign src : not_nil src = true -> assign_buf strfix dcap buf DForeign src = Ret None.
Proof.
  intros N. unfold assign_buf.
  rewrite (to_int_other DForeign src), (to_uint_other DForeign src), (to_float_other DForeign src); auto.
Qed.

Lemma buf_bytes o src : not_nil src = true ->
  assign_buf strfix dcap buf (DPtr (VBytes o)) src = assign_to_bytes dcap buf (DPtr (VBytes o)) src.
Proof.
  intros N. unfold assign_buf.
  rewrite (to_int_other (DPtr (VBytes o)) src), (to_uint_other (DPtr (VBytes o)) src), (to_float_other (DPtr (VBytes o)) src); auto.
  cbn [assign_to_str assign_to_bool first_some].
  destruct (assign_to_bytes dcap buf (DPtr (VBytes o)) src) as [[e|]| |]; reflexivity.
Qed.

Lemma buf_str o src : not_nil src = true ->
  assign_buf strfix dcap buf (DPtr (VStr o)) src = assign_to_str strfix buf (DPtr (VStr o)) src.
Proof.
  intros N. unfold assign_buf.
  rewrite (to_int_other (DPtr (VStr o)) src), (to_uint_other (DPtr (VStr o)) src), (to_float_other (DPtr (VStr o)) src); auto.
  cbn [assign_to_bytes assign_to_bool first_some].
  destruct (assign_to_str strfix buf (DPtr (VStr o)) src) as [[e|]| |]; reflexivity.
Qed.

End Fix.

(* ---------- the cells ---------- *)
Section Cells.
Variable rf : spec_float -> string.
Variable dcap : Z.
Variable buf : option string.

Notation assign1 := (assign true dcap buf).

Definition reads (dst : dest) (src : source) (rd : reading) : Prop :=
  result (assign1 dst src) = Some (expect rf rd dst src).

Lemma result_assign dst src :
  result (assign1 dst src) =
  match assign_buf true dcap buf dst src with
  | Ret (Some e) => Some (true, DPtr (e_val e))
  | Ret None => Some (false, dst)
  | _ => None
  end.
Proof. unfold assign. destruct (assign_buf true dcap buf dst src) as [[e|]| |]; reflexivity. Qed.

Ltac either := first [left; reflexivity | right; reflexivity].

Lemma cell_foreign src : not_nil src = true -> reads DForeign src Strict.
Proof. intros N. unfold reads. rewrite result_assign, buf_foreign by exact N. reflexivity. Qed.

Lemma cell_bool o src : not_nil src = true -> reads (DPtr (VBool o)) src Strict.
Proof.
  intros N. unfold reads. rewrite result_assign, buf_bool by exact N.
  destruct src as [v|v|k|]; try discriminate N; try reflexivity;
    destruct v as [b|k z|f|f|s|s]; cbn; rewrite ?nonzero_spec; reflexivity.
Qed.

Lemma cell_signed k o src : is_signed k = true -> wf_source src -> not_nil src = true ->
  reads (DPtr (VInt k o)) src Lenient.
Proof.
  intros S W N. unfold reads. rewrite result_assign, buf_signed by assumption.
  unfold assign_to_int.
  destruct src as [v|v|k'|]; try discriminate N; try (destruct k; reflexivity);
    destruct v as [b|ks z|f|f|s|s]; try (destruct k; reflexivity).
  - assert (E : is_signed ks = true -> wrap KInt64 z = z) by (intro; eapply wrap_i64; eauto).
    destruct ks; destruct k; try discriminate S; cbn; try reflexivity; rewrite !E by reflexivity; reflexivity.
  - pose proof (int_text_signed k s S) as H. cbn [src_int64 bind].
    destruct (assign_atoi s) as [i|]; destruct k; try discriminate S; cbn in H |- *; rewrite <- H; reflexivity.
  - pose proof (int_text_signed k s S) as H. cbn [src_int64 bind].
    destruct (assign_atoi s) as [i|]; destruct k; try discriminate S; cbn in H |- *; rewrite <- H; reflexivity.
  - assert (E : is_signed ks = true -> wrap KInt64 z = z) by (intro; eapply wrap_i64; eauto).
    destruct ks; destruct k; try discriminate S; cbn; try reflexivity; rewrite !E by reflexivity; reflexivity.
  - pose proof (int_text_signed k s S) as H. cbn [src_int64 bind].
    destruct (assign_atoi s) as [i|]; destruct k; try discriminate S; cbn in H |- *; rewrite <- H; reflexivity.
  - pose proof (int_text_signed k s S) as H. cbn [src_int64 bind].
    destruct (assign_atoi s) as [i|]; destruct k; try discriminate S; cbn in H |- *; rewrite <- H; reflexivity.
Qed.

Lemma cell_unsigned k o src : is_signed k = false -> wf_source src -> not_nil src = true ->
  reads (DPtr (VInt k o)) src Lenient \/ reads (DPtr (VInt k o)) src Strict.
Proof.
  intros S W N. unfold reads. rewrite result_assign, buf_unsigned by assumption.
  unfold assign_to_uint.
  destruct src as [v|v|k'|]; try discriminate N; try (left; destruct k; reflexivity);
    destruct v as [b|ks z|f|f|s|s]; try (left; destruct k; reflexivity).
  - left. assert (E : is_signed ks = false -> wrap KUint64 z = z) by (intro; eapply wrap_u64; eauto).
    destruct ks; destruct k; try discriminate S; cbn; try reflexivity; rewrite !E by reflexivity; reflexivity.
  - cbn [src_uint64 bind]. destruct (int_text_unsigned k s S) as [H|(H1 & H2)].
    + left. destruct (assign_atou s) as [i|]; destruct k; try discriminate S; cbn in H |- *; rewrite <- H; reflexivity.
    + right. rewrite H1. destruct k; try discriminate S; cbn in H2 |- *; rewrite H2; reflexivity.
  - cbn [src_uint64 bind]. destruct (int_text_unsigned k s S) as [H|(H1 & H2)].
    + left. destruct (assign_atou s) as [i|]; destruct k; try discriminate S; cbn in H |- *; rewrite <- H; reflexivity.
    + right. rewrite H1. destruct k; try discriminate S; cbn in H2 |- *; rewrite H2; reflexivity.
  - left. assert (E : is_signed ks = false -> wrap KUint64 z = z) by (intro; eapply wrap_u64; eauto).
    destruct ks; destruct k; try discriminate S; cbn; try reflexivity; rewrite !E by reflexivity; reflexivity.
  - cbn [src_uint64 bind]. destruct (int_text_unsigned k s S) as [H|(H1 & H2)].
    + left. destruct (assign_atou s) as [i|]; destruct k; try discriminate S; cbn in H |- *; rewrite <- H; reflexivity.
    + right. rewrite H1. destruct k; try discriminate S; cbn in H2 |- *; rewrite H2; reflexivity.
  - cbn [src_uint64 bind]. destruct (int_text_unsigned k s S) as [H|(H1 & H2)].
    + left. destruct (assign_atou s) as [i|]; destruct k; try discriminate S; cbn in H |- *; rewrite <- H; reflexivity.
    + right. rewrite H1. destruct k; try discriminate S; cbn in H2 |- *; rewrite H2; reflexivity.
Qed.

Lemma cell_f64 o src : not_nil src = true -> reads (DPtr (VF64 o)) src Strict.
Proof.
  intros N. unfold reads. rewrite result_assign, buf_float by (auto; reflexivity).
  unfold assign_to_float.
  destruct src as [v|v|k'|]; try discriminate N; try reflexivity;
    destruct v as [b|ks z|f|f|s|s]; try reflexivity; try (destruct ks; reflexivity);
    cbn [src_float64 bind]; rewrite float_text_64; cbn;
    destruct (text_to_float Strict false s); reflexivity.
Qed.

Lemma cell_f32 o src : wf_source src -> not_nil src = true ->
  reads (DPtr (VF32 o)) src Lenient \/ reads (DPtr (VF32 o)) src Strict.
Proof.
  intros W N. unfold reads. rewrite result_assign, buf_float by (auto; reflexivity).
  unfold assign_to_float.
  destruct src as [v|v|k'|]; try discriminate N; try (left; reflexivity);
    destruct v as [b|ks z|f|f|s|s]; try (left; reflexivity); try (left; destruct ks; reflexivity).
  - left. cbn in W |- *. rewrite W. reflexivity.
  - cbn [src_float64 bind]. destruct (float_text_32 s) as [H|(H1 & H2)].
    + left. destruct (assign_atof s) as [g|]; cbn in H |- *; rewrite <- H; reflexivity.
    + right. rewrite H1. cbn. rewrite H2. reflexivity.
  - cbn [src_float64 bind]. destruct (float_text_32 s) as [H|(H1 & H2)].
    + left. destruct (assign_atof s) as [g|]; cbn in H |- *; rewrite <- H; reflexivity.
    + right. rewrite H1. cbn. rewrite H2. reflexivity.
  - left. cbn in W |- *. rewrite W. reflexivity.
  - cbn [src_float64 bind]. destruct (float_text_32 s) as [H|(H1 & H2)].
    + left. destruct (assign_atof s) as [g|]; cbn in H |- *; rewrite <- H; reflexivity.
    + right. rewrite H1. cbn. rewrite H2. reflexivity.
  - cbn [src_float64 bind]. destruct (float_text_32 s) as [H|(H1 & H2)].
    + left. destruct (assign_atof s) as [g|]; cbn in H |- *; rewrite <- H; reflexivity.
    + right. rewrite H1. cbn. rewrite H2. reflexivity.
Qed.

(* x2bytes.ToBytes of a scalar: its decimal text *)
Lemma to_bytes_scalar v : wf_sval v -> text_kind (kind_of v) = false -> rendered rf (SVal v) ->
  to_bytes (SVal v) = Ret (Some (text_of rf v)) /\ to_bytes (SPtr v) = Ret (Some (text_of rf v)).
Proof.
  intros W T R. destruct v as [b|k z|f|f|s|s]; try discriminate T.
  - split; reflexivity.
  - assert (E1 : is_signed k = true -> wrap KInt64 z = z) by (intro; eapply wrap_i64; eauto).
    assert (E2 : is_signed k = false -> wrap KUint64 z = z) by (intro; eapply wrap_u64; eauto).
    destruct k; cbn; first [rewrite E1 by reflexivity | rewrite E2 by reflexivity]; split; reflexivity.
  - cbn in R. unfold to_bytes. cbn. unfold append_float. rewrite R. split; reflexivity.
  - cbn in R. unfold to_bytes. cbn. unfold append_float. rewrite R. split; reflexivity.
Qed.

Lemma to_bytes_foreign : to_bytes SForeign = Ret None.
Proof. reflexivity. Qed.

Lemma rendered_ptr v : rendered rf (SPtr v) = rendered rf (SVal v).
Proof. destruct v; reflexivity. Qed.

(* the whole outcome for a text destination, owner and buffer included *)
Definition text_outcome (mk : string -> sval) (src : source) (v : sval) : outcome :=
  let t := text_of rf v in
  if text_kind (kind_of v) then Done true (DPtr (mk t)) OSrc buf
  else match buf with
       | None => Done true (DPtr (mk t)) (if slen t <=? dcap then OFresh else OFresh) None   (* fresh, fitting or not (fix 53615f7) *)
       | Some pre => Done true (DPtr (mk t)) (OBuf (String.length pre)) (Some (pre ++ t)%string)
       end.

Lemma bytes_outcome o src v : (src = SVal v \/ src = SPtr v) -> wf_sval v -> rendered rf src ->
  assign1 (DPtr (VBytes o)) src = text_outcome VBytes src v.
Proof.
  intros F W R. unfold assign. rewrite buf_bytes by (destruct F; subst; reflexivity).
  unfold text_outcome.
  destruct (text_kind (kind_of v)) eqn:T.
  - destruct F; subst; destruct v as [b|k z|f|f|s|s]; try discriminate T; reflexivity.
  - assert (R' : rendered rf (SVal v)) by (destruct F; subst; [exact R|rewrite <- rendered_ptr; exact R]).
    destruct (to_bytes_scalar v W T R') as (E1 & E2).
    assert (E : to_bytes src = Ret (Some (text_of rf v))) by (destruct F; subst; assumption).
    assert (A : assign_to_bytes dcap buf (DPtr (VBytes o)) src =
                match buf with
                | None => bind (to_bytes src) (fun ot => match ot with
                            | Some t => eff buf (VBytes t) (if slen t <=? dcap then OFresh else OFresh) | None => Ret None end)
                | Some pre => buffered VBytes pre src
                end).
    { destruct F; subst; destruct v as [b|k z|f|f|s|s]; try discriminate T; try destruct k; reflexivity. }
    rewrite A. unfold buffered. rewrite E. destruct buf; reflexivity.
Qed.

Lemma str_outcome o src v : (src = SVal v \/ src = SPtr v) -> wf_sval v -> rendered rf src ->
  assign1 (DPtr (VStr o)) src = text_outcome VStr src v.
Proof.
  intros F W R. unfold assign. rewrite buf_str by (destruct F; subst; reflexivity).
  unfold text_outcome.
  destruct (text_kind (kind_of v)) eqn:T.
  - destruct F; subst; destruct v as [b|k z|f|f|s|s]; try discriminate T; reflexivity.
  - assert (R' : rendered rf (SVal v)) by (destruct F; subst; [exact R|rewrite <- rendered_ptr; exact R]).
    destruct (to_bytes_scalar v W T R') as (E1 & E2).
    assert (E : to_bytes src = Ret (Some (text_of rf v))) by (destruct F; subst; assumption).
    assert (A : assign_to_str true buf (DPtr (VStr o)) src =
                match buf with
                | None => bind (to_bytes src) (fun ot => match ot with
                            | Some t => eff buf (VStr t) OFresh | None => Ret None end)
                | Some pre => buffered VStr pre src
                end).
    { destruct F; subst; destruct v as [b|k z|f|f|s|s]; try discriminate T; try destruct k; reflexivity. }
    rewrite A. unfold buffered. rewrite E. destruct buf; [reflexivity|].
    destruct (slen (text_of rf v) <=? dcap)%Z; reflexivity.
Qed.

Lemma text_foreign o : assign1 (DPtr (VBytes o)) SForeign = Done false (DPtr (VBytes o)) ONone buf
                    /\ assign1 (DPtr (VStr o)) SForeign = Done false (DPtr (VStr o)) ONone buf.
Proof.
  split; unfold assign; [rewrite buf_bytes by reflexivity|rewrite buf_str by reflexivity]; cbn; destruct buf; reflexivity.
Qed.

Lemma cell_bytes o src : wf_source src -> not_nil src = true -> rendered rf src ->
  reads (DPtr (VBytes o)) src Strict.
Proof.
  intros W N R. unfold reads. destruct src as [v|v|k|]; try discriminate N.
  - rewrite (bytes_outcome o (SVal v) v) by auto. unfold text_outcome.
    destruct (text_kind (kind_of v)); [|destruct buf]; reflexivity.
  - rewrite (bytes_outcome o (SPtr v) v) by auto. unfold text_outcome.
    destruct (text_kind (kind_of v)); [|destruct buf]; reflexivity.
  - rewrite (proj1 (text_foreign o)). reflexivity.
Qed.

Lemma cell_str o src : wf_source src -> not_nil src = true -> rendered rf src ->
  reads (DPtr (VStr o)) src Strict.
Proof.
  intros W N R. unfold reads. destruct src as [v|v|k|]; try discriminate N.
  - rewrite (str_outcome o (SVal v) v) by auto. unfold text_outcome.
    destruct (text_kind (kind_of v)); [|destruct buf]; reflexivity.
  - rewrite (str_outcome o (SPtr v) v) by auto. unfold text_outcome.
    destruct (text_kind (kind_of v)); [|destruct buf]; reflexivity.
  - rewrite (proj2 (text_foreign o)). reflexivity.
Qed.

End Cells.
