(* Proofs/DeqSound.v - the two halves of the sandwich, by induction on the node tree:
   deq_complete  values without a difference (same floats) compare equal,
   deq_sound     values that compare equal have no difference of a listed kind outside skipped fields. *)
From Coq Require Import List Bool String Ascii ZArith Arith Lia Floats.SpecFloat Permutation.
From Verif Require Import Util Ints Strconv Floats Node Value Outcome Deq DeqSpec DeqKeys DeqPaths.
Import ListNotations.
Local Open Scope string_scope.

Lemma ltb_leb a b : SFltb a b = true -> SFleb a b = true.
Proof. unfold SFltb, SFleb. destruct (SFcompare a b) as [[| |]|]; auto. Qed.

Lemma prec_nonneg o : SFleb (S754_zero false) (eff_prec o) = true.
Proof.
  destruct o as [o|]; simpl; [|reflexivity].
  destruct (SFltb (S754_zero false) (o_prec o)) eqn:E; [apply ltb_leb; exact E | reflexivity].
Qed.

Lemma f64_eqb_equal a b p :
  f64_eqb a b = true -> finite a = true -> SFleb (S754_zero false) p = true -> equal_float64 a b p = true.
Proof.
  intros E F P. apply SFeqb_to in E. destruct E as (_ & _ & E).
  destruct a as [sa|sa| |sa ma ea]; try discriminate.
  - destruct b as [sb|sb| |sb mb eb]; try discriminate.
    unfold equal_float64, f64_abs, f64_sub. destruct sa, sb; exact P.
  - destruct b as [sb|sb| |sb mb eb]; try discriminate. simpl in E. inversion E; subst. apply equal_float64_refl; auto.
Qed.

Section Main.
Variables (sh : bool) (o : option deqopts) (skip : string -> bool).
Hypothesis SK : forall q, skip q = negb (deq_must_check q o).

Lemma deq_skipped n par path depth l r :
  par_struct par = true -> nonempty (deq_path path (n_name n) depth) = true ->
  deq_must_check (deq_path path (n_name n) depth) o = false ->
  deq sh o n par path depth l r = true.
Proof.
  destruct n as [ty tn tu nm pk pki p chld mk mv sl hb hc]. cbn [n_name]. intros PS NE MC.
  cbn [deq]. rewrite PS, NE, MC. cbn [negb andb orb].
  destruct ty; cbn [negb andb orb]; try reflexivity.
  - (* slice *) destruct (String.eqb tn "[]byte") eqn:B; cbn [negb andb orb]; [|reflexivity].
    destruct p; [destruct l as [| | | | | | | |[x|]]; try reflexivity; destruct r as [| | | | | | | |[y|]]; try reflexivity|]; apply orb_true_r.
  - (* basic *)
    destruct p; [destruct l as [| | | | | | | |[x|]]; try reflexivity; destruct r as [| | | | | | | |[y|]]; try reflexivity|]; apply orb_true_r.
Qed.

Definition Pc (n : node) : Prop := forall par path depth l r,
  cleanE (deq_path path (n_name n) depth) = true -> finv l = true ->
  seqv sh skip None n (deq_path path (n_name n) depth) l r = true ->
  deq sh o n par path depth l r = true.

Lemma fields_complete chld :
  Forall (fun c => wfd c = true -> Pc c) chld ->
  forallb (fun c => clean (n_name c) && wfd c) chld = true ->
  forall q depth fs gs, cleanE q = true -> forallb finv fs = true ->
  seq_fields skip q (fun ch q' f g => seqv sh skip None ch q' f g) chld fs gs = true ->
  deq_fields (fun ch f g => deq sh o ch (Some typeStruct) q (S depth) f g) chld fs gs = true.
Proof.
  induction 1 as [|c cr HC HR IH]; intros W q depth fs gs CQ FF SQ; [reflexivity|].
  cbn [forallb] in W. apply andb_true_iff in W. destruct W as (W & WR). apply andb_true_iff in W. destruct W as (CN & WC).
  cbn [seq_fields deq_fields] in *. destruct fs as [|f fr]; [discriminate|]. destruct gs as [|g gr]; [discriminate|].
  cbn [forallb] in FF. apply andb_true_iff in FF. destruct FF as (Ff & FF).
  apply andb_true_iff in SQ. destruct SQ as (S1 & S2).
  apply andb_true_iff. split; [|apply IH; auto].
  pose proof (deq_path_field q (n_name c) depth CQ CN) as EQ.
  apply orb_true_iff in S1. destruct S1 as [S1|S1].
  - apply deq_skipped; [reflexivity | rewrite EQ; apply clean_nonempty, clean_fext; auto |].
    rewrite EQ. rewrite SK in S1. apply negb_true_iff in S1. exact S1.
  - apply (HC WC); [rewrite EQ; apply clean_cleanE, clean_fext; auto | exact Ff | rewrite EQ; exact S1].
Qed.

Lemma forallb2_impl2 {A B} (f g : A -> B -> bool) l m :
  (forall a b, In a l -> In b m -> f a b = true -> g a b = true) -> forallb2 f l m = true -> forallb2 g l m = true.
Proof.
  revert m; induction l as [|x r IH]; intros [|y s] H E; simpl in *; auto; try discriminate.
  apply andb_true_iff in E. destruct E as (E1 & E2). apply andb_true_iff. split; [apply H; auto | apply IH; auto].
Qed.
Lemma forallb2_impl {A B} (f g : A -> B -> bool) l m :
  (forall a b, In a l -> f a b = true -> g a b = true) -> forallb2 f l m = true -> forallb2 g l m = true.
Proof. intros H. apply forallb2_impl2. intros a b I _. apply H; exact I. Qed.

Lemma forallb_In {A} (f : A -> bool) l x : forallb f l = true -> In x l -> f x = true.
Proof. intros H I. rewrite forallb_forall in H. auto. Qed.

Lemma bytes_same d e : same_bytes d e = true -> bytes_eqb d e = true.
Proof.
  unfold same_bytes, bytes_eqb, string_of_bytes. rewrite String.eqb_eq. intros H.
  assert (E : d = e). { rewrite <- (list_ascii_of_string_of_list_ascii d), <- (list_ascii_of_string_of_list_ascii e), H. reflexivity. }
  subst e. clear H. induction d as [|c r IH]; simpl; auto. rewrite Ascii.eqb_refl. exact IH.
Qed.

Theorem deq_complete : forall n, wfd n = true -> Pc n.
Proof.
  induction n as [ty tn tu nm pk pki p chld mk mv sl hb hc IHc IHk IHv IHs] using node_ind'.
  intros W par path depth.
  cbn [n_name]. set (q := deq_path path nm depth).
  assert (NP : forall l r, cleanE q = true -> finv l = true ->
            seqv sh skip None (Node ty tn tu nm pk pki false chld mk mv sl hb hc) q l r = true ->
            deq sh o (Node ty tn tu nm pk pki false chld mk mv sl hb hc) par path depth l r = true).
  { intros l r CQ FL SQ. cbn [deq]. fold q. cbn [seqv] in SQ.
    match goal with |- (if ?c then true else _) = true => destruct c; [reflexivity|] end.
    destruct ty.
    - (* struct *)
      destruct l as [| | | | |fs| | |]; try discriminate. destruct r as [| | | | |gs| | |]; try discriminate.
      cbn [wfd] in W. cbn [finv] in FL. eapply fields_complete; eauto.
    - (* map *)
      destruct l as [| | | | | | |ln lk|]; try discriminate. destruct r as [| | | | | | |rn rk|]; try discriminate.
      cbn [wfd] in W. destruct mk as [kn|]; [|discriminate]. destruct mv as [vn|]; [|discriminate].
      apply andb_true_iff in W. destruct W as (EO & WV). unfold elem_ok in EO. apply andb_true_iff in EO. destruct EO as (EN & _).
      apply String.eqb_eq in EN.
      apply andb_true_iff in SQ. destruct SQ as (LEN & SQ). rewrite LEN. cbn [andb].
      cbn [finv] in FL.
      assert (REC : forall a b, finv a = true -> seqv sh skip None vn q a b = true ->
                    deq sh o vn (Some typeMap) q (S depth) a b = true).
      { intros a b FA SA. pose proof (IHv vn eq_refl WV (Some typeMap) q (S depth) a b) as X.
        rewrite EN, deq_path_elem in X by exact CQ. apply X; auto. }
      destruct (n_ptr kn).
      + unfold deq_entries_ptr. destruct sh; [|exact SQ].
        eapply forallb2_impl; [|exact SQ]. intros a b IA. cbv beta. apply REC.
        pose proof (forallb_In _ _ _ FL IA) as X. cbv beta in X. apply andb_true_iff in X. tauto.
      + apply andb_true_iff in SQ. destruct SQ as (SQ & _). unfold keys_within in SQ. unfold deq_entries.
        apply forallb_forall. intros kv IK. pose proof (forallb_In _ _ _ SQ IK) as X. cbv beta in X.
        destruct (map_find rk (fst kv)); [|discriminate]. apply REC; auto.
        pose proof (forallb_In _ _ _ FL IK) as Y. cbv beta in Y. apply andb_true_iff in Y. tauto.
    - (* slice *)
      destruct (String.eqb tn "[]byte") eqn:B.
      + destruct l as [| | | |ln d e| | | |]; try discriminate. destruct r as [| | | |rn d' e'| | | |]; try discriminate.
        rewrite (bytes_same _ _ SQ). reflexivity.
      + destruct l as [| | | | | |ln le ex| |]; try discriminate. destruct r as [| | | | | |rn re ex'| |]; try discriminate.
        cbn [wfd] in W. rewrite B in W. cbn [orb] in W. destruct sl as [en|]; [|discriminate].
        apply andb_true_iff in W. destruct W as (EO & WE). unfold elem_ok in EO. apply andb_true_iff in EO. destruct EO as (EN & _).
        apply String.eqb_eq in EN.
        apply andb_true_iff in SQ. destruct SQ as (LEN & SQ). rewrite LEN. cbn [andb]. cbn [finv] in FL.
        eapply forallb2_impl; [|exact SQ]. intros a b IA SA. cbv beta in *.
        pose proof (IHs en eq_refl WE (Some typeSlice) q (S depth) a b) as X.
        rewrite EN, deq_path_elem in X by exact CQ. apply X; auto. apply (forallb_In _ _ _ FL IA).
    - (* basic *)
      assert (G : go_eqb l r = true).
      { unfold go_eqb. destruct l, r; try discriminate; exact SQ. }
      destruct (par_struct par); [|exact G].
      apply orb_true_iff. left. destruct (is_float_name tu); [|exact G].
      destruct l as [| |a| | | | | |]; try exact G. destruct r as [| |b| | | | | |]; try exact G.
      unfold equal_float. cbn [finv] in FL. apply f64_eqb_equal; auto. apply prec_nonneg. }
  destruct p; [|exact NP].
  intros l r CQ FL SQ.
  destruct l as [| | | | | | | |[x|]]; try discriminate SQ; destruct r as [| | | | | | | |[y|]]; try discriminate SQ.
  - exact (NP x y CQ FL SQ).
  - cbn [deq]. match goal with |- (if ?c then true else _) = true => destruct c; reflexivity end.
Qed.

(* ---------- the other direction: whatever DeepEqual accepts has no difference of a listed kind ---------- *)
Definition is_bytes_n (n : node) : bool := match n_typ n with typeSlice => String.eqb (n_typn n) "[]byte" | _ => false end.

Definition Ps (n : node) : Prop := forall par path depth l r,
  cleanE (deq_path path (n_name n) depth) = true -> kok l = true -> kok r = true ->
  par_struct par = true \/ is_bytes_n n = false ->
  deq sh o n par path depth l r = true ->
  (par_struct par = true /\ skip (deq_path path (n_name n) depth) = true) \/
  seqv sh skip (Some (eff_prec o)) n (deq_path path (n_name n) depth) l r = true.

Lemma elem_ok_bytes e : elem_ok e = true -> is_bytes_n e = false.
Proof. unfold elem_ok, is_bytes_n. intros H. apply andb_true_iff in H. destruct H as (_ & H). apply negb_true_iff in H. exact H. Qed.

Lemma fields_sound chld :
  Forall (fun c => wfd c = true -> Ps c) chld ->
  forallb (fun c => clean (n_name c) && wfd c) chld = true ->
  forall q depth fs gs, cleanE q = true -> forallb kok fs = true -> forallb kok gs = true ->
  deq_fields (fun ch f g => deq sh o ch (Some typeStruct) q (S depth) f g) chld fs gs = true ->
  seq_fields skip q (fun ch q' f g => seqv sh skip (Some (eff_prec o)) ch q' f g) chld fs gs = true.
Proof.
  induction 1 as [|c cr HC HR IH]; intros W q depth fs gs CQ KF KG SQ; [reflexivity|].
  cbn [forallb] in W. apply andb_true_iff in W. destruct W as (W & WR). apply andb_true_iff in W. destruct W as (CN & WC).
  cbn [seq_fields deq_fields] in *. destruct fs as [|f fr]; [discriminate|]. destruct gs as [|g gr]; [discriminate|].
  cbn [forallb] in KF, KG. apply andb_true_iff in KF. destruct KF as (Kf & KF). apply andb_true_iff in KG. destruct KG as (Kg & KG).
  apply andb_true_iff in SQ. destruct SQ as (S1 & S2).
  apply andb_true_iff. split; [|apply (IH WR q depth); auto].
  pose proof (deq_path_field q (n_name c) depth CQ CN) as EQ.
  pose proof (HC WC (Some typeStruct) q (S depth) f g) as X. rewrite EQ in X.
  destruct X as [(_ & X)|X]; auto.
  - apply clean_cleanE, clean_fext; auto.
  - rewrite X. reflexivity.
  - rewrite X. apply orb_true_r.
Qed.

Lemma same_bytes_of d e : bytes_eqb d e = true -> same_bytes d e = true.
Proof.
  unfold same_bytes, bytes_eqb. intros H. assert (E : d = e).
  { revert e H; induction d as [|c r IH]; intros [|c' r'] H; simpl in H; try discriminate; auto.
    apply andb_true_iff in H. destruct H as (H1 & H2). apply Ascii.eqb_eq in H1. subst. f_equal. auto. }
  subst. apply String.eqb_refl.
Qed.

Theorem deq_sound : forall n, wfd n = true -> Ps n.
Proof.
  induction n as [ty tn tu nm pk pki p chld mk mv sl hb hc IHc IHk IHv IHs] using node_ind'.
  intros W par path depth.
  cbn [n_name]. set (q := deq_path path nm depth).
  assert (NP : forall l r, cleanE q = true -> kok l = true -> kok r = true ->
            par_struct par = true \/ is_bytes_n (Node ty tn tu nm pk pki p chld mk mv sl hb hc) = false ->
            deq sh o (Node ty tn tu nm pk pki false chld mk mv sl hb hc) par path depth l r = true ->
            (par_struct par = true /\ skip q = true) \/
            seqv sh skip (Some (eff_prec o)) (Node ty tn tu nm pk pki false chld mk mv sl hb hc) q l r = true).
  { intros l r CQ KL KR PB DQ. cbn [deq] in DQ. fold q in DQ. cbn [seqv]. rewrite SK.
    match type of DQ with (if ?c then true else _) = true => destruct c eqn:WR end.
    { left. apply andb_true_iff in WR. destruct WR as (WR & MC). apply andb_true_iff in WR. destruct WR as (WR & _).
      apply andb_true_iff in WR. destruct WR as (PS & _). auto. }
    clear WR. destruct ty.
    - (* struct *) right.
      destruct l as [| | | | |fs| | |]; try discriminate. destruct r as [| | | | |gs| | |]; try discriminate.
      cbn [wfd] in W. cbn [kok] in KL, KR. eapply fields_sound; eauto.
    - (* map *) right.
      destruct l as [| | | | | | |ln lk|]; try discriminate. destruct r as [| | | | | | |rn rk|]; try discriminate.
      cbn [wfd] in W. destruct mk as [kn|]; [|discriminate]. destruct mv as [vn|]; [|discriminate].
      apply andb_true_iff in W. destruct W as (EO & WV). pose proof (elem_ok_bytes _ EO) as NB.
      unfold elem_ok in EO. apply andb_true_iff in EO. destruct EO as (EN & _). apply String.eqb_eq in EN.
      apply andb_true_iff in DQ. destruct DQ as (LEN & DQ). rewrite LEN. cbn [andb].
      cbn [kok] in KL, KR. apply andb_true_iff in KL. destruct KL as (KOL & KL). apply andb_true_iff in KR. destruct KR as (KOR & KR).
      assert (REC : forall a b, kok a = true -> kok b = true -> deq sh o vn (Some typeMap) q (S depth) a b = true ->
                    seqv sh skip (Some (eff_prec o)) vn q a b = true).
      { intros a b KA KB DA. pose proof (IHv vn eq_refl WV (Some typeMap) q (S depth) a b) as X.
        rewrite EN, deq_path_elem in X by exact CQ. destruct X as [(X & _)|X]; auto. discriminate. }
      destruct (n_ptr kn).
      + unfold deq_entries_ptr in DQ. destruct sh; [|exact DQ].
        eapply forallb2_impl2; [|exact DQ]. intros a b IA IB. cbv beta. apply REC.
        * apply (forallb_In _ _ _ KL IA).
        * apply (forallb_In _ _ _ KR IB).
      + apply Nat.eqb_eq in LEN.
        destruct lk as [|e0 lk0] eqn:ELK.
        { destruct rk; [reflexivity|discriminate]. }
        rewrite <- ELK in *. assert (NEL : lk <> []) by (rewrite ELK; discriminate). clear ELK e0 lk0.
        apply orb_true_iff in KOL. destruct KOL as [KOL|KOL]; [|rewrite (entries_allptr_l _ lk rk KOL NEL) in DQ; discriminate].
        apply orb_true_iff in KOR. destruct KOR as [KOR|KOR]; [|rewrite (entries_allptr_r _ lk rk KOR NEL) in DQ; discriminate].
        unfold deq_entries in DQ.
        assert (H1 : forall k v, In (k, v) lk -> exists v', map_find rk k = Some v' /\ deq sh o vn (Some typeMap) q (S depth) v v' = true).
        { intros k v IK. pose proof (forallb_In _ _ _ DQ IK) as X. cbv beta in X. cbn [fst snd] in X.
          destruct (map_find rk k) as [v'|]; [|discriminate]. eauto. }
        apply andb_true_iff. split.
        * unfold keys_within. apply forallb_forall. intros [k v] IK. cbn [fst snd].
          destruct (H1 k v IK) as (v' & F & D). rewrite F. apply REC; auto.
          -- apply (forallb_In _ _ _ KL IK).
          -- apply map_find_some in F. destruct F as (k1 & I1 & _). apply (forallb_In _ _ _ KR I1).
        * unfold keys_within. apply forallb_forall. intros [k' v'] IK. cbn [fst snd].
          destruct (map_pigeonhole (fun _ _ => True) lk rk KOL KOR LEN) with (k' := k') (v' := v') as (v & F & _); auto.
          { intros k v I. destruct (H1 k v I) as (v1 & F1 & _). eauto. }
          rewrite F. reflexivity.
    - (* slice *)
      destruct (String.eqb tn "[]byte") eqn:B.
      + apply orb_true_iff in DQ. destruct DQ as [DQ|DQ].
        * right. destruct l as [| | | |ln d e| | | |]; try discriminate. destruct r as [| | | |rn d' e'| | | |]; try discriminate.
          apply same_bytes_of. exact DQ.
        * left. split; [|exact DQ]. destruct PB as [PB|PB]; [exact PB|]. unfold is_bytes_n in PB. cbn in PB. rewrite B in PB. discriminate.
      + right.
        destruct l as [| | | | | |ln le ex| |]; try discriminate. destruct r as [| | | | | |rn re ex'| |]; try discriminate.
        cbn [wfd] in W. rewrite B in W. cbn [orb] in W. destruct sl as [en|]; [|discriminate].
        apply andb_true_iff in W. destruct W as (EO & WE). pose proof (elem_ok_bytes _ EO) as NB.
        unfold elem_ok in EO. apply andb_true_iff in EO. destruct EO as (EN & _). apply String.eqb_eq in EN.
        apply andb_true_iff in DQ. destruct DQ as (LEN & DQ). rewrite LEN. cbn [andb]. cbn [kok] in KL, KR.
        eapply forallb2_impl2; [|exact DQ]. intros a b IA IB DA. cbv beta in *.
        pose proof (IHs en eq_refl WE (Some typeSlice) q (S depth) a b) as X.
        rewrite EN, deq_path_elem in X by exact CQ. destruct X as [(X & _)|X]; auto; try discriminate.
        -- apply (forallb_In _ _ _ KL IA).
        -- apply (forallb_In _ _ _ KR IB).
    - (* basic *)
      assert (G : go_eqb l r = true ->
                  match l, r with
                  | VFloat f, VFloat g => same_float (Some (eff_prec o)) f g
                  | VBool c, VBool d => Bool.eqb c d
                  | VInt c, VInt d => Z.eqb c d
                  | VStr c, VStr d => String.eqb c d
                  | _, _ => false
                  end = true).
      { unfold go_eqb. destruct l, r; try discriminate; auto. cbn [key_eqb same_float]. intros ->. reflexivity. }
      destruct (par_struct par); [|right; exact (G DQ)].
      apply orb_true_iff in DQ. destruct DQ as [DQ|DQ]; [|left; auto].
      right. destruct (is_float_name tu); [|exact (G DQ)].
      destruct l as [| |a| | | | | |]; try exact (G DQ). destruct r as [| |b| | | | | |]; try exact (G DQ).
      cbn [same_float]. unfold equal_float in DQ. rewrite DQ. apply orb_true_r. }
  destruct p; [|exact NP].
  intros l r CQ KL KR PB DQ.
  destruct l as [| | | | | | | |[x|]]; destruct r as [| | | | | | | |[y|]];
    try (cbn [deq] in DQ; fold q in DQ; rewrite SK;
         match type of DQ with (if ?c then true else _) = true => destruct c eqn:WR end;
         [ left; apply andb_true_iff in WR; destruct WR as (WR & MC); apply andb_true_iff in WR; destruct WR as (WR & _);
           apply andb_true_iff in WR; destruct WR as (PS & _); auto
         | clear WR;
           match type of DQ with (if ?c then _ else false) = true => destruct c eqn:LF; [|discriminate] end;
           left; split; [|exact DQ];
           destruct PB as [PB|PB]; [exact PB|];
           unfold is_bytes_n in PB; cbn [n_typ n_typn] in PB;
           destruct ty; cbn in LF; try discriminate; try (rewrite PB in LF; discriminate);
           try (apply orb_true_iff in LF; destruct LF as [LF|LF]; [rewrite PB in LF; discriminate | exact LF]); exact LF ]; fail).
  - exact (NP x y CQ KL KR PB DQ).
  - right. reflexivity.
Qed.
End Main.
