(* Proofs/FormsGet.v - Get / GetTo answer with the same reference in the three argument
   forms, up to liveness inside the by-value copy of the root object. *)
From Coq Require Import List Bool String Ascii ZArith Arith Lia.
From Verif Require Import Util Ints Strconv Floats Node Value Outcome Get FormsSpec.
Import ListNotations.
Local Open Scope string_scope.
Local Open Scope list_scope.

(* the invariant: same stored value, same place; by value the place is a copy where it is a
   copy by pointer or lies inside the root object *)
Definition flag_forms (cv cp : bool) (l : loc) : Prop := cv = cp || in_root l.

Definition ref_forms (rv rp : ref) : Prop :=
  r_val rv = r_val rp /\ r_loc rv = r_loc rp /\ flag_forms (r_copy rv) (r_copy rp) (r_loc rp).

Definition slot_forms (sv sp : gslot) : Prop :=
  match sv, sp with
  | GS x l c, GS x' l' c' => x = x' /\ l = l' /\ flag_forms c c' l'
  | _, _ => False         (* by value the root pointer is never nil *)
  end.

Definition obj_forms (ov op : gobj) : Prop :=
  match ov, op with
  | ONil, ONil => True
  | OVal x l c, OVal x' l' c' => x = x' /\ l = l' /\ flag_forms c c' l'
  | _, _ => False
  end.

Definition buf_forms (bv bp : option ref) : Prop :=
  bv = bp \/ exists rv rp, bv = Some rv /\ bp = Some rp /\ ref_forms rv rp.

Definition out_forms (ov op : out (option ref)) : Prop :=
  match ov, op with
  | Panic k, Panic k' => k = k'
  | Ret bv ev, Ret bp ep => ev = ep /\ buf_forms bv bp
  | Fall bv, Fall bp => buf_forms bv bp
  | _, _ => False
  end.

Lemma in_root_app l m : in_root (l ++ m) = in_root l && in_root m.
Proof. unfold in_root. apply forallb_app. Qed.

Lemma flag_field cv cp l i : flag_forms cv cp l -> flag_forms cv cp (l ++ [SField i]).
Proof. unfold flag_forms. rewrite in_root_app. cbn. rewrite !andb_true_r. auto. Qed.

Lemma flag_same c l s : (match s with SField _ => false | _ => true end) = true -> flag_forms c c (l ++ [s]).
Proof.
  unfold flag_forms. rewrite in_root_app. intros H. destruct s; try discriminate; cbn; rewrite andb_false_r, orb_false_r; reflexivity.
Qed.

Lemma obj_of_forms p sv sp : slot_forms sv sp -> obj_forms (obj_of p sv) (obj_of p sp).
Proof.
  destruct sv as [x l c|], sp as [x' l' c'|]; cbn; try tauto.
  intros (-> & -> & F). destruct p; [|cbn; auto].
  destruct x' as [| | | | | | | |[y|]]; cbn; auto.
  repeat split. apply flag_same. reflexivity.
Qed.

Lemma ref_of_forms sv sp : slot_forms sv sp -> ref_forms (ref_of sv) (ref_of sp).
Proof.
  destruct sv as [x l c|], sp as [x' l' c'|]; cbn; try tauto.
  intros (-> & -> & F). repeat split; auto.
Qed.

Lemma field_slot_forms ov op idx : obj_forms ov op ->
  match field_slot ov idx, field_slot op idx with
  | None, None => True
  | Some sv, Some sp => slot_forms sv sp
  | _, _ => False
  end.
Proof.
  destruct ov as [x l c|], op as [x' l' c'|]; cbn; try tauto.
  intros (-> & -> & F). destruct x'; cbn; auto.
  destruct (nth_error fs idx); cbn; auto. repeat split. apply flag_field. exact F.
Qed.

Lemma buf_forms_refl b : buf_forms b b.
Proof. left. reflexivity. Qed.

Lemma buf_forms_some rv rp : ref_forms rv rp -> buf_forms (Some rv) (Some rp).
Proof. intros H. right. exists rv, rp. auto. Qed.

Lemma finish_forms ov op : out_forms ov op -> out_forms (finish ov) (finish op).
Proof. destruct ov, op; cbn; try tauto. Qed.

Lemma gwalk_forms (recv recp : node -> gslot -> out (option ref)) ov op oseg buf chs :
  obj_forms ov op ->
  Forall (fun ch => forall sv sp, slot_forms sv sp -> out_forms (recv ch sv) (recp ch sp)) chs ->
  forall idx, out_forms (gwalk recv ov oseg buf chs idx) (gwalk recp op oseg buf chs idx).
Proof.
  intros O F. induction F as [|ch rest Hch _ IH]; intros idx; cbn [gwalk].
  - apply buf_forms_refl.
  - destruct oseg as [seg|]; [|reflexivity].
    destruct (String.eqb seg (n_name ch)); [|apply IH].
    pose proof (field_slot_forms ov op idx O) as FS.
    destruct (field_slot ov idx) as [sv|], (field_slot op idx) as [sp|]; try tauto; [|reflexivity].
    destruct (is_basic_child ch).
    + split; [reflexivity|]. apply buf_forms_some. apply ref_of_forms. exact FS.
    + apply finish_forms. apply Hch. exact FS.
Qed.

Section L.
Variable legacy : bool.

Lemma get_node_forms : forall n ov op selfv selfp depth path buf,
  obj_forms ov op -> ref_forms selfv selfp ->
  out_forms (get_node legacy n ov selfv depth path buf) (get_node legacy n op selfp depth path buf).
Proof.
  intros n. induction n using node_ind'. intros ov op selfv selfp depth path buf O RS.
  assert (ENTER : forall ch, (forall ov op selfv selfp depth path buf,
              obj_forms ov op -> ref_forms selfv selfp ->
              out_forms (get_node legacy ch ov selfv depth path buf) (get_node legacy ch op selfp depth path buf)) ->
            forall sv sp, slot_forms sv sp ->
            out_forms (get_node legacy ch (obj_of (n_ptr ch) sv) (ref_of sv) (S depth) path buf)
                      (get_node legacy ch (obj_of (n_ptr ch) sp) (ref_of sp) (S depth) path buf)).
  { intros ch IHch sv sp SF. apply IHch; [apply obj_of_forms|apply ref_of_forms]; exact SF. }
  assert (NIL : forall kv kp : out (option ref), out_forms kv kp ->
            out_forms (if p then match ov with ONil => Ret buf None | OVal _ _ _ => kv end else kv)
                      (if p then match op with ONil => Ret buf None | OVal _ _ _ => kp end else kp)).
  { intros kv kp K. destruct p; [|exact K].
    destruct ov, op; cbn in O; try tauto. split; [reflexivity|apply buf_forms_refl]. }
  cbn [get_node].
  destruct ty.
  - (* struct *)
    set (innerv := if p then _ else _). set (innerp := if p then _ else _).
    assert (INNER : out_forms innerv innerp).
    { subst innerv innerp. apply NIL. apply gwalk_forms; [exact O|].
      eapply Forall_impl; [|exact H]. cbn beta. intros ch IHch sv sp SF. apply ENTER; assumption. }
    clearbody innerv innerp.
    destruct legacy.
    + destruct (Nat.ltb depth (List.length path)).
      * destruct innerv, innerp; cbn in INNER |- *; try tauto.
        destruct (Nat.eqb depth 0); [exact INNER|apply buf_forms_some; exact RS].
      * cbn. destruct (Nat.eqb depth 0); [apply buf_forms_refl|apply buf_forms_some; exact RS].
    + destruct (Nat.ltb depth (List.length path)); [exact INNER|].
      cbn. destruct (Nat.eqb depth 0); [apply buf_forms_refl|apply buf_forms_some; exact RS].
  - (* map *)
    set (innerv := if p then _ else _). set (innerp := if p then _ else _).
    assert (INNER : out_forms innerv innerp).
    { subst innerv innerp. apply NIL.
      destruct mk as [kn|]; [|apply buf_forms_refl]. destruct mv as [vn|]; [|apply buf_forms_refl].
      destruct (nth_error path depth) as [seg|]; [|reflexivity].
      assert (CONT : forall k xv l cv cp, flag_forms cv cp l ->
                out_forms (get_node legacy vn (obj_of (n_ptr vn) (GS xv (l ++ [SKey k]) true)) (ref_of (GS xv (l ++ [SKey k]) true)) (S depth) path buf)
                          (get_node legacy vn (obj_of (n_ptr vn) (GS xv (l ++ [SKey k]) true)) (ref_of (GS xv (l ++ [SKey k]) true)) (S depth) path buf)).
      { intros k xv l cv cp _. apply ENTER; [apply H1; reflexivity|].
        cbn. repeat split; try (apply flag_same; reflexivity). }
      destruct (is_string_key kn).
      - destruct ov as [x l c|], op as [x' l' c'|]; cbn in O; try tauto; [|reflexivity].
        destruct O as (-> & -> & F). destruct x'; try reflexivity.
        destruct (lookup kn kvs (VStr seg)); [eapply CONT; exact F|apply buf_forms_refl].
      - destruct (conv_key kn seg) as [k|]; [|split; [reflexivity|apply buf_forms_refl]].
        destruct ov as [x l c|], op as [x' l' c'|]; cbn in O; try tauto; [|reflexivity].
        destruct O as (-> & -> & F). destruct x'; try reflexivity.
        eapply CONT; exact F. }
    clearbody innerv innerp.
    destruct legacy.
    + destruct (Nat.ltb depth (List.length path)).
      * destruct innerv, innerp; cbn in INNER |- *; try tauto.
        destruct (Nat.eqb depth 0); [exact INNER|apply buf_forms_some; exact RS].
      * cbn. destruct (Nat.eqb depth 0); [apply buf_forms_refl|apply buf_forms_some; exact RS].
    + destruct (Nat.ltb depth (List.length path)); [exact INNER|].
      cbn. destruct (Nat.eqb depth 0); [apply buf_forms_refl|apply buf_forms_some; exact RS].
  - (* slice *)
    set (innerv := if p then _ else _). set (innerp := if p then _ else _).
    assert (INNER : out_forms innerv innerp).
    { subst innerv innerp. apply NIL.
      destruct (String.eqb tn "[]byte"); [split; [reflexivity|apply buf_forms_some; exact RS]|].
      destruct sl as [en|]; [|apply buf_forms_refl].
      destruct (nth_error path depth) as [seg|]; [|reflexivity].
      destruct (conv_index seg) as [i|]; [|split; [reflexivity|apply buf_forms_refl]].
      destruct ov as [x l c|], op as [x' l' c'|]; cbn in O; try tauto; [|reflexivity].
      destruct O as (-> & -> & F). destruct x'; try reflexivity.
      destruct ((0 <=? i)%Z && (i <? Z.of_nat (List.length es))%Z); [|apply buf_forms_refl].
      destruct (nth_error es (Z.to_nat i)) as [ev|]; [|reflexivity].
      apply ENTER; [apply H2; reflexivity|].
      cbn. repeat split; try (apply flag_same; reflexivity). }
    clearbody innerv innerp.
    destruct legacy.
    + destruct (Nat.ltb depth (List.length path)).
      * destruct innerv, innerp; cbn in INNER |- *; try tauto.
        destruct (Nat.eqb depth 0); [exact INNER|apply buf_forms_some; exact RS].
      * cbn. destruct (Nat.eqb depth 0); [apply buf_forms_refl|apply buf_forms_some; exact RS].
    + destruct (Nat.ltb depth (List.length path)); [exact INNER|].
      cbn. destruct (Nat.eqb depth 0); [apply buf_forms_refl|apply buf_forms_some; exact RS].
  - (* basic *)
    apply NIL. split; [reflexivity|apply buf_forms_some; exact RS].
Qed.

End L.

(* ---------- what the references finally denote ---------- *)
Lemma follow_below_pointer : forall v l x l' c',
  in_root l = false -> follow v l false = Some (x, l', c') -> c' = false /\ in_root l' = false.
Proof.
  intros v. induction v using val_ind'; intros l x l' c' R F; cbn [follow] in F;
    try (inversion F; subst; split; [reflexivity|exact R]).
  - discriminate.
  - apply IHv in F; [exact F|]. rewrite in_root_app, R. reflexivity.
Qed.

Lemma follow_forms v l cv cp : flag_forms cv cp l -> same_denotation (follow v l cv) (follow v l cp).
Proof.
  intros F. destruct v as [| | | | | | | |[y|]]; cbn [follow same_denotation]; auto.
  destruct (follow y (l ++ [SDeref]) false) as [[[x l'] c']|] eqn:E; [|exact I].
  apply follow_below_pointer in E.
  - destruct E as (-> & R). cbn. rewrite R. auto.
  - rewrite in_root_app. cbn. apply andb_false_r.
Qed.

Lemma ref_forms_final rv rp : ref_forms rv rp -> same_denotation (final rv) (final rp).
Proof.
  destruct rv as [xv lv cv], rp as [xp lp cp]. unfold ref_forms, final. cbn.
  intros (-> & -> & F). apply follow_forms. exact F.
Qed.

Lemma out_forms_answer ov op : out_forms ov op -> same_ref_answer ov op.
Proof.
  assert (B : forall bv bp, buf_forms bv bp -> same_buf bv bp).
  { intros bv bp [E|(rv & rp & -> & -> & R)]; [left; exact E|right].
    exists rv, rp. repeat split. apply ref_forms_final. exact R. }
  destruct ov, op; cbn; try tauto.
  - apply B.
  - intros (E & H). split; [exact E|apply B; exact H].
Qed.

(* Get / GetTo: by value against by pointer; by pointer-to-pointer is by pointer *)
Theorem get_to_by_value legacy n v path buf :
  same_ref_answer (get_to legacy n (AVal v) path buf) (get_to legacy n (APtr (Some v)) path buf).
Proof.
  apply out_forms_answer. unfold get_to. cbn [root_slot].
  assert (SF : slot_forms (GS v [] true) (GS v [] false)) by (cbn; repeat split).
  destruct path as [|seg rest].
  - split; [reflexivity|]. apply buf_forms_some. apply ref_of_forms. exact SF.
  - apply finish_forms. apply get_node_forms; [apply obj_of_forms|apply ref_of_forms]; exact SF.
Qed.

Theorem get_to_by_pointer_pointer legacy n v path buf :
  get_to legacy n (APtrPtr (Some (Some v))) path buf = get_to legacy n (APtr (Some v)) path buf.
Proof. reflexivity. Qed.
