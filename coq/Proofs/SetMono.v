From Coq Require Import List Bool String Ascii ZArith Arith Lia Floats.SpecFloat.
From Verif Require Import Util Ints Strconv Floats Node Value Outcome Nav LC LCSound SetEmit SetSpec SetSound.
Import ListNotations.
Local Open Scope string_scope.
Local Open Scope list_scope.

Section Mono.
Variables E1 E2 : node -> val -> val -> bool.
Hypothesis EE : forall n a b, E1 n a b = true -> E2 n a b = true.

Lemma fields_off_mono (r1 r2 : node -> val -> val -> bool) seg : forall chs a b,
  Forall (fun c => forall x y, r1 c x y = true -> r2 c x y = true) chs ->
  fields_off r1 seg chs a b = true -> fields_off r2 seg chs a b = true.
Proof.
  induction chs as [|c r IH]; intros a b F H; destruct a, b; simpl in *; auto.
  inversion F as [|c0 r0 Fc Fr]; subst. apply andb_true_iff in H. destruct H as (Ha & Hb).
  rewrite (IH _ _ Fr Hb), andb_true_r.
  destruct (String.eqb (n_name c) seg); auto.
Qed.

Lemma elems_off_mono (r1 r2 : val -> val -> bool) t : (forall x y, r1 x y = true -> r2 x y = true) ->
  forall a i b, elems_off r1 t i a b = true -> elems_off r2 t i a b = true.
Proof.
  intros R. induction a as [|x r IH]; intros i b H; destruct b; simpl in *; auto.
  apply andb_true_iff in H. destruct H as (Ha & Hb). rewrite (IH _ _ Hb), andb_true_r.
  destruct t as [t|]; auto. destruct (Nat.eqb i t); auto.
Qed.

Lemma offb_mono : forall n path v v', offb E1 n path v v' = true -> offb E2 n path v v' = true.
Proof.
  intros n. induction n using node_ind'. intros path v v'.
  destruct path as [|seg rest]; cbn [offb]; [apply EE|].
  assert (IN : forall x x',
    match ty with
    | typeStruct => match x, x' with VStruct a, VStruct b => fields_off (fun c f f' => offb E1 c rest f f') seg chld a b | _, _ => false end
    | typeMap => match x, x', mk, mv with
        | VMap nl kvs, VMap nl' kvs', Some kn, Some vn =>
          (negb nl' || nl) &&
          match conv_key kn seg with
          | None => kvs_eqb kvs kvs'
          | Some k =>
            kvs_eqb (filter (fun kv => negb (key_match kn k (fst kv))) kvs) (filter (fun kv => negb (key_match kn k (fst kv))) kvs') &&
            (n_ptr kn || match map_find kvs k, map_find kvs' k with
               | Some e, Some e' => offb E1 vn rest e e' | None, None => true
               | None, Some e' => offb E1 vn rest (zero_val vn) e' | Some _, None => false end)
          end
        | _, _, _, _ => false end
    | typeSlice => if String.eqb tn "[]byte" then true else
        match x, x', sl with
        | VSlice nl es _, VSlice nl' es' _, Some en =>
          (negb nl' || nl) &&
          let target := match conv_index seg with
                        | Some i => if ((0 <=? i) && (i <? Z.of_nat (List.length es)))%Z then Some (Z.to_nat i) else None
                        | None => None end in
          elems_off (fun e e' => offb E1 en rest e e') target 0 es es'
        | _, _, _ => false end
    | typeBasic => true end = true ->
    match ty with
    | typeStruct => match x, x' with VStruct a, VStruct b => fields_off (fun c f f' => offb E2 c rest f f') seg chld a b | _, _ => false end
    | typeMap => match x, x', mk, mv with
        | VMap nl kvs, VMap nl' kvs', Some kn, Some vn =>
          (negb nl' || nl) &&
          match conv_key kn seg with
          | None => kvs_eqb kvs kvs'
          | Some k =>
            kvs_eqb (filter (fun kv => negb (key_match kn k (fst kv))) kvs) (filter (fun kv => negb (key_match kn k (fst kv))) kvs') &&
            (n_ptr kn || match map_find kvs k, map_find kvs' k with
               | Some e, Some e' => offb E2 vn rest e e' | None, None => true
               | None, Some e' => offb E2 vn rest (zero_val vn) e' | Some _, None => false end)
          end
        | _, _, _, _ => false end
    | typeSlice => if String.eqb tn "[]byte" then true else
        match x, x', sl with
        | VSlice nl es _, VSlice nl' es' _, Some en =>
          (negb nl' || nl) &&
          let target := match conv_index seg with
                        | Some i => if ((0 <=? i) && (i <? Z.of_nat (List.length es)))%Z then Some (Z.to_nat i) else None
                        | None => None end in
          elems_off (fun e e' => offb E2 en rest e e') target 0 es es'
        | _, _, _ => false end
    | typeBasic => true end = true).
  { intros x x'. destruct ty; auto.
    - destruct x; auto. destruct x'; auto. apply fields_off_mono.
      eapply Forall_impl; [|exact H]. intros c IH a b. apply IH.
    - destruct x; auto. destruct x'; auto. destruct mk as [kn|]; auto. destruct mv as [vn|]; auto.
      intros A. apply andb_true_iff in A. destruct A as (A1 & A2). rewrite A1. cbn [andb].
      destruct (conv_key kn seg); auto. apply andb_true_iff in A2. destruct A2 as (A2 & A3). rewrite A2. cbn [andb].
      destruct (n_ptr kn); auto. cbn [orb] in *.
      destruct (map_find kvs v0), (map_find kvs0 v0); auto; apply (H1 vn eq_refl); exact A3.
    - destruct (String.eqb tn "[]byte"); auto. destruct x; auto. destruct x'; auto. destruct sl as [en|]; auto.
      intros A. apply andb_true_iff in A. destruct A as (A1 & A2). rewrite A1. cbn [andb].
      eapply elems_off_mono; [|exact A2]. intros a b. apply (H2 en eq_refl). }
  destruct p; [|apply IN].
  destruct v as [| | | | | | | |[x|]]; auto; destruct v' as [| | | | | | | |[x'|]]; auto; apply IN.
Qed.
End Mono.

Lemma frame_of_store s buf n path v v' : offb (E_end s buf) n path v v' = true -> frame_ok n path v v' = true.
Proof. apply offb_mono. reflexivity. Qed.
