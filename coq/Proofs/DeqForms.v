(* Proofs/DeqForms.v - the answer of DeepEqual / DeepEqualWithOptions does not depend on the form
   (T, *T, **T) either operand is handed over in: after the header's type switch all three forms of a
   value leave the same x. *)
From Coq Require Import List Bool String Ascii ZArith Arith.
From Verif Require Import Util Ints Floats Node Value Outcome Deq DeqSpec DeqKeys DeqPaths DeqSound DeqSym DeqRefl DeqMain.
Import ListNotations.

Lemma header_x_value_form : forall f v, In f value_forms -> header_x (arg_of_form f v) = inl (Some (CVal v)).
Proof.
  intros f v Hin. unfold value_forms in Hin. simpl in Hin.
  destruct Hin as [H | [H | [H | H]]]; try contradiction; subst f; reflexivity.
Qed.

Lemma deep_equal_form_independent : forall n sh o lf rf lf' rf' a b,
  In lf value_forms -> In rf value_forms -> In lf' value_forms -> In rf' value_forms ->
  deep_equal_with_options n sh (arg_of_form lf a) (arg_of_form rf b) o =
  deep_equal_with_options n sh (arg_of_form lf' a) (arg_of_form rf' b) o.
Proof.
  intros n sh o lf rf lf' rf' a b Hl Hr Hl' Hr'. unfold deep_equal_with_options.
  rewrite (header_x_value_form lf a Hl), (header_x_value_form rf b Hr),
          (header_x_value_form lf' a Hl'), (header_x_value_form rf' b Hr'). reflexivity.
Qed.

(* in particular every form combination answers what the (pointer, pointer) call answers *)
Lemma deep_equal_form_ptr : forall n sh o lf rf a b,
  In lf value_forms -> In rf value_forms ->
  deep_equal_with_options n sh (arg_of_form lf a) (arg_of_form rf b) o =
  deep_equal_with_options n sh (APtr (Some a)) (APtr (Some b)) o.
Proof.
  intros n sh o lf rf a b Hl Hr.
  change (APtr (Some a)) with (arg_of_form "p" a). change (APtr (Some b)) with (arg_of_form "p" b).
  apply deep_equal_form_independent; auto; unfold value_forms; simpl; auto.
Qed.

(* the verdict of the text holds for every combination of value forms *)
Lemma deep_equal_meets_c05_forms : forall n sh lf rf a b,
  In lf value_forms -> In rf value_forms ->
  wfroot n = true -> finv a = true -> kok a = true -> kok b = true ->
  meets (deep_equal n sh (arg_of_form lf a) (arg_of_form rf b)) (c05_demand sh n a b).
Proof.
  intros n sh lf rf a b Hl Hr Hwf Hf Ha Hb. unfold deep_equal.
  rewrite (deep_equal_form_ptr n sh None lf rf a b Hl Hr).
  exact (deep_equal_meets_c05 n sh a b Hwf Hf Ha Hb).
Qed.

Lemma deep_equal_meets_c11_forms : forall n o lf rf a b,
  In lf value_forms -> In rf value_forms ->
  wfroot n = true -> finv a = true -> kok a = true -> kok b = true ->
  meets (deep_equal_with_options n false (arg_of_form lf a) (arg_of_form rf b) o) (c11_demand (opts_spec o) n a b).
Proof.
  intros n o lf rf a b Hl Hr Hwf Hf Ha Hb.
  rewrite (deep_equal_form_ptr n false o lf rf a b Hl Hr).
  exact (deep_equal_meets_c11 n o a b Hwf Hf Ha Hb).
Qed.
