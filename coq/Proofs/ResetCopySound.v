(* Proofs/ResetCopySound.v - Reset empties; CopyTo into an empty destination reproduces
   the source up to the stated identifications; Reset-then-CopyTo histories. *)
From Coq Require Import List Bool String Ascii ZArith Arith Lia Floats.SpecFloat.
From Verif Require Import Util Ints Strconv Floats Node Value Outcome LCSound InsReset InsCopy EmptySpec.
Import ListNotations.
Local Open Scope string_scope.
Local Open Scope list_scope.

(* ---------- the local fixpoints of emp / canon as list functions ---------- *)
Lemma emp_struct pz fs : emp pz (VStruct fs) = forallb (emp pz) fs.
Proof. cbn [emp]. induction fs as [|x r IH]; [reflexivity|]. cbn [forallb]. rewrite <- IH. reflexivity. Qed.

Lemma canon_struct pz fs : canon pz (VStruct fs) = VStruct (map (canon pz) fs).
Proof. cbn [canon]. apply f_equal. induction fs as [|x r IH]; [reflexivity|]. cbn [map]. rewrite <- IH. reflexivity. Qed.

Definition is_nil_list {A} (l : list A) : bool := match l with [] => true | _ => false end.

Lemma canon_slice pz b es e : canon pz (VSlice b es e) = VSlice (is_nil_list es) (map (canon pz) es) 0.
Proof.
  cbn [canon].
  assert (E : forall l, (fix go (l : list val) : list val := match l with [] => [] | x :: r => canon pz x :: go r end) l = map (canon pz) l).
  { induction l as [|x r IH]; [reflexivity|]. cbn [map]. rewrite <- IH. reflexivity. }
  rewrite E. destruct es; reflexivity.
Qed.

Definition canon_kv pz (kv : val * val) : val * val := (canon pz (fst kv), canon pz (snd kv)).

Lemma canon_map pz b kvs : canon pz (VMap b kvs) = VMap (is_nil_list kvs) (map (canon_kv pz) kvs).
Proof.
  cbn [canon].
  assert (E : forall l, (fix go (l : list (val * val)) : list (val * val) :=
             match l with [] => [] | (k, x) :: r => (canon pz k, canon pz x) :: go r end) l = map (canon_kv pz) l).
  { induction l as [|[k x] r IH]; [reflexivity|]. cbn [map]. rewrite <- IH. reflexivity. }
  rewrite E. destruct kvs; reflexivity.
Qed.

(* emptiness is a property of the normal form *)
Lemma emp_canon pz : forall v, emp pz (canon pz v) = emp pz v.
Proof.
  induction v as [b|z|f|s|nb d e|fs H|nb es e H|nb kvs H| |v IHv] using val_ind'; try reflexivity.
  - rewrite canon_struct, !emp_struct. induction H as [|x r Hx Hr IH]; [reflexivity|].
    cbn [map forallb]. rewrite Hx, IH. reflexivity.
  - rewrite canon_slice. destruct es; reflexivity.
  - rewrite canon_map. destruct kvs; reflexivity.
  - cbn [canon emp]. destruct pz; cbn [andb].
    + destruct (emp true v) eqn:E; [reflexivity|]. cbn [emp andb]. exact IHv.
    + reflexivity.
Qed.

Lemma canon_emp_eq pz a b : canon pz a = canon pz b -> emp pz a = emp pz b.
Proof. intros H. rewrite <- (emp_canon pz a), <- (emp_canon pz b), H. reflexivity. Qed.

(* ---------- wfn does not look at the pointer flag ---------- *)
Lemma wfn_set_ptr n b : wfn (set_ptr n b) = wfn n.
Proof. destruct n; reflexivity. Qed.

(* ---------- zero values are empty in both senses ---------- *)
Lemma emp_zero pz : forall n, wfn n = true -> emp pz (zero_val n) = true.
Proof.
  intros n. induction n using node_ind'. intros W. cbn [zero_val].
  destruct p; [reflexivity|]. cbn [wfn] in W.
  destruct ty.
  - rewrite emp_struct. apply andb_true_iff in W. destruct W as (_ & W).
    induction H as [|c r Hc Hr IH]; [reflexivity|]. cbn [forallb] in W. apply andb_true_iff in W. destruct W as (Wc & Wr).
    cbn [map forallb]. rewrite (Hc Wc), (IH Wr). reflexivity.
  - reflexivity.
  - destruct (String.eqb tn "[]byte"); reflexivity.
  - apply andb_true_iff in W. destruct W as (_ & W).
    destruct (skind_of_name tu) as [k|]; [|discriminate]. destruct k; reflexivity.
Qed.

Lemma zero_target_wt n : wfn n = true -> wtb (set_ptr n false) (zero_target n) = true.
Proof. intros W. unfold zero_target. apply wtb_zero. rewrite wfn_set_ptr. exact W. Qed.

Lemma zero_target_emp pz n : wfn n = true -> emp pz (zero_target n) = true.
Proof. intros W. unfold zero_target. apply emp_zero. rewrite wfn_set_ptr. exact W. Qed.

(* ---------- Reset ---------- *)
Lemma zero_scalar_ok k : scalar_range_ok k (zero_scalar k) = true /\ emp true (zero_scalar k) = true /\ emp false (zero_scalar k) = true.
Proof. destruct k as [|i| | | |]; try (repeat split; reflexivity). destruct i; repeat split; reflexivity. Qed.

Lemma reset_literal_wf tn tu k : skind_of_name tu = Some k -> reset_literal tn tu = Some (zero_scalar k).
Proof.
  intros K. unfold reset_literal.
  destruct (String.eqb tu "") eqn:E0; [apply String.eqb_eq in E0; subst tu; discriminate|].
  destruct (String.eqb tu "rune") eqn:E1; [apply String.eqb_eq in E1; subst tu; discriminate|].
  rewrite K. reflexivity.
Qed.

Lemma reset_fields_sound (chld : list node) :
  Forall (fun n => wfn n = true -> forall v, wtb n v = true ->
                   wtb n (reset n v) = true /\ emp true (reset n v) = true) chld ->
  forallb wfn chld = true ->
  forall fs, forallb2 wtb chld fs = true ->
  forallb2 wtb chld (reset_fields reset chld fs) = true /\ forallb (emp true) (reset_fields reset chld fs) = true.
Proof.
  induction 1 as [|c r Hc Hr IH]; intros W fs WT.
  - destruct fs; [split; reflexivity|discriminate].
  - destruct fs as [|f fr]; [discriminate|].
    cbn [forallb] in W. apply andb_true_iff in W. destruct W as (Wc & Wr).
    cbn [forallb2] in WT. apply andb_true_iff in WT. destruct WT as (Tc & Tr).
    cbn [reset_fields forallb2 forallb].
    destruct (Hc Wc f Tc) as (A & B). destruct (IH Wr fr Tr) as (C & D).
    fold (reset_fields reset r fr). rewrite A, B, C, D. split; reflexivity.
Qed.

Theorem reset_sound : forall n, wfn n = true -> forall v, wtb n v = true ->
  wtb n (reset n v) = true /\ emp true (reset n v) = true.
Proof.
  intros n. induction n using node_ind'. intros W v WT.
  set (n0 := Node ty tn tu nm pk pki false chld mk mv sl hb hc).
  assert (CORE : forall x, wtb n0 x = true -> wtb n0 (reset n0 x) = true /\ emp true (reset n0 x) = true).
  { intros x WX. unfold n0 in *. cbn [wfn] in W. cbn [wtb] in WX. cbn [reset wtb].
    destruct ty.
    - (* struct *)
      destruct x; try discriminate.
      apply andb_true_iff in W. destruct W as (_ & WC).
      destruct (reset_fields_sound chld H WC fs WX) as (A & B).
      rewrite emp_struct. split; assumption.
    - (* map *)
      destruct x; try discriminate. destruct mk, mv; try discriminate. split; reflexivity.
    - (* slice *)
      destruct (String.eqb tn "[]byte").
      + destruct x; try discriminate. split; reflexivity.
      + destruct x; try discriminate. destruct sl; try discriminate. split; reflexivity.
    - (* basic *)
      apply andb_true_iff in W. destruct W as (_ & W).
      destruct (skind_of_name tu) as [k|] eqn:K; [|discriminate].
      rewrite (reset_literal_wf tn tu k K).
      destruct (zero_scalar_ok k) as (A & B & _). split; assumption. }
  destruct p.
  - change (reset (Node ty tn tu nm pk pki true chld mk mv sl hb hc) v)
      with (match v with VPtr (Some x) => VPtr (Some (reset n0 x)) | _ => v end).
    destruct v as [| | | | | | | |[x|]]; try (cbn [wtb] in WT; discriminate).
    + change (wtb n0 x = true) in WT. destruct (CORE x WT) as (A & B).
      split; [exact A|]. cbn [emp andb]. exact B.
    + split; reflexivity.
  - exact (CORE v WT).
Qed.

(* ---------- writing entries into a destination map ---------- *)
Lemma skey_dkey kn a b : skey_eqb kn a b = dkey_eqb kn a b.
Proof. reflexivity. Qed.

Lemma map_set_fresh kn : forall acc k v,
  existsb (fun k' => dkey_eqb kn k' k) (map fst acc) = false -> map_set kn acc k v = acc ++ [(k, v)].
Proof.
  induction acc as [|[k' v'] r IH]; intros k v E; [reflexivity|].
  cbn [map fst existsb] in E. apply orb_false_iff in E. destruct E as (E1 & E2).
  cbn [map_set]. rewrite E1. rewrite (IH k v E2). reflexivity.
Qed.

Lemma keys_distinct_app_cons kn : forall a k b,
  keys_distinct kn (a ++ k :: b) = true ->
  existsb (fun k' => skey_eqb kn k' k) a = false /\ keys_distinct kn ((a ++ [k]) ++ b) = true.
Proof.
  intros a k b H. split.
  - induction a as [|x a IH]; [reflexivity|].
    cbn [app keys_distinct] in H. apply andb_true_iff in H. destruct H as (H1 & H2).
    cbn [existsb]. rewrite (IH H2). apply negb_true_iff in H1.
    rewrite existsb_app in H1. apply orb_false_iff in H1. destruct H1 as (_ & H1).
    cbn [existsb] in H1. apply orb_false_iff in H1. destruct H1 as (H1 & _). rewrite H1. reflexivity.
  - rewrite <- app_assoc. exact H.
Qed.

Lemma existsb_map_keys kn (f : val -> val) x : forall pre,
  (forall a, In a pre -> dkey_eqb kn (f a) (f x) = skey_eqb kn a x) ->
  existsb (fun k' => dkey_eqb kn k' (f x)) (map f pre) = existsb (fun k' => skey_eqb kn k' x) pre.
Proof.
  induction pre as [|p pre IH]; intros Hf; [reflexivity|].
  cbn [map existsb]. rewrite (Hf p (or_introl eq_refl)). rewrite IH; [reflexivity|].
  intros a Ha. apply Hf. right; exact Ha.
Qed.

Section FoldSet.
  Variable kn : node.
  Variables (f g : val -> val).
  Let h (kv : val * val) : val * val := (f (fst kv), g (snd kv)).
  Let step (acc : list (val * val)) (kv : val * val) := map_set kn acc (f (fst kv)) (g (snd kv)).

  Lemma fold_set_distinct : forall l pre,
    (forall a b, In a (map fst (pre ++ l)) -> In b (map fst (pre ++ l)) -> dkey_eqb kn (f a) (f b) = skey_eqb kn a b) ->
    keys_distinct kn (map fst (pre ++ l)) = true ->
    fold_left step l (map h pre) = map h (pre ++ l).
  Proof.
    induction l as [|x r IH]; intros pre Hf D.
    - rewrite app_nil_r. reflexivity.
    - cbn [fold_left].
      assert (A : pre ++ x :: r = (pre ++ [x]) ++ r) by (rewrite <- app_assoc; reflexivity).
      pose proof D as D0.
      rewrite map_app in D. cbn [map] in D.
      destruct (keys_distinct_app_cons kn _ _ _ D) as (F & D').
      assert (S1 : step (map h pre) x = map h (pre ++ [x])).
      { unfold step. rewrite map_set_fresh.
        - rewrite map_app. reflexivity.
        - assert (E : map fst (map h pre) = map f (map fst pre)).
          { rewrite !map_map. reflexivity. }
          rewrite E. rewrite existsb_map_keys; [exact F|].
          intros a Ha. apply Hf.
          + rewrite map_app. apply in_or_app. left; exact Ha.
          + rewrite map_app. apply in_or_app. right. left. reflexivity. }
      rewrite S1. rewrite A. apply IH.
      + rewrite <- A. exact Hf.
      + rewrite map_app, map_app. cbn [map]. exact D'.
  Qed.
End FoldSet.

Lemma map_set_wt kn vn : forall acc k v,
  forallb (fun kv => wtb kn (fst kv) && wtb vn (snd kv)) acc = true -> wtb kn k = true -> wtb vn v = true ->
  forallb (fun kv => wtb kn (fst kv) && wtb vn (snd kv)) (map_set kn acc k v) = true.
Proof.
  induction acc as [|[k' v'] r IH]; intros k v A K V.
  - cbn. rewrite K, V. reflexivity.
  - cbn [forallb fst snd] in A. apply andb_true_iff in A. destruct A as (A1 & A2).
    apply andb_true_iff in A1. destruct A1 as (K' & V').
    cbn [map_set]. destruct (dkey_eqb kn k' k); cbn [forallb fst snd].
    + rewrite K', V, A2. reflexivity.
    + rewrite K', V', (IH k v A2 K V). reflexivity.
Qed.

(* ---------- Copy ---------- *)
Definition cpy_ok (n : node) : Prop :=
  wfn n = true -> forall l r, wtb n l = true -> wtb n r = true ->
  wtb n (cpy n l r) = true /\
  (forall pz, gov n r = true -> emp pz l = true -> canon pz (cpy n l r) = canon pz r).

Lemma cpy_fields_sound (chld : list node) :
  Forall cpy_ok chld -> forallb wfn chld = true ->
  forall ls rs, forallb2 wtb chld ls = true -> forallb2 wtb chld rs = true ->
  forallb2 wtb chld (cpy_fields cpy chld ls rs) = true /\
  (forall pz, forallb2 gov chld rs = true -> forallb (emp pz) ls = true ->
              map (canon pz) (cpy_fields cpy chld ls rs) = map (canon pz) rs).
Proof.
  induction 1 as [|c r Hc Hr IH]; intros W ls rs TL TR.
  - destruct ls; [|discriminate]. destruct rs; [|discriminate]. split; [reflexivity|]. intros; reflexivity.
  - destruct ls as [|l lr]; [discriminate|]. destruct rs as [|x xr]; [discriminate|].
    cbn [forallb] in W. apply andb_true_iff in W. destruct W as (Wc & Wr).
    cbn [forallb2] in TL, TR. apply andb_true_iff in TL. destruct TL as (L1 & L2).
    apply andb_true_iff in TR. destruct TR as (R1 & R2).
    cbn [cpy_fields]. fold (cpy_fields cpy r lr xr).
    destruct (Hc Wc l x L1 R1) as (A & B). destruct (IH Wr lr xr L2 R2) as (C & D).
    split.
    + cbn [forallb2]. rewrite A, C. reflexivity.
    + intros pz G E. cbn [forallb2] in G. apply andb_true_iff in G. destruct G as (G1 & G2).
      cbn [forallb] in E. apply andb_true_iff in E. destruct E as (E1 & E2).
      cbn [map]. rewrite (B pz G1 E1), (D pz G2 E2). reflexivity.
Qed.

Lemma gov_basic n v : n_typ n = typeBasic -> gov n v = true.
Proof. destruct n as [ty tn tu nm pk pki p chld mk mv sl hb hc]. cbn [n_typ]. intros ->. cbn [gov]. destruct p; [destruct v as [| | | | | | | |[x|]]|]; reflexivity. Qed.

Lemma cpy_key_eq kn a b : n_typ kn = typeBasic -> wtb kn a = true -> wtb kn b = true ->
  dkey_eqb kn (cpy kn (zero_val kn) a) (cpy kn (zero_val kn) b) = skey_eqb kn a b.
Proof.
  destruct kn as [ty tn tu nm pk pki p chld mk mv sl hb hc]. cbn [n_typ]. intros -> A B.
  unfold dkey_eqb, skey_eqb. cbn [n_ptr]. cbn [cpy zero_val]. destruct p.
  - cbn [wtb] in A, B.
    destruct a as [| | | | | | | |[x|]]; try discriminate; destruct b as [| | | | | | | |[y|]]; try discriminate; reflexivity.
  - reflexivity.
Qed.

Lemma forallb_In {A} (f : A -> bool) l x : forallb f l = true -> In x l -> f x = true.
Proof. intros H I. rewrite forallb_forall in H. apply H; exact I. Qed.

Theorem cpy_sound : forall n, cpy_ok n.
Proof.
  intros n. induction n using node_ind'. intros W l r WL WR.
  set (n0 := Node ty tn tu nm pk pki false chld mk mv sl hb hc).
  assert (W0 : wfn n0 = true) by exact W.
  assert (CORE : forall l r, wtb n0 l = true -> wtb n0 r = true ->
            wtb n0 (cpy n0 l r) = true /\
            (forall pz, gov n0 r = true -> emp pz l = true -> canon pz (cpy n0 l r) = canon pz r)).
  { clear l r WL WR. intros l r WL WR. unfold n0 in *. cbn [wfn] in W. cbn [wtb] in WL, WR. cbn [cpy wtb gov].
    destruct ty.
    - (* struct *)
      destruct l as [| | | | |lfs| | |]; try discriminate. destruct r as [| | | | |rfs| | |]; try discriminate.
      apply andb_true_iff in W. destruct W as (_ & WC).
      destruct (cpy_fields_sound chld H WC lfs rfs WL WR) as (A & B).
      split; [exact A|]. intros pz G E. rewrite emp_struct in E.
      rewrite !canon_struct. rewrite (B pz G E). reflexivity.
    - (* map *)
      destruct l as [| | | | | | |lnil lkvs|]; try discriminate. destruct r as [| | | | | | |rnil rkvs|]; try discriminate.
      destruct mk as [kn|]; [|discriminate]. destruct mv as [vn|]; [|discriminate].
      apply andb_true_iff in W. destruct W as (_ & W).
      apply andb_true_iff in W. destruct W as (W & _). apply andb_true_iff in W. destruct W as (W & KB).
      apply andb_true_iff in W. destruct W as (Wk & Wv).
      assert (KB' : n_typ kn = typeBasic) by (destruct (n_typ kn); try discriminate; reflexivity).
      pose proof (H0 kn eq_refl Wk) as Pk. pose proof (H1 vn eq_refl Wv) as Pv.
      set (f := fun k => cpy kn (zero_val kn) k). set (g := fun x => cpy vn (zero_val vn) x).
      destruct rkvs as [|kv0 rk']; [split; [exact WL|]; intros pz _ E; rewrite !canon_map; destruct lkvs; [reflexivity|discriminate]|].
      set (rkvs := kv0 :: rk') in *.
      assert (TF : forall kv, In kv rkvs -> wtb kn (f (fst kv)) = true /\ wtb vn (g (snd kv)) = true).
      { intros kv I. pose proof (forallb_In _ _ _ WR I) as T. cbn beta in T. apply andb_true_iff in T. destruct T as (T1 & T2).
        split; [apply (Pk (zero_val kn) (fst kv) (wtb_zero kn Wk) T1)|apply (Pv (zero_val vn) (snd kv) (wtb_zero vn Wv) T2)]. }
      split.
      + (* typing *)
        assert (GEN : forall l acc, (forall kv, In kv l -> In kv rkvs) ->
                  forallb (fun kv => wtb kn (fst kv) && wtb vn (snd kv)) acc = true ->
                  forallb (fun kv => wtb kn (fst kv) && wtb vn (snd kv))
                    (fold_left (fun acc kv => map_set kn acc (f (fst kv)) (g (snd kv))) l acc) = true).
        { induction l as [|x xs IHl]; intros acc SUB A; [exact A|]. cbn [fold_left]. apply IHl.
          - intros kv I. apply SUB. right; exact I.
          - destruct (TF x (SUB x (or_introl eq_refl))) as (T1 & T2). apply map_set_wt; assumption. }
        apply GEN; [auto|exact WL].
      + intros pz G E. destruct lkvs; [|discriminate].
        apply andb_true_iff in G. destruct G as (GV & GD).
        pose proof (fold_set_distinct kn f g rkvs []) as FS. cbn [app map] in FS.
        rewrite FS; [|intros a b Ia Ib; apply cpy_key_eq; [exact KB'| |]|exact GD].
        * rewrite !canon_map. unfold rkvs at 1 3. cbn [is_nil_list map]. f_equal.
          fold (map (canon_kv pz)). 
          change ((canon_kv pz (f (fst kv0), g (snd kv0)) :: map (canon_kv pz) (map (fun kv => (f (fst kv), g (snd kv))) rk'))
                  = map (canon_kv pz) rkvs).
          change (map (canon_kv pz) (map (fun kv => (f (fst kv), g (snd kv))) rkvs) = map (canon_kv pz) rkvs).
          rewrite map_map. apply map_ext_in. intros kv I.
          pose proof (forallb_In _ _ _ WR I) as T. cbn beta in T. apply andb_true_iff in T. destruct T as (T1 & T2).
          unfold canon_kv. cbn [fst snd]. f_equal.
          -- apply (Pk (zero_val kn) (fst kv) (wtb_zero kn Wk) T1); [apply gov_basic; exact KB'|apply emp_zero; exact Wk].
          -- apply (Pv (zero_val vn) (snd kv) (wtb_zero vn Wv) T2); [exact (forallb_In _ _ _ GV I)|apply emp_zero; exact Wv].
        * apply in_map_iff in Ia. destruct Ia as (kv & <- & I).
          pose proof (forallb_In _ _ _ WR I) as T. cbn beta in T. apply andb_true_iff in T. tauto.
        * apply in_map_iff in Ib. destruct Ib as (kv & <- & I).
          pose proof (forallb_In _ _ _ WR I) as T. cbn beta in T. apply andb_true_iff in T. tauto.
    - (* slice *)
      destruct (String.eqb tn "[]byte") eqn:BY.
      + destruct r as [| | | |rnil d e| | | |]; try discriminate.
        split; [reflexivity|]. intros pz _ _. cbn [canon]. reflexivity.
      + destruct l as [| | | | | |lnil les le| |]; try discriminate. destruct r as [| | | | | |rnil res re| |]; try discriminate.
        destruct sl as [en|]; [|discriminate].
        apply andb_true_iff in W. destruct W as (_ & We). cbn [orb] in We.
        pose proof (H2 en eq_refl We) as Pe.
        destruct res as [|e0 res']; [split; [exact WL|]; intros pz _ E; rewrite !canon_slice; destruct les; [reflexivity|discriminate]|].
        set (res := e0 :: res') in *.
        split.
        * cbn [wtb]. rewrite forallb_app. rewrite WL. cbn [andb].
          apply forallb_forall. intros y Iy. apply in_map_iff in Iy. destruct Iy as (e1 & <- & I).
          apply (Pe (zero_val en) e1 (wtb_zero en We) (forallb_In _ _ _ WR I)).
        * intros pz G E. destruct les; [|discriminate]. cbn [app].
          rewrite !canon_slice. unfold res at 1 3. cbn [map is_nil_list]. f_equal.
          change (map (canon pz) (map (fun e1 => cpy en (zero_val en) e1) res) = map (canon pz) res).
          rewrite map_map. apply map_ext_in. intros e1 I.
          apply (Pe (zero_val en) e1 (wtb_zero en We) (forallb_In _ _ _ WR I)); [exact (forallb_In _ _ _ G I)|apply emp_zero; exact We].
    - (* basic *)
      split; [exact WR|]. intros; reflexivity. }
  destruct p.
  - change (cpy (Node ty tn tu nm pk pki true chld mk mv sl hb hc) l r)
      with (match r with
            | VPtr (Some rx) => VPtr (Some (cpy n0 (match l with VPtr (Some lx) => lx | _ => zero_val n0 end) rx))
            | _ => l end).
    destruct r as [| | | | | | | |[rx|]]; try (cbn [wtb] in WR; discriminate).
    + change (wtb n0 rx = true) in WR.
      set (lx' := match l with VPtr (Some lx) => lx | _ => zero_val n0 end).
      assert (TL : wtb n0 lx' = true).
      { unfold lx'. destruct l as [| | | | | | | |[lx|]]; try (apply wtb_zero; exact W0). exact WL. }
      destruct (CORE lx' rx TL WR) as (A & B).
      split; [exact A|]. intros pz G E. change (gov n0 rx = true) in G.
      assert (EL : emp pz lx' = true).
      { unfold lx'. destruct l as [| | | | | | | |[lx|]]; try (apply emp_zero; exact W0).
        cbn [emp] in E. apply andb_true_iff in E. tauto. }
      pose proof (B pz G EL) as C. cbn [canon]. rewrite (canon_emp_eq pz _ _ C), C. reflexivity.
    + split; [exact WL|]. intros pz _ E.
      destruct l as [| | | | | | | |[lx|]]; try (cbn [wtb] in WL; discriminate); [|reflexivity].
      cbn [canon]. cbn [emp] in E. rewrite E. reflexivity.
  - exact (CORE l r WL WR).
Qed.

(* ---------- one Reset + CopyTo cycle, and histories of cycles ---------- *)
Definition cycle (n : node) (d s : val) : val := cpy n (reset n d) s.

Lemma cycle_one n d s : wfn n = true -> wtb n d = true -> wtb n s = true -> gov n s = true ->
  wtb n (cycle n d s) = true /\ canon true (cycle n d s) = canon true s.
Proof.
  intros W D S G. destruct (reset_sound n W d D) as (RT & RE).
  destruct (cpy_sound n W (reset n d) s RT S) as (A & B).
  split; [exact A|]. exact (B true G RE).
Qed.

Theorem cycles_sound n : wfn n = true -> forall srcs d0, wtb n d0 = true ->
  Forall (fun s => wtb n s = true /\ gov n s = true) srcs ->
  forall k s, nth_error srcs k = Some s ->
  wtb n (fold_left (cycle n) (firstn (S k) srcs) d0) = true /\
  canon true (fold_left (cycle n) (firstn (S k) srcs) d0) = canon true s.
Proof.
  intros W. induction srcs as [|a r IH]; intros d0 D F k s N; [destruct k; discriminate|].
  inversion F as [|a' r' (Ta & Ga) Fr]; subst.
  destruct k as [|k].
  - cbn in N. inversion N; subst. cbn [firstn fold_left]. apply cycle_one; assumption.
  - cbn [nth_error] in N. cbn [firstn fold_left].
    destruct (cycle_one n d0 a W D Ta Ga) as (T1 & _).
    apply (IH (cycle n d0 a) T1 Fr k s N).
Qed.

(* Copy and CopyTo into an empty destination: the source up to nil-versus-empty collections *)
Theorem copy_into_blank n l r : wfn n = true -> wtb n l = true -> wtb n r = true -> gov n r = true ->
  emp false l = true -> canon false (cpy n l r) = canon false r.
Proof. intros W L R G E. destruct (cpy_sound n W l r L R) as (_ & B). exact (B false G E). Qed.

Theorem copy_fresh n r : wfn n = true -> wtb n r = true -> gov n r = true ->
  wtb n (cpy n (zero_val n) r) = true /\ canon false (cpy n (zero_val n) r) = canon false r.
Proof.
  intros W R G. destruct (cpy_sound n W (zero_val n) r (wtb_zero n W) R) as (A & B).
  split; [exact A|]. apply (B false G). apply emp_zero; exact W.
Qed.

(* the same history through the method models (form *T for source and destination) *)
Theorem run_cycles_sound n : wfn n = true -> forall srcs d0, wtb n d0 = true ->
  Forall (fun s => wtb n s = true /\ gov n s = true) srcs ->
  exists st, run_cycles n d0 srcs = Some st /\
    List.length st = List.length srcs /\
    Forall (fun p => emp true (fst p) = true) st /\
    Forall2 (fun p s => canon true (snd p) = canon true s) st srcs.
Proof.
  intros W. induction srcs as [|a r IH]; intros d0 D F.
  - exists []. repeat split; constructor.
  - inversion F as [|a' r' (Ta & Ga) Fr]; subst.
    destruct (reset_sound n W d0 D) as (RT & RE).
    destruct (cycle_one n d0 a W D Ta Ga) as (T1 & C1).
    destruct (IH (cycle n d0 a) T1 Fr) as (st & E & L & Z & Q).
    exists ((reset n d0, cycle n d0 a) :: st).
    cbn [run_cycles reset_method copyto_method src_value]. fold (cycle n d0 a). rewrite E.
    repeat split.
    + cbn [List.length]. rewrite L. reflexivity.
    + constructor; [exact RE|exact Z].
    + constructor; [exact C1|exact Q].
Qed.
