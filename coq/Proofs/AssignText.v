(* Proofs/AssignText.v - the text readers of assign_builtin.go (recogniser
   regexp + strconv parse, Base/Strconv.v and Base/Floats.v) against the decimal
   numerals of the specification (Spec/AssignSpec.v), for ALL strings. *)
From Coq Require Import ZArith Bool String Ascii List Lia Floats.SpecFloat.
From Verif Require Import Util Ints Strconv Floats AssignVal Assign AssignSpec.
Import ListNotations.
Local Open Scope Z_scope.

(* ---------- digits ---------- *)
Lemma is_digit_bounds c : is_digit c = true -> 48 <= code c <= 57.
Proof. unfold is_digit. intros H. apply andb_true_iff in H. destruct H as (A & B). apply Z.leb_le in A, B. lia. Qed.

Lemma digit_val_digit c : is_digit c = true -> digit_val c = Some (code c - 48).
Proof. intros H. unfold digit_val. rewrite H. reflexivity. Qed.

Lemma digit_val_nondigit c d : is_digit c = false -> digit_val c = Some d -> 10 <= d.
Proof.
  intros H. unfold digit_val. rewrite H.
  destruct ((97 <=? code (lower c)) && (code (lower c) <=? 122)) eqn:E; [|discriminate].
  apply andb_true_iff in E. destruct E as (A & _). apply Z.leb_le in A. intros Q. inversion Q. lia.
Qed.

Lemma pu_loop_dec s : forall n,
  pu_loop s 10 false n false =
  match dec_digits s n with Some z => Some (z, false) | None => None end.
Proof.
  induction s as [|c r IH]; intros n; [reflexivity|].
  cbn [pu_loop dec_digits]. rewrite andb_false_r.
  destruct (is_digit c) eqn:D.
  - rewrite (digit_val_digit c D). pose proof (is_digit_bounds c D) as B.
    destruct (Z.ltb_spec (code c - 48) 10); [|lia]. apply IH.
  - destruct (digit_val c) as [d|] eqn:V; [|reflexivity].
    pose proof (digit_val_nondigit c d D V) as B.
    destruct (Z.ltb_spec d 10); [lia|reflexivity].
Qed.

Lemma dec_digits_all s : forall n,
  dec_digits s n = None <-> all_digits s = false.
Proof.
  induction s as [|c r IH]; intros n; cbn [dec_digits all_digits].
  - split; discriminate.
  - destruct (is_digit c); cbn [andb]; [apply IH|]. split; reflexivity.
Qed.

Lemma dec_digits_nonneg s : forall n z, 0 <= n -> dec_digits s n = Some z -> 0 <= z.
Proof.
  induction s as [|c r IH]; intros n z Hn; cbn [dec_digits].
  - intros Q; inversion Q; lia.
  - destruct (is_digit c) eqn:D; [|discriminate].
    pose proof (is_digit_bounds c D). apply IH. lia.
Qed.

Lemma unsigned_dec_nonneg s z : unsigned_dec s = Some z -> 0 <= z.
Proof. destruct s; [discriminate|]. apply dec_digits_nonneg. lia. Qed.

(* nonempty b && all_digits b  decides  unsigned_dec b *)
Lemma unsigned_dec_re b :
  (nonempty b && all_digits b = true /\ exists z, unsigned_dec b = Some z) \/
  (nonempty b && all_digits b = false /\ unsigned_dec b = None).
Proof.
  destruct b as [|c r]; [right; split; reflexivity|].
  cbn [nonempty andb]. unfold unsigned_dec.
  destruct (dec_digits (String c r) 0) as [z|] eqn:E.
  - left. split; [|eauto].
    destruct (all_digits (String c r)) eqn:A; [reflexivity|].
    apply (proj2 (dec_digits_all _ 0)) in A. rewrite A in E. discriminate.
  - right. split; [|reflexivity]. apply (proj1 (dec_digits_all _ 0)) in E. exact E.
Qed.

(* strconv.ParseUint(s, 10, 64) on a non-empty string *)
Lemma parse_uint_dec s M :
  parse_uint s 10 M =
  match unsigned_dec s with Some n => if n <=? M then Some n else None | None => None end.
Proof.
  destruct s as [|c r]; [reflexivity|].
  unfold parse_uint, unsigned_dec.
  change (10 =? 0) with false. cbv iota beta.
  rewrite pu_loop_dec.
  destruct (dec_digits (String c r) 0) as [n|]; [|reflexivity].
  cbn [andb]. reflexivity.
Qed.

Lemma kmin_i64 : kmin KInt64 = -9223372036854775808. Proof. reflexivity. Qed.
Lemma kmax_i64 : kmax KInt64 = 9223372036854775807. Proof. reflexivity. Qed.
Lemma kmin_u64 : kmin KUint64 = 0. Proof. reflexivity. Qed.
Lemma kmax_u64 : kmax KUint64 = 18446744073709551615. Proof. reflexivity. Qed.
Lemma pow64m1 : 2 ^ 64 - 1 = 18446744073709551615. Proof. reflexivity. Qed.
Lemma pow63 : 2 ^ (64 - 1) = 9223372036854775808. Proof. reflexivity. Qed.

Definition fits (k : ikind) (o : option Z) : option Z :=
  match o with Some z => if in_range k z then Some z else None | None => None end.

(* assign_builtin.go atou: reIsDecUint then ParseUint(s, 10, 64).  The recogniser lets a
   leading "+" through, ParseUint then refuses it. *)
Theorem atou_spec s : assign_atou s = fits KUint64 (unsigned_dec s).
Proof.
  unfold assign_atou, re_dec_uint, fits. rewrite parse_uint_dec. rewrite pow64m1.
  assert (R : forall z, 0 <= z -> in_range KUint64 z = (z <=? 18446744073709551615)).
  { intros z Hz. unfold in_range. rewrite kmin_u64, kmax_u64. destruct (Z.leb_spec 0 z); [reflexivity|lia]. }
  destruct s as [|c r]; [reflexivity|].
  destruct (code c =? 43) eqn:P.
  - (* "+..." : never an unsigned numeral, ParseUint stops at the sign *)
    assert (U : unsigned_dec (String c r) = None).
    { unfold unsigned_dec. cbn [dec_digits]. unfold is_digit. apply Z.eqb_eq in P. rewrite P. reflexivity. }
    rewrite U. destruct (nonempty r && all_digits r); reflexivity.
  - destruct (unsigned_dec_re (String c r)) as [(A & z & E)|(A & E)]; rewrite A, E; [|reflexivity].
    rewrite (R z (unsigned_dec_nonneg _ _ E)). reflexivity.
Qed.

(* assign_builtin.go atoi: reIsDecInt then ParseInt(s, 10, 64) *)
Theorem atoi_spec s : assign_atoi s = fits KInt64 (signed_dec s).
Proof.
  unfold assign_atoi, re_dec_int, fits.
  destruct s as [|c r]; [reflexivity|].
  unfold parse_int, signed_dec, strip_sign, is_minus, is_plus. cbv zeta.
  rewrite pow63, pow64m1.
  assert (RP : forall z, 0 <= z -> in_range KInt64 z = (z <? 9223372036854775808)).
  { intros z Hz. unfold in_range. rewrite kmin_i64, kmax_i64.
    destruct (Z.leb_spec (-9223372036854775808) z); [|lia].
    destruct (Z.leb_spec z 9223372036854775807); destruct (Z.ltb_spec z 9223372036854775808); try lia; reflexivity. }
  assert (RN : forall z, 0 <= z -> in_range KInt64 (- z) = (z <=? 9223372036854775808)).
  { intros z Hz. unfold in_range. rewrite kmin_i64, kmax_i64.
    destruct (Z.leb_spec (- z) 9223372036854775807); [|lia].
    destruct (Z.leb_spec (-9223372036854775808) (- z)); destruct (Z.leb_spec z 9223372036854775808); try lia; reflexivity. }
  assert (LE : forall z, z <=? 9223372036854775808 = true -> z <=? 18446744073709551615 = true).
  { intros z H. apply Z.leb_le in H. apply Z.leb_le. lia. }
  assert (LT : forall z, z <? 9223372036854775808 = true -> z <=? 18446744073709551615 = true).
  { intros z H. apply Z.ltb_lt in H. apply Z.leb_le. lia. }
  destruct (code c =? 45) eqn:M; cbn [orb].
  - rewrite parse_uint_dec.
    destruct (unsigned_dec_re r) as [(A & z & E)|(A & E)]; rewrite A, E; [|reflexivity].
    cbn [option_map]. rewrite (RN z (unsigned_dec_nonneg _ _ E)).
    destruct (z <=? 9223372036854775808) eqn:C.
    + rewrite (LE z C). cbn [negb]. rewrite C. reflexivity.
    + destruct (z <=? 18446744073709551615); [rewrite C|]; reflexivity.
  - destruct (code c =? 43) eqn:P.
    + rewrite parse_uint_dec.
      destruct (unsigned_dec_re r) as [(A & z & E)|(A & E)]; rewrite A, E; [|reflexivity].
      rewrite (RP z (unsigned_dec_nonneg _ _ E)).
      destruct (z <? 9223372036854775808) eqn:C.
      * rewrite (LT z C). cbn [negb]. rewrite C. reflexivity.
      * destruct (z <=? 18446744073709551615); [rewrite C|]; reflexivity.
    + rewrite parse_uint_dec.
      destruct (unsigned_dec_re (String c r)) as [(A & z & E)|(A & E)]; rewrite A, E; [|reflexivity].
      rewrite (RP z (unsigned_dec_nonneg _ _ E)).
      destruct (z <? 9223372036854775808) eqn:C.
      * rewrite (LT z C). cbn [negb]. rewrite C. reflexivity.
      * destruct (z <=? 18446744073709551615); [rewrite C|]; reflexivity.
Qed.

(* ---------- floats: reIsDecFloat against the decimal float grammar ---------- *)
Lemma take_skip s : forall a n,
  take_digits s a n = (fst (fst (take_digits s a n)), n + fst (skip_digits s), snd (skip_digits s)).
Proof.
  induction s as [|c r IH]; intros a n; cbn [take_digits skip_digits].
  - cbn [fst snd]. f_equal. f_equal. lia.
  - destruct (is_digit c).
    + rewrite IH. destruct (skip_digits r) as [k r']. cbn [fst snd]. f_equal. f_equal. lia.
    + cbn [fst snd]. f_equal. f_equal. lia.
Qed.

Lemma skip_nonneg s : 0 <= fst (skip_digits s).
Proof.
  induction s as [|c r IH]; cbn [skip_digits]; [cbn; lia|].
  destruct (is_digit c); [|cbn; lia]. destruct (skip_digits r) as [k r']. cbn [fst] in *. lia.
Qed.

Lemma lower_e c : (code (lower c) =? 101) = is_e c.
Proof. destruct c as [[] [] [] [] [] [] [] []]; reflexivity. Qed.

Definition tail_ok (r : string) : bool :=
  match r with
  | EmptyString => true
  | String c r' =>
    if code (lower c) =? 101 then let b := strip_sign r' in nonempty b && all_digits b else false
  end.

Lemma tail_ok_exponent r : tail_ok r = exponent_ok r.
Proof.
  destruct r as [|c r']; [reflexivity|].
  unfold tail_ok, exponent_ok. rewrite lower_e.
  destruct (is_e c); [|reflexivity]. cbn [andb]. cbv zeta.
  destruct r' as [|c' r'']; [reflexivity|].
  unfold strip_sign, is_minus, is_plus.
  destruct ((code c' =? 45) || (code c' =? 43)).
  - destruct (unsigned_dec_re r'') as [(A & z & E)|(A & E)]; rewrite A, E; reflexivity.
  - destruct (unsigned_dec_re (String c' r'')) as [(A & z & E)|(A & E)]; rewrite A, E; reflexivity.
Qed.

Lemma re_dec_float_unfold s :
  re_dec_float s =
  let body := strip_sign s in
  let '(_, ni, r1) := take_digits body 0 0 in
  match r1 with
  | String c r =>
    if code c =? 46 then
      let '(_, nf, r') := take_digits r 0 0 in
      if true && (nf =? 0) then false else tail_ok r'
    else (0 <? ni) && tail_ok r1
  | EmptyString => 0 <? ni
  end.
Proof.
  unfold re_dec_float, tail_ok. cbv zeta.
  destruct (take_digits (strip_sign s) 0 0) as [[a ni] r1].
  destruct r1 as [|c r]; [reflexivity|].
  destruct (code c =? 46); [|reflexivity].
  destruct (take_digits r 0 0) as [[a' nf] r'].
  destruct (true && (nf =? 0)); reflexivity.
Qed.

Theorem re_dec_float_class s :
  re_dec_float s = match float_text_class s with FTYes => true | _ => false end.
Proof.
  rewrite re_dec_float_unfold. unfold float_text_class. cbv zeta.
  assert (B : strip_sign s = match s with String c r => if is_minus c || is_plus c then r else s | _ => s end).
  { destruct s; reflexivity. }
  rewrite <- B. set (body := strip_sign s).
  rewrite (take_skip body 0 0).
  pose proof (skip_nonneg body) as N1.
  destruct (skip_digits body) as [ni r1]. cbn [fst snd] in *.
  destruct r1 as [|c r].
  - destruct (Z.ltb_spec 0 (0 + ni)); destruct (Z.eqb_spec ni 0); try lia; reflexivity.
  - unfold is_dot. destruct (code c =? 46).
    + rewrite (take_skip r 0 0). pose proof (skip_nonneg r) as N2.
      destruct (skip_digits r) as [nf r2]. cbn [fst snd andb] in *.
      rewrite tail_ok_exponent.
      destruct (Z.eqb_spec (0 + nf) 0); destruct (Z.eqb_spec nf 0); try lia.
      * destruct ((ni + nf =? 0) || negb (exponent_ok r2)); reflexivity.
      * destruct (Z.eqb_spec (ni + nf) 0); [lia|]. cbn [orb].
        destruct (exponent_ok r2); reflexivity.
    + rewrite tail_ok_exponent.
      destruct (Z.ltb_spec 0 (0 + ni)); destruct (Z.eqb_spec ni 0); try lia; cbn [andb orb].
      * destruct (exponent_ok (String c r)); reflexivity.
      * reflexivity.
Qed.

Theorem atof_spec s :
  assign_atof s = match float_text_class s with FTYes => parse_float s | _ => None end.
Proof.
  unfold assign_atof. rewrite re_dec_float_class.
  destruct (float_text_class s); reflexivity.
Qed.
