(* Proofs/SnippetTable.v - the conversions the emitter models apply to path segments, slice indices and Compare operands are
   the entries of the snippet table (Model/Snippets.v), and the table is the library's own (Gen/SourceFacts.v). *)
From Coq Require Import List Bool String Ascii ZArith.
From Verif Require Import Util Ints Strconv Floats Node Value Outcome Cmp Snippets SourceFacts DeqSpec.
Import ListNotations.
Local Open Scope string_scope.

Lemma table_is_source : table_matches snippet_facts = true.
Proof. vm_compute. reflexivity. Qed.

(* map keys (the kinds a key can have in the supported fragment: every scalar but byte) *)
Lemma conv_key_table kn k seg :
  node_skind kn = Some k -> k <> SByte -> conv_key kn seg = run_conv (conv_of_skind k) k seg.
Proof.
  intros Hk Hb. unfold conv_key. rewrite Hk.
  destruct k as [|i| | | |]; try reflexivity; try congruence.
  cbn [conv_of_skind]. destruct (is_signed i); reflexivity.
Qed.

Lemma conv_index_table seg : option_map VInt (conv_index seg) = run_conv (conv_of_skind (SInt KInt)) (SInt KInt) seg.
Proof. reflexivity. Qed.

(* Compare operands *)
Lemma conv_operand_table k right : conv_operand (LScalar k) right = run_conv (conv_of_skind k) k right.
Proof.
  destruct k as [|i| | | |]; try reflexivity.
  cbn [conv_of_skind conv_operand]. destruct (is_signed i); reflexivity.
Qed.

(* the default tolerance of DeepEqual is the library's FloatPrecision constant *)
Lemma default_tol_is_source : parse_float src_float_precision = Some default_tol.
Proof. vm_compute. reflexivity. Qed.

Lemma nil_word_is_source : src_nil_word = "nil".
Proof. reflexivity. Qed.
