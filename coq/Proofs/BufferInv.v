(* Proofs/BufferInv.v - the invariant behind C07 for the tight buffer
   (handed-out sub-slices cut as buf[off:len:len]) and its preservation by
   every operation, for every growth oracle. *)
From Coq Require Import List Arith Bool Ascii String Lia.
From Verif Require Import Util Buffer.
Import ListNotations.

(* ---------- list facts on map/seq ---------- *)
Lemma map_seq_ext {A} (f g : nat -> A) off len :
  (forall j, off <= j < off + len -> f j = g j) -> map f (seq off len) = map g (seq off len).
Proof.
  revert off; induction len as [|n IH]; intros off H; simpl; auto.
  f_equal; [apply H; lia | apply IH; intros j Hj; apply H; lia].
Qed.

Lemma skipn_map_seq {A} (f : nat -> A) off len k :
  k <= len -> skipn k (map f (seq off len)) = map f (seq (off + k) (len - k)).
Proof.
  revert off len; induction k as [|k IH]; intros off len H.
  - rewrite Nat.add_0_r, Nat.sub_0_r; reflexivity.
  - destruct len as [|len]; [lia|]. simpl. rewrite IH by lia. f_equal. f_equal; lia.
Qed.

Lemma map_seq_app {A} (f : nat -> A) off l1 l2 :
  map f (seq off (l1 + l2)) = map f (seq off l1) ++ map f (seq (off + l1) l2).
Proof. rewrite seq_app, map_app; reflexivity. Qed.

Lemma map_nth_seq {A} (d : list A) (z : A) off :
  map (fun j => nth (j - off) d z) (seq off (List.length d)) = d.
Proof.
  revert off; induction d as [|x r IH]; intros off; simpl; auto.
  f_equal; [rewrite Nat.sub_diag; reflexivity|].
  rewrite <- (IH (S off)) at 2. apply map_seq_ext; intros j Hj.
  replace (j - off) with (S (j - S off)) by lia. reflexivity.
Qed.

Lemma map_nth_seq0 {A} (d : list A) (z : A) :
  map (fun j => nth j d z) (seq 0 (List.length d)) = d.
Proof.
  rewrite <- (map_nth_seq d z 0) at 2. apply map_seq_ext; intros j _. f_equal; lia.
Qed.

(* ---------- well-formedness and frames ---------- *)
Definition wf_slice (h : heap) (s : slice) : Prop :=
  s_arr s < h_next h /\ s_off s + s_cap s <= a_cap (h_arr h (s_arr s)) /\ s_len s <= s_cap s.

Lemma read_length h s : List.length (read h s) = s_len s.
Proof. unfold read; rewrite map_length, seq_length; reflexivity. Qed.

(* writing [d] at [off] of array [a] leaves every slice elsewhere untouched *)
Lemma read_write_frame h a off d t :
  (s_arr t <> a \/ s_off t + s_len t <= off \/ off + List.length d <= s_off t) ->
  read (write h a off d) t = read h t.
Proof.
  intros H. unfold read, write; simpl.
  destruct (Nat.eqb_spec (s_arr t) a) as [E|E]; [|reflexivity].
  simpl. apply map_seq_ext; intros j Hj.
  destruct H as [H|[H|H]]; [congruence| |].
  - replace (off <=? j) with false by (symmetry; apply Nat.leb_gt; lia). simpl. rewrite E; reflexivity.
  - replace (j <? off + List.length d) with false by (symmetry; apply Nat.ltb_ge; lia).
    rewrite andb_false_r. rewrite E; reflexivity.
Qed.

Lemma read_write_self h a off d :
  read (write h a off d) {| s_arr := a; s_off := off; s_len := List.length d; s_cap := List.length d |} = d.
Proof.
  unfold read, write; simpl. rewrite Nat.eqb_refl; simpl.
  rewrite <- (map_nth_seq d zero off) at 2. apply map_seq_ext; intros j Hj.
  replace (off <=? j) with true by (symmetry; apply Nat.leb_le; lia).
  replace (j <? off + List.length d) with true by (symmetry; apply Nat.ltb_lt; lia). reflexivity.
Qed.

Lemma wf_write h a off d t : wf_slice h t -> wf_slice (write h a off d) t.
Proof.
  unfold wf_slice, write; simpl. intros (H1 & H2 & H3). repeat split; auto.
  destruct (Nat.eqb_spec (s_arr t) a) as [E|E]; simpl; [rewrite <- E|]; auto.
Qed.

(* ---------- specification of append ---------- *)
Lemma append_spec h s d e h' s' :
  wf_slice h s -> append h s d e = (h', s') ->
  wf_slice h' s' /\
  read h' s' = read h s ++ d /\
  s_len s' = s_len s + List.length d /\
  h_next h <= h_next h' /\
  (forall t, wf_slice h t -> wf_slice h' t) /\
  (forall t, wf_slice h t ->
     (s_arr t <> s_arr s \/ s_off t + s_len t <= s_off s + s_len s \/ s_off s + s_cap s <= s_off t) ->
     read h' t = read h t) /\
  ((s_arr s' = s_arr s /\ s_off s' = s_off s /\ s_cap s' = s_cap s) \/
   (s_arr s' = h_next h /\ s_off s' = 0 /\ h_next h' = S (h_next h))).
Proof.
  intros (W1 & W2 & W3) A. unfold append in A.
  destruct (Nat.leb_spec (s_len s + List.length d) (s_cap s)) as [L|L].
  - inversion A; subst h' s'; clear A. simpl.
    split; [|split; [|split; [|split; [|split; [|split]]]]]; simpl.
    + unfold wf_slice, write; simpl. rewrite Nat.eqb_refl; simpl. auto.
    + unfold read; simpl. rewrite map_seq_app. f_equal.
      * rewrite Nat.eqb_refl; simpl. apply map_seq_ext; intros j Hj.
        replace (s_off s + s_len s <=? j) with false by (symmetry; apply Nat.leb_gt; lia). reflexivity.
      * rewrite Nat.eqb_refl; simpl.
        rewrite <- (map_nth_seq d zero (s_off s + s_len s)) at 2. apply map_seq_ext; intros j Hj.
        replace (s_off s + s_len s <=? j) with true by (symmetry; apply Nat.leb_le; lia).
        replace (j <? s_off s + s_len s + List.length d) with true by (symmetry; apply Nat.ltb_lt; lia).
        reflexivity.
    + reflexivity.
    + lia.
    + intros t Ht; apply wf_write; auto.
    + intros t Ht Hf. apply read_write_frame. destruct Hf as [Hf|[Hf|Hf]]; auto. right; right; lia.
    + left; auto.
  - destruct (alloc h (s_len s + List.length d + e) (read h s ++ d)) as [h1 a] eqn:AL.
    unfold alloc in AL. inversion AL; subst h1 a; clear AL.
    inversion A; subst h' s'; clear A. simpl.
    split; [|split; [|split; [|split; [|split; [|split]]]]]; simpl.
    + unfold wf_slice; simpl. rewrite Nat.eqb_refl; simpl; lia.
    + unfold read at 1; simpl. rewrite Nat.eqb_refl; simpl.
      replace (s_len s + List.length d) with (List.length (read h s ++ d))
        by (rewrite app_length, read_length; reflexivity).
      apply map_nth_seq0.
    + reflexivity.
    + lia.
    + intros t (T1 & T2 & T3). unfold wf_slice; simpl. split; [lia|]. split; [|exact T3].
      destruct (Nat.eqb_spec (s_arr t) (h_next h)); [lia|auto].
    + intros t (T1 & T2 & T3) _. unfold read; simpl.
      destruct (Nat.eqb_spec (s_arr t) (h_next h)); [lia|reflexivity].
    + right; auto.
Qed.

Lemma append_len0 h s d e h' s' :
  append h s d e = (h', s') -> s_len s' = 0 -> s' = s.
Proof.
  unfold append; intros A L0.
  destruct (Nat.leb_spec (s_len s + List.length d) (s_cap s)) as [L|L].
  - inversion A; subst; simpl in *. destruct s; simpl in *. f_equal; lia.
  - destruct (alloc _ _ _) as [h1 a]. inversion A; subst; simpl in *. lia.
Qed.

(* ---------- the invariant ---------- *)
Definition hand_ok (h : heap) (bb : slice) (x : hand) : Prop :=
  hd_live x = true ->
  wf_slice h (hd_sl x) /\
  read h (hd_sl x) = hd_want x /\
  (s_arr (hd_sl x) = s_arr bb -> hand_hi x <= s_off bb + s_len bb).

Definition disj (x y : hand) : Prop :=
  s_arr (hd_sl x) <> s_arr (hd_sl y) \/ hand_hi x <= hand_lo y \/ hand_hi y <= hand_lo x.

Definition pairwise (lg : list hand) : Prop :=
  forall i j x y, i <> j -> nth_error lg i = Some x -> nth_error lg j = Some y ->
                  hd_live x = true -> hd_live y = true -> disj x y.

Definition Inv3 (h : heap) (bb : slice) (lg : list hand) : Prop :=
  wf_slice h bb /\ Forall (hand_ok h bb) lg /\ pairwise lg.

Definition Inv (st : state) : Prop := Inv3 (st_heap st) (st_bb st) (st_log st).

Lemma disj_sym x y : disj x y -> disj y x.
Proof. unfold disj; intros [H|[H|H]]; auto. Qed.

Lemma pairwise_snoc lg x :
  pairwise lg ->
  (forall y, In y lg -> hd_live y = true -> hd_live x = true -> disj y x) ->
  pairwise (lg ++ [x]).
Proof.
  intros P H i j a b Hij Ha Hb La Lb.
  destruct (Nat.lt_ge_cases i (List.length lg)) as [Li|Li];
  destruct (Nat.lt_ge_cases j (List.length lg)) as [Lj|Lj].
  - rewrite nth_error_app1 in Ha, Hb by auto. eapply P; eauto.
  - rewrite nth_error_app1 in Ha by auto. rewrite nth_error_app2 in Hb by auto.
    destruct (j - List.length lg) as [|k] eqn:E; simpl in Hb; [|destruct k; discriminate].
    inversion Hb; subst b. apply H; auto. eapply nth_error_In; eauto.
  - rewrite nth_error_app1 in Hb by auto. rewrite nth_error_app2 in Ha by auto.
    destruct (i - List.length lg) as [|k] eqn:E; simpl in Ha; [|destruct k; discriminate].
    inversion Ha; subst a. apply disj_sym. apply H; auto. eapply nth_error_In; eauto.
  - rewrite nth_error_app2 in Ha, Hb by auto.
    destruct (i - List.length lg) as [|k] eqn:E; simpl in Ha; [|destruct k; discriminate].
    destruct (j - List.length lg) as [|k'] eqn:E'; simpl in Hb; [|destruct k'; discriminate].
    lia.
Qed.

Lemma pairwise_upd lg k x x' :
  pairwise lg -> nth_error lg k = Some x ->
  (forall j y, j <> k -> nth_error lg j = Some y -> hd_live y = true -> hd_live x' = true -> disj y x') ->
  pairwise (upd_nth k x' lg).
Proof.
  intros P Hk H i j a b Hij Ha Hb La Lb.
  assert (Lk : k < List.length lg) by (apply nth_error_Some; congruence).
  destruct (Nat.eq_dec i k) as [Ei|Ei]; destruct (Nat.eq_dec j k) as [Ej|Ej].
  - lia.
  - subst i. rewrite nth_error_upd_nth_eq in Ha by auto. inversion Ha; subst a.
    rewrite nth_error_upd_nth_neq in Hb by auto. apply disj_sym. apply (H j b); auto.
  - subst j. rewrite nth_error_upd_nth_eq in Hb by auto. inversion Hb; subst b.
    rewrite nth_error_upd_nth_neq in Ha by auto. apply (H i a); auto.
  - rewrite nth_error_upd_nth_neq in Ha, Hb by auto. apply (P i j a b); auto.
Qed.

Lemma Forall_upd_nth {A} (P : A -> Prop) k x l : Forall P l -> P x -> Forall P (upd_nth k x l).
Proof.
  intros F Hx; revert k; induction F as [|y r Hy F IH]; intros [|k]; simpl; constructor; auto.
Qed.

(* ---------- the buffer's own appends ---------- *)
Section Tight.
Notation sub := (sub true).
Notation bufferize1 := (bufferize1 true).
Notation copy_fields := (copy_fields true).
Notation copy_values := (copy_values true).
Notation step := (step true).

Lemma read_sub h s off : off <= s_len s -> read h (sub s off) = skipn off (read h s).
Proof. intros H. unfold read, sub; simpl. rewrite skipn_map_seq by auto. reflexivity. Qed.

Lemma skipn_app_exact {A} (a b : list A) : skipn (List.length a) (a ++ b) = b.
Proof. induction a; simpl; auto. Qed.

(* every live handout satisfies the frame condition of an append to the buffer *)
Lemma hand_frame h bb x :
  hand_ok h bb x -> hd_live x = true -> wf_slice h bb ->
  s_arr (hd_sl x) <> s_arr bb \/
  s_off (hd_sl x) + s_len (hd_sl x) <= s_off bb + s_len bb \/
  s_off bb + s_cap bb <= s_off (hd_sl x).
Proof.
  intros H L _. destruct (H L) as ((_ & _ & W3) & _ & F).
  destruct (Nat.eq_dec (s_arr (hd_sl x)) (s_arr bb)) as [E|E]; auto.
  right; left. specialize (F E). unfold hand_hi in F. lia.
Qed.

Lemma bufferize1_inv h bb lg isstr d e h' bb' x :
  Inv3 h bb lg -> bufferize1 h bb isstr d e = (h', bb', x) ->
  Inv3 h' bb' (lg ++ [x]) /\ (s_len bb' = 0 -> bb' = bb) /\ hd_want x = d /\ hd_live x = true.
Proof.
  intros (WB & FA & PW) B. unfold Buffer.bufferize1 in B.
  destruct (append h bb d e) as [h1 bb1] eqn:A. inversion B; subst h' bb' x; clear B.
  destruct (append_spec _ _ _ _ _ _ WB A) as (WB' & RD & LEN & NX & WFP & FR & CASES).
  assert (OFF : s_len bb <= s_len bb1) by lia.
  assert (RDX : read h1 (sub bb1 (s_len bb)) = d).
  { rewrite read_sub by auto. rewrite RD.
    rewrite <- (read_length h bb) at 1. apply skipn_app_exact. }
  split; [|split; [intro L0; eapply append_len0; eauto | split; [reflexivity| reflexivity]]].
  split; [exact WB'|]. split.
  - (* every handout is fine in the new state *)
    apply Forall_app; split.
    + rewrite Forall_forall in FA |- *. intros y Hy Ly.
      pose proof (FA y Hy) as OK. destruct (OK Ly) as (Wy & Ry & Fy).
      split; [apply WFP; exact Wy|]. split.
      * rewrite FR; auto. apply (hand_frame h bb y); auto.
      * intros E. destruct CASES as [(C1 & C2 & C3)|(C1 & C2 & C3)].
        -- rewrite C1 in E. specialize (Fy E). rewrite C2. lia.
        -- destruct Wy as (Wy1 & _). rewrite C1 in E. lia.
    + constructor; [|constructor]. intros _.
      destruct WB' as (B1 & B2 & B3).
      destruct isstr; unfold mk_hand; simpl.
      * split; [unfold wf_slice; simpl; repeat split; auto; lia|]. split.
        -- change (read h1 (sub bb1 (s_len bb)) = d). exact RDX.
        -- intros _. unfold hand_hi; simpl. lia.
      * split; [unfold wf_slice; simpl; repeat split; auto; lia|]. split.
        -- exact RDX.
        -- intros _. unfold hand_hi; simpl. lia.
  - (* the new handout is disjoint from all earlier ones *)
    apply pairwise_snoc; auto. intros y Hy Ly _.
    rewrite Forall_forall in FA. destruct (FA y Hy Ly) as ((Wy1 & Wy2 & Wy3) & _ & Fy).
    assert (LO : hand_lo (mk_hand isstr (sub bb1 (s_len bb)) d) = s_off bb1 + s_len bb)
      by (destruct isstr; reflexivity).
    assert (AR : s_arr (hd_sl (mk_hand isstr (sub bb1 (s_len bb)) d)) = s_arr bb1)
      by (destruct isstr; reflexivity).
    unfold disj. rewrite LO, AR.
    destruct CASES as [(C1 & C2 & C3)|(C1 & C2 & C3)].
    + destruct (Nat.eq_dec (s_arr (hd_sl y)) (s_arr bb)) as [E|E].
      * right; left. specialize (Fy E). rewrite C2. exact Fy.
      * left. rewrite C1. exact E.
    + left. rewrite C1. lia.
Qed.

Lemma copy_fields_inv fs : forall h bb lg e h' bb' xs,
  Inv3 h bb lg -> copy_fields h bb fs e = (h', bb', xs) ->
  Inv3 h' bb' (lg ++ xs) /\ (s_len bb' = 0 -> bb' = bb) /\ Forall (fun x => hd_live x = true) xs.
Proof.
  induction fs as [|[isstr d] r IH]; intros h bb lg e h' bb' xs I C; simpl in C.
  - inversion C; subst. rewrite app_nil_r. auto.
  - destruct (bufferize1 h bb isstr d e) as [[h1 bb1] x] eqn:B.
    destruct (copy_fields h1 bb1 r e) as [[h2 bb2] xs'] eqn:C'.
    inversion C; subst h' bb' xs; clear C.
    destruct (bufferize1_inv _ _ _ _ _ _ _ _ _ I B) as (I1 & Z1 & _ & L1).
    destruct (IH _ _ _ _ _ _ _ I1 C') as (I2 & Z2 & L2).
    rewrite <- app_assoc in I2. simpl in I2.
    split; [exact I2|]. split; [|constructor; auto].
    intros L0. pose proof (Z2 L0) as E2. rewrite E2 in L0 |- *. auto.
Qed.

(* ---------- values of the client outside the buffer; CopyTo of the built-in inspectors ---------- *)
Lemma source1_inv h bb lg isstr d h' x :
  Inv3 h bb lg -> source1 h isstr d = (h', x) ->
  Inv3 h' bb (lg ++ [x]) /\ hd_want x = d /\ hd_live x = true.
Proof.
  intros (WB & FA & PW) S. unfold source1, alloc in S. injection S as <- <-.
  split; [|split; reflexivity].
  pose proof WB as (B1 & B2 & B3).
  split; [|split].
  - unfold wf_slice; simpl. split; [lia|]. split; [|exact B3].
    destruct (Nat.eqb_spec (s_arr bb) (h_next h)); [lia|auto].
  - apply Forall_app; split.
    + rewrite Forall_forall in FA |- *. intros y Hy Ly.
      destruct (FA y Hy Ly) as ((Wy1 & Wy2 & Wy3) & Ry & Fy).
      split; [|split; [|exact Fy]].
      * unfold wf_slice; simpl. split; [lia|]. split; [|exact Wy3].
        destruct (Nat.eqb_spec (s_arr (hd_sl y)) (h_next h)); [lia|auto].
      * rewrite <- Ry. unfold read; simpl.
        destruct (Nat.eqb_spec (s_arr (hd_sl y)) (h_next h)); [lia|reflexivity].
    + constructor; [|constructor]. intros _.
      destruct isstr; unfold mk_hand; simpl.
      * split; [unfold wf_slice; simpl; rewrite Nat.eqb_refl; simpl; lia|]. split.
        -- unfold read; simpl. rewrite Nat.eqb_refl; simpl. apply map_nth_seq0.
        -- simpl. intros E. lia.
      * split; [unfold wf_slice; simpl; rewrite Nat.eqb_refl; simpl; lia|]. split.
        -- unfold read; simpl. rewrite Nat.eqb_refl; simpl. apply map_nth_seq0.
        -- simpl. intros E. lia.
  - apply pairwise_snoc; auto. intros y Hy Ly _.
    rewrite Forall_forall in FA. destruct (FA y Hy Ly) as ((Wy1 & _) & _).
    left. destruct isstr; simpl; lia.
Qed.

Lemma source_cap_inv h bb lg d spare h' x :
  Inv3 h bb lg -> source_cap h d spare = (h', x) ->
  Inv3 h' bb (lg ++ [x]) /\ hd_want x = d /\ hd_live x = true.
Proof.
  intros (WB & FA & PW) S. unfold source_cap, alloc in S. injection S as <- <-.
  split; [|split; reflexivity].
  pose proof WB as (B1 & B2 & B3).
  split; [|split].
  - unfold wf_slice; simpl. split; [lia|]. split; [|exact B3].
    destruct (Nat.eqb_spec (s_arr bb) (h_next h)); [lia|auto].
  - apply Forall_app; split.
    + rewrite Forall_forall in FA |- *. intros y Hy Ly.
      destruct (FA y Hy Ly) as ((Wy1 & Wy2 & Wy3) & Ry & Fy).
      split; [|split; [|exact Fy]].
      * unfold wf_slice; simpl. split; [lia|]. split; [|exact Wy3].
        destruct (Nat.eqb_spec (s_arr (hd_sl y)) (h_next h)); [lia|auto].
      * rewrite <- Ry. unfold read; simpl.
        destruct (Nat.eqb_spec (s_arr (hd_sl y)) (h_next h)); [lia|reflexivity].
    + constructor; [|constructor]. intros _. unfold mk_hand; simpl.
      split; [unfold wf_slice; simpl; rewrite Nat.eqb_refl; simpl; lia|]. split.
      * unfold read; simpl. rewrite Nat.eqb_refl; simpl. apply map_nth_seq0.
      * simpl. intros E. lia.
  - apply pairwise_snoc; auto. intros y Hy Ly _.
    rewrite Forall_forall in FA. destruct (FA y Hy Ly) as ((Wy1 & _) & _).
    left. simpl; lia.
Qed.

Lemma copy_values_inv its : forall h bb lg e h' bb' xs,
  Inv3 h bb lg -> copy_values h bb its e = (h', bb', xs) -> Inv3 h' bb' (lg ++ xs).
Proof.
  induction its as [|[[ss ds] d] r IH]; intros h bb lg e h' bb' xs I C; cbn [Buffer.copy_values] in C.
  - inversion C; subst. rewrite app_nil_r. auto.
  - destruct (source1 h ss d) as [h0 x0] eqn:S.
    destruct (bufferize1 h0 bb ds d e) as [[h1 bb1] x] eqn:B.
    destruct (copy_values h1 bb1 r e) as [[h2 bb2] xs'] eqn:C'.
    injection C as <- <- <-.
    destruct (source1_inv _ _ _ _ _ _ _ I S) as (I0 & _).
    destruct (bufferize1_inv _ _ _ _ _ _ _ _ _ I0 B) as (I1 & _).
    pose proof (IH _ _ _ _ _ _ _ I1 C') as I2.
    rewrite <- !app_assoc in I2. exact I2.
Qed.

Lemma release_eq bb bb' : (s_len bb' = 0 -> bb' = bb) -> release bb bb' = bb'.
Proof.
  intros H. unfold release. destruct (Nat.eqb_spec (s_len bb') 0) as [E|E]; auto. symmetry; auto.
Qed.

(* ---------- the client's writes ---------- *)
Lemma read_write_point h x i c :
  i < s_len x ->
  read (write h (s_arr x) (s_off x + i) [c]) x = upd_nth i c (read h x).
Proof.
  intros Hi. unfold read, write; simpl. rewrite Nat.eqb_refl; simpl.
  generalize (s_off x) as off. generalize (a_get (h_arr h (s_arr x))) as g.
  revert i Hi. generalize (s_len x) as len.
  induction len as [|len IH]; intros i Hi g off; [lia|].
  destruct i as [|i]; simpl.
  - rewrite Nat.add_0_r.
    replace (off <=? off) with true by (symmetry; apply Nat.leb_le; lia).
    replace (off <? off + 1) with true by (symmetry; apply Nat.ltb_lt; lia).
    simpl. rewrite Nat.sub_diag. f_equal.
    apply map_seq_ext; intros j Hj.
    replace (j <? off + 1) with false by (symmetry; apply Nat.ltb_ge; lia).
    rewrite andb_false_r; reflexivity.
  - replace (off + S i <=? off) with false by (symmetry; apply Nat.leb_gt; lia). simpl.
    f_equal. specialize (IH i ltac:(lia) g (S off)).
    replace (S off + i) with (off + S i) in IH by lia. exact IH.
Qed.

(* the client re-fills its own slice from the start (unbuffered Set on that field); with nothing to
   fill in, that is x = x[:0] *)
Lemma setunbuf_inv h bb lg k d e :
  Inv3 h bb lg -> Inv (step {| st_heap := h; st_bb := bb; st_log := lg |} (CSetUnbuf k d e)).
Proof.
  unfold Inv; simpl. intros I.
  destruct (nth_error lg k) as [x|] eqn:Hk; [|exact I].
  destruct (negb (hd_str x) && hd_live x) eqn:G; [|exact I].
  apply andb_true_iff in G. destruct G as (Gs & Lx).
  set (s0 := {| s_arr := s_arr (hd_sl x); s_off := s_off (hd_sl x); s_len := 0; s_cap := s_cap (hd_sl x) |}).
  destruct (append h s0 d e) as [h' s'] eqn:A. simpl.
  destruct I as (WB & F & P). rewrite Forall_forall in F.
  destruct (F x (nth_error_In _ _ Hk) Lx) as (Wx & Rx & Fx).
  assert (W0 : wf_slice h s0) by (destruct Wx as (X1 & X2 & X3); unfold wf_slice, s0; simpl; repeat split; auto; lia).
  destruct (append_spec _ _ _ _ _ _ W0 A) as (Ws' & RD & LEN & NX & WFP & FR & CASES).
  assert (Lk : k < List.length lg) by (apply nth_error_Some; congruence).
  split; [apply WFP; exact WB|]. split.
  + apply Forall_forall. intros y Hy.
    apply In_nth_error in Hy. destruct Hy as (j & Hj).
    destruct (Nat.eq_dec j k) as [E|E].
    * subst j. rewrite nth_error_upd_nth_eq in Hj by auto. inversion Hj; subst y. intros _. simpl.
      split; [exact Ws'|]. split; [rewrite RD; reflexivity|].
      unfold hand_hi; simpl. intros E.
      destruct CASES as [(C1 & C2 & C3)|(C1 & C2 & C3)]; simpl in *.
      -- rewrite C1 in E. specialize (Fx E). unfold hand_hi in Fx. rewrite C2, C3. exact Fx.
      -- destruct WB as (WB1 & _). rewrite C1 in E. lia.
    * rewrite nth_error_upd_nth_neq in Hj by auto. intros Ly.
      destruct (F y (nth_error_In _ _ Hj) Ly) as (Wy & Ry & Fy).
      split; [apply WFP; exact Wy|]. split; [|exact Fy].
      rewrite FR; auto.
      pose proof (P j k y x E Hj Hk Ly Lx) as D. destruct Wy as (_ & _ & Wy3).
      unfold disj, hand_hi, hand_lo in D. simpl.
      destruct D as [D|[D|D]]; [left; exact D | right; left; lia | right; right; lia].
  + eapply pairwise_upd; eauto. intros j y Hjk Hj Ly _.
    pose proof (P j k y x Hjk Hj Hk Ly Lx) as D.
    destruct (F y (nth_error_In _ _ Hj) Ly) as ((Wy1 & _) & _).
    unfold disj, hand_hi, hand_lo in *; simpl.
    destruct CASES as [(C1 & C2 & C3)|(C1 & C2 & C3)]; simpl in *.
    * rewrite C1, C2, C3. exact D.
    * left. rewrite C1. lia.
Qed.

Theorem step_inv st o : Inv st -> Inv (step st o).
Proof.
  destruct st as [h bb lg]. unfold Inv; simpl. intros I.
  destruct o as [d e|d e|d e|d e|d e|fs e| |k i c|k d e|k d e|k e|fs e|k d e|isstr d|reuse ts e|reuse ss ds l e|d spare|k|v reuse ks e]; simpl.
  - destruct (bufferize1 h bb false d e) as [[h' bb'] x] eqn:B. simpl.
    apply (bufferize1_inv _ _ _ _ _ _ _ _ _ I B).
  - destruct (bufferize1 h bb true d e) as [[h' bb'] x] eqn:B. simpl.
    apply (bufferize1_inv _ _ _ _ _ _ _ _ _ I B).
  - (* Acquire / append / Release hands nothing out: same as a Bufferize whose result is dropped *)
    destruct (append h bb d e) as [h' bb'] eqn:A. simpl.
    assert (B : bufferize1 h bb false d e = (h', bb', mk_hand false (sub bb' (s_len bb)) d))
      by (unfold Buffer.bufferize1; rewrite A; reflexivity).
    destruct (bufferize1_inv _ _ _ _ _ _ _ _ _ I B) as ((W & F & P) & Z & _).
    rewrite (release_eq _ _ Z). split; [exact W|]. split.
    + apply Forall_app in F. tauto.
    + intros i j a b Hij Ha Hb. apply (P i j a b Hij).
      * rewrite nth_error_app1; auto. apply nth_error_Some; congruence.
      * rewrite nth_error_app1; auto. apply nth_error_Some; congruence.
  - destruct (bufferize1 h bb false d e) as [[h' bb'] x] eqn:B. simpl.
    destruct (bufferize1_inv _ _ _ _ _ _ _ _ _ I B) as (I' & Z & _).
    rewrite (release_eq _ _ Z). exact I'.
  - destruct (bufferize1 h bb true d e) as [[h' bb'] x] eqn:B. simpl.
    destruct (bufferize1_inv _ _ _ _ _ _ _ _ _ I B) as (I' & Z & _).
    rewrite (release_eq _ _ Z). exact I'.
  - destruct (copy_fields h bb fs e) as [[h' bb'] xs] eqn:C. simpl.
    destruct (copy_fields_inv _ _ _ _ _ _ _ _ I C) as (I' & Z & _).
    rewrite (release_eq _ _ Z). exact I'.
  - (* Reset: every earlier handout is dead, nothing is claimed about it *)
    destruct I as ((W1 & W2 & W3) & F & P). split; [unfold wf_slice; simpl; repeat split; auto; lia|].
    split.
    + apply Forall_forall. intros y Hy. apply in_map_iff in Hy. destruct Hy as (z & <- & _).
      intros L; discriminate L.
    + intros i j a b _ Ha _ La. rewrite nth_error_map in Ha.
      destruct (nth_error lg i); inversion Ha; subst a. discriminate La.
  - (* client overwrites one byte of its own slice *)
    destruct (nth_error lg k) as [x|] eqn:Hk; [|exact I].
    destruct (negb (hd_str x) && (i <? s_len (hd_sl x)) && hd_live x) eqn:G; [|exact I].
    apply andb_true_iff in G. destruct G as (G & Lx). apply andb_true_iff in G. destruct G as (Gs & Gi).
    apply Nat.ltb_lt in Gi. simpl.
    destruct I as (WB & F & P). rewrite Forall_forall in F.
    destruct (F x (nth_error_In _ _ Hk) Lx) as (Wx & Rx & Fx).
    pose proof Wx as (Wx1 & Wx2 & Wx3).
    split; [apply wf_write; exact WB|]. split.
    + apply Forall_forall. intros y Hy.
      apply In_nth_error in Hy. destruct Hy as (j & Hj).
      assert (Lk : k < List.length lg) by (apply nth_error_Some; congruence).
      destruct (Nat.eq_dec j k) as [E|E].
      * subst j. rewrite nth_error_upd_nth_eq in Hj by auto. inversion Hj; subst y. intros _. simpl.
        split; [apply wf_write; exact Wx|]. split; [|exact Fx].
        rewrite read_write_point by auto. rewrite Rx. reflexivity.
      * rewrite nth_error_upd_nth_neq in Hj by auto. intros Ly.
        destruct (F y (nth_error_In _ _ Hj) Ly) as (Wy & Ry & Fy).
        split; [apply wf_write; exact Wy|]. split; [|exact Fy].
        rewrite read_write_frame; auto.
        pose proof (P j k y x E Hj Hk Ly Lx) as D. destruct Wy as (_ & _ & Wy3).
        unfold disj, hand_hi, hand_lo in D. simpl. destruct D as [D|[D|D]]; [left; exact D | right; left; lia | right; right; lia].
    + eapply pairwise_upd; eauto. intros j y Hjk Hj Ly _.
      pose proof (P j k y x Hjk Hj Hk Ly Lx) as D. exact D.
  - (* client appends to its own slice *)
    destruct (nth_error lg k) as [x|] eqn:Hk; [|exact I].
    destruct (negb (hd_str x) && hd_live x) eqn:G; [|exact I].
    apply andb_true_iff in G. destruct G as (Gs & Lx).
    destruct (append h (hd_sl x) d e) as [h' s'] eqn:A. simpl.
    destruct I as (WB & F & P). rewrite Forall_forall in F.
    destruct (F x (nth_error_In _ _ Hk) Lx) as (Wx & Rx & Fx).
    destruct (append_spec _ _ _ _ _ _ Wx A) as (Ws' & RD & LEN & NX & WFP & FR & CASES).
    assert (Lk : k < List.length lg) by (apply nth_error_Some; congruence).
    split; [apply WFP; exact WB|]. split.
    + apply Forall_forall. intros y Hy.
      apply In_nth_error in Hy. destruct Hy as (j & Hj).
      destruct (Nat.eq_dec j k) as [E|E].
      * subst j. rewrite nth_error_upd_nth_eq in Hj by auto. inversion Hj; subst y. intros _. simpl.
        split; [exact Ws'|]. split; [rewrite RD, Rx; reflexivity|].
        unfold hand_hi; simpl. intros E.
        destruct CASES as [(C1 & C2 & C3)|(C1 & C2 & C3)].
        -- rewrite C1 in E. specialize (Fx E). unfold hand_hi in Fx. rewrite C2, C3. exact Fx.
        -- destruct WB as (WB1 & _). rewrite C1 in E. lia.
      * rewrite nth_error_upd_nth_neq in Hj by auto. intros Ly.
        destruct (F y (nth_error_In _ _ Hj) Ly) as (Wy & Ry & Fy).
        split; [apply WFP; exact Wy|]. split; [|exact Fy].
        rewrite FR; auto.
        pose proof (P j k y x E Hj Hk Ly Lx) as D. destruct Wy as (_ & _ & Wy3).
        destruct Wx as (_ & _ & Wx3).
        unfold disj, hand_hi, hand_lo in D. destruct D as [D|[D|D]]; [left; exact D | right; left; lia | right; right; lia].
    + eapply pairwise_upd; eauto. intros j y Hjk Hj Ly _.
      pose proof (P j k y x Hjk Hj Hk Ly Lx) as D.
      destruct (F y (nth_error_In _ _ Hj) Ly) as ((Wy1 & _) & _).
      unfold disj, hand_hi, hand_lo in *; simpl.
      destruct CASES as [(C1 & C2 & C3)|(C1 & C2 & C3)].
      * rewrite C1, C2, C3. exact D.
      * left. rewrite C1. lia.
  - (* client re-fills its own slice from the start (unbuffered Set on that field) *)
    apply (setunbuf_inv h bb lg k d e I).
  - (* a handed-out value is fed back into the buffer: a fresh copy is handed out *)
    destruct (nth_error lg k) as [x|] eqn:Hk; [|exact I].
    destruct (hd_live x) eqn:Lx; [|exact I].
    destruct (bufferize1 h bb (hd_str x) (hd_want x) e) as [[h' bb'] y] eqn:B. simpl.
    apply (bufferize1_inv _ _ _ _ _ _ _ _ _ I B).
  - (* CopyTo into a non-fresh destination: every field takes a new region of the buffer *)
    destruct (copy_fields h bb fs e) as [[h' bb'] xs] eqn:C. simpl.
    destruct (copy_fields_inv _ _ _ _ _ _ _ _ I C) as (I' & Z & _).
    rewrite (release_eq _ _ Z). exact I'.
  - (* buffered Assign into a non-fresh []byte destination *)
    destruct (bufferize1 h bb false d e) as [[h' bb'] x] eqn:B. simpl.
    destruct (bufferize1_inv _ _ _ _ _ _ _ _ _ I B) as (I' & Z & _).
    rewrite (release_eq _ _ Z). exact I'.
  - (* a value of the client outside the buffer comes under observation *)
    destruct (source1_inv h bb lg isstr d _ _ I eq_refl) as (I' & _). exact I'.
  - (* CopyTo of the built-in map inspector: one Bufferize per text value, sources observed *)
    destruct (copy_values h bb (items_of_toks ts) e) as [[h' bb'] xs] eqn:C. simpl.
    apply (copy_values_inv _ _ _ _ _ _ _ _ I C).
  - (* CopyTo of the built-in strings inspector *)
    destruct (copy_values h bb (items_of_strings ss ds l) e) as [[h' bb'] xs] eqn:C. simpl.
    apply (copy_values_inv _ _ _ _ _ _ _ _ I C).
  - (* a []byte of the client with spare capacity comes under observation: the whole capacity is its extent *)
    destruct (source_cap_inv h bb lg d spare _ _ I eq_refl) as (I' & _). exact I'.
  - (* x = x[:0]: an unbuffered re-fill with nothing *)
    apply (setunbuf_inv h bb lg k [] 0 I).
  - (* a copy whose source fields are observed values: every field takes a new region of the buffer *)
    destruct (held lg ks) as [xs|]; [|exact I].
    destruct (via_ok v xs); [|exact I].
    destruct (copy_fields h bb (held_fields v xs) e) as [[h' bb'] ys] eqn:C. simpl.
    destruct (copy_fields_inv _ _ _ _ _ _ _ _ I C) as (I' & Z & _).
    destruct (via_releases v); [rewrite (release_eq _ _ Z)|]; exact I'.
Qed.

Lemma init_inv size : Inv (init size).
Proof.
  unfold Inv, init. destruct (Nat.eqb size 0); simpl.
  - split; [unfold wf_slice; simpl; lia|]. split; [constructor|]. intros i j a b _ Ha. destruct i; discriminate.
  - split; [unfold wf_slice; simpl; lia|]. split; [constructor|]. intros i j a b _ Ha. destruct i; discriminate.
Qed.

Theorem run_inv size ops : Inv (run true size ops).
Proof.
  unfold run. generalize (init_inv size). generalize (init size) as st.
  induction ops as [|o r IH]; intros st I; simpl; auto. apply IH, step_inv, I.
Qed.

(* ---------- consequences in the terms of the property ---------- *)
Theorem content_stable size ops k x :
  nth_error (st_log (run true size ops)) k = Some x -> hd_live x = true ->
  read (st_heap (run true size ops)) (hd_sl x) = hd_want x.
Proof.
  intros Hk L. destruct (run_inv size ops) as (_ & F & _). rewrite Forall_forall in F.
  destruct (F x (nth_error_In _ _ Hk) L) as (_ & R & _). exact R.
Qed.

Lemma overlap_disj x y : disj x y -> overlap x y = false.
Proof.
  unfold disj, overlap. intros [D|[D|D]].
  - apply Nat.eqb_neq in D. rewrite D. reflexivity.
  - replace (hand_lo y <? hand_hi x) with false by (symmetry; apply Nat.ltb_ge; lia).
    apply andb_false_r.
  - replace (hand_lo x <? hand_hi y) with false by (symmetry; apply Nat.ltb_ge; lia).
    rewrite andb_false_r. reflexivity.
Qed.

Lemma pairwise_live_tail x r : pairwise (x :: r) -> pairwise r.
Proof. intros P i j a b Hij Ha Hb. apply (P (S i) (S j)); simpl; auto. Qed.

Lemma any_overlap_pairwise lg :
  Forall (fun x => hd_live x = true) lg -> pairwise lg -> any_overlap lg = false.
Proof.
  induction lg as [|x r IH]; intros L P; simpl; auto.
  inversion L as [|? ? Lx Lr]; subst.
  rewrite IH; auto; [|eapply pairwise_live_tail; eauto].
  rewrite orb_false_r. apply not_true_is_false. intros E. apply existsb_exists in E.
  destruct E as (y & Hy & O). apply In_nth_error in Hy. destruct Hy as (j & Hj).
  rewrite Forall_forall in Lr. pose proof (Lr y (nth_error_In _ _ Hj)) as Ly.
  assert (D : disj x y) by (apply (P 0 (S j) x y); simpl; auto).
  rewrite (overlap_disj _ _ D) in O. discriminate.
Qed.

Lemma pairwise_filter lg : pairwise lg -> pairwise (live lg).
Proof.
  unfold live. induction lg as [|x r IH]; intros P; simpl; [exact P|].
  pose proof (IH (pairwise_live_tail _ _ P)) as Pr.
  destruct (hd_live x) eqn:Lx; [|exact Pr].
  intros i j a b Hij Ha Hb La Lb.
  destruct i as [|i]; destruct j as [|j]; try lia; simpl in *.
  - inversion Ha; subst a. apply nth_error_In in Hb. apply filter_In in Hb. destruct Hb as (Hb & _).
    apply In_nth_error in Hb. destruct Hb as (j' & Hj'). apply (P 0 (S j')); simpl; auto.
  - inversion Hb; subst b. apply nth_error_In in Ha. apply filter_In in Ha. destruct Ha as (Ha & _).
    apply In_nth_error in Ha. destruct Ha as (i' & Hi'). apply (P (S i') 0); simpl; auto.
  - apply (Pr i j); auto.
Qed.

Theorem no_overlap size ops : any_overlap (live (st_log (run true size ops))) = false.
Proof.
  destruct (run_inv size ops) as (_ & _ & P).
  apply any_overlap_pairwise; [|apply pairwise_filter; exact P].
  unfold live. apply Forall_forall. intros x Hx. apply filter_In in Hx. tauto.
Qed.

End Tight.

(* ---------- [hd_want] changes only through its holder's own operations ---------- *)
Definition targets (o : op) (k : nat) : bool :=
  match o with
  | CWrite k' _ _ | CAppend k' _ _ | CSetUnbuf k' _ _ | CTruncate k' => Nat.eqb k k'
  | _ => false
  end.

Lemma want_only_by_owner tight st o k x :
  nth_error (st_log st) k = Some x -> targets o k = false -> o <> OReset ->
  exists x', nth_error (st_log (step tight st o)) k = Some x' /\ hd_want x' = hd_want x /\ hd_live x' = hd_live x.
Proof.
  intros Hk T NR. destruct st as [h bb lg]; simpl in *.
  assert (APP : forall xs, nth_error (lg ++ xs) k = Some x)
    by (intros xs; rewrite nth_error_app1; auto; apply nth_error_Some; congruence).
  destruct o as [d e|d e|d e|d e|d e|fs e| |k' i c|k' d e|k' d e|k' e|fs e|k' d e|isstr d|reuse ts e|reuse ss ds l e|d spare|k'|v reuse ks e]; simpl in *;
    try congruence.
  - destruct (bufferize1 tight h bb false d e) as [[? ?] ?]; simpl; eauto.
  - destruct (bufferize1 tight h bb true d e) as [[? ?] ?]; simpl; eauto.
  - destruct (append h bb d e); simpl; eauto.
  - destruct (bufferize1 tight h bb false d e) as [[? ?] ?]; simpl; eauto.
  - destruct (bufferize1 tight h bb true d e) as [[? ?] ?]; simpl; eauto.
  - destruct (copy_fields tight h bb fs e) as [[? ?] ?]; simpl; eauto.
  - apply Nat.eqb_neq in T.
    destruct (nth_error lg k') as [y|]; simpl; eauto.
    destruct (_ && _ && _); simpl; eauto.
    rewrite nth_error_upd_nth_neq by auto. eauto.
  - apply Nat.eqb_neq in T.
    destruct (nth_error lg k') as [y|]; simpl; eauto.
    destruct (_ && _); simpl; eauto. destruct (append _ _ _ _); simpl.
    rewrite nth_error_upd_nth_neq by auto. eauto.
  - apply Nat.eqb_neq in T.
    destruct (nth_error lg k') as [y|]; simpl; eauto.
    destruct (_ && _); simpl; eauto. destruct (append _ _ _ _); simpl.
    rewrite nth_error_upd_nth_neq by auto. eauto.
  - destruct (nth_error lg k') as [y|]; simpl; eauto.
    destruct (hd_live y); simpl; eauto.
    destruct (bufferize1 tight h bb (hd_str y) (hd_want y) e) as [[? ?] ?]; simpl; eauto.
  - destruct (copy_fields tight h bb fs e) as [[? ?] ?]; simpl; eauto.
  - destruct (bufferize1 tight h bb false d e) as [[? ?] ?]; simpl; eauto.
  - destruct (source1 h isstr d) as [? ?]; simpl; eauto.
  - destruct (copy_values tight h bb (items_of_toks ts) e) as [[? ?] ?]; simpl; eauto.
  - destruct (copy_values tight h bb (items_of_strings ss ds l) e) as [[? ?] ?]; simpl; eauto.
  - destruct (source_cap h d spare) as [? ?]; simpl; eauto.
  - apply Nat.eqb_neq in T.
    destruct (nth_error lg k') as [y|]; simpl; eauto.
    destruct (_ && _); simpl; eauto.
    rewrite nth_error_upd_nth_neq by auto. eauto.
  - destruct (held lg ks) as [xs|]; simpl; eauto.
    destruct (via_ok v xs); simpl; eauto.
    destruct (copy_fields tight h bb (held_fields v xs) e) as [[? ?] ?]; simpl; eauto.
Qed.

(* ---------- a built-in CopyTo is the sequence of its Bufferize calls ---------- *)
Lemma expand_items_cons ss ds d r e :
  expand_items ((ss, ds, d) :: r) e
  = OSource ss d :: (if ds then OBufferizeString d e else OBufferize d e) :: expand_items r e.
Proof. reflexivity. Qed.

Lemma copy_values_expand tight its : forall e h bb lg,
  (let '(h', bb', xs) := Buffer.copy_values tight h bb its e in
   {| st_heap := h'; st_bb := bb'; st_log := lg ++ xs |})
  = fold_left (Buffer.step tight) (expand_items its e) {| st_heap := h; st_bb := bb; st_log := lg |}.
Proof.
  induction its as [|[[ss ds] d] r IH]; intros e h bb lg.
  - simpl. rewrite app_nil_r. reflexivity.
  - rewrite expand_items_cons. cbn [fold_left Buffer.copy_values].
    destruct (source1 h ss d) as [h0 x0] eqn:S.
    assert (E0 : Buffer.step tight {| st_heap := h; st_bb := bb; st_log := lg |} (OSource ss d)
                 = {| st_heap := h0; st_bb := bb; st_log := lg ++ [x0] |}).
    { unfold Buffer.step. cbn [st_heap st_bb st_log]. rewrite S. reflexivity. }
    rewrite E0.
    destruct (Buffer.bufferize1 tight h0 bb ds d e) as [[h1 bb1] x] eqn:B.
    assert (E : Buffer.step tight
                  {| st_heap := h0; st_bb := bb; st_log := lg ++ [x0] |}
                  (if ds then OBufferizeString d e else OBufferize d e)
                = {| st_heap := h1; st_bb := bb1; st_log := (lg ++ [x0]) ++ [x] |}).
    { destruct ds; unfold Buffer.step; cbn [st_heap st_bb st_log]; rewrite B; reflexivity. }
    rewrite E, <- IH.
    destruct (Buffer.copy_values tight h1 bb1 r e) as [[h2 bb2] xs] eqn:C.
    rewrite <- !app_assoc. reflexivity.
Qed.

Theorem builtin_copy_is_bufferize_sequence tight st :
  (forall reuse ts e, Buffer.step tight st (OCopyMap reuse ts e)
                      = fold_left (Buffer.step tight) (expand_items (items_of_toks ts) e) st) /\
  (forall reuse ss ds l e, Buffer.step tight st (OCopyStrings reuse ss ds l e)
                      = fold_left (Buffer.step tight) (expand_items (items_of_strings ss ds l) e) st).
Proof.
  destruct st as [h bb lg]. split; intros; simpl; apply copy_values_expand.
Qed.


(* ---------- sources with spare capacity, emptied values, copies of observed values ---------- *)
Lemma append_len h s d e h' s' : append h s d e = (h', s') -> s_len s' = s_len s + List.length d.
Proof.
  unfold append. destruct (s_len s + List.length d <=? s_cap s).
  - intros A; inversion A; reflexivity.
  - destruct (alloc _ _ _) as [h1 a]. intros A; inversion A; reflexivity.
Qed.

Lemma copy_fields_len0 tight fs : forall h bb e h' bb' xs,
  Buffer.copy_fields tight h bb fs e = (h', bb', xs) ->
  s_len bb <= s_len bb' /\ (s_len bb' = 0 -> bb' = bb).
Proof.
  induction fs as [|[isstr d] r IH]; intros h bb e h' bb' xs C; simpl in C.
  - inversion C; subst. auto.
  - unfold Buffer.bufferize1 in C.
    destruct (append h bb d e) as [h1 bb1] eqn:A.
    destruct (Buffer.copy_fields tight h1 bb1 r e) as [[h2 bb2] xs'] eqn:C'.
    inversion C; subst h' bb' xs; clear C.
    destruct (IH _ _ _ _ _ _ C') as (M & Z).
    pose proof (append_len _ _ _ _ _ _ A) as L.
    split; [lia|]. intros L0.
    assert (E : bb2 = bb1) by (apply Z; exact L0). subst bb2.
    eapply append_len0; eauto.
Qed.

(* A copy whose source fields are observed values is the copy of their contents: where the source
   lives (in an array of the client, with or without spare capacity, or in the buffer itself), how
   much capacity it has, which inspector walks it and whether the destination is fresh make no
   difference to what is handed out. *)
Theorem held_copy_is_copyto tight st v reuse ks e xs :
  held (st_log st) ks = Some xs -> via_ok v xs = true ->
  Buffer.step tight st (OCopyHeld v reuse ks e) = Buffer.step tight st (OCopyTo (held_fields v xs) e).
Proof.
  destruct st as [h bb lg]. simpl. intros H V. rewrite H, V.
  destruct (Buffer.copy_fields tight h bb (held_fields v xs) e) as [[h' bb'] ys] eqn:C.
  destruct (via_releases v); [reflexivity|].
  destruct (copy_fields_len0 _ _ _ _ _ _ _ _ C) as (_ & Z).
  unfold release. destruct (Nat.eqb_spec (s_len bb') 0) as [E|E]; [|reflexivity].
  rewrite (Z E). reflexivity.
Qed.

(* ... and nothing happens when one of the sources is gone (never handed out, or dead since a Reset) *)
Theorem held_copy_needs_live_sources tight st v reuse ks e :
  held (st_log st) ks = None -> Buffer.step tight st (OCopyHeld v reuse ks e) = st.
Proof. destruct st as [h bb lg]. simpl. intros H. rewrite H. reflexivity. Qed.

(* x = x[:0] is the unbuffered re-fill with nothing *)
Theorem truncate_is_empty_refill tight st k :
  Buffer.step tight st (CTruncate k) = Buffer.step tight st (CSetUnbuf k [] 0).
Proof. reflexivity. Qed.

(* the extent of an observed source is its whole capacity, in an array of its own *)
Theorem source_cap_extent tight st d spare :
  exists x, st_log (Buffer.step tight st (OSourceCap d spare)) = st_log st ++ [x] /\
            hd_want x = d /\ hd_live x = true /\ hd_str x = false /\
            s_arr (hd_sl x) = h_next (st_heap st) /\
            hand_lo x = 0 /\ s_len (hd_sl x) = List.length d /\ hand_hi x = List.length d + spare.
Proof.
  destruct st as [h bb lg]. simpl. eexists. split; [reflexivity|]. simpl. unfold hand_lo, hand_hi; simpl.
  repeat split; reflexivity.
Qed.

Theorem source_without_spare tight st d :
  Buffer.step tight st (OSourceCap d 0) = Buffer.step tight st (OSource false d).
Proof.
  destruct st as [h bb lg]. simpl. unfold source_cap, source1, alloc. rewrite Nat.add_0_r. reflexivity.
Qed.

(* in every reachable state any two live observed values - hand-outs and sources alike - are disjoint
   over their full extents *)
Theorem pairwise_disjoint size ops i j x y :
  i <> j ->
  nth_error (st_log (run true size ops)) i = Some x -> nth_error (st_log (run true size ops)) j = Some y ->
  hd_live x = true -> hd_live y = true -> disj x y.
Proof. intros. destruct (run_inv size ops) as (_ & _ & P). eapply P; eauto. Qed.

Lemma handout_is_input : forall size ops d e,
  let st := run true size (ops ++ [OBufferize d e]) in
  exists x, nth_error (st_log st) (List.length (st_log (run true size ops))) = Some x /\
            hd_want x = d /\ hd_live x = true /\ read (st_heap st) (hd_sl x) = d.
Proof.
  intros size ops d e st.
  assert (E : st = step true (run true size ops) (OBufferize d e))
    by (unfold st, run; rewrite fold_left_app; reflexivity).
  remember (run true size ops) as s0 eqn:Hs0. destruct s0 as [h bb lg].
  simpl in E. destruct (bufferize1 true h bb false d e) as [[h' bb'] x] eqn:B.
  assert (I0 : Inv3 h bb lg) by (pose proof (run_inv size ops) as I; rewrite <- Hs0 in I; exact I).
  destruct (bufferize1_inv _ _ _ _ _ _ _ _ _ I0 B) as (_ & _ & W & L).
  exists x. simpl.
  assert (N : nth_error (st_log st) (List.length lg) = Some x).
  { rewrite E; simpl. rewrite nth_error_app2 by lia. rewrite Nat.sub_diag. reflexivity. }
  repeat split; auto.
  rewrite <- W. unfold st in *. apply (content_stable size (ops ++ [OBufferize d e]) (List.length lg)); auto.
Qed.
