(* Proofs/NoPanicStrings.v - C02 for the strings inspector: no method panics (Model/Strings.v), whatever
   the argument ([]string / [][]byte by value or by pointer, typed nil pointer, foreign type), path,
   operator, operand, iterator, assigned value.  The code before the nil tests (v_nil_ptr = false)
   dereferenced typed nil pointers - refuted in Properties/C02.v; for it the lemmas hold on every
   argument that is not a typed nil pointer ([safe]). *)
From Coq Require Import ZArith Bool String Ascii List Lia Floats.SpecFloat.
From Verif Require Import Util Ints Strconv Floats Strings StringsOps.
Import ListNotations.
Local Open Scope Z_scope.

Definition nopanic {A} (o : Strings.out A) : Prop := match o with Strings.Panic _ => False | _ => True end.

(* an argument the version [w] of the code does not dereference blindly: anything for the code that
   tests pointers against nil, anything but a typed nil pointer before *)
Definition safe (w : ver) (x : arg) : bool := match x with ANilPtr _ => v_nil_ptr w | _ => true end.
(* the same for the value handed to Set *)
Definition tval_safe (w : ver) (v : tval) : bool :=
  match v with TStringPtr None | TBytesPtr None => v_nil_ptr w | _ => true end.
(* the domain of the theorem before the nil tests: no typed nil *string / *[]byte *)
Definition tval_ok (v : tval) : bool :=
  match v with TStringPtr None | TBytesPtr None => false | _ => true end.

Lemma safe_fixed w x : v_nil_ptr w = true -> safe w x = true.
Proof. intros H. destruct x; try reflexivity. exact H. Qed.
Lemma safe_good w x : good x = true -> safe w x = true.
Proof. destruct x; try discriminate; reflexivity. Qed.
Lemma safe_not_nil w x : (forall r, x <> ANilPtr r) -> safe w x = true.
Proof. intros H. destruct x as [s|s|r|]; try reflexivity. exfalso. exact (H r eq_refl). Qed.
Lemma tval_safe_fixed w v : v_nil_ptr w = true -> tval_safe w v = true.
Proof. intros H. destruct v as [t|[t|]|t|[t|]|]; try reflexivity; exact H. Qed.
Lemma tval_safe_ok w v : tval_ok v = true -> tval_safe w v = true.
Proof. destruct v as [t|[t|]|t|[t|]|]; try discriminate; reflexivity. Qed.

Lemma sp_safe w x : safe w x = true -> sp w x = SpNotOk \/ exists ss pp, sp w x = SpOk ss pp.
Proof.
  destruct x as [s|s|r|]; simpl; intros S.
  - right. destruct (q_rep s); eauto.
  - right. destruct (q_rep s); eauto.
  - right. rewrite S. eauto.
  - left. reflexivity.
Qed.

Lemma index_data_ok {A} l idx (k : bytes -> Strings.out A) :
  ((0 <? zlen l) && (idx <? zlen l) = true \/ (0 <? zlen l) && (0 <=? idx) && (idx <? zlen l) = true) -> 0 <= idx ->
  (forall s, nopanic (k s)) -> nopanic (index_data l idx k).
Proof.
  intros G H0 K. unfold index_data.
  assert (R : idx < zlen l).
  { destruct G as [G|G]; repeat (apply andb_prop in G; destruct G as (G & ?)); apply Z.ltb_lt; assumption. }
  destruct (znth_range l idx H0 R) as (e & ->). apply K.
Qed.

Lemma get_to_np w x path : safe w x = true -> nopanic (si_get_to w x path).
Proof.
  intros G. unfold si_get_to. destruct path as [|p [|q r]]; try exact I.
  destruct (sp_safe w x G) as [->|(ss & pp & ->)]; [exact I|].
  destruct (atoi p) as [idx|]; [|exact I].
  repeat match goal with |- context [if ?c then _ else _] => destruct c end; exact I.
Qed.

Lemma compare_np w x o right path : safe w x = true -> nopanic (si_compare w x o right path).
Proof.
  intros G. unfold si_compare. destruct path as [|p [|q r]]; try exact I.
  destruct (sp_safe w x G) as [->|(ss & pp & ->)]; [exact I|].
  destruct (atoi p) as [idx|]; [|exact I].
  destruct (Z.ltb_spec idx 0) as [N|N]; [exact I|].
  destruct ((0 <? zlen ss) && (idx <? zlen ss)) eqn:E1.
  - apply index_data_ok; auto. intros s. exact I.
  - destruct ((0 <? zlen pp) && (idx <? zlen pp)) eqn:E2.
    + apply index_data_ok; auto. intros s. exact I.
    + destruct (v_cmp_guard w); exact I.
Qed.

Lemma loop_np w x it path : safe w x = true -> nopanic (si_loop w x it path).
Proof.
  intros G. unfold si_loop. destruct path; [|exact I].
  destruct (sp_safe w x G) as [->|(ss & pp & ->)]; [exact I|].
  repeat match goal with |- context [if ?c then _ else _] => destruct c end; exact I.
Qed.

Lemma length_np w x path : safe w x = true -> nopanic (si_length w x path).
Proof.
  intros G. unfold si_length. destruct (sp_safe w x G) as [->|(ss & pp & ->)]; [exact I|].
  destruct path as [|p [|q r]]; try exact I.
  destruct (atoi p) as [idx|]; [|exact I].
  destruct ((0 <? zlen ss) && (0 <=? idx) && (idx <? zlen ss)) eqn:E1.
  - apply index_data_ok; auto.
    + apply andb_prop in E1. destruct E1 as (E1 & _). apply andb_prop in E1. destruct E1 as (_ & E1). apply Z.leb_le. exact E1.
    + intros s. exact I.
  - destruct ((0 <? zlen pp) && (0 <=? idx) && (idx <? zlen pp)) eqn:E2; [|exact I].
    apply index_data_ok; auto.
    + apply andb_prop in E2. destruct E2 as (E2 & _). apply andb_prop in E2. destruct E2 as (_ & E2). apply Z.leb_le. exact E2.
    + intros s. exact I.
Qed.

Lemma capacity_np w x path : safe w x = true -> nopanic (si_capacity w x path).
Proof.
  intros G. unfold si_capacity. destruct (sp_safe w x G) as [->|(ss & pp & ->)]; [exact I|].
  destruct path as [|p [|q r]]; try (destruct (0 <? zlen pp); exact I).
  destruct (atoi p) as [idx|]; [|exact I].
  destruct ((0 <? zlen pp) && (0 <=? idx) && (idx <? zlen pp)) eqn:E; [|exact I].
  apply andb_prop in E. destruct E as (E & E3). apply andb_prop in E. destruct E as (_ & E2).
  apply Z.leb_le in E2. apply Z.ltb_lt in E3.
  destruct (znth_range pp idx E2 E3) as (e & ->). exact I.
Qed.

Lemma deep_equal_np w l r : safe w l = true -> safe w r = true -> nopanic (si_deep_equal w l r).
Proof.
  intros GL GR. unfold si_deep_equal.
  destruct (sp_safe w l GL) as [->|(ss & pp & ->)]; [exact I|].
  destruct (sp_safe w r GR) as [->|(ss' & pp' & ->)]; [exact I|].
  repeat match goal with |- context [if ?c then _ else _] => destruct c end; exact I.
Qed.

Lemma reset_np w x : safe w x = true -> nopanic (si_reset w x).
Proof. destruct x; simpl; intros S; try exact I. rewrite S. exact I. Qed.

(* CopyTo: source and destination *)
Lemma copy_to_np w src dst nid : safe w src = true -> safe w dst = true -> nopanic (si_copy_to w src dst nid).
Proof.
  intros G D. unfold si_copy_to. destruct (sp_safe w src G) as [->|(ss & pp & ->)]; [exact I|].
  destruct dst as [d|d|r|]; try exact I.
  - destruct (q_rep d); exact I.
  - simpl in D. rewrite D. exact I.
Qed.

Lemma copy_np w x nid : safe w x = true -> nopanic (si_copy w x nid).
Proof.
  intros G. unfold si_copy.
  pose proof (copy_to_np w x (APtr (nil_sq SS)) nid G eq_refl) as H.
  destruct (si_copy_to w x (APtr (nil_sq SS)) nid) as [[d n] e|k].
  - destruct d; exact I.
  - exact H.
Qed.

Lemma set_np w x v path nid : safe w x = true -> tval_safe w v = true -> nopanic (si_set_with_buffer w x v path nid).
Proof.
  intros G T. unfold si_set_with_buffer. destruct path as [|p [|q r]]; try exact I.
  destruct (sp_safe w x G) as [->|(ss & pp & ->)]; [exact I|].
  destruct (atoi p) as [idx|]; [|exact I].
  assert (S1 : forall l, nopanic (store w x l idx (sel_ss w v) nid)).
  { intros l. unfold store, sel_ss. destruct v as [t|[t|]|t|[t|]|]; simpl in T; rewrite ?T; try exact I;
      match goal with |- context [if ?c then _ else _] => destruct c end; exact I. }
  assert (S2 : forall l, nopanic (store w x l idx (sel_pp w v) nid)).
  { intros l. unfold store, sel_pp. destruct v as [t|[t|]|t|[t|]|]; simpl in T; rewrite ?T; try exact I;
      match goal with |- context [if ?c then _ else _] => destruct c end; exact I. }
  destruct (idx <? 0); [exact I|].
  destruct ((0 <? zlen ss) && (idx <? zlen ss)); [apply S1|].
  destruct ((0 <? zlen pp) && (idx <? zlen pp)); [apply S2|exact I].
Qed.

(* ---------- what the code with the nil tests answers for typed nil pointers ---------- *)
(* every read (DeepEqual's operands and the source of Copy / CopyTo included) treats a nil pointer as the
   nil slice of that representation handed in by value *)
Lemma nil_pointer_reads_as_nil_slice w r path o right it y dst nid : v_nil_ptr w = true ->
  si_get_to w (ANilPtr r) path = si_get_to w (AVal (nil_sq r)) path /\
  si_compare w (ANilPtr r) o right path = si_compare w (AVal (nil_sq r)) o right path /\
  si_loop w (ANilPtr r) it path = si_loop w (AVal (nil_sq r)) it path /\
  si_length w (ANilPtr r) path = si_length w (AVal (nil_sq r)) path /\
  si_capacity w (ANilPtr r) path = si_capacity w (AVal (nil_sq r)) path /\
  si_deep_equal w (ANilPtr r) y = si_deep_equal w (AVal (nil_sq r)) y /\
  si_deep_equal w y (ANilPtr r) = si_deep_equal w y (AVal (nil_sq r)) /\
  si_copy w (ANilPtr r) nid = si_copy w (AVal (nil_sq r)) nid /\
  si_copy_to w (ANilPtr r) dst nid = si_copy_to w (AVal (nil_sq r)) dst nid.
Proof.
  intros N.
  assert (S : sp w (ANilPtr r) = sp w (AVal (nil_sq r))) by (simpl; rewrite N; destruct r; reflexivity).
  unfold si_get_to, si_compare, si_loop, si_length, si_capacity, si_deep_equal, si_copy, si_copy_to. rewrite S.
  repeat split.
  destruct r; simpl; destruct path as [|p [|q t]]; try reflexivity; destruct (atoi p); reflexivity.
Qed.

(* nothing is written through a nil pointer: Set leaves it alone, Reset and CopyTo refuse it *)
Lemma nil_pointer_not_written w r src v path nid : v_nil_ptr w = true ->
  (exists e, si_set_with_buffer w (ANilPtr r) v path nid = Ret (ANilPtr r, nid) e) /\
  si_reset w (ANilPtr r) = Ret (ANilPtr r) (Some EUnsupported) /\
  si_copy_to w src (ANilPtr r) nid = Ret (ANilPtr r, nid) (Some EUnsupported).
Proof.
  intros N. split; [|split].
  - unfold si_set_with_buffer. destruct path as [|p [|q t]]; try (eexists; reflexivity).
    simpl. rewrite N. destruct (atoi p) as [idx|]; [|eexists; reflexivity].
    destruct (idx <? 0); eexists; reflexivity.
  - simpl. rewrite N. reflexivity.
  - unfold si_copy_to. destruct (sp_safe w src (safe_fixed w src N)) as [->|(ss & pp & ->)]; [reflexivity|].
    rewrite N. reflexivity.
Qed.

(* a typed nil *string / *[]byte handed to Set is no text: nothing is stored, whatever the sequence *)
Lemma nil_text_ignored w x v path nid : v_nil_ptr w = true -> tval_ok v = false ->
  exists e, si_set_with_buffer w x v path nid = Ret (x, nid) e.
Proof.
  intros N T. unfold si_set_with_buffer. destruct path as [|p [|q t]]; try (eexists; reflexivity).
  destruct (sp_safe w x (safe_fixed w x N)) as [->|(ss & pp & ->)]; [eexists; reflexivity|].
  destruct (atoi p) as [idx|]; [|eexists; reflexivity].
  assert (S1 : sel_ss w v = SelNone) by (destruct v as [t|[t|]|t|[t|]|]; try discriminate; simpl; rewrite ?N; reflexivity).
  assert (S2 : sel_pp w v = SelNone) by (destruct v as [t|[t|]|t|[t|]|]; try discriminate; simpl; rewrite ?N; reflexivity).
  rewrite S1, S2. unfold store.
  repeat match goal with |- context [if ?c then _ else _] => destruct c end; eexists; reflexivity.
Qed.
