(* Proofs/NoPanicStrings.v - C02 for the strings inspector: no method panics on a []string / [][]byte
   passed by value or by non-nil pointer (Model/Strings.v), whatever the path, operator, operand,
   iterator; typed nil pointers are dereferenced - refuted in Properties/C02.v. *)
From Coq Require Import ZArith Bool String Ascii List Lia Floats.SpecFloat.
From Verif Require Import Util Ints Strconv Floats Strings StringsOps.
Import ListNotations.
Local Open Scope Z_scope.

Definition nopanic {A} (o : Strings.out A) : Prop := match o with Strings.Panic _ => False | _ => True end.

Lemma sp_good x : good x = true -> exists ss pp, sp x = SpOk ss pp.
Proof. destruct x as [s|s|r|]; try discriminate; intros _; simpl; destruct (q_rep s); eauto. Qed.

Lemma index_data_ok {A} l idx (k : bytes -> Strings.out A) :
  ((0 <? zlen l) && (idx <? zlen l) = true \/ (0 <? zlen l) && (0 <=? idx) && (idx <? zlen l) = true) -> 0 <= idx ->
  (forall s, nopanic (k s)) -> nopanic (index_data l idx k).
Proof.
  intros G H0 K. unfold index_data.
  assert (R : idx < zlen l).
  { destruct G as [G|G]; repeat (apply andb_prop in G; destruct G as (G & ?)); apply Z.ltb_lt; assumption. }
  destruct (znth_range l idx H0 R) as (e & ->). apply K.
Qed.

Lemma get_to_np x path : good x = true -> nopanic (si_get_to x path).
Proof.
  intros G. unfold si_get_to. destruct path as [|p [|q r]]; try exact I.
  destruct (sp_good x G) as (ss & pp & ->).
  destruct (atoi p) as [idx|]; [|exact I].
  repeat match goal with |- context [if ?c then _ else _] => destruct c end; exact I.
Qed.

Lemma compare_np w x o right path : good x = true -> nopanic (si_compare w x o right path).
Proof.
  intros G. unfold si_compare. destruct path as [|p [|q r]]; try exact I.
  destruct (sp_good x G) as (ss & pp & ->).
  destruct (atoi p) as [idx|]; [|exact I].
  destruct (Z.ltb_spec idx 0) as [N|N]; [exact I|].
  destruct ((0 <? zlen ss) && (idx <? zlen ss)) eqn:E1.
  - apply index_data_ok; auto. intros s. exact I.
  - destruct ((0 <? zlen pp) && (idx <? zlen pp)) eqn:E2.
    + apply index_data_ok; auto. intros s. exact I.
    + destruct (v_cmp_guard w); exact I.
Qed.

Lemma loop_np x it path : good x = true -> nopanic (si_loop x it path).
Proof.
  intros G. unfold si_loop. destruct path; [|exact I].
  destruct (sp_good x G) as (ss & pp & ->).
  repeat match goal with |- context [if ?c then _ else _] => destruct c end; exact I.
Qed.

Lemma length_np x path : good x = true -> nopanic (si_length x path).
Proof.
  intros G. unfold si_length. destruct (sp_good x G) as (ss & pp & ->).
  destruct path as [|p [|q r]]; try exact I.
  destruct (atoi p) as [idx|]; [|exact I].
  destruct ((0 <? zlen ss) && (0 <=? idx) && (idx <? zlen ss)) eqn:E1.
  - apply index_data_ok; auto.
    + apply andb_prop in E1. destruct E1 as (E1 & _). apply andb_prop in E1. destruct E1 as (_ & E1). apply Z.leb_le. exact E1.
    + intros s. exact I.
  - destruct ((0 <? zlen pp) && (0 <=? idx) && (idx <? zlen pp)) eqn:E2; [|exact I].
    apply index_data_ok; auto.
    + apply andb_prop in E2. destruct E2 as (E2 & _). apply andb_prop in E2. destruct E2 as (_ & E2). apply Z.leb_le. exact E2.
    + intros s. exact I.
Qed.

Lemma capacity_np x path : good x = true -> nopanic (si_capacity x path).
Proof.
  intros G. unfold si_capacity. destruct (sp_good x G) as (ss & pp & ->).
  destruct path as [|p [|q r]]; try (destruct (0 <? zlen pp); exact I).
  destruct (atoi p) as [idx|]; [|exact I].
  destruct ((0 <? zlen pp) && (0 <=? idx) && (idx <? zlen pp)) eqn:E; [|exact I].
  apply andb_prop in E. destruct E as (E & E3). apply andb_prop in E. destruct E as (_ & E2).
  apply Z.leb_le in E2. apply Z.ltb_lt in E3.
  destruct (znth_range pp idx E2 E3) as (e & ->). exact I.
Qed.

Lemma deep_equal_np w l r : good l = true -> good r = true -> nopanic (si_deep_equal w l r).
Proof.
  intros GL GR. unfold si_deep_equal.
  destruct (sp_good l GL) as (ss & pp & ->). destruct (sp_good r GR) as (ss' & pp' & ->).
  repeat match goal with |- context [if ?c then _ else _] => destruct c end; exact I.
Qed.

Lemma reset_np x : good x = true -> nopanic (si_reset x).
Proof. destruct x; try discriminate; intros _; exact I. Qed.

(* CopyTo: the destination may be by value, a non-nil pointer or of a foreign type *)
Lemma copy_to_np src dst nid : good src = true -> (forall r, dst <> ANilPtr r) -> nopanic (si_copy_to src dst nid).
Proof.
  intros G D. unfold si_copy_to. destruct (sp_good src G) as (ss & pp & ->).
  destruct dst as [d|d|r|]; try exact I.
  - destruct (q_rep d); exact I.
  - exfalso. exact (D r eq_refl).
Qed.

Lemma copy_np x nid : good x = true -> nopanic (si_copy x nid).
Proof.
  intros G. unfold si_copy.
  pose proof (copy_to_np x (APtr (nil_sq SS)) nid G) as H.
  destruct (si_copy_to x (APtr (nil_sq SS)) nid) as [[d n] e|k].
  - destruct d; exact I.
  - apply H. intros r. discriminate.
Qed.

(* Set: the assigned value may be anything but a typed nil *string / *[]byte *)
Definition tval_ok (v : tval) : bool :=
  match v with TStringPtr None | TBytesPtr None => false | _ => true end.

Lemma set_np w x v path nid : good x = true -> tval_ok v = true -> nopanic (si_set_with_buffer w x v path nid).
Proof.
  intros G T. unfold si_set_with_buffer. destruct path as [|p [|q r]]; try exact I.
  destruct (sp_good x G) as (ss & pp & ->).
  destruct (atoi p) as [idx|]; [|exact I].
  assert (S1 : forall l, nopanic (store w x l idx (sel_ss v) nid)).
  { intros l. unfold store, sel_ss. destruct v as [t|[t|]|t|[t|]|]; try discriminate; try exact I;
      match goal with |- context [if ?c then _ else _] => destruct c end; exact I. }
  assert (S2 : forall l, nopanic (store w x l idx (sel_pp v) nid)).
  { intros l. unfold store, sel_pp. destruct v as [t|[t|]|t|[t|]|]; try discriminate; try exact I;
      match goal with |- context [if ?c then _ else _] => destruct c end; exact I. }
  destruct (idx <? 0); [exact I|].
  destruct ((0 <? zlen ss) && (idx <? zlen ss)); [apply S1|].
  destruct ((0 <? zlen pp) && (idx <? zlen pp)); [apply S2|exact I].
Qed.
