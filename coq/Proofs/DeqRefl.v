(* Proofs/DeqRefl.v - reflexivity of structural identity, independence of the option representation,
   independence of the map visiting order. *)
From Coq Require Import List Bool String Ascii ZArith Arith Lia Floats.SpecFloat Permutation.
From Verif Require Import Util Ints Strconv Floats Node Value Outcome Deq DeqSpec DeqKeys DeqPaths DeqSound DeqSym.
Import ListNotations.
Local Open Scope string_scope.

(* ---------- a well-typed value with finite floats is structurally identical to itself ---------- *)
Lemma forallb2_refl {A} (f : A -> A -> bool) l : (forall a, In a l -> f a a = true) -> forallb2 f l l = true.
Proof. induction l as [|x r IH]; intros H; simpl; auto. rewrite H by (left; auto). apply IH. intros; apply H; right; auto. Qed.

Lemma finite_notnan f : finite f = true -> notnan f = true.
Proof. destruct f; simpl; auto. Qed.

Section Refl.
Variables (skip : string -> bool).

Definition Pr (n : node) : Prop := forall q a,
  wtb n a = true -> finv a = true -> kok a = true -> seqv true skip None n q a a = true.

Lemma fields_refl chld : Forall Pr chld -> forall q fs,
  forallb2 wtb chld fs = true -> forallb finv fs = true -> forallb kok fs = true ->
  seq_fields skip q (fun ch q' f g => seqv true skip None ch q' f g) chld fs fs = true.
Proof.
  induction 1 as [|c cr HC HR IH]; intros q fs WT FF KF; [reflexivity|].
  destruct fs as [|f fr]; [discriminate|]. cbn [forallb2 forallb seq_fields] in *.
  apply andb_true_iff in WT. destruct WT as (W1 & W2). apply andb_true_iff in FF. destruct FF as (F1 & F2).
  apply andb_true_iff in KF. destruct KF as (K1 & K2).
  rewrite (HC _ f W1 F1 K1), orb_true_r. cbn [andb]. apply IH; auto.
Qed.

Theorem seq_refl : forall n, Pr n.
Proof.
  induction n as [ty tn tu nm pk pki p chld mk mv sl hb hc IHc IHk IHv IHs] using node_ind'.
  intros q.
  assert (NP : forall a, wtb (Node ty tn tu nm pk pki false chld mk mv sl hb hc) a = true -> finv a = true -> kok a = true ->
               seqv true skip None (Node ty tn tu nm pk pki false chld mk mv sl hb hc) q a a = true).
  { intros a WT FA KA. cbn [wtb] in WT. cbn [seqv]. destruct ty.
    - destruct a as [| | | | |fs| | |]; try discriminate. cbn [finv kok] in *. apply fields_refl; auto.
    - destruct a as [| | | | | | |isn kvs|]; try discriminate. destruct mk as [kn|]; [|discriminate]. destruct mv as [vn|]; [|discriminate].
      rewrite Nat.eqb_refl. cbn [andb]. cbn [finv kok] in *. apply andb_true_iff in KA. destruct KA as (KO & KA).
      assert (REC : forall k v, In (k, v) kvs -> seqv true skip None vn q v v = true).
      { intros k v I. apply (IHv vn eq_refl).
        - pose proof (forallb_In _ _ _ WT I) as X. cbv beta in X. apply andb_true_iff in X. tauto.
        - pose proof (forallb_In _ _ _ FA I) as X. cbv beta in X. apply andb_true_iff in X. tauto.
        - apply (forallb_In _ _ _ KA I). }
      destruct (n_ptr kn) eqn:NPK.
      + apply forallb2_refl. intros [k v] I. eapply REC; eauto.
      + assert (KO' : keys_ok kvs = true).
        { apply orb_true_iff in KO. destruct KO as [KO|KO]; [exact KO|].
          destruct kvs as [|[k v] r]; [reflexivity|]. exfalso.
          cbn [allptr forallb fst] in KO. apply andb_true_iff in KO. destruct KO as (KP & _).
          cbn [forallb fst snd] in WT. apply andb_true_iff in WT. destruct WT as (WK & _). apply andb_true_iff in WK. destruct WK as (WK & _).
          destruct k; try discriminate KP. destruct kn as [kty ktn ktu knm kpk kpki kp kch kmk kmv ksl khb khc].
          cbn [n_ptr] in NPK. subst kp. cbn [wtb] in WK. destruct kty; try discriminate WK.
          - destruct (String.eqb ktn "[]byte"); discriminate WK.
          - destruct (skind_of_name ktu) as [sk|]; [destruct sk|]; discriminate WK. }
        clear KO. rename KO' into KO.
        assert (FD : forall k v, In (k, v) kvs -> map_find kvs k = Some v).
        { intros k v I. eapply map_find_in; eauto. exact (keys_ok_valid _ _ _ KO I). }
        apply andb_true_iff. split; unfold keys_within; apply forallb_forall; intros [k v] I; cbn [fst snd]; rewrite (FD k v I); eauto.
    - destruct (String.eqb tn "[]byte").
      + destruct a; try discriminate. apply String.eqb_refl.
      + destruct a as [| | | | | |isn es ex| |]; try discriminate. destruct sl as [en|]; [|discriminate].
        rewrite Nat.eqb_refl. cbn [andb]. cbn [finv kok] in *. apply forallb2_refl. intros a I. apply (IHs en eq_refl).
        * apply (forallb_In _ _ _ WT I). * apply (forallb_In _ _ _ FA I). * apply (forallb_In _ _ _ KA I).
    - destruct (skind_of_name tu) as [k|]; [|discriminate].
      destruct a; try (destruct k; discriminate).
      + apply eqb_reflx. + apply Z.eqb_refl.
      + cbn [same_float]. cbn [finv] in FA. unfold f64_eqb. apply SFeqb_from; auto using finite_notnan.
      + apply String.eqb_refl. }
  destruct p; [|exact NP].
  intros a WT FA KA. destruct a as [| | | | | | | |[x|]]; try discriminate WT; [|reflexivity].
  exact (NP x WT FA KA).
Qed.
End Refl.

(* ---------- the emitted code uses the options only through DEQMustCheck and the tolerance ---------- *)
Section Ext.
Variables (sh : bool) (o1 o2 : option deqopts).
Hypothesis MC : forall q, deq_must_check q o1 = deq_must_check q o2.
Hypothesis PR : eff_prec o1 = eff_prec o2.

Lemma forallb2_ext {A B} (f g : A -> B -> bool) l m : (forall a b, In a l -> f a b = g a b) -> forallb2 f l m = forallb2 g l m.
Proof. revert m; induction l as [|x r IH]; intros [|y s] H; simpl; auto. rewrite H by (left; auto). f_equal. apply IH. intros; apply H; right; auto. Qed.

Lemma forallb_ext' {A} (f g : A -> bool) l : (forall a, f a = g a) -> forallb f l = forallb g l.
Proof. intros H. induction l as [|x r IH]; simpl; auto. rewrite H, IH. reflexivity. Qed.

Definition Pe (n : node) : Prop := forall par path depth l r, deq sh o1 n par path depth l r = deq sh o2 n par path depth l r.

Lemma fields_ext chld : Forall Pe chld -> forall q depth fs gs,
  deq_fields (fun ch f g => deq sh o1 ch (Some typeStruct) q depth f g) chld fs gs =
  deq_fields (fun ch f g => deq sh o2 ch (Some typeStruct) q depth f g) chld fs gs.
Proof.
  induction 1 as [|c cr HC HR IH]; intros q depth fs gs; [reflexivity|].
  cbn [deq_fields]. destruct fs as [|f fr], gs as [|g gr]; try reflexivity. rewrite HC. f_equal. apply IH.
Qed.

Theorem deq_opts_ext : forall n, Pe n.
Proof.
  induction n as [ty tn tu nm pk pki p chld mk mv sl hb hc IHc IHk IHv IHs] using node_ind'.
  intros par path depth.
  assert (NP : forall l r, deq sh o1 (Node ty tn tu nm pk pki false chld mk mv sl hb hc) par path depth l r =
                          deq sh o2 (Node ty tn tu nm pk pki false chld mk mv sl hb hc) par path depth l r).
  { intros l r. cbn [deq]. rewrite !MC.
    match goal with |- (if ?c then true else _) = _ => destruct c; [reflexivity|] end.
    destruct ty.
    - destruct l as [| | | | |fs| | |], r as [| | | | |gs| | |]; try reflexivity. apply fields_ext; auto.
    - destruct l as [| | | | | | |ln lk|], r as [| | | | | | |rn rk|]; try reflexivity.
      destruct mk as [kn|]; [|reflexivity]. destruct mv as [vn|]; [|reflexivity]. f_equal.
      destruct (n_ptr kn).
      + unfold deq_entries_ptr. unfold Pe in IHv. destruct sh; [|reflexivity]. apply forallb2_ext. intros. apply (IHv vn eq_refl).
      + unfold deq_entries. apply forallb_ext'. intros kv. destruct (map_find rk (fst kv)); [|reflexivity]. apply (IHv vn eq_refl).
    - destruct (String.eqb tn "[]byte"); [reflexivity|].
      destruct l as [| | | | | |ln le ex| |], r as [| | | | | |rn re ex'| |]; try reflexivity.
      destruct sl as [en|]; [|reflexivity]. f_equal. apply forallb2_ext. intros. apply (IHs en eq_refl).
    - unfold equal_float. rewrite PR. reflexivity. }
  destruct p; [|exact NP].
  intros l r. destruct l as [| | | | | | | |[x|]], r as [| | | | | | | |[y|]]; try (cbn [deq]; rewrite !MC; reflexivity).
  exact (NP x y).
Qed.
End Ext.

(* ---------- the order in which `range` visits the left map does not matter ---------- *)
Lemma deq_entries_perm rec lk lk' rk : Permutation lk lk' -> deq_entries rec lk rk = deq_entries rec lk' rk.
Proof.
  intros P. unfold deq_entries. apply bool_eq_of_impl; rewrite !forallb_forall; intros H x I; apply H.
  - eapply Permutation_in; [apply Permutation_sym|]; eauto.
  - eapply Permutation_in; eauto.
Qed.
