module verif/harness

go 1.22.0

require (
	github.com/koykov/byteconv v1.0.1
	github.com/koykov/inspector v0.0.0
	github.com/koykov/x2bytes v1.0.2
	golang.org/x/tools v0.28.0
)

require (
	golang.org/x/mod v0.22.0 // indirect
	golang.org/x/sync v0.10.0 // indirect
)

replace github.com/koykov/inspector => /repo
