package main

import (
	"strings"

	"github.com/koykov/inspector"
)

// scrambledClone: a value of the same shape as v whose texts have the same LENGTHS and other content ('#'), built from
// fresh memory.  Handles what the built-in inspectors deal with; anything else is returned as it is.
func scrambledClone(v any) any {
	hashes := func(n int) string { return strings.Repeat("#", n) }
	switch x := v.(type) {
	case string:
		return hashes(len(x))
	case *string:
		if x == nil {
			return x
		}
		s := hashes(len(*x))
		return &s
	case []byte:
		if x == nil {
			return x
		}
		return []byte(hashes(len(x)))
	case *[]byte:
		if x == nil {
			return x
		}
		b := []byte(hashes(len(*x)))
		return &b
	case []string:
		if x == nil {
			return x
		}
		ss := make([]string, len(x))
		for i := range x {
			ss[i] = hashes(len(x[i]))
		}
		return ss
	case *[]string:
		if x == nil {
			return x
		}
		ss := scrambledClone(*x).([]string)
		return &ss
	case [][]byte:
		if x == nil {
			return x
		}
		pp := make([][]byte, len(x))
		for i := range x {
			pp[i] = []byte(hashes(len(x[i])))
		}
		return pp
	case *[][]byte:
		if x == nil {
			return x
		}
		pp := scrambledClone(*x).([][]byte)
		return &pp
	case map[string]any:
		if x == nil {
			return x
		}
		m := make(map[string]any, len(x))
		for k, e := range x {
			m[k] = scrambledClone(e)
		}
		return m
	case *map[string]any:
		if x == nil {
			return x
		}
		m, _ := scrambledClone(*x).(map[string]any)
		return &m
	case **map[string]any:
		if x == nil || *x == nil {
			return x
		}
		m, _ := scrambledClone(**x).(map[string]any)
		p := &m
		return &p
	}
	return v
}

// laterCopies: what Copy handed out must survive the later calls of the same method - two more Copy calls on a value of
// the same shape and text lengths but other content (a buffer recycled between calls would fit it exactly).  The models
// say that every Copy result is made of fresh allocations, so nothing that happens later can show in an earlier result.
func laterCopies(ins inspector.Inspector, like any) {
	defer func() { _ = recover() }()
	tw := scrambledClone(like)
	_, _ = ins.Copy(tw)
	_, _ = ins.Copy(tw)
}
