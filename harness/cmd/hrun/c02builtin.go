package main

// c02builtin stream: every method of the built-in inspectors (static, strings, map[string]any,
// reflect) and Assign / AssignBuf, called with hostile arguments built here from the names the
// case carries: typed nil pointers, nil and empty containers, nil elements, foreign types,
// garbage paths, every operator.  Observation: ok (the call returned) or PANIC:<kind>; a call
// that kills the process (stack overflow) is reported by lib/isolate.py as ABORT:<why>.
// reflect Get / GetTo additionally run targeted paths (GenC02builtin.v reflect_targets) over maps whose keys only
// their `%v` text names and over defined pointer / map types (types of c02defined.go and below).
//
//   <inspector>|<method>|<argument name>|<method parameters ...>
//   assign|<buffered 0|1>|<destination name>|<source name>

import (
	"runtime/debug"
	"strconv"
	"strings"

	"github.com/koykov/inspector"
)

func init() {
	streams["c02builtin"] = runC02Builtin
}

type c02Foreign struct{ X int }
type c02Inner struct{ X int }
type c02Outer struct{ *c02Inner }
type c02Cyc *c02Cyc
type c02Hidden struct{ x int }

// keys a path segment cannot name by a conversion: only their `%v` text; defined types with methods
type c02Str string
type c02Boom int
type c02LeafPtr *C02Leaf
type c02Rec map[C02Lang]c02Rec
type c02Emb struct {
	C02ByLang
	*C02Doc
}

func (c02Str) String() string  { return "S" }
func (c02Boom) String() string { panic("boom") }

func c02Arg(name string) (any, bool) {
	i, s, f, b := 7, "ab", 1.5, true
	bs := []byte("xy")
	ss := []string{"foo", "", "bar"}
	bb := [][]byte{[]byte("foo"), nil, {}}
	// spare capacity: items between length and capacity exist in the storage but are no elements
	sscap := append(make([]string, 0, 5), "foo", "bar", "beyond", "the", "end")[:2]
	bbcap := append(make([][]byte, 0, 5), []byte("foo"), []byte("bar"), []byte("beyond"), nil, []byte("end"))[:2]
	ssemp := append(make([]string, 0, 3), "gone", "too")[:0]
	bbemp := append(make([][]byte, 0, 3), []byte("gone"), []byte("too"))[:0]
	var ssnil []string
	var bbnil [][]byte
	pi := &i
	inner := map[string]any{"k": 1, "s": "str", "b": []byte("by"), "z": nil}
	var nilm map[string]any
	var nilpm *map[string]any
	pinner := &inner
	m := map[string]any{"a": inner, "p": pinner, "pp": &pinner, "np": nilpm, "nm": nilm, "npp": &nilpm,
		"i": 5, "n": nil, "l": []any{1, nil}, "f": c02Foreign{1}}
	pm := &m
	switch name {
	case "nil":
		return nil, true
	case "foreign":
		return c02Foreign{X: 1}, true
	case "pforeign":
		return &c02Foreign{X: 1}, true
	case "nforeign":
		return (*c02Foreign)(nil), true
	case "v:int":
		return i, true
	case "p:int":
		return &i, true
	case "n:int":
		return (*int)(nil), true
	case "pp:int":
		return &pi, true
	case "n:int8":
		return (*int8)(nil), true
	case "n:uint":
		return (*uint)(nil), true
	case "n:uint64":
		return (*uint64)(nil), true
	case "v:string":
		return s, true
	case "p:string":
		return &s, true
	case "n:string":
		return (*string)(nil), true
	case "v:bytes":
		return bs, true
	case "p:bytes":
		return &bs, true
	case "n:bytes":
		return (*[]byte)(nil), true
	case "v:nilbytes":
		return []byte(nil), true
	case "v:float64":
		return f, true
	case "p:float64":
		return &f, true
	case "n:float64":
		return (*float64)(nil), true
	case "n:float32":
		return (*float32)(nil), true
	case "v:bool":
		return b, true
	case "p:bool":
		return &b, true
	case "n:bool":
		return (*bool)(nil), true
	case "v:ss":
		return ss, true
	case "p:ss":
		return &ss, true
	case "n:ss":
		return (*[]string)(nil), true
	case "v:ssnil":
		return ssnil, true
	case "p:ssnil":
		return &ssnil, true
	case "v:sscap":
		return sscap, true
	case "p:sscap":
		return &sscap, true
	case "v:bbcap":
		return bbcap, true
	case "p:bbcap":
		return &bbcap, true
	case "p:ssemp":
		return &ssemp, true
	case "v:bbemp":
		return bbemp, true
	case "v:bb":
		return bb, true
	case "p:bb":
		return &bb, true
	case "n:bb":
		return (*[][]byte)(nil), true
	case "p:bbnil":
		return &bbnil, true
	case "v:m":
		return m, true
	case "p:m":
		return &m, true
	case "pp:m":
		return &pm, true
	case "n:m":
		return nilpm, true
	case "npp:m":
		return &nilpm, true
	case "nilpp:m":
		return (**map[string]any)(nil), true
	case "v:mnil":
		return nilm, true
	case "p:mnil":
		return &nilm, true
	case "r:embnil":
		return c02Outer{}, true
	case "r:pembnil":
		return &c02Outer{}, true
	case "r:cyc":
		var c c02Cyc
		c = &c
		return c, true
	case "r:array":
		return [2]int{1, 2}, true
	case "r:chan":
		return make(chan int), true
	case "r:func":
		return func() {}, true
	case "r:hidden":
		return c02Hidden{x: 1}, true
	case "r:mapany":
		return map[any]any{1: 2, "a": nil, 1.5: []int{1}, c02Foreign{2}: 3}, true
	case "r:anyslice":
		return []any{nil, 1, (*int)(nil), []any{nil}}, true
	case "r:kstruct":
		return map[c02Foreign]C02Lang{{1}: "x", {2}: "y"}, true
	case "r:karray":
		return map[[2]C02Code]string{{1, 2}: "x"}, true
	case "r:kiface":
		return map[any]any{C02Lang("a"): 1, "a": 2, C02Code(1): 3, 1: 4, nil: 5, c02Str("q"): 6}, true
	case "r:kptr":
		l := C02Lang("a")
		return map[*C02Lang]int{&l: 1, nil: 2}, true
	case "r:kstringer":
		return map[c02Str]int{"a": 1, "b": 2}, true
	case "r:kboom":
		return map[c02Boom]C02Names{1: {"x"}}, true
	case "r:kchan":
		return map[chan int]int{make(chan int): 1, nil: 2}, true
	case "r:kcomplex":
		return map[complex128]C02Lang{complex(1, 2): "x"}, true
	case "r:defptr":
		return map[string]c02LeafPtr{"a": &C02Leaf{Id: "i"}, "n": nil}, true
	case "r:defrec":
		return c02Rec{"a": {"b": nil, "c": {}}}, true
	case "r:pdefrec":
		r := c02Rec{"a": {"b": nil, "c": {}}}
		pr := &r
		return &pr, true
	case "r:defany":
		return map[C02Lang]any{"m": map[C02Code]any{1: C02Names{"x"}}, "s": C02Langs{"q"}, "n": nil, "p": (*C02ByLang)(nil),
			"d": &C02Doc{Titles: map[C02Lang]string{"en": "t"}}}, true
	case "r:embdef":
		return c02Emb{C02ByLang: C02ByLang{"a": {Id: "i"}}}, true
	case "r:nildefmap":
		return C02ByLang(nil), true
	case "r:pnildefmap":
		var m map[C02Lang]C02Lang
		return &m, true
	case "r:nested":
		return map[string][]map[int]*c02Foreign{"a": {nil, {1: nil, 2: {X: 3}}}}, true
	}
	return nil, false
}

func c02Inspector(name string) inspector.Inspector {
	switch name {
	case "static":
		return inspector.StaticInspector{}
	case "strings":
		return inspector.StringsInspector{}
	case "stranymap":
		return inspector.StringAnyMapInspector{}
	case "reflect":
		return inspector.ReflectInspector{}
	}
	return nil
}

func c02Unhex(s string) []byte {
	if s == "-" {
		return nil
	}
	return unhex(s)
}

func c02Path(s string) []string {
	if s == "-" {
		return nil
	}
	parts := strings.Split(s, ".")
	out := make([]string, len(parts))
	for i, p := range parts {
		out[i] = string(unhex(p))
	}
	return out
}

type c02Iter struct {
	want bool
	ctls string
	n    int
}

func (r *c02Iter) RequireKey() bool                    { return r.want }
func (r *c02Iter) SetKey(_ any, _ inspector.Inspector) {}
func (r *c02Iter) SetVal(_ any, _ inspector.Inspector) {}
func (r *c02Iter) Iterate() inspector.LoopCtl {
	c := inspector.LoopCtlNone
	if r.n < len(r.ctls) {
		switch r.ctls[r.n] {
		case 'B':
			c = inspector.LoopCtlBrk
		case 'C':
			c = inspector.LoopCtlCnt
		case 'X':
			c = inspector.LoopCtl(77)
		}
	}
	r.n++
	return c
}

var c02StackOnce bool

func runC02Builtin(input string) string {
	if !c02StackOnce {
		debug.SetMaxStack(8 << 20) // an endless recursion dies quickly
		c02StackOnce = true
	}
	f := strings.Split(input, "|")
	if f[0] == "assign" {
		dst, ok1 := c02Arg(f[2])
		src, ok2 := c02Arg(f[3])
		if !ok1 || !ok2 {
			return "NOARG"
		}
		if f[1] == "1" {
			var bb inspector.ByteBuffer
			_ = inspector.AssignBuf(dst, src, &bb)
		} else {
			_ = inspector.Assign(dst, src)
		}
		return "ok"
	}
	ins := c02Inspector(f[0])
	if ins == nil {
		return "NOINSPECTOR"
	}
	a, ok := c02Arg(f[2])
	if !ok {
		return "NOARG"
	}
	p := f[3:]
	switch f[1] {
	case "name":
		_ = ins.TypeName()
	case "get":
		_, _ = ins.Get(a, c02Path(p[0])...)
	case "getto":
		var buf any = 1
		_ = ins.GetTo(a, &buf, c02Path(p[0])...)
	case "len":
		n := 7
		_ = ins.Length(a, &n, c02Path(p[0])...)
	case "cap":
		n := 7
		_ = ins.Capacity(a, &n, c02Path(p[0])...)
	case "cmp":
		opn, _ := strconv.Atoi(p[0])
		res := false
		_ = ins.Compare(a, inspector.Op(opn), string(c02Unhex(p[1])), &res, c02Path(p[2])...)
	case "loop":
		buf := make([]byte, 0, 4)
		_ = ins.Loop(a, &c02Iter{want: p[0] == "1", ctls: p[1]}, &buf, c02Path(p[2])...)
	case "set":
		v, ok := c02Arg(p[1])
		if !ok {
			return "NOARG"
		}
		if p[0] == "1" {
			var bb inspector.ByteBuffer
			_ = ins.SetWithBuffer(a, v, &bb, c02Path(p[2])...)
		} else {
			_ = ins.Set(a, v, c02Path(p[2])...)
		}
	case "deq":
		r, ok := c02Arg(p[0])
		if !ok {
			return "NOARG"
		}
		_ = ins.DeepEqual(a, r)
		_ = ins.DeepEqualWithOptions(r, a, &inspector.DEQOptions{Exclude: map[string]struct{}{"x": {}}})
		_ = ins.DeepEqualWithOptions(a, a, nil)
	case "copy":
		_, _ = ins.Copy(a)
	case "copyto":
		d, ok := c02Arg(p[0])
		if !ok {
			return "NOARG"
		}
		var bb inspector.ByteBuffer
		_ = ins.CopyTo(a, d, &bb)
	case "reset":
		_ = ins.Reset(a)
	case "unm":
		enc, _ := strconv.Atoi(p[1])
		_, _ = ins.Unmarshal(c02Unhex(p[0]), inspector.Encoding(enc))
	default:
		return "NOMETHOD"
	}
	return "ok"
}
