package main

// C18 stream: one map[string]any tree (nested maps held as map, *map, **map,
// or one of the six nil holders) and a history of operations run against the
// real inspector.StringAnyMapInspector; after every operation the observation
// is printed in the canonical text of coq/Gen/GenC18.v.
//
//	value  = n | b0 | b1 | i<kind>:<dec> | s<hex> | y<hex>+<spare cap>
//	       | m<V|P|Q>{<hexkey>=<value>,...} | zM | zP | zPM | zQ | zQP | zQPM   (z.. in inputs only)
//	case   = value ; op ; op ...
//	op     = G!path | S!path!value | C!path!<op>!<hexright> | L!path | K!path | O!path!<-|n>
//	       | Y | T!value | R | D          path = k<hex>/k<hex>...
//
// Holders sharing map objects (input starts with '#'):
//
//	case   = #value#value... ; hop ; hop ...      the values are holders 0, 1, ...
//	hop    = g!i!path (holder := Get(h[i]))  | s!i!path!h<j> | s!i!path!value (Set of what h[j] holds / of a value)
//	       | l!i!path (Length) | r!i (Reset) | y!i (holder := Copy(h[i])) | t!i!j (CopyTo(h[i], h[j]))
//	       | w!i!<V|P|Q> (holder := the map h[i] holds, in that form; built here, not by the inspector)
//
// after every hop the result and the dump of EVERY holder are printed: <result>;<holder 0>;<holder 1>;...
// (a dump that is the same text as after the previous hop is written "=")
//
// Observations print a nil holder as the empty map of its form, keys sorted,
// never an address.  Memory sharing (Copy, CopyTo, Set) is observed natively
// from the address ranges of maps, pointer cells, strings and byte slices.

import (
	"encoding/hex"
	"reflect"
	"sort"
	"strconv"
	"strings"
	"unsafe"

	"github.com/koykov/inspector"
)

func init() { streams["c18"] = runC18 }

type (
	sam  = map[string]any
	psam = *map[string]any
)

// ---------------------------------------------------------------- parsing
type c18parser struct {
	s string
	i int
}

func (p *c18parser) hexrun() string {
	j := p.i
	for j < len(p.s) && (p.s[j] >= '0' && p.s[j] <= '9' || p.s[j] >= 'a' && p.s[j] <= 'f') {
		j++
	}
	h := p.s[p.i:j]
	p.i = j
	return string(unhex(h))
}

func (p *c18parser) value() any {
	c := p.s[p.i]
	p.i++
	switch c {
	case 'n':
		return nil
	case 'b':
		p.i++
		return p.s[p.i-1] == '1'
	case 'i':
		j := strings.IndexByte(p.s[p.i:], ':') + p.i
		kind := p.s[p.i:j]
		k := j + 1
		for k < len(p.s) && (p.s[k] == '-' || p.s[k] >= '0' && p.s[k] <= '9') {
			k++
		}
		num := p.s[j+1 : k]
		p.i = k
		if kind[0] == 'u' {
			u, err := strconv.ParseUint(num, 10, 64)
			if err != nil {
				panic("bad uint " + num)
			}
			switch kind {
			case "uint":
				return uint(u)
			case "uint8":
				return uint8(u)
			case "uint16":
				return uint16(u)
			case "uint32":
				return uint32(u)
			case "uint64":
				return u
			}
		}
		n, err := strconv.ParseInt(num, 10, 64)
		if err != nil {
			panic("bad int " + num)
		}
		switch kind {
		case "int":
			return int(n)
		case "int8":
			return int8(n)
		case "int16":
			return int16(n)
		case "int32":
			return int32(n)
		case "int64":
			return n
		}
		panic("bad kind " + kind)
	case 's':
		return string([]byte(p.hexrun())) // fresh memory
	case 'y':
		d := p.hexrun()
		p.i++ // '+'
		k := p.i
		for k < len(p.s) && p.s[k] >= '0' && p.s[k] <= '9' {
			k++
		}
		extra, _ := strconv.Atoi(p.s[p.i:k])
		p.i = k
		b := make([]byte, len(d), len(d)+extra)
		copy(b, d)
		return b
	case 'm':
		form := p.s[p.i]
		p.i += 2 // form, '{'
		m := sam{}
		for p.s[p.i] != '}' {
			k := p.hexrun()
			p.i++ // '='
			m[k] = p.value()
			if p.s[p.i] == ',' {
				p.i++
			}
		}
		p.i++
		switch form {
		case 'V':
			return m
		case 'P':
			return &m
		default:
			pm := &m
			return &pm
		}
	case 'z':
		j := p.i
		for j < len(p.s) && (p.s[j] == 'M' || p.s[j] == 'P' || p.s[j] == 'Q') {
			j++
		}
		t := p.s[p.i:j]
		p.i = j
		switch t {
		case "M":
			return sam(nil)
		case "P":
			return psam(nil)
		case "PM":
			var m sam
			return &m
		case "Q":
			return (*psam)(nil)
		case "QP":
			var pm psam
			return &pm
		case "QPM":
			var m sam
			pm := &m
			return &pm
		}
		panic("bad nil holder " + t)
	}
	panic("bad value at " + strconv.Itoa(p.i-1) + " in " + p.s)
}

func c18value(s string) any {
	p := &c18parser{s: s}
	v := p.value()
	if p.i != len(s) {
		panic("trailing text in " + s)
	}
	return v
}

func c18path(s string) []string {
	if s == "" {
		return nil
	}
	var out []string
	for _, k := range strings.Split(s, "/") {
		out = append(out, string(unhex(k[1:])))
	}
	return out
}

// ---------------------------------------------------------------- printing
// holder: the map a value holds (nil for nil holders) and its form letter; ok=false for non-maps.
func c18holder(v any) (m sam, form string, ok bool) {
	switch x := v.(type) {
	case sam:
		return x, "V", true
	case psam:
		if x == nil {
			return nil, "P", true
		}
		return *x, "P", true
	case *psam:
		if x == nil || *x == nil {
			return nil, "Q", true
		}
		return **x, "Q", true
	}
	return nil, "", false
}

func c18entries(m sam) string {
	keys := make([]string, 0, len(m))
	for k := range m {
		keys = append(keys, k)
	}
	sort.Strings(keys)
	var sb strings.Builder
	sb.WriteByte('{')
	for i, k := range keys {
		if i > 0 {
			sb.WriteByte(',')
		}
		sb.WriteString(hex.EncodeToString([]byte(k)))
		sb.WriteByte('=')
		sb.WriteString(c18print(m[k]))
	}
	sb.WriteByte('}')
	return sb.String()
}

// maps on the way from the value being printed to the current node: a map that
// contains itself is printed as {CYCLE} once and noted in c18cyclic (no history
// of the modelled domain builds one; a changed inspector may)
var (
	c18stack  []uintptr
	c18cyclic bool
)

func c18print(v any) string {
	if m, form, ok := c18holder(v); ok {
		if m == nil {
			return "m" + form + "{}"
		}
		p := reflect.ValueOf(m).Pointer()
		for _, q := range c18stack {
			if q == p {
				c18cyclic = true
				return "m" + form + "{CYCLE}"
			}
		}
		c18stack = append(c18stack, p)
		s := "m" + form + c18entries(m)
		c18stack = c18stack[:len(c18stack)-1]
		return s
	}
	switch x := v.(type) {
	case nil:
		return "n"
	case bool:
		if x {
			return "b1"
		}
		return "b0"
	case string:
		return "s" + hex.EncodeToString([]byte(x))
	case []byte:
		return "y" + hex.EncodeToString(x) + "+" + strconv.Itoa(cap(x)-len(x))
	case int, int8, int16, int32, int64:
		rv := reflect.ValueOf(v)
		return "i" + rv.Kind().String() + ":" + strconv.FormatInt(rv.Int(), 10)
	case uint, uint8, uint16, uint32, uint64:
		rv := reflect.ValueOf(v)
		return "i" + rv.Kind().String() + ":" + strconv.FormatUint(rv.Uint(), 10)
	}
	return "?" + reflect.TypeOf(v).String()
}

// ---------------------------------------------------------------- native memory view
type c18rng struct{ lo, hi uintptr }

func c18mem(v any, acc []c18rng) []c18rng {
	switch x := v.(type) {
	case psam:
		if x != nil {
			p := uintptr(unsafe.Pointer(x))
			acc = append(acc, c18rng{p, p + 8})
		}
	case *psam:
		if x != nil {
			p := uintptr(unsafe.Pointer(x))
			acc = append(acc, c18rng{p, p + 8})
			if *x != nil {
				q := uintptr(unsafe.Pointer(*x))
				acc = append(acc, c18rng{q, q + 8})
			}
		}
	case string:
		if len(x) > 0 {
			p := uintptr(unsafe.Pointer(unsafe.StringData(x)))
			acc = append(acc, c18rng{p, p + uintptr(len(x))})
		}
	case []byte:
		if cap(x) > 0 {
			p := uintptr(unsafe.Pointer(unsafe.SliceData(x)))
			acc = append(acc, c18rng{p, p + uintptr(cap(x))})
		}
	}
	if m, _, ok := c18holder(v); ok && m != nil {
		p := reflect.ValueOf(m).Pointer()
		acc = append(acc, c18rng{p, p + 1})
		for _, c := range m {
			acc = c18mem(c, acc)
		}
	}
	return acc
}

func c18shares(a, b []c18rng) string {
	for _, x := range a {
		for _, y := range b {
			if x.lo < y.hi && y.lo < x.hi {
				return "1"
			}
		}
	}
	return "0"
}

// native navigation (the harness's own oracle, used for Set sharing and Loop membership)
func c18nav(v any, path []string) (any, bool) {
	for _, k := range path {
		m, _, ok := c18holder(v)
		if !ok || m == nil {
			return nil, false
		}
		c, ok := m[k]
		if !ok {
			return nil, false
		}
		v = c
	}
	return v, true
}

// ---------------------------------------------------------------- iterator
type c18iter struct {
	brk   int // break at the call with this index; -1 never
	calls int
	key   string
	keys  []string
	vals  []any
}

func (it *c18iter) RequireKey() bool { return true }
func (it *c18iter) SetKey(val any, _ inspector.Inspector) {
	if p, ok := val.(*string); ok {
		it.key = strings.Clone(*p)
	} else {
		it.key = "?"
	}
}
func (it *c18iter) SetVal(val any, _ inspector.Inspector) {
	it.keys = append(it.keys, it.key)
	it.vals = append(it.vals, val)
}
func (it *c18iter) Iterate() inspector.LoopCtl {
	it.calls++
	if it.brk >= 0 && it.calls-1 == it.brk {
		return inspector.LoopCtlBrk
	}
	return inspector.LoopCtlNone
}

func c18err(err error) string {
	switch err {
	case nil:
		return "ok"
	case inspector.ErrUnsupportedType:
		return "err:unsupported"
	case inspector.ErrMustPointerType:
		return "err:mustpointer"
	}
	return "err:" + err.Error()
}

// c18histBuf: nil for every second history (by a checksum of its text), otherwise a buffer of 512 bytes that holds 5
func c18histBuf(input string) *inspector.ByteBuffer {
	h := 0
	for i := 0; i < len(input); i++ {
		h = (h*31 + int(input[i])) & 0xffff
	}
	if h%2 == 0 {
		return nil
	}
	b := inspector.NewByteBuffer(512)
	b.Bufferize([]byte("head:"))
	return b
}

// ---------------------------------------------------------------- the run
func runC18(input string) string {
	parts := strings.Split(input, ";")
	if strings.HasPrefix(parts[0], "#") {
		return runC18Share(parts)
	}
	state := c18value(parts[0])
	var ins inspector.StringAnyMapInspector
	var obs []string
	// every second history hands ONE caller-owned buffer - already holding bytes, with spare capacity - to all its Set
	// calls (SetWithBuffer); the others use Set (a fresh buffer per call).  The model's tree after every step is the same:
	// what an earlier step stored must survive the later ones whichever way the texts are buffered.
	hbuf := c18histBuf(input)
	set := func(dst, val any, path ...string) error {
		if hbuf != nil {
			return ins.SetWithBuffer(dst, val, hbuf, path...)
		}
		return ins.Set(dst, val, path...)
	}
	for _, o := range parts[1:] {
		f := strings.Split(o, "!")
		switch f[0] {
		case "G":
			v, err := ins.Get(state, c18path(f[1])...)
			switch {
			case err != nil:
				obs = append(obs, c18err(err))
			case v == nil:
				// (nil, nil): no value - a stored nil leaf reads the same
				obs = append(obs, "none")
			default:
				obs = append(obs, "v="+c18print(v))
			}
		case "S":
			path := c18path(f[1])
			val := c18value(f[2])
			err := set(state, val, path...)
			s := c18err(err) + ";" + c18print(state)
			if err == nil && len(path) > 0 {
				sh := "?"
				if nv, ok := c18nav(state, path); ok {
					sh = "-"
					switch x := val.(type) {
					case string:
						if len(x) > 0 {
							sh = c18shares(c18mem(val, nil), c18mem(nv, nil))
						}
					case []byte:
						if len(x) > 0 {
							sh = c18shares(c18mem(val, nil), c18mem(nv, nil))
						}
					}
				}
				s += ";sh=" + sh
			}
			obs = append(obs, s)
		case "C":
			op, _ := strconv.Atoi(f[2])
			right := string(unhex(f[3]))
			r0, r1 := false, true
			err := ins.Compare(state, inspector.Op(op), right, &r0, c18path(f[1])...)
			_ = ins.Compare(state, inspector.Op(op), right, &r1, c18path(f[1])...)
			switch {
			case err != nil:
				obs = append(obs, c18err(err))
			case r0 != r1:
				obs = append(obs, "none")
			case r0:
				obs = append(obs, "r=1")
			default:
				obs = append(obs, "r=0")
			}
		case "L", "K":
			call := ins.Length
			if f[0] == "K" {
				call = ins.Capacity
			}
			r0, r1 := -1, -2
			err := call(state, &r0, c18path(f[1])...)
			_ = call(state, &r1, c18path(f[1])...)
			switch {
			case err != nil:
				obs = append(obs, c18err(err))
			case r0 != r1:
				obs = append(obs, "none")
			default:
				obs = append(obs, "n="+strconv.Itoa(r0))
			}
		case "O":
			it := &c18iter{brk: -1}
			if f[2] != "-" {
				it.brk, _ = strconv.Atoi(f[2])
			}
			var buf []byte
			err := ins.Loop(state, it, &buf, c18path(f[1])...)
			if err != nil {
				obs = append(obs, c18err(err))
				break
			}
			if it.brk < 0 {
				seen := sam{}
				dup := false
				for i, k := range it.keys {
					if _, ok := seen[k]; ok {
						dup = true
					}
					seen[k] = it.vals[i]
				}
				s := c18entries(seen)
				if dup {
					s += ";dup"
				}
				obs = append(obs, s)
			} else {
				in := "1"
				node, _ := c18nav(state, c18path(f[1]))
				m, _, _ := c18holder(node)
				seen := map[string]bool{}
				for i, k := range it.keys {
					nv, ok := m[k]
					if !ok || seen[k] || c18print(nv) != c18print(it.vals[i]) {
						in = "0"
					}
					seen[k] = true
				}
				obs = append(obs, "c="+strconv.Itoa(len(it.keys))+";in="+in)
			}
		case "Y":
			c, err := ins.Copy(state)
			laterCopies(ins, state)
			obs = append(obs, c18err(err)+";"+c18print(c)+";sh="+c18shares(c18mem(state, nil), c18mem(c, nil)))
			state = c
		case "T":
			dst := c18value(f[1])
			var buf inspector.ByteBuffer
			err := ins.CopyTo(state, dst, &buf)
			// what the destination holds below its own holder
			var below []c18rng
			if m, _, ok := c18holder(dst); ok {
				for _, c := range m {
					below = c18mem(c, below)
				}
			}
			obs = append(obs, c18err(err)+";"+c18print(dst)+";sh="+c18shares(c18mem(state, nil), below))
		case "R":
			err := ins.Reset(state)
			obs = append(obs, c18err(err)+";"+c18print(state))
		case "D":
			if ins.DeepEqual(state, state) {
				obs = append(obs, "d=1")
			} else {
				obs = append(obs, "d=0")
			}
		default:
			panic("bad op " + o)
		}
	}
	return strings.Join(obs, "|")
}

// ---------------------------------------------------------------- holders sharing map objects
func c18length(ins inspector.StringAnyMapInspector, x any, path []string) string {
	r0, r1 := -1, -2
	err := ins.Length(x, &r0, path...)
	_ = ins.Length(x, &r1, path...)
	switch {
	case err != nil:
		return c18err(err)
	case r0 != r1:
		return "none"
	}
	return "n=" + strconv.Itoa(r0)
}

func runC18Share(parts []string) string {
	var hs []any
	for _, v := range strings.Split(parts[0], "#")[1:] {
		hs = append(hs, c18value(v))
	}
	var ins inspector.StringAnyMapInspector
	var obs, prev []string
	hbuf := c18histBuf(strings.Join(parts, ";"))
	set := func(dst, val any, path ...string) error {
		if hbuf != nil {
			return ins.SetWithBuffer(dst, val, hbuf, path...)
		}
		return ins.Set(dst, val, path...)
	}
	idx := func(s string) int {
		n, err := strconv.Atoi(s)
		if err != nil || n < 0 || n >= len(hs) {
			panic("bad holder " + s)
		}
		return n
	}
	for _, o := range parts[1:] {
		f := strings.Split(o, "!")
		var res string
		switch f[0] {
		case "g":
			v, err := ins.Get(hs[idx(f[1])], c18path(f[2])...)
			switch {
			case err != nil:
				res = c18err(err)
				v = nil
			case v == nil:
				res = "none"
			default:
				res = "v=" + c18print(v)
			}
			hs = append(hs, v)
		case "s":
			var val any
			if strings.HasPrefix(f[3], "h") {
				val = hs[idx(f[3][1:])]
			} else {
				val = c18value(f[3])
			}
			res = c18err(set(hs[idx(f[1])], val, c18path(f[2])...))
		case "l":
			res = c18length(ins, hs[idx(f[1])], c18path(f[2]))
		case "r":
			res = c18err(ins.Reset(hs[idx(f[1])]))
		case "y":
			c, err := ins.Copy(hs[idx(f[1])])
			laterCopies(ins, hs[idx(f[1])])
			res = c18err(err)
			hs = append(hs, c)
		case "t":
			var buf inspector.ByteBuffer
			res = c18err(ins.CopyTo(hs[idx(f[1])], hs[idx(f[2])], &buf))
		case "w":
			var v any
			if m, _, ok := c18holder(hs[idx(f[1])]); ok {
				switch f[2] {
				case "V":
					v = m
				case "P":
					v = &m
				default:
					pm := &m
					v = &pm
				}
			}
			hs = append(hs, v)
			res = "w"
		default:
			panic("bad op " + o)
		}
		cur := make([]string, len(hs))
		for i, h := range hs {
			cur[i] = c18print(h)
			if i < len(prev) && prev[i] == cur[i] {
				res += ";="
			} else {
				res += ";" + cur[i]
			}
		}
		prev = cur
		obs = append(obs, res)
		if c18cyclic {
			// a map now contains itself: the inspector's recursions need not terminate on it
			c18cyclic = false
			obs = append(obs, "abandoned:cyclic")
			break
		}
	}
	return strings.Join(obs, "|")
}
