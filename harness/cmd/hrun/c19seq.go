package main

// C19 stream, histories: two or three calls of the real inspector.Assign /
// inspector.AssignBuf in a row, in which objects come back:
//
//	sreuse  ONE source object serves every step and is given the step's value
//	        before the call: a []byte whose backing array is rewritten in place
//	        (value form: the same array re-sliced; pointer form: one *[]byte over
//	        that array), a string that is the zero-copy view of such an array,
//	        one *string pointed at other text, one *T (bool, ints, floats) holding
//	        another value
//	sfresh  every step builds its own source (as the single-call cases do)
//	dreuse  ONE destination object receives every step ("dst=^" = the same again)
//	dfresh  every step builds the destination it names
//
// and the buffer (if any) is the same inspector.ByteBuffer throughout.
// Observed per step, right after the call: ok, the destination's value, the
// buffer's content; steps are joined by "/".
//
// input: seq=<smode>,<dmode>;buf=<cap:hex|->/dst=<kind:val:cap>;src=<form kind:val>/dst=^;src=...

import (
	"encoding/hex"
	"math"
	"strconv"
	"strings"
	"unsafe"

	"github.com/koykov/inspector"
)

func c19I(val string) int64 {
	v, err := strconv.ParseInt(val[1:], 10, 64)
	if err != nil {
		panic("bad int " + val)
	}
	return v
}

func c19U(val string) uint64 {
	v, err := strconv.ParseUint(val[1:], 10, 64)
	if err != nil {
		panic("bad uint " + val)
	}
	return v
}

// c19Ptr: one variable of type T for the whole history; the setter stores the step's value and hands out its address.
func c19Ptr[T any](conv func(string) T) func(string) any {
	p := new(T)
	return func(val string) any { *p = conv(val); return p }
}

// c19Reused builds the one source object of an "sreuse" history and returns its setter:
// store the step's value into the object, return what is passed to Assign.
func c19Reused(form byte, kind string, maxLen int) func(val string) any {
	if kind == "bytes" || (kind == "string" && form == 'V') {
		if maxLen == 0 {
			maxLen = 1
		}
		backing := make([]byte, maxLen) // the caller's line buffer: rewritten in place, never reallocated
		var hdr []byte
		return func(val string) any {
			t := unhex(val[1:])
			copy(backing, t)
			switch {
			case kind == "string":
				if len(t) == 0 {
					return ""
				}
				return unsafe.String(&backing[0], len(t)) // what byteconv.B2S(line) gives the caller
			case form == 'P':
				hdr = backing[:len(t)]
				return &hdr
			}
			return backing[:len(t)]
		}
	}
	if form != 'P' {
		panic("a " + kind + " in value form is no object that could be reused")
	}
	switch kind {
	case "string":
		return c19Ptr(func(val string) string { return freshString(unhex(val[1:])) })
	case "bool":
		return c19Ptr(func(val string) bool { return val == "b1" })
	case "int":
		return c19Ptr(func(val string) int { return int(c19I(val)) })
	case "int8":
		return c19Ptr(func(val string) int8 { return int8(c19I(val)) })
	case "int16":
		return c19Ptr(func(val string) int16 { return int16(c19I(val)) })
	case "int32":
		return c19Ptr(func(val string) int32 { return int32(c19I(val)) })
	case "int64":
		return c19Ptr(func(val string) int64 { return c19I(val) })
	case "uint":
		return c19Ptr(func(val string) uint { return uint(c19U(val)) })
	case "uint8":
		return c19Ptr(func(val string) uint8 { return uint8(c19U(val)) })
	case "uint16":
		return c19Ptr(func(val string) uint16 { return uint16(c19U(val)) })
	case "uint32":
		return c19Ptr(func(val string) uint32 { return uint32(c19U(val)) })
	case "uint64":
		return c19Ptr(func(val string) uint64 { return c19U(val) })
	case "float32":
		return c19Ptr(func(val string) float32 {
			f := parseCanonFloat(val)
			v := float32(f)
			if float64(v) != f && !math.IsNaN(f) {
				panic("not a float32: " + val)
			}
			return v
		})
	case "float64":
		return c19Ptr(func(val string) float64 { return parseCanonFloat(val) })
	}
	panic("bad reused source kind " + kind)
}

func runC19Seq(input string) string {
	parts := strings.Split(input, "/")
	var smode, dmode, bufF string
	for _, kv := range strings.Split(parts[0], ";") {
		switch {
		case strings.HasPrefix(kv, "seq="):
			m := strings.SplitN(kv[4:], ",", 2)
			smode, dmode = m[0], m[1]
		case strings.HasPrefix(kv, "buf="):
			bufF = kv[4:]
		}
	}
	if (smode != "sreuse" && smode != "sfresh") || (dmode != "dreuse" && dmode != "dfresh") {
		panic("bad history modes " + parts[0])
	}
	type step struct{ dstF, form, kind, val string }
	var steps []step
	maxLen := 0
	for _, p := range parts[1:] {
		var st step
		for _, kv := range strings.Split(p, ";") {
			switch {
			case strings.HasPrefix(kv, "dst="):
				st.dstF = kv[4:]
			case strings.HasPrefix(kv, "src="):
				sp := strings.SplitN(kv[4:], ":", 2)
				st.form, st.kind, st.val = sp[0][:1], sp[0][1:], sp[1]
			}
		}
		if st.kind == "bytes" || st.kind == "string" {
			if n := (len(st.val) - 1) / 2; n > maxLen {
				maxLen = n
			}
		}
		steps = append(steps, st)
	}

	var buf *inspector.ByteBuffer
	if bufF != "-" {
		b := strings.SplitN(bufF, ":", 2)
		bcap, _ := strconv.Atoi(b[0])
		buf = inspector.NewByteBuffer(bcap)
		if pre := unhex(b[1]); len(pre) > 0 {
			bb := buf.AcquireBytes()
			bb = append(bb, pre...)
			buf.ReleaseBytes(bb)
		}
	}

	var (
		set func(string) any
		dd  *c19D
		out []string
	)
	for i, st := range steps {
		// destination
		if st.dstF == "^" {
			if dmode != "dreuse" || dd == nil {
				panic("dst=^ without a destination to reuse")
			}
		} else {
			if dmode == "dreuse" && i > 0 {
				panic("a dreuse history names its destination once")
			}
			d := strings.SplitN(st.dstF, ":", 3)
			dcap, _ := strconv.Atoi(d[2])
			dd = c19Dest(d[0], d[1], dcap)
		}
		// source
		var src any
		if smode == "sreuse" {
			if i == 0 {
				set = c19Reused(st.form[0], st.kind, maxLen)
			} else if st.form != steps[0].form || st.kind != steps[0].kind {
				panic("an sreuse history has one source object: one form, one kind")
			}
			src = set(st.val)
		} else {
			src, _ = c19Source(st.form[0], st.kind, st.val)
		}
		var ok bool
		if buf == nil {
			ok = inspector.Assign(dd.dst, src)
		} else {
			ok = inspector.AssignBuf(dd.dst, src, buf)
		}
		r := "F;"
		if ok {
			r = "T;"
		}
		bufs := "-"
		if buf != nil {
			bufs = "h" + hex.EncodeToString(buf.AcquireBytes())
		}
		out = append(out, r+dd.show()+";"+bufs)
	}
	// after the history: what a conversion handed to a []byte destination is the caller's own.  Every scalar source of the
	// history once more into a fresh destination, the result overwritten in place, and the same conversion again: it must
	// come out as the first time (a conversion that hands out shared, preallocated bytes returns what the caller wrote)
	for _, st := range steps {
		if st.form[0] == 'N' || st.form[0] == 'F' || st.kind == "bytes" || st.kind == "string" {
			continue
		}
		d1, ok1 := convBytes(st.form[0], st.kind, st.val, buf)
		if !ok1 {
			continue
		}
		want := string(d1)
		for i := range d1 {
			d1[i] = '#'
		}
		d2, ok2 := convBytes(st.form[0], st.kind, st.val, buf)
		if ok2 && string(d2) != want {
			out[len(out)-1] += ";RESULT-SHARED:" + st.kind + ":" + want + "->" + string(d2)
			break
		}
	}
	return strings.Join(out, "/")
}

// convBytes: one conversion of a freshly built source into a fresh []byte destination
func convBytes(form byte, kind, val string, buf *inspector.ByteBuffer) ([]byte, bool) {
	src, _ := c19Source(form, kind, val)
	var d []byte
	var ok bool
	if buf == nil {
		ok = inspector.Assign(&d, src)
	} else {
		ok = inspector.AssignBuf(&d, src, buf)
	}
	return d, ok && len(d) > 0
}
