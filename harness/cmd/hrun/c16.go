package main

// c16 stream: one call of one inspector.StaticInspector method per case, on
// operands of the Go types the case names, observed in the canonical text of
// coq/Gen/GenC16.v.
//
// Every call runs in a child process (this binary re-executed as "hrun
// c16-child", small maximum stack): a call that recurses forever kills the
// child with a stack overflow, which the parent reports as DIVERGE and
// survives.  A DeepEqual case is two requests (both argument orders).

import (
	"bufio"
	"bytes"
	"encoding/hex"
	"fmt"
	"io"
	"math"
	"os"
	"os/exec"
	"reflect"
	"runtime/debug"
	"strconv"
	"strings"
	"time"
	"unsafe"

	"github.com/koykov/inspector"
)

func init() {
	streams["c16"] = runC16
	if len(os.Args) >= 2 && os.Args[1] == "c16-child" {
		c16ChildMain()
		os.Exit(0)
	}
}

// ---------------------------------------------------------------- parent side

type c16Child struct {
	cmd    *exec.Cmd
	in     io.WriteCloser
	lines  chan string
	stderr *bytes.Buffer
}

var c16c *c16Child

func c16Start() *c16Child {
	exe, err := os.Executable()
	if err != nil {
		panic(err)
	}
	c := &c16Child{cmd: exec.Command(exe, "c16-child"), stderr: &bytes.Buffer{}, lines: make(chan string, 1)}
	c.cmd.Stderr = c.stderr
	c.in, _ = c.cmd.StdinPipe()
	out, _ := c.cmd.StdoutPipe()
	if err := c.cmd.Start(); err != nil {
		panic(err)
	}
	go func() {
		rd := bufio.NewReaderSize(out, 1<<16)
		for {
			l, err := rd.ReadString('\n')
			if err != nil {
				close(c.lines)
				return
			}
			c.lines <- strings.TrimRight(l, "\n")
		}
	}()
	return c
}

// c16Ask sends one request to the child and classifies its death, if it dies.
func c16Ask(req string) string {
	if c16c == nil {
		c16c = c16Start()
	}
	c := c16c
	if _, err := io.WriteString(c.in, req+"\n"); err != nil {
		c16c = nil
		c.cmd.Process.Kill()
		c.cmd.Wait()
		return "CRASH:write"
	}
	select {
	case l, ok := <-c.lines:
		if ok {
			return l
		}
		c16c = nil
		c.cmd.Wait()
		e := c.stderr.String()
		if strings.Contains(e, "stack overflow") || strings.Contains(e, "stack exceeds") {
			return "DIVERGE"
		}
		if len(e) > 200 {
			e = e[:200]
		}
		return "CRASH:" + strings.ReplaceAll(strings.ReplaceAll(e, "\n", " "), "\t", " ")
	case <-time.After(60 * time.Second):
		c16c = nil
		c.cmd.Process.Kill()
		c.cmd.Wait()
		return "TIMEOUT"
	}
}

func runC16(input string) string {
	f := strings.Split(input, "|")
	if f[0] == "deq" {
		return c16Ask("deq1|"+f[1]+"|"+f[2]) + "," + c16Ask("deq1|"+f[2]+"|"+f[1])
	}
	return c16Ask(input)
}

// ---------------------------------------------------------------- child side

func c16ChildMain() {
	debug.SetMaxStack(4 << 20)
	in := bufio.NewReaderSize(os.Stdin, 1<<16)
	out := bufio.NewWriter(os.Stdout)
	for {
		line, err := in.ReadString('\n')
		line = strings.TrimRight(line, "\n")
		if len(line) > 0 {
			fmt.Fprintln(out, safe(c16Call, line))
			out.Flush()
		}
		if err != nil {
			return
		}
	}
}

type (
	myInt    int
	myBytes  []byte
	myStruct struct{ A int }
)

// c16Arg is one operand: the interface value handed to the inspector and its canonical input text.
type c16Arg struct {
	text string
	x    any
}

// c16SharePrefix: when both operands are texts and the content of one is a proper, non-empty prefix of the other's, the
// shorter one is rebuilt as a view of the longer one's memory (b[:n], s[:n]): DeepEqual must not take shared storage - the
// same first byte - for equality.  Representation (string / []byte) and form (value / pointer) stay what the case says.
func c16SharePrefix(l, r *c16Arg) {
	content := func(x any) (string, bool) {
		switch v := x.(type) {
		case string:
			return v, true
		case *string:
			if v != nil {
				return *v, true
			}
		case []byte:
			return string(v), true
		case *[]byte:
			if v != nil {
				return string(*v), true
			}
		}
		return "", false
	}
	cl, okl := content(l.x)
	cr, okr := content(r.x)
	if !okl || !okr || len(cl) == len(cr) || len(cl) == 0 || len(cr) == 0 {
		return
	}
	short, long := l, r
	cs, cg := cl, cr
	if len(cl) > len(cr) {
		short, long, cs, cg = r, l, cr, cl
	}
	if !strings.HasPrefix(cg, cs) {
		return
	}
	// the long operand's bytes, wherever they live
	var mem []byte
	switch v := long.x.(type) {
	case string:
		mem = unsafe.Slice(unsafe.StringData(v), len(v))
	case *string:
		mem = unsafe.Slice(unsafe.StringData(*v), len(*v))
	case []byte:
		mem = v
	case *[]byte:
		mem = *v
	}
	view := mem[:len(cs):len(cs)]
	switch short.x.(type) {
	case string:
		short.x = unsafe.String(&view[0], len(view))
	case *string:
		sv := unsafe.String(&view[0], len(view))
		short.x = &sv
	case []byte:
		short.x = view
	case *[]byte:
		short.x = &view
	}
}

func c16Other(tag string) any {
	switch tag {
	case "0":
		return nil
	case "1":
		return struct{}{}
	case "2":
		return []int{1}
	case "3":
		return &myStruct{1}
	case "4":
		return map[string]int{"a": 1}
	case "5":
		i := 1
		p := &i
		return &p
	case "6":
		return myInt(1)
	case "7":
		return uintptr(1)
	case "8":
		return complex128(1)
	case "9":
		return myBytes("ab")
	case "10":
		m := myInt(1)
		return &m
	case "11":
		return []string{"a"}
	}
	panic("bad foreign tag " + tag)
}

// parseF reads Base/Floats.pr_float text: F+<odd mantissa>p<exp>, F+0, F-0, F+inf, F-inf, Fnan.
func parseF(s string) float64 {
	switch s {
	case "Fnan":
		return math.NaN()
	case "F+inf":
		return math.Inf(1)
	case "F-inf":
		return math.Inf(-1)
	case "F+0":
		return 0
	case "F-0":
		return math.Copysign(0, -1)
	}
	neg := s[1] == '-'
	me := strings.SplitN(s[2:], "p", 2)
	m, err := strconv.ParseUint(me[0], 10, 64)
	if err != nil {
		panic("bad float " + s)
	}
	e, err := strconv.Atoi(me[1])
	if err != nil {
		panic("bad float " + s)
	}
	v := math.Ldexp(float64(m), e)
	if neg {
		v = -v
	}
	return v
}

func ptrOrVal[T any](form byte, v T) any {
	if form == 'p' {
		return &v
	}
	return v
}

func c16Build(text string) c16Arg {
	form := text[0]
	if form == 'n' {
		var x any
		switch text[1:] {
		case "bool":
			x = (*bool)(nil)
		case "int":
			x = (*int)(nil)
		case "int8":
			x = (*int8)(nil)
		case "int16":
			x = (*int16)(nil)
		case "int32":
			x = (*int32)(nil)
		case "int64":
			x = (*int64)(nil)
		case "uint":
			x = (*uint)(nil)
		case "uint8":
			x = (*uint8)(nil)
		case "uint16":
			x = (*uint16)(nil)
		case "uint32":
			x = (*uint32)(nil)
		case "uint64":
			x = (*uint64)(nil)
		case "f32":
			x = (*float32)(nil)
		case "f64":
			x = (*float64)(nil)
		case "str":
			x = (*string)(nil)
		case "bytes":
			x = (*[]byte)(nil)
		case "other":
			x = (*myStruct)(nil)
		default:
			panic("bad nil kind " + text)
		}
		return c16Arg{text, x}
	}
	kp := strings.SplitN(text[1:], ":", 2)
	kind, pay := kp[0], kp[1]
	si := func() int64 {
		v, err := strconv.ParseInt(pay, 10, 64)
		if err != nil {
			panic("bad int " + text)
		}
		return v
	}
	ui := func() uint64 {
		v, err := strconv.ParseUint(pay, 10, 64)
		if err != nil {
			panic("bad uint " + text)
		}
		return v
	}
	var x any
	switch kind {
	case "bool":
		x = ptrOrVal(form, pay == "1")
	case "int":
		x = ptrOrVal(form, int(si()))
	case "int8":
		x = ptrOrVal(form, int8(si()))
	case "int16":
		x = ptrOrVal(form, int16(si()))
	case "int32":
		x = ptrOrVal(form, int32(si()))
	case "int64":
		x = ptrOrVal(form, si())
	case "uint":
		x = ptrOrVal(form, uint(ui()))
	case "uint8":
		x = ptrOrVal(form, uint8(ui()))
	case "uint16":
		x = ptrOrVal(form, uint16(ui()))
	case "uint32":
		x = ptrOrVal(form, uint32(ui()))
	case "uint64":
		x = ptrOrVal(form, ui())
	case "f32":
		x = ptrOrVal(form, float32(parseF(pay)))
	case "f64":
		x = ptrOrVal(form, parseF(pay))
	case "str":
		x = ptrOrVal(form, string(unhex(pay))) // a fresh backing array per operand
	case "bytes":
		hc := strings.SplitN(pay, "/", 2)
		d := unhex(hc[0])
		c, err := strconv.Atoi(hc[1])
		if err != nil || c < len(d) {
			panic("bad cap " + text)
		}
		var b []byte
		if c > 0 {
			b = make([]byte, len(d), c)
			copy(b, d)
		}
		x = ptrOrVal(form, b)
	case "other":
		if form != 'v' {
			panic("foreign operands are passed as they are: " + text)
		}
		x = c16Other(pay)
	default:
		panic("bad kind " + text)
	}
	return c16Arg{text, x}
}

func f01(b bool) string {
	if b {
		return "1"
	}
	return "0"
}

// c16Same: is b the very interface value a (same pointer / same slice header / same bits)?
func c16Same(a, b any) bool {
	if a == nil || b == nil {
		return a == nil && b == nil
	}
	va, vb := reflect.ValueOf(a), reflect.ValueOf(b)
	if va.Type() != vb.Type() {
		return false
	}
	switch va.Kind() {
	case reflect.Slice:
		return va.Pointer() == vb.Pointer() && va.Len() == vb.Len() && va.Cap() == vb.Cap()
	case reflect.Map, reflect.Pointer:
		return va.Pointer() == vb.Pointer()
	case reflect.Float32, reflect.Float64:
		return math.Float64bits(va.Float()) == math.Float64bits(vb.Float())
	case reflect.String:
		return va.String() == vb.String() && unsafe.StringData(va.String()) == unsafe.StringData(vb.String())
	}
	return a == b
}

// c16Print renders an interface value in the canonical argument text; foreign
// values are recognised by identity with the foreign operands of the case.
func c16Print(x any, withcap bool, foreign []c16Arg) string {
	pv := func(isNil bool, kind string, pay func() string) string {
		if isNil {
			return "n" + kind
		}
		return "p" + kind + ":" + pay()
	}
	i := func(v int64) string { return strconv.FormatInt(v, 10) }
	u := func(v uint64) string { return strconv.FormatUint(v, 10) }
	bs := func(b []byte) string {
		s := hex.EncodeToString(b)
		if withcap {
			s += "/" + strconv.Itoa(cap(b))
		}
		return s
	}
	switch v := x.(type) {
	case bool:
		return "vbool:" + f01(v)
	case *bool:
		return pv(v == nil, "bool", func() string { return f01(*v) })
	case int:
		return "vint:" + i(int64(v))
	case *int:
		return pv(v == nil, "int", func() string { return i(int64(*v)) })
	case int8:
		return "vint8:" + i(int64(v))
	case *int8:
		return pv(v == nil, "int8", func() string { return i(int64(*v)) })
	case int16:
		return "vint16:" + i(int64(v))
	case *int16:
		return pv(v == nil, "int16", func() string { return i(int64(*v)) })
	case int32:
		return "vint32:" + i(int64(v))
	case *int32:
		return pv(v == nil, "int32", func() string { return i(int64(*v)) })
	case int64:
		return "vint64:" + i(v)
	case *int64:
		return pv(v == nil, "int64", func() string { return i(*v) })
	case uint:
		return "vuint:" + u(uint64(v))
	case *uint:
		return pv(v == nil, "uint", func() string { return u(uint64(*v)) })
	case uint8:
		return "vuint8:" + u(uint64(v))
	case *uint8:
		return pv(v == nil, "uint8", func() string { return u(uint64(*v)) })
	case uint16:
		return "vuint16:" + u(uint64(v))
	case *uint16:
		return pv(v == nil, "uint16", func() string { return u(uint64(*v)) })
	case uint32:
		return "vuint32:" + u(uint64(v))
	case *uint32:
		return pv(v == nil, "uint32", func() string { return u(uint64(*v)) })
	case uint64:
		return "vuint64:" + u(v)
	case *uint64:
		return pv(v == nil, "uint64", func() string { return u(*v) })
	case float32:
		return "vf32:" + prFloat(float64(v))
	case *float32:
		return pv(v == nil, "f32", func() string { return prFloat(float64(*v)) })
	case float64:
		return "vf64:" + prFloat(v)
	case *float64:
		return pv(v == nil, "f64", func() string { return prFloat(*v) })
	case string:
		return "vstr:" + hex.EncodeToString([]byte(v))
	case *string:
		return pv(v == nil, "str", func() string { return hex.EncodeToString([]byte(*v)) })
	case []byte:
		return "vbytes:" + bs(v)
	case *[]byte:
		return pv(v == nil, "bytes", func() string { return bs(*v) })
	}
	for _, f := range foreign {
		if c16Same(f.x, x) {
			return f.text
		}
	}
	return fmt.Sprintf("?%T", x)
}

func c16Err(err error) string {
	switch err {
	case nil:
		return "nil"
	case inspector.ErrUnsupportedType:
		return "unsupported"
	case inspector.ErrMustPointerType:
		return "mustptr"
	case inspector.ErrUnknownEncodingType:
		return "unknownenc"
	}
	return "other(" + err.Error() + ")"
}

// c16Range: the bytes a value owns (capacity included), through one pointer level.
func c16Range(x any) (lo, hi uintptr) {
	switch v := x.(type) {
	case string:
		if len(v) > 0 {
			p := uintptr(unsafe.Pointer(unsafe.StringData(v)))
			return p, p + uintptr(len(v))
		}
	case *string:
		if v != nil {
			return c16Range(*v)
		}
	case []byte:
		if cap(v) > 0 {
			p := uintptr(unsafe.Pointer(unsafe.SliceData(v)))
			return p, p + uintptr(cap(v))
		}
	case *[]byte:
		if v != nil {
			return c16Range(*v)
		}
	}
	return 0, 0
}

func c16Shares(a, b any) bool {
	l1, h1 := c16Range(a)
	l2, h2 := c16Range(b)
	return l1 < h1 && l2 < h2 && l1 < h2 && l2 < h1
}

func c16Call(req string) string {
	f := strings.Split(req, "|")
	ins := inspector.StaticInspector{}
	switch f[0] {
	case "get":
		a := c16Build(f[1])
		r, err := ins.Get(a.x)
		return c16Print(r, true, []c16Arg{a}) + ";same=" + f01(c16Same(a.x, r)) + ";err=" + c16Err(err)
	case "getto":
		a := c16Build(f[1])
		var buf any
		err := ins.GetTo(a.x, &buf)
		return c16Print(buf, true, []c16Arg{a}) + ";same=" + f01(c16Same(a.x, buf)) + ";err=" + c16Err(err)
	case "set", "setbuf", "loop":
		a, b := c16Build(f[1]), c16Build(f[2])
		var err error
		switch f[0] {
		case "set":
			err = ins.Set(a.x, b.x)
		case "setbuf":
			err = ins.SetWithBuffer(a.x, b.x, inspector.NewByteBuffer(8))
		default:
			err = ins.Loop(a.x, nil, nil)
		}
		return c16Print(a.x, true, []c16Arg{a}) + ";err=" + c16Err(err)
	case "cmp":
		a := c16Build(f[1])
		op, _ := strconv.Atoi(f[2])
		res := f[4] == "1"
		err := ins.Compare(a.x, inspector.Op(op), string(unhex(f[3])), &res)
		out := f01(res)
		if err != nil {
			out += ";err=" + c16Err(err)
		}
		return out
	case "deq1":
		l, r := c16Build(f[1]), c16Build(f[2])
		c16SharePrefix(&l, &r)
		return f01(ins.DeepEqual(l.x, r.x))
	case "copy":
		a := c16Build(f[1])
		r, err := ins.Copy(a.x)
		laterCopies(ins, a.x)
		if r == nil {
			return "nil;err=" + c16Err(err)
		}
		t := c16Print(r, false, []c16Arg{a})
		if t[0] == 'v' {
			t = t[1:] // the copy is a value; a pointer would keep its form letter and differ from the model
		}
		return t + ";share=" + f01(c16Shares(r, a.x)) + ";err=" + c16Err(err)
	case "copyto":
		a, d := c16Build(f[1]), c16Build(f[2])
		bcap, _ := strconv.Atoi(f[3])
		buf := inspector.NewByteBuffer(bcap)
		if pre := unhex(f[4]); len(pre) > 0 {
			bb := buf.AcquireBytes()
			bb = append(bb, pre...)
			buf.ReleaseBytes(bb)
		}
		err := ins.CopyTo(a.x, d.x, buf)
		out := "err=" + c16Err(err) + ";dst=" + c16Print(d.x, true, []c16Arg{a, d})
		share := c16Shares(d.x, a.x)
		// second generation: the copy just handed out lives in the buffer; copied again through the SAME buffer (no Reset in
		// between) it must again yield a value of its own (C16_copyto_fresh holds for every buffer state, so the model's
		// share=0 covers both generations; a buffer that recognises its own bytes and hands them back would pass the first)
		if err == nil && d.x != nil && reflect.TypeOf(d.x).Kind() == reflect.Ptr && !reflect.ValueOf(d.x).IsNil() {
			d2 := reflect.New(reflect.TypeOf(d.x).Elem()).Interface()
			if ins.CopyTo(d.x, d2, buf) == nil {
				share = share || c16Shares(d2, d.x) || c16Shares(d2, a.x)
			}
		}
		return out + ";share=" + f01(share)
	case "len", "cap":
		a := c16Build(f[1])
		n := -7
		var err error
		if f[0] == "len" {
			err = ins.Length(a.x, &n)
		} else {
			err = ins.Capacity(a.x, &n)
		}
		out := strconv.Itoa(n)
		if err != nil {
			out += ";err=" + c16Err(err)
		}
		return out
	case "reset":
		a := c16Build(f[1])
		err := ins.Reset(a.x)
		out := c16Print(a.x, true, []c16Arg{a})
		if err != nil {
			out += ";err=" + c16Err(err)
		}
		return out
	case "typename":
		return ins.TypeName()
	case "unmarshal":
		typ, _ := strconv.Atoi(f[1])
		r, err := ins.Unmarshal(unhex(f[2]), inspector.Encoding(typ))
		if typ == 0 {
			return "json" // encoding/json is an oracle of the model: only "does not panic" is observed
		}
		if r == nil {
			return "nil;err=" + c16Err(err)
		}
		return fmt.Sprintf("?%T;err=%s", r, c16Err(err))
	}
	panic("bad request " + req)
}
