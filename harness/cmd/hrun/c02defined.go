package main

// c02reflect stream, second family: DEFINED types - Go types whose Kind() is that of a built-in
// type while their identity differs (type C02Lang string; type C02Names []string; ...), as map
// keys, map values, slice elements, fields and roots.  reflect's MapIndex / Set / Convert /
// type assertions go by identity, an inspector that walks values by reflection has to go by
// kind.  The declarations are mirrored by coq/Gen/GenC02.v (defined_units): keep the two in step
// (field order included).  No inspector is generated for these types (named scalars as keys or
// elements are outside the generator's grammar): the registry entry is the reflect inspector
// itself, which is the only one the ops `rv` and `hx;rget` call.

import (
	"reflect"

	"github.com/koykov/inspector"

	"verif/harness/emit"
)

type C02Lang string
type C02Code int32
type C02UCode uint16
type C02Wide uint64
type C02Octet uint8
type C02On bool
type C02Ratio float64
type C02Names []string
type C02Langs []C02Lang
type C02Blob []byte
type C02Octets []C02Octet

type C02Leaf struct {
	Id  string
	Tag C02Lang
	N   C02Code
	On  C02On
}

type C02ByLang map[C02Lang]*C02Leaf
type C02ByCode map[C02Code]C02Lang
type C02Leaves []*C02Leaf

type C02Doc struct {
	Id      string
	Titles  map[C02Lang]string
	Codes   map[C02Code]C02Lang
	UCodes  map[C02UCode]*C02Leaf
	Wides   map[C02Wide]C02Names
	Octs    map[C02Octet]C02Blob
	Ons     map[C02On]C02Langs
	Ratios  map[C02Ratio]C02Code
	PtrKeys map[*C02Lang]C02Code
	ByLang  C02ByLang
	PByLang *C02ByLang
	Nested  map[string]map[C02Lang]*C02Leaf
	Deep    map[C02Code]C02ByLang
	Names   C02Names
	Langs   C02Langs
	PLangs  *C02Langs
	Leaves  C02Leaves
	Blob    C02Blob
	Octets  C02Octets
	Rows    []C02ByCode
}

func init() {
	for name, v := range map[string]any{
		"C02Doc": C02Doc{}, "C02Leaf": C02Leaf{}, "C02ByLang": C02ByLang{}, "C02ByCode": C02ByCode{},
		"C02Names": C02Names{}, "C02Langs": C02Langs{}, "C02Leaves": C02Leaves{}, "C02Blob": C02Blob{}, "C02Octets": C02Octets{},
	} {
		emit.Register(name, reflect.TypeOf(v))
		inspector.RegisterInspector(name, inspector.ReflectInspector{})
	}
}
