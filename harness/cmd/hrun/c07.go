package main

// C07 stream: one history over one inspector.ByteBuffer, run against the real
// buffer, the real AssignBuf/Assign, the real generated TestObject CopyTo and
// the free Bufferize functions; after every step every value handed out since
// the last Reset is re-read, and the address ranges (capacity included) of all
// live handed-out values are checked for overlap.
//
// A handed-out value lives in a location: a variable of its own, or a field of
// the destination object of a CopyTo (owner).  When a destination is used again
// (CI: CopyTo into the object that received the previous CopyTo of that type;
// YI: buffered Assign into the field that holds an earlier value) the earlier
// values stay with their holders: each holder keeps a by-value copy of what its
// field held (detach), as out = append(out, tmp) or a []byte->[]byte Set would,
// and the field itself is handed to the real code again, non-fresh.
//
// CopyTo of the BUILT-IN inspectors (M/MI: StringAnyMapInspector on a nested
// map[string]any, L/LI: StringsInspector on []string / [][]byte): the source is
// built from the case text, every source text AND every copied text is handed to
// a holder (source, copy, source, copy, ... in the order of the case text, which
// is independent of Go's map iteration order); X puts one more value of the
// client, outside the buffer, under observation.
//
// SOURCES WITH SPARE CAPACITY (XC: make([]byte, len, len+spare), T: h_k = h_k[:0]):
// an observed []byte is observed over its whole capacity (rng), so a hand-out that
// lies anywhere in a source's array - its spare capacity included - overlaps.
// H/HI copy observed values THEMSELVES (pointer, length, capacity as they are now):
// as the string / []byte fields of a generated type (g), as the values of a
// map[string]any (m), as the elements of a []string / [][]byte copied to *[]string
// (ls) / *[][]byte (lb), or as the one value of a StaticInspector.CopyTo (t).

import (
	"encoding/hex"
	"strconv"
	"strings"
	"unsafe"

	"github.com/koykov/inspector"
	"github.com/koykov/inspector/testobj"
	"github.com/koykov/inspector/testobj_ins"
)

func init() { streams["c07"] = runC07 }

type handout struct {
	isStr bool
	b     *[]byte
	s     *string
	live  bool
	owner any // the CopyTo destination object b/s is a field of; nil: a location of its own
}

// detach: the holder keeps the value (same pointer, length, capacity), the location goes back to its object.
func (h *handout) detach() {
	if h.isStr {
		v := *h.s
		h.s = &v
	} else {
		v := *h.b
		h.b = &v
	}
	h.owner = nil
}

func (h *handout) rng() (lo, hi uintptr) {
	if h.isStr {
		if len(*h.s) == 0 {
			return 0, 0
		}
		p := uintptr(unsafe.Pointer(unsafe.StringData(*h.s)))
		return p, p + uintptr(len(*h.s))
	}
	if cap(*h.b) == 0 {
		return 0, 0
	}
	p := uintptr(unsafe.Pointer(unsafe.SliceData(*h.b)))
	return p, p + uintptr(cap(*h.b))
}

func unhex(s string) []byte {
	b, err := hex.DecodeString(s)
	if err != nil {
		panic("bad hex " + s)
	}
	return b
}

// ownBytes: a []byte of the client, capacity = length, memory of its own.
func ownBytes(d []byte) []byte {
	v := make([]byte, len(d))
	copy(v, d)
	return v
}

// ownString: a string of the client in memory of its own (string(d) of a one-byte d points into a table the
// runtime shares between all one-byte strings, which would make two sources "overlap").
func ownString(d []byte) string {
	if len(d) == 0 {
		return ""
	}
	v := ownBytes(d)
	return unsafe.String(&v[0], len(v))
}

// c07Map builds the map[string]any a token list describes (keys are positional: k<index of the token>)
// and returns it with the source text values in token order.
type c07Tok struct {
	kind byte // s S b B i o c
	data []byte
	ind  int
}

func c07ParseToks(text string) []c07Tok {
	var ts []c07Tok
	if text == "" {
		return ts
	}
	for _, t := range strings.Split(text, ",") {
		switch t[0] {
		case 's', 'S', 'b', 'B':
			ts = append(ts, c07Tok{kind: t[0], data: unhex(t[1:])})
		case 'i', 'c':
			ts = append(ts, c07Tok{kind: t[0]})
		case 'o':
			n, _ := strconv.Atoi(t[1:])
			ts = append(ts, c07Tok{kind: 'o', ind: n})
		default:
			panic("bad token " + t)
		}
	}
	return ts
}

// build consumes tokens from *pos up to the matching close (or the end) and fills m; sources are appended to *src.
func c07Build(ts []c07Tok, pos *int, m map[string]any, src *[]*handout) {
	for *pos < len(ts) {
		i := *pos
		t := ts[i]
		*pos++
		key := "k" + strconv.Itoa(i)
		switch t.kind {
		case 'c':
			return
		case 'i':
			m[key] = 1000 + i
		case 's':
			v := ownString(t.data)
			m[key] = v
			*src = append(*src, &handout{isStr: true, s: &v, live: true})
		case 'S':
			v := ownString(t.data)
			m[key] = &v
			*src = append(*src, &handout{isStr: true, s: &v, live: true})
		case 'b':
			v := ownBytes(t.data)
			m[key] = v
			*src = append(*src, &handout{b: &v, live: true})
		case 'B':
			v := ownBytes(t.data)
			m[key] = &v
			*src = append(*src, &handout{b: &v, live: true})
		case 'o':
			sub := map[string]any{}
			c07Build(ts, pos, sub, src)
			switch t.ind {
			case 0:
				m[key] = sub
			case 1:
				m[key] = &sub
			default:
				p := &sub
				m[key] = &p
			}
		}
	}
}

// collect walks the copy along the same tokens and appends the copied text values (token order) to *out.
func c07Collect(ts []c07Tok, pos *int, m map[string]any, out *[]*handout) {
	for *pos < len(ts) {
		i := *pos
		t := ts[i]
		*pos++
		key := "k" + strconv.Itoa(i)
		switch t.kind {
		case 'c':
			return
		case 'i':
			if m[key] != any(1000+i) {
				panic("value changed")
			}
		case 's', 'S':
			// a string and a *string source both arrive as a string
			v := m[key].(string)
			*out = append(*out, &handout{isStr: true, s: &v, live: true})
		case 'b', 'B':
			v := m[key].([]byte)
			*out = append(*out, &handout{b: &v, live: true})
		case 'o':
			var sub map[string]any
			switch t.ind {
			case 0:
				sub = m[key].(map[string]any)
			case 1:
				sub = *(m[key].(*map[string]any))
			default:
				sub = **(m[key].(**map[string]any))
			}
			c07Collect(ts, pos, sub, out)
		}
	}
}

func runC07(input string) string {
	parts := strings.Split(input, ";")
	size, _ := strconv.Atoi(strings.TrimPrefix(parts[0], "cap="))
	buf := inspector.NewByteBuffer(size)
	var hs []*handout
	var steps []string
	addB := func(p []byte) { v := p; hs = append(hs, &handout{b: &v, live: true}) }
	addS := func(s string) { v := s; hs = append(hs, &handout{isStr: true, s: &v, live: true}) }
	// the destination objects of the previous CopyTo, per generated type
	var (
		prevObj  *testobj.TestObject
		prevHist *testobj.TestHistory
		prevObj1 *testobj.TestObject1
	)
	// the destinations of the previous CopyTo of the built-in inspectors
	var (
		prevMap *map[string]any
		prevSS  *[]string
		prevPP  *[][]byte
	)
	release := func(owner any) {
		for _, h := range hs {
			if h.owner == owner {
				h.detach()
			}
		}
	}
	// buffered Assign of src into the []byte location that holds value k (a fresh one when k is not a []byte value)
	assignInto := func(k int, src any) {
		if k < len(hs) && !hs[k].isStr {
			loc, owner := hs[k].b, hs[k].owner
			hs[k].detach()
			inspector.AssignBuf(loc, src, buf)
			hs = append(hs, &handout{b: loc, live: true, owner: owner})
			return
		}
		var dst []byte
		inspector.AssignBuf(&dst, src, buf)
		hs = append(hs, &handout{b: &dst, live: true})
	}
	// CopyTo of the generated type the shape maps to, whose string / []byte fields hold vals (string or []byte, as they
	// are), into a fresh destination or (reuse) the destination of the previous CopyTo of that type; for any other shape
	// the statement sequence every generated cpy() emits.
	// what the generated Copy() (the inspector's own buffer) hands out stays with the caller as well: every result of every
	// Copy of the history keeps the content it had when it was handed out and overlaps no other value, whatever is copied later
	type copyOut struct {
		isStr bool
		s     *string
		b     *[]byte
		snap  string
	}
	var extras []*copyOut
	extraS := func(p *string) { extras = append(extras, &copyOut{isStr: true, s: p, snap: strings.Clone(*p)}) }
	extraB := func(p *[]byte) { extras = append(extras, &copyOut{b: p, snap: string(*p)}) }
	extrasOK := func() bool {
		rng := func(e *copyOut) (uintptr, uintptr) {
			if e.isStr {
				if len(*e.s) == 0 {
					return 0, 0
				}
				lo := uintptr(unsafe.Pointer(unsafe.StringData(*e.s)))
				return lo, lo + uintptr(len(*e.s))
			}
			if cap(*e.b) == 0 {
				return 0, 0
			}
			lo := uintptr(unsafe.Pointer(unsafe.SliceData(*e.b)))
			return lo, lo + uintptr(cap(*e.b))
		}
		for i, e := range extras {
			if (e.isStr && *e.s != e.snap) || (!e.isStr && string(*e.b) != e.snap) {
				return false
			}
			l1, h1 := rng(e)
			for _, o := range extras[i+1:] {
				l2, h2 := rng(o)
				if l1 < h1 && l2 < h2 && l1 < h2 && l2 < h1 {
					return false
				}
			}
			for _, h := range hs {
				if !h.live {
					continue
				}
				l2, h2 := h.rng()
				if l1 < h1 && l2 < h2 && l1 < h2 && l2 < h1 {
					return false
				}
			}
		}
		return true
	}
	copyGenerated := func(shape string, vals []any, reuse bool) {
		switch shape {
		case "sb", "sbb":
			// the generated inspector of testobj.TestObject: Id, Name, Finance.History[last].Comment
			src := testobj.TestObject{Id: vals[0].(string), Name: vals[1].([]byte)}
			if shape == "sbb" {
				src.Finance = &testobj.TestFinance{History: []testobj.TestHistory{{Comment: vals[2].([]byte)}}}
			}
			dst := prevObj
			if !reuse || dst == nil {
				dst = &testobj.TestObject{}
			}
			release(dst)
			if err := (testobj_ins.TestObjectInspector{}).CopyTo(&src, dst, buf); err != nil {
				panic(err)
			}
			prevObj = dst
			if c, err := (testobj_ins.TestObjectInspector{}).Copy(&src); err == nil {
				if cp, ok := c.(*testobj.TestObject); ok {
					extraS(&cp.Id)
					extraB(&cp.Name)
					if shape == "sbb" && cp.Finance != nil && len(cp.Finance.History) > 0 {
						extraB(&cp.Finance.History[len(cp.Finance.History)-1].Comment)
					}
				}
			}
			hs = append(hs, &handout{isStr: true, s: &dst.Id, live: true, owner: dst})
			hs = append(hs, &handout{b: &dst.Name, live: true, owner: dst})
			if shape == "sbb" {
				// cpy appends to the History of a destination that has one: the copy is the last element
				hist := dst.Finance.History
				hs = append(hs, &handout{b: &hist[len(hist)-1].Comment, live: true, owner: dst})
			}
		case "b":
			// testobj.TestHistory: Comment
			src := testobj.TestHistory{Comment: vals[0].([]byte)}
			dst := prevHist
			if !reuse || dst == nil {
				dst = &testobj.TestHistory{}
			}
			release(dst)
			if err := (testobj_ins.TestHistoryInspector{}).CopyTo(&src, dst, buf); err != nil {
				panic(err)
			}
			prevHist = dst
			if c, err := (testobj_ins.TestHistoryInspector{}).Copy(&src); err == nil {
				if cp, ok := c.(*testobj.TestHistory); ok {
					extraB(&cp.Comment)
				}
			}
			hs = append(hs, &handout{b: &dst.Comment, live: true, owner: dst})
		case "bbsb":
			// testobj.TestObject1: ByteSlice, *ByteSlicePtr, NestedStruct.S, NestedStruct.B
			p := vals[1].([]byte)
			src := testobj.TestObject1{ByteSlice: vals[0].([]byte), ByteSlicePtr: &p,
				NestedStruct: testobj.TestStruct{S: vals[2].(string), B: vals[3].([]byte)}}
			dst := prevObj1
			if !reuse || dst == nil {
				dst = &testobj.TestObject1{}
			}
			release(dst)
			if err := (testobj_ins.TestObject1Inspector{}).CopyTo(&src, dst, buf); err != nil {
				panic(err)
			}
			prevObj1 = dst
			if c, err := (testobj_ins.TestObject1Inspector{}).Copy(&src); err == nil {
				if cp, ok := c.(*testobj.TestObject1); ok {
					extraB(&cp.ByteSlice)
					if cp.ByteSlicePtr != nil {
						extraB(cp.ByteSlicePtr)
					}
					extraS(&cp.NestedStruct.S)
					extraB(&cp.NestedStruct.B)
				}
			}
			hs = append(hs, &handout{b: &dst.ByteSlice, live: true, owner: dst})
			hs = append(hs, &handout{b: dst.ByteSlicePtr, live: true, owner: dst})
			hs = append(hs, &handout{isStr: true, s: &dst.NestedStruct.S, live: true, owner: dst})
			hs = append(hs, &handout{b: &dst.NestedStruct.B, live: true, owner: dst})
		default:
			// the statement sequence every generated cpy() emits
			bb := buf.AcquireBytes()
			for i := range vals {
				if shape[i] == 's' {
					var s string
					bb, s = inspector.BufferizeString(bb, vals[i].(string))
					addS(s)
				} else {
					var p []byte
					bb, p = inspector.Bufferize(bb, vals[i].([]byte))
					addB(p)
				}
			}
			buf.ReleaseBytes(bb)
		}
	}
	for _, o := range parts[1:] {
		f := strings.Split(o, ":")
		switch f[0] {
		case "B":
			addB(buf.Bufferize(unhex(f[1])))
		case "S":
			addS(buf.BufferizeString(string(unhex(f[1]))))
		case "BF":
			// a value handed out earlier is fed back into the buffer (copy of a copy): a NEW value must be handed out
			k, _ := strconv.Atoi(f[1])
			if k < len(hs) && hs[k].live {
				if hs[k].isStr {
					addS(buf.BufferizeString(*hs[k].s))
				} else {
					addB(buf.Bufferize(*hs[k].b))
				}
			}
		case "A":
			bb := buf.AcquireBytes()
			bb = append(bb, unhex(f[1])...)
			buf.ReleaseBytes(bb)
		case "YB":
			n, _ := strconv.ParseInt(f[1], 10, 64)
			var dst []byte
			inspector.AssignBuf(&dst, n, buf)
			hs = append(hs, &handout{b: &dst, live: true})
		case "YBb":
			var dst []byte
			inspector.AssignBuf(&dst, f[1] == "true", buf)
			hs = append(hs, &handout{b: &dst, live: true})
		case "YSb":
			var dst string
			v := f[1] == "true"
			inspector.AssignBuf(&dst, &v, buf)
			hs = append(hs, &handout{isStr: true, s: &dst, live: true})
		case "YS":
			n, _ := strconv.ParseInt(f[1], 10, 64)
			var dst string
			inspector.AssignBuf(&dst, n, buf)
			hs = append(hs, &handout{isStr: true, s: &dst, live: true})
		case "YI":
			k, _ := strconv.Atoi(f[1])
			n, _ := strconv.ParseInt(f[2], 10, 64)
			assignInto(k, n)
		case "YIb":
			k, _ := strconv.Atoi(f[1])
			assignInto(k, f[2] == "true")
		case "C", "CI":
			// C: CopyTo into a fresh destination; CI: into the destination of the previous CopyTo of that type
			shape := ""
			var vals []any
			if len(f[1]) > 0 {
				for _, fl := range strings.Split(f[1], ",") {
					shape += fl[:1]
					if fl[0] == 's' {
						vals = append(vals, string(unhex(fl[1:])))
					} else {
						vals = append(vals, unhex(fl[1:]))
					}
				}
			}
			copyGenerated(shape, vals, f[0] == "CI")
		case "XC":
			// a []byte of the client outside the buffer WITH SPARE CAPACITY comes under observation:
			// make([]byte, len, len+spare); the whole capacity is the client's
			d := unhex(f[1])
			spare, _ := strconv.Atoi(f[2])
			v := make([]byte, len(d), len(d)+spare)
			copy(v, d)
			addB(v)
		case "T":
			// client: h_k = h_k[:0]
			k, _ := strconv.Atoi(f[1])
			if k < len(hs) && hs[k].live && !hs[k].isStr {
				*hs[k].b = (*hs[k].b)[:0]
			}
		case "H", "HI":
			// a copy whose source fields ARE the observed values f[2] (as they are now: pointer, length, capacity)
			reuse := f[0] == "HI"
			var src []*handout
			ok := true
			if f[2] != "" {
				for _, t := range strings.Split(f[2], ",") {
					k, _ := strconv.Atoi(t)
					if k >= len(hs) || !hs[k].live {
						ok = false
						break
					}
					src = append(src, hs[k])
				}
			}
			if !ok || len(src) == 0 {
				break
			}
			allS, allB := true, true
			for _, h := range src {
				if h.isStr {
					allB = false
				} else {
					allS = false
				}
			}
			switch f[1] {
			case "g":
				shape := ""
				var vals []any
				for _, h := range src {
					if h.isStr {
						shape += "s"
						vals = append(vals, *h.s)
					} else {
						shape += "b"
						vals = append(vals, *h.b)
					}
				}
				copyGenerated(shape, vals, reuse)
			case "m":
				// map[string]any{"k0": h, "k1": &h, ...}: values and pointers to values alternate
				m := map[string]any{}
				for i, h := range src {
					key := "k" + strconv.Itoa(i)
					switch {
					case h.isStr && i%2 == 0:
						m[key] = *h.s
					case h.isStr:
						v := *h.s
						m[key] = &v
					case i%2 == 0:
						m[key] = *h.b
					default:
						v := *h.b
						m[key] = &v
					}
				}
				dst := prevMap
				if !reuse || dst == nil {
					d := map[string]any{}
					dst = &d
				}
				if err := (inspector.StringAnyMapInspector{}).CopyTo(m, dst, buf); err != nil {
					panic(err)
				}
				prevMap = dst
				for i, h := range src {
					key := "k" + strconv.Itoa(i)
					if h.isStr {
						addS((*dst)[key].(string))
					} else {
						addB((*dst)[key].([]byte))
					}
				}
			case "ls", "lb":
				if !allS && !allB {
					break
				}
				var in any
				if allS {
					ss := make([]string, len(src))
					for i, h := range src {
						ss[i] = *h.s
					}
					in = ss
				} else {
					pp := make([][]byte, len(src))
					for i, h := range src {
						pp[i] = *h.b
					}
					in = &pp
				}
				if f[1] == "ls" {
					dst := prevSS
					if !reuse || dst == nil {
						dst = &[]string{}
					}
					if err := (inspector.StringsInspector{}).CopyTo(in, dst, buf); err != nil {
						panic(err)
					}
					prevSS = dst
					for _, v := range (*dst)[len(*dst)-len(src):] {
						addS(v)
					}
				} else {
					dst := prevPP
					if !reuse || dst == nil {
						dst = &[][]byte{}
					}
					if err := (inspector.StringsInspector{}).CopyTo(in, dst, buf); err != nil {
						panic(err)
					}
					prevPP = dst
					for _, v := range (*dst)[len(*dst)-len(src):] {
						addB(v)
					}
				}
			case "t":
				if len(src) != 1 {
					break
				}
				// by value for an even index of the source, through a pointer otherwise
				h := src[0]
				k, _ := strconv.Atoi(f[2])
				if h.isStr {
					var dst string
					var in any = *h.s
					if k%2 == 1 {
						in = h.s
					}
					if err := (inspector.StaticInspector{}).CopyTo(in, &dst, buf); err != nil {
						panic(err)
					}
					addS(dst)
				} else {
					var dst []byte
					var in any = *h.b
					if k%2 == 1 {
						in = h.b
					}
					if err := (inspector.StaticInspector{}).CopyTo(in, &dst, buf); err != nil {
						panic(err)
					}
					addB(dst)
				}
			default:
				panic("bad via " + o)
			}
		case "X":
			// a value of the client outside the buffer comes under observation
			if f[1][0] == 's' {
				addS(ownString(unhex(f[1][1:])))
			} else {
				addB(ownBytes(unhex(f[1][1:])))
			}
		case "M", "MI":
			// StringAnyMapInspector.CopyTo into a fresh map (M) or into the map that received the previous one (MI)
			ts := c07ParseToks(f[1])
			src := map[string]any{}
			var srcs, cps []*handout
			pos := 0
			for pos < len(ts) {
				c07Build(ts, &pos, src, &srcs) // a stray close on the top level is skipped
			}
			dst := prevMap
			if f[0] == "M" || dst == nil {
				m := map[string]any{}
				dst = &m
			}
			if err := (inspector.StringAnyMapInspector{}).CopyTo(src, dst, buf); err != nil {
				panic(err)
			}
			prevMap = dst
			pos = 0
			for pos < len(ts) {
				c07Collect(ts, &pos, *dst, &cps)
			}
			for i := range srcs {
				hs = append(hs, srcs[i], cps[i])
			}
		case "L", "LI":
			// StringsInspector.CopyTo: f[1] = source kind + destination kind (s: []string, b: [][]byte), appended to the destination
			var data [][]byte
			if f[2] != "" {
				for _, e := range strings.Split(f[2], ",") {
					data = append(data, unhex(e[1:]))
				}
			}
			var srcs []*handout
			var src any
			if f[1][0] == 's' {
				ss := make([]string, len(data))
				for i := range data {
					ss[i] = ownString(data[i])
					srcs = append(srcs, &handout{isStr: true, s: &ss[i], live: true})
				}
				src = ss
			} else {
				pp := make([][]byte, len(data))
				for i := range data {
					pp[i] = ownBytes(data[i])
					srcs = append(srcs, &handout{b: &pp[i], live: true})
				}
				src = &pp
			}
			reuse := f[0] == "LI"
			if f[1][1] == 's' {
				dst := prevSS
				if !reuse || dst == nil {
					dst = &[]string{}
				}
				if err := (inspector.StringsInspector{}).CopyTo(src, dst, buf); err != nil {
					panic(err)
				}
				prevSS = dst
				tail := (*dst)[len(*dst)-len(data):]
				for i := range data {
					v := tail[i]
					hs = append(hs, srcs[i], &handout{isStr: true, s: &v, live: true})
				}
			} else {
				dst := prevPP
				if !reuse || dst == nil {
					dst = &[][]byte{}
				}
				if err := (inspector.StringsInspector{}).CopyTo(src, dst, buf); err != nil {
					panic(err)
				}
				prevPP = dst
				tail := (*dst)[len(*dst)-len(data):]
				for i := range data {
					v := tail[i]
					hs = append(hs, srcs[i], &handout{b: &v, live: true})
				}
			}
		case "R":
			buf.Reset()
			for _, h := range hs {
				h.live = false
			}
		case "W":
			k, _ := strconv.Atoi(f[1])
			i, _ := strconv.Atoi(f[2])
			if k < len(hs) && hs[k].live && !hs[k].isStr && i < len(*hs[k].b) {
				(*hs[k].b)[i] = unhex(f[3])[0]
			}
		case "P":
			k, _ := strconv.Atoi(f[1])
			if k < len(hs) && hs[k].live && !hs[k].isStr {
				*hs[k].b = append(*hs[k].b, unhex(f[2])...)
			}
		case "U":
			k, _ := strconv.Atoi(f[1])
			if k < len(hs) && hs[k].live && !hs[k].isStr {
				n, _ := strconv.ParseInt(f[2], 10, 64)
				// every OTHER live byte value, seen through an emptied view of its storage (e := b[:0], as a field is after
				// Reset when the value was assigned to it by reference): a conversion into such a destination must not be
				// rendered into the storage it still points at
				for j, h := range hs {
					if j != k && h.live && !h.isStr && len(*h.b) > 0 {
						e := (*h.b)[:0]
						inspector.Assign(&e, n)
					}
				}
				inspector.Assign(hs[k].b, n)
			}
		default:
			panic("bad op " + o)
		}
		// observe
		var sb strings.Builder
		sb.WriteString(strconv.Itoa(len(buf.AcquireBytes())))
		ovl := "0"
		for i := 0; i < len(hs) && ovl == "0"; i++ {
			for j := i + 1; j < len(hs); j++ {
				if !hs[i].live || !hs[j].live {
					continue
				}
				l1, h1 := hs[i].rng()
				l2, h2 := hs[j].rng()
				if l1 < h1 && l2 < h2 && l1 < h2 && l2 < h1 {
					ovl = "1"
					break
				}
			}
		}
		if !extrasOK() {
			ovl = "copy-results-damaged"
		}
		sb.WriteString(";" + ovl + ";")
		for i, h := range hs {
			if i > 0 {
				sb.WriteByte(',')
			}
			switch {
			case !h.live:
				sb.WriteByte('-')
			case h.isStr:
				sb.WriteString("s" + hex.EncodeToString([]byte(*h.s)))
			default:
				sb.WriteString("b" + hex.EncodeToString(*h.b))
			}
		}
		steps = append(steps, sb.String())
	}
	return strings.Join(steps, "|")
}
