package main

// C07 stream: one history over one inspector.ByteBuffer, run against the real
// buffer, the real AssignBuf/Assign, the real generated TestObject CopyTo and
// the free Bufferize functions; after every step every value handed out since
// the last Reset is re-read, and the address ranges (capacity included) of all
// live handed-out values are checked for overlap.

import (
	"encoding/hex"
	"strconv"
	"strings"
	"unsafe"

	"github.com/koykov/inspector"
	"github.com/koykov/inspector/testobj"
	"github.com/koykov/inspector/testobj_ins"
)

func init() { streams["c07"] = runC07 }

type handout struct {
	isStr bool
	b     *[]byte
	s     *string
	live  bool
}

func (h *handout) rng() (lo, hi uintptr) {
	if h.isStr {
		if len(*h.s) == 0 {
			return 0, 0
		}
		p := uintptr(unsafe.Pointer(unsafe.StringData(*h.s)))
		return p, p + uintptr(len(*h.s))
	}
	if cap(*h.b) == 0 {
		return 0, 0
	}
	p := uintptr(unsafe.Pointer(unsafe.SliceData(*h.b)))
	return p, p + uintptr(cap(*h.b))
}

func unhex(s string) []byte {
	b, err := hex.DecodeString(s)
	if err != nil {
		panic("bad hex " + s)
	}
	return b
}

func runC07(input string) string {
	parts := strings.Split(input, ";")
	size, _ := strconv.Atoi(strings.TrimPrefix(parts[0], "cap="))
	buf := inspector.NewByteBuffer(size)
	var hs []*handout
	var steps []string
	addB := func(p []byte) { v := p; hs = append(hs, &handout{b: &v, live: true}) }
	addS := func(s string) { v := s; hs = append(hs, &handout{isStr: true, s: &v, live: true}) }
	for _, o := range parts[1:] {
		f := strings.Split(o, ":")
		switch f[0] {
		case "B":
			addB(buf.Bufferize(unhex(f[1])))
		case "S":
			addS(buf.BufferizeString(string(unhex(f[1]))))
		case "BF":
			// a value handed out earlier is fed back into the buffer (copy of a copy): a NEW value must be handed out
			k, _ := strconv.Atoi(f[1])
			if k < len(hs) && hs[k].live {
				if hs[k].isStr {
					addS(buf.BufferizeString(*hs[k].s))
				} else {
					addB(buf.Bufferize(*hs[k].b))
				}
			}
		case "A":
			bb := buf.AcquireBytes()
			bb = append(bb, unhex(f[1])...)
			buf.ReleaseBytes(bb)
		case "YB":
			n, _ := strconv.ParseInt(f[1], 10, 64)
			var dst []byte
			inspector.AssignBuf(&dst, n, buf)
			hs = append(hs, &handout{b: &dst, live: true})
		case "YBb":
			var dst []byte
			inspector.AssignBuf(&dst, f[1] == "true", buf)
			hs = append(hs, &handout{b: &dst, live: true})
		case "YSb":
			var dst string
			v := f[1] == "true"
			inspector.AssignBuf(&dst, &v, buf)
			hs = append(hs, &handout{isStr: true, s: &dst, live: true})
		case "YS":
			n, _ := strconv.ParseInt(f[1], 10, 64)
			var dst string
			inspector.AssignBuf(&dst, n, buf)
			hs = append(hs, &handout{isStr: true, s: &dst, live: true})
		case "C":
			var kinds []bool
			var data [][]byte
			if len(f[1]) > 0 {
				for _, fl := range strings.Split(f[1], ",") {
					kinds = append(kinds, fl[0] == 's')
					data = append(data, unhex(fl[1:]))
				}
			}
			switch {
			case len(kinds) == 2 && kinds[0] && !kinds[1], len(kinds) == 3 && kinds[0] && !kinds[1] && !kinds[2]:
				// the generated inspector of testobj.TestObject: Id, Name, Finance.History[0].Comment
				src := testobj.TestObject{Id: string(data[0]), Name: data[1]}
				if len(kinds) == 3 {
					src.Finance = &testobj.TestFinance{History: []testobj.TestHistory{{Comment: data[2]}}}
				}
				dst := &testobj.TestObject{}
				if err := (testobj_ins.TestObjectInspector{}).CopyTo(&src, dst, buf); err != nil {
					panic(err)
				}
				hs = append(hs, &handout{isStr: true, s: &dst.Id, live: true})
				hs = append(hs, &handout{b: &dst.Name, live: true})
				if len(kinds) == 3 {
					hs = append(hs, &handout{b: &dst.Finance.History[0].Comment, live: true})
				}
			default:
				// the statement sequence every generated cpy() emits
				bb := buf.AcquireBytes()
				for i := range kinds {
					if kinds[i] {
						var s string
						bb, s = inspector.BufferizeString(bb, string(data[i]))
						addS(s)
					} else {
						var p []byte
						bb, p = inspector.Bufferize(bb, data[i])
						addB(p)
					}
				}
				buf.ReleaseBytes(bb)
			}
		case "R":
			buf.Reset()
			for _, h := range hs {
				h.live = false
			}
		case "W":
			k, _ := strconv.Atoi(f[1])
			i, _ := strconv.Atoi(f[2])
			if k < len(hs) && hs[k].live && !hs[k].isStr && i < len(*hs[k].b) {
				(*hs[k].b)[i] = unhex(f[3])[0]
			}
		case "P":
			k, _ := strconv.Atoi(f[1])
			if k < len(hs) && hs[k].live && !hs[k].isStr {
				*hs[k].b = append(*hs[k].b, unhex(f[2])...)
			}
		case "U":
			k, _ := strconv.Atoi(f[1])
			if k < len(hs) && hs[k].live && !hs[k].isStr {
				n, _ := strconv.ParseInt(f[2], 10, 64)
				inspector.Assign(hs[k].b, n)
			}
		default:
			panic("bad op " + o)
		}
		// observe
		var sb strings.Builder
		sb.WriteString(strconv.Itoa(len(buf.AcquireBytes())))
		ovl := "0"
		for i := 0; i < len(hs) && ovl == "0"; i++ {
			for j := i + 1; j < len(hs); j++ {
				if !hs[i].live || !hs[j].live {
					continue
				}
				l1, h1 := hs[i].rng()
				l2, h2 := hs[j].rng()
				if l1 < h1 && l2 < h2 && l1 < h2 && l2 < h1 {
					ovl = "1"
					break
				}
			}
		}
		sb.WriteString(";" + ovl + ";")
		for i, h := range hs {
			if i > 0 {
				sb.WriteByte(',')
			}
			switch {
			case !h.live:
				sb.WriteByte('-')
			case h.isStr:
				sb.WriteString("s" + hex.EncodeToString([]byte(*h.s)))
			default:
				sb.WriteString("b" + hex.EncodeToString(*h.b))
			}
		}
		steps = append(steps, sb.String())
	}
	return strings.Join(steps, "|")
}
