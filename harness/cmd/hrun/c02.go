package main

// c02ship / c02reflect streams: the hostile ops of harness/emit/op_hostile.go (one inspector call
// with hostile arguments per case, observation ok / PANIC:<kind>; `rv`: what ReflectInspector.Get
// returns) on the types of /repo/testobj with the SHIPPED inspectors of /repo/testobj_ins.
// c02builtin: the built-in inspectors (static, strings, map[string]any, reflect) and
// Assign/AssignBuf with typed nil pointers, foreign types and garbage paths built here.

import (
	"reflect"

	"github.com/koykov/inspector/testobj"
	_ "github.com/koykov/inspector/testobj_ins"

	"verif/harness/emit"
)

func init() {
	emit.Register("TestObject", reflect.TypeOf(testobj.TestObject{}))
	emit.Register("TestObject1", reflect.TypeOf(testobj.TestObject1{}))
	emit.Register("TestPermission", reflect.TypeOf(testobj.TestPermission{}))
	emit.Register("TestFlag", reflect.TypeOf(testobj.TestFlag{}))
	emit.Register("TestHistory", reflect.TypeOf(testobj.TestHistory{}))
	emit.Register("TestFinance", reflect.TypeOf(testobj.TestFinance{}))
	emit.Register("TestStruct", reflect.TypeOf(testobj.TestStruct{}))
	emit.Register("TestFloatSlice", reflect.TypeOf(testobj.TestFloatSlice{}))
	emit.Register("TestFloatPtrSlice", reflect.TypeOf(testobj.TestFloatPtrSlice{}))
	emit.Register("TestStructSliceLiteral", reflect.TypeOf(testobj.TestStructSliceLiteral{}))
	emit.Register("TestStringFloatMap", reflect.TypeOf(testobj.TestStringFloatMap{}))
	emit.Register("TestStringFloatPtrMap", reflect.TypeOf(testobj.TestStringFloatPtrMap{}))
	emit.Register("TestStringPtrFloatPtrMap", reflect.TypeOf(testobj.TestStringPtrFloatPtrMap{}))
	streams["c02ship"] = emit.RunCase
	streams["c02reflect"] = emit.RunCase
}
