package main

// floats stream: validates Base/Floats.v against strconv.ParseFloat, float64
// arithmetic, inspector.EqualFloat64, float32 conversion and AppendFloat.

import (
	"math"
	"math/big"
	"regexp"
	"strconv"
	"strings"

	"github.com/koykov/inspector"
)

func init() { streams["floats"] = runFloats }

var reIsDecFloat = regexp.MustCompile(`^[-+]?[\d]*\.?[\d]+([eE][-+]?[\d]+)?$`)

// prFloat prints sign, odd mantissa and binary exponent - the form Base/Floats.v pr_float prints.
func prFloat(f float64) string {
	switch {
	case math.IsNaN(f):
		return "Fnan"
	case math.IsInf(f, 1):
		return "F+inf"
	case math.IsInf(f, -1):
		return "F-inf"
	case f == 0:
		if math.Signbit(f) {
			return "F-0"
		}
		return "F+0"
	}
	sign := "F+"
	if f < 0 {
		sign = "F-"
		f = -f
	}
	bf := new(big.Float).SetFloat64(f)
	mant := new(big.Float)
	exp := bf.MantExp(mant) // f = mant * 2^exp, 0.5 <= mant < 1
	mant.SetMantExp(mant, 53)
	m, _ := mant.Int(nil)
	e := exp - 53
	for m.Bit(0) == 0 {
		m.Rsh(m, 1)
		e++
	}
	return sign + m.String() + "p" + strconv.Itoa(e)
}

func runFloats(input string) string {
	f := strings.Split(input, ",")
	ta, tb := string(unhex(f[0])), string(unhex(f[1]))
	pf := func(s string) (float64, string, bool) {
		v, err := strconv.ParseFloat(s, 64)
		if err != nil {
			return 0, "err", false
		}
		return v, prFloat(v), true
	}
	a, sa, oka := pf(ta)
	b, sb, okb := pf(tb)
	af := "err"
	if reIsDecFloat.MatchString(ta) {
		if v, err := strconv.ParseFloat(ta, 64); err == nil {
			af = prFloat(v)
		}
	}
	out := "pa=" + sa + ";pb=" + sb + ";af=" + af
	if oka && okb {
		b01 := func(x bool) string {
			if x {
				return "1"
			}
			return "0"
		}
		out += ";sub=" + prFloat(a-b) + ";le=" + b01(inspector.EqualFloat64(a, b, nil)) +
			";lt=" + b01(a < b) + ";eq=" + b01(a == b) + ";f32=" + prFloat(float64(float32(a)))
		if f[2] == "R1" {
			out += ";rd=" + string(strconv.AppendFloat(nil, a, 'f', -1, 64))
		}
	}
	return out
}
