package main

// C17 stream: one []string / [][]byte value (by value, by pointer, typed nil
// pointer, or a foreign type) and a list of StringsInspector calls made on it.
// After every call the result and the value are printed in the canonical text
// of coq/Gen/GenC17.v: mode A (what the property talks about) or mode D (all
// details the model predicts).  Aliasing ("shares no bytes") is observed
// natively from the address ranges of the element bytes and printed as a class.
// Texts are written in hex with a run of 8 or more equal bytes hh as "(hh*n)", so
// that texts of many KiB stay short on the line.  What Get handed out is kept
// (the string / slice header, which shares the element's bytes) and re-read
// after every later call: the bytes an element had when it was read never
// change, whatever is stored afterwards ("!held..." is printed if they do).
// "B:<n>" is not a call of the inspector: the caller's buffer is used for n
// bytes of other data and Reset, so that the calls which follow work with a
// recycled buffer of that capacity.

import (
	"encoding/hex"
	"errors"
	"strconv"
	"strings"
	"unsafe"

	"github.com/koykov/inspector"
)

func init() { streams["c17"] = runC17 }

// c17hex / c17unhex: hex with runs of 8 or more equal bytes written "(hh*n)" (hexs of coq/Gen/GenC17.v)
func c17hex(p []byte) string {
	var sb strings.Builder
	const digits = "0123456789abcdef"
	for i := 0; i < len(p); {
		j := i
		for j < len(p) && p[j] == p[i] {
			j++
		}
		hh := string([]byte{digits[p[i]>>4], digits[p[i]&15]})
		if j-i >= 8 {
			sb.WriteString("(" + hh + "*" + strconv.Itoa(j-i) + ")")
		} else {
			for k := i; k < j; k++ {
				sb.WriteString(hh)
			}
		}
		i = j
	}
	return sb.String()
}

func c17nib(c byte) byte {
	switch {
	case c >= '0' && c <= '9':
		return c - '0'
	case c >= 'a' && c <= 'f':
		return c - 'a' + 10
	}
	panic("bad hex digit " + string(c))
}

func c17unhex(s string) []byte {
	out := make([]byte, 0, len(s)/2)
	for i := 0; i < len(s); {
		if s[i] != '(' {
			out = append(out, c17nib(s[i])<<4|c17nib(s[i+1]))
			i += 2
			continue
		}
		end := i + strings.IndexByte(s[i:], ')')
		c := c17nib(s[i+1])<<4 | c17nib(s[i+2])
		n, err := strconv.Atoi(s[i+4 : end])
		if err != nil {
			panic("bad run " + s[i:end+1])
		}
		for k := 0; k < n; k++ {
			out = append(out, c)
		}
		i = end + 1
	}
	return out
}

// a result of Get kept by the caller: the header it read (sharing the element's bytes) and a private copy of
// what the bytes were at that time
type c17held struct {
	s    string
	b    []byte
	isB  bool
	want string
}

func (h *c17held) now() string {
	if h.isB {
		return string(h.b)
	}
	return h.s
}

type c17val struct {
	held       []*c17held
	rep        byte // 'S' []string, 'P' [][]byte
	form       byte // 'v' by value, 'p' pointer, 'n' typed nil pointer, 'F' foreign
	ss         []string
	pp         [][]byte
	baseCap    int
	capUnknown bool // append had to grow the slice: the new capacity is the runtime's business
}

func c17parse(s string) *c17val {
	if s == "F" {
		return &c17val{form: 'F'}
	}
	v := &c17val{rep: s[0], form: s[1]}
	if v.form == 'n' {
		return v
	}
	rest := s[2:]
	plus := strings.LastIndexByte(rest, '+')
	extra, err := strconv.Atoi(rest[plus+1:])
	if err != nil {
		panic("bad value " + s)
	}
	body := rest[:plus]
	if body == "nil" {
		return v
	}
	body = body[1 : len(body)-1]
	var els []string
	if body != "" {
		els = strings.Split(body, ",")
	}
	if v.rep == 'S' {
		v.ss = make([]string, len(els), len(els)+extra)
		for i, e := range els {
			v.ss[i] = string(c17unhex(e[1:])) // a fresh allocation per element
		}
		v.baseCap = cap(v.ss)
	} else {
		v.pp = make([][]byte, len(els), len(els)+extra)
		// all elements are windows of ONE backing array, each with its prescribed spare capacity reaching into the
		// bytes of the next element: writing into an element's spare capacity would clobber its neighbour
		type win struct{ off, n, x int }
		var wins []win
		var raw []byte
		for _, e := range els {
			p := strings.IndexByte(e, '+')
			d := c17unhex(e[1:p])
			x, _ := strconv.Atoi(e[p+1:])
			wins = append(wins, win{len(raw), len(d), x})
			raw = append(raw, d...)
		}
		maxx := 0
		for _, w := range wins {
			if w.x > maxx {
				maxx = w.x
			}
		}
		raw = append(raw, make([]byte, maxx)...)
		raw = raw[:len(raw):len(raw)]
		for i, w := range wins {
			v.pp[i] = raw[w.off : w.off+w.n : w.off+w.n+w.x]
		}
		v.baseCap = cap(v.pp)
	}
	return v
}

func (v *c17val) arg() any {
	switch {
	case v.form == 'F':
		return 5
	case v.rep == 'S' && v.form == 'v':
		return v.ss
	case v.rep == 'S' && v.form == 'p':
		return &v.ss
	case v.rep == 'S':
		return (*[]string)(nil)
	case v.form == 'v':
		return v.pp
	case v.form == 'p':
		return &v.pp
	}
	return (*[][]byte)(nil)
}

func (v *c17val) n() int {
	if v.rep == 'S' {
		return len(v.ss)
	}
	return len(v.pp)
}

func (v *c17val) elem(i int) []byte {
	if v.rep == 'S' {
		return []byte(v.ss[i])
	}
	return v.pp[i]
}

func (v *c17val) track() {
	c := cap(v.ss)
	if v.rep == 'P' {
		c = cap(v.pp)
	}
	if c != v.baseCap {
		v.capUnknown = true
	}
}

// address ranges of the bytes of every element (capacity included for []byte)
func (v *c17val) ranges() [][2]uintptr {
	var out [][2]uintptr
	for _, s := range v.ss {
		if len(s) > 0 {
			p := uintptr(unsafe.Pointer(unsafe.StringData(s)))
			out = append(out, [2]uintptr{p, p + uintptr(len(s))})
		}
	}
	for _, b := range v.pp {
		if len(b) > 0 {
			p := uintptr(unsafe.Pointer(unsafe.SliceData(b)))
			out = append(out, [2]uintptr{p, p + uintptr(cap(b))})
		}
	}
	return out
}

func c17overlap(a, b [][2]uintptr) bool {
	for _, x := range a {
		for _, y := range b {
			if x[0] < y[1] && y[0] < x[1] {
				return true
			}
		}
	}
	return false
}

func (v *c17val) print(detail bool) string {
	var sb strings.Builder
	if !detail {
		sb.WriteByte('[')
		for i := 0; i < v.n(); i++ {
			if i > 0 {
				sb.WriteByte(',')
			}
			sb.WriteString("x" + c17hex(v.elem(i)))
		}
		sb.WriteByte(']')
		return sb.String()
	}
	if v.form == 'F' {
		return "F"
	}
	sb.WriteByte(v.rep)
	sb.WriteByte(v.form)
	if v.form == 'n' {
		return sb.String()
	}
	isNil, c := v.ss == nil, cap(v.ss)
	if v.rep == 'P' {
		isNil, c = v.pp == nil, cap(v.pp)
	}
	if isNil {
		sb.WriteString("nil")
	} else {
		sb.WriteByte('[')
		for i := 0; i < v.n(); i++ {
			if i > 0 {
				sb.WriteByte(',')
			}
			sb.WriteString("x" + c17hex(v.elem(i)))
			if v.rep == 'P' {
				sb.WriteString("+" + strconv.Itoa(cap(v.pp[i])-len(v.pp[i])))
			}
		}
		sb.WriteByte(']')
	}
	if v.capUnknown {
		sb.WriteString("+?")
	} else {
		sb.WriteString("+" + strconv.Itoa(c-v.n()))
	}
	return sb.String()
}

func c17path(s string) []string {
	if s == "-" {
		return nil
	}
	var out []string
	for _, seg := range strings.Split(s, ".") {
		out = append(out, string(unhex(seg[1:])))
	}
	return out
}

func c17err(detail bool, err error) string {
	if err == nil {
		return "e-"
	}
	if !detail {
		return "e!"
	}
	var ne *strconv.NumError
	switch {
	case errors.As(err, &ne):
		return "eA"
	case errors.Is(err, inspector.ErrUnsupportedType):
		return "eU"
	case errors.Is(err, inspector.ErrMustPointerType):
		return "eM"
	}
	return "e?(" + err.Error() + ")"
}

// which element of v does the reference x (*string / *[]byte) point at, and what does it read
func (v *c17val) ref(detail bool, x any) string {
	switch p := x.(type) {
	case *string:
		idx := "?"
		for j := range v.ss {
			if &v.ss[j] == p {
				idx = strconv.Itoa(j)
			}
		}
		k := ""
		if detail {
			k = "s"
		}
		return k + idx + "=" + c17hex([]byte(*p))
	case *[]byte:
		idx := "?"
		for j := range v.pp {
			if &v.pp[j] == p {
				idx = strconv.Itoa(j)
			}
		}
		k := ""
		if detail {
			k = "b"
		}
		return k + idx + "=" + c17hex(*p)
	}
	return "?"
}

type c17iter struct {
	v      *c17val
	detail bool
	want   bool
	brk    int // -1: never
	round  int
	key    string
	visits []string
}

func (it *c17iter) RequireKey() bool { it.key = "-"; return it.want }
func (it *c17iter) SetKey(val any, _ inspector.Inspector) {
	if p, ok := val.(*[]byte); ok {
		it.key = hex.EncodeToString(*p)
	} else {
		it.key = "?"
	}
}
func (it *c17iter) SetVal(val any, _ inspector.Inspector) {
	k := it.key
	if it.detail {
		k = "k" + k
	}
	it.visits = append(it.visits, k+":"+it.v.ref(it.detail, val))
}
func (it *c17iter) Iterate() inspector.LoopCtl {
	r := it.round
	it.round++
	switch {
	case it.brk < 0:
		return inspector.LoopCtlNone
	case r == it.brk:
		return inspector.LoopCtlBrk
	}
	return inspector.LoopCtlCnt
}

func c17alias(b bool) string {
	if b {
		return "a1"
	}
	return "a0"
}

func c17step(ins inspector.StringsInspector, v *c17val, buf *inspector.ByteBuffer, detail bool, op string) (res string) {
	defer func() {
		if r := recover(); r != nil {
			if detail {
				res = "PANIC:" + panicKind(r)
			} else {
				res = "P"
			}
		}
	}()
	f := strings.Split(op, ":")
	switch f[0] {
	case "g", "G":
		var x any
		var err error
		if f[0] == "G" {
			x, err = ins.Get(v.arg(), c17path(f[1])...)
		} else {
			err = ins.GetTo(v.arg(), &x, c17path(f[1])...)
		}
		if x == nil {
			return c17err(detail, err) + ",g-"
		}
		switch p := x.(type) {
		case *string:
			v.held = append(v.held, &c17held{s: *p, want: strings.Clone(*p)})
		case *[]byte:
			v.held = append(v.held, &c17held{b: *p, isB: true, want: string(*p)})
		}
		return c17err(detail, err) + ",g" + v.ref(detail, x)
	case "w", "W":
		data := c17unhex(f[2])
		var value any
		var tr [][2]uintptr
		switch f[1] {
		case "s", "S":
			s := string(data)
			if len(s) > 0 {
				p := uintptr(unsafe.Pointer(unsafe.StringData(s)))
				tr = [][2]uintptr{{p, p + uintptr(len(s))}}
			}
			if f[1] == "s" {
				value = s
			} else {
				value = &s
			}
		case "b", "B":
			bb := make([]byte, len(data))
			copy(bb, data)
			if len(bb) > 0 {
				p := uintptr(unsafe.Pointer(unsafe.SliceData(bb)))
				tr = [][2]uintptr{{p, p + uintptr(cap(bb))}}
			}
			if f[1] == "b" {
				value = bb
			} else {
				value = &bb
			}
		case "Sn":
			value = (*string)(nil)
		case "Bn":
			value = (*[]byte)(nil)
		default:
			value = 42
		}
		var err error
		if f[0] == "W" {
			err = ins.SetWithBuffer(v.arg(), value, buf, c17path(f[3])...)
		} else {
			err = ins.Set(v.arg(), value, c17path(f[3])...)
		}
		return c17err(detail, err) + "," + c17alias(c17overlap(tr, v.ranges()))
	case "C":
		code, _ := strconv.Atoi(f[1])
		right := string(c17unhex(f[2]))
		r1, r2 := true, false
		err := ins.Compare(v.arg(), inspector.Op(code), right, &r1, c17path(f[3])...)
		_ = ins.Compare(v.arg(), inspector.Op(code), right, &r2, c17path(f[3])...)
		w := "r-"
		switch {
		case r1 && r2:
			w = "rT"
		case !r1 && !r2:
			w = "rF"
		case !r1 && r2:
			w = "r?"
		}
		return c17err(detail, err) + "," + w
	case "L":
		r := -7
		err := ins.Length(v.arg(), &r, c17path(f[1])...)
		if r == -7 {
			return c17err(detail, err) + ",w-"
		}
		return c17err(detail, err) + ",w" + strconv.Itoa(r)
	case "K":
		path := c17path(f[1])
		reflen := 0
		switch len(path) {
		case 0:
			reflen = v.n()
		case 1:
			if i, e := strconv.Atoi(path[0]); e == nil && i >= 0 && i < v.n() {
				reflen = len(v.elem(i))
			}
		}
		r := -7
		err := ins.Capacity(v.arg(), &r, path...)
		switch {
		case r == -7:
			return c17err(detail, err) + ",w-"
		case !detail && r >= reflen:
			return c17err(detail, err) + ",w>="
		case !detail:
			return c17err(detail, err) + ",w<"
		case len(path) != 1 && v.capUnknown:
			return c17err(detail, err) + ",w?"
		}
		return c17err(detail, err) + ",w" + strconv.Itoa(r)
	case "I":
		it := &c17iter{v: v, detail: detail, want: f[1] == "1", brk: -1}
		if f[2] != "-" {
			it.brk, _ = strconv.Atoi(f[2])
		}
		var kb []byte
		err := ins.Loop(v.arg(), it, &kb, c17path(f[3])...)
		return c17err(detail, err) + ",[" + strings.Join(it.visits, "/") + "]"
	case "e", "E":
		y := c17parse(f[1])
		// when one operand's content is a strict prefix of the other's (same representation), build the shorter
		// one as a reslice of the longer: DeepEqual must not take shared storage for equality
		if v.rep == y.rep && v.form != 'F' && y.form != 'F' {
			// (v keeps its length, capacity and element headers exactly: only the backing array is shared)
			if v.rep == 'S' && len(v.ss) > 0 && len(y.ss) > 0 && len(v.ss) != len(y.ss) {
				n := len(v.ss)
				if len(y.ss) < n {
					n = len(y.ss)
				}
				pre := true
				for i := 0; i < n; i++ {
					pre = pre && v.ss[i] == y.ss[i]
				}
				if pre && len(y.ss) < len(v.ss) {
					y.ss = v.ss[:len(y.ss)]
				} else if pre {
					c := cap(v.ss)
					if c < len(y.ss) {
						c = len(y.ss)
					}
					nb := make([]string, len(y.ss), c)
					copy(nb, y.ss)
					copy(nb, v.ss)
					y.ss = nb
					v.ss = nb[:len(v.ss):cap(v.ss)]
				}
			}
			if v.rep == 'P' && len(v.pp) > 0 && len(y.pp) > 0 && len(v.pp) != len(y.pp) {
				n := len(v.pp)
				if len(y.pp) < n {
					n = len(y.pp)
				}
				pre := true
				for i := 0; i < n; i++ {
					pre = pre && string(v.pp[i]) == string(y.pp[i])
				}
				if pre && len(y.pp) < len(v.pp) {
					y.pp = v.pp[:len(y.pp)]
				} else if pre {
					c := cap(v.pp)
					if c < len(y.pp) {
						c = len(y.pp)
					}
					nb := make([][]byte, len(y.pp), c)
					copy(nb, y.pp)
					copy(nb, v.pp)
					y.pp = nb
					v.pp = nb[:len(v.pp):cap(v.pp)]
				}
			}
		}
		var r bool
		if f[0] == "E" {
			r = ins.DeepEqualWithOptions(v.arg(), y.arg(), nil)
		} else {
			r = ins.DeepEqual(v.arg(), y.arg())
		}
		if r {
			return "T"
		}
		return "F"
	case "F":
		src := c17parse(f[1])
		err := ins.CopyTo(src.arg(), v.arg(), buf)
		v.track()
		return c17err(detail, err) + "," + c17alias(c17overlap(src.ranges(), v.ranges()))
	case "O":
		var d *c17val
		switch f[1][0] {
		case 'f':
			d = &c17val{rep: f[1][1], form: 'p'}
		case 'o':
			d = &c17val{rep: f[1][1], form: 'p'}
			if d.rep == 'S' {
				d.ss = make([]string, 1, 4)
				d.ss[0] = string([]byte("zz"))
			} else {
				d.pp = make([][]byte, 1, 4)
				d.pp[0] = make([]byte, 2, 2)
				copy(d.pp[0], "zz")
			}
			d.baseCap = 4
		case 'v':
			d = &c17val{rep: f[1][1], form: 'v'}
		case 'n':
			d = &c17val{rep: f[1][1], form: 'n'}
		default:
			d = &c17val{form: 'F'}
		}
		err := ins.CopyTo(v.arg(), d.arg(), buf)
		d.track()
		return c17err(detail, err) + "," + c17alias(c17overlap(v.ranges(), d.ranges())) + "," + d.print(detail)
	case "Y":
		x, err := ins.Copy(v.arg())
		laterCopies(ins, v.arg())
		ss, ok := x.([]string)
		if !ok {
			return c17err(detail, err) + ",a0,?"
		}
		d := &c17val{rep: 'S', form: 'v', ss: ss}
		d.track()
		return c17err(detail, err) + "," + c17alias(c17overlap(v.ranges(), d.ranges())) + "," + d.print(detail)
	case "R":
		// a view of the sequence taken before the call (the header by value, as a caller that passed the sequence on keeps
		// it) and a private copy of what it read: Reset TRUNCATES - the length changes, the items in the storage do not
		oldS, oldP := v.ss, v.pp
		snapS := append([]string(nil), v.ss...)
		snapP := make([]string, len(v.pp))
		for i := range v.pp {
			snapP[i] = string(v.pp[i])
		}
		err := ins.Reset(v.arg())
		v.track()
		out := c17err(detail, err)
		for i := range oldS {
			if oldS[i] != snapS[i] {
				return out + ",items-wiped"
			}
		}
		for i := range oldP {
			if string(oldP[i]) != snapP[i] {
				return out + ",items-wiped"
			}
		}
		return out
	case "B":
		n, _ := strconv.Atoi(f[1])
		buf.Bufferize(make([]byte, n))
		buf.Reset()
		return "e-"
	}
	panic("bad op " + op)
}

func runC17(input string) string {
	parts := strings.Split(input, ";")
	detail := parts[0] == "D"
	v := c17parse(parts[1])
	ins := inspector.StringsInspector{}
	buf := &inspector.ByteBuffer{}
	var steps []string
	for _, op := range parts[2:] {
		res := c17step(ins, v, buf, detail, op)
		state := v.print(detail)
		for k, h := range v.held {
			if h.now() != h.want {
				state += "!held" + strconv.Itoa(k) + "=" + c17hex([]byte(h.now()))
				break
			}
		}
		steps = append(steps, res+"@"+state)
	}
	return strings.Join(steps, "|")
}
