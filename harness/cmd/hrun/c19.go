package main

// C19 stream: one call of the real inspector.Assign / inspector.AssignBuf per
// case.  Destination and source are built with the Go types the case names
// (16 destination pointer types + foreign ones; 16 source types in value,
// pointer and typed-nil-pointer form + foreign ones), the buffer is a real
// inspector.ByteBuffer.  Observed: ok, the destination's value in canonical
// text, the ownership class of a stored text (computed from pointers, printed
// as a class: inside the buffer at which offset / the source's bytes / the old
// destination's backing array / somewhere new), and the buffer's content.

import (
	"encoding/hex"
	"math"
	"strconv"
	"strings"
	"unsafe"

	"github.com/koykov/inspector"
)

func init() { streams["c19"] = runC19 }

type c19Named int

type c19Struct struct{ X int }

// parseCanonFloat reads the pr_float form: F+<odd mantissa>p<exp>, F+0, F-0, F+inf, F-inf, Fnan.
func parseCanonFloat(s string) float64 {
	switch s {
	case "Fnan":
		return math.NaN()
	case "F+inf":
		return math.Inf(1)
	case "F-inf":
		return math.Inf(-1)
	case "F+0":
		return 0
	case "F-0":
		return math.Copysign(0, -1)
	}
	neg := s[1] == '-'
	mp := strings.SplitN(s[2:], "p", 2)
	m, err := strconv.ParseUint(mp[0], 10, 64)
	if err != nil {
		panic("bad float mantissa " + s)
	}
	e, err := strconv.Atoi(mp[1])
	if err != nil {
		panic("bad float exponent " + s)
	}
	f := math.Ldexp(float64(m), e)
	if neg {
		f = -f
	}
	return f
}

// freshBytes / freshString never share memory with anything else (no interning of short strings).
func freshBytes(b []byte, capacity int) []byte {
	if capacity < len(b) {
		capacity = len(b)
	}
	p := make([]byte, len(b), capacity)
	copy(p, b)
	return p
}

func freshString(b []byte) string {
	if len(b) == 0 {
		return ""
	}
	p := freshBytes(b, 0)
	return unsafe.String(&p[0], len(p))
}

type span struct{ lo, hi uintptr }

func (s span) has(p uintptr) bool { return s.lo != 0 && s.lo <= p && p < s.hi }

func bytesSpan(b []byte, useCap bool) span {
	n := len(b)
	if useCap {
		n = cap(b)
	}
	if n == 0 {
		return span{}
	}
	p := uintptr(unsafe.Pointer(unsafe.SliceData(b)))
	return span{p, p + uintptr(n)}
}

func stringSpan(s string) span {
	if len(s) == 0 {
		return span{}
	}
	p := uintptr(unsafe.Pointer(unsafe.StringData(s)))
	return span{p, p + uintptr(len(s))}
}

// c19Value builds a Go value of the named kind from canonical text; ptr selects *T.
// It returns the value as `any`, and for text kinds the span of its bytes.
func c19Source(form byte, kind, val string) (any, span) {
	switch form {
	case 'F':
		switch kind {
		case "struct":
			return c19Struct{X: 1}, span{}
		case "nilif":
			return nil, span{}
		case "named":
			return c19Named(5), span{}
		case "pstruct":
			return &c19Struct{X: 1}, span{}
		case "uintptr":
			return uintptr(7), span{}
		case "pp":
			x := 5
			px := &x
			return &px, span{}
		}
		panic("bad foreign source " + kind)
	case 'N':
		switch kind {
		case "bool":
			return (*bool)(nil), span{}
		case "int":
			return (*int)(nil), span{}
		case "int8":
			return (*int8)(nil), span{}
		case "int16":
			return (*int16)(nil), span{}
		case "int32":
			return (*int32)(nil), span{}
		case "int64":
			return (*int64)(nil), span{}
		case "uint":
			return (*uint)(nil), span{}
		case "uint8":
			return (*uint8)(nil), span{}
		case "uint16":
			return (*uint16)(nil), span{}
		case "uint32":
			return (*uint32)(nil), span{}
		case "uint64":
			return (*uint64)(nil), span{}
		case "float32":
			return (*float32)(nil), span{}
		case "float64":
			return (*float64)(nil), span{}
		case "string":
			return (*string)(nil), span{}
		case "bytes":
			return (*[]byte)(nil), span{}
		}
		panic("bad nil source " + kind)
	}
	ptr := form == 'P'
	pi := func() int64 {
		v, err := strconv.ParseInt(val[1:], 10, 64)
		if err != nil {
			panic("bad int " + val)
		}
		return v
	}
	pu := func() uint64 {
		v, err := strconv.ParseUint(val[1:], 10, 64)
		if err != nil {
			panic("bad uint " + val)
		}
		return v
	}
	switch kind {
	case "bool":
		v := val == "b1"
		if ptr {
			return &v, span{}
		}
		return v, span{}
	case "int":
		v := int(pi())
		if ptr {
			return &v, span{}
		}
		return v, span{}
	case "int8":
		v := int8(pi())
		if ptr {
			return &v, span{}
		}
		return v, span{}
	case "int16":
		v := int16(pi())
		if ptr {
			return &v, span{}
		}
		return v, span{}
	case "int32":
		v := int32(pi())
		if ptr {
			return &v, span{}
		}
		return v, span{}
	case "int64":
		v := pi()
		if ptr {
			return &v, span{}
		}
		return v, span{}
	case "uint":
		v := uint(pu())
		if ptr {
			return &v, span{}
		}
		return v, span{}
	case "uint8":
		v := uint8(pu())
		if ptr {
			return &v, span{}
		}
		return v, span{}
	case "uint16":
		v := uint16(pu())
		if ptr {
			return &v, span{}
		}
		return v, span{}
	case "uint32":
		v := uint32(pu())
		if ptr {
			return &v, span{}
		}
		return v, span{}
	case "uint64":
		v := pu()
		if ptr {
			return &v, span{}
		}
		return v, span{}
	case "float32":
		f := parseCanonFloat(val)
		v := float32(f)
		if float64(v) != f && !math.IsNaN(f) {
			panic("not a float32: " + val)
		}
		if ptr {
			return &v, span{}
		}
		return v, span{}
	case "float64":
		v := parseCanonFloat(val)
		if ptr {
			return &v, span{}
		}
		return v, span{}
	case "string":
		v := freshString(unhex(val[1:]))
		if ptr {
			return &v, stringSpan(v)
		}
		return v, stringSpan(v)
	case "bytes":
		v := freshBytes(unhex(val[1:]), 0)
		if ptr {
			return &v, bytesSpan(v, false)
		}
		return v, bytesSpan(v, false)
	}
	panic("bad source kind " + kind)
}

// c19Dest builds a destination of the named kind holding the given value; for text kinds
// text() gives (span of the stored bytes, len, cap) and oldSp the span of the initial backing array.
type c19D struct {
	dst   any
	show  func() string // canonical text of the destination now
	text  func() (span, int, int)
	oldSp span
}

func c19Dest(dkind, dval string, dcap int) *c19D {
	var (
		dst   any
		show  func() string // canonical text of the destination now
		text  func() (span, int, int)
		oldSp span
	)
	di := func() int64 { v, _ := strconv.ParseInt(dval[1:], 10, 64); return v }
	du := func() uint64 { v, _ := strconv.ParseUint(dval[1:], 10, 64); return v }
	fi := func(v int64) string { return "i" + strconv.FormatInt(v, 10) }
	fu := func(v uint64) string { return "i" + strconv.FormatUint(v, 10) }
	switch dkind {
	case "bool":
		v := dval == "b1"
		dst, show = &v, func() string {
			if v {
				return "b1"
			}
			return "b0"
		}
	case "int":
		v := int(di())
		dst, show = &v, func() string { return fi(int64(v)) }
	case "int8":
		v := int8(di())
		dst, show = &v, func() string { return fi(int64(v)) }
	case "int16":
		v := int16(di())
		dst, show = &v, func() string { return fi(int64(v)) }
	case "int32":
		v := int32(di())
		dst, show = &v, func() string { return fi(int64(v)) }
	case "int64":
		v := di()
		dst, show = &v, func() string { return fi(v) }
	case "uint":
		v := uint(du())
		dst, show = &v, func() string { return fu(uint64(v)) }
	case "uint8":
		v := uint8(du())
		dst, show = &v, func() string { return fu(uint64(v)) }
	case "uint16":
		v := uint16(du())
		dst, show = &v, func() string { return fu(uint64(v)) }
	case "uint32":
		v := uint32(du())
		dst, show = &v, func() string { return fu(uint64(v)) }
	case "uint64":
		v := du()
		dst, show = &v, func() string { return fu(v) }
	case "float32":
		v := float32(parseCanonFloat(dval))
		dst, show = &v, func() string { return prFloat(float64(v)) }
	case "float64":
		v := parseCanonFloat(dval)
		dst, show = &v, func() string { return prFloat(v) }
	case "string":
		v := freshString(unhex(dval[1:]))
		oldSp = stringSpan(v)
		dst, show = &v, func() string { return "s" + hex.EncodeToString([]byte(v)) }
		text = func() (span, int, int) { return stringSpan(v), len(v), len(v) }
	case "bytes":
		v := freshBytes(unhex(dval[1:]), dcap)
		oldSp = bytesSpan(v, true)
		dst, show = &v, func() string { return "y" + hex.EncodeToString(v) }
		text = func() (span, int, int) { return bytesSpan(v, false), len(v), cap(v) }
	case "otherpstruct":
		v := c19Struct{X: 7}
		dst, show = &v, func() string {
			if v.X != 7 {
				return "o!"
			}
			return "o"
		}
	case "othervalue":
		dst, show = 5, func() string { return "o" }
	case "othernilif":
		dst, show = nil, func() string { return "o" }
	default:
		panic("bad destination kind " + dkind)
	}

	return &c19D{dst: dst, show: show, text: text, oldSp: oldSp}
}

func runC19(input string) string {
	if strings.HasPrefix(input, "seq=") {
		return runC19Seq(input) // a history of calls over reused objects: c19seq.go
	}
	var dstF, srcF, bufF string
	for _, kv := range strings.Split(input, ";") {
		switch {
		case strings.HasPrefix(kv, "dst="):
			dstF = kv[4:]
		case strings.HasPrefix(kv, "src="):
			srcF = kv[4:]
		case strings.HasPrefix(kv, "buf="):
			bufF = kv[4:]
		}
	}
	d := strings.SplitN(dstF, ":", 3)
	dkind, dval := d[0], d[1]
	dcap, _ := strconv.Atoi(d[2])

	dd := c19Dest(dkind, dval, dcap)
	dst, show, text, oldSp := dd.dst, dd.show, dd.text, dd.oldSp

	// source
	sp := strings.SplitN(srcF, ":", 2)
	src, srcSp := c19Source(sp[0][0], sp[0][1:], sp[1])

	// buffer
	var buf *inspector.ByteBuffer
	if bufF != "-" {
		b := strings.SplitN(bufF, ":", 2)
		bcap, _ := strconv.Atoi(b[0])
		buf = inspector.NewByteBuffer(bcap)
		if pre := unhex(b[1]); len(pre) > 0 {
			bb := buf.AcquireBytes()
			bb = append(bb, pre...)
			buf.ReleaseBytes(bb)
		}
	}

	var before [3]uintptr
	if text != nil {
		s, l, c := text()
		before = [3]uintptr{s.lo, uintptr(l), uintptr(c)}
	}

	var ok bool
	if buf == nil {
		ok = inspector.Assign(dst, src)
	} else {
		ok = inspector.AssignBuf(dst, src, buf)
	}

	own := "-"
	if text != nil {
		s, l, c := text()
		switch {
		case !ok:
			if before != [3]uintptr{s.lo, uintptr(l), uintptr(c)} {
				own = "moved"
			}
		case l == 0:
		default:
			var bufSp span
			if buf != nil {
				bufSp = bytesSpan(buf.AcquireBytes(), false)
			}
			switch {
			case bufSp.has(s.lo) && s.hi <= bufSp.hi:
				own = "buf@" + strconv.Itoa(int(s.lo-bufSp.lo))
			case srcSp.has(s.lo):
				own = "src"
			case oldSp.has(s.lo):
				own = "old"
			default:
				own = "new"
			}
		}
	}
	bufs := "-"
	if buf != nil {
		bufs = "h" + hex.EncodeToString(buf.AcquireBytes())
	}
	r := "F;"
	if ok {
		r = "T;"
	}
	obs := r + show() + ";" + own + ";" + bufs
	// the stored text must stay what it is while later, unrelated conversions run (no scratch memory handed out):
	// three more unbuffered conversions into other destinations, then the destination is read again
	if ok && text != nil {
		var o1, o2 string
		var o3 []byte
		inspector.Assign(&o1, 987654321012345)
		inspector.Assign(&o2, 0.5)
		inspector.Assign(&o3, true)
		if again := r + show() + ";" + own + ";" + bufs; again != obs {
			return obs + ";UNSTABLE:" + show()
		}
	}
	return obs
}
