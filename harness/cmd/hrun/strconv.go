package main

// strconv stream: validates Base/Strconv.v against the real strconv and the
// recognisers of assign_builtin.go (re-stated here: they are unexported).

import (
	"regexp"
	"strconv"
)

func init() { streams["strconv"] = runStrconv }

var (
	reIsDecInt  = regexp.MustCompile(`^[-+]?[\d]+$`)
	reIsDecUint = regexp.MustCompile(`^[+]?[\d]+$`)
)

func runStrconv(input string) string {
	s := string(unhex(input))
	oi := func(v int64, err error) string {
		if err != nil {
			return "err"
		}
		return strconv.FormatInt(v, 10)
	}
	ou := func(v uint64, err error) string {
		if err != nil {
			return "err"
		}
		return strconv.FormatUint(v, 10)
	}
	out := "pi=" + oi(strconv.ParseInt(s, 0, 0))
	out += ";pu=" + ou(strconv.ParseUint(s, 0, 0))
	a, err := strconv.Atoi(s)
	out += ";atoi=" + oi(int64(a), err)
	b, err := strconv.ParseBool(s)
	if err != nil {
		out += ";pb=err"
	} else {
		out += ";pb=" + strconv.FormatBool(b)
	}
	ai := "err"
	if reIsDecInt.MatchString(s) {
		if i, err := strconv.ParseInt(s, 10, 64); err == nil {
			ai = strconv.FormatInt(i, 10)
		}
	}
	au := "err"
	if reIsDecUint.MatchString(s) {
		if u, err := strconv.ParseUint(s, 10, 64); err == nil {
			au = strconv.FormatUint(u, 10)
		}
	}
	return out + ";ai=" + ai + ";au=" + au
}
