// hrun - runs correspondence cases against the real koykov/inspector code.
//
//	hrun <stream> < cases.txt > observed.txt
//
// Each input line is "id \t tags \t input [\t ...]"; each output line is
// "id \t observation" in the canonical text form the Gallina printers use.
// A stream is registered by a file of this package in its init().
package main

import (
	"bufio"
	"fmt"
	"os"
	"strings"
)

// runner turns the input field of one case into the canonical observation.
type runner func(input string) string

var streams = map[string]runner{}

func main() {
	if len(os.Args) < 2 {
		fmt.Fprintln(os.Stderr, "usage: hrun <stream>")
		os.Exit(2)
	}
	run, ok := streams[os.Args[1]]
	if !ok {
		fmt.Fprintln(os.Stderr, "unknown stream", os.Args[1])
		os.Exit(2)
	}
	in := bufio.NewReaderSize(os.Stdin, 1<<20)
	out := bufio.NewWriterSize(os.Stdout, 1<<20)
	defer out.Flush()
	for {
		line, err := in.ReadString('\n')
		line = strings.TrimRight(line, "\n")
		if len(line) > 0 {
			f := strings.Split(line, "\t")
			if len(f) >= 3 {
				fmt.Fprintf(out, "%s\t%s\n", f[0], safe(run, f[2]))
			}
		}
		if err != nil {
			break
		}
	}
}

// safe runs one case; a panic of the code under test becomes an observation.
func safe(run runner, input string) (obs string) {
	defer func() {
		if r := recover(); r != nil {
			obs = "PANIC:" + panicKind(r)
		}
	}()
	return run(input)
}

func panicKind(r any) string {
	s := fmt.Sprint(r)
	switch {
	case strings.Contains(s, "nil pointer dereference"):
		return "nilderef"
	case strings.Contains(s, "index out of range"), strings.Contains(s, "slice bounds out of range"):
		return "index"
	case strings.Contains(s, "assignment to entry in nil map"):
		return "nilmap"
	case strings.Contains(s, "interface conversion"):
		return "typeassert"
	}
	return "other(" + s + ")"
}
