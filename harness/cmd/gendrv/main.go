// gendrv - drives /repo's current generator the way inspc/main.go does.
//
//	gendrv file <src.go> <import-path> <dst-dir> [xml-dir]
//	gendrv dir  <src-dir> <import-path> <dst-dir> [xml-dir]
//	gendrv pkg  <import-path> <dst-rel-to-GOPATH/src> [xml-dir]   (needs GOPATH, GO111MODULE=off)
//
// Options through the environment: GENDRV_BLACKLIST (comma separated type names),
// GENDRV_NOCLEAN=1.
package main

import (
	"bytes"
	"fmt"
	"os"
	"strings"

	"github.com/koykov/inspector"
)

func main() {
	if len(os.Args) < 4 {
		fmt.Fprintln(os.Stderr, "usage: gendrv file|dir|pkg ...")
		os.Exit(2)
	}
	conf := &inspector.Config{Buf: &bytes.Buffer{}}
	xml := ""
	switch os.Args[1] {
	case "file":
		conf.Target, conf.File, conf.Import, conf.Destination = inspector.TargetFile, os.Args[2], os.Args[3], os.Args[4]
		if len(os.Args) > 5 {
			xml = os.Args[5]
		}
	case "dir":
		conf.Target, conf.Directory, conf.Import, conf.Destination = inspector.TargetDirectory, os.Args[2], os.Args[3], os.Args[4]
		if len(os.Args) > 5 {
			xml = os.Args[5]
		}
	case "pkg":
		conf.Target, conf.Package, conf.Destination = inspector.TargetPackage, os.Args[2], os.Args[3]
		if len(os.Args) > 4 {
			xml = os.Args[4]
		}
	default:
		os.Exit(2)
	}
	if bl := os.Getenv("GENDRV_BLACKLIST"); bl != "" {
		conf.BlackList = map[string]struct{}{}
		for _, n := range strings.Split(bl, ",") {
			conf.BlackList[n] = struct{}{}
		}
	}
	conf.NoClean = os.Getenv("GENDRV_NOCLEAN") == "1"
	if conf.Destination != "-" {
		c, err := inspector.NewCompiler(conf)
		if err != nil {
			fmt.Println("ERR new:", err)
			os.Exit(1)
		}
		if err = c.Compile(); err != nil {
			fmt.Println("ERR compile:", err)
			os.Exit(1)
		}
		fmt.Println("OK compile", c.GetTotal())
	}
	if xml != "" {
		xc := *conf
		xc.XML = xml
		xc.Buf = &bytes.Buffer{}
		c, err := inspector.NewCompiler(&xc)
		if err != nil {
			fmt.Println("ERR new:", err)
			os.Exit(1)
		}
		if err = c.WriteXML(); err != nil {
			fmt.Println("ERR xml:", err)
			os.Exit(1)
		}
		fmt.Println("OK xml", c.GetTotal())
	}
}
