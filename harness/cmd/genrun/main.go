// genrun - the `units` stream (C13, C14): runs /repo's current generator on every
// candidate unit for the file, directory and package targets, twice, and
// reports per unit: success, the set of files written, gofmt-cleanliness,
// whether the output compiles (with a compile-time assertion that every
// generated type implements inspector.Inspector), hashes of the XML dumps, and
// whether repeated runs / the three targets agree up to local numbering.
//
//	GOPATH=<root> GO111MODULE=off genrun <root> <repo> < cases.txt > observed.txt
//
// <root>/src/gen becomes a module `gen` (for the compile step) and at the same
// time a GOPATH tree (for the package target of the generator).
package main

import (
	"bufio"
	"bytes"
	"encoding/hex"
	"fmt"
	"go/format"
	"os"
	"os/exec"
	"path/filepath"
	"regexp"
	"sort"
	"strings"

	"github.com/koykov/inspector"
)

type unit struct {
	id, pkg, root, src string
	bl                 map[string]struct{}
	noclean, stale     bool
	obs                map[string]string
}

var reNum = regexp.MustCompile(`\b(t|err|i)\d+\b`)

func hashText(s []byte) string {
	var h uint64 = 7
	const m = 2305843009213693951
	for _, c := range s {
		// (h*131 + c) mod m without overflow: h < 2^61, 131 < 2^8 -> < 2^69: use big steps
		hi := (h >> 32) * 131
		lo := (h & 0xffffffff) * 131
		// hi*2^32 + lo mod m
		r := (hi % m)
		for i := 0; i < 32; i++ {
			r = (r * 2) % m
		}
		h = (r + lo%m + uint64(c)) % m
	}
	return fmt.Sprint(h)
}

// The caller's configuration belongs to the caller: one allocated (mostly empty) blacklist map is handed to every second
// generator run of this process that has none of its own - as inspc does for an empty blacklist file - and every run's map
// must be after the run what it was before it.  A generator that records what it parsed in the caller's map makes the next
// compiler built from the same configuration (the XML dump, the second target, a second run) see other declarations.
var sharedBL = map[string]struct{}{}
var confRuns int

func guardBL(conf *inspector.Config) func() error {
	confRuns++
	if conf.BlackList == nil && confRuns%2 == 1 {
		conf.BlackList = sharedBL
	}
	bl := conf.BlackList
	before := map[string]struct{}{}
	for k := range bl {
		before[k] = struct{}{}
	}
	return func() error {
		same := len(bl) == len(before)
		for k := range bl {
			if _, ok := before[k]; !ok {
				same = false
				delete(bl, k)
			}
		}
		for k := range before {
			if _, ok := bl[k]; !ok {
				same = false
				bl[k] = struct{}{}
			}
		}
		if !same {
			return fmt.Errorf("the generator changed the caller's Config.BlackList")
		}
		return nil
	}
}

func compile(conf *inspector.Config) error {
	conf.Buf = &bytes.Buffer{}
	check := guardBL(conf)
	c, err := inspector.NewCompiler(conf)
	if err != nil {
		return err
	}
	if err = c.Compile(); err != nil {
		_ = check()
		return err
	}
	return check()
}

func writeXML(conf *inspector.Config, rel string) error {
	xc := *conf
	xc.XML = rel
	xc.Buf = &bytes.Buffer{}
	check := guardBL(&xc)
	c, err := inspector.NewCompiler(&xc)
	if err != nil {
		return err
	}
	if err = c.WriteXML(); err != nil {
		_ = check()
		return err
	}
	return check()
}

func readDir(dir string) map[string][]byte {
	out := map[string][]byte{}
	es, _ := os.ReadDir(dir)
	for _, e := range es {
		b, _ := os.ReadFile(filepath.Join(dir, e.Name()))
		out[e.Name()] = b
	}
	return out
}

func sameUpToNumbering(a, b map[string][]byte) bool {
	if len(a) != len(b) {
		return false
	}
	for k, v := range a {
		w, ok := b[k]
		if !ok {
			return false
		}
		if !bytes.Equal(reNum.ReplaceAll(v, []byte("$1#")), reNum.ReplaceAll(w, []byte("$1#"))) {
			return false
		}
	}
	return true
}

func xmlHashes(dir string) string {
	m := readDir(dir)
	var names []string
	for k := range m {
		names = append(names, k)
	}
	sort.Strings(names)
	var parts []string
	for _, n := range names {
		parts = append(parts, strings.TrimSuffix(n, ".xml")+":"+hashText(m[n]))
	}
	return strings.Join(parts, ",")
}

// emit mode (GENRUN_MODE=emit): generate with the file target only and build
// <root>/erun, a runner that links every unit whose output compiles.
var emitMode = os.Getenv("GENRUN_MODE") == "emit"

func main() {
	root, repo := os.Args[1], os.Args[2]
	base := filepath.Join(root, "src", "gen")
	_ = os.RemoveAll(base)
	must(os.MkdirAll(base, 0755))
	must(os.Chdir(base))
	var units []*unit
	in := bufio.NewReaderSize(os.Stdin, 1<<20)
	for {
		line, err := in.ReadString('\n')
		line = strings.TrimRight(line, "\n")
		if f := strings.Split(line, "\t"); len(f) >= 3 {
			p := strings.Split(f[2], ";")
			src, _ := hex.DecodeString(p[2])
			u := &unit{id: f[0], pkg: p[0], root: p[1], src: string(src), obs: map[string]string{}}
			for _, o := range p[3:] {
				switch {
				case strings.HasPrefix(o, "bl="):
					u.bl = map[string]struct{}{}
					for _, n := range strings.Split(o[3:], ",") {
						u.bl[n] = struct{}{}
					}
				case o == "nc=1":
					u.noclean, u.stale = true, true
				case o == "nc=0":
					u.stale = true
				}
			}
			units = append(units, u)
		}
		if err != nil {
			break
		}
	}
	// ---- a decoy first: the named scalar types the units use (Kind int32, Label string), declared the OTHER way round, are
	// generated before anything else in this process.  What the generator emits for a declaration set must not depend on
	// what the process generated earlier (no name-keyed state may survive from one set to the next).
	func() {
		defer func() { _ = recover() }()
		if os.Getenv("GENRUN_NODECOY") != "" {
			return
		}
		ddir := filepath.Join(base, "udecoy")
		must(os.MkdirAll(ddir, 0755))
		must(os.WriteFile(filepath.Join(ddir, "decl.go"), []byte("package udecoy\n\ntype Kind string\n\ntype Label int32\n\ntype Decoy struct {\n\tK Kind\n\tL Label\n\tM map[Kind]Label\n\tN map[Label]Kind\n\tS []Kind\n}\n"), 0644))
		_ = compile(&inspector.Config{Target: inspector.TargetFile, File: filepath.Join(ddir, "decl.go"), Import: "gen/udecoy", Destination: filepath.Join(base, "udecoy_ins")})
		_ = os.RemoveAll(ddir)
		_ = os.RemoveAll(filepath.Join(base, "udecoy_ins"))
	}()
	// ---- generate (sequentially: the generator keeps package-level counters)
	for ui, u := range units {
		dir := filepath.Join(base, u.pkg)
		must(os.MkdirAll(dir, 0755))
		must(os.WriteFile(filepath.Join(dir, "decl.go"), []byte(u.src), 0644))
		imp := "gen/" + u.pkg
		fconf := func(dst string) *inspector.Config {
			return &inspector.Config{Target: inspector.TargetFile, File: filepath.Join(dir, "decl.go"), Import: imp, Destination: filepath.Join(base, dst),
				BlackList: u.bl, NoClean: u.noclean}
		}
		if u.stale {
			// a file left over from an earlier run: removed unless NoClean
			must(os.MkdirAll(filepath.Join(base, u.pkg+"_ins"), 0755))
			must(os.WriteFile(filepath.Join(base, u.pkg+"_ins", "stale.txt"), []byte("old"), 0644))
		}
		func() {
			defer func() {
				if r := recover(); r != nil {
					u.obs["gen"] = "panic"
				}
			}()
			first := fconf(u.pkg + "_ins")
			if emitMode && ui%2 == 1 {
				// the runner of generated inspectors links, unit by unit in turn, what the file target (go/ast parser) and what
				// the package target (go/types loader) emit, so that both front ends stay under the emitter streams
				first = &inspector.Config{Target: inspector.TargetPackage, Package: imp, Destination: "gen/" + u.pkg + "_ins"}
			}
			if err := compile(first); err != nil {
				u.obs["gen"] = "err"
				return
			}
			u.obs["gen"] = "ok"
			out := readDir(filepath.Join(base, u.pkg+"_ins"))
			var names []string
			fmtok := "ok"
			for n, b := range out {
				names = append(names, n)
				if !strings.HasSuffix(n, ".go") {
					continue
				}
				if fb, err := format.Source(b); err != nil || !bytes.Equal(fb, b) {
					fmtok = "no"
				}
			}
			sort.Strings(names)
			u.obs["files"] = strings.Join(names, ",")
			u.obs["fmt"] = fmtok
			// compile-time interface assertion, one per generated file
			mkzz := func(out map[string][]byte) string {
				var zz strings.Builder
				zz.WriteString("package " + u.pkg + "_ins\n\nimport \"github.com/koykov/inspector\"\n\n")
				var ns []string
				for n := range out {
					ns = append(ns, n)
				}
				sort.Strings(ns)
				for _, n := range ns {
					if !strings.HasSuffix(n, ".go") || n == "zz_check.go" {
						continue
					}
					if m := regexp.MustCompile(`(?m)^type (\w+Inspector) struct`).FindSubmatch(out[n]); m != nil {
						zz.WriteString("var _ inspector.Inspector = " + string(m[1]) + "{}\n")
					}
				}
				return zz.String()
			}
			if emitMode {
				return
			}
			// second run and the other targets, for C13
			u.obs["srchash"] = normHash(out)
			if os.Getenv("GENRUN_HASHONLY") != "" {
				return
			}
			// NoClean on, destination not there yet (the first run of a build that never cleans): the generator succeeds and writes
			// the same files (C14 quantifies over NoClean on/off; the unit's own nc= option covers a destination that exists)
			if !u.stale { // (a unit whose destination was seeded with a leftover file compares against that file as well)
				nconf := fconf(u.pkg + "_insn")
				nconf.NoClean = true
				_ = os.RemoveAll(filepath.Join(base, u.pkg+"_insn"))
				if err := compile(nconf); err != nil {
					u.obs["gen"] = "err-noclean-fresh"
				} else if !sameUpToNumbering(out, readDir(filepath.Join(base, u.pkg+"_insn"))) {
					u.obs["gen"] = "noclean-fresh-differs"
				}
				_ = os.RemoveAll(filepath.Join(base, u.pkg+"_insn"))
			}
			det, tgt := "ok", "ok"
			if err := compile(fconf(u.pkg + "_ins2")); err != nil || !sameUpToNumbering(out, readDir(filepath.Join(base, u.pkg+"_ins2"))) {
				det = "no"
			}
			dconf := &inspector.Config{Target: inspector.TargetDirectory, Directory: dir, Import: imp, Destination: filepath.Join(base, u.pkg+"_insd")}
			if err := compile(dconf); err != nil || !sameUpToNumbering(out, readDir(filepath.Join(base, u.pkg+"_insd"))) {
				tgt = "dir-differs"
			}
			pconf := &inspector.Config{Target: inspector.TargetPackage, Package: imp, Destination: "gen/" + u.pkg + "_insp"}
			if err := compile(pconf); err != nil {
				tgt += "+pkg-err"
			} else if !sameUpToNumbering(out, readDir(filepath.Join(base, u.pkg+"_insp"))) {
				tgt += "+pkg-differs"
			}
			// regeneration into a KEPT destination (NoClean) after a same-size edit of the declarations: what is on disk afterwards
			// must be what a fresh destination gets - the output is a function of the declarations, not of the destination's past
			if variant := strings.Replace(strings.Replace(u.src, "\tF ", "\tG ", 1), "\tA ", "\tZ ", 1); variant != u.src && len(u.bl) == 0 && !u.stale {
				kconf := func() *inspector.Config { c := fconf(u.pkg + "_insk"); c.NoClean = true; return c }
				must(os.WriteFile(filepath.Join(dir, "decl.go"), []byte(variant), 0644))
				e1 := compile(kconf())
				ex1 := writeXML(kconf(), "xmlk_"+u.pkg)
				must(os.WriteFile(filepath.Join(dir, "decl.go"), []byte(u.src), 0644))
				e2 := compile(kconf())
				ex2 := writeXML(kconf(), "xmlk_"+u.pkg)
				if e1 != nil || e2 != nil || !sameUpToNumbering(out, readDir(filepath.Join(base, u.pkg+"_insk"))) {
					det += "+stale-src"
				}
				must(os.RemoveAll(filepath.Join(base, "xmlf_"+u.pkg)))
				ex3 := writeXML(fconf("-"), "xmlf_"+u.pkg)
				if ex1 != nil || ex2 != nil || ex3 != nil || !sameBytes(readDir(filepath.Join(base, "xmlf_"+u.pkg)), readDir(filepath.Join(base, "xmlk_"+u.pkg))) {
					det += "+stale-xml"
				}
				det = strings.TrimPrefix(det, "ok+")
				for _, d := range []string{u.pkg + "_insk", "xmlk_" + u.pkg, "xmlf_" + u.pkg} {
					_ = os.RemoveAll(filepath.Join(base, d))
				}
			}
			u.obs["det"], u.obs["tgt"] = det, strings.TrimPrefix(tgt, "ok+")
			for _, d := range []string{"_ins2", "_insd", "_insp"} {
				// what another target emitted differently is kept and compiled as well (C14 is about every target's output)
				if (d == "_insd" && strings.Contains(tgt, "dir-differs") || d == "_insp" && strings.Contains(tgt, "pkg-differs")) && len(readDir(filepath.Join(base, u.pkg+d))) > 0 {
					must(os.WriteFile(filepath.Join(base, u.pkg+d, "zz_check.go"), []byte(mkzz(readDir(filepath.Join(base, u.pkg+d)))), 0644))
					continue
				}
				_ = os.RemoveAll(filepath.Join(base, u.pkg+d))
			}
			must(os.WriteFile(filepath.Join(base, u.pkg+"_ins", "zz_check.go"), []byte(mkzz(out)), 0644))
			// XML dumps
			if err := writeXML(fconf("-"), "xmlast_"+u.pkg); err == nil {
				u.obs["xmlast"] = xmlHashes(filepath.Join(base, "xmlast_"+u.pkg))
			} else {
				u.obs["xmlast"] = "err"
			}
			x1 := readDir(filepath.Join(base, "xmlast_"+u.pkg))
			if err := writeXML(dconf, "xmldir_"+u.pkg); err != nil || !sameBytes(x1, readDir(filepath.Join(base, "xmldir_"+u.pkg))) {
				u.obs["xmlast"] += "(dir-differs)"
			}
			if err := writeXML(pconf, "xmlpkg_"+u.pkg); err == nil {
				u.obs["xmlpkg"] = xmlHashes(filepath.Join(base, "xmlpkg_"+u.pkg))
			} else {
				u.obs["xmlpkg"] = "err"
			}
			if os.Getenv("GENRUN_KEEPXML") == "" {
				for _, d := range []string{"xmlast_", "xmldir_", "xmlpkg_"} {
					_ = os.RemoveAll(filepath.Join(base, d+u.pkg))
				}
			}
		}()
	}
	// ---- compile everything at once
	gomod := "module gen\n\ngo 1.22.0\n\nrequire (\n\tgithub.com/koykov/inspector v0.0.0\n\tgithub.com/koykov/byteconv v1.0.1\n\tgithub.com/koykov/x2bytes v1.0.2\n)\n\nreplace github.com/koykov/inspector => " + repo + "\n"
	must(os.WriteFile(filepath.Join(base, "go.mod"), []byte(gomod), 0644))
	sum, _ := os.ReadFile(filepath.Join(repo, "go.sum"))
	must(os.WriteFile(filepath.Join(base, "go.sum"), sum, 0644))
	if emitMode {
		gomod += "\nrequire verif/harness v0.0.0\n\nreplace verif/harness => " + os.Getenv("GENRUN_HARNESS") + "\n"
		must(os.WriteFile(filepath.Join(base, "go.mod"), []byte(gomod), 0644))
	}
	cmd := exec.Command("go", "build", "./...")
	cmd.Dir = base
	cmd.Env = append(os.Environ(), "GO111MODULE=on", "GOMODCACHE="+os.Getenv("GENRUN_MODCACHE"), "GOPATH="+os.Getenv("GENRUN_GOPATH"), "GOFLAGS=-mod=mod", "GOPROXY=off", "GOSUMDB=off", "GOTOOLCHAIN=local")
	outb, _ := cmd.CombinedOutput()
	failed := map[string]bool{}
	for _, l := range strings.Split(string(outb), "\n") {
		if strings.HasPrefix(l, "# gen/") {
			name := strings.Fields(l)[1][len("gen/"):]
			for _, suf := range []string{"_insd", "_insp", "_ins"} {
				if strings.HasSuffix(name, suf) {
					name = strings.TrimSuffix(name, suf)
					break
				}
			}
			failed[name] = true
		}
	}
	if os.Getenv("GENRUN_BUILDLOG") != "" {
		_ = os.WriteFile(os.Getenv("GENRUN_BUILDLOG"), outb, 0644)
	}
	if emitMode {
		// registry + main of the runner, over the units that compiled
		var imp, reg strings.Builder
		for _, u := range units {
			if u.obs["gen"] != "ok" || failed[u.pkg] {
				continue
			}
			imp.WriteString("\t" + u.pkg + " \"gen/" + u.pkg + "\"\n\t_ \"gen/" + u.pkg + "_ins\"\n")
			reg.WriteString("\temit.Register(\"" + u.root + "\", reflect.TypeOf(" + u.pkg + "." + u.root + "{}))\n")
		}
		mainsrc := "package main\n\nimport (\n\t\"reflect\"\n\n\t\"verif/harness/emit\"\n" + imp.String() + ")\n\nfunc main() {\n" + reg.String() + "\temit.Main()\n}\n"
		must(os.MkdirAll(filepath.Join(base, "erun"), 0755))
		must(os.WriteFile(filepath.Join(base, "erun", "main.go"), []byte(mainsrc), 0644))
		cmd := exec.Command("go", "build", "-o", filepath.Join(root, "erun"), "./erun")
		cmd.Dir = base
		cmd.Env = append(os.Environ(), "GO111MODULE=on", "GOMODCACHE="+os.Getenv("GENRUN_MODCACHE"), "GOPATH="+os.Getenv("GENRUN_GOPATH"), "GOFLAGS=-mod=mod", "GOPROXY=off", "GOSUMDB=off", "GOTOOLCHAIN=local")
		if ob, err := cmd.CombinedOutput(); err != nil {
			fmt.Fprintln(os.Stderr, "genrun: building erun failed:", string(ob))
			os.Exit(1)
		}
	}
	out := bufio.NewWriter(os.Stdout)
	defer out.Flush()
	for _, u := range units {
		if u.obs["gen"] == "ok" {
			if failed[u.pkg] {
				u.obs["build"], u.obs["iface"] = "fail", "fail"
			} else {
				u.obs["build"], u.obs["iface"] = "ok", "ok"
			}
		}
		var parts []string
		for _, k := range []string{"gen", "files", "fmt", "build", "iface", "xmlast", "xmlpkg", "det", "tgt", "srchash"} {
			if v, ok := u.obs[k]; ok {
				parts = append(parts, k+"="+v)
			}
		}
		fmt.Fprintf(out, "%s\t%s\n", u.id, strings.Join(parts, ";"))
	}
}

// normHash: a hash of the generated sources with the numbering of generated local identifiers normalised
func normHash(m map[string][]byte) string {
	var names []string
	for n := range m {
		names = append(names, n)
	}
	sort.Strings(names)
	var b bytes.Buffer
	for _, n := range names {
		b.WriteString(n + "\n")
		b.Write(reNum.ReplaceAll(m[n], []byte("$1#")))
	}
	return hashText(b.Bytes())
}

func sameBytes(a, b map[string][]byte) bool {
	if len(a) != len(b) {
		return false
	}
	for k, v := range a {
		if !bytes.Equal(v, b[k]) {
			return false
		}
	}
	return true
}

func must(err error) {
	if err != nil {
		fmt.Fprintln(os.Stderr, "genrun:", err)
		os.Exit(1)
	}
}
