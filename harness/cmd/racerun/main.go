// racerun - C20 exploration, built with -race: N goroutines issue random read
// operations on SHARED values through shared inspectors and write operations on
// PRIVATE values with private buffers; every call's result is compared with the
// result the same goroutine obtains when it runs alone.  Private values are built
// in place (newObj) or derived from shared templates by Copy / CopyTo (derived.go);
// for the latter each goroutine also checks that they hold what it stored itself.
// Third population (scratch.go): read operations that REUSE the goroutine's scratch
// state - one key buffer for all Loop calls, one result buffer for all GetTo calls,
// one bool, one int, one ByteBuffer - across string-keyed maps, numeric-keyed maps and
// slices of the same shared values.  Every shared value of the run must be, after the
// goroutines have finished, what it was before they started.
// Fourth population (leaves.go): for EVERY shipped inspector type, private values copied
// from templates in which every pointer - fields, slice elements, map values, map keys -
// has a cell of its own, written at every leaf (Set, SetWithBuffer, Reset, the owner's
// direct writes) while the others read the templates; a private value must be, through
// every pointer, what its goroutine left there.
// Fifth population (flows.go): information flow from shared to private values BY REFERENCE - what
// Get returned on a shared value (text, containers, pointers) is handed to Set on a private value
// of the same or of another type, which its goroutine then keeps writing (Set, SetWithBuffer,
// CopyTo into it with its own buffer, Reset, appends where the memory is its own) while the
// others read the shared values: a text leaf is replaced, never rewritten where it lies.
// RACERUN_TRACE=1 prints every goroutine's calls and results (the run alone).
//
//	racerun <seed> <goroutines> <ops-per-goroutine>
package main

import (
	"fmt"
	"math/rand"
	"os"
	"reflect"
	"strconv"
	"sync"

	"github.com/koykov/inspector"
	"github.com/koykov/inspector/testobj"
	"github.com/koykov/inspector/testobj_ins"
	"verif/harness/emit"
)

type iter struct {
	n    int
	keys string
	want bool
}

func (i *iter) RequireKey() bool { return i.want }
func (i *iter) SetKey(val any, _ inspector.Inspector) {
	if p, ok := val.(*[]byte); ok {
		i.keys += string(*p) + ","
	}
}
func (i *iter) SetVal(any, inspector.Inspector) {}
func (i *iter) Iterate() inspector.LoopCtl      { i.n++; return inspector.LoopCtlNone }

func newObj() *testobj.TestObject {
	p := testobj.TestPermission{15: true, 23: false}
	return &testobj.TestObject{
		Id: "foo", Name: []byte("bar"), Status: 78, Ustate: 4, Cost: 14.345, Permission: &p,
		HistoryTree: map[string]*testobj.TestHistory{"x": {DateUnix: 1, Cost: 2.5, Comment: []byte("c1")}, "y": {DateUnix: 2, Cost: 3.5, Comment: []byte("c2")}},
		Flags:       testobj.TestFlag{"export": 17, "ro": 4},
		Finance: &testobj.TestFinance{MoneyIn: 3200, MoneyOut: 1500.637657, Balance: 9000, AllowBuy: true,
			History: []testobj.TestHistory{{DateUnix: 152354345634, Cost: 14.345241, Comment: []byte("pay for domain")}, {DateUnix: 153465345246, Cost: 1325.65124, Comment: []byte("got refund")}}},
	}
}

var sharedOpts = []*inspector.DEQOptions{
	{Exclude: map[string]struct{}{"Finance.History.Comment": {}}},
	{Filter: map[string]struct{}{"Finance": {}, "Finance.Balance": {}, "Cost": {}}},
	{Precision: 0.01, Exclude: map[string]struct{}{"Id": {}}},
	{},
}

var (
	shared   = newObj()
	shared2  = newObj()
	strs     = []string{"alpha", "beta", "gamma"}
	anymap   = map[string]any{"a": 1, "b": "two", "c": map[string]any{"d": []byte("three")}}
	objIns   = testobj_ins.TestObjectInspector{}
	strIns   = inspector.StringsInspector{}
	mapIns   = inspector.StringAnyMapInspector{}
	statIns  = inspector.StaticInspector{}
	getPaths = [][]string{{"Id"}, {"Name"}, {"Status"}, {"Finance", "Balance"}, {"Finance", "History", "1", "Comment"}, {"HistoryTree", "x", "Cost"}, {"Flags", "export"}, {"Permission", "15"}, {"Nope"}, {"Finance", "History", "7"}}
)

// one goroutine's work: deterministic in (seed, gid); results are returned as texts, and the
// cases in which a private value did not hold what the goroutine itself had stored there.
// written() is called when the goroutine has issued its last write operation and returns when
// every goroutine has (alone: at once); the private values are then read once more.
func work(seed int64, gid, nops int, written func()) ([]string, []string) {
	r := rand.New(rand.NewSource(seed*1000 + int64(gid)))
	private := newObj()
	pbuf := inspector.NewByteBuffer(64)
	var lbuf []byte
	out := make([]string, 0, nops+1)
	ds := &derivedState{}
	sc := newScratch(gid)
	lv := &leavesState{}
	fl := &flowState{}
	for k := 0; k < nops; k++ {
		var res string
		switch r.Intn(30) {
		case 0, 1, 2:
			v, err := objIns.Get(shared, getPaths[r.Intn(len(getPaths))]...)
			res = "get " + emit.DumpDeref(reflect.ValueOf(v)) + " " + fmt.Sprint(err)
		case 3:
			var b bool
			err := objIns.Compare(shared, inspector.Op(1+r.Intn(6)), strconv.Itoa(70+r.Intn(20)), &b, "Status")
			res = fmt.Sprint("cmp ", b, err)
			// paths that do not resolve to a leaf: absent key, index out of range, unknown field, a pointer field itself
			cp := [][]string{{"Flags", "nokey"}, {"Finance", "History", "9", "Cost"}, {"Nope"}, {"Finance"}, {"HistoryTree", "zz", "Cost"}, {"Permission", "99"}}[r.Intn(6)]
			var b2 bool
			err2 := objIns.Compare(shared, inspector.OpNq, "nil", &b2, cp...)
			res += fmt.Sprint(" cmp2 ", b2, err2)
		case 4:
			var n int
			err := objIns.Length(shared, &n, "Finance", "History")
			var c int
			_ = objIns.Capacity(shared, &c, "Name")
			res = fmt.Sprint("len ", n, c, err)
		case 5:
			it := &iter{want: r.Intn(2) == 0}
			err := objIns.Loop(shared, it, &lbuf, "Finance", "History")
			res = fmt.Sprint("loop ", it.n, it.keys, err)
			lp := [][]string{{"Flags"}, {"Flags", "x"}, {"Nope"}, {"Finance"}, {"HistoryTree"}, {"Finance", "History", "0"}, {"Permission"}}[r.Intn(7)]
			it2 := &iter{}
			err2 := objIns.Loop(shared, it2, &lbuf, lp...)
			res += fmt.Sprint(" loop2 ", it2.n, err2)
		case 6:
			res = fmt.Sprint("deq ", objIns.DeepEqual(shared, shared2), objIns.DeepEqualWithOptions(shared, shared2, &inspector.DEQOptions{Exclude: map[string]struct{}{"Cost": {}}}),
				// options objects are values callers share too: one without a precision, one with, used by every goroutine
				objIns.DeepEqualWithOptions(shared, shared2, sharedOpts[r.Intn(len(sharedOpts))]))
		case 7:
			c, err := objIns.Copy(shared)
			res = "copy " + emit.Dump(reflect.ValueOf(c).Elem()) + fmt.Sprint(err)
		case 8:
			v, err := strIns.Get(strs, strconv.Itoa(r.Intn(4)))
			var b bool
			_ = strIns.Compare(strs, inspector.OpEq, "beta", &b, "1")
			res = "strs " + emit.DumpDeref(reflect.ValueOf(v)) + fmt.Sprint(b, err)
		case 9:
			v, err := mapIns.Get(anymap, "c", "d")
			var n int
			_ = mapIns.Length(anymap, &n, "b")
			res = "anymap " + fmt.Sprint(v, n, err)
		case 10:
			if _, err := inspector.GetInspector("TestObject"); err != nil {
				res = "noinspector"
			}
			var b bool
			err := statIns.Compare(int32(5), inspector.OpLt, "7", &b)
			res += fmt.Sprint("static ", b, statIns.DeepEqual("x", []byte("x")), err)
		case 11:
			err := objIns.SetWithBuffer(private, strconv.Itoa(r.Intn(1000)), pbuf, "Id")
			err2 := objIns.Set(private, int32(r.Intn(100)), "Status")
			res = fmt.Sprint("set ", private.Id, private.Status, err, err2)
		case 12:
			err := objIns.SetWithBuffer(private, float64(r.Intn(100)), pbuf, "Finance", "History", "0", "Cost")
			res = fmt.Sprint("setdeep ", private.Finance.History[0].Cost, err)
		case 13:
			dst := &testobj.TestObject{}
			pbuf.Reset()
			err := objIns.CopyTo(shared, dst, pbuf)
			res = "copyto " + emit.Dump(reflect.ValueOf(dst).Elem()) + fmt.Sprint(err)
		case 14:
			err := objIns.Reset(private)
			res = "reset " + emit.Dump(reflect.ValueOf(private).Elem()) + fmt.Sprint(err)
			private = newObj()
		case 15:
			var d int64
			var s string
			ok := inspector.Assign(&d, strconv.Itoa(r.Intn(1000)))
			ok2 := inspector.AssignBuf(&s, r.Intn(1000), pbuf)
			res = fmt.Sprint("assign ", d, s, ok, ok2)
		case 16, 17, 18, 19:
			// private values derived from shared ones (derived.go)
			res = ds.step(r)
		case 23, 24, 25, 26:
			// every leaf of private values copied from templates of every shipped type (leaves.go)
			res = lv.step(r)
		case 27, 28, 29:
			// what Get returned on a shared value, handed to Set on a private one (flows.go)
			res = fl.step(r)
		default:
			// read operations on shared values with the goroutine's reused scratch state (scratch.go)
			res = sc.step(r)
		}
		out = append(out, res)
	}
	written()
	out = append(out, ds.final(), sc.final(), lv.final(), fl.final())
	return out, append(append(append(ds.bad, sc.bad...), lv.bad...), fl.bad...)
}

func main() {
	seed, _ := strconv.ParseInt(os.Args[1], 10, 64)
	g, _ := strconv.Atoi(os.Args[2])
	nops, _ := strconv.Atoi(os.Args[3])
	registerShared()
	indexShared()
	conc := make([][]string, g)
	bad := make([][]string, g)
	var wg, writers sync.WaitGroup
	writers.Add(g)
	start := make(chan struct{}) // all goroutines begin together
	for i := 0; i < g; i++ {
		wg.Add(1)
		go func(i int) {
			defer wg.Done()
			<-start
			conc[i], bad[i] = work(seed, i, nops, func() { writers.Done(); writers.Wait() })
		}(i)
	}
	close(start)
	wg.Wait()
	// read operations leave a value unchanged: every shared value is what it was before the goroutines started
	changed := sharedChanged("after the concurrent run")
	mism, foreign := 0, 0
	first := ""
	if len(changed) > 0 {
		first = changed[0]
	}
	for i := 0; i < g; i++ {
		alone, badAlone := work(seed, i, nops, func() {})
		if os.Getenv("RACERUN_TRACE") != "" {
			for k, a := range alone {
				fmt.Printf("g%d.%d %s\n", i, k, a)
			}
		}
		for _, b := range append(bad[i], badAlone...) {
			foreign++
			if first == "" {
				first = fmt.Sprintf("goroutine %d: a private value does not hold what the goroutine stored: %s", i, b)
			}
		}
		for k := range alone {
			if alone[k] != conc[i][k] {
				mism++
				if first == "" {
					first = fmt.Sprintf("goroutine %d op %d: alone %q concurrent %q", i, k, alone[k], conc[i][k])
				}
			}
		}
	}
	// ... and the runs alone (the reference of the comparison) have left them unchanged as well
	changed = append(changed, sharedChanged("after the runs alone")...)
	if first == "" && len(changed) > 0 {
		first = changed[0]
	}
	fmt.Printf("calls=%d mismatches=%d not-as-stored=%d shared-values-changed=%d %s\n", g*(nops+4), mism, foreign, len(changed), first)
	if mism > 0 || foreign > 0 || len(changed) > 0 {
		os.Exit(3)
	}
}
